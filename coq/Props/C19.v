(* C19 -- Substrate junction encoding and wallet derivation are consistent.
   Statements only; every proof is [exact <lemma>] with Print Assumptions beneath.

   Model: Model/SubstratePath.v, Model/SubstrateScale.v (+ Model/PyText.v for str.isnumeric / int()).
   Blake2b-256 and the sr25519 operations are universally quantified functions (oracles).
   [chain_code]: a junction of decimal digits only (str.isdecimal(), any script) is an integer; every other
   junction -- including characters that are numeric but not decimal, such as superscripts, fractions and CJK
   numerals -- is text.  (Before /repo commit 7ac5fcb the code tested str.isnumeric() and let int()'s
   ValueError escape for those: defect F5, repaired.)
   Not covered here: "the address is the SS58 encoding of the public key" -- SS58 is modelled by
   another contributor; harness/props/C19.py checks it directly on the implementation for all coins. *)
From Coq Require Import NArith ZArith List.
From BU Require Import Base.Exn Base.Bytes Model.PyText Model.SubstrateScale Model.SubstratePath.
From BU Require Import Lemmas.UnicodeOk.
From BU Require Lemmas.SubstrateScale Lemmas.SubstratePath.
Import ListNotations.
Open Scope N_scope.

Definition elem_ok := Lemmas.SubstratePath.elem_ok.     (* non-empty junction text without '/' *)
Definition scalar := Lemmas.SubstrateScale.scalar.      (* Unicode scalar value: < 0x110000, not a surrogate *)
Definition utf8_len := Lemmas.SubstrateScale.utf8_len.  (* 1, 2, 3, 4 bytes below 0x80, 0x800, 0x10000, 0x110000 *)

(* ---- parsing and printing round-trip; trailing slashes are ignored; every refusal is the path error ---- *)
Theorem parse_to_str : forall p, Forall elem_ok p -> parse (to_str p) = Ok p.
Proof. exact Lemmas.SubstratePath.parse_to_str. Qed.
Print Assumptions parse_to_str.

Example parse_to_str_ex :       (* //Alice/0 *)
  let p := [mk_elem [65; 108; 105; 99; 101] true; mk_elem [48] false] in
  Forall elem_ok p /\ to_str p = [47; 47; 65; 108; 105; 99; 101; 47; 48].
Proof.
  split; [|vm_compute; reflexivity].
  repeat constructor; cbn; try discriminate; intros H; repeat (destruct H as [H|H]; [discriminate|]); exact H.
Qed.
Print Assumptions parse_to_str_ex.

Theorem parse_to_str_trailing_slashes : forall p t, Forall elem_ok p -> parse (to_str p ++ repeat 47 t) = Ok p.
Proof. exact Lemmas.SubstratePath.parse_to_str_slashes. Qed.
Print Assumptions parse_to_str_trailing_slashes.

Theorem parse_print_parse : forall s p, parse s = Ok p -> Forall elem_ok p /\ parse (to_str p) = Ok p.
Proof.
  intros s p H. split; [exact (Lemmas.SubstratePath.parse_elems_ok s p H)|exact (Lemmas.SubstratePath.parse_print_parse s p H)].
Qed.
Print Assumptions parse_print_parse.

(* exactly the printed forms, followed by any number of slashes, are accepted *)
Theorem parse_accepts_iff : forall s p,
  parse s = Ok p <-> exists t, s = to_str p ++ repeat 47 t /\ Forall elem_ok p.
Proof. exact Lemmas.SubstratePath.parse_accepts_iff. Qed.
Print Assumptions parse_accepts_iff.

Theorem parse_rejects_with_path_error : forall s e, parse s = Err e -> e = LibError SubstratePathError.
Proof. exact Lemmas.SubstratePath.parse_err. Qed.
Print Assumptions parse_rejects_with_path_error.

(* ---- decimal junctions: the little-endian integer in 32 bytes below 2^256, the path error from 2^256 on
        (and for numerals with more digits than the interpreter's int() reads, 4300 by default) ---- *)
Theorem chain_code_numeric : forall (blake : list N -> list N) body, py_isdecimal body = true ->
  (int_limit_ok (length body) = true -> numeral_value body < 2 ^ 256 ->
     exists b, chain_code blake body = Ok b /\ length b = 32%nat /\ bytes_ok b /\ le_to_int b = numeral_value body) /\
  (int_limit_ok (length body) = true -> 2 ^ 256 <= numeral_value body ->
     chain_code blake body = Err (LibError SubstratePathError)) /\
  (int_limit_ok (length body) = false -> chain_code blake body = Err (LibError SubstratePathError)).
Proof. exact Lemmas.SubstratePath.chain_code_numeric. Qed.
Print Assumptions chain_code_numeric.

Example chain_code_numeric_ex :   (* "007", and the Arabic-Indic numeral U+0663 U+0664 = 34 *)
  py_isdecimal [48; 48; 55] = true /\ int_limit_ok 3 = true /\ numeral_value [48; 48; 55] = 7 /\
  py_isdecimal [1635; 1636] = true /\ numeral_value [1635; 1636] = 34.
Proof. vm_compute. auto 6. Qed.
Print Assumptions chain_code_numeric_ex.

(* ---- any other junction: SCALE compact length prefix, UTF-8 text; zero-padded to 32 bytes or Blake2b-256 ---- *)
Theorem chain_code_text : forall (blake : list N -> list N) body u,
  py_isdecimal body = false -> utf8_encode body = Ok u ->
  let n := N.of_nat (length u) in
  ((length u <= 31)%nat -> chain_code blake body = Ok (4 * n :: u ++ repeat 0 (31 - length u))) /\
  ((32 <= length u)%nat -> n < 2 ^ 6 -> chain_code blake body = Ok (blake (4 * n :: u))) /\
  (2 ^ 6 <= n < 2 ^ 14 -> exists pre, length pre = 2%nat /\ bytes_ok pre /\ le_to_int pre = 4 * n + 1 /\
     chain_code blake body = Ok (blake (pre ++ u))) /\
  (2 ^ 14 <= n < 2 ^ 30 -> exists pre, length pre = 4%nat /\ bytes_ok pre /\ le_to_int pre = 4 * n + 2 /\
     chain_code blake body = Ok (blake (pre ++ u))).
Proof. exact Lemmas.SubstratePath.chain_code_text. Qed.
Print Assumptions chain_code_text.

Example chain_code_text_ex :      (* "Alice" *)
  let body := [65; 108; 105; 99; 101] in
  py_isdecimal body = false /\ utf8_encode body = Ok body /\
  forall blake, chain_code blake body = Ok ([20; 65; 108; 105; 99; 101] ++ repeat 0 26).
Proof. split; [vm_compute; reflexivity|]. split; [vm_compute; reflexivity|]. intros blake. vm_compute. reflexivity. Qed.
Print Assumptions chain_code_text_ex.

(* numeric for str.isnumeric() but not decimal: U+00B2 SUPERSCRIPT TWO is a TEXT junction, 08 c2 b2 00.. *)
Example chain_code_text_sup2_ex :
  let body := [178] in
  py_isnumeric body = true /\ py_isdecimal body = false /\ utf8_encode body = Ok [194; 178] /\
  forall blake, chain_code blake body = Ok ([8; 194; 178] ++ repeat 0 29).
Proof.
  split; [vm_compute; reflexivity|]. split; [vm_compute; reflexivity|]. split; [vm_compute; reflexivity|].
  intros blake. vm_compute. reflexivity.
Qed.
Print Assumptions chain_code_text_sup2_ex.

Theorem chain_code_text_unencodable : forall (blake : list N -> list N) body e,
  py_isdecimal body = false -> utf8_encode body = Err e -> chain_code blake body = Err UnicodeError.
Proof. exact Lemmas.SubstratePath.chain_code_text_unencodable. Qed.
Print Assumptions chain_code_text_unencodable.

(* every refusal is the path error, except the encoding error of a text junction holding a lone surrogate
   (junction texts below 2^30 encoded bytes, the range of the fixed-width compact modes) *)
Theorem chain_code_rejects_with_path_error : forall (blake : list N -> list N) body e,
  (forall u, utf8_encode body = Ok u -> N.of_nat (length u) < 2 ^ 30) ->
  chain_code blake body = Err e ->
  e = LibError SubstratePathError \/ (e = UnicodeError /\ py_isdecimal body = false).
Proof. exact Lemmas.SubstratePath.chain_code_err. Qed.
Print Assumptions chain_code_rejects_with_path_error.

Example chain_code_text_unencodable_ex :   (* a lone surrogate U+D800 *)
  py_isdecimal [55296] = false /\ utf8_encode [55296] = Err UnicodeError.
Proof. vm_compute. auto. Qed.
Print Assumptions chain_code_text_unencodable_ex.

(* SCALE compact integers at the 2^6 / 2^14 / 2^30 mode switches *)
Theorem scale_compact : forall v,
  (v < 2 ^ 6 -> cuint_encode v = Ok [4 * v]) /\
  (2 ^ 6 <= v < 2 ^ 14 -> exists b, cuint_encode v = Ok b /\ length b = 2%nat /\ bytes_ok b /\ le_to_int b = 4 * v + 1) /\
  (2 ^ 14 <= v < 2 ^ 30 -> exists b, cuint_encode v = Ok b /\ length b = 4%nat /\ bytes_ok b /\ le_to_int b = 4 * v + 2).
Proof. exact Lemmas.SubstrateScale.cuint_encode_spec. Qed.
Print Assumptions scale_compact.

(* ---- UTF-8 (RFC 3629): defined exactly on scalar values, byte-valued, 1-4 bytes per code point, and the
        strict reference decoder (shortest form, no surrogates, <= U+10FFFF) inverts it; hence injective ---- *)
Theorem utf8_correct : forall s,
  (Forall scalar s -> exists b, utf8_encode s = Ok b /\ bytes_ok b /\
      length b = fold_right (fun c n => (utf8_len c + n)%nat) 0%nat s /\ utf8_decode b = Some s) /\
  (~ Forall scalar s -> utf8_encode s = Err UnicodeError).
Proof. exact Lemmas.SubstrateScale.utf8_encode_spec. Qed.
Print Assumptions utf8_correct.

Theorem utf8_injective : forall s1 s2 b, utf8_encode s1 = Ok b -> utf8_encode s2 = Ok b -> s1 = s2.
Proof. exact Lemmas.SubstrateScale.utf8_encode_inj. Qed.
Print Assumptions utf8_injective.

Example utf8_ex :   (* "a", e-acute, euro sign, U+1F600; a lone surrogate is refused *)
  utf8_encode [97; 233; 8364; 128512] = Ok [97; 195; 169; 226; 130; 172; 240; 159; 152; 128] /\
  utf8_encode [55296] = Err UnicodeError.
Proof. vm_compute. auto. Qed.
Print Assumptions utf8_ex.

(* ---- derivation, for every Blake2b-256 and sr25519 oracle ---- *)
Theorem derive_app : forall blake hard soft softpub p q k,
  derive_path blake hard soft softpub k (p ++ q) =
  (k' <- derive_path blake hard soft softpub k p ;; derive_path blake hard soft softpub k' q).
Proof. exact Lemmas.SubstratePath.derive_app. Qed.
Print Assumptions derive_app.

Theorem derive_is_child_chain : forall blake hard soft softpub p k,
  derive_path blake hard soft softpub k p =
  fold_left (fun r el => k' <- r ;; child_key blake hard soft softpub k' el) p (Ok k).
Proof. exact Lemmas.SubstratePath.derive_fold. Qed.
Print Assumptions derive_is_child_chain.

(* soft derivation commutes with taking the public key, given the schnorrkel law as a hypothesis *)
Theorem soft_commutes_public : forall blake hard soft softpub,
  (forall cc pk sk, fst (soft cc pk sk) = softpub cc pk) ->
  forall p k, Forall (fun el => e_hard el = false) p ->
    rmap to_public (derive_path blake hard soft softpub k p) = derive_path blake hard soft softpub (to_public k) p.
Proof. exact Lemmas.SubstratePath.soft_commutes_public. Qed.
Print Assumptions soft_commutes_public.

(* the law is satisfiable: pub' = cc ++ pub, priv' = priv *)
Example soft_law_ex :
  let soft := fun (cc pk sk : list N) => (cc ++ pk, sk) in
  let softpub := fun (cc pk : list N) => cc ++ pk in
  forall cc pk sk, fst (soft cc pk sk) = softpub cc pk.
Proof. intros. reflexivity. Qed.
Print Assumptions soft_law_ex.

(* hard junctions are refused on public-only objects: at once, and anywhere along a path *)
Theorem hard_refused_public : forall blake hard soft softpub k el,
  k_priv k = None -> e_hard el = true ->
  child_key blake hard soft softpub k el = Err (LibError SubstrateKeyError).
Proof. exact Lemmas.SubstratePath.hard_refused_public. Qed.
Print Assumptions hard_refused_public.

(* premises satisfiable: a public-only key walks the soft junction /a, then meets the hard junction //b *)
Example hard_refused_public_path_ex :
  let blake := fun b : list N => firstn 32 (b ++ repeat 0 32) in
  let hard := fun cc pk sk : list N => (pk, sk) in
  let soft := fun cc pk sk : list N => (cc, sk) in
  let softpub := fun cc pk : list N => cc in
  let k := mk_skey None (repeat 1 32) [] in
  k_priv k = None /\ e_hard (mk_elem [98] true) = true /\
  exists k', derive_path blake hard soft softpub k [mk_elem [97] false] = Ok k'.
Proof. split; [reflexivity|]. split; [reflexivity|]. eexists. vm_compute. reflexivity. Qed.
Print Assumptions hard_refused_public_path_ex.

Theorem hard_refused_public_path : forall blake hard soft softpub k p el q k',
  k_priv k = None -> derive_path blake hard soft softpub k p = Ok k' -> e_hard el = true ->
  derive_path blake hard soft softpub k (p ++ el :: q) = Err (LibError SubstrateKeyError).
Proof. exact Lemmas.SubstratePath.hard_refused_public_path. Qed.
Print Assumptions hard_refused_public_path.

(* ===== linked to the concrete codec models ===== *)
(* (1) The clause the header lists as "not covered here" -- the address is the SS58 encoding of the derived public
       key -- on the SS58 model of C11 (Model/SS58.v, Lemmas/SS58Ok.v): path string -> derived key -> address ->
       the library's decoder returns the derived public key (Model/LinkSubstrate.v).
   (2) The SCALE compact-integer and bytes encoders of this property's chain-code model (Model/SubstrateScale.v) and
       those of C11 (Model/Scale.v) are two independent transcriptions: proved equal on every input, so C11's
       decode-after-encode and unique-decodability theorems hold here -- including the big-integer mode (texts of
       2^30 bytes and more) that [scale_compact] above leaves out.
   (3) The UTF-8 encoder proved here against RFC 3629 is the same function as the two other transcriptions in the
       tree (Model/MnemText.v for C17, Model/Seeds.v for C02) on every Python string.
   Oracles left: Blake2b-512 / Blake2b-256, the sr25519 operations and key test. *)
From BU Require Import Gen.CodecConsts Model.Scale Model.Codecs Model.AddrText Model.LinkSubstrate.
From BU Require Model.MnemText Model.Seeds.
From BU Require Lemmas.LinkSubstrate Lemmas.LinkScale Lemmas.LinkUtf8.

Theorem wallet_address_is_ss58_of_derived_key : forall blake256 blake512 hard soft softpub valid_pub fmt k path s,
  (forall x, length (blake512 x) = 64%nat) -> (forall x, bytes_ok (blake512 x)) ->
  sub_wallet_address blake256 blake512 hard soft softpub fmt k path = Ok s ->
  exists p k', parse path = Ok p /\ derive_path blake256 hard soft softpub k p = Ok k' /\
    sub_address blake512 fmt k' = Ok s /\
    (bytes_ok (k_pub k') -> valid_pub 4 (k_pub k') = true ->
     sub_address_decode blake512 valid_pub fmt s = Ok (k_pub k')).
Proof.
  intros blake256 blake512 hard soft softpub valid_pub fmt k path s H1 H2.
  exact (Lemmas.LinkSubstrate.wallet_address_dec_enc blake256 blake512 hard soft softpub valid_pub H1 H2 fmt k path s).
Qed.
Print Assumptions wallet_address_is_ss58_of_derived_key.

(* watch-only: along soft junctions the public-only object yields the same address (from the schnorrkel law) *)
Theorem watch_only_same_address : forall blake256 blake512 hard soft softpub fmt k p,
  (forall cc pk sk, fst (soft cc pk sk) = softpub cc pk) -> Forall (fun el => e_hard el = false) p ->
  (k' <- derive_path blake256 hard soft softpub (to_public k) p ;; sub_address blake512 fmt k') =
  (k' <- derive_path blake256 hard soft softpub k p ;; sub_address blake512 fmt k').
Proof.
  intros blake256 blake512 hard soft softpub fmt k p L.
  exact (Lemmas.LinkSubstrate.watch_only_same_address blake256 blake512 hard soft softpub L fmt k p).
Qed.
Print Assumptions watch_only_same_address.

Theorem scale_models_agree :
  (forall v, cuint_encode v = scale_compact_encode (Z.of_N v)) /\
  (forall s u, utf8_encode s = Ok u -> bytes_encode_str s = scale_bytes_encode u).
Proof. exact (conj Lemmas.LinkScale.cuint_encode_eq Lemmas.LinkScale.bytes_encode_str_eq). Qed.
Print Assumptions scale_models_agree.

(* transported from C11: every compact prefix decodes, in all four modes *)
Theorem scale_compact_all_modes : forall v rest, v <= scale_big_max ->
  exists b, cuint_encode v = Ok b /\ compact_decode (b ++ rest) = Ok (v, rest) /\ bytes_ok b.
Proof. exact Lemmas.LinkScale.cuint_dec_enc. Qed.
Print Assumptions scale_compact_all_modes.

Theorem scale_compact_range_linked : forall v, scale_big_max < v -> cuint_encode v = Err ValueError.
Proof. exact Lemmas.LinkScale.cuint_range. Qed.
Print Assumptions scale_compact_range_linked.

(* a junction's text is recoverable from its SCALE encoding (compact length || UTF-8): no two texts collide
   before padding / hashing *)
Theorem junction_text_encoding_injective : forall s1 s2 b,
  bytes_encode_str s1 = Ok b -> bytes_encode_str s2 = Ok b -> s1 = s2.
Proof. exact Lemmas.LinkScale.bytes_encode_str_inj. Qed.
Print Assumptions junction_text_encoding_injective.

Theorem utf8_models_agree :
  (forall s, MnemText.utf8 s = utf8_encode s) /\
  (forall s, Forall (fun c => c < 1114112) s -> Seeds.utf8 s = utf8_encode s).
Proof. exact (conj Lemmas.LinkUtf8.mnem_utf8_eq Lemmas.LinkUtf8.seeds_utf8_eq). Qed.
Print Assumptions utf8_models_agree.

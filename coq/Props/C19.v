(* C19 -- stub while the model is being validated *)
From Coq Require Import NArith List.
From BU Require Import Base.Exn Model.SubstratePath.
Import ListNotations.
Open Scope N_scope.
Theorem parse_empty : parse [] = Ok [].
Proof. vm_compute. reflexivity. Qed.
Print Assumptions parse_empty.

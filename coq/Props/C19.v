(* C19 -- Substrate junction encoding and wallet derivation are consistent.
   Statements only; every proof is [exact <lemma>] with Print Assumptions beneath.

   Model: Model/SubstratePath.v, Model/SubstrateScale.v (+ Model/PyText.v for str.isnumeric / int()).
   Blake2b-256 and the sr25519 operations are universally quantified functions (oracles).
   [chain_code] is the rule the property demands (a junction that str.isnumeric() takes for a number but
   int() cannot read is refused with SubstratePathError); [chain_code_current] is today's code, where
   int()'s ValueError escapes (defect F5).
   Not covered here: "the address is the SS58 encoding of the public key" -- SS58 is modelled by
   another contributor; harness/props/C19.py checks it directly on the implementation for all coins. *)
From Coq Require Import NArith ZArith List.
From BU Require Import Base.Exn Base.Bytes Model.PyText Model.SubstrateScale Model.SubstratePath.
From BU Require Import Lemmas.UnicodeOk.
From BU Require Lemmas.SubstrateScale Lemmas.SubstratePath.
Import ListNotations.
Open Scope N_scope.

Definition elem_ok := Lemmas.SubstratePath.elem_ok.     (* non-empty junction text without '/' *)
Definition scalar := Lemmas.SubstrateScale.scalar.      (* Unicode scalar value: < 0x110000, not a surrogate *)
Definition utf8_len := Lemmas.SubstrateScale.utf8_len.  (* 1, 2, 3, 4 bytes below 0x80, 0x800, 0x10000, 0x110000 *)

(* ---- parsing and printing round-trip; trailing slashes are ignored; every refusal is the path error ---- *)
Theorem parse_to_str : forall p, Forall elem_ok p -> parse (to_str p) = Ok p.
Proof. exact Lemmas.SubstratePath.parse_to_str. Qed.
Print Assumptions parse_to_str.

Example parse_to_str_ex :       (* //Alice/0 *)
  let p := [mk_elem [65; 108; 105; 99; 101] true; mk_elem [48] false] in
  Forall elem_ok p /\ to_str p = [47; 47; 65; 108; 105; 99; 101; 47; 48].
Proof.
  split; [|vm_compute; reflexivity].
  repeat constructor; cbn; try discriminate; intros H; repeat (destruct H as [H|H]; [discriminate|]); exact H.
Qed.
Print Assumptions parse_to_str_ex.

Theorem parse_to_str_trailing_slashes : forall p t, Forall elem_ok p -> parse (to_str p ++ repeat 47 t) = Ok p.
Proof. exact Lemmas.SubstratePath.parse_to_str_slashes. Qed.
Print Assumptions parse_to_str_trailing_slashes.

Theorem parse_print_parse : forall s p, parse s = Ok p -> Forall elem_ok p /\ parse (to_str p) = Ok p.
Proof.
  intros s p H. split; [exact (Lemmas.SubstratePath.parse_elems_ok s p H)|exact (Lemmas.SubstratePath.parse_print_parse s p H)].
Qed.
Print Assumptions parse_print_parse.

(* exactly the printed forms, followed by any number of slashes, are accepted *)
Theorem parse_accepts_iff : forall s p,
  parse s = Ok p <-> exists t, s = to_str p ++ repeat 47 t /\ Forall elem_ok p.
Proof. exact Lemmas.SubstratePath.parse_accepts_iff. Qed.
Print Assumptions parse_accepts_iff.

Theorem parse_rejects_with_path_error : forall s e, parse s = Err e -> e = LibError SubstratePathError.
Proof. exact Lemmas.SubstratePath.parse_err. Qed.
Print Assumptions parse_rejects_with_path_error.

(* ---- decimal junctions: the little-endian integer in 32 bytes below 2^256, the path error from 2^256 on ---- *)
Theorem chain_code_numeric : forall (blake : list N -> list N) body,
  body <> [] -> forallb cp_isdecimal body = true -> int_limit_ok (length body) = true ->
  (numeral_value body < 2 ^ 256 ->
     exists b, chain_code blake body = Ok b /\ length b = 32%nat /\ bytes_ok b /\ le_to_int b = numeral_value body) /\
  (2 ^ 256 <= numeral_value body -> chain_code blake body = Err (LibError SubstratePathError)).
Proof. intros blake body. exact (Lemmas.SubstratePath.chain_code_numeric blake _ body). Qed.
Print Assumptions chain_code_numeric.

Example chain_code_numeric_ex :   (* "007" *)
  let body := [48; 48; 55] in
  body <> [] /\ forallb cp_isdecimal body = true /\ int_limit_ok (length body) = true /\ numeral_value body = 7.
Proof. split; [discriminate|]. vm_compute. auto. Qed.
Print Assumptions chain_code_numeric_ex.

(* a junction str.isnumeric() accepts and int() refuses: the path error (demanded) ... *)
Theorem chain_code_numeric_not_int : forall (blake : list N -> list N) body, py_isnumeric body = true ->
  (forallb cp_isdecimal body = false \/ int_limit_ok (length body) = false) ->
  chain_code blake body = Err (LibError SubstratePathError).
Proof. intros blake body. exact (Lemmas.SubstratePath.chain_code_numeric_not_int blake _ body). Qed.
Print Assumptions chain_code_numeric_not_int.

(* ... F5: today the code raises a bare ValueError instead.  Full-strength statement (false of the code):
     forall body e, chain_code_current blake body = Err e -> e = SubstratePathError \/ e = UnicodeError.
   Witness: the junction "²". *)
Theorem chain_code_rejects_with_path_error_refuted : forall (blake : list N -> list N),
  exists body, chain_code_current blake body = Err ValueError /\
               chain_code blake body = Err (LibError SubstratePathError).
Proof. exact Lemmas.SubstratePath.chain_code_current_refuted. Qed.
Print Assumptions chain_code_rejects_with_path_error_refuted.

(* what holds today (_partial): on decimal junctions within int()'s digit limit, and on text, the two agree *)
Theorem chain_code_current_partial : forall (blake : list N -> list N) body,
  (py_isnumeric body = false \/
   (body <> [] /\ forallb cp_isdecimal body = true /\ int_limit_ok (length body) = true)) ->
  chain_code_current blake body = chain_code blake body.
Proof. intros blake body. exact (Lemmas.SubstratePath.chain_code_gen_err_indep blake _ _ body). Qed.
Print Assumptions chain_code_current_partial.

(* ---- any other junction: SCALE compact length prefix, UTF-8 text; zero-padded to 32 bytes or Blake2b-256 ---- *)
Theorem chain_code_text : forall (blake : list N -> list N) body u,
  py_isnumeric body = false -> utf8_encode body = Ok u ->
  let n := N.of_nat (length u) in
  ((length u <= 31)%nat -> chain_code blake body = Ok (4 * n :: u ++ repeat 0 (31 - length u))) /\
  ((32 <= length u)%nat -> n < 2 ^ 6 -> chain_code blake body = Ok (blake (4 * n :: u))) /\
  (2 ^ 6 <= n < 2 ^ 14 -> exists pre, length pre = 2%nat /\ bytes_ok pre /\ le_to_int pre = 4 * n + 1 /\
     chain_code blake body = Ok (blake (pre ++ u))) /\
  (2 ^ 14 <= n < 2 ^ 30 -> exists pre, length pre = 4%nat /\ bytes_ok pre /\ le_to_int pre = 4 * n + 2 /\
     chain_code blake body = Ok (blake (pre ++ u))).
Proof. intros blake body u. exact (Lemmas.SubstratePath.chain_code_text blake _ body u). Qed.
Print Assumptions chain_code_text.

Example chain_code_text_ex :      (* "Alice" *)
  let body := [65; 108; 105; 99; 101] in
  py_isnumeric body = false /\ utf8_encode body = Ok body /\
  forall blake, chain_code blake body = Ok ([20; 65; 108; 105; 99; 101] ++ repeat 0 26).
Proof. split; [vm_compute; reflexivity|]. split; [vm_compute; reflexivity|]. intros blake. vm_compute. reflexivity. Qed.
Print Assumptions chain_code_text_ex.

Theorem chain_code_text_unencodable : forall (blake : list N -> list N) body e,
  py_isnumeric body = false -> utf8_encode body = Err e -> chain_code blake body = Err UnicodeError.
Proof. intros blake body e. exact (Lemmas.SubstratePath.chain_code_text_unencodable blake _ body e). Qed.
Print Assumptions chain_code_text_unencodable.

Example chain_code_text_unencodable_ex :   (* a lone surrogate U+D800 *)
  py_isnumeric [55296] = false /\ utf8_encode [55296] = Err UnicodeError.
Proof. vm_compute. auto. Qed.
Print Assumptions chain_code_text_unencodable_ex.

(* SCALE compact integers at the 2^6 / 2^14 / 2^30 mode switches *)
Theorem scale_compact : forall v,
  (v < 2 ^ 6 -> cuint_encode v = Ok [4 * v]) /\
  (2 ^ 6 <= v < 2 ^ 14 -> exists b, cuint_encode v = Ok b /\ length b = 2%nat /\ bytes_ok b /\ le_to_int b = 4 * v + 1) /\
  (2 ^ 14 <= v < 2 ^ 30 -> exists b, cuint_encode v = Ok b /\ length b = 4%nat /\ bytes_ok b /\ le_to_int b = 4 * v + 2).
Proof. exact Lemmas.SubstrateScale.cuint_encode_spec. Qed.
Print Assumptions scale_compact.

(* ---- UTF-8 (RFC 3629): defined exactly on scalar values, byte-valued, 1-4 bytes per code point, and the
        strict reference decoder (shortest form, no surrogates, <= U+10FFFF) inverts it; hence injective ---- *)
Theorem utf8_correct : forall s,
  (Forall scalar s -> exists b, utf8_encode s = Ok b /\ bytes_ok b /\
      length b = fold_right (fun c n => (utf8_len c + n)%nat) 0%nat s /\ utf8_decode b = Some s) /\
  (~ Forall scalar s -> utf8_encode s = Err UnicodeError).
Proof. exact Lemmas.SubstrateScale.utf8_encode_spec. Qed.
Print Assumptions utf8_correct.

Theorem utf8_injective : forall s1 s2 b, utf8_encode s1 = Ok b -> utf8_encode s2 = Ok b -> s1 = s2.
Proof. exact Lemmas.SubstrateScale.utf8_encode_inj. Qed.
Print Assumptions utf8_injective.

Example utf8_ex :   (* "a", e-acute, euro sign, U+1F600; a lone surrogate is refused *)
  utf8_encode [97; 233; 8364; 128512] = Ok [97; 195; 169; 226; 130; 172; 240; 159; 152; 128] /\
  utf8_encode [55296] = Err UnicodeError.
Proof. vm_compute. auto. Qed.
Print Assumptions utf8_ex.

(* ---- derivation, for every Blake2b-256 and sr25519 oracle ---- *)
Theorem derive_app : forall blake hard soft softpub p q k,
  derive_path blake hard soft softpub k (p ++ q) =
  (k' <- derive_path blake hard soft softpub k p ;; derive_path blake hard soft softpub k' q).
Proof. exact Lemmas.SubstratePath.derive_app. Qed.
Print Assumptions derive_app.

Theorem derive_is_child_chain : forall blake hard soft softpub p k,
  derive_path blake hard soft softpub k p =
  fold_left (fun r el => k' <- r ;; child_key blake hard soft softpub k' el) p (Ok k).
Proof. exact Lemmas.SubstratePath.derive_fold. Qed.
Print Assumptions derive_is_child_chain.

(* soft derivation commutes with taking the public key, given the schnorrkel law as a hypothesis *)
Theorem soft_commutes_public : forall blake hard soft softpub,
  (forall cc pk sk, fst (soft cc pk sk) = softpub cc pk) ->
  forall p k, Forall (fun el => e_hard el = false) p ->
    rmap to_public (derive_path blake hard soft softpub k p) = derive_path blake hard soft softpub (to_public k) p.
Proof. exact Lemmas.SubstratePath.soft_commutes_public. Qed.
Print Assumptions soft_commutes_public.

(* the law is satisfiable: pub' = cc ++ pub, priv' = priv *)
Example soft_law_ex :
  let soft := fun (cc pk sk : list N) => (cc ++ pk, sk) in
  let softpub := fun (cc pk : list N) => cc ++ pk in
  forall cc pk sk, fst (soft cc pk sk) = softpub cc pk.
Proof. intros. reflexivity. Qed.
Print Assumptions soft_law_ex.

(* hard junctions are refused on public-only objects: at once, and anywhere along a path *)
Theorem hard_refused_public : forall blake hard soft softpub k el,
  k_priv k = None -> e_hard el = true ->
  child_key blake hard soft softpub k el = Err (LibError SubstrateKeyError).
Proof. exact Lemmas.SubstratePath.hard_refused_public. Qed.
Print Assumptions hard_refused_public.

(* premises satisfiable: a public-only key walks the soft junction /a, then meets the hard junction //b *)
Example hard_refused_public_path_ex :
  let blake := fun b : list N => firstn 32 (b ++ repeat 0 32) in
  let hard := fun cc pk sk : list N => (pk, sk) in
  let soft := fun cc pk sk : list N => (cc, sk) in
  let softpub := fun cc pk : list N => cc in
  let k := mk_skey None (repeat 1 32) [] in
  k_priv k = None /\ e_hard (mk_elem [98] true) = true /\
  exists k', derive_path blake hard soft softpub k [mk_elem [97] false] = Ok k'.
Proof. split; [reflexivity|]. split; [reflexivity|]. eexists. vm_compute. reflexivity. Qed.
Print Assumptions hard_refused_public_path_ex.

Theorem hard_refused_public_path : forall blake hard soft softpub k p el q k',
  k_priv k = None -> derive_path blake hard soft softpub k p = Ok k' -> e_hard el = true ->
  derive_path blake hard soft softpub k (p ++ el :: q) = Err (LibError SubstrateKeyError).
Proof. exact Lemmas.SubstratePath.hard_refused_public_path. Qed.
Print Assumptions hard_refused_public_path.

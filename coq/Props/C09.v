(* C09 -- Address encoders produce the address the coin's format specifies.
   For each modelled format: decoding the encoded address with the same parameters returns the
   key hash (or key) the format is built from, for EVERY key, every legal parameter and any hash
   functions with the stated output lengths.  The encoder models are the published algorithms
   (hash, version/prefix, checksum, text encoding) and are tied to the implementation by the
   correspondence run.  Statements only. *)
From Coq Require Import NArith List.
From BU Require Import Base.Exn Base.Bytes Gen.Consts Gen.AddrConsts Model.AddrUtils Model.AddrB58.
From BU Require Lemmas.AddrB58 Lemmas.Taproot.
From BU Require Model.Taproot.
Import ListNotations.
Open Scope N_scope.

Definition hash_ok (h : list N -> list N) (n : nat) : Prop :=
  (forall x, length (h x) = n) /\ (forall x, bytes_ok (h x)).
Definition xof_ok (h : nat -> list N -> list N) : Prop :=
  (forall n x, length (h n x) = n) /\ (forall n x, bytes_ok (h n x)).
Definition b58_alphabet (alph : list N) : Prop := alph = b58_alph_btc \/ alph = b58_alph_xrp.

Theorem p2pkh_dec_enc : forall sha256 ripemd160 alph net_ver pub,
  hash_ok sha256 32 -> hash_ok ripemd160 20 -> b58_alphabet alph -> bytes_ok net_ver ->
  p2pkh_decode sha256 alph net_ver (p2pkh_encode sha256 ripemd160 alph net_ver pub)
  = Ok (hash160 sha256 ripemd160 pub).
Proof. intros s r a n p [S1 S2] [R1 R2] A B. exact (Lemmas.AddrB58.p2pkh_decode_encode s r S1 S2 R1 R2 a n p A B). Qed.
Print Assumptions p2pkh_dec_enc.

Theorem p2sh_dec_enc : forall sha256 ripemd160 net_ver pub,
  hash_ok sha256 32 -> hash_ok ripemd160 20 -> bytes_ok net_ver ->
  p2sh_decode sha256 net_ver (p2sh_encode sha256 ripemd160 net_ver pub)
  = Ok (hash160 sha256 ripemd160 (p2sh_script_bytes ++ hash160 sha256 ripemd160 pub)).
Proof. intros s r n p [S1 S2] [R1 R2] B. exact (Lemmas.AddrB58.p2sh_decode_encode s r S1 S2 R1 R2 n p B). Qed.
Print Assumptions p2sh_dec_enc.

Theorem xrp_dec_enc : forall sha256 ripemd160 pub, hash_ok sha256 32 -> hash_ok ripemd160 20 ->
  xrp_decode sha256 (xrp_encode sha256 ripemd160 pub) = Ok (hash160 sha256 ripemd160 pub).
Proof. intros s r p [S1 S2] [R1 R2]. exact (Lemmas.AddrB58.xrp_decode_encode s r S1 S2 R1 R2 p). Qed.
Print Assumptions xrp_dec_enc.

Theorem xtz_dec_enc : forall sha256 blake2b prefix pub32, hash_ok sha256 32 -> xof_ok blake2b ->
  In prefix xtz_prefixes ->
  xtz_decode sha256 prefix (xtz_encode sha256 blake2b prefix pub32) = Ok (blake2b blake2b160_len pub32).
Proof. intros s b p k [S1 S2] [B1 B2] I. exact (Lemmas.AddrB58.xtz_decode_encode s b S1 S2 B1 B2 p k I). Qed.
Print Assumptions xtz_dec_enc.

Theorem neo_dec_enc : forall sha256 ripemd160 v prefix suffix pub,
  hash_ok sha256 32 -> hash_ok ripemd160 20 -> v < 256 ->
  neo_decode sha256 [v] (neo_encode sha256 ripemd160 [v] prefix suffix pub)
  = Ok (hash160 sha256 ripemd160 (prefix ++ pub ++ suffix)).
Proof. intros s r v p x k [S1 S2] [R1 R2] V. exact (Lemmas.AddrB58.neo_decode_encode s r S1 S2 R1 R2 v p x k V). Qed.
Print Assumptions neo_dec_enc.

(* any accepted address of the Base58Check prefix family is the encoding of prefix ++ payload *)
Theorem b58check_family_accepts_only_prefixed : forall sha256 alph prefix dlen addr d,
  fam_a_decode sha256 alph prefix dlen addr = Ok d ->
  exists dec, b58c_dec sha256 alph addr = Ok dec /\ dec = prefix ++ d /\ length d = dlen.
Proof. exact Lemmas.AddrB58.fam_a_decode_inv. Qed.
Print Assumptions b58check_family_accepts_only_prefixed.

Theorem eos_dec_enc : forall ripemd160 valid_pub pub, hash_ok ripemd160 20 ->
  bytes_ok pub -> length pub = secp_compr_len -> valid_pub pub = true ->
  eos_decode ripemd160 valid_pub (eos_encode ripemd160 pub) = Ok pub.
Proof. intros r v p [R1 R2]. exact (Lemmas.AddrB58.eos_decode_encode r v R1 R2 p). Qed.
Print Assumptions eos_dec_enc.

Theorem ergo_dec_enc : forall blake2b valid_pub net pub, xof_ok blake2b ->
  In net [ergo_net_mainnet; ergo_net_testnet] ->
  bytes_ok pub -> length pub = secp_compr_len -> valid_pub pub = true ->
  ergo_decode blake2b valid_pub net (ergo_encode blake2b net pub) = Ok pub.
Proof.
  intros b v n p [B1 B2] I. apply (Lemmas.AddrB58.ergo_decode_encode b v B1 B2 n p).
  destruct I as [<-|[<-|[]]]; vm_compute; reflexivity.
Qed.
Print Assumptions ergo_dec_enc.

Theorem sol_dec_enc : forall valid_pub pub,
  bytes_ok pub -> length pub = (ed25519_compr_len - 1)%nat -> valid_pub pub = true ->
  sol_decode valid_pub (sol_encode pub) = Ok pub.
Proof. exact Lemmas.AddrB58.sol_decode_encode. Qed.
Print Assumptions sol_dec_enc.

Theorem eth_dec_enc : forall keccak256 skip pub_u, hash_ok keccak256 32 ->
  eth_decode keccak256 skip (eth_encode keccak256 skip pub_u) = Ok (skipn 12 (keccak256 (tl pub_u))).
Proof. intros k s p [K1 K2]. exact (Lemmas.AddrB58.eth_decode_encode k K1 K2 s p). Qed.
Print Assumptions eth_dec_enc.

(* EIP-55: the checksum encoding is idempotent, and the decoder accepts exactly the 40-digit hex
   strings it fixes *)
Theorem eip55_idempotent : forall keccak256 a, hash_ok keccak256 32 -> (length a <= 64)%nat ->
  eth_checksum_encode keccak256 (eth_checksum_encode keccak256 a) = eth_checksum_encode keccak256 a.
Proof. intros k a [K1 K2]. exact (Lemmas.AddrB58.eth_checksum_idempotent k K1 K2 a). Qed.
Print Assumptions eip55_idempotent.

Theorem eth_accepts_iff : forall keccak256 addr d,
  eth_decode keccak256 false addr = Ok d <->
  exists a, addr = eth_prefix ++ a /\ length a = eth_addr_len /\ forallb is_hex_char a = true /\
            eth_checksum_encode keccak256 a = a /\ from_hex a = Ok d.
Proof. exact Lemmas.AddrB58.eth_decode_accepts_iff. Qed.
Print Assumptions eth_accepts_iff.

Theorem icx_dec_enc : forall sha3_256 pub_u, hash_ok sha3_256 32 ->
  icx_decode (icx_encode sha3_256 pub_u) = Ok (take_last icx_hash_len (sha3_256 (tl pub_u))).
Proof. intros h p [H1 H2]. exact (Lemmas.AddrB58.icx_decode_encode h H1 H2 p). Qed.
Print Assumptions icx_dec_enc.

Theorem near_dec_enc : forall valid_pub pub,
  bytes_ok pub -> length pub = (ed25519_compr_len - 1)%nat -> valid_pub pub = true ->
  near_decode valid_pub (near_encode pub) = Ok pub.
Proof. exact Lemmas.AddrB58.near_decode_encode. Qed.
Print Assumptions near_dec_enc.

Theorem sui_dec_enc : forall blake2b pub, xof_ok blake2b ->
  sui_decode (sui_encode blake2b pub) = Ok (blake2b blake2b256_len (sui_key_type ++ pub)).
Proof. intros b p [B1 B2]. exact (Lemmas.AddrB58.sui_decode_encode b B1 B2 p). Qed.
Print Assumptions sui_dec_enc.

(* Aptos: with or without trimming of leading zero digits the decoder recovers the full hash *)
Theorem aptos_dec_enc : forall sha3_256 trim pub, hash_ok sha3_256 32 ->
  aptos_decode (aptos_encode sha3_256 trim pub) = Ok (sha3_256 (pub ++ aptos_suffix)).
Proof. intros h t p [H1 H2]. exact (Lemmas.AddrB58.aptos_decode_encode h H1 H2 t p). Qed.
Print Assumptions aptos_dec_enc.

(* Taproot (BIP-341 key path): whatever the curve arithmetic returns, an output key is exactly
   coord_len bytes (leading zero bytes of the x coordinate are kept), and only the x coordinate of
   the input key matters *)
Theorem taproot_fixed_width : forall sha256 sqrt_even ec_add ec_mul_base coord_len x out,
  Taproot.tweak_x sha256 sqrt_even ec_add ec_mul_base coord_len x = Ok out ->
  length out = coord_len /\ bytes_ok out.
Proof. exact Lemmas.Taproot.tweak_fixed_width. Qed.
Print Assumptions taproot_fixed_width.

Theorem taproot_x_only : forall sha256 sqrt_even ec_add ec_mul_base coord_len p q xs,
  Taproot.tweak sha256 sqrt_even ec_add ec_mul_base coord_len (p :: xs) =
  Taproot.tweak sha256 sqrt_even ec_add ec_mul_base coord_len (q :: xs).
Proof. exact Lemmas.Taproot.tweak_parity_independent. Qed.
Print Assumptions taproot_x_only.

(* premises are satisfiable: a constant 32/20-byte "hash" meets hash_ok *)
Example hash_ok_inhabited : hash_ok (fun _ => repeat 7 32) 32 /\ hash_ok (fun _ => repeat 7 20) 20.
Proof.
  split; split; intros; try apply repeat_length; apply Forall_forall; intros y Hy;
    apply repeat_spec in Hy; subst; reflexivity.
Qed.
Print Assumptions hash_ok_inhabited.

(* ---- Base32- and SS58-based formats, on the codec models of property C11 (no codec hypothesis:
        the Base32 / SS58 round-trip, alphabet and length laws are theorems there). *)
From BU Require Import Gen.AddrTextConsts Model.AddrText.
From BU Require Lemmas.AddrInst.
Notation b32e := AddrCodecs.b32_enc_nopad.
Notation b32d := AddrCodecs.b32_dec.

Theorem algo_dec_enc : forall sha512_256 valid_pub pub s, hash_ok sha512_256 32 ->
  bytes_ok pub -> length pub = (ed25519_compr_len - 1)%nat -> valid_pub 2 pub = true ->
  algo_encode sha512_256 b32e pub = Ok s -> algo_decode sha512_256 valid_pub b32e b32d s = Ok pub.
Proof. intros h v p s [H1 H2]. exact (AddrInst.algo_rt h v H1 H2 p s). Qed.
Print Assumptions algo_dec_enc.

Theorem xlm_dec_enc : forall crc16 valid_pub t pub s, hash_ok crc16 2 -> t < 256 ->
  bytes_ok pub -> length pub = (ed25519_compr_len - 1)%nat -> valid_pub 2 pub = true ->
  xlm_encode crc16 b32e t pub = Ok s -> xlm_decode valid_pub crc16 b32d t s = Ok pub.
Proof. intros c v t p s [H1 H2]. exact (AddrInst.xlm_rt c v H1 H2 t p s). Qed.
Print Assumptions xlm_dec_enc.

Theorem fil_dec_enc : forall blake2b pub_u s, xof_ok blake2b ->
  fil_encode blake2b b32e pub_u = Ok s -> fil_decode blake2b b32e b32d s = Ok (blake2b blake2b160_len pub_u).
Proof. intros b p s [H1 H2]. exact (AddrInst.fil_rt b H1 H2 p s). Qed.
Print Assumptions fil_dec_enc.

(* Nano: the "1111" pad trick is sound -- three zero bytes in front always encode to four '1' symbols *)
Theorem nano_dec_enc : forall blake2b valid_pub pub s, xof_ok blake2b ->
  bytes_ok pub -> length pub = (ed25519_compr_len - 1)%nat -> valid_pub 3 pub = true ->
  nano_encode blake2b b32e pub = Ok s -> nano_decode blake2b valid_pub b32d s = Ok pub.
Proof. intros b v p s [H1 H2]. exact (AddrInst.nano_rt b v H1 H2 p s). Qed.
Print Assumptions nano_dec_enc.

(* Nimiq: IBAN-style mod-97 checksum, groups of four *)
Theorem nim_dec_enc : forall blake2b pub s, xof_ok blake2b ->
  nim_encode blake2b b32e pub = Ok s ->
  nim_decode b32d s = Ok (firstn nim_hash_len (blake2b blake2b256_len pub)).
Proof. intros b p s [H1 H2]. exact (AddrInst.nim_rt b H1 H2 p s). Qed.
Print Assumptions nim_dec_enc.

(* Substrate: SS58 of the public key under the coin's format (all formats the encoder accepts) *)
Theorem substrate_dec_enc : forall blake2b512 valid_pub curve fmt pub s, hash_ok blake2b512 64 ->
  bytes_ok pub -> valid_pub curve pub = true ->
  substrate_encode (AddrCodecs.ss58_enc blake2b512) fmt pub = Ok s ->
  substrate_decode valid_pub (AddrCodecs.ss58_dec blake2b512) curve fmt s = Ok pub.
Proof. intros b v c f p s [H1 H2]. exact (AddrInst.substrate_rt b v H1 H2 c f p s). Qed.
Print Assumptions substrate_dec_enc.

(* ---- Bech32 / SegWit / CashAddr-based formats, on the codec models of property C10 (no codec
        hypothesis: the round trips of Bech32, SegWit and CashAddr strings are theorems there).
        [hrp_wf] is the C10 condition on an encoder HRP: non-empty, printable ASCII, no upper case. *)
From BU Require Model.Bech32.
From BU Require Lemmas.Bech32 Lemmas.AddrInstBech32.
Notation hrp_wf := Lemmas.Bech32.hrp_enc_ok.

Theorem atom_dec_enc : forall sha256 ripemd160 hrp pub s, hash_ok ripemd160 20 -> hrp_wf hrp ->
  atom_encode sha256 ripemd160 Bech32.bech32_encode hrp pub = Ok s ->
  atom_decode Bech32.bech32_decode hrp s = Ok (hash160 sha256 ripemd160 pub).
Proof. intros sh r h p s [R1 R2]. exact (AddrInstBech32.atom_rt sh r R1 R2 h p s). Qed.
Print Assumptions atom_dec_enc.

Theorem avax_dec_enc : forall sha256 ripemd160 prefix hrp pub s, hash_ok ripemd160 20 -> hrp_wf hrp ->
  avax_encode sha256 ripemd160 Bech32.bech32_encode prefix hrp pub = Ok s ->
  avax_decode Bech32.bech32_decode prefix hrp s = Ok (hash160 sha256 ripemd160 pub).
Proof. intros sh r pr h p s [R1 R2]. exact (AddrInstBech32.avax_rt sh r R1 R2 pr h p s). Qed.
Print Assumptions avax_dec_enc.

Theorem egld_dec_enc : forall valid_pub pub s, bytes_ok pub ->
  egld_encode Bech32.bech32_encode pub = Ok s ->
  length pub = (ed25519_compr_len - 1)%nat -> valid_pub 2 pub = true ->
  egld_decode valid_pub Bech32.bech32_decode s = Ok pub.
Proof. exact AddrInstBech32.egld_rt. Qed.
Print Assumptions egld_dec_enc.

Theorem zil_dec_enc : forall sha256 pub s, hash_ok sha256 32 ->
  zil_encode sha256 Bech32.bech32_encode pub = Ok s ->
  zil_decode Bech32.bech32_decode s = Ok (take_last zil_hash_len (sha256 pub)).
Proof. intros sh p s [S1 S2]. exact (AddrInstBech32.zil_rt sh (fun x => x) S1 S2 p s). Qed.
Print Assumptions zil_dec_enc.

(* Injective / OKEx / Harmony One: Bech32 of the 20 Ethereum address bytes *)
Theorem inj_dec_enc : forall keccak256 pub_u s, hash_ok keccak256 32 ->
  ethb32_encode keccak256 Bech32.bech32_encode inj_hrp pub_u = Ok s ->
  inj_decode Bech32.bech32_decode s = Ok (skipn 12 (keccak256 (tl pub_u))).
Proof. intros k p s [K1 K2]. exact (AddrInstBech32.inj_rt k (fun x => x) K1 K2 p s). Qed.
Print Assumptions inj_dec_enc.

Theorem okex_one_dec_enc : forall keccak256 hrp pub_u s, hash_ok keccak256 32 -> In hrp [okex_hrp; one_hrp] ->
  ethb32_encode keccak256 Bech32.bech32_encode hrp pub_u = Ok s ->
  ethb32_decode keccak256 Bech32.bech32_decode hrp s = Ok (skipn 12 (keccak256 (tl pub_u))).
Proof. intros k h p s [K1 K2]. exact (AddrInstBech32.ethb32_rt k (fun x => x) K1 K2 h p s). Qed.
Print Assumptions okex_one_dec_enc.

Theorem p2wpkh_dec_enc : forall sha256 ripemd160 hrp pub s, hash_ok ripemd160 20 -> hrp_wf hrp ->
  p2wpkh_encode sha256 ripemd160 Bech32.segwit_encode hrp pub = Ok s ->
  p2wpkh_decode Bech32.segwit_decode hrp s = Ok (hash160 sha256 ripemd160 pub).
Proof. intros sh r h p s [R1 R2]. exact (AddrInstBech32.p2wpkh_rt sh r R1 R2 h p s). Qed.
Print Assumptions p2wpkh_dec_enc.

(* P2TR: for any 32-byte output key (see taproot_fixed_width for the key itself) *)
Theorem p2tr_dec_enc : forall tweak hrp pub s, hrp_wf hrp -> bytes_ok (tweak pub) ->
  length (tweak pub) = (secp_compr_len - 1)%nat ->
  p2tr_encode Bech32.segwit_encode tweak hrp pub = Ok s ->
  p2tr_decode Bech32.segwit_decode hrp s = Ok (tweak pub).
Proof. exact AddrInstBech32.p2tr_rt. Qed.
Print Assumptions p2tr_dec_enc.

Theorem bch_p2pkh_dec_enc : forall sha256 ripemd160 hrp b pub s, hash_ok ripemd160 20 -> hrp_wf hrp -> b < 256 ->
  bch_p2pkh_encode sha256 ripemd160 Bech32.cash_encode hrp [b] pub = Ok s ->
  bch_decode Bech32.cash_decode hrp [b] s = Ok (hash160 sha256 ripemd160 pub).
Proof. intros sh r h b p s [R1 R2]. exact (AddrInstBech32.bch_p2pkh_rt sh r R1 R2 h b p s). Qed.
Print Assumptions bch_p2pkh_dec_enc.

Theorem bch_p2sh_dec_enc : forall sha256 ripemd160 hrp b pub s, hash_ok ripemd160 20 -> hrp_wf hrp -> b < 256 ->
  bch_p2sh_encode sha256 ripemd160 Bech32.cash_encode hrp [b] pub = Ok s ->
  bch_decode Bech32.cash_decode hrp [b] s = Ok (p2sh_script_hash sha256 ripemd160 pub).
Proof. intros sh r h b p s [R1 R2]. exact (AddrInstBech32.bch_p2sh_rt sh r R1 R2 h b p s). Qed.
Print Assumptions bch_p2sh_dec_enc.

Example hrp_wf_example : hrp_wf [116; 98; 49].    (* "tb1": an HRP may contain the separator character *)
Proof. split; [discriminate|]. repeat constructor; try (apply N.leb_le; reflexivity); intros [A B]; apply N.leb_le in A, B; vm_compute in A, B; discriminate. Qed.
Print Assumptions hrp_wf_example.

(* ===== linked to the concrete codec models ===== *)
(* Stellar: [xlm_dec_enc] above carries "hash_ok crc16 2" about an abstract checksum function although
   CRC-16/XMODEM is pure arithmetic.  Model/LinkCrc16.v models it (bit by bit, polynomial 0x1021, as crcmod's
   "xmodem"); its two laws are theorems for every input, so the Stellar round trip has no hypothesis left about
   the checksum -- only the ed25519 key test remains an oracle.  (The other pipelines of this property were already
   on the concrete codecs; BIP-38's use of the P2PKH encoder is linked in Props/C13.v, the Electrum / SPL uses of
   P2PKH, P2WPKH and SolAddrDecoder in Props/C20.v, the Substrate wallet's use of SS58 in Props/C19.v.) *)
From BU Require Import Model.LinkCrc16.
From BU Require Lemmas.LinkCrc16.

Theorem crc16_xmodem_laws : hash_ok crc16_xmodem 2 /\
  crc16_xmodem [49; 50; 51; 52; 53; 54; 55; 56; 57] = [49; 195].           (* the catalogue check value 0x31C3 *)
Proof.
  exact (conj (conj Lemmas.LinkCrc16.crc16_xmodem_len Lemmas.LinkCrc16.crc16_xmodem_ok) Lemmas.LinkCrc16.crc16_check_value).
Qed.
Print Assumptions crc16_xmodem_laws.

Theorem xlm_dec_enc_concrete : forall valid_pub t pub s, t < 256 ->
  bytes_ok pub -> length pub = (ed25519_compr_len - 1)%nat -> valid_pub 2 pub = true ->
  xlm_encode crc16_xmodem b32e t pub = Ok s -> xlm_decode valid_pub crc16_xmodem b32d t s = Ok pub.
Proof. exact Lemmas.LinkCrc16.xlm_rt_c. Qed.
Print Assumptions xlm_dec_enc_concrete.

(* C13 -- BIP-38 encryption and WIF round-trip and match the standard.
   Statements only; every proof is [exact <lemma>] with Print Assumptions beneath.

   Oracles: [sha256], [nfc], [utf8] (UTF-8 encoding of the normalised passphrase; an error for lone
   surrogates), [scrypt pw salt n r p dklen], [aes_enc]/[aes_dec] (AES-256-ECB on one block), the secp256k1
   group as an abstract carrier [G] with [base], [smul], point (de)serialisation, and [p2pkh P mode], the
   Bitcoin P2PKH address string of a point -- an abstract function here (address pipelines are C09).
   A private key is valid ([secp_priv_valid]) iff it is 32 bytes and 0 < k < n, n regenerated from /repo. *)
From Coq Require Import NArith ZArith List Bool.
From BU Require Import Base.Exn Base.Bytes Gen.Consts Gen.SerbipConsts Model.Base58 Model.WifCodec Model.Bip38.
From BU Require Lemmas.Base58 Lemmas.ConstsOk Lemmas.SerbipAux Lemmas.SerbipConstsOk Lemmas.WifCodec Lemmas.Bip38.
Import ListNotations.
Open Scope N_scope.

Notation B58 f := (f b58_alph_btc b58_radix b58_cklen) (only parsing).
Notation be32 := Lemmas.SerbipAux.be32.
Notation wif_payload := Lemmas.WifCodec.wif_payload.

Definition sha_law (sha256 : list N -> list N) : Prop :=
  (forall x, length (sha256 x) = 32%nat) /\ (forall x, bytes_ok (sha256 x)).

(* ---------------------------------------------------------------- WIF *)

Theorem secp_priv_valid_iff : forall k, secp_priv_valid k = true <->
  length k = 32%nat /\ 0 < be_to_int k /\ be_to_int k < secp256k1_order.
Proof. exact Lemmas.WifCodec.secp_priv_valid_spec. Qed.
Print Assumptions secp_priv_valid_iff.

(* layout: version byte || key || (01 when compressed), Base58Check *)
Theorem wif_layout : forall sha256 key v c, secp_priv_valid key = true ->
  B58 wif_encode sha256 key [v] c = Ok (B58 check_encode sha256 ([v] ++ (if c then key ++ [1] else key))).
Proof. intros sha256. exact (Lemmas.WifCodec.wif_encode_layout _ _ _ sha256). Qed.
Print Assumptions wif_layout.

Theorem wif_roundtrip : forall sha256 key v c, sha_law sha256 ->
  secp_priv_valid key = true -> bytes_ok key -> v < 256 ->
  exists s, B58 wif_encode sha256 key [v] c = Ok s /\ B58 wif_decode sha256 s [v] = Ok (key, c).
Proof.
  intros sha256 key v c [H1 H2].
  exact (Lemmas.WifCodec.wif_roundtrip _ _ _ sha256 ConstsOk.b58_alph_btc_nodup ConstsOk.b58_alph_btc_len
           ConstsOk.b58_radix_ge2 H1 H2 ConstsOk.b58_cklen_le key v c).
Qed.
Print Assumptions wif_roundtrip.

(* 33- vs 34-byte payload disambiguation: an accepted string is exactly the encoding of its result *)
Theorem wif_decode_unambiguous : forall sha256 s v key c, sha_law sha256 ->
  B58 wif_decode sha256 s [v] = Ok (key, c) ->
  secp_priv_valid key = true /\
  B58 check_decode sha256 s = Ok (wif_payload v key c) /\
  B58 wif_encode sha256 key [v] c = Ok s.
Proof.
  intros sha256 s v key c [H1 H2].
  exact (Lemmas.WifCodec.wif_decode_unambiguous _ _ _ sha256 ConstsOk.b58_alph_btc_nodup ConstsOk.b58_alph_btc_len
           ConstsOk.b58_radix_ge2 H1 H2 ConstsOk.b58_cklen_le s v key c).
Qed.
Print Assumptions wif_decode_unambiguous.

(* with F4 repaired in /repo nothing but ValueError / Base58ChecksumError escapes the decoder *)
Theorem wif_decode_errors : forall sha256 s nv e, sha_law sha256 ->
  B58 wif_decode sha256 s nv = Err e -> e = ValueError \/ e = LibError Base58ChecksumError.
Proof.
  intros sha256 s v e [H1 H2].
  exact (Lemmas.WifCodec.wif_decode_errors_any _ _ _ sha256 ConstsOk.b58_alph_btc_nodup ConstsOk.b58_alph_btc_len
           ConstsOk.b58_radix_ge2 H1 H2 ConstsOk.b58_cklen_le s v e).
Qed.
Print Assumptions wif_decode_errors.

Theorem wif_encode_rejects_invalid_key : forall sha256 key nv c, secp_priv_valid key = false ->
  B58 wif_encode sha256 key nv c = Err ValueError.
Proof. intros sha256. exact (Lemmas.WifCodec.wif_encode_invalid _ _ _ sha256). Qed.
Print Assumptions wif_encode_rejects_invalid_key.

(* ---------------------------------------------------------------- BIP-38 without EC multiplication *)

Section NoEc.
  Variable sha256 : list N -> list N.
  Variable nfc : list N -> list N.
  Variable utf8 : list N -> res (list N).
  Variable scrypt : list N -> list N -> N -> N -> N -> N -> list N.
  Variable aes_enc aes_dec : list N -> list N -> list N.
  Variable G : Type.
  Variable base : G.
  Variable smul : N -> G -> G.
  Variable p2pkh : G -> bool -> list N.

  Hypothesis sha_ok : sha_law sha256.
  Hypothesis scrypt_len : forall pw salt n r p dk, length (scrypt pw salt n r p dk) = N.to_nat dk.
  Hypothesis aes_dec_enc : forall k b, length b = 16%nat -> aes_dec k (aes_enc k b) = b.
  Hypothesis aes_enc_len : forall k b, length b = 16%nat -> length (aes_enc k b) = 16%nat.
  Hypothesis aes_enc_ok : forall k b, bytes_ok (aes_enc k b).

  Notation encrypt := (B58 noec_encrypt sha256 nfc utf8 scrypt aes_enc G base smul p2pkh).
  Notation decrypt := (B58 noec_decrypt sha256 nfc utf8 scrypt aes_dec G base smul p2pkh).
  Notation ahash := (address_hash sha256 G p2pkh).
  Notation std_halves := (Lemmas.Bip38.std_halves scrypt).

  (* the standard's ciphertext: 01 42 || e0/c0 || addresshash || AES(k[0:16] xor dh1[0:16]) || AES(k[16:32] xor dh1[16:32])
     with (dh1, dh2) the halves of scrypt(NFC passphrase, addresshash, 16384, 8, 8, 64) *)
  Theorem noec_layout : forall key pass pw c, secp_priv_valid key = true -> utf8 (nfc pass) = Ok pw ->
    let ah := ahash (smul (be_to_int key) base) c in
    let K := scrypt pw ah 16384 8 8 64 in
    let dh1 := firstn 32 K in let dh2 := skipn 32 K in
    encrypt key pass c =
      Ok (B58 check_encode sha256
            ([1; 66] ++ [if c then 224 else 192] ++ ah ++
             aes_enc dh2 (xor_bytes (firstn 16 key) (firstn 16 dh1)) ++
             aes_enc dh2 (xor_bytes (skipn 16 key) (skipn 16 dh1)))).
  Proof.
    intros key pass pw c. destruct sha_ok as [H1 H2].
    exact (Lemmas.Bip38.noec_layout _ _ _ sha256 nfc utf8 scrypt aes_enc aes_dec G base smul p2pkh
             ConstsOk.b58_alph_btc_nodup ConstsOk.b58_alph_btc_len ConstsOk.b58_radix_ge2 H1 H2 ConstsOk.b58_cklen_le
             scrypt_len aes_dec_enc aes_enc_len aes_enc_ok key pass pw c).
  Qed.

  Theorem noec_decrypt_encrypt : forall key pass pw c,
    secp_priv_valid key = true -> bytes_ok key -> utf8 (nfc pass) = Ok pw ->
    exists s, encrypt key pass c = Ok s /\ decrypt s pass = Ok (key, c).
  Proof.
    intros key pass pw c. destruct sha_ok as [H1 H2].
    exact (Lemmas.Bip38.noec_decrypt_encrypt _ _ _ sha256 nfc utf8 scrypt aes_enc aes_dec G base smul p2pkh
             ConstsOk.b58_alph_btc_nodup ConstsOk.b58_alph_btc_len ConstsOk.b58_radix_ge2 H1 H2 ConstsOk.b58_cklen_le
             scrypt_len aes_dec_enc aes_enc_len aes_enc_ok key pass pw c).
  Qed.

  (* any other passphrase, any altered ciphertext (checksum-valid, right prefix and flag): accepted iff the
     recomputed key is valid and its address hash in the flagged mode equals the embedded one *)
  Theorem noec_wrong_input_iff : forall b pass pw, bytes_ok b -> length b = 39%nat ->
    slice 0 2 b = [1; 66] -> (nth 2 b 0 = 224 \/ nth 2 b 0 = 192) -> utf8 (nfc pass) = Ok pw ->
    let ah := slice 3 7 b in
    let '(dh1, dh2) := std_halves pw ah in
    let key := xor_bytes (aes_dec dh2 (slice 7 23 b) ++ aes_dec dh2 (skipn 23 b)) dh1 in
    let c := nth 2 b 0 =? 224 in
    decrypt (B58 check_encode sha256 b) pass =
      if secp_priv_valid key && list_eqb ah (ahash (smul (be_to_int key) base) c)
      then Ok (key, c) else Err ValueError.
  Proof.
    intros b pass pw. destruct sha_ok as [H1 H2].
    exact (Lemmas.Bip38.noec_accept_iff _ _ _ sha256 nfc utf8 scrypt aes_enc aes_dec G base smul p2pkh
             ConstsOk.b58_alph_btc_nodup ConstsOk.b58_alph_btc_len ConstsOk.b58_radix_ge2 H1 H2 ConstsOk.b58_cklen_le
             scrypt_len aes_dec_enc aes_enc_len aes_enc_ok b pass pw).
  Qed.

  Theorem noec_decrypt_errors : forall enc pass e, decrypt enc pass = Err e ->
    e = ValueError \/ e = LibError Base58ChecksumError \/ (exists e', utf8 (nfc pass) = Err e' /\ e = e').
  Proof.
    intros enc pass e. destruct sha_ok as [H1 H2].
    exact (Lemmas.Bip38.noec_errors _ _ _ sha256 nfc utf8 scrypt aes_enc aes_dec G base smul p2pkh
             ConstsOk.b58_alph_btc_nodup ConstsOk.b58_alph_btc_len ConstsOk.b58_radix_ge2 H1 H2 ConstsOk.b58_cklen_le
             scrypt_len aes_dec_enc aes_enc_len aes_enc_ok enc pass e).
  Qed.
End NoEc.
Print Assumptions noec_layout.
Print Assumptions noec_decrypt_encrypt.
Print Assumptions noec_wrong_input_iff.
Print Assumptions noec_decrypt_errors.

(* ---------------------------------------------------------------- BIP-38 with EC multiplication *)

Section Ec.
  Variable sha256 : list N -> list N.
  Variable nfc : list N -> list N.
  Variable utf8 : list N -> res (list N).
  Variable scrypt : list N -> list N -> N -> N -> N -> N -> list N.
  Variable aes_enc aes_dec : list N -> list N -> list N.
  Variable G : Type.
  Variable base : G.
  Variable smul : N -> G -> G.
  Variable ser_c : G -> list N.
  Variable deser : list N -> option G.
  Variable p2pkh : G -> bool -> list N.

  Hypothesis sha_ok : sha_law sha256.
  Hypothesis scrypt_len : forall pw salt n r p dk, length (scrypt pw salt n r p dk) = N.to_nat dk.
  Hypothesis aes_dec_enc : forall k b, length b = 16%nat -> aes_dec k (aes_enc k b) = b.
  Hypothesis aes_enc_len : forall k b, length b = 16%nat -> length (aes_enc k b) = 16%nat.
  Hypothesis aes_enc_ok : forall k b, bytes_ok (aes_enc k b).
  Hypothesis ser_c_len : forall P, length (ser_c P) = 33%nat.
  Hypothesis ser_c_ok : forall P, bytes_ok (ser_c P).
  Hypothesis deser_ser : forall P, deser (ser_c P) = Some P.
  Hypothesis smul_smul : forall a b P, smul a (smul b P) = smul (a * b) P.
  Hypothesis smul_mod_order : forall a, smul (a mod secp256k1_order) base = smul a base.

  Notation generate := (B58 generate_private_key_ec sha256 nfc utf8 scrypt aes_enc G base smul ser_c deser p2pkh).
  Notation decrypt := (B58 ec_decrypt sha256 nfc utf8 scrypt aes_dec G base smul ser_c p2pkh).
  Notation has_ls := Lemmas.Bip38.has_ls.
  Notation owner_entropy_of := Lemmas.Bip38.owner_entropy_of.

  (* for every passphrase, optional lot/sequence, owner salt and seedb (the library's two random draws):
     with passfactor pf and factorb fb = sha256d(seedb) both in (0, n) and pf*fb mod n <> 0 (each fails with
     probability ~2^-128 for real hash outputs), the generated key decrypts, under the same passphrase, to the
     32-byte key pf*fb mod n in the requested compression mode -- acceptance includes the address-hash match *)
  Theorem ec_decrypt_generate : forall pass c ls salt seedb oe pfb,
    owner_entropy_of ls salt = Ok oe -> length oe = 8%nat -> bytes_ok oe ->
    pass_factor sha256 nfc utf8 scrypt pass oe (has_ls ls) = Ok pfb ->
    length seedb = 24%nat ->
    let pf := be_to_int pfb in
    let fb := be_to_int (sha256 (sha256 seedb)) in
    0 < pf < secp256k1_order -> 0 < fb < secp256k1_order -> (pf * fb) mod secp256k1_order <> 0 ->
    exists enc key, generate pass c ls salt seedb = Ok enc /\ decrypt enc pass = Ok (key, c) /\
                    length key = 32%nat /\ be_to_int key = (pf * fb) mod secp256k1_order /\
                    secp_priv_valid key = true.
  Proof.
    intros pass c ls salt seedb oe pfb. destruct sha_ok as [H1 H2].
    exact (Lemmas.Bip38.ec_decrypt_generate _ _ _ sha256 nfc utf8 scrypt aes_enc aes_dec G base smul ser_c deser p2pkh
             ConstsOk.b58_alph_btc_nodup ConstsOk.b58_alph_btc_len ConstsOk.b58_radix_ge2 H1 H2 ConstsOk.b58_cklen_le
             scrypt_len aes_dec_enc aes_enc_len aes_enc_ok ser_c_len ser_c_ok deser_ser smul_smul smul_mod_order
             pass c ls salt seedb oe pfb).
  Qed.
End Ec.
Print Assumptions ec_decrypt_generate.

(* the owner entropy is 8 bytes with and without lot/sequence (4-byte salt + 4 packed bytes, or an 8-byte salt) *)
Theorem owner_entropy_is_8_bytes : forall ls salt oe, Lemmas.Bip38.owner_entropy_of ls salt = Ok oe ->
  length salt = (if Lemmas.Bip38.has_ls ls then 4 else 8)%nat -> bytes_ok salt -> length oe = 8%nat /\ bytes_ok oe.
Proof.
  intros ls salt oe.
  exact (Lemmas.Bip38.owner_entropy_len ls salt oe).
Qed.
Print Assumptions owner_entropy_is_8_bytes.

(* ---------------------------------------------------------------- lot / sequence numbers, flag bytes *)

(* lot*4096 + seq fits the 4 bytes exactly over lot in [0, 2^20), seq in [0, 4096) (the maximum is 2^32 - 1),
   the pair is recoverable from the packed value, and everything outside is rejected *)
Theorem lot_seq_packing : forall lot seq salt, (0 <= lot < 1048576)%Z -> (0 <= seq < 4096)%Z ->
  owner_entropy_lotseq lot seq salt = Ok (salt ++ be32 (Z.to_N (lot * 4096 + seq))) /\
  Z.to_N (lot * 4096 + seq) < 4294967296 /\
  (Z.of_N (Z.to_N (lot * 4096 + seq)) / 4096 = lot)%Z /\ (Z.of_N (Z.to_N (lot * 4096 + seq)) mod 4096 = seq)%Z.
Proof. exact Lemmas.Bip38.lot_seq_packing. Qed.
Print Assumptions lot_seq_packing.

Theorem lot_seq_rejected_outside : forall lot seq salt, ~ ((0 <= lot < 1048576)%Z /\ (0 <= seq < 4096)%Z) ->
  owner_entropy_lotseq lot seq salt = Err ValueError.
Proof. exact Lemmas.Bip38.lot_seq_rejected. Qed.
Print Assumptions lot_seq_rejected_outside.

Theorem flagbyte_bits : forall c l,
  ec_flagbyte c l = (if c then 32 else 0) + (if l then 4 else 0) /\ ec_flag_options (ec_flagbyte c l) = Ok (c, l).
Proof. intros c l. split; [exact (Lemmas.Bip38.ec_flagbyte_values c l)|exact (Lemmas.Bip38.ec_flag_options_flagbyte c l)]. Qed.
Print Assumptions flagbyte_bits.

Theorem flagbyte_accepted_iff : forall f, f < 256 -> ((exists r, ec_flag_options f = Ok r) <-> In f [0; 4; 32; 36]).
Proof. exact Lemmas.Bip38.ec_flag_options_iff. Qed.
Print Assumptions flagbyte_accepted_iff.

Theorem noec_flagbyte_bits : bip38_noec_flag_uncompr = 192 /\ bip38_noec_flag_compr = 192 + 32.
Proof. exact Lemmas.Bip38.noec_flagbyte_bits. Qed.
Print Assumptions noec_flagbyte_bits.

(* ---------------------------------------------------------------- the premises are satisfiable *)
Definition sha_demo (x : list N) : list N := repeat (N.of_nat (length x) mod 256) 32.
Definition key_demo : list N := repeat 0 31 ++ [7].

Example wif_roundtrip_demo :
  match B58 wif_encode sha_demo key_demo [128] true with
  | inl s => match B58 wif_decode sha_demo s [128] with
             | inl (k, c) => list_eqb k key_demo && c
             | inr _ => false
             end
  | inr _ => false
  end = true.
Proof. vm_compute. reflexivity. Qed.
Print Assumptions wif_roundtrip_demo.

Example lot_seq_demo : owner_entropy_lotseq 1048575 4095 [1; 2; 3; 4] = Ok [1; 2; 3; 4; 255; 255; 255; 255].
Proof. vm_compute. reflexivity. Qed.
Print Assumptions lot_seq_demo.

(* ===== linked to the concrete codec models ===== *)
(* BIP-38 with its two non-cryptographic parameters instantiated (Model/LinkAddr.v):
     [p2pkh P mode] := P2PKHAddr.EncodeKey of the serialised point = Base58Check (Model/Base58.v) of
                       net version || ripemd160(sha256(point bytes)) (Model/AddrB58.v), net version read from the
                       Bip38Addr source (Gen/LinkConsts.v);
     [utf8]         := the RFC 3629 encoder of Model/SubstrateScale.v (C19 [utf8_correct]).
   Hypotheses that disappeared: none was stated on [p2pkh] (it was an arbitrary function), but the theorems now
   speak about THE address; the premise [utf8 (nfc pass) = Ok pw] becomes "no lone surrogate in the normalised
   passphrase" and the error clause "whatever utf8 raised" becomes UnicodeError.
   Oracles that remain: sha256, ripemd160, NFC, scrypt, AES-256-ECB, the secp256k1 group with its compressed and
   uncompressed point serialisation. *)
From BU Require Import Gen.AddrConsts Gen.LinkConsts Model.AddrB58 Model.SubstrateScale Model.LinkAddr.
From BU Require Lemmas.SubstrateScale Lemmas.LinkBip38.

Section Linked.
  Variables sha256 ripemd160 : list N -> list N.
  Variable nfc : list N -> list N.
  Variable scrypt : list N -> list N -> N -> N -> N -> N -> list N.
  Variable aes_enc aes_dec : list N -> list N -> list N.
  Variable G : Type.
  Variable base : G.
  Variable smul : N -> G -> G.
  Variables ser_c ser_u : G -> list N.
  Variable deser : list N -> option G.

  Hypothesis sha_ok : sha_law sha256.
  Hypothesis scrypt_len : forall pw salt n r p dk, length (scrypt pw salt n r p dk) = N.to_nat dk.
  Hypothesis aes_dec_enc : forall k b, length b = 16%nat -> aes_dec k (aes_enc k b) = b.
  Hypothesis aes_enc_len : forall k b, length b = 16%nat -> length (aes_enc k b) = 16%nat.
  Hypothesis aes_enc_ok : forall k b, bytes_ok (aes_enc k b).

  Notation scalar := Lemmas.SubstrateScale.scalar.      (* a code point that is not a surrogate *)
  Notation ahash := (bip38c_address_hash sha256 ripemd160 G ser_c ser_u).
  Notation encrypt := (bip38c_noec_encrypt sha256 ripemd160 nfc scrypt aes_enc G base smul ser_c ser_u).
  Notation decrypt := (bip38c_noec_decrypt sha256 ripemd160 nfc scrypt aes_dec G base smul ser_c ser_u).

  (* the address hash down to the hash functions *)
  Theorem address_hash_concrete : forall P c,
    ahash P c = firstn 4 (sha256 (sha256
      (B58 check_encode sha256 (bip38_addr_net_ver ++ ripemd160 (sha256 (if c then ser_c P else ser_u P)))))).
  Proof. exact (Lemmas.LinkBip38.address_hash_concrete sha256 ripemd160 G ser_c ser_u). Qed.

  Theorem noec_layout_concrete : forall key pass c, secp_priv_valid key = true -> Forall scalar (nfc pass) ->
    exists pw, utf8_encode (nfc pass) = Ok pw /\
      let ah := ahash (smul (be_to_int key) base) c in
      let K := scrypt pw ah 16384 8 8 64 in
      let dh1 := firstn 32 K in let dh2 := skipn 32 K in
      encrypt key pass c =
        Ok (B58 check_encode sha256
              ([1; 66] ++ [if c then 224 else 192] ++ ah ++
               aes_enc dh2 (xor_bytes (firstn 16 key) (firstn 16 dh1)) ++
               aes_enc dh2 (xor_bytes (skipn 16 key) (skipn 16 dh1)))).
  Proof.
    destruct sha_ok as [H1 H2].
    exact (Lemmas.LinkBip38.noec_layout_c sha256 ripemd160 nfc scrypt aes_enc aes_dec G base smul ser_c ser_u
             H1 H2 scrypt_len aes_dec_enc aes_enc_len aes_enc_ok).
  Qed.

  Theorem noec_decrypt_encrypt_concrete : forall key pass c,
    secp_priv_valid key = true -> bytes_ok key -> Forall scalar (nfc pass) ->
    exists s, encrypt key pass c = Ok s /\ decrypt s pass = Ok (key, c).
  Proof.
    destruct sha_ok as [H1 H2].
    exact (Lemmas.LinkBip38.noec_decrypt_encrypt_c sha256 ripemd160 nfc scrypt aes_enc aes_dec G base smul ser_c ser_u
             H1 H2 scrypt_len aes_dec_enc aes_enc_len aes_enc_ok).
  Qed.

  Theorem noec_wrong_input_iff_concrete : forall b pass pw, bytes_ok b -> length b = 39%nat ->
    slice 0 2 b = [1; 66] -> (nth 2 b 0 = 224 \/ nth 2 b 0 = 192) -> utf8_encode (nfc pass) = Ok pw ->
    let ah := slice 3 7 b in
    let '(dh1, dh2) := Lemmas.Bip38.std_halves scrypt pw ah in
    let key := xor_bytes (aes_dec dh2 (slice 7 23 b) ++ aes_dec dh2 (skipn 23 b)) dh1 in
    let c := nth 2 b 0 =? 224 in
    decrypt (B58 check_encode sha256 b) pass =
      if secp_priv_valid key && list_eqb ah (ahash (smul (be_to_int key) base) c)
      then Ok (key, c) else Err ValueError.
  Proof.
    destruct sha_ok as [H1 H2].
    exact (Lemmas.LinkBip38.noec_wrong_input_iff_c sha256 ripemd160 nfc scrypt aes_enc aes_dec G base smul ser_c ser_u
             H1 H2 scrypt_len aes_dec_enc aes_enc_len aes_enc_ok).
  Qed.

  Theorem noec_decrypt_errors_concrete : forall enc pass e, decrypt enc pass = Err e ->
    e = ValueError \/ e = LibError Base58ChecksumError \/ (e = UnicodeError /\ ~ Forall scalar (nfc pass)).
  Proof.
    destruct sha_ok as [H1 H2].
    exact (Lemmas.LinkBip38.noec_errors_c sha256 ripemd160 nfc scrypt aes_enc aes_dec G base smul ser_c ser_u
             H1 H2 scrypt_len aes_dec_enc aes_enc_len aes_enc_ok).
  Qed.

  Hypothesis ser_c_len : forall P, length (ser_c P) = 33%nat.
  Hypothesis ser_c_ok : forall P, bytes_ok (ser_c P).
  Hypothesis deser_ser : forall P, deser (ser_c P) = Some P.
  Hypothesis smul_smul : forall a b P, smul a (smul b P) = smul (a * b) P.
  Hypothesis smul_mod_order : forall a, smul (a mod secp256k1_order) base = smul a base.

  Notation generate := (bip38c_ec_generate sha256 ripemd160 nfc scrypt aes_enc G base smul ser_c ser_u deser).
  Notation ec_dec := (bip38c_ec_decrypt sha256 ripemd160 nfc scrypt aes_dec G base smul ser_c ser_u).

  Theorem ec_decrypt_generate_concrete : forall pass c ls salt seedb oe pfb,
    Lemmas.Bip38.owner_entropy_of ls salt = Ok oe -> length oe = 8%nat -> bytes_ok oe ->
    pass_factor sha256 nfc utf8_encode scrypt pass oe (Lemmas.Bip38.has_ls ls) = Ok pfb ->
    length seedb = 24%nat ->
    let pf := be_to_int pfb in
    let fb := be_to_int (sha256 (sha256 seedb)) in
    0 < pf < secp256k1_order -> 0 < fb < secp256k1_order -> (pf * fb) mod secp256k1_order <> 0 ->
    exists enc key, generate pass c ls salt seedb = Ok enc /\ ec_dec enc pass = Ok (key, c) /\
                    length key = 32%nat /\ be_to_int key = (pf * fb) mod secp256k1_order /\
                    secp_priv_valid key = true.
  Proof.
    destruct sha_ok as [H1 H2].
    exact (Lemmas.LinkBip38.ec_decrypt_generate_c sha256 ripemd160 nfc scrypt aes_enc aes_dec G base smul ser_c ser_u deser
             H1 H2 scrypt_len aes_dec_enc aes_enc_len aes_enc_ok ser_c_len ser_c_ok deser_ser smul_smul smul_mod_order).
  Qed.

  (* what the embedded address hash commits to: the address decodes (library's own P2PKH decoder) to the
     hash160 of the key serialised in the flagged mode *)
  Hypothesis rip_len : forall x, length (ripemd160 x) = 20%nat.
  Hypothesis rip_ok : forall x, bytes_ok (ripemd160 x).
  Theorem bip38_address_decodes : forall P c,
    p2pkh_decode sha256 b58_alph_btc bip38_addr_net_ver (bip38_p2pkh sha256 ripemd160 G ser_c ser_u P c) =
      Ok (ripemd160 (sha256 (if c then ser_c P else ser_u P))).
  Proof.
    destruct sha_ok as [H1 H2].
    exact (Lemmas.LinkBip38.bip38_address_decodes sha256 ripemd160 G ser_c ser_u H1 H2 rip_len rip_ok).
  Qed.
End Linked.
Print Assumptions address_hash_concrete.
Print Assumptions noec_layout_concrete.
Print Assumptions noec_decrypt_encrypt_concrete.
Print Assumptions noec_wrong_input_iff_concrete.
Print Assumptions noec_decrypt_errors_concrete.
Print Assumptions ec_decrypt_generate_concrete.
Print Assumptions bip38_address_decodes.

(* C14 -- Malformed input is rejected only through the documented exception family.
   One theorem per modelled entry point: for EVERY input the exception-faithful model returns a
   value or an error of the family (ValueError and subclasses, or a library error class).
   Entry points not listed here are covered by the differential fuzz of harness/props/C14.py only. *)
From Coq Require Import NArith List.
From BU Require Import Base.Exn Base.Bytes Gen.Consts Model.Base58.
From BU Require Lemmas.NoEscape.
Import ListNotations.

Theorem b58_decode_no_escape : forall alph s,
  in_family (Base58.decode alph b58_radix s) = true.
Proof. intros; exact (NoEscape.b58_decode_family _ _ _). Qed.
Print Assumptions b58_decode_no_escape.

Theorem b58_check_decode_no_escape : forall alph (sha256 : list N -> list N) s,
  in_family (Base58.check_decode alph b58_radix b58_cklen sha256 s) = true.
Proof. intros; exact (NoEscape.b58_check_decode_family _ _ _ _ _). Qed.
Print Assumptions b58_check_decode_no_escape.

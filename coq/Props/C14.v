(* C14 -- Malformed input is rejected only through the documented exception family.

   One theorem per modelled entry point: for EVERY input the exception-faithful model returns a value or an error
   of the family (ValueError and subclasses, or a library error class): [in_family (f x) = true].
   Statements only; proofs are [exact <lemma>] from Lemmas/NoEscape*.v.

   Reading guide.
   * Hashes, KDFs, AES, group operations, third-party acceptance tests and Unicode normalisation are universally
     quantified functions (oracles): the statements hold whatever they return.
   * A hypothesis appears only where the Python value space or a codec that is a parameter of the model needs it:
     [bytes_ok] (the argument is a Python bytes object), an enum argument is a member of its enum, a text codec
     that is a Section variable of the model stays in the family (discharged below where the codec model is merged).
   * Models with a fuelled loop: CBOR and Monero-Base58 decoders have their fuel bounded by the input length inside
     the contributors' error lemmas (OutOfFuel unreachable); the master-key loop's termination is probabilistic, its
     statement is [in_family_or_fuel].
   * Sections 10-13 (second wave) cover the Cardano and Monero addresses, the Khovratovich-Law / Icarus / Byron-legacy
     key classes and the wallet-level constructors; with them every census entry point of harness/props/C14.py has a
     theorem about its model.  The one statement that was refuted while /repo let OverflowError escape from the
     Khovratovich-Law child key (finding C14-KHOLAW-OVERFLOW, repaired by fix 71d2424) is now the full
     [kholaw_child_key_no_escape]; its former witness is [kholaw_child_key_out_of_range_ex].

   PATTERN for a new entry point: no-escape lemma in Lemmas/NoEscape<Area>.v (see the header of Lemmas/NoEscape.v),
   theorem here by [exact], entry in MODEL_MAP of harness/props/C14.py. *)
From Coq Require Import NArith ZArith List Bool.
From BU Require Import Base.Exn Base.Bytes Gen.Consts Model.Base58.
From BU Require Model.Codecs Model.IntBytes.
From BU Require Model.PyText Model.SubstrateScale Model.Bip32Path Model.SubstratePath Model.Coins.
From BU Require Model.Bip39 Model.Seeds Gen.WlBip39.
From BU Require Model.MnemWords Model.ChunkMnemonic Model.MoneroMnemonic Model.AlgorandMnemonic Model.ElectrumV1Mnemonic
                Model.ElectrumV2Mnemonic Gen.MnemConsts Gen.MnemLangs Gen.WlMnem_Ev1.
From BU Require Model.Bip32Data Model.Bip32Ser Model.Slip32 Model.WifCodec Model.Bip38 Gen.SerbipConsts Lemmas.WifCodec.
From BU Require Model.Ed25519Lib Model.EccAdapter Gen.Ecc.
From BU Require Model.Bip32Slip10 Gen.DerivConsts.
From BU Require Model.AddrUtils Model.AddrB58 Model.AddrText Model.SplToken Model.ElectrumWallet.
From BU Require Lemmas.NoEscape Lemmas.NoEscapePaths Lemmas.NoEscapeMnem Lemmas.NoEscapeSer Lemmas.NoEscapeEcc
                Lemmas.NoEscapeDeriv Lemmas.NoEscapeAddr Lemmas.NoEscapeBech Model.Bech32.
Import ListNotations.

(* ================================================================== 1. text and wire codecs *)

(* Base58Decoder.Decode(str, alphabet) *)
Theorem b58_decode_no_escape : forall alph s,
  in_family (Base58.decode alph b58_radix s) = true.
Proof. intros; exact (NoEscape.b58_decode_family _ _ _). Qed.
Print Assumptions b58_decode_no_escape.

(* Base58Decoder.CheckDecode(str, alphabet) *)
Theorem b58_check_decode_no_escape : forall alph (sha256 : list N -> list N) s,
  in_family (Base58.check_decode alph b58_radix b58_cklen sha256 s) = true.
Proof. intros; exact (NoEscape.b58_check_decode_family _ _ _ _ _). Qed.
Print Assumptions b58_check_decode_no_escape.

(* Base58XmrDecoder.Decode(str) *)
Theorem xmr_b58_decode_no_escape : forall s, in_family (Codecs.xmr_decode s) = true.
Proof. exact NoEscape.xmr_decode_family. Qed.
Print Assumptions xmr_b58_decode_no_escape.

(* BytesUtils.FromHexString(str) *)
Theorem hex_decode_no_escape : forall s, in_family (IntBytes.from_hex_string s) = true.
Proof. exact NoEscape.hex_decode_family. Qed.
Print Assumptions hex_decode_no_escape.

(* IntegerUtils.FromBinaryStr(str) / BytesUtils.FromBinaryStr(str, zero_pad_bit_len) *)
Theorem int_from_binstr_no_escape : forall s, in_family (IntBytes.int_from_binstr s) = true.
Proof. exact NoEscape.int_from_binstr_family. Qed.
Print Assumptions int_from_binstr_no_escape.
Theorem bytes_from_binstr_no_escape : forall s pad, in_family (IntBytes.bytes_from_binstr s pad) = true.
Proof. exact NoEscape.bytes_from_binstr_family. Qed.
Print Assumptions bytes_from_binstr_no_escape.

(* Bech32BaseUtils.ConvertFromBase32 / ConvertToBase32 (the 5 <-> 8 bit regrouping under every Bech32 codec) *)
Theorem from_base32_no_escape : forall l, in_family (Codecs.from_base32 l) = true.
Proof. exact NoEscape.from_base32_family. Qed.
Print Assumptions from_base32_no_escape.
Theorem to_base32_no_escape : forall l, in_family (Codecs.to_base32 l) = true.
Proof. exact NoEscape.to_base32_family. Qed.
Print Assumptions to_base32_no_escape.

(* Base32Decoder.Decode(str, custom_alphabet) *)
Theorem b32_decode_no_escape : forall s custom, in_family (Codecs.b32_decode s custom) = true.
Proof. exact NoEscape.b32_decode_family. Qed.
Print Assumptions b32_decode_no_escape.

(* SS58Decoder.Decode(str) *)
Theorem ss58_decode_no_escape : forall (blake2b512 : list N -> list N) s,
  in_family (Codecs.ss58_decode blake2b512 s) = true.
Proof. exact NoEscape.ss58_decode_family. Qed.
Print Assumptions ss58_decode_no_escape.

(* CborIndefiniteLenArrayDecoder.Decode(bytes) *)
Theorem cbor_decode_no_escape : forall enc, in_family (Codecs.cbor_decode enc) = true.
Proof. exact NoEscape.cbor_decode_family. Qed.
Print Assumptions cbor_decode_no_escape.

(* ================================================================== 2. paths *)

(* Bip32PathParser.Parse(str) *)
Theorem bip32_parse_no_escape : forall s, in_family (Bip32Path.parse s) = true.
Proof. exact NoEscapePaths.bip32_parse_family. Qed.
Print Assumptions bip32_parse_no_escape.

(* Bip32KeyIndex(int) / Bip32KeyIndex.FromBytes(bytes) / Bip32Path(list of int) *)
Theorem bip32_key_index_no_escape : forall z, in_family (Bip32Path.key_index z) = true.
Proof. exact NoEscapePaths.bip32_key_index_family. Qed.
Print Assumptions bip32_key_index_no_escape.
Theorem bip32_key_index_from_bytes_no_escape : forall b, in_family (Bip32Path.key_index_from_bytes b) = true.
Proof. exact NoEscapePaths.bip32_key_index_from_bytes_family. Qed.
Print Assumptions bip32_key_index_from_bytes_no_escape.
Theorem bip32_make_path_no_escape : forall zs ab, in_family (Bip32Path.make_path zs ab) = true.
Proof. exact NoEscapePaths.bip32_make_path_family. Qed.
Print Assumptions bip32_make_path_no_escape.

(* Bip32Base.DerivePath(str) / FromSeedAndPath(seed, str): the path layer adds only Bip32PathError / ValueError to
   what the child-key derivation raises *)
Theorem bip32_derive_path_str_no_escape : forall (key : Type) (depth : key -> N) (ckd : key -> N -> res key) k s,
  (forall k i, in_family (ckd k i) = true) ->
  in_family (Bip32Path.derive_path_str key depth ckd k s) = true.
Proof. intros key depth ckd k s H. exact (NoEscapePaths.bip32_derive_path_str_family key depth ckd H k s). Qed.
Print Assumptions bip32_derive_path_str_no_escape.

(* SubstratePathElem(str) / SubstratePathParser.Parse(str) *)
Theorem sub_make_elem_no_escape : forall e, in_family (SubstratePath.make_elem e) = true.
Proof. exact NoEscapePaths.sub_make_elem_family. Qed.
Print Assumptions sub_make_elem_no_escape.
Theorem sub_parse_no_escape : forall s, in_family (SubstratePath.parse s) = true.
Proof. exact NoEscapePaths.sub_parse_family. Qed.
Print Assumptions sub_parse_no_escape.

(* SubstratePathElem(str).ChainCode(): every junction text, of any length (the int.to_bytes calls of the SCALE
   compact-length encoder are shown never to overflow) *)
Theorem sub_chain_code_no_escape : forall (blake2b_256 : list N -> list N) body,
  in_family (SubstratePath.chain_code blake2b_256 body) = true.
Proof. exact NoEscapePaths.sub_chain_code_family. Qed.
Print Assumptions sub_chain_code_no_escape.

(* SubstrateScaleCUintEncoder.Encode(int >= 0) / SubstrateScaleBytesEncoder.Encode(str) *)
Theorem scale_cuint_encode_no_escape : forall v, in_family (SubstrateScale.cuint_encode v) = true.
Proof. exact NoEscapePaths.cuint_encode_family. Qed.
Print Assumptions scale_cuint_encode_no_escape.
Theorem scale_bytes_encode_str_no_escape : forall s, in_family (SubstrateScale.bytes_encode_str s) = true.
Proof. exact NoEscapePaths.bytes_encode_str_family. Qed.
Print Assumptions scale_bytes_encode_str_no_escape.

(* Substrate.DerivePath(str) / Substrate.FromSeedAndPath(seed, str), arbitrary sr25519 oracles *)
Theorem sub_derive_path_str_no_escape : forall (blake : list N -> list N)
    (hard soft : list N -> list N -> list N -> list N * list N) (softpub : list N -> list N -> list N) k s,
  in_family (SubstratePath.derive_path_str blake hard soft softpub k s) = true.
Proof. exact NoEscapePaths.sub_derive_path_str_family. Qed.
Print Assumptions sub_derive_path_str_no_escape.

(* the coin tables' default-path parser (strict ASCII sub-grammar, Model/Coins.v) *)
Theorem coins_parse_path_no_escape : forall s, in_family (Coins.parse_path s) = true.
Proof. exact NoEscapePaths.coins_parse_path_family. Qed.
Print Assumptions coins_parse_path_no_escape.

(* ================================================================== 3. BIP-39 and the seed generators *)
(* lang : None = automatic detection, Some wl = the word list of a Bip39Languages member; arbitrary lists allowed *)

(* Bip39MnemonicDecoder(lang).Decode(str | Bip39Mnemonic) and Bip39MnemonicValidator.Validate *)
Theorem bip39_decode_no_escape : forall (sha256 : list N -> list N) langs lang ws,
  in_family (Bip39.decode sha256 langs lang ws) = true.
Proof. exact NoEscapeMnem.bip39_decode_family. Qed.
Print Assumptions bip39_decode_no_escape.
Theorem bip39_decode_str_no_escape : forall (sha256 nfkd lower : list N -> list N) langs lang s,
  in_family (Bip39.decode_str sha256 nfkd lower langs lang s) = true.
Proof. exact NoEscapeMnem.bip39_decode_str_family. Qed.
Print Assumptions bip39_decode_str_no_escape.

(* Bip39MnemonicDecoder(lang).DecodeWithChecksum(str) *)
Theorem bip39_decode_with_checksum_str_no_escape : forall (sha256 nfkd lower : list N -> list N) langs lang s,
  in_family (Bip39.decode_with_checksum_str sha256 nfkd lower langs lang s) = true.
Proof. exact NoEscapeMnem.bip39_decode_ck_str_family. Qed.
Print Assumptions bip39_decode_with_checksum_str_no_escape.

(* Bip39MnemonicValidator(lang).IsValid(str) *)
Theorem bip39_is_valid_str_no_escape : forall (sha256 nfkd lower : list N -> list N) langs lang s,
  in_family (Bip39.is_valid_str sha256 nfkd lower langs lang s) = true.
Proof. exact NoEscapeMnem.bip39_is_valid_str_family. Qed.
Print Assumptions bip39_is_valid_str_no_escape.

(* Bip39SeedGenerator(str, lang).Generate(passphrase) / SubstrateBip39SeedGenerator(str, lang).Generate(passphrase) *)
Theorem bip39_seed_str_no_escape : forall (sha256 nfkd lower : list N -> list N) langs pbkdf2 lang s pass,
  in_family (Seeds.bip39_seed_str sha256 nfkd lower pbkdf2 langs lang s pass) = true.
Proof. exact NoEscapeMnem.bip39_seed_str_family. Qed.
Print Assumptions bip39_seed_str_no_escape.
Theorem substrate_seed_str_no_escape : forall (sha256 nfkd lower : list N -> list N) langs pbkdf2 lang s pass,
  in_family (Seeds.substrate_seed_str sha256 nfkd lower pbkdf2 langs lang s pass) = true.
Proof. exact NoEscapeMnem.substrate_seed_str_family. Qed.
Print Assumptions substrate_seed_str_no_escape.

(* ElectrumV2SeedGenerator(str) / ElectrumV1SeedGenerator(str), relative to the scheme's validator / decoder
   (their own theorems are in section 4) *)
Theorem electrum_v2_seed_str_no_escape : forall (nfkd lower : list N -> list N) pbkdf2
    (ev2_validate : list (list N) -> res unit) s pass,
  (forall ws, in_family (ev2_validate ws) = true) ->
  in_family (Seeds.electrum_v2_seed_str nfkd lower pbkdf2 ev2_validate s pass) = true.
Proof. intros nfkd lower pbkdf2 v s pass. exact (NoEscapeMnem.electrum_v2_seed_str_family nfkd lower pbkdf2 v s pass). Qed.
Print Assumptions electrum_v2_seed_str_no_escape.
Theorem electrum_v1_seed_str_no_escape : forall (sha256 nfkd lower : list N -> list N)
    (ev1_decode : list (list N) -> res (list N)) s,
  (forall ws, in_family (ev1_decode ws) = true) ->
  in_family (Seeds.electrum_v1_seed_str sha256 nfkd lower ev1_decode s) = true.
Proof. intros sha256 nfkd lower d s. exact (NoEscapeMnem.electrum_v1_seed_str_family sha256 nfkd lower d s). Qed.
Print Assumptions electrum_v1_seed_str_no_escape.

(* ================================================================== 4. Monero / Algorand / Electrum mnemonics *)
(* the mnemonic is the word list of the Mnemonic object (Mnemonic.FromString = str.split has no error site);
   [conformant] selects the decoder with (true: today's /repo) or without (false: before fix F8/F9) the overflow check *)
Import BU.Model.MnemWords BU.Model.ChunkMnemonic BU.Gen.MnemConsts BU.Gen.MnemLangs BU.Gen.WlMnem_Ev1.

(* MoneroMnemonicDecoder(lang).Decode / MoneroMnemonicValidator / MoneroSeedGenerator; lang None = automatic *)
Theorem monero_decode_no_escape : forall (conformant : bool) lang ws,
  (forall i, lang = Some i -> exists L, nth_error xmr_langs i = Some L) ->
  in_family (MoneroMnemonic.decode xmr_langs xmr_word_nums xmr_word_nums_chk
               (if conformant then words_to_chunk else words_to_chunk_current) lang ws) = true.
Proof. intros [|] lang ws H; [exact (NoEscapeMnem.xmr_decode_family true lang ws H)|exact (NoEscapeMnem.xmr_decode_family false lang ws H)]. Qed.
Print Assumptions monero_decode_no_escape.

(* AlgorandMnemonicDecoder.Decode / AlgorandMnemonicValidator / AlgorandSeedGenerator *)
Theorem algorand_decode_no_escape : forall (sha512_256 : list N -> list N) conformant ws,
  (forall x, length (sha512_256 x) = 32%nat) -> (forall x, bytes_ok (sha512_256 x)) ->
  in_family (AlgorandMnemonic.decode algo_wl algo_word_nums algo_cklen algo_word_bits sha512_256 conformant ws) = true.
Proof. exact NoEscapeMnem.algo_decode_family. Qed.
Print Assumptions algorand_decode_no_escape.

(* ElectrumV1MnemonicDecoder.Decode / ElectrumV1MnemonicValidator *)
Theorem electrum_v1_decode_no_escape : forall (conformant : bool) ws,
  in_family (ElectrumV1Mnemonic.decode wl_ev1 ev1_word_nums
               (if conformant then words_to_chunk else words_to_chunk_current) ws) = true.
Proof. intros [|] ws; [exact (NoEscapeMnem.ev1_decode_family true ws)|exact (NoEscapeMnem.ev1_decode_family false ws)]. Qed.
Print Assumptions electrum_v1_decode_no_escape.

(* ElectrumV2MnemonicDecoder(type, lang).Decode / ElectrumV2MnemonicValidator: type / lang enum members or None *)
Theorem electrum_v2_decode_no_escape : forall (hmac : list N -> list N -> list N)
    (bip39_valid ev1_valid : list (list N) -> bool) ty lang ws,
  (forall t, ty = Some t -> exists p, nth_error ev2_type_prefixes t = Some p) ->
  (forall l, lang = Some l -> exists wl, nth_error ev2_langs l = Some wl) ->
  in_family (ElectrumV2Mnemonic.decode b39_langs ev2_langs ev2_word_nums ev2_type_prefixes ev2_hmac_key hmac
               bip39_valid ev1_valid ty lang ws) = true.
Proof. exact NoEscapeMnem.ev2_decode_family. Qed.
Print Assumptions electrum_v2_decode_no_escape.

(* ---- the generators' bytes constructors: a wrong entropy length is a ValueError, a legal one is encoded (the
        models' IndexError / AssertionError sites are unreachable on a bytes object) ---- *)
(* Bip39MnemonicGenerator(lang).FromEntropy(bytes) / Bip39MnemonicEncoder(lang).Encode(bytes) *)
Theorem bip39_encode_no_escape : forall (sha256 nfkd lower : list N -> list N) wl ent,
  (forall x, length (sha256 x) = 32%nat) /\ (forall x, bytes_ok (sha256 x)) -> In wl WlBip39.bip39_langs -> bytes_ok ent ->
  in_family (Bip39.encode sha256 nfkd lower wl ent) = true.
Proof. exact NoEscapeMnem.bip39_encode_family. Qed.
Print Assumptions bip39_encode_no_escape.
(* MoneroMnemonicGenerator(lang).FromEntropyNoChecksum / FromEntropyWithChecksum (bytes) *)
Theorem monero_encode_no_escape : forall i L chk b, nth_error xmr_langs i = Some L -> bytes_ok b ->
  in_family (MoneroMnemonic.encode xmr_langs xmr_entropy_bit_lens i chk b) = true.
Proof. exact NoEscapeMnem.xmr_encode_family. Qed.
Print Assumptions monero_encode_no_escape.
(* AlgorandMnemonicGenerator.FromEntropy(bytes) *)
Theorem algorand_encode_no_escape : forall (sha512_256 : list N -> list N) b,
  (forall x, length (sha512_256 x) = 32%nat) -> (forall x, bytes_ok (sha512_256 x)) -> bytes_ok b ->
  in_family (AlgorandMnemonic.encode algo_wl algo_cklen algo_entropy_bit_lens algo_word_bits sha512_256 b) = true.
Proof. exact NoEscapeMnem.algo_encode_family. Qed.
Print Assumptions algorand_encode_no_escape.
(* ElectrumV1MnemonicGenerator.FromEntropy(bytes) *)
Theorem electrum_v1_encode_no_escape : forall b, bytes_ok b ->
  in_family (ElectrumV1Mnemonic.encode wl_ev1 ev1_entropy_bit_lens b) = true.
Proof. exact NoEscapeMnem.ev1_encode_family. Qed.
Print Assumptions electrum_v1_encode_no_escape.

(* ================================================================== 5. extended keys, SLIP-32, WIF, BIP-38 *)
Import BU.Model.Bip32Data BU.Model.Bip32Ser.

(* Bip32KeyIndex / Bip32ChainCode / Bip32FingerPrint / Bip32KeyNetVersions / Bip32KeyData constructors *)
Theorem key_data_containers_no_escape : forall d i cc fp pub priv b,
  in_family (mk_key_data d i cc fp) = true /\ in_family (mk_key_net_ver pub priv) = true /\
  in_family (index_from_bytes b) = true /\ in_family (mk_chain_code b) = true /\ in_family (mk_fprint b) = true.
Proof.
  intros. split; [exact (NoEscapeSer.mk_key_data_family _ _ _ _)|]. split; [exact (NoEscapeSer.mk_key_net_ver_family _ _)|].
  split; [exact (NoEscapeSer.index_from_bytes_family _)|]. split; [exact (NoEscapeSer.mk_chain_code_family _)|exact (NoEscapeSer.mk_fprint_family _)].
Qed.
Print Assumptions key_data_containers_no_escape.

(* Bip32KeyDeserializer.DeserializeKey(str, key_net_ver): ser[4] and key_bytes[0] cannot raise after the length check *)
Theorem bip32_deserialize_no_escape : forall (sha256 : list N -> list N) s v,
  in_family (deserialize b58_alph_btc b58_radix b58_cklen sha256 s v) = true.
Proof. intros. exact (NoEscapeSer.deserialize_family _ _ _ _ _ _). Qed.
Print Assumptions bip32_deserialize_no_escape.

(* <Bip32 class>.FromExtendedKey(str, key_net_ver) and Bip44/49/84/86/Cip1852.FromExtendedKey on top of it;
   the class enters through its private-key validity test and public-key parser (oracles) *)
Theorem bip32_from_extended_no_escape : forall (sha256 : list N -> list N) priv_ok pub_parse s v,
  in_family (from_extended b58_alph_btc b58_radix b58_cklen sha256 priv_ok pub_parse s v) = true.
Proof. intros. exact (NoEscapeSer.from_extended_family _ _ _ _ _ _ _ _). Qed.
Print Assumptions bip32_from_extended_no_escape.

(* <Bip32 class>.FromPrivateKey(bytes, key_data) / FromPublicKey(bytes, key_data) *)
Theorem bip32_construct_no_escape : forall priv_ok pub_parse is_public key_bytes kd,
  in_family (construct priv_ok pub_parse is_public key_bytes kd) = true.
Proof. exact NoEscapeSer.construct_family. Qed.
Print Assumptions bip32_construct_no_escape.

(* Slip32KeyDeserializer.DeserializeKey(str, key_net_ver) over any Bech32 decoder that stays in the family *)
Theorem slip32_deserialize_no_escape : forall (bech_dec : list N -> list N -> res (list N)) s v,
  (forall hrp s, in_family (bech_dec hrp s) = true) ->
  in_family (Slip32.slip32_deserialize bech_dec s v) = true.
Proof. intros d s v H. exact (NoEscapeSer.slip32_deserialize_family d H s v). Qed.
Print Assumptions slip32_deserialize_no_escape.

(* WifDecoder.Decode(str, net_ver), every string and every net_ver byte string (finding C14-WIF-NETVER, the
   TypeError of ord() on a net_ver that is not one byte, is repaired in /repo: ValueError before decoding) *)
Theorem wif_decode_no_escape : forall (sha256 : list N -> list N) s nv,
  in_family (WifCodec.wif_decode b58_alph_btc b58_radix b58_cklen sha256 s nv) = true.
Proof. intros. exact (NoEscapeSer.wif_decode_family _ _ _ _ _ _). Qed.
Print Assumptions wif_decode_no_escape.
Theorem wif_decode_bad_net_ver : forall (sha256 : list N -> list N) s nv, length nv <> 1%nat ->
  WifCodec.wif_decode b58_alph_btc b58_radix b58_cklen sha256 s nv = Err ValueError.
Proof. intros sha256 s nv. exact (Lemmas.WifCodec.wif_decode_bad_version_arg _ _ _ sha256 s nv). Qed.
Print Assumptions wif_decode_bad_net_ver.

(* Bip38Decrypter.DecryptNoEc(str, passphrase) *)
Theorem bip38_noec_decrypt_no_escape : forall (sha256 nfc : list N -> list N) (utf8 : list N -> res (list N))
    scrypt aes_dec (G : Type) (base : G) smul p2pkh enc pass,
  (forall t, in_family (utf8 t) = true) ->
  in_family (Bip38.noec_decrypt b58_alph_btc b58_radix b58_cklen sha256 nfc utf8 scrypt aes_dec G base smul p2pkh enc pass) = true.
Proof.
  intros sha256 nfc utf8 scrypt aes_dec G base smul p2pkh enc pass H.
  exact (NoEscapeSer.noec_decrypt_family _ _ _ sha256 nfc utf8 scrypt aes_dec G base smul p2pkh H enc pass).
Qed.
Print Assumptions bip38_noec_decrypt_no_escape.

(* Bip38Decrypter.DecryptEc(str, passphrase): the int.to_bytes(32) of (passfactor * factorb) mod n cannot overflow *)
Theorem bip38_ec_decrypt_no_escape : forall (sha256 nfc : list N -> list N) (utf8 : list N -> res (list N))
    scrypt aes_dec (G : Type) (base : G) smul ser_c p2pkh enc pass,
  (forall t, in_family (utf8 t) = true) ->
  in_family (Bip38.ec_decrypt b58_alph_btc b58_radix b58_cklen sha256 nfc utf8 scrypt aes_dec G base smul ser_c p2pkh enc pass) = true.
Proof.
  intros sha256 nfc utf8 scrypt aes_dec G base smul ser_c p2pkh enc pass H.
  exact (NoEscapeSer.ec_decrypt_family _ _ _ sha256 nfc utf8 scrypt aes_dec G base smul ser_c p2pkh H enc pass).
Qed.
Print Assumptions bip38_ec_decrypt_no_escape.

(* Bip38EcKeysGenerator.GeneratePrivateKey(intermediate passphrase str, pub_key_mode) *)
Theorem bip38_gen_private_key_no_escape : forall (sha256 : list N -> list N) scrypt aes_enc (G : Type) smul ser_c deser p2pkh
    ip c seedb,
  in_family (Bip38.gen_private_key b58_alph_btc b58_radix b58_cklen sha256 scrypt aes_enc G smul ser_c deser p2pkh ip c seedb) = true.
Proof. intros. exact (NoEscapeSer.gen_private_key_family _ _ _ _ _ _ _ _ _ _ _ _ _ _). Qed.
Print Assumptions bip38_gen_private_key_no_escape.

(* ================================================================== 6. EC key layer: byte constructors *)
Import BU.Model.EccAdapter.

(* Secp256k1PrivateKey / Nist256p1PrivateKey .FromBytes (both back-ends) *)
Theorem ecdsa_priv_from_bytes_no_escape : forall priv_len acc be k,
  in_family (Weier.priv_from_bytes priv_len acc be k) = true.
Proof. exact NoEscapeEcc.w_priv_from_bytes_family. Qed.
Print Assumptions ecdsa_priv_from_bytes_no_escape.

(* Secp256k1PublicKey / Nist256p1PublicKey .FromBytes and Secp256k1Point / Nist256p1Point .FromBytes;
   cur = false: the validating model, cur = true: today's python-ecdsa behaviour (F17) *)
Theorem ecdsa_pub_from_bytes_no_escape : forall p a b cl pcl pul pre lift be bs,
  in_family (Weier.pub_from_bytes p a b cl pcl pul pre lift be bs) = true.
Proof. exact NoEscapeEcc.w_pub_from_bytes_family. Qed.
Print Assumptions ecdsa_pub_from_bytes_no_escape.
Theorem ecdsa_point_from_bytes_no_escape : forall p a b cl pcl pul pre lift cur be bs,
  in_family (Weier.point_from_bytes p a b cl pcl pul pre lift cur be bs) = true.
Proof. exact NoEscapeEcc.w_point_from_bytes_family. Qed.
Print Assumptions ecdsa_point_from_bytes_no_escape.

(* ed25519_lib.point_decode(bytes) *)
Theorem ed_point_decode_no_escape : forall q d clen clamp sb xrec b,
  in_family (Ed25519Lib.point_decode q d clen clamp sb xrec b) = true.
Proof. exact NoEscapeEcc.ed_point_decode_family. Qed.
Print Assumptions ed_point_decode_no_escape.

(* Ed25519 / Ed25519Blake2b / Ed25519Kholaw / Ed25519Monero PrivateKey.FromBytes and PublicKey.FromBytes *)
Theorem ed_priv_from_bytes_no_escape : forall l pl nacl b2b cur k bs,
  in_family (Edw.priv_from_bytes l pl nacl b2b cur k bs) = true.
Proof. exact NoEscapeEcc.ed_priv_from_bytes_family. Qed.
Print Assumptions ed_priv_from_bytes_no_escape.
Theorem ed_pub_from_bytes_no_escape : forall q d clen clamp sb pre pl xrec vk cur k bs,
  in_family (Edw.pub_from_bytes q d clen clamp sb pre pl xrec vk cur k bs) = true.
Proof. exact NoEscapeEcc.ed_pub_from_bytes_family. Qed.
Print Assumptions ed_pub_from_bytes_no_escape.

(* Ed25519Point.FromBytes (and subclasses) at the library's coordinate length: the re-encoding of a 64-byte
   coordinate form (int.to_bytes -> OverflowError, y_bytes[-1] -> IndexError) cannot fail on a bytes object *)
Theorem ed_point_from_bytes_no_escape : forall xrec cur bs, bytes_ok bs ->
  in_family (Edw.point_from_bytes Ecc.ed_q Ecc.ed_d Ecc.ed_coord_len Ecc.ed_clamp Ecc.ed_sign_bit Ecc.ed_sign_byte
               xrec cur bs) = true.
Proof. intros xrec cur bs H. exact (NoEscapeEcc.ed_point_from_bytes_family _ _ _ _ _ _ xrec cur bs eq_refl H). Qed.
Print Assumptions ed_point_from_bytes_no_escape.

(* <curve>PublicKey.IsValidBytes / PrivateKey.IsValidBytes: never raise when the constructor stays in the family *)
Theorem is_valid_bytes_no_escape : forall (A : Type) (r : res A), in_family r = true -> in_family (is_valid r) = true.
Proof. exact (@NoEscapeEcc.is_valid_total). Qed.
Print Assumptions is_valid_bytes_no_escape.

(* Sr25519PrivateKey / Sr25519PublicKey .FromBytes *)
Theorem sr_from_bytes_no_escape : forall pl bs,
  in_family (Sr.sr_priv_from_bytes pl bs) = true /\ in_family (Sr.sr_pub_from_bytes pl bs) = true.
Proof. intros; split; [exact (NoEscapeEcc.sr_priv_from_bytes_family _ _)|exact (NoEscapeEcc.sr_pub_from_bytes_family _ _)]. Qed.
Print Assumptions sr_from_bytes_no_escape.

(* ================================================================== 7. master key from a seed *)
(* <Bip32Slip10 class>.FromSeed(bytes) (and Bip44/49/84/86.FromSeed on top): a value, the ValueError of a seed
   shorter than 16 bytes, or the model's OutOfFuel (the rehash loop's termination is not a theorem) *)
Theorem bip32_from_seed_no_escape : forall (hmac512 : list N -> list N -> list N) D fuel seed,
  NoEscapeDeriv.in_family_or_fuel (Bip32Slip10.from_seed hmac512 D fuel seed) = true.
Proof. exact NoEscapeDeriv.from_seed_family_or_fuel. Qed.
Print Assumptions bip32_from_seed_no_escape.
Theorem bip32_from_seed_errors : forall (hmac512 : list N -> list N -> list N) D fuel seed e,
  Bip32Slip10.from_seed hmac512 D fuel seed = Err e -> e = ValueError \/ e = OutOfFuel.
Proof. exact NoEscapeDeriv.from_seed_errors. Qed.
Print Assumptions bip32_from_seed_errors.
Theorem bip32_from_seed_short : forall (hmac512 : list N -> list N -> list N) D fuel seed,
  (length seed < DerivConsts.slip10_seed_min_len)%nat -> Bip32Slip10.from_seed hmac512 D fuel seed = Err ValueError.
Proof. exact NoEscapeDeriv.from_seed_short. Qed.
Print Assumptions bip32_from_seed_short.
Example bip32_from_seed_short_ex : (length (repeat 0%N 15) < DerivConsts.slip10_seed_min_len)%nat.
Proof. vm_compute. repeat constructor. Qed.
Print Assumptions bip32_from_seed_short_ex.

(* <Bip32Slip10 class>.FromSeedAndPath(seed, path) / DerivePath / ChildKey, relative to the curve's key constructors
   and CKD functions (which come from the EC key layer and HMAC; the SLIP-0010 retry loops are fuelled) *)
Theorem bip32_from_seed_and_path_no_escape : forall (hmac512 : list N -> list N -> list N) (hash160 : list N -> list N)
    (D : Bip32Slip10.deriv_ops) fuel seed is_abs p,
  (forall b, NoEscapeDeriv.in_family_or_fuel (Bip32Slip10.d_priv_of_bytes D b) = true) ->
  (forall P, NoEscapeDeriv.in_family_or_fuel (Bip32Slip10.d_pub_check D P) = true) ->
  (forall fuel k P c i, NoEscapeDeriv.in_family_or_fuel (Bip32Slip10.d_ckd_priv D fuel k P c i) = true) ->
  (forall fuel P c i, NoEscapeDeriv.in_family_or_fuel (Bip32Slip10.d_ckd_pub D fuel P c i) = true) ->
  NoEscapeDeriv.in_family_or_fuel (Bip32Slip10.from_seed_and_path hmac512 hash160 D fuel seed is_abs p) = true.
Proof. intros hmac512 hash160 D fuel seed is_abs p H1 H2 H3 H4. exact (NoEscapeDeriv.from_seed_and_path_fof hmac512 hash160 D H1 H2 H3 H4 fuel seed is_abs p). Qed.
Print Assumptions bip32_from_seed_and_path_no_escape.

(* ================================================================== 8. address decoders *)
Import BU.Model.AddrB58 BU.Model.AddrText.

(* ---- Base58 / Base58Check / hex pipelines (Model/AddrB58.v): unconditional ---- *)
(* P2PKHAddrDecoder (BTC, LTC, DOGE, DASH, ZEC, BCH legacy, ...) / P2SHAddrDecoder / XrpAddrDecoder / XtzAddrDecoder *)
Theorem p2pkh_decode_no_escape : forall (sha256 : list N -> list N) alph nv addr,
  in_family (p2pkh_decode sha256 alph nv addr) = true.
Proof. exact NoEscapeAddr.p2pkh_decode_family. Qed.
Print Assumptions p2pkh_decode_no_escape.
Theorem p2sh_decode_no_escape : forall (sha256 : list N -> list N) nv addr, in_family (p2sh_decode sha256 nv addr) = true.
Proof. exact NoEscapeAddr.p2sh_decode_family. Qed.
Print Assumptions p2sh_decode_no_escape.
Theorem xrp_decode_no_escape : forall (sha256 : list N -> list N) addr, in_family (xrp_decode sha256 addr) = true.
Proof. exact NoEscapeAddr.xrp_decode_family. Qed.
Print Assumptions xrp_decode_no_escape.
Theorem xtz_decode_no_escape : forall (sha256 : list N -> list N) prefix addr, in_family (xtz_decode sha256 prefix addr) = true.
Proof. exact NoEscapeAddr.xtz_decode_family. Qed.
Print Assumptions xtz_decode_no_escape.
(* NeoLegacyAddrDecoder / NeoN3AddrDecoder: the model's IndexError branch (dec[0]) is unreachable *)
Theorem neo_decode_no_escape : forall (sha256 : list N -> list N) ver addr, in_family (neo_decode sha256 ver addr) = true.
Proof. exact NoEscapeAddr.neo_decode_family. Qed.
Print Assumptions neo_decode_no_escape.
(* EosAddrDecoder / ErgoP2PKHAddrDecoder / SolAddrDecoder *)
Theorem eos_decode_no_escape : forall (ripemd160 : list N -> list N) valid_pub addr,
  in_family (eos_decode ripemd160 valid_pub addr) = true.
Proof. exact NoEscapeAddr.eos_decode_family. Qed.
Print Assumptions eos_decode_no_escape.
Theorem ergo_decode_no_escape : forall (blake2b : nat -> list N -> list N) valid_pub net addr,
  in_family (ergo_decode blake2b valid_pub net addr) = true.
Proof. exact NoEscapeAddr.ergo_decode_family. Qed.
Print Assumptions ergo_decode_no_escape.
Theorem sol_decode_no_escape : forall valid_pub addr, in_family (sol_decode valid_pub addr) = true.
Proof. exact NoEscapeAddr.sol_decode_family. Qed.
Print Assumptions sol_decode_no_escape.
(* EthAddrDecoder (+ Okex/One/Inj hex layer) / TrxAddrDecoder / IcxAddrDecoder / NearAddrDecoder / SuiAddrDecoder /
   AptosAddrDecoder *)
Theorem eth_decode_no_escape : forall (keccak256 : list N -> list N) skip addr,
  in_family (eth_decode keccak256 skip addr) = true.
Proof. exact NoEscapeAddr.eth_decode_family. Qed.
Print Assumptions eth_decode_no_escape.
Theorem trx_decode_no_escape : forall (sha256 keccak256 : list N -> list N) addr,
  in_family (trx_decode sha256 keccak256 addr) = true.
Proof. exact NoEscapeAddr.trx_decode_family. Qed.
Print Assumptions trx_decode_no_escape.
Theorem icx_decode_no_escape : forall addr, in_family (icx_decode addr) = true.
Proof. exact NoEscapeAddr.icx_decode_family. Qed.
Print Assumptions icx_decode_no_escape.
Theorem near_decode_no_escape : forall valid_pub addr, in_family (near_decode valid_pub addr) = true.
Proof. exact NoEscapeAddr.near_decode_family. Qed.
Print Assumptions near_decode_no_escape.
Theorem sui_decode_no_escape : forall addr, in_family (sui_decode addr) = true.
Proof. exact NoEscapeAddr.sui_decode_family. Qed.
Print Assumptions sui_decode_no_escape.
Theorem aptos_decode_no_escape : forall addr, in_family (aptos_decode addr) = true.
Proof. exact NoEscapeAddr.aptos_decode_family. Qed.
Print Assumptions aptos_decode_no_escape.

(* ---- Base32 / SS58 pipelines (Model/AddrText.v) instantiated with the merged codec models: unconditional ---- *)
Notation b32 := NoEscapeAddr.b32_dec_model.
Notation b32enc := NoEscapeAddr.b32_enc_model.     (* EncodeNoPadding, used by the canonical-form test *)
(* AlgoAddrDecoder / XlmAddrDecoder (payload[0] unreachable IndexError) / FilSecp256k1AddrDecoder / NanoAddrDecoder /
   NimAddrDecoder *)
Theorem algo_addr_decode_no_escape : forall (sha512_256 : list N -> list N) valid_pub addr,
  in_family (algo_decode sha512_256 valid_pub b32enc b32 addr) = true.
Proof. exact NoEscapeAddr.algo_addr_decode_b32. Qed.
Print Assumptions algo_addr_decode_no_escape.
Theorem xlm_decode_no_escape : forall valid_pub (crc16 : list N -> list N) ty addr,
  in_family (xlm_decode valid_pub crc16 b32 ty addr) = true.
Proof. exact NoEscapeAddr.xlm_decode_b32. Qed.
Print Assumptions xlm_decode_no_escape.
Theorem fil_decode_no_escape : forall (blake2b : nat -> list N -> list N) addr, in_family (fil_decode blake2b b32enc b32 addr) = true.
Proof. exact NoEscapeAddr.fil_decode_b32. Qed.
Print Assumptions fil_decode_no_escape.
Theorem nano_decode_no_escape : forall (blake2b : nat -> list N -> list N) valid_pub addr,
  in_family (nano_decode blake2b valid_pub b32 addr) = true.
Proof. exact NoEscapeAddr.nano_decode_b32. Qed.
Print Assumptions nano_decode_no_escape.
Theorem nim_decode_no_escape : forall addr, in_family (nim_decode b32 addr) = true.
Proof. exact NoEscapeAddr.nim_decode_b32. Qed.
Print Assumptions nim_decode_no_escape.
(* SubstrateEd25519AddrDecoder / SubstrateSr25519AddrDecoder *)
Theorem substrate_addr_decode_no_escape : forall (blake2b512 : list N -> list N) valid_pub curve fmt addr,
  in_family (substrate_decode valid_pub (NoEscapeAddr.ss58_dec_model blake2b512) curve fmt addr) = true.
Proof. exact NoEscapeAddr.substrate_decode_ss58. Qed.
Print Assumptions substrate_addr_decode_no_escape.

(* ---- Bech32 / SegWit / CashAddr pipelines: relative to the codec decoder (model not merged yet; instantiate as in
        Lemmas/NoEscapeAddr.v part 3 when it is) ---- *)
(* AtomAddrDecoder family, AvaxP/XChainAddrDecoder, EgldAddrDecoder, InjAddrDecoder, OkexAddrDecoder / OneAddrDecoder,
   ZilAddrDecoder *)
Theorem bech32_addr_decoders_no_escape : forall (keccak256 : list N -> list N) valid_pub
    (bech32_dec : list N -> list N -> res (list N)),
  (forall hrp s, in_family (bech32_dec hrp s) = true) ->
  (forall hrp addr, in_family (atom_decode bech32_dec hrp addr) = true) /\
  (forall prefix hrp addr, in_family (avax_decode bech32_dec prefix hrp addr) = true) /\
  (forall addr, in_family (egld_decode valid_pub bech32_dec addr) = true) /\
  (forall addr, in_family (inj_decode bech32_dec addr) = true) /\
  (forall hrp addr, in_family (ethb32_decode keccak256 bech32_dec hrp addr) = true) /\
  (forall addr, in_family (zil_decode bech32_dec addr) = true).
Proof.
  intros keccak256 valid_pub d H.
  split; [exact (NoEscapeAddr.atom_decode_family d H)|]. split; [exact (NoEscapeAddr.avax_decode_family d H)|].
  split; [exact (NoEscapeAddr.egld_decode_family valid_pub d H)|]. split; [exact (NoEscapeAddr.inj_decode_family d H)|].
  split; [exact (NoEscapeAddr.ethb32_decode_family keccak256 d H)|exact (NoEscapeAddr.zil_decode_family d H)].
Qed.
Print Assumptions bech32_addr_decoders_no_escape.
(* P2WPKHAddrDecoder / P2TRAddrDecoder *)
Theorem segwit_addr_decoders_no_escape : forall (segwit_dec : list N -> list N -> res (N * list N)),
  (forall hrp s, in_family (segwit_dec hrp s) = true) ->
  (forall hrp addr, in_family (p2wpkh_decode segwit_dec hrp addr) = true) /\
  (forall hrp addr, in_family (p2tr_decode segwit_dec hrp addr) = true).
Proof. intros d H. split; [exact (NoEscapeAddr.p2wpkh_decode_family d H)|exact (NoEscapeAddr.p2tr_decode_family d H)]. Qed.
Print Assumptions segwit_addr_decoders_no_escape.
(* BchP2PKHAddrDecoder / BchP2SHAddrDecoder *)
Theorem cashaddr_addr_decoders_no_escape : forall (cash_dec : list N -> list N -> res (list N * list N)),
  (forall hrp s, in_family (cash_dec hrp s) = true) ->
  forall hrp nv addr, in_family (bch_decode cash_dec hrp nv addr) = true.
Proof. intros d H. exact (NoEscapeAddr.bch_decode_family d H). Qed.
Print Assumptions cashaddr_addr_decoders_no_escape.

(* the hypotheses above are satisfiable on a non-trivial codec: one that rejects everything with its checksum error *)
Example codec_hypothesis_ex :
  (forall hrp s : list N, in_family (@Err (list N) (LibError Bech32ChecksumError)) = true) /\
  atom_decode (fun _ _ => Err (LibError Bech32ChecksumError)) [99] [120] = Err ValueError.
Proof. split; [reflexivity|vm_compute; reflexivity]. Qed.
Print Assumptions codec_hypothesis_ex.

(* ---- the same pipelines on the concrete codec models of Model/Bech32.v (property C10's models) ---- *)
(* Bech32Decoder.Decode / SegwitBech32Decoder.Decode / BchBech32Decoder.Decode *)
Theorem bech32_codecs_no_escape : forall hrp s,
  in_family (Bech32.bech32_decode hrp s) = true /\ in_family (Bech32.segwit_decode hrp s) = true /\
  in_family (Bech32.cash_decode hrp s) = true.
Proof.
  intros; repeat split; [apply NoEscapeBech.bech32_decode_family|apply NoEscapeBech.segwit_decode_family|
                         apply NoEscapeBech.cash_decode_family].
Qed.
Print Assumptions bech32_codecs_no_escape.
Theorem bech32_addr_decoders_concrete_no_escape : forall (keccak256 : list N -> list N) valid_pub,
  (forall hrp addr, in_family (atom_decode Bech32.bech32_decode hrp addr) = true) /\
  (forall prefix hrp addr, in_family (avax_decode Bech32.bech32_decode prefix hrp addr) = true) /\
  (forall addr, in_family (egld_decode valid_pub Bech32.bech32_decode addr) = true) /\
  (forall addr, in_family (inj_decode Bech32.bech32_decode addr) = true) /\
  (forall hrp addr, in_family (ethb32_decode keccak256 Bech32.bech32_decode hrp addr) = true) /\
  (forall addr, in_family (zil_decode Bech32.bech32_decode addr) = true).
Proof.
  intros k vp. exact (bech32_addr_decoders_no_escape k vp Bech32.bech32_decode NoEscapeBech.bech32_decode_family).
Qed.
Print Assumptions bech32_addr_decoders_concrete_no_escape.
Theorem segwit_addr_decoders_concrete_no_escape :
  (forall hrp addr, in_family (p2wpkh_decode Bech32.segwit_decode hrp addr) = true) /\
  (forall hrp addr, in_family (p2tr_decode Bech32.segwit_decode hrp addr) = true).
Proof. exact (segwit_addr_decoders_no_escape Bech32.segwit_decode NoEscapeBech.segwit_decode_family). Qed.
Print Assumptions segwit_addr_decoders_concrete_no_escape.
Theorem cashaddr_addr_decoders_concrete_no_escape : forall hrp nv addr,
  in_family (bch_decode Bech32.cash_decode hrp nv addr) = true.
Proof. exact (cashaddr_addr_decoders_no_escape Bech32.cash_decode NoEscapeBech.cash_decode_family). Qed.
Print Assumptions cashaddr_addr_decoders_concrete_no_escape.
(* Slip32KeyDeserializer.DeserializeKey on the concrete Bech32 decoder *)
Theorem slip32_deserialize_concrete_no_escape : forall s v,
  in_family (Slip32.slip32_deserialize Bech32.bech32_decode s v) = true.
Proof. intros s v. exact (slip32_deserialize_no_escape Bech32.bech32_decode s v NoEscapeBech.bech32_decode_family). Qed.
Print Assumptions slip32_deserialize_concrete_no_escape.

(* ================================================================== 9. wallets built on the above *)
(* SplToken.GetAssociatedTokenAddress(wallet str, mint str) over the SolAddrDecoder model *)
Theorem spl_get_ata_no_escape : forall (sha256 : list N -> list N) on_curve valid_pub wallet mint,
  in_family (SplToken.get_ata b58_alph_btc b58_radix sha256 on_curve (sol_decode valid_pub) wallet mint) = true.
Proof. exact NoEscapeAddr.get_ata_family. Qed.
Print Assumptions spl_get_ata_no_escape.

(* ElectrumV1.FromPrivateKey(bytes) / ElectrumV1.FromPublicKey(bytes) *)
Theorem electrum_v1_constructors_no_escape : forall (G : Type) deser b,
  in_family (ElectrumWallet.v1_from_private_key G b) = true /\ in_family (ElectrumWallet.v1_from_public_key G deser b) = true.
Proof. intros; split; [exact (NoEscapeAddr.electrum_v1_from_private_key_family G b)|exact (NoEscapeAddr.electrum_v1_from_public_key_family G deser b)]. Qed.
Print Assumptions electrum_v1_constructors_no_escape.

(* ================================================================== 10. Monero: addresses, keys, wallets *)
(* Second wave (Lemmas/NoEscapeMonero.v, NoEscapeCardano.v, NoEscapeWallets.v; thin compositions in Model/C14b.v).
   With these, every one of the 237 census entry points of harness/props/C14.py has a theorem about its model. *)
From BU Require Model.AddrXmr Model.Monero Model.AddrAdaShelley Model.AddrAdaByron Model.Bip32Kholaw Model.ByronLegacyDeriv
                Model.Bip44 Model.Cbor Model.C14b Gen.ConstsCardmon.
From BU Require Lemmas.NoEscapeMonero Lemmas.NoEscapeCardano Lemmas.NoEscapeWallets.

(* XmrAddrDecoder.DecodeAddr(str, net_ver) / XmrIntegratedAddrDecoder.DecodeAddr(str, net_ver, payment_id): arbitrary
   Keccak and point decoding; the block decoder's fuel (input length + 1) is shown never to run out *)
Theorem xmr_addr_decode_no_escape : forall (keccak : list N -> list N) (G : Type) (pdec : list N -> option G) addr net payid,
  in_family (AddrXmr.decode_addr keccak G pdec addr net payid) = true.
Proof. exact NoEscapeMonero.xmr_decode_addr_family. Qed.
Print Assumptions xmr_addr_decode_no_escape.

(* MoneroPrivateKey.FromBytes / MoneroPublicKey.FromBytes *)
Theorem monero_keys_no_escape : forall (G : Type) (pdec : list N -> option G) b,
  in_family (Monero.priv_from_bytes b) = true /\ in_family (Monero.pub_from_bytes G pdec b) = true.
Proof. intros; split; [exact (NoEscapeMonero.monero_priv_from_bytes_family b)|exact (NoEscapeMonero.monero_pub_from_bytes_family G pdec b)]. Qed.
Print Assumptions monero_keys_no_escape.

(* Monero.FromSeed / FromPrivateSpendKey / FromBip44PrivateKey(bytes) / FromWatchOnly: libsodium's refusal of a zero
   scalar is the ValueError of fix F21; the TypeError of a scalar that is not 32 bytes long is unreachable *)
Theorem monero_wallet_constructors_no_escape : forall (keccak : list N -> list N) (G : Type) gmul gbase g_is_zero penc pdec
    (b vb pb : list N) net,
  in_family (Monero.from_seed keccak G gmul gbase g_is_zero penc b net) = true /\
  in_family (Monero.from_priv_spend keccak G gmul gbase g_is_zero penc b net) = true /\
  in_family (Monero.from_bip44_priv keccak G gmul gbase g_is_zero penc b net) = true /\
  in_family (Monero.from_watch_only G gmul gbase g_is_zero penc pdec vb pb net) = true.
Proof.
  intros. split; [exact (NoEscapeMonero.from_seed_family _ _ _ _ _ _ _ _)|]. split; [exact (NoEscapeMonero.from_priv_spend_family _ _ _ _ _ _ _ _)|].
  split; [exact (NoEscapeMonero.from_bip44_priv_family _ _ _ _ _ _ _ _)|exact (NoEscapeMonero.from_watch_only_family _ _ _ _ _ _ _ _ _)].
Qed.
Print Assumptions monero_wallet_constructors_no_escape.

(* ================================================================== 11. Cardano addresses *)
(* AdaShelleyAddrDecoder / AdaShelleyStakingAddrDecoder / AdaShelleyRewardAddrDecoder .DecodeAddr over any Bech32 decoder
   (the model turns every refusal of that layer into ValueError, as the library does) *)
Theorem ada_shelley_decoders_no_escape : forall (b32_dec : list N -> list N -> option (list N)) net addr,
  in_family (AddrAdaShelley.decode_payment b32_dec net addr) = true /\
  in_family (AddrAdaShelley.decode_staking b32_dec net addr) = true.
Proof. intros; split; [exact (NoEscapeCardano.decode_payment_family _ _ _)|exact (NoEscapeCardano.decode_staking_family _ _ _)]. Qed.
Print Assumptions ada_shelley_decoders_no_escape.
(* ... on the concrete Bech32 decoder of Model/Bech32.v *)
Definition bech32_dec_opt (hrp s : list N) : option (list N) :=
  match Bech32.bech32_decode hrp s with inl d => Some d | inr _ => None end.
Theorem ada_shelley_decoders_concrete_no_escape : forall net addr,
  in_family (AddrAdaShelley.decode_payment bech32_dec_opt net addr) = true /\
  in_family (AddrAdaShelley.decode_staking bech32_dec_opt net addr) = true.
Proof. exact (ada_shelley_decoders_no_escape bech32_dec_opt). Qed.
Print Assumptions ada_shelley_decoders_concrete_no_escape.

(* AdaByronAddrDecoder.DecodeAddr: Base58, then cbor2 on untrusted bytes (three oracles, arbitrary), CRC-32 (arbitrary).
   The model is the behaviour the property demands; /repo lets TypeError escape on ill-typed CBOR fields (findings
   C14-BYRON-ATTRS, C14-BYRON-CBOR2-EXC, shown by the correspondence run) *)
Theorem ada_byron_decode_no_escape : forall (crc32 : list N -> N) parse_outer parse_payload parse_bytes addr,
  in_family (AddrAdaByron.decode_addr crc32 parse_outer parse_payload parse_bytes addr) = true.
Proof. exact NoEscapeCardano.byron_decode_addr_family. Qed.
Print Assumptions ada_byron_decode_no_escape.

(* AdaByronAddrDecoder.DecryptHdPath(bytes, key) -- library-faithful (Model/C14b.v, on the C11 model of the array
   decoder) and as modelled for C18 --, CardanoByronLegacy.HdPathFromAddress(str); arbitrary AEAD / KDF oracles *)
Theorem ada_byron_hd_path_no_escape : forall pbkdf2 (chacha_dec : list N -> list N -> list N -> list N -> list N -> option (list N))
    (crc32 : list N -> N) parse_outer parse_payload parse_bytes key enc master addr,
  in_family (C14b.byron_decrypt_path chacha_dec key enc) = true /\
  in_family (AddrAdaByron.decrypt_path chacha_dec key enc) = true /\
  in_family (AddrAdaByron.hd_path_from_address pbkdf2 chacha_dec crc32 parse_outer parse_payload parse_bytes master addr) = true.
Proof.
  intros. split; [exact (NoEscapeCardano.byron_decrypt_path_family _ _ _)|].
  split; [exact (NoEscapeCardano.byron_model_decrypt_path_family _ _ _)|exact (NoEscapeCardano.byron_hd_path_from_address_family _ _ _ _ _ _ _ _)].
Qed.
Print Assumptions ada_byron_hd_path_no_escape.

(* ================================================================== 12. Khovratovich-Law family: Bip32KholawEd25519, CardanoIcarusBip32,
                                                                          CardanoByronLegacyBip32 *)
Import BU.Model.Bip32Kholaw BU.Gen.ConstsCardmon.

(* Bip32Base.__init__(priv_key = bytes, ...) behind FromPrivateKey / FromExtendedKey / every derived child: any byte
   string (mul_base's TypeError for a scalar that is not 32 bytes is unreachable after the length checks) *)
Theorem kholaw_node_from_priv_no_escape : forall (G : Type) gmul gbase g_is_zero penc k cc d,
  in_family (node_from_priv G gmul gbase g_is_zero penc k cc d) = true.
Proof. exact NoEscapeCardano.node_from_priv_family. Qed.
Print Assumptions kholaw_node_from_priv_no_escape.

(* <class>.FromSeed(bytes) (and CardanoByronLegacy.FromSeed, Cip1852.FromSeed on top).  Hypotheses: the digest sizes --
   a shorter digest would make the model's kl[31] an IndexError.  Kholaw and Byron re-hash in a loop: in the family or
   out of fuel *)
Theorem kholaw_from_seed_no_escape : forall (hmac512 hmac256 : list N -> list N -> list N) pbkdf2 (sha512 : list N -> list N)
    (G : Type) gmul gbase g_is_zero penc fuel seed,
  (forall k m, length (hmac512 k m) = 64%nat) -> (forall p s r n, length (pbkdf2 p s r n) = N.to_nat n) ->
  (forall x, length (sha512 x) = 64%nat) ->
  NoEscapeDeriv.in_family_or_fuel (kh_from_seed hmac512 hmac256 G gmul gbase g_is_zero penc fuel seed) = true /\
  in_family (ic_from_seed pbkdf2 G gmul gbase g_is_zero penc seed) = true /\
  NoEscapeDeriv.in_family_or_fuel (ByronLegacyDeriv.by_from_seed hmac512 sha512 G gmul gbase g_is_zero penc fuel seed) = true.
Proof.
  intros hmac512 hmac256 pbkdf2 sha512 G gmul gbase g_is_zero penc fuel seed H1 H2 H3.
  split; [exact (NoEscapeCardano.kh_from_seed_fof hmac512 hmac256 G gmul gbase g_is_zero penc H1 fuel seed)|].
  split; [exact (NoEscapeCardano.ic_from_seed_family pbkdf2 G gmul gbase g_is_zero penc H2 seed)|
          exact (NoEscapeCardano.by_from_seed_fof hmac512 sha512 G gmul gbase g_is_zero penc H3 fuel seed)].
Qed.
Print Assumptions kholaw_from_seed_no_escape.
Example kholaw_from_seed_hyps_ex :
  (forall k m : list N, length (repeat 0%N 64) = 64%nat) /\ (forall (p s : list N) (r n : N), length (repeat 0%N (N.to_nat n)) = N.to_nat n).
Proof. split; intros; [reflexivity|apply repeat_length]. Qed.
Print Assumptions kholaw_from_seed_hyps_ex.

(* ChildKey(int) on a private object: every parent key, every int, arbitrary HMAC.  (Until fix 71d2424 of /repo the
   32-byte rendering of 8*zL + kL overflowed for a parent with kL >= 2^256 - 2^227, which FromPrivateKey / FromExtendedKey
   accept: OverflowError, finding C14-KHOLAW-OVERFLOW; this statement was then refuted by the witness below and proved
   only under kL + 2^227 <= 2^256.  The repaired code discards that child with Bip32KeyError, and so does the model.) *)
Theorem kholaw_child_key_no_escape : forall (hmac512 : list N -> list N -> list N) (G : Type) gadd gmul gbase g_is_zero penc pdec n k i,
  n_priv n = Some k ->
  in_family (child_key hmac512 G gadd gmul gbase g_is_zero penc pdec (kh_derivator G gmul gbase g_is_zero penc) n i) = true.
Proof. intros h G gadd gmul gbase z penc pdec n k i. exact (NoEscapeCardano.conf_child_key_family h G gadd gmul gbase z penc pdec n k i). Qed.
Print Assumptions kholaw_child_key_no_escape.
(* the former witness: parent ff*64 (an object the constructor accepts), HMAC ff*64 -- now a library error *)
Example kholaw_child_key_out_of_range_ex : exists (hmac : list N -> list N -> list N) (n : node) (i : Z),
  node_from_priv unit (fun _ _ => tt) tt (fun _ => false) (fun _ => repeat 0%N 32) (repeat 255%N 64) (repeat 0%N 32) 0 = Ok n /\
  child_key hmac unit (fun _ _ => tt) (fun _ _ => tt) tt (fun _ => false) (fun _ => repeat 0%N 32) (fun _ => Some tt)
    (kh_derivator unit (fun _ _ => tt) tt (fun _ => false) (fun _ => repeat 0%N 32)) n i = Err (LibError Bip32KeyError).
Proof.
  exists NoEscapeCardano.refute_hmac, NoEscapeCardano.refute_node, 0%Z.
  split; [exact NoEscapeCardano.refute_node_constructed|exact NoEscapeCardano.kh_child_key_out_of_range].
Qed.
Print Assumptions kholaw_child_key_out_of_range_ex.
(* What the former guard still gives, as a fact of its own: from a parent with kL + 2^227 <= 2^256 (HMAC returns bytes) the
   child that is returned has kL' < kL + 2^227 -- the new refusal is not reached; with [kholaw_master_key_bound] below:
   not by any key derived from a seed for 2^28 levels *)
Theorem kholaw_child_key_growth : forall (hmac512 : list N -> list N -> list N) (G : Type) gmul gbase g_is_zero penc n k i,
  (forall k m, bytes_ok (hmac512 k m)) -> (i < 2 ^ 32)%N -> (NoEscapeCardano.KL k + 2 ^ 227 <= 2 ^ 256)%N ->
  match ckd_priv hmac512 G gmul gbase g_is_zero penc (kh_derivator G gmul gbase g_is_zero penc) n k i with
  | inl n' => exists k', n_priv n' = Some k' /\ (NoEscapeCardano.KL k' < NoEscapeCardano.KL k + 2 ^ 227)%N
  | inr e => exn_in_family e = true
  end.
Proof. intros h G gmul gbase z penc n k i H. exact (NoEscapeCardano.kh_ckd_priv_spec h G gmul gbase z penc H n k i). Qed.
Print Assumptions kholaw_child_key_growth.
Example kholaw_child_key_growth_ex : (NoEscapeCardano.KL (repeat 0%N 31 ++ [64%N] ++ repeat 0%N 32) + 2 ^ 227 <= 2 ^ 256)%N.
Proof. vm_compute. discriminate. Qed.
Print Assumptions kholaw_child_key_growth_ex.
Theorem kholaw_master_key_bound : forall (hmac512 hmac256 : list N -> list N -> list N) pbkdf2 (G : Type) gmul gbase g_is_zero penc fuel seed n,
  (forall k m, length (hmac512 k m) = 64%nat) -> (forall k m, bytes_ok (hmac512 k m)) ->
  (forall p s r n, length (pbkdf2 p s r n) = N.to_nat n) -> (forall p s r n, bytes_ok (pbkdf2 p s r n)) ->
  (kh_from_seed hmac512 hmac256 G gmul gbase g_is_zero penc fuel seed = Ok n \/ ic_from_seed pbkdf2 G gmul gbase g_is_zero penc seed = Ok n) ->
  exists k, n_priv n = Some k /\ (NoEscapeCardano.KL k < 2 ^ 255)%N.
Proof.
  intros h h2 pb G gmul gbase z penc fuel seed n H1 H2 H3 H4 [E|E].
  - exact (NoEscapeCardano.kh_from_seed_bound h h2 G gmul gbase z penc H1 H2 fuel seed n E).
  - exact (NoEscapeCardano.ic_from_seed_bound pb G gmul gbase z penc H3 H4 seed n E).
Qed.
Print Assumptions kholaw_master_key_bound.
(* The Byron-legacy derivator reduces mod l and adds byte-wise: every private parent, every int, arbitrary HMAC *)
Theorem byron_legacy_child_key_no_escape : forall (hmac512 : list N -> list N -> list N) (G : Type) gadd gmul gbase g_is_zero penc pdec n k i,
  n_priv n = Some k ->
  in_family (child_key hmac512 G gadd gmul gbase g_is_zero penc pdec (ByronLegacyDeriv.by_derivator G gmul gbase g_is_zero penc) n i) = true.
Proof. intros h G gadd gmul gbase z penc pdec n k i. exact (NoEscapeCardano.by_child_key_family h G gadd gmul gbase z penc pdec n k i). Qed.
Print Assumptions byron_legacy_child_key_no_escape.

(* <class>.FromSeedAndPath(seed, str) = FromSeed(seed).DerivePath(str): paths of any length (Bip32KholawEd25519 /
   CardanoIcarusBip32 / Cip1852).  The 2^28-element path bound of the statements this replaces was no fuel artefact but the
   room a master key (kL < 2^255) has before 8*zL + kL can leave 32 bytes; with the repaired derivator it is not needed.
   Hypotheses: the digest sizes only (master key: kl[31]). *)
Theorem kholaw_from_seed_and_path_no_escape : forall (hmac512 hmac256 : list N -> list N -> list N) pbkdf2 (G : Type)
    gadd gmul gbase g_is_zero penc pdec fuel seed s,
  (forall k m, length (hmac512 k m) = 64%nat) -> (forall p s r n, length (pbkdf2 p s r n) = N.to_nat n) ->
  NoEscapeDeriv.in_family_or_fuel
    (C14b.kh_from_seed_and_path_str hmac512 G gadd gmul gbase g_is_zero penc pdec (kh_derivator G gmul gbase g_is_zero penc)
       (kh_from_seed hmac512 hmac256 G gmul gbase g_is_zero penc fuel) seed s) = true /\
  NoEscapeDeriv.in_family_or_fuel
    (C14b.kh_from_seed_and_path_str hmac512 G gadd gmul gbase g_is_zero penc pdec (kh_derivator G gmul gbase g_is_zero penc)
       (ic_from_seed pbkdf2 G gmul gbase g_is_zero penc) seed s) = true.
Proof.
  intros h h2 pb G gadd gmul gbase z penc pdec fuel seed s H1 H2.
  split; [exact (NoEscapeCardano.conf_kh_from_seed_and_path_str_fof h h2 G gadd gmul gbase z penc pdec fuel seed s H1)|
          exact (NoEscapeCardano.conf_ic_from_seed_and_path_str_family h pb G gadd gmul gbase z penc pdec seed s H2)].
Qed.
Print Assumptions kholaw_from_seed_and_path_no_escape.
(* CardanoByronLegacyBip32.FromSeedAndPath(seed, str): paths of any length *)
Theorem byron_legacy_from_seed_and_path_no_escape : forall (hmac512 : list N -> list N -> list N) (sha512 : list N -> list N) (G : Type)
    gadd gmul gbase g_is_zero penc pdec fuel seed s,
  (forall x, length (sha512 x) = 64%nat) ->
  NoEscapeDeriv.in_family_or_fuel
    (C14b.kh_from_seed_and_path_str hmac512 G gadd gmul gbase g_is_zero penc pdec (ByronLegacyDeriv.by_derivator G gmul gbase g_is_zero penc)
       (ByronLegacyDeriv.by_from_seed hmac512 sha512 G gmul gbase g_is_zero penc fuel) seed s) = true.
Proof.
  intros h sh G gadd gmul gbase z penc pdec fuel seed s H.
  exact (NoEscapeCardano.by_from_seed_and_path_str_fof h sh G gadd gmul gbase z penc pdec fuel seed s H).
Qed.
Print Assumptions byron_legacy_from_seed_and_path_no_escape.

(* ================================================================== 13. wallet-level constructors and key containers (Model/C14b.v) *)
(* Bip44 / Bip49 / Bip84 / Bip86 / Cip1852 .FromExtendedKey(str, coin) / .FromPrivateKey(bytes, coin) / .FromPublicKey(bytes, coin):
   the Bip32 class's constructor (section 5) followed by the depth check of Bip44Base.__init__ (Bip44DepthError) *)
Theorem bip44_constructors_no_escape : forall (sha256 : list N -> list N) priv_ok pub_parse s v raw pk,
  in_family (C14b.bip44_from_extended b58_alph_btc b58_radix b58_cklen sha256 priv_ok pub_parse s v) = true /\
  in_family (C14b.bip44_from_private_key priv_ok pub_parse raw) = true /\
  in_family (C14b.bip44_from_public_key priv_ok pub_parse pk) = true.
Proof.
  intros. split; [exact (NoEscapeWallets.bip44_from_extended_family _ _ _ _ _ _ _ _)|].
  split; [exact (NoEscapeWallets.bip44_from_private_key_family _ _ _)|exact (NoEscapeWallets.bip44_from_public_key_family _ _ _)].
Qed.
Print Assumptions bip44_constructors_no_escape.
(* ... .FromSeed(bytes, coin): relative to the master key of the coin's Bip32 class (section 7 for the SLIP-0010 classes,
   section 12 for Cip1852 / the Cardano Bip44 coins) *)
Theorem bip44_from_seed_no_escape : forall (K : Type) (master : res K),
  NoEscapeDeriv.in_family_or_fuel master = true -> NoEscapeDeriv.in_family_or_fuel (C14b.bip44_from_seed master) = true.
Proof. exact NoEscapeWallets.bip44_from_seed_fof. Qed.
Print Assumptions bip44_from_seed_no_escape.
(* ... on the concrete master keys: the SLIP-0010 classes (Bip44 / Bip49 / Bip84 / Bip86 coins on secp256k1, nist256p1,
   ed25519) and the Icarus master key (Cip1852, Bip44 CARDANO_BYRON_ICARUS) *)
Theorem bip44_from_seed_concrete_no_escape : forall (hmac512 : list N -> list N -> list N) D pbkdf2 (G : Type) gmul gbase g_is_zero penc fuel seed,
  (forall p s r n, length (pbkdf2 p s r n) = N.to_nat n) ->
  NoEscapeDeriv.in_family_or_fuel (C14b.bip44_from_seed (Bip32Slip10.from_seed hmac512 D fuel seed)) = true /\
  NoEscapeDeriv.in_family_or_fuel (C14b.bip44_from_seed (ic_from_seed pbkdf2 G gmul gbase g_is_zero penc seed)) = true.
Proof.
  intros h D pb G gmul gbase z penc fuel seed H.
  split; [exact (bip44_from_seed_no_escape _ _ (bip32_from_seed_no_escape h D fuel seed))|].
  exact (bip44_from_seed_no_escape _ _ (NoEscapeDeriv.family_or_fuel_of_family _ (NoEscapeCardano.ic_from_seed_family pb G gmul gbase z penc H seed))).
Qed.
Print Assumptions bip44_from_seed_concrete_no_escape.
Example bip44_from_seed_ex : NoEscapeDeriv.in_family_or_fuel (@Err N ValueError) = true /\
  C14b.bip44_from_seed (Ok 7%N) = Ok (Bip44.mkState N 0 false 0 0 [] 7%N).
Proof. split; reflexivity. Qed.
Print Assumptions bip44_from_seed_ex.

(* MoneroMnemonic.FromString / Bip39Mnemonic.FromString (inherited by the Algorand and Electrum containers): no error site;
   CardanoIcarusSeedGenerator(str) / CardanoByronLegacySeedGenerator(str) *)
Theorem mnemonic_containers_and_cardano_seeds_no_escape : forall (sha256 nfkd lower blake2b_256 : list N -> list N) langs lang s,
  in_family (C14b.mnemonic_from_string s) = true /\ in_family (C14b.bip39_mnemonic_from_string nfkd lower s) = true /\
  in_family (C14b.icarus_seed sha256 nfkd lower langs lang s) = true /\
  in_family (C14b.byron_legacy_seed sha256 nfkd lower langs blake2b_256 lang s) = true.
Proof.
  intros. split; [exact (NoEscapeWallets.mnemonic_from_string_family s)|]. split; [exact (NoEscapeWallets.bip39_mnemonic_from_string_family nfkd lower s)|].
  split; [exact (NoEscapeWallets.icarus_seed_family _ _ _ _ _ _)|exact (NoEscapeWallets.byron_legacy_seed_family _ _ _ _ _ _ _)].
Qed.
Print Assumptions mnemonic_containers_and_cardano_seeds_no_escape.

(* Sr25519PrivateKey / Sr25519PublicKey .IsValidBytes, Sr25519Point.FromBytes, SubstratePrivateKey / SubstratePublicKey .FromBytes,
   Substrate.FromPrivateKey / FromPublicKey / FromSeed (arbitrary sr25519 binding) *)
Theorem sr25519_substrate_keys_no_escape : forall pub_of_secret pair_from_seed b,
  in_family (C14b.sr_priv_is_valid b) = true /\ in_family (C14b.sr_pub_is_valid b) = true /\
  in_family (C14b.sr_point_from_bytes b) = true /\
  in_family (C14b.substrate_priv_from_bytes b) = true /\ in_family (C14b.substrate_pub_from_bytes b) = true /\
  in_family (C14b.substrate_from_private_key pub_of_secret b) = true /\ in_family (C14b.substrate_from_public_key b) = true /\
  in_family (C14b.substrate_from_seed pair_from_seed b) = true.
Proof.
  intros. split; [exact (proj1 (NoEscapeWallets.sr_is_valid_family b))|]. split; [exact (proj2 (NoEscapeWallets.sr_is_valid_family b))|].
  split; [exact (NoEscapeWallets.sr_point_from_bytes_family b)|]. split; [exact (NoEscapeWallets.substrate_priv_from_bytes_family b)|].
  split; [exact (NoEscapeWallets.substrate_pub_from_bytes_family b)|]. split; [exact (NoEscapeWallets.substrate_from_private_key_family _ b)|].
  split; [exact (NoEscapeWallets.substrate_from_public_key_family b)|exact (NoEscapeWallets.substrate_from_seed_family _ b)].
Qed.
Print Assumptions sr25519_substrate_keys_no_escape.

(* ElectrumV1.FromSeed(bytes); ElectrumV2Standard.FromSeed / ElectrumV2Segwit.FromSeed(bytes) relative to the secp256k1
   master key (section 7) and child-key function *)
Theorem electrum_from_seed_no_escape : forall (G obj : Type) ckd obj_depth (from_seed : list N -> res obj) seed,
  (forall seed, NoEscapeDeriv.in_family_or_fuel (from_seed seed) = true) ->
  (forall o i, NoEscapeDeriv.in_family_or_fuel (ckd o i) = true) ->
  in_family (C14b.electrum_v1_from_seed G seed) = true /\
  NoEscapeDeriv.in_family_or_fuel (C14b.electrum_v2_standard_from_seed obj obj_depth from_seed seed) = true /\
  NoEscapeDeriv.in_family_or_fuel (C14b.electrum_v2_segwit_from_seed obj ckd obj_depth from_seed seed) = true.
Proof.
  intros G obj ckd od fs seed H1 H2. split; [exact (NoEscapeWallets.electrum_v1_from_seed_family G seed)|].
  split; [exact (NoEscapeWallets.electrum_v2_standard_from_seed_fof obj od fs H1 seed)|
          exact (NoEscapeWallets.electrum_v2_segwit_from_seed_fof obj ckd od fs H1 H2 seed)].
Qed.
Print Assumptions electrum_from_seed_no_escape.
Example electrum_from_seed_hyps_ex :
  (forall seed : list N, NoEscapeDeriv.in_family_or_fuel (@Err N OutOfFuel) = true) /\
  C14b.electrum_v2_standard_from_seed N (fun o => o) (fun _ => Ok 0%N) [] = Ok 0%N.
Proof. split; reflexivity. Qed.
Print Assumptions electrum_from_seed_hyps_ex.

(* C15 -- Results depend only on arguments, not on history, caches, threads or toggles.
   Statements only; every proof is [exact <lemma>] with Print Assumptions beneath.

   Two halves.
   (1) A generic model (Model/Memo.v): a store of object fields, operations that call methods or
       write fields, memoisation keyed by (object, method, arguments); two threads racing on one
       cache slot.  Theorems for EVERY history / schedule.
   (2) The library's object structure, regenerated from the source on every run (Gen/Objects.v:
       declared fields, fields written after construction with their mutators, lazy initialisers,
       every @lru_cache method with the mutable part of its transitive read-set, transitive
       write-sets): the hypothesis of (1) -- memoised methods read immutable fields only -- is a
       computation on that table.  It is FALSE on the current tree (findings F6, F14): the exact list
       of offending (method, field) pairs is a theorem, the obligation holds for all other memoised
       methods, and the history theorems are instantiated for them.
   What is NOT proved here: that the static read/write-set analysis (harness/gen_objects.py) is sound
   for Python (hypotheses [reads_sound], [gen_covers] below); real thread scheduling and the GIL. *)
From Coq Require Import List String Bool NArith Arith.
From BU Require Import Gen.Objects Model.Memo Model.Objects.
From BU Require Lemmas.Memo Lemmas.ObjectsOk Lemmas.ObjectsExpected Lemmas.ObjectsHistory.
Import ListNotations.
Open Scope string_scope.

Import Lemmas.ObjectsOk Lemmas.ObjectsExpected.

(* ---------------------------------------------------------------- (1) the generic model *)

(* MEMO TRANSPARENCY.  [good m]: m is not memoised, or every field it reads is never written after
   construction.  From a state whose cache is consistent (e.g. empty), after ANY history whose writes
   go to writable fields, a call of a good method returns the uncached function of the current
   logical state (the writes applied, the calls forgotten). *)
Theorem memo_transparent : forall (F : Type) (feqb : F -> F -> bool) (M : Type) (meqb : M -> M -> bool) (V : Type)
    (sem : M -> (F -> V) -> V) (is_cached : M -> bool),
  (forall a b, feqb a b = true <-> a = b) -> (forall a b, meqb a b = true <-> a = b) ->
  forall (reads : M -> list F),
  (forall m s1 s2, (forall f, In f (reads m) -> s1 f = s2 f) -> sem m s1 = sem m s2) ->
  forall (writable : F -> Prop) s h m,
  Lemmas.Memo.cache_valid F M meqb V sem is_cached reads writable s ->
  Forall (Lemmas.Memo.write_ok F M V writable) h ->
  Lemmas.Memo.good F M is_cached reads writable m ->
  result_after F feqb M meqb V sem is_cached s h m = Some (sem m (logical F feqb M V (fst s) h)).
Proof. exact Lemmas.Memo.memo_transparent. Qed.
Print Assumptions memo_transparent.

Theorem empty_cache_is_valid : forall (F M : Type) (meqb : M -> M -> bool) (V : Type) (sem : M -> (F -> V) -> V)
    (is_cached : M -> bool) (reads : M -> list F) (writable : F -> Prop) st,
  Lemmas.Memo.cache_valid F M meqb V sem is_cached reads writable (st, []).
Proof. exact Lemmas.Memo.empty_cache_valid. Qed.
Print Assumptions empty_cache_is_valid.

(* INTERLEAVING: two threads, one cache slot (one lru_cache key / a lazy singleton), atomic steps
   test, compute, store.  Under EVERY schedule a thread that returns returns the sequential value,
   the slot never holds another value, and any schedule giving each thread three steps finishes
   both with the slot filled. *)
Theorem interleaving_confluent : forall (V : Type) (fval : V) (s : option V) (sch : list bool),
  Lemmas.Memo.slot_ok V fval s ->
  let c := run_sched V fval (Lemmas.Memo.init V s) sch in
  (forall r, finished V (t0 V c) = Some r -> r = fval) /\
  (forall r, finished V (t1 V c) = Some r -> r = fval) /\
  (forall v, slot V c = Some v -> v = fval) /\
  ((3 <= count_occ bool_dec sch false)%nat -> (3 <= count_occ bool_dec sch true)%nat ->
     finished V (t0 V c) = Some fval /\ finished V (t1 V c) = Some fval /\ slot V c = Some fval).
Proof. exact Lemmas.Memo.interleaving_confluent. Qed.
Print Assumptions interleaving_confluent.

Example sequential_schedule : forall (V : Type) (fval : V),
  run_sched V fval (Lemmas.Memo.init V None) (sequential) = mkConfig V (Some fval) (Done fval) (Done fval).
Proof. exact Lemmas.Memo.sequential_run. Qed.
Print Assumptions sequential_schedule.

(* an interleaved schedule in which both threads test before either stores: both compute, both store *)
Example racing_schedule :
  run_sched nat 7%nat (Lemmas.Memo.init nat None) [false; true; false; true; true; false]
  = mkConfig nat (Some 7%nat) (Done 7%nat) (Done 7%nat).
Proof. reflexivity. Qed.
Print Assumptions racing_schedule.

(* ---------------------------------------------------------------- (2) the library's object table *)

(* FULL STATEMENT (the obligation of DESIGN.md):
     caches_over_immutable :
       forallb (fun m => disjointb (reads m) mutable_fields) cached = true.
   It is false on the current tree.  What is proved instead, by computation on Gen/Objects.v: *)

(* the offending (memoised method, mutable field) pairs are exactly the recorded ones ... *)
Theorem caches_over_immutable_offenders : offenders = expected_offenders.
Proof. exact offenders_exact. Qed.
Print Assumptions caches_over_immutable_offenders.

(* ... the full obligation holds iff that list is empty (so: refuted while it is not, and it becomes
   THE theorem when the maintainer sets expected_offenders := [] after the fixes) ... *)
Theorem caches_over_immutable :
  caches_over_immutable_b cached mutable_fields = true <-> expected_offenders = [].
Proof. exact caches_over_immutable_iff. Qed.
Print Assumptions caches_over_immutable.

Theorem caches_over_immutable_refuted :
  expected_offenders <> [] -> caches_over_immutable_b cached mutable_fields = false.
Proof.
  intros H. destruct (caches_over_immutable_b cached mutable_fields) eqn:E; [|reflexivity].
  exfalso. apply H. exact (proj1 caches_over_immutable_iff E).
Qed.
Print Assumptions caches_over_immutable_refuted.

(* ... and every other memoised method satisfies it. *)
Theorem caches_over_immutable_partial :
  caches_over_immutable_b (filter non_offending cached) mutable_fields = true.
Proof. exact Lemmas.ObjectsOk.caches_over_immutable_partial. Qed.
Print Assumptions caches_over_immutable_partial.

(* the set of fields written after construction is the known one (a new mutator shows up here) *)
Theorem mutable_fields_known : mutable_fields = expected_mutable_fields.
Proof. exact mutable_fields_exact. Qed.
Print Assumptions mutable_fields_known.

(* lazily initialised fields (Ed25519Point coordinates, the word-list singleton and its dictionary)
   are read through their initialisers only *)
Theorem lazy_fields_read_through_initialisers : caches_over_immutable_b cached lazy_fields = true.
Proof. exact lazy_fields_private. Qed.
Print Assumptions lazy_fields_read_through_initialisers.

(* the narrowing of virtual dispatch on m_coin_conf is justified by the coin tables *)
Theorem conf_narrowing_justified :
  narrowing_ok_b = true /\
  forallb (fun r => let '(hid, _, cls) := r in if N.eqb hid 4 then String.eqb cls "BipCoinConf" else true)
          coin_conf_classes = true.
Proof. exact (conj narrowing_ok cip1852_confs_plain). Qed.
Print Assumptions conf_narrowing_justified.

(* DERIVATION LEAVES THE PARENT: every derivation method exists in the table and its transitive
   write-set contains lazily initialised fields only; and in the model a call changes no field. *)
Theorem derive_leaves_parent :
  derive_leaves_parent_b = true /\
  forall (F : Type) (feqb : F -> F -> bool) (M : Type) (meqb : M -> M -> bool) (V : Type)
         (sem : M -> (F -> V) -> V) (is_cached : M -> bool) s m,
    fst (fst (step F feqb M meqb V sem is_cached s (Call m))) = fst s.
Proof. exact (conj derive_leaves_parent_ok Lemmas.Memo.call_leaves_store). Qed.
Print Assumptions derive_leaves_parent.

(* CALLER-SUPPLIED INPUTS: the functions that mutate one of their parameters in place are exactly the
   recorded ones (today: the Bech32 encoder's `data += checksum`), and at every call site the argument
   is an object created for the call (a list concatenation or the fresh result of ConvertToBase32). *)
Theorem bech32_encode_no_alias :
  map (fun e => (fst (fst e), snd (fst e))) param_mutators = expected_param_mutators /\
  forallb (fun s => snd s) param_mutator_call_sites = true /\
  forallb (fun s => smem (snd (fst (fst s))) (map fst expected_param_mutators)) param_mutator_call_sites = true.
Proof. exact (conj param_mutators_exact param_mutator_sites_fresh). Qed.
Print Assumptions bech32_encode_no_alias.

(* HISTORY INDEPENDENCE for the library: method keys (object, "Class.Method", args), fields
   (object, "Class.field"), writable = the generated mutable fields.  For every method that is not a
   listed offender, after any history of calls and mutator invocations the result equals that of a
   fresh object (empty caches) brought to the same logical state. *)
Theorem history_independence : forall (V : Type) (sem : mkey -> (fkey -> V) -> V) (reads : mkey -> list fkey),
  (forall m s1 s2, (forall f, In f (reads m) -> s1 f = s2 f) -> sem m s1 = sem m s2) ->
  (forall m f, is_cached_key m = true -> In f (reads m) -> In (snd f) mutable_fields ->
               In (snd f) (gen_reads (mname m))) ->
  forall s h m,
  Lemmas.Memo.cache_valid fkey mkey mkeyb V sem is_cached_key reads writable_key s ->
  Forall (Lemmas.Memo.write_ok fkey mkey V writable_key) h ->
  smem (mname m) (map fst expected_offenders) = false ->
  result_after fkey fkeyb mkey mkeyb V sem is_cached_key s h m =
  result_after fkey fkeyb mkey mkeyb V sem is_cached_key (fst s, []) (Lemmas.Memo.only_writes fkey mkey V h) m.
Proof. exact history_independence_objects. Qed.
Print Assumptions history_independence.

(* TOGGLE SET + RESTORE IS NEUTRAL (same instance): whatever is called while the toggle is set,
   afterwards every non-offending method returns what it returned before. *)
Theorem toggle_restore_neutral : forall (V : Type) (sem : mkey -> (fkey -> V) -> V) (reads : mkey -> list fkey),
  (forall m s1 s2, (forall f, In f (reads m) -> s1 f = s2 f) -> sem m s1 = sem m s2) ->
  (forall m f, is_cached_key m = true -> In f (reads m) -> In (snd f) mutable_fields ->
               In (snd f) (gen_reads (mname m))) ->
  forall s f v h m,
  Lemmas.Memo.cache_valid fkey mkey mkeyb V sem is_cached_key reads writable_key s ->
  writable_key f -> Forall (Lemmas.Memo.is_call fkey mkey V) h ->
  smem (mname m) (map fst expected_offenders) = false ->
  result_after fkey fkeyb mkey mkeyb V sem is_cached_key s (Write f v :: (h ++ [Write f (fst s f)])%list) m =
  result_after fkey fkeyb mkey mkeyb V sem is_cached_key s [] m.
Proof. exact toggle_restore_neutral_objects. Qed.
Print Assumptions toggle_restore_neutral.

(* The offending caches do break it: a memoised method over a writable field returns the stale value.
   Concrete instance of the model: one field (0 = has private key), one memoised method reading it;
   call, write, call -> the second call still sees the old value (F6 in miniature). *)
Example stale_cache_witness :
  let sem := fun (_ : unit) (st : unit -> nat) => st tt in
  let s0 : state unit unit nat := (fun _ => 1%nat, []) in
  result_after unit (fun _ _ => true) unit (fun _ _ => true) nat sem (fun _ => true) s0
    [Call tt; Write tt 0%nat] tt = Some 1%nat /\
  sem tt (logical unit (fun _ _ => true) unit nat (fst s0) [Call tt; Write tt 0%nat]) = 0%nat.
Proof. split; reflexivity. Qed.
Print Assumptions stale_cache_witness.

(* the two trusted hypotheses of history_independence / toggle_restore_neutral are satisfiable (by the
   semantics that reads exactly the generated fields of the receiver), and with it the offending
   method does go stale while a non-offending one does not: F6 on the generated table *)
Example instance_hypotheses_satisfiable :
  (forall m s1 s2, (forall f, In f (own_reads m) -> s1 f = s2 f) -> own_sem m s1 = own_sem m s2) /\
  (forall m f, is_cached_key m = true -> In f (own_reads m) -> In (snd f) mutable_fields ->
               In (snd f) (gen_reads (mname m))).
Proof. exact (conj own_reads_sound own_gen_covers). Qed.
Print Assumptions instance_hypotheses_satisfiable.

(* ---------------------------------------------------------------- (3) the shape the history check tests

   A process is a state machine: [step s o] = (next state, result) for a call [o] (with its arguments) in
   process state [s] -- ALL of it: immutable fields, caches, class attributes, module-level configuration.
   [exec] folds [step] over a history, [result_at s h o] is the result of [o] after history [h], so
   [result_at s [] o] is "first thing in a fresh process".  [imm] projects the immutable fields (what the
   constructor arguments determine), [Inv] is an invariant of reachable states, [okop] the operations
   histories are made of, [obs] the calls whose results are claimed history-independent.
   The check (harness/props/C15.py, reflective part) runs histories in worker processes and compares every
   call with the fresh-process value; a difference is exactly the premise of [failing_history_refutes]. *)

(* TWO HISTORIES.  If steps preserve the invariant and the immutable fields, and results are a function [f] of
   (immutable fields, arguments) only, then any two histories -- both arbitrary, stated over fold_left -- ending
   with the same call, on processes whose objects were built from the same constructor arguments, return the
   same value. *)
Theorem two_histories_same_result : forall (S Op R : Type) (step : S -> Op -> S * R) (I : Type) (imm : S -> I)
    (Inv : S -> Prop) (okop obs : Op -> Prop),
  (forall s o, Inv s -> okop o -> Inv (fst (step s o))) ->
  (forall s o, Inv s -> okop o -> imm (fst (step s o)) = imm s) ->
  forall f : I -> Op -> R, (forall s o, Inv s -> obs o -> snd (step s o) = f (imm s) o) ->
  forall s1 s2 h1 h2 o, Inv s1 -> Inv s2 -> imm s1 = imm s2 -> Forall okop h1 -> Forall okop h2 -> obs o ->
  snd (step (fold_left (fun s o => fst (step s o)) h1 s1) o) = snd (step (fold_left (fun s o => fst (step s o)) h2 s2) o).
Proof. exact Lemmas.ObjectsHistory.two_histories. Qed.
Print Assumptions two_histories_same_result.

(* THE ORACLE: the result at the end of any history is the fresh-process value ... *)
Theorem fresh_process_oracle : forall (S Op R : Type) (step : S -> Op -> S * R) (I : Type) (imm : S -> I)
    (Inv : S -> Prop) (okop obs : Op -> Prop),
  (forall s o, Inv s -> okop o -> Inv (fst (step s o))) ->
  (forall s o, Inv s -> okop o -> imm (fst (step s o)) = imm s) ->
  forall f : I -> Op -> R, (forall s o, Inv s -> obs o -> snd (step s o) = f (imm s) o) ->
  forall s h o, Inv s -> Forall okop h -> obs o -> result_at S Op R step s h o = result_at S Op R step s [] o.
Proof. exact Lemmas.ObjectsHistory.fresh_oracle. Qed.
Print Assumptions fresh_process_oracle.

(* ... and so is the result at EVERY position of the history (what a worker reports, call by call) *)
Theorem every_position_is_fresh : forall (S Op R : Type) (step : S -> Op -> S * R) (I : Type) (imm : S -> I)
    (Inv : S -> Prop) (okop obs : Op -> Prop),
  (forall s o, Inv s -> okop o -> Inv (fst (step s o))) ->
  (forall s o, Inv s -> okop o -> imm (fst (step s o)) = imm s) ->
  forall f : I -> Op -> R, (forall s o, Inv s -> obs o -> snd (step s o) = f (imm s) o) ->
  forall s h1 o h2, Inv s -> Forall okop (h1 ++ o :: h2)%list -> obs o ->
  nth_error (results S Op R step s (h1 ++ o :: h2)%list) (List.length h1) = Some (result_at S Op R step s [] o).
Proof. exact Lemmas.ObjectsHistory.every_position. Qed.
Print Assumptions every_position_is_fresh.

(* FAILING-HISTORY CRITERION (the contrapositive the check uses): one history -- the one found, or the shorter
   one delta debugging re-ran -- after which a call returns something else than first thing in a fresh process
   refutes EVERY function of (immutable fields, arguments): the library has hidden state that results depend on
   (or mutates a field it declares immutable). *)
Theorem failing_history_refutes : forall (S Op R : Type) (step : S -> Op -> S * R) (I : Type) (imm : S -> I)
    (Inv : S -> Prop) (okop obs : Op -> Prop),
  (forall s o, Inv s -> okop o -> Inv (fst (step s o))) ->
  (forall s o, Inv s -> okop o -> imm (fst (step s o)) = imm s) ->
  forall s h o, Inv s -> Forall okop h -> obs o ->
  result_at S Op R step s h o <> result_at S Op R step s [] o ->
  forall f : I -> Op -> R, ~ (forall s o, Inv s -> obs o -> snd (step s o) = f (imm s) o).
Proof. exact Lemmas.ObjectsHistory.failing_history_refutes. Qed.
Print Assumptions failing_history_refutes.

(* SNAPSHOT CRITERION: results may depend on hidden state [hid] (what the process-state snapshot canonicalises);
   [fill] relates a hidden state to one that differs by memoisation-cache fills only, to which results are
   insensitive.  If the snapshot after the history is the initial one up to fills, the call returns the fresh
   value; contrapositive: a failing history has changed process-wide state beyond a fill. *)
Theorem snapshot_criterion : forall (S Op R : Type) (step : S -> Op -> S * R) (I : Type) (imm : S -> I)
    (Inv : S -> Prop) (okop obs : Op -> Prop) (Hd : Type) (hid : S -> Hd) (fill : Hd -> Hd -> Prop),
  (forall s o, Inv s -> okop o -> Inv (fst (step s o))) ->
  (forall s o, Inv s -> okop o -> imm (fst (step s o)) = imm s) ->
  forall g : I -> Hd -> Op -> R, (forall s o, Inv s -> obs o -> snd (step s o) = g (imm s) (hid s) o) ->
  (forall i x y o, fill x y -> g i x o = g i y o) ->
  forall s h o, Inv s -> Forall okop h -> obs o ->
  (fill (hid s) (hid (exec S Op R step s h)) -> result_at S Op R step s h o = result_at S Op R step s [] o) /\
  (result_at S Op R step s h o <> result_at S Op R step s [] o -> ~ fill (hid s) (hid (exec S Op R step s h))).
Proof.
  intros S Op R step I imm Inv okop obs Hd hid fill HI HM g HG HF s h o Is Hh Ho. split.
  - exact (Lemmas.ObjectsHistory.snapshot_criterion S Op R step I imm Inv okop obs Hd hid fill HI HM g HG HF s h o Is Hh Ho).
  - exact (Lemmas.ObjectsHistory.failing_history_changes_state S Op R step I imm Inv okop obs Hd hid fill HI HM g HG HF s h o Is Hh Ho).
Qed.
Print Assumptions snapshot_criterion.

(* premises satisfiable (a machine that keeps a hidden "last argument" and never shows it), and the criterion
   fires on the machine that does show it -- a "last used" cache leaking into results, in miniature *)
Example machine_premises_satisfiable :
  (forall (s : nat * nat) (o : nat), True -> True -> True) /\
  (forall (s : nat * nat) (o : nat), True -> True -> fst (fst (clean_step s o)) = fst s) /\
  (forall (s : nat * nat) (o : nat), True -> True -> snd (clean_step s o) = (fst s + o)%nat).
Proof. exact Lemmas.ObjectsHistory.clean_machine_ok. Qed.
Print Assumptions machine_premises_satisfiable.

Example leaky_machine_has_failing_history :
  result_at (nat * nat) nat nat leaky_step (7, 0)%nat [5%nat] 1%nat <> result_at (nat * nat) nat nat leaky_step (7, 0)%nat [] 1%nat /\
  forall f : nat -> nat -> nat, ~ (forall (s : nat * nat) (o : nat), True -> True -> snd (leaky_step s o) = f (fst s) o).
Proof. exact Lemmas.ObjectsHistory.leaky_machine_refuted. Qed.
Print Assumptions leaky_machine_has_failing_history.

(* THE MEMO MODEL IS SUCH A MACHINE ([run] is the fold of [step]): two arbitrary histories of calls on two
   processes whose objects hold the same field values, caches in any consistent state, same result of every
   good method. *)
Theorem memo_model_two_histories : forall (F : Type) (feqb : F -> F -> bool) (M : Type) (meqb : M -> M -> bool) (V : Type)
    (sem : M -> (F -> V) -> V) (is_cached : M -> bool),
  (forall a b, feqb a b = true <-> a = b) -> (forall a b, meqb a b = true <-> a = b) ->
  forall (reads : M -> list F),
  (forall m s1 s2, (forall f, In f (reads m) -> s1 f = s2 f) -> sem m s1 = sem m s2) ->
  forall (writable : F -> Prop) s1 s2 h1 h2 m,
  Lemmas.Memo.cache_valid F M meqb V sem is_cached reads writable s1 ->
  Lemmas.Memo.cache_valid F M meqb V sem is_cached reads writable s2 ->
  fst s1 = fst s2 -> Forall (Lemmas.Memo.is_call F M V) h1 -> Forall (Lemmas.Memo.is_call F M V) h2 ->
  Lemmas.Memo.good F M is_cached reads writable m ->
  result_after F feqb M meqb V sem is_cached s1 h1 m = result_after F feqb M meqb V sem is_cached s2 h2 m.
Proof. exact Lemmas.ObjectsHistory.memo_two_histories. Qed.
Print Assumptions memo_model_two_histories.

(* ON THE GENERATED OBJECT TABLE (Gen/Objects.v: memoised methods, their read-sets, the fields written after
   construction): any two histories of calls -- of any methods of any objects, any order, any repetitions -- on
   two processes whose objects were built from the same arguments end with the same result of every method that
   is not a listed offender (today: none); with conversions and toggle flips in the histories, as soon as the
   fields the method reads hold the same logical values. *)
Theorem two_histories_objects : forall (V : Type) (sem : mkey -> (fkey -> V) -> V) (reads : mkey -> list fkey),
  (forall m s1 s2, (forall f, In f (reads m) -> s1 f = s2 f) -> sem m s1 = sem m s2) ->
  (forall m f, is_cached_key m = true -> In f (reads m) -> In (snd f) mutable_fields ->
               In (snd f) (gen_reads (mname m))) ->
  forall s1 s2 h1 h2 m,
  Lemmas.Memo.cache_valid fkey mkey mkeyb V sem is_cached_key reads writable_key s1 ->
  Lemmas.Memo.cache_valid fkey mkey mkeyb V sem is_cached_key reads writable_key s2 ->
  fst s1 = fst s2 -> Forall (Lemmas.Memo.is_call fkey mkey V) h1 -> Forall (Lemmas.Memo.is_call fkey mkey V) h2 ->
  smem (mname m) (map fst expected_offenders) = false ->
  result_after fkey fkeyb mkey mkeyb V sem is_cached_key s1 h1 m =
  result_after fkey fkeyb mkey mkeyb V sem is_cached_key s2 h2 m.
Proof. exact Lemmas.ObjectsHistory.two_histories_objects. Qed.
Print Assumptions two_histories_objects.

Theorem two_histories_objects_with_mutators : forall (V : Type) (sem : mkey -> (fkey -> V) -> V) (reads : mkey -> list fkey),
  (forall m s1 s2, (forall f, In f (reads m) -> s1 f = s2 f) -> sem m s1 = sem m s2) ->
  (forall m f, is_cached_key m = true -> In f (reads m) -> In (snd f) mutable_fields ->
               In (snd f) (gen_reads (mname m))) ->
  forall s1 s2 h1 h2 m,
  Lemmas.Memo.cache_valid fkey mkey mkeyb V sem is_cached_key reads writable_key s1 ->
  Lemmas.Memo.cache_valid fkey mkey mkeyb V sem is_cached_key reads writable_key s2 ->
  Forall (Lemmas.Memo.write_ok fkey mkey V writable_key) h1 -> Forall (Lemmas.Memo.write_ok fkey mkey V writable_key) h2 ->
  smem (mname m) (map fst expected_offenders) = false ->
  (forall f, In f (reads m) -> logical fkey fkeyb mkey V (fst s1) h1 f = logical fkey fkeyb mkey V (fst s2) h2 f) ->
  result_after fkey fkeyb mkey mkeyb V sem is_cached_key s1 h1 m =
  result_after fkey fkeyb mkey mkeyb V sem is_cached_key s2 h2 m.
Proof. exact Lemmas.ObjectsHistory.two_histories_objects_writes. Qed.
Print Assumptions two_histories_objects_with_mutators.

(* the failing-history criterion on the table: under the two trusted hypotheses no history of calls makes a
   non-offending method return something else than on the fresh process -- so a failing history found by the check
   on such a method means the table (hence the static analysis) misses state *)
Theorem no_failing_history_objects : forall (V : Type) (sem : mkey -> (fkey -> V) -> V) (reads : mkey -> list fkey),
  (forall m s1 s2, (forall f, In f (reads m) -> s1 f = s2 f) -> sem m s1 = sem m s2) ->
  (forall m f, is_cached_key m = true -> In f (reads m) -> In (snd f) mutable_fields ->
               In (snd f) (gen_reads (mname m))) ->
  forall s h m,
  Lemmas.Memo.cache_valid fkey mkey mkeyb V sem is_cached_key reads writable_key s ->
  Forall (Lemmas.Memo.is_call fkey mkey V) h ->
  smem (mname m) (map fst expected_offenders) = false ->
  result_after fkey fkeyb mkey mkeyb V sem is_cached_key s h m =
  result_after fkey fkeyb mkey mkeyb V sem is_cached_key s [] m.
Proof. exact Lemmas.ObjectsHistory.no_failing_history_objects. Qed.
Print Assumptions no_failing_history_objects.

(* CHECK-THEN-FILL IN PLACE (what the schedule stream of the check looks for: threads released together in a
   fresh interpreter, each doing a first use).  In the test/compute/store protocol of [interleaving_confluent]
   the value is built privately and published by one store, and every schedule is right.  If instead the shared
   table is filled in place behind an "is it empty?" test, there is a schedule in which a thread looks up a key
   that IS in the source and does not find it; one thread alone, or one after the other, always finds it. *)
Example nonatomic_fill_race_witness :
  (let c := frun Lemmas.ObjectsHistory.two_words 2 2 [false; false; true; true] in
   f1 c = FDone None /\ tfind 2 Lemmas.ObjectsHistory.two_words = Some 20%nat) /\
  (let c := frun Lemmas.ObjectsHistory.two_words 2 2 [false; false; false; false; true; true] in
   f0 c = FDone (Some 20%nat) /\ f1 c = FDone (Some 20%nat)) /\
  (forall k, In k (map fst Lemmas.ObjectsHistory.two_words) ->
   f0 (frun Lemmas.ObjectsHistory.two_words k k [false; false; false; false]) = FDone (tfind k Lemmas.ObjectsHistory.two_words)).
Proof.
  exact (conj Lemmas.ObjectsHistory.fill_race_loses
          (conj Lemmas.ObjectsHistory.fill_sequential_ok Lemmas.ObjectsHistory.fill_single_thread_ok)).
Qed.
Print Assumptions nonatomic_fill_race_witness.

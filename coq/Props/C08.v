(* C08 -- Every configured coin works end-to-end and keeps its network constants.
   Statements only; every proof is [exact <lemma>] with Print Assumptions beneath.

   Domain: [all_coins] is the list of ALL members of the seven coin enumerations (Bip44Coins,
   Bip49Coins, Bip84Coins, Bip86Coins, Cip1852Coins, SubstrateCoins, MoneroCoins -- 140 members at
   the pinned commit), regenerated from /repo on every run by harness/gen_coins.py (reflective
   dump cross-checked against the `ast` of the getter dicts, the conf containers and
   coins_conf.py).  Theorems quantified over [In c all_coins] are decided exhaustively by the
   kernel ([vm_compute] over the whole finite list, lifted with [forallb_forall]); no sampling.

   What is NOT a theorem here (stated for the reader, tied by the correspondence/direct checks of
   harness/props/C08.py on every member x several seeds):

     coin_end_to_end : forall c, In c all_coins -> coin_ok the_env c = true ->
       forall seed of legal length,
         master(seed) --DeriveDefaultPath--> key k   (never an error other than the curve's
                                                      "invalid child" retry cases), and
         decode_c (encode_c (pub k)) = Ok (payload_c (pub k))   with c's own parameters, and
         FromExtendedKey (ToExtended k) = k under c's version bytes, and
         WifDecode (WifEncode k) = k where c defines a WIF byte.

   It instantiates C03/C05/C07/C09/C13 (other contributors' models: derivation, extended-key
   serialisation, level automaton, address codecs, WIF) at the parameters of c; [coin_ok] below is
   exactly the bundle of side conditions those round-trip theorems take as premises
   (Lemmas/CoinsOk.v: coin_ok_bip, hrp_ok_spec, ss58_ok_spec, key_ver_ok_spec unpack it). *)
From Coq Require Import String.
From Coq Require Import NArith List.   (* after String: [length] is List.length *)
From BU Require Import Base.Exn Base.Bytes Gen.CoinsConsts Model.Coins Gen.Coins.
From BU Require Import Lemmas.CoinsExpected.
From BU Require Lemmas.CoinsOk Lemmas.CoinsPath Lemmas.Registry.
Import ListNotations.
Open Scope N_scope.

Definition the_env : env := CoinsOk.the_env.

(* 1. every member satisfies the side conditions of the round-trip theorems (finite, exhaustive) *)
Theorem all_coins_ok : forallb (coin_ok the_env) all_coins = true.
Proof. exact CoinsOk.all_coins_ok_b. Qed.
Print Assumptions all_coins_ok.

Theorem every_coin_ok : forall c, In c all_coins -> coin_ok the_env c = true.
Proof. exact CoinsOk.all_coins_ok. Qed.
Print Assumptions every_coin_ok.

(* what coin_ok means for the key material of ANY BIP coin record (general, not table-bound) *)
Theorem coin_ok_gives : forall ev c b, coin_ok ev c = true -> c_body c = CBip b ->
  bytes_ok (b_key_pub b) /\ bytes_ok (b_key_priv b) /\
  length (b_key_pub b) = key_net_ver_len /\ length (b_key_priv b) = key_net_ver_len /\
  b_key_pub b <> b_key_priv b /\
  (forall w, b_wif b = Some w -> bytes_ok w /\ length w = 1%nat) /\
  b_curve b = curve_of_bip32 (b_bip32 b) /\
  (exists p, full_default_path (c_family c) b = Ok p /\
             (hardened_only (b_bip32 b) = true -> Forall (fun i => is_hardened i = true) p)).
Proof. exact CoinsOk.coin_ok_bip. Qed.
Print Assumptions coin_ok_gives.

(* what the keyword agreement gives for ANY address configuration (general) *)
Theorem addr_conf_ok_gives : forall ev cv a, addr_conf_ok ev cv a = true ->
  exists i, find_info (a_cls a) (e_infos ev) = Some i /\
    addr_params_ok (a_params a) = true /\
    let wallet := if refused ev (a_cls a) then caller_keys (a_cls a) else [] in
    incl (ai_enc_req i) ((a_keys a ++ a_call_keys a) ++ wallet) /\
    incl (a_keys a ++ a_call_keys a) (ai_enc_req i ++ ai_enc_opt i) /\
    incl (ai_dec_req i) (a_keys a ++ wallet) /\
    incl (a_keys a) (ai_dec_req i ++ ai_dec_opt i) /\
    (refused ev (a_cls a) = false -> key_accepts (e_accepts ev) (ai_key i) cv = true).
Proof. exact CoinsOk.addr_conf_ok_keys. Qed.
Print Assumptions addr_conf_ok_gives.

(* HRP / SS58 side conditions as propositions (premises of the Bech32 / SS58 round trips) *)
Theorem hrp_ok_gives : forall h, hrp_ok h = true ->
  h <> [] /\ (length h <= 83)%nat /\ Forall (fun c => 33 <= c <= 126 /\ ~ (65 <= c <= 90)) h.
Proof. exact CoinsOk.hrp_ok_spec. Qed.
Print Assumptions hrp_ok_gives.

Theorem ss58_ok_gives : forall f, ss58_ok f = true -> f <= ss58_format_max /\ ~ In f ss58_reserved.
Proof. exact CoinsOk.ss58_ok_spec. Qed.
Print Assumptions ss58_ok_gives.

(* premises satisfiable on a non-trivial value: Bitcoin under BIP-84 *)
Example coin_ok_gives_nonvacuous :
  exists c b, find_coin FBip84 (str "BITCOIN") all_coins = Some c /\ c_body c = CBip b /\
    coin_ok the_env c = true /\ addr_conf_ok the_env (b_curve b) (b_addr b) = true /\
    full_default_path FBip84 b = Ok [purpose_bip84; harden 0; harden 0; 0; 0] /\
    b_key_pub b = [4; 178; 71; 70] /\ b_wif b = Some [128] /\
    a_params (b_addr b) = APHrp (str "bc").
Proof. exact CoinsOk.bitcoin84_default_path. Qed.
Print Assumptions coin_ok_gives_nonvacuous.

Example side_conditions_nonvacuous :
  hrp_ok (str "bc") = true /\ hrp_ok (str "Bc") = false /\ hrp_ok [] = false /\
  ss58_ok 42 = true /\ ss58_ok 46 = false /\ ss58_ok 16384 = false /\
  In (FBip44, str "ELROND", str "MULTIVERSX") enum_aliases /\
  In (FBip44, str "NEO", str "NEO_LEGACY") enum_aliases.
Proof. exact CoinsOk.side_conditions_examples. Qed.
Print Assumptions side_conditions_nonvacuous.

(* 2. self-contained parts of coin_end_to_end *)
Theorem net_versions_distinct : forall c b, In c all_coins -> c_body c = CBip b ->
  length (b_key_pub b) = key_net_ver_len /\ length (b_key_priv b) = key_net_ver_len /\
  b_key_pub b <> b_key_priv b.
Proof. exact CoinsOk.net_versions_distinct. Qed.
Print Assumptions net_versions_distinct.

Theorem default_path_shape : forall c b, In c all_coins -> c_body c = CBip b ->
  exists pu rest,
    purpose_of (c_family c) = Some pu /\ is_hardened pu = true /\
    full_default_path (c_family c) b = Ok (pu :: harden (b_coin_idx b) :: harden 0 :: rest) /\
    (length rest <= 2)%nat /\ Forall (fun i => unharden i = 0) rest /\
    (Forall (fun i => is_hardened i = true) rest \/
     (Forall (fun i => is_hardened i = false) rest /\ length rest = 2%nat)) /\
    (hardened_only (b_bip32 b) = true -> Forall (fun i => is_hardened i = true) rest).
Proof. exact CoinsOk.default_path_shape. Qed.
Print Assumptions default_path_shape.

(* every index of every parsed path is a legal key index (all strings, unbounded) *)
Theorem parse_path_range : forall s a p,
  parse_path s = Ok (a, p) -> Forall (fun i => i <= key_index_max) p.
Proof. exact CoinsOk.parse_path_range. Qed.
Print Assumptions parse_path_range.

Example parse_path_example :
  parse_path (str "m/44'/0h/1p/2/3") = Ok (true, [harden 44; harden 0; harden 1; 2; 3]) /\
  parse_path (str "0'/0/0") = Ok (false, [harden 0; 0; 0]) /\
  parse_path (str "0'/x") = Err (LibError Bip32PathError) /\
  parse_path (str "2147483648") = Err (LibError Bip32PathError).
Proof. exact CoinsOk.parse_path_example. Qed.
Print Assumptions parse_path_example.

(* the parser is a left inverse of the printer (Bip32Path.ToStr) on ALL index lists with legal key
   indices and both flags -- induction over decimal digits and over split/join, unbounded *)
Theorem path_parse_show : forall a p, Forall (fun i => i <= key_index_max) p ->
  parse_path (show_path a p) = Ok (a, p).
Proof. exact CoinsPath.parse_show_path. Qed.
Print Assumptions path_parse_show.

Theorem show_path_injective : forall a b p q,
  Forall (fun i => i <= key_index_max) p -> Forall (fun i => i <= key_index_max) q ->
  show_path a p = show_path b q -> a = b /\ p = q.
Proof. exact CoinsPath.show_path_inj. Qed.
Print Assumptions show_path_injective.

Example show_path_example :
  show_path true [harden 44; harden 0; harden 0; 0; 4294967295] = str "m/44'/0'/0'/0/2147483647'" /\
  show_path false [harden 0; 0; 0] = str "0'/0/0" /\ show_path true [] = str "m" /\ show_path false [] = [].
Proof. repeat split; vm_compute; reflexivity. Qed.
Print Assumptions show_path_example.

(* every default path of the table is the canonical spelling of the indices it parses to *)
Theorem default_paths_canonical : forallb CoinsOk.def_path_canonical all_coins = true.
Proof. exact CoinsOk.def_paths_canonical. Qed.
Print Assumptions default_paths_canonical.

Theorem members_distinct : str_nodupb CoinsOk.member_keys = true.
Proof. exact CoinsOk.members_distinct. Qed.
Print Assumptions members_distinct.

(* 3. aliases denote the same configuration (list derived from the getter dicts: members mapped
      to one configuration object), and the list is complete w.r.t. the table *)
Theorem aliases_same : forall f a b, In (f, a, b) enum_aliases ->
  exists ca cb, find_coin f a all_coins = Some ca /\ find_coin f b all_coins = Some cb /\
                c_member ca <> c_member cb /\ conf_of ca = conf_of cb.
Proof. exact CoinsOk.aliases_same. Qed.
Print Assumptions aliases_same.

Theorem aliases_complete :
  forallb (fun c => forallb (CoinsOk.same_conf_listed c) all_coins) all_coins = true.
Proof. exact CoinsOk.aliases_complete. Qed.
Print Assumptions aliases_complete.

(* compatibility aliases of the containers (CoinsConf.Neo = CoinsConf.NeoLegacy, Bip44Conf.Neo =
   Bip44Conf.NeoLegacy): the alias is not a second definition, its target is a table entry *)
Theorem container_aliases_ok :
  forallb (fun ab => match find_cc (snd ab) coins_conf_table, find_cc (fst ab) coins_conf_table with
                     | Some _, None => true | _, _ => false end) cconf_aliases = true /\
  forallb CoinsOk.conf_attr_alias_ok conf_attr_aliases = true.
Proof. split; [exact CoinsOk.cconf_aliases_ok|exact CoinsOk.conf_attr_aliases_ok]. Qed.
Print Assumptions container_aliases_ok.

(* 4. coherence of the tables.
      THE GOAL is [CoinsOk.table_coherent_stmt]:
        (forall e, In e coins_conf_table -> cconf_coherent e = true) /\
        (forall c, In c all_coins -> coin_coherent coins_conf_table slip44_table testnet_keeps_index c = true)
      i.e. every "*_wit_ver" equals the witness version of its encoder class (P2WPKH 0, P2TR 1) on
      every network, every HRP is a well-formed lower-case BIP-173 HRP, WIF/net-version bytes
      have their lengths, SS58 formats are usable, every coin draws its names, WIF byte and
      address parameters from the one CoinsConf entry it names, its coin index is the SLIP-44
      constant it names, test nets use index 1 (except the listed ones) and main nets never do.
      It is FALSE today (F19: CoinsConf.BitcoinRegTest p2wpkh_wit_ver = 1), hence: *)
Theorem table_coherent_refuted : cconf_offenders <> [] -> ~ CoinsOk.table_coherent_stmt.
Proof. exact CoinsOk.table_coherent_refuted. Qed.
Print Assumptions table_coherent_refuted.

(* the witness: each listed offender is an entry of the regenerated table, holds exactly the
   listed wrong value under the listed key, and violates the rule (vm_compute) *)
Theorem table_coherent_witness : forallb CoinsOk.offender_real cconf_offenders = true.
Proof. exact CoinsOk.cconf_offenders_tight. Qed.
Print Assumptions table_coherent_witness.

(* all entries except the listed offender(s); with the list emptied this is the goal itself *)
Theorem table_coherent_partial :
  (forall e, In e coins_conf_table ->
     cconf_coherent e = true \/ In (cc_attr e) CoinsOk.offender_names) /\
  (forall c, In c all_coins ->
     coin_coherent coins_conf_table slip44_table testnet_keeps_index c = true).
Proof. exact CoinsOk.table_coherent_partial. Qed.
Print Assumptions table_coherent_partial.

Theorem testnet_exceptions_tight : forallb CoinsOk.keeps_index_real testnet_keeps_index = true.
Proof. exact CoinsOk.testnet_keeps_index_tight. Qed.
Print Assumptions testnet_exceptions_tight.

Theorem segwit_confs : forallb CoinsOk.segwit_conf_ok all_coins = true /\
                       p2wpkh_witness_ver = 0 /\ p2tr_witness_ver = 1.
Proof. split; [exact CoinsOk.segwit_confs|exact CoinsOk.witness_versions]. Qed.
Print Assumptions segwit_confs.

(* 5. the constants equal the committed golden snapshot (Lemmas/Registry.v).  Guards against
      drift; agreement of the snapshot itself with SLIP-44/132/173 is a one-time manual
      cross-check recorded in that file, not a theorem. *)
Theorem registry_equal : all_coins = Registry.golden.
Proof. exact CoinsOk.registry_equal. Qed.
Print Assumptions registry_equal.

(* the CoinsConf snapshot holds the values the external registries prescribe: the source table
   equals it after repairing exactly the listed offenders (plain equality once the list is empty),
   and the repaired table satisfies the coherence rules throughout *)
Theorem registry_tables_equal :
  map CoinsOk.repair coins_conf_table = Registry.golden_coins_conf /\
  slip44_table = Registry.golden_slip44 /\
  forallb cconf_coherent Registry.golden_coins_conf = true.
Proof.
  split; [exact CoinsOk.registry_coins_conf_equal|split; [exact CoinsOk.registry_slip44_equal|]].
  rewrite <- CoinsOk.registry_coins_conf_equal. exact CoinsOk.repaired_table_coherent.
Qed.
Print Assumptions registry_tables_equal.

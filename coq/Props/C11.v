(* C11 -- Binary-to-text and wire codecs are exact inverses on their whole domain.
   Statements only; every proof is [exact <lemma>] with Print Assumptions beneath. *)
From Coq Require Import NArith List.
From BU Require Import Base.Exn Base.Bytes Gen.Consts Model.Base58.
From BU Require Lemmas.Base58 Lemmas.ConstsOk.
Import ListNotations.
Open Scope N_scope.

(* the two alphabets the library configures, as regenerated from the source *)
Definition b58_alphabets : list (list N) := [b58_alph_btc; b58_alph_xrp].

Theorem b58_decode_encode : forall alph b, In alph b58_alphabets -> bytes_ok b ->
  Base58.decode alph b58_radix (Base58.encode alph b58_radix b) = Ok b.
Proof.
  intros alph b [<-|[<-|[]]] Hb.
  - exact (Lemmas.Base58.decode_encode _ _ ConstsOk.b58_alph_btc_nodup ConstsOk.b58_alph_btc_len ConstsOk.b58_radix_ge2 b Hb).
  - exact (Lemmas.Base58.decode_encode _ _ ConstsOk.b58_alph_xrp_nodup ConstsOk.b58_alph_xrp_len ConstsOk.b58_radix_ge2 b Hb).
Qed.
Print Assumptions b58_decode_encode.

(* every accepted string is the encoding of its payload: decoding is injective *)
Theorem b58_encode_decode : forall alph s b, In alph b58_alphabets ->
  Base58.decode alph b58_radix s = Ok b -> Base58.encode alph b58_radix b = s.
Proof.
  intros alph s b [<-|[<-|[]]] H.
  - exact (Lemmas.Base58.encode_decode _ _ ConstsOk.b58_alph_btc_nodup ConstsOk.b58_alph_btc_len ConstsOk.b58_radix_ge2 s b H).
  - exact (Lemmas.Base58.encode_decode _ _ ConstsOk.b58_alph_xrp_nodup ConstsOk.b58_alph_xrp_len ConstsOk.b58_radix_ge2 s b H).
Qed.
Print Assumptions b58_encode_decode.

Theorem b58_decode_total : forall alph s, In alph b58_alphabets ->
  ((exists b, Base58.decode alph b58_radix s = Ok b) <-> Forall (fun c => In c alph) s) /\
  (forall e, Base58.decode alph b58_radix s = Err e -> e = ValueError).
Proof.
  intros alph s [<-|[<-|[]]]; split.
  - exact (Lemmas.Base58.decode_ok_iff _ _ s).
  - intros e; exact (Lemmas.Base58.decode_err _ _ s e).
  - exact (Lemmas.Base58.decode_ok_iff _ _ s).
  - intros e; exact (Lemmas.Base58.decode_err _ _ s e).
Qed.
Print Assumptions b58_decode_total.

(* Base58Check, for any hash function with 32-byte output *)
Theorem b58check_roundtrip : forall alph (sha256 : list N -> list N) b,
  In alph b58_alphabets ->
  (forall x, length (sha256 x) = 32%nat) -> (forall x, bytes_ok (sha256 x)) -> bytes_ok b ->
  Base58.check_decode alph b58_radix b58_cklen sha256
    (Base58.check_encode alph b58_radix b58_cklen sha256 b) = Ok b.
Proof.
  intros alph sha b [<-|[<-|[]]] H1 H2 Hb.
  - exact (Lemmas.Base58.check_decode_encode _ _ _ sha ConstsOk.b58_alph_btc_nodup ConstsOk.b58_alph_btc_len ConstsOk.b58_radix_ge2 H1 H2 ConstsOk.b58_cklen_le b Hb).
  - exact (Lemmas.Base58.check_decode_encode _ _ _ sha ConstsOk.b58_alph_xrp_nodup ConstsOk.b58_alph_xrp_len ConstsOk.b58_radix_ge2 H1 H2 ConstsOk.b58_cklen_le b Hb).
Qed.
Print Assumptions b58check_roundtrip.

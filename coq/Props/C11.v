(* C11 -- Binary-to-text and wire codecs are exact inverses on their whole domain.
   Statements only; every proof is [exact <lemma>] with Print Assumptions beneath. *)
From Coq Require Import NArith ZArith Arith List.
From BU Require Import Base.Exn Base.Bytes Gen.Consts Gen.CodecConsts Model.Base58 Model.Base58Xmr Model.Codecs Model.IntBytes Model.Scale Model.Cbor.
From BU Require Lemmas.Base58 Lemmas.ConstsOk Lemmas.XmrConstsOk Lemmas.IntBytes Lemmas.ConvertBitsOk Lemmas.Base32 Lemmas.Base32Ok Lemmas.SS58Ok Lemmas.ScaleOk Lemmas.CborOk.
Import ListNotations.
Open Scope N_scope.

(* the two alphabets the library configures, as regenerated from the source *)
Definition b58_alphabets : list (list N) := [b58_alph_btc; b58_alph_xrp].

Theorem b58_decode_encode : forall alph b, In alph b58_alphabets -> bytes_ok b ->
  Base58.decode alph b58_radix (Base58.encode alph b58_radix b) = Ok b.
Proof.
  intros alph b [<-|[<-|[]]] Hb.
  - exact (Lemmas.Base58.decode_encode _ _ ConstsOk.b58_alph_btc_nodup ConstsOk.b58_alph_btc_len ConstsOk.b58_radix_ge2 b Hb).
  - exact (Lemmas.Base58.decode_encode _ _ ConstsOk.b58_alph_xrp_nodup ConstsOk.b58_alph_xrp_len ConstsOk.b58_radix_ge2 b Hb).
Qed.
Print Assumptions b58_decode_encode.

(* every accepted string is the encoding of its payload: decoding is injective *)
Theorem b58_encode_decode : forall alph s b, In alph b58_alphabets ->
  Base58.decode alph b58_radix s = Ok b -> Base58.encode alph b58_radix b = s.
Proof.
  intros alph s b [<-|[<-|[]]] H.
  - exact (Lemmas.Base58.encode_decode _ _ ConstsOk.b58_alph_btc_nodup ConstsOk.b58_alph_btc_len ConstsOk.b58_radix_ge2 s b H).
  - exact (Lemmas.Base58.encode_decode _ _ ConstsOk.b58_alph_xrp_nodup ConstsOk.b58_alph_xrp_len ConstsOk.b58_radix_ge2 s b H).
Qed.
Print Assumptions b58_encode_decode.

Theorem b58_decode_total : forall alph s, In alph b58_alphabets ->
  ((exists b, Base58.decode alph b58_radix s = Ok b) <-> Forall (fun c => In c alph) s) /\
  (forall e, Base58.decode alph b58_radix s = Err e -> e = ValueError).
Proof.
  intros alph s [<-|[<-|[]]]; split.
  - exact (Lemmas.Base58.decode_ok_iff _ _ s).
  - intros e; exact (Lemmas.Base58.decode_err _ _ s e).
  - exact (Lemmas.Base58.decode_ok_iff _ _ s).
  - intros e; exact (Lemmas.Base58.decode_err _ _ s e).
Qed.
Print Assumptions b58_decode_total.

(* Base58Check, for any hash function with 32-byte output *)
Theorem b58check_roundtrip : forall alph (sha256 : list N -> list N) b,
  In alph b58_alphabets ->
  (forall x, length (sha256 x) = 32%nat) -> (forall x, bytes_ok (sha256 x)) -> bytes_ok b ->
  Base58.check_decode alph b58_radix b58_cklen sha256
    (Base58.check_encode alph b58_radix b58_cklen sha256 b) = Ok b.
Proof.
  intros alph sha b [<-|[<-|[]]] H1 H2 Hb.
  - exact (Lemmas.Base58.check_decode_encode _ _ _ sha ConstsOk.b58_alph_btc_nodup ConstsOk.b58_alph_btc_len ConstsOk.b58_radix_ge2 H1 H2 ConstsOk.b58_cklen_le b Hb).
  - exact (Lemmas.Base58.check_decode_encode _ _ _ sha ConstsOk.b58_alph_xrp_nodup ConstsOk.b58_alph_xrp_len ConstsOk.b58_radix_ge2 H1 H2 ConstsOk.b58_cklen_le b Hb).
Qed.
Print Assumptions b58check_roundtrip.

(* ------------------------------------------------------------------ Monero block Base58 *)

(* BLOCK_ENC_BYTE_LENS[d] is the least e with 58^e >= 256^d, for every row d = 0..8 *)
Theorem xmr_table_ok : forall d e, nth_error xmr_block_enc_lens d = Some e ->
  (d <= xmr_block_dec_max)%nat /\
  256 ^ N.of_nat d <= b58_radix ^ N.of_nat e /\
  (forall e', (e' < e)%nat -> b58_radix ^ N.of_nat e' < 256 ^ N.of_nat d).
Proof. exact XmrConstsOk.xmr_table_ok. Qed.
Print Assumptions xmr_table_ok.

Example xmr_table_rows : exists e, nth_error xmr_block_enc_lens xmr_block_dec_max = Some e.
Proof. exact XmrConstsOk.xmr_table_rows. Qed.
Print Assumptions xmr_table_rows.

(* [Codecs.xmr_decode] includes the block-value check of __UnPad (a block whose Base58 value does not fit
   its byte width is a ValueError; repair of defect F2). *)
Theorem xmr_decode_encode : forall b, bytes_ok b ->
  exists s, Codecs.xmr_encode b = Ok s /\ Codecs.xmr_decode s = Ok b.
Proof. exact XmrConstsOk.xmr_decode_encode. Qed.
Print Assumptions xmr_decode_encode.

(* canonicity: every accepted string is the standard encoding of what it decodes to ... *)
Theorem xmr_encode_decode : forall s b, Codecs.xmr_decode s = Ok b -> Codecs.xmr_encode b = Ok s /\ bytes_ok b.
Proof. exact XmrConstsOk.xmr_encode_decode. Qed.
Print Assumptions xmr_encode_decode.

(* ... hence the decoder accepts exactly the image of the encoder, and fails only with ValueError *)
Theorem xmr_decode_accepts_iff : forall s,
  (exists b, Codecs.xmr_decode s = Ok b) <-> (exists b, bytes_ok b /\ Codecs.xmr_encode b = Ok s).
Proof. exact XmrConstsOk.xmr_decode_accepts_iff. Qed.
Print Assumptions xmr_decode_accepts_iff.

Theorem xmr_decode_err : forall s e, Codecs.xmr_decode s = Err e -> e = ValueError.
Proof. exact XmrConstsOk.xmr_decode_err. Qed.
Print Assumptions xmr_decode_err.

Theorem xmr_encode_inj : forall b1 b2 s, bytes_ok b1 -> bytes_ok b2 ->
  Codecs.xmr_encode b1 = Ok s -> Codecs.xmr_encode b2 = Ok s -> b1 = b2.
Proof. exact XmrConstsOk.xmr_encode_inj. Qed.
Print Assumptions xmr_encode_inj.

(* the text length depends on the data length only: 11 symbols per full 8-byte block plus the table row of the
   partial block; in particular standard and integrated Monero addresses have 95 and 106 symbols *)
Theorem xmr_encode_length : forall b s, bytes_ok b -> Codecs.xmr_encode b = Ok s ->
  exists e, nth_error xmr_block_enc_lens (length b mod xmr_block_dec_max) = Some e /\
    length s = (length b / xmr_block_dec_max * xmr_block_enc_max + e)%nat.
Proof. exact XmrConstsOk.xmr_encode_length. Qed.
Print Assumptions xmr_encode_length.

Theorem xmr_address_text_lengths : forall b s, bytes_ok b -> Codecs.xmr_encode b = Ok s ->
  (length b = 69%nat -> length s = 95%nat) /\ (length b = 77%nat -> length s = 106%nat).
Proof. exact XmrConstsOk.xmr_address_text_lengths. Qed.
Print Assumptions xmr_address_text_lengths.

(* block lemma, for EVERY block-width string (not only encoder output): the Base58 decoding has at
   least d bytes, i.e. the start of __UnPad's slice is never negative *)
Theorem xmr_block_dec_length : forall s d e dec, nth_error xmr_block_enc_lens d = Some e -> length s = e ->
  Codecs.xmr_b58dec s = Ok dec -> (d <= length dec)%nat.
Proof. exact XmrConstsOk.xmr_block_dec_length. Qed.
Print Assumptions xmr_block_dec_length.

(* overflowing blocks (the former defect F2) are rejected *)
Theorem xmr_overflow_rejected :
  Codecs.xmr_decode [122; 122] = Err ValueError /\ Codecs.xmr_decode (repeat 122 11) = Err ValueError.
Proof. exact XmrConstsOk.xmr_overflow_rejected. Qed.
Print Assumptions xmr_overflow_rejected.

(* block by block: an accepted block string re-encodes to itself iff its value fits the bytes kept *)
Theorem xmr_block_canonical_iff : forall s d e dec v,
  nth_error xmr_block_enc_lens d = Some e -> length s = e ->
  Codecs.xmr_b58dec s = Ok dec -> Codecs.xmr_block_value s = Ok v ->
  (Codecs.xmr_pad e (Codecs.xmr_b58enc (Base58Xmr.unpad d dec)) = s <-> v < 256 ^ N.of_nat d).
Proof. exact XmrConstsOk.xmr_block_canonical_iff. Qed.
Print Assumptions xmr_block_canonical_iff.

(* ------------------------------------------------------------------ IntegerUtils / BytesUtils *)

(* GetBytesNumber n is the least w >= 1 with n < 256^w *)
Theorem bytes_number_spec : forall n, let w := IntBytes.bytes_number (Z.of_N n) in
  1 <= w /\ n < 256 ^ w /\ (1 < w -> 256 ^ (w - 1) <= n).
Proof. exact Lemmas.IntBytes.bytes_number_spec. Qed.
Print Assumptions bytes_number_spec.

(* int_bytes_roundtrip, in its four parts.  ToBytes with automatic (minimal) width, both endiannesses: *)
Theorem int_bytes_roundtrip_auto : forall n big,
  exists b, IntBytes.to_bytes (Z.of_N n) 0 big = Ok b /\ IntBytes.to_integer b big = n /\
            length b = N.to_nat (IntBytes.bytes_number (Z.of_N n)) /\ bytes_ok b.
Proof. exact Lemmas.IntBytes.to_bytes_auto. Qed.
Print Assumptions int_bytes_roundtrip_auto.

(* fixed width w >= 1: exactly the values below 256^w are encoded (w bytes, value preserved) ... *)
Theorem int_bytes_roundtrip_fixed : forall n w big, w <> 0 -> n < 256 ^ w ->
  exists b, IntBytes.to_bytes (Z.of_N n) w big = Ok b /\ IntBytes.to_integer b big = n /\
            length b = N.to_nat w /\ bytes_ok b.
Proof. exact Lemmas.IntBytes.to_bytes_fixed. Qed.
Print Assumptions int_bytes_roundtrip_fixed.

Example int_bytes_roundtrip_fixed_ex : exists b, IntBytes.to_bytes 65535%Z 2 false = Ok b.
Proof. destruct (Lemmas.IntBytes.to_bytes_fixed 65535 2 false) as (b & H & _); [discriminate|reflexivity|]. exists b; exact H. Qed.
Print Assumptions int_bytes_roundtrip_fixed_ex.

(* ... and everything else is an OverflowError (the guard of int.to_bytes) *)
Theorem int_bytes_overflow : forall n w big, w <> 0 -> 256 ^ w <= n ->
  IntBytes.to_bytes (Z.of_N n) w big = Err OverflowError.
Proof. exact Lemmas.IntBytes.to_bytes_overflow. Qed.
Print Assumptions int_bytes_overflow.

Theorem int_bytes_negative : forall v w big, (v < 0)%Z -> IntBytes.to_bytes v w big = Err OverflowError.
Proof. exact Lemmas.IntBytes.to_bytes_negative. Qed.
Print Assumptions int_bytes_negative.

(* bytes -> integer -> bytes at the same width; the empty string is excluded because width 0 means
   "automatic" in ToBytes: ToBytes(ToInteger(b""), 0) = b"\x00" *)
Theorem bytes_int_roundtrip : forall b big, bytes_ok b -> b <> [] ->
  IntBytes.to_bytes (Z.of_N (IntBytes.to_integer b big)) (N.of_nat (length b)) big = Ok b.
Proof. exact Lemmas.IntBytes.to_bytes_to_integer. Qed.
Print Assumptions bytes_int_roundtrip.

Example bytes_int_roundtrip_empty_refuted :
  IntBytes.to_bytes (Z.of_N (IntBytes.to_integer [] true)) 0 true = Ok [0].
Proof. exact Lemmas.IntBytes.to_bytes_empty_refuted. Qed.
Print Assumptions bytes_int_roundtrip_empty_refuted.

(* the three round trips together, under the name used in DESIGN.md *)
Theorem int_bytes_roundtrip : forall n w big b,
  (exists x, IntBytes.to_bytes (Z.of_N n) 0 big = Ok x /\ IntBytes.to_integer x big = n) /\
  (w <> 0 -> n < 256 ^ w -> exists x, IntBytes.to_bytes (Z.of_N n) w big = Ok x /\ IntBytes.to_integer x big = n /\
                                     length x = N.to_nat w) /\
  (bytes_ok b -> b <> [] ->
   IntBytes.to_bytes (Z.of_N (IntBytes.to_integer b big)) (N.of_nat (length b)) big = Ok b).
Proof.
  intros n w big b. split; [|split].
  - destruct (Lemmas.IntBytes.to_bytes_auto n big) as (x & A & B & _). exists x; auto.
  - intros Hw Hn. destruct (Lemmas.IntBytes.to_bytes_fixed n w big Hw Hn) as (x & A & B & C & _). exists x; auto.
  - exact (Lemmas.IntBytes.to_bytes_to_integer b big).
Qed.
Print Assumptions int_bytes_roundtrip.

(* binary strings: int(bin(n)[2:].zfill(pad), 2) = n with CPython's full int() grammar in the model *)
Theorem binstr_roundtrip : forall n pad,
  IntBytes.int_from_binstr (IntBytes.int_to_binstr n pad) = Ok (Z.of_N n).
Proof. exact Lemmas.IntBytes.int_binstr_roundtrip. Qed.
Print Assumptions binstr_roundtrip.

(* BytesUtils.FromBinaryStr(BytesUtils.ToBinaryStr(b, p), 2*len(b)) = b (second argument: hex digits) *)
Theorem bytes_binstr_roundtrip : forall b p, bytes_ok b -> b <> [] ->
  IntBytes.bytes_from_binstr (IntBytes.bytes_to_binstr b p) (2 * length b) = Ok b.
Proof. exact Lemmas.IntBytes.bytes_binstr_roundtrip. Qed.
Print Assumptions bytes_binstr_roundtrip.

(* FromBinaryStr is far from canonical (it is Python's int(text, 2)): white space, sign, 0b prefix, underscores *)
Example binstr_noncanonical : IntBytes.int_from_binstr [32; 43; 48; 98; 95; 49; 95; 48; 10] = Ok 2%Z /\
                              IntBytes.int_to_binstr 2 0 = [49; 48].
Proof. split; vm_compute; reflexivity. Qed.
Print Assumptions binstr_noncanonical.

Theorem binstr_errors : forall s pad e,
  (IntBytes.int_from_binstr s = Err e -> e = ValueError) /\
  (IntBytes.bytes_from_binstr s pad = Err e -> e = ValueError).
Proof. intros s pad e. split; [exact (Lemmas.IntBytes.int_from_binstr_err s e)|exact (Lemmas.IntBytes.bytes_from_binstr_err s pad e)]. Qed.
Print Assumptions binstr_errors.

(* hex *)
Theorem hex_roundtrip : forall b, bytes_ok b ->
  IntBytes.from_hex_string (IntBytes.to_hex_string b) = Ok b.
Proof. exact Lemmas.IntBytes.unhexlify_hexlify. Qed.
Print Assumptions hex_roundtrip.

(* canonicity up to letter case, and exact acceptance / error class of FromHexString *)
Theorem hex_decode_canonical : forall s b, IntBytes.from_hex_string s = Ok b ->
  bytes_ok b /\ IntBytes.to_hex_string b = map Lemmas.IntBytes.hex_lower s /\ length s = (2 * length b)%nat.
Proof. exact Lemmas.IntBytes.unhexlify_ok_spec. Qed.
Print Assumptions hex_decode_canonical.

Theorem hex_decode_total : forall s,
  ((exists b, IntBytes.from_hex_string s = Ok b) <->
   (Nat.even (length s) = true /\ forallb Lemmas.IntBytes.is_hex s = true)) /\
  (forall e, IntBytes.from_hex_string s = Err e -> e = ValueError).
Proof. intros s. split; [exact (Lemmas.IntBytes.unhexlify_ok_iff s)|exact (Lemmas.IntBytes.unhexlify_err s)]. Qed.
Print Assumptions hex_decode_total.

(* ------------------------------------------------------------------ Bech32 8 <-> 5 bit regrouping *)

(* ConvertFromBase32 (ConvertToBase32 b) = b for every byte string; the 5-bit form has only 5-bit symbols *)
Theorem convertbits_8_5_8 : forall b, bytes_ok b ->
  exists l, Codecs.to_base32 b = Ok l /\ Forall (fun d => d < 32) l /\ Codecs.from_base32 l = Ok b.
Proof. exact ConvertBitsOk.convertbits_8_5_8. Qed.
Print Assumptions convertbits_8_5_8.

(* canonicity: the strict direction accepts only the padded regrouping of its result *)
Theorem convertbits_5_8_5 : forall l b, Codecs.from_base32 l = Ok b ->
  bytes_ok b /\ Forall (fun d => d < 32) l /\ Codecs.to_base32 b = Ok l.
Proof. exact ConvertBitsOk.from_base32_canonical. Qed.
Print Assumptions convertbits_5_8_5.

(* strict mode rejects exactly over-long (>= 5 bits) or non-zero padding (and symbols >= 32), with ValueError *)
Theorem convertbits_strict_accepts_iff : forall l, Forall (fun d => d < 32) l ->
  ((exists b, Codecs.from_base32 l = Ok b) <->
   (5 * N.of_nat (length l)) mod 8 < 5 /\
   Radix.from_be 32 l mod 2 ^ ((5 * N.of_nat (length l)) mod 8) = 0).
Proof. exact ConvertBitsOk.from_base32_accepts_iff. Qed.
Print Assumptions convertbits_strict_accepts_iff.

Example convertbits_strict_accepts_ex : exists b, Codecs.from_base32 [31; 28] = Ok b.
Proof. exists [255]. vm_compute. reflexivity. Qed.
Print Assumptions convertbits_strict_accepts_ex.

Theorem convertbits_errors : forall l,
  (forall e, Codecs.from_base32 l = Err e -> e = ValueError) /\
  (~ Forall (fun d => d < 32) l -> Codecs.from_base32 l = Err ValueError) /\
  (~ bytes_ok l -> Codecs.to_base32 l = Err ValueError).
Proof.
  intros l. split; [exact (ConvertBitsOk.from_base32_err l)|].
  split; [exact (ConvertBitsOk.from_base32_range l)|exact (ConvertBitsOk.to_base32_range l)].
Qed.
Print Assumptions convertbits_errors.

(* ------------------------------------------------------------------ Base32 (RFC 4648 via base64) *)

(* a custom alphabet is admissible when it is a bijective relabelling: 32 distinct characters, no '=' *)
Definition b32_custom_ok (custom : option (list N)) : Prop :=
  match custom with
  | None => True
  | Some c => NoDup c /\ length c = 32%nat /\ ~ In Base32.rfc_pad c
  end.

Theorem b32_roundtrip : forall b custom, bytes_ok b -> b32_custom_ok custom ->
  exists s, Codecs.b32_encode b custom = Ok s /\ Codecs.b32_decode s custom = Ok b.
Proof. exact Base32Ok.b32_roundtrip. Qed.
Print Assumptions b32_roundtrip.

(* pad strip / restore, for every length (mod 5): EncodeNoPadding output has no '=' and decodes to b *)
Theorem b32_roundtrip_no_padding : forall b custom, bytes_ok b -> b32_custom_ok custom ->
  exists s, Codecs.b32_encode_no_padding b custom = Ok s /\ Codecs.b32_decode s custom = Ok b /\
            ~ In Base32.rfc_pad s.
Proof. exact Base32Ok.b32_roundtrip_no_padding. Qed.
Print Assumptions b32_roundtrip_no_padding.

Example b32_custom_ok_ex : b32_custom_ok (Some (map (fun c => c + 32) (firstn 26 Base32.rfc_alphabet) ++ skipn 26 Base32.rfc_alphabet)).
Proof.
  split; [apply Base.Bytes.nodupb_sound; vm_compute; reflexivity|].
  split; [reflexivity|]. intro H. apply Base.Bytes.memb_In in H. vm_compute in H. discriminate.
Qed.
Print Assumptions b32_custom_ok_ex.

(* the text is the standard one: its data symbols are the 8->5 regrouping of b (the unique digit string ds
   with 5|ds| = 8|b| + p, p < 5, value(ds) = value(b) * 2^p) through the alphabet, then '=' to a multiple of 8 *)
Theorem b32_encode_standard : forall b custom s, bytes_ok b -> b32_custom_ok custom ->
  Codecs.b32_encode b custom = Ok s ->
  (length s mod 8)%nat = 0%nat /\
  exists ds, Lemmas.Base32.digits5 b ds /\
    s = map (Base32.sym32 (Lemmas.Base32.eff custom)) ds ++
        repeat Base32.rfc_pad (Lemmas.Base32.padcount (length ds)).
Proof. exact Base32Ok.b32_encode_standard. Qed.
Print Assumptions b32_encode_standard.

(* with a custom alphabet the decoder accepts no character outside that alphabet and '=' *)
Theorem b32_decode_custom_foreign : forall s c ch, In ch s -> ~ In ch c -> ch <> Base32.rfc_pad ->
  Codecs.b32_decode s (Some c) = Err ValueError.
Proof. exact Base32Ok.b32_decode_custom_foreign. Qed.
Print Assumptions b32_decode_custom_foreign.

Theorem b32_decode_err : forall s custom e, Codecs.b32_decode s custom = Err e -> e = ValueError.
Proof. exact Base32Ok.b32_decode_err. Qed.
Print Assumptions b32_decode_err.

(* decode-then-encode does NOT hold for Base32 (b32decode does not check the left-over bits): "AB" and "AA"
   both decode to 0x00.  Material for C10; C11 (decode . encode = id, standard text) is unaffected. *)
Theorem b32_canonical_refuted :
  Codecs.b32_decode [65; 66] None = Ok [0] /\ Codecs.b32_encode_no_padding [0] None = Ok [65; 65].
Proof. exact Base32Ok.b32_canonical_refuted. Qed.
Print Assumptions b32_canonical_refuted.

(* ------------------------------------------------------------------ SS58 *)
(* blake2b-512 is an oracle; the theorems assume only that its output has 64 bytes.
   The 14-bit format packing is decided by exhaustive kernel computation: all 16384 formats forwards,
   all 256 + 65536 one-/two-byte prefixes backwards (Lemmas/SS58Ok.v), lifted with forallb_forall. *)

Theorem ss58_bounds : ss58_format_max = 16383 /\ ss58_simple_max = 63 /\ ss58_reserved = [46; 47] /\
                      ss58_data_len = 32%nat /\ ss58_cklen = 2%nat.
Proof. exact SS58Ok.ss58_bounds. Qed.
Print Assumptions ss58_bounds.

(* all formats 0..16383 except the reserved 46/47, all 32-byte payloads *)
Theorem ss58_roundtrip : forall (blake2b512 : list N -> list N) data fmt,
  (forall x, length (blake2b512 x) = 64%nat) -> (forall x, bytes_ok (blake2b512 x)) ->
  bytes_ok data -> length data = ss58_data_len ->
  (0 <= fmt <= Z.of_N ss58_format_max)%Z -> ~ In (Z.to_N fmt) ss58_reserved ->
  exists s, Codecs.ss58_encode blake2b512 data fmt = Ok s /\
            Codecs.ss58_decode blake2b512 s = Ok (Z.to_N fmt, data).
Proof. intros blake data fmt H1 H2. apply SS58Ok.ss58_roundtrip; assumption. Qed.
Print Assumptions ss58_roundtrip.

Example ss58_roundtrip_ex : (0 <= 1284 <= Z.of_N ss58_format_max)%Z /\ ~ In (Z.to_N 1284) ss58_reserved.
Proof. split; [vm_compute; split; discriminate|]. intro H. apply Base.Bytes.memb_In in H. vm_compute in H. discriminate. Qed.
Print Assumptions ss58_roundtrip_ex.

(* canonicity and exact acceptance: the decoder accepts precisely the encoder's image *)
Theorem ss58_encode_decode : forall (blake2b512 : list N -> list N) s f data,
  (forall x, length (blake2b512 x) = 64%nat) -> (forall x, bytes_ok (blake2b512 x)) ->
  Codecs.ss58_decode blake2b512 s = Ok (f, data) ->
  Codecs.ss58_encode blake2b512 data (Z.of_N f) = Ok s /\ bytes_ok data /\ length data = ss58_data_len /\
  f <= ss58_format_max /\ ~ In f ss58_reserved.
Proof. intros blake s f data H1 H2. apply SS58Ok.ss58_encode_decode; assumption. Qed.
Print Assumptions ss58_encode_decode.

Theorem ss58_accepts_iff : forall (blake2b512 : list N -> list N) s f data,
  (forall x, length (blake2b512 x) = 64%nat) -> (forall x, bytes_ok (blake2b512 x)) ->
  (Codecs.ss58_decode blake2b512 s = Ok (f, data) <->
   (Codecs.ss58_encode blake2b512 data (Z.of_N f) = Ok s /\ bytes_ok data)).
Proof. intros blake s f data H1 H2. apply SS58Ok.ss58_accepts_iff; assumption. Qed.
Print Assumptions ss58_accepts_iff.

(* the decoder fails only with ValueError or SS58ChecksumError (no IndexError: former defect F3) *)
Theorem ss58_decode_err : forall (blake2b512 : list N -> list N) s e,
  Codecs.ss58_decode blake2b512 s = Err e -> e = ValueError \/ e = LibError SS58ChecksumError.
Proof. exact SS58Ok.ss58_decode_err. Qed.
Print Assumptions ss58_decode_err.

Theorem ss58_f3_rejected :
  Codecs.ss58_parse_header [] = Err ValueError /\ Codecs.ss58_parse_header [64] = Err ValueError /\
  Codecs.ss58_parse_header [128; 0] = Err ValueError /\ Codecs.ss58_parse_header [65; 64] = Err ValueError.
Proof. exact SS58Ok.ss58_f3_rejected. Qed.
Print Assumptions ss58_f3_rejected.

(* ------------------------------------------------------------------ SCALE encoders *)
(* The library has encoders only.  [Scale.compact_decode], [Scale.bytes_decode], [Scale.uint_decode] are model
   decoders written from the SCALE specification; decode (encode v ++ rest) = (v, rest) says that the encoding
   is injective and self-delimiting (what every concatenated SCALE structure relies on). *)

Theorem scale_thresholds : scale_single_max = 2 ^ 6 - 1 /\ scale_two_max = 2 ^ 14 - 1 /\
  scale_four_max = 2 ^ 30 - 1 /\ scale_big_max = 2 ^ 536 - 1 /\ scale_uint_byte_lens = [1; 2; 4; 8; 16; 32].
Proof.
  exact (conj ScaleOk.scale_single_def (conj ScaleOk.scale_two_def (conj ScaleOk.scale_four_def
         (conj ScaleOk.scale_big_def ScaleOk.scale_uint_lens)))).
Qed.
Print Assumptions scale_thresholds.

(* compact integers across the 2^6 / 2^14 / 2^30 / 2^536 thresholds *)
Theorem scale_compact_dec_enc : forall v rest, v <= scale_big_max ->
  exists b, Codecs.scale_compact_encode (Z.of_N v) = Ok b /\
            Scale.compact_decode (b ++ rest) = Ok (v, rest) /\ bytes_ok b.
Proof. exact ScaleOk.scale_compact_dec_enc. Qed.
Print Assumptions scale_compact_dec_enc.

Theorem scale_compact_inj : forall v1 v2 b1 b2 r1 r2, v1 <= scale_big_max -> v2 <= scale_big_max ->
  Codecs.scale_compact_encode (Z.of_N v1) = Ok b1 -> Codecs.scale_compact_encode (Z.of_N v2) = Ok b2 ->
  b1 ++ r1 = b2 ++ r2 -> v1 = v2 /\ r1 = r2.
Proof. exact ScaleOk.scale_compact_inj. Qed.
Print Assumptions scale_compact_inj.

Theorem scale_compact_range : forall v,
  ((Z.of_N scale_big_max < v)%Z -> Codecs.scale_compact_encode v = Err ValueError) /\
  ((v < 0)%Z -> Codecs.scale_compact_encode v = Err OverflowError).
Proof. exact ScaleOk.scale_compact_range. Qed.
Print Assumptions scale_compact_range.

Theorem scale_bytes_dec_enc : forall b rest, bytes_ok b -> N.of_nat (length b) <= scale_big_max ->
  exists s, Codecs.scale_bytes_encode b = Ok s /\ Scale.bytes_decode (s ++ rest) = Ok (b, rest).
Proof. exact ScaleOk.scale_bytes_dec_enc. Qed.
Print Assumptions scale_bytes_dec_enc.

(* u8 .. u256: little-endian on exactly w bytes, injective; everything else is a ValueError *)
Theorem scale_uint_dec_enc : forall kind w v rest, nth_error scale_uint_byte_lens kind = Some w -> v < 256 ^ w ->
  exists b, Codecs.scale_uint_encode kind (Z.of_N v) = Ok b /\
            Scale.uint_decode (N.to_nat w) (b ++ rest) = Ok (v, rest) /\ length b = N.to_nat w.
Proof. exact ScaleOk.scale_uint_dec_enc. Qed.
Print Assumptions scale_uint_dec_enc.

Theorem scale_uint_inj : forall kind w v1 v2 b, nth_error scale_uint_byte_lens kind = Some w ->
  v1 < 256 ^ w -> v2 < 256 ^ w ->
  Codecs.scale_uint_encode kind (Z.of_N v1) = Ok b -> Codecs.scale_uint_encode kind (Z.of_N v2) = Ok b -> v1 = v2.
Proof. exact ScaleOk.scale_uint_inj. Qed.
Print Assumptions scale_uint_inj.

Theorem scale_uint_range : forall kind w v, nth_error scale_uint_byte_lens kind = Some w ->
  (v < 0 \/ Z.of_N (256 ^ w) <= v)%Z -> Codecs.scale_uint_encode kind v = Err ValueError.
Proof. exact ScaleOk.scale_uint_range. Qed.
Print Assumptions scale_uint_range.

(* ------------------------------------------------------------------ CBOR indefinite-length array *)
(* cbor2's integer coding is modelled from RFC 8949 (major type 0, preferred serialisation), tied to cbor2 by
   the correspondence run only.  The decode loop is fuel-bounded by the input length and provably never runs
   out (cbor_decode_err: the only error class is ValueError). *)

Theorem cbor_ids : cbor_uint8 = 24 /\ cbor_uint16 = 25 /\ cbor_uint32 = 26 /\ cbor_uint64 = 27 /\
  cbor_indef_len_array_start = 159 /\ cbor_indef_len_array_end = 255.
Proof. exact CborOk.cbor_ids. Qed.
Print Assumptions cbor_ids.

Theorem cbor_array_roundtrip : forall l, Forall (fun n => n < 2 ^ 64) l ->
  Codecs.cbor_decode (Codecs.cbor_encode (map Z.of_N l)) = Ok (map (fun n => Cbor.CInt (Z.of_N n)) l).
Proof. exact CborOk.cbor_array_roundtrip. Qed.
Print Assumptions cbor_array_roundtrip.

Example cbor_array_roundtrip_ex : Forall (fun n => n < 2 ^ 64) [0; 23; 24; 2 ^ 32; 2 ^ 64 - 1].
Proof. repeat constructor. Qed.
Print Assumptions cbor_array_roundtrip_ex.

(* The model's length guard is the one the property demands (len < 2); the code's "< 3" rejects the encoder's
   output for the empty array -- finding C11-CBOR-EMPTY, visible as a model/implementation divergence on 9fff. *)
Theorem cbor_array_roundtrip_empty : Codecs.cbor_decode (Codecs.cbor_encode []) = Ok [].
Proof. exact CborOk.cbor_array_roundtrip_empty. Qed.
Print Assumptions cbor_array_roundtrip_empty.

Theorem cbor_encode_standard : forall l, Forall (fun n => n < 2 ^ 64) l ->
  Codecs.cbor_encode (map Z.of_N l) = [159] ++ concat (map (Cbor.cbor_head 0) l) ++ [255].
Proof. exact CborOk.cbor_encode_standard. Qed.
Print Assumptions cbor_encode_standard.

Theorem cbor_decode_err : forall enc e, Codecs.cbor_decode enc = Err e -> e = ValueError.
Proof. exact CborOk.cbor_decode_err. Qed.
Print Assumptions cbor_decode_err.

(* decode-then-encode does NOT hold (material for C10): non-minimal heads and trailing bytes are accepted *)
Theorem cbor_canonical_refuted :
  Codecs.cbor_decode [159; 24; 5; 255] = Ok [Cbor.CInt 5] /\ Codecs.cbor_encode [5%Z] <> [159; 24; 5; 255] /\
  Codecs.cbor_decode [159; 255; 0; 255] = Ok [].
Proof. exact CborOk.cbor_canonical_refuted. Qed.
Print Assumptions cbor_canonical_refuted.

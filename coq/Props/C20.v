(* C20 -- Electrum wallets, brainwallets and SPL addresses equal their defining formulas.
   Statements only; every proof is [exact <lemma>] with Print Assumptions beneath.

   Oracles: sha256; the secp256k1 group as an abstract carrier G (base, smul, add, is_inf, ser_u = 04||X||Y);
   BIP-32 child derivation [ckd] on abstract Bip32 objects (modelled and proved under C03/C04);
   address encoders; pbkdf2/scrypt/utf8; the ed25519 validity test [on_curve]; Solana address decoding. *)
From Coq Require Import NArith ZArith List Bool.
From BU Require Import Base.Exn Base.Radix Base.Bytes Gen.Consts Gen.SerbipConsts Model.Base58 Model.WifCodec
  Model.ElectrumWallet Model.Brainwallet Model.SplToken.
From BU Require Lemmas.SerbipConstsOk Lemmas.ElectrumWallet Lemmas.SplToken.
Import ListNotations.
Open Scope N_scope.

(* ---------------------------------------------------------------- decimal rendering of the indices *)
Theorem dec_str_is_decimal : forall n,
  Forall (fun c => 48 <= c <= 57) (dec_str n) /\ from_be 10 (map (fun c => c - 48) (dec_str n)) = n /\ dec_str n <> [].
Proof.
  intros n. split; [exact (Lemmas.ElectrumWallet.dec_str_digits n)|].
  split; [exact (Lemmas.ElectrumWallet.dec_str_value n)|exact (Lemmas.ElectrumWallet.dec_str_nonempty n)].
Qed.
Print Assumptions dec_str_is_decimal.

Theorem dec_str_injective : forall a b, dec_str a = dec_str b -> a = b.
Proof. exact Lemmas.ElectrumWallet.dec_str_inj. Qed.
Print Assumptions dec_str_injective.

Theorem dec_str_canonical : forall n c t, n <> 0 -> dec_str n = c :: t -> c <> 48.
Proof. exact Lemmas.ElectrumWallet.dec_str_no_leading_zero. Qed.
Print Assumptions dec_str_canonical.

(* the hashed text "index:change:" || tail determines (index, change, tail) *)
Theorem v1_sequence_text_injective : forall i c t i' c' t',
  dec_str i ++ [58] ++ dec_str c ++ [58] ++ t = dec_str i' ++ [58] ++ dec_str c' ++ [58] ++ t' ->
  i = i' /\ c = c' /\ t = t'.
Proof. exact Lemmas.ElectrumWallet.seq_preimage_inj. Qed.
Print Assumptions v1_sequence_text_injective.

(* ---------------------------------------------------------------- Electrum v1 *)
Section V1.
  Variable sha256 : list N -> list N.
  Variable G : Type.
  Variable base : G.
  Variable smul : N -> G -> G.
  Variable add : G -> G -> G.
  Variable is_inf : G -> bool.
  Variable ser_u : G -> list N.
  Variable p2pkh_u : G -> list N.

  Notation get_priv := (v1_get_private_key sha256 G base smul ser_u).
  Notation get_pub := (v1_get_public_key sha256 G base smul add is_inf ser_u).
  Notation get_addr := (v1_get_address sha256 G base smul add is_inf ser_u p2pkh_u).

  (* child = (master + sha256d(decimal(index) ":" decimal(change) ":" || master_pub_uncompressed[1:])) mod n,
     32 big-endian bytes; the one excluded value is 0 *)
  Theorem electrum_v1_child : forall k c i,
    secp_priv_valid k = true -> c <= bip32_index_max -> i <= bip32_index_max ->
    let mpub := smul (be_to_int k) base in
    let seq := be_to_int (sha256 (sha256 (dec_str i ++ [58] ++ dec_str c ++ [58] ++ skipn 1 (ser_u mpub)))) in
    let v := (be_to_int k + seq) mod secp256k1_order in
    (v = 0 -> get_priv (V1Priv G k) (Z.of_N c) (Z.of_N i) = Err ValueError) /\
    (v <> 0 -> exists kb, get_priv (V1Priv G k) (Z.of_N c) (Z.of_N i) = Ok kb /\ length kb = 32%nat /\
                          be_to_int kb = v /\ secp_priv_valid kb = true).
  Proof. exact (Lemmas.ElectrumWallet.electrum_v1_child sha256 G base smul ser_u). Qed.

  Theorem electrum_v1_commutes :
    (forall a b P, smul (a + b) P = add (smul a P) (smul b P)) ->
    (forall a, smul (a mod secp256k1_order) base = smul a base) ->
    forall k c i kb R,
    get_priv (V1Priv G k) c i = Ok kb ->
    get_pub (V1Pub G (smul (be_to_int k) base)) c i = Ok R ->
    smul (be_to_int kb) base = R.
  Proof. exact (Lemmas.ElectrumWallet.electrum_v1_commutes sha256 G base smul add is_inf ser_u). Qed.

  Theorem electrum_v1_pub_of_priv : forall k c i,
    get_pub (V1Priv G k) c i = (kb <- get_priv (V1Priv G k) c i ;; Ok (smul (be_to_int kb) base)).
  Proof. exact (Lemmas.ElectrumWallet.electrum_v1_pub_of_priv sha256 G base smul add is_inf ser_u). Qed.

  Theorem v1_address_uncompressed : forall w c i, get_addr w c i = (P <- get_pub w c i ;; Ok (p2pkh_u P)).
  Proof. exact (Lemmas.ElectrumWallet.v1_address_uncompressed sha256 G base smul add is_inf ser_u p2pkh_u). Qed.

  Theorem electrum_v1_index_range : forall w c i, (c < 0 \/ 4294967295 < c \/ i < 0 \/ 4294967295 < i)%Z ->
    get_pub w c i = Err ValueError.
  Proof. exact (Lemmas.ElectrumWallet.electrum_v1_index_range sha256 G base smul add is_inf ser_u). Qed.
End V1.
Print Assumptions electrum_v1_child.
Print Assumptions electrum_v1_commutes.
Print Assumptions electrum_v1_pub_of_priv.
Print Assumptions v1_address_uncompressed.
Print Assumptions electrum_v1_index_range.

(* ---------------------------------------------------------------- Electrum v2 *)
Section V2.
  Variable obj : Type.
  Variable ckd : obj -> N -> res obj.
  Variable obj_depth : obj -> N.

  Theorem electrum_v2_std_path : forall m c i, c <= 4294967295 -> i <= 4294967295 ->
    v2_std_derive obj ckd m (IdxInt (Z.of_N c)) (IdxInt (Z.of_N i)) = (o1 <- ckd m c ;; ckd o1 i).
  Proof. exact (Lemmas.ElectrumWallet.electrum_v2_std_path obj ckd). Qed.

  Theorem segwit_path : forall m c i, obj_depth m = 0 -> c <= 4294967295 -> i <= 4294967295 ->
    (acc <- v2_segwit_new obj ckd obj_depth m ;; v2_segwit_derive obj ckd acc (IdxInt (Z.of_N c)) (IdxInt (Z.of_N i))) =
    derive obj ckd m [2147483648; c; i].
  Proof. exact (Lemmas.ElectrumWallet.electrum_v2_segwit_path obj ckd obj_depth). Qed.

  (* the property's clause "index arguments of every documented type are honoured", true of the model; the
     implementation raises TypeError for Bip32KeyIndex arguments (finding F7, surfaced by the correspondence run) *)
  Theorem index_types_honoured : forall m n1 n2,
    v2_std_derive obj ckd m (IdxObj n1) (IdxObj n2) = v2_std_derive obj ckd m (IdxInt (Z.of_N n1)) (IdxInt (Z.of_N n2)) /\
    v2_std_derive obj ckd m (IdxObj n1) (IdxInt (Z.of_N n2)) = v2_std_derive obj ckd m (IdxInt (Z.of_N n1)) (IdxInt (Z.of_N n2)) /\
    v2_segwit_derive obj ckd m (IdxObj n1) (IdxObj n2) = v2_segwit_derive obj ckd m (IdxInt (Z.of_N n1)) (IdxInt (Z.of_N n2)).
  Proof. exact (Lemmas.ElectrumWallet.index_types_honoured obj ckd). Qed.

  Theorem electrum_v2_index_range : forall m c i, (c < 0 \/ 4294967295 < c \/ i < 0 \/ 4294967295 < i)%Z ->
    v2_std_derive obj ckd m (IdxInt c) (IdxInt i) = Err (LibError Bip32PathError) /\
    v2_segwit_derive obj ckd m (IdxInt c) (IdxInt i) = Err (LibError Bip32PathError).
  Proof. exact (Lemmas.ElectrumWallet.electrum_v2_index_range obj ckd). Qed.
End V2.
Print Assumptions electrum_v2_std_path.
Print Assumptions segwit_path.
Print Assumptions index_types_honoured.
Print Assumptions electrum_v2_index_range.

(* ---------------------------------------------------------------- brainwallet (definitional) *)
Theorem brainwallet_key_def : forall sha256 pbkdf2 scrypt utf8 pass pw, utf8 pass = Ok pw ->
  bw_compute sha256 pbkdf2 scrypt utf8 BwSha256 pass = Ok (sha256 pw) /\
  bw_compute sha256 pbkdf2 scrypt utf8 BwDoubleSha256 pass = Ok (sha256 (sha256 pw)) /\
  (forall salt itr, bw_compute sha256 pbkdf2 scrypt utf8 (BwPbkdf2 salt (Some itr)) pass = Ok (pbkdf2 pw salt itr 32)) /\
  (forall salt, bw_compute sha256 pbkdf2 scrypt utf8 (BwPbkdf2 salt None) pass = Ok (pbkdf2 pw salt 2097152 32)) /\
  (forall salt n r p, bw_compute sha256 pbkdf2 scrypt utf8 (BwScrypt salt (Some n) (Some r) (Some p)) pass = Ok (scrypt pw salt n r p 32)) /\
  (forall salt, bw_compute sha256 pbkdf2 scrypt utf8 (BwScrypt salt None None None) pass = Ok (scrypt pw salt 131072 8 8 32)).
Proof. exact Lemmas.SplToken.brainwallet_key_def. Qed.
Print Assumptions brainwallet_key_def.

Theorem brainwallet_generate_def : forall sha256 pbkdf2 scrypt utf8 priv_ok a pass k,
  bw_compute sha256 pbkdf2 scrypt utf8 a pass = Ok k ->
  bw_generate sha256 pbkdf2 scrypt utf8 priv_ok a pass = if priv_ok k then Ok k else Err (LibError Bip32KeyError).
Proof. exact Lemmas.SplToken.brainwallet_generate_def. Qed.
Print Assumptions brainwallet_generate_def.

(* ---------------------------------------------------------------- SPL token: program-derived addresses *)
Theorem pda_hash_layout : forall sha256 cat b prog, 1 <= b <= 255 ->
  pda_hash sha256 cat b prog = sha256 (cat ++ [b] ++ prog ++ spl_pda_marker).
Proof. exact Lemmas.SplToken.pda_hash_layout. Qed.
Print Assumptions pda_hash_layout.

(* the search tries bump 255, 254, ..., 1 (never 0, as the Solana runtime) and returns the first candidate that
   is NOT a valid ed25519 point *)
Theorem pda_is_first_off_curve : forall sha256 on_curve cat prog h,
  find_pda_loop sha256 on_curve cat prog 255 255 = Ok h <->
  exists b, 1 <= b <= 255 /\ h = pda_hash sha256 cat b prog /\ on_curve (pda_hash sha256 cat b prog) = false /\
            forall b', b < b' <= 255 -> on_curve (pda_hash sha256 cat b' prog) = true.
Proof. exact Lemmas.SplToken.pda_is_first_off_curve. Qed.
Print Assumptions pda_is_first_off_curve.

Theorem pda_none_iff : forall sha256 on_curve cat prog e,
  find_pda_loop sha256 on_curve cat prog 255 255 = Err e <->
  (e = ValueError /\ forall b, 1 <= b <= 255 -> on_curve (pda_hash sha256 cat b prog) = true).
Proof. exact Lemmas.SplToken.pda_none_iff. Qed.
Print Assumptions pda_none_iff.

Theorem find_pda_spec : forall sha256 on_curve alph radix sol_decode seeds program_id prog,
  (length seeds <= 16)%nat -> Forall (fun s => (length s <= 32)%nat) seeds -> sol_decode program_id = Ok prog ->
  find_pda alph radix sha256 on_curve sol_decode seeds program_id =
    (h <- find_pda_loop sha256 on_curve (concat seeds) prog 255 255 ;; Ok (encode alph radix h)).
Proof. exact Lemmas.SplToken.find_pda_spec. Qed.
Print Assumptions find_pda_spec.

Theorem find_pda_rejects : forall sha256 on_curve alph radix sol_decode seeds program_id,
  ((16 < length seeds)%nat \/ Exists (fun s => (32 < length s)%nat) seeds) ->
  find_pda alph radix sha256 on_curve sol_decode seeds program_id = Err ValueError.
Proof. exact Lemmas.SplToken.find_pda_rejects. Qed.
Print Assumptions find_pda_rejects.

Theorem ata_seeds_order : forall sha256 on_curve alph radix sol_decode wallet mint token_program,
  get_ata_with_program alph radix sha256 on_curve sol_decode wallet mint token_program =
    (w <- sol_decode wallet ;; t <- sol_decode token_program ;; m <- sol_decode mint ;;
     find_pda alph radix sha256 on_curve sol_decode [w; t; m] spl_def_program_id) /\
  get_ata alph radix sha256 on_curve sol_decode wallet mint =
    get_ata_with_program alph radix sha256 on_curve sol_decode wallet mint spl_def_token_program_id.
Proof. exact Lemmas.SplToken.ata_seeds_order. Qed.
Print Assumptions ata_seeds_order.

Theorem ata_formula : forall sha256 on_curve alph radix sol_decode wallet mint w t m prog,
  sol_decode wallet = Ok w -> sol_decode spl_def_token_program_id = Ok t -> sol_decode mint = Ok m ->
  sol_decode spl_def_program_id = Ok prog -> length w = 32%nat -> length t = 32%nat -> length m = 32%nat ->
  get_ata alph radix sha256 on_curve sol_decode wallet mint =
    (h <- find_pda_loop sha256 on_curve (w ++ t ++ m) prog 255 255 ;; Ok (encode alph radix h)).
Proof. exact Lemmas.SplToken.ata_formula. Qed.
Print Assumptions ata_formula.

(* ---------------------------------------------------------------- the premises are satisfiable *)
Example dec_str_demo : dec_str 4294967295 = [52; 50; 57; 52; 57; 54; 55; 50; 57; 53] /\ dec_str 0 = [48] /\ dec_str 10 = [49; 48].
Proof. vm_compute. repeat split; reflexivity. Qed.
Print Assumptions dec_str_demo.

(* a search that has to skip two on-curve candidates: "on curve" stand-in = first byte above 253 *)
Example pda_search_demo :
  find_pda_loop (fun x => [nth 0 (rev (firstn 2 x)) 0]) (fun h => 253 <? nth 0 h 0) [7] [9] 255 255 = Ok [253].
Proof. vm_compute. reflexivity. Qed.
Print Assumptions pda_search_demo.

(* ===== linked to the concrete codec models ===== *)
(* The address encoders, the Solana address decoder and UTF-8 were Section variables of the C20 models; here they
   are the concrete models (Model/LinkAddr.v): P2PKH = Base58Check of Model/Base58.v over hash160, P2WPKH = the SegWit
   codec of Model/Bech32.v, SolAddrDecoder = Base58 + length + key test of Model/AddrB58.v.  The parameters the source
   looks up in the coin table (net versions, HRP, key mode) are regenerated (Gen/LinkConsts.v) and their
   well-formedness is re-proved on every run ([link_parameters_wf]).
   Oracles that remain: sha256, ripemd160, the secp256k1 group / Bip32 object, Ed25519PublicKey.IsValidBytes. *)
From BU Require Import Gen.AddrConsts Gen.AddrTextConsts Gen.LinkConsts Model.AddrB58 Model.AddrText Model.Bech32 Model.LinkAddr.
From BU Require Lemmas.Bech32 Lemmas.LinkElectrum.

Definition hash_law (h : list N -> list N) (n : nat) : Prop := (forall x, length (h x) = n) /\ (forall x, bytes_ok (h x)).

Theorem link_parameters_wf :
  electrum_v1_addr_compressed = false /\ p2pkh_default_compressed = true /\
  bytes_ok bip38_addr_net_ver /\ bytes_ok electrum_v1_addr_net_ver /\ bytes_ok electrum_v2_std_addr_net_ver /\
  Lemmas.Bech32.hrp_enc_ok electrum_v2_segwit_addr_hrp.
Proof. exact LinkElectrum.link_consts_ok. Qed.
Print Assumptions link_parameters_wf.

(* Electrum v1: the address is Base58Check(net version || hash160(04 || X || Y)) of the derived public key and the
   library's P2PKH decoder gives that hash160 back *)
Theorem electrum_v1_address_concrete : forall sha256 ripemd160 G base smul add is_inf ser_c ser_u w c i a,
  hash_law sha256 32 -> hash_law ripemd160 20 ->
  v1c_get_address sha256 ripemd160 G base smul add is_inf ser_c ser_u w c i = Ok a ->
  exists P, v1_get_public_key sha256 G base smul add is_inf ser_u w c i = Ok P /\
    a = check_encode b58_alph_btc b58_radix b58_cklen sha256 (electrum_v1_addr_net_ver ++ ripemd160 (sha256 (ser_u P))) /\
    p2pkh_decode sha256 b58_alph_btc electrum_v1_addr_net_ver a = Ok (ripemd160 (sha256 (ser_u P))).
Proof.
  intros sha256 ripemd160 G base smul add is_inf ser_c ser_u w c i a [S1 S2] [R1 R2].
  exact (LinkElectrum.v1_get_address_c sha256 ripemd160 S1 S2 R1 R2 G base smul add is_inf ser_c ser_u w c i a).
Qed.
Print Assumptions electrum_v1_address_concrete.

(* Electrum v2 standard: P2PKH of the compressed child key *)
Theorem electrum_v2_std_address_concrete : forall sha256 ripemd160 obj pub_of (o : res obj) a,
  hash_law sha256 32 -> hash_law ripemd160 20 ->
  v2c_std_address sha256 ripemd160 obj pub_of o = Ok a ->
  exists x, o = Ok x /\ v2c_std_decode sha256 a = Ok (ripemd160 (sha256 (pub_of x))).
Proof.
  intros sha256 ripemd160 obj pub_of o a [S1 S2] [R1 R2].
  exact (LinkElectrum.v2_std_address_c sha256 ripemd160 S1 S2 R1 R2 obj pub_of o a).
Qed.
Print Assumptions electrum_v2_std_address_concrete.

(* Electrum v2 SegWit: the SegWit encoder never refuses, and the address decodes (witness version 0) to the
   hash160 of the compressed child key *)
Theorem electrum_v2_segwit_address_concrete : forall sha256 ripemd160 obj pub_of,
  hash_law sha256 32 -> hash_law ripemd160 20 ->
  (forall x : obj, exists a, v2c_segwit_address sha256 ripemd160 obj pub_of (Ok x) = Ok a) /\
  (forall (o : res obj) a, v2c_segwit_address sha256 ripemd160 obj pub_of o = Ok a ->
     exists x, o = Ok x /\ v2c_segwit_decode a = Ok (ripemd160 (sha256 (pub_of x)))).
Proof.
  intros sha256 ripemd160 obj pub_of [S1 S2] [R1 R2].
  exact (conj (LinkElectrum.v2_segwit_address_total sha256 ripemd160 S1 S2 R1 R2 obj pub_of)
              (LinkElectrum.v2_segwit_address_c sha256 ripemd160 S1 S2 R1 R2 obj pub_of)).
Qed.
Print Assumptions electrum_v2_segwit_address_concrete.

(* SolAddrDecoder accepts exactly the Base58 spellings of 32-byte strings that pass the key test *)
Theorem sol_decode_accepts_iff : forall on_curve s p, splc_sol_decode on_curve s = Ok p <->
  (decode b58_alph_btc b58_radix s = Ok p /\ length p = 32%nat /\ on_curve p = true).
Proof. exact LinkElectrum.sol_decode_ok_iff. Qed.
Print Assumptions sol_decode_accepts_iff.

(* end to end: what FindPda returns is the Base58 text of a 32-byte off-curve hash, and therefore the library's
   own Solana address decoder refuses it (a PDA cannot be passed back as a wallet to GetAssociatedTokenAddress) *)
Theorem pda_is_not_a_sol_address : forall sha256 on_curve seeds program_id a, hash_law sha256 32 ->
  splc_find_pda sha256 on_curve seeds program_id = Ok a ->
  exists h, decode b58_alph_btc b58_radix a = Ok h /\ a = encode b58_alph_btc b58_radix h /\ length h = 32%nat /\
            on_curve h = false /\ splc_sol_decode on_curve a = Err ValueError.
Proof.
  intros sha256 on_curve seeds program_id a [S1 S2].
  exact (LinkElectrum.pda_is_not_a_sol_address sha256 on_curve S1 S2 seeds program_id a).
Qed.
Print Assumptions pda_is_not_a_sol_address.

Theorem find_pda_spec_concrete : forall sha256 on_curve seeds program_id prog,
  (length seeds <= 16)%nat -> Forall (fun s => (length s <= 32)%nat) seeds ->
  decode b58_alph_btc b58_radix program_id = Ok prog -> length prog = 32%nat -> on_curve prog = true ->
  splc_find_pda sha256 on_curve seeds program_id =
    (h <- find_pda_loop sha256 on_curve (concat seeds) prog 255 255 ;; Ok (encode b58_alph_btc b58_radix h)).
Proof. exact LinkElectrum.find_pda_spec_c. Qed.
Print Assumptions find_pda_spec_concrete.

(* the associated token account: of the seven premises of [ata_formula] two remain (wallet and mint are accepted
   addresses); the program-id premises are computed from the source strings, up to the key test (an oracle) *)
Theorem ata_formula_concrete : forall sha256 on_curve wallet mint w m,
  splc_sol_decode on_curve wallet = Ok w -> splc_sol_decode on_curve mint = Ok m ->
  on_curve LinkElectrum.ata_program_bytes = true -> on_curve LinkElectrum.token_program_bytes = true ->
  splc_get_ata sha256 on_curve wallet mint =
    (h <- find_pda_loop sha256 on_curve (w ++ LinkElectrum.token_program_bytes ++ m) LinkElectrum.ata_program_bytes 255 255 ;;
     Ok (encode b58_alph_btc b58_radix h)).
Proof. exact LinkElectrum.ata_formula_c. Qed.
Print Assumptions ata_formula_concrete.

Theorem spl_program_ids_decode :
  decode b58_alph_btc b58_radix spl_def_program_id = Ok LinkElectrum.ata_program_bytes /\
  length LinkElectrum.ata_program_bytes = 32%nat /\
  decode b58_alph_btc b58_radix spl_def_token_program_id = Ok LinkElectrum.token_program_bytes /\
  length LinkElectrum.token_program_bytes = 32%nat.
Proof. exact LinkElectrum.program_ids_decode. Qed.
Print Assumptions spl_program_ids_decode.

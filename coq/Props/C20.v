From Coq Require Import NArith List.
Theorem stub : True. Proof. exact I. Qed.
Print Assumptions stub.

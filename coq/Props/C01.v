(* C01 -- BIP-39 mnemonic/entropy codec is a checksum-verified bijection in all languages.
   Statements only; every proof is [exact <lemma>] with Print Assumptions beneath.

   Reading guide.
   * [encode], [decode], [decode_with_checksum], [is_valid] (Model/Bip39.v) transcribe the code:
     binary strings built with bin()/zfill, slicing, int(s, 2), hex()/unhexlify, dict look-up.
   * [encode_spec], [decode_spec] (Model/Bip39Spec.v) are the BIP-39 text in bit vocabulary.
   * sha256, nfkd, lower are oracles; [sha_ok] (32 output bytes) and [normal_form] (listed words are
     fixed points of lower+NFKD; checked exhaustively by the harness on all 18432 words) are the
     only hypotheses.  [bip39_langs] are the nine lists regenerated from /repo on every run.
   * A mnemonic object is a word list; the str entry points prepend [normalize] (split, lower, NFKD):
     [decode_str_encode] covers every white-space layout of listed words; lower/NFKD of other
     spellings are oracle behaviour, exercised by the correspondence run only. *)
From Coq Require Import NArith Arith List.
From BU Require Import Base.Exn Base.Bytes Gen.Bip39Consts Gen.WlBip39 Model.BinStr Model.Bip39 Model.Bip39Spec.
From BU Require Lemmas.Bip39 Lemmas.Bip39Norm Lemmas.Bip39WlAux Lemmas.Bip39WordlistsOk Lemmas.Bip39WlOverlap Lemmas.Bip39Autodetect Lemmas.Bip39Props.
Import ListNotations.
Open Scope N_scope.

Notation sha_ok := Bip39Props.sha_ok.
Notation normal_form := Bip39Props.normal_form.

(* ---- the word lists ---- *)

Theorem wordlists_ok : forall wl, In wl bip39_langs ->
  length wl = 2048%nat /\ NoDup wl /\
  Forall (fun w => w <> [] /\
                   Forall (fun c => is_space c = false /\ c < 1114112 /\ ~ (55296 <= c <= 57343)) w) wl.
Proof.
  intros wl H. destruct (Bip39WordlistsOk.bip39_list_ok wl H) as (A & B & _ & C). exact (conj A (conj B C)).
Qed.
Print Assumptions wordlists_ok.

(* nine lists; all pairs disjoint except zh-simplified/zh-traditional (1275 common characters, each
   at the same index in both lists) and english/french (100 common words, each at different indices) *)
Theorem wordlists_overlap :
  length bip39_langs = 9%nat /\
  (forall j k, (j < k)%nat -> (k < 9)%nat -> Bip39WlOverlap.overlapping j k = false ->
     Bip39WlAux.disjoint (Bip39WlAux.lang_at j) (Bip39WlAux.lang_at k)) /\
  (length (Bip39WlAux.shared wl_bip39_chinese_simplified wl_bip39_chinese_traditional) = 1275%nat /\
   Bip39WlAux.compatible wl_bip39_chinese_simplified wl_bip39_chinese_traditional) /\
  (length (Bip39WlAux.shared wl_bip39_english wl_bip39_french) = 100%nat /\
   forall w i j, In w (Bip39WlAux.shared wl_bip39_english wl_bip39_french) ->
     word_index wl_bip39_english w = Some i -> word_index wl_bip39_french w = Some j -> i <> j).
Proof. exact (conj Bip39WordlistsOk.bip39_langs_len Bip39Props.overlap_table). Qed.
Print Assumptions wordlists_overlap.

(* ---- encoder ---- *)

(* the binary-string route of the code is the BIP-39 definition: word i is the word whose index is
   the i-th 11-bit group of ENT || first ENT/32 bits of SHA-256(ENT) -- for every entropy of a
   legal size, leading zero bytes and small indices included *)
Theorem encode_is_bit_groups : forall sha256 nfkd lower wl ent,
  sha_ok sha256 -> In wl bip39_langs -> normal_form nfkd lower wl ->
  bytes_ok ent -> legal_entropy_len (length ent) = true ->
  let bits := bits_of_bytes ent ++ firstn (length ent / 4) (bits_of_bytes (sha256 ent)) in
  encode sha256 nfkd lower wl ent =
  Ok (map (fun i => nth (N.to_nat (bits_to_N (firstn 11 (skipn (11 * i) bits)))) wl [])
          (seq 0 (length bits / 11))).
Proof.
  intros sha256 nfkd lower wl ent Hs Hwl Hnf Hb Hl.
  exact (Bip39Props.p_encode_is_bit_groups sha256 nfkd lower Hs wl Hwl Hnf ent Hb Hl).
Qed.
Print Assumptions encode_is_bit_groups.

(* on every byte string (illegal sizes give ValueError), and without the normal-form hypothesis:
   the encoder is the specification followed by the word-wise lower+NFKD of Bip39Mnemonic.FromList *)
Theorem encode_is_spec : forall sha256 nfkd lower wl ent,
  sha_ok sha256 -> In wl bip39_langs -> bytes_ok ent ->
  encode sha256 nfkd lower wl ent = rmap (map (norm_word nfkd lower)) (encode_spec sha256 wl ent).
Proof.
  intros sha256 nfkd lower wl ent Hs Hwl Hb. exact (Bip39Props.p_encode_raw sha256 nfkd lower Hs wl Hwl ent Hb).
Qed.
Print Assumptions encode_is_spec.

Theorem encode_total : forall sha256 nfkd lower wl ent,
  sha_ok sha256 -> In wl bip39_langs -> normal_form nfkd lower wl ->
  bytes_ok ent -> legal_entropy_len (length ent) = true ->
  exists ws, encode sha256 nfkd lower wl ent = Ok ws /\ length ws = (length ent * 3 / 4)%nat.
Proof.
  intros sha256 nfkd lower wl ent Hs Hwl Hnf Hb Hl.
  exact (Bip39Props.p_encode_total sha256 nfkd lower Hs wl Hwl Hnf ent Hb Hl).
Qed.
Print Assumptions encode_total.

(* ---- decoder ---- *)

(* the decoder with an explicit language is the specification, on every word sequence *)
Theorem decode_is_spec : forall sha256 wl ws, sha_ok sha256 -> In wl bip39_langs ->
  decode sha256 bip39_langs (Some wl) ws = decode_spec sha256 wl ws.
Proof. intros sha256 wl ws Hs Hwl. exact (Bip39Props.p_decode_is_spec sha256 Hs wl Hwl ws). Qed.
Print Assumptions decode_is_spec.

Theorem decode_encode : forall sha256 nfkd lower wl ent ws,
  sha_ok sha256 -> In wl bip39_langs -> normal_form nfkd lower wl -> bytes_ok ent ->
  encode sha256 nfkd lower wl ent = Ok ws -> decode sha256 bip39_langs (Some wl) ws = Ok ent.
Proof.
  intros sha256 nfkd lower wl ent ws Hs Hwl Hnf Hb E.
  exact (Bip39Props.p_decode_encode sha256 nfkd lower Hs wl Hwl Hnf ent ws Hb E).
Qed.
Print Assumptions decode_encode.

(* the same on str arguments: whatever white-space layout the sentence is written in (single
   spaces = Mnemonic.ToStr, tabs, ideographic spaces, leading/trailing blanks), split/lower/NFKD
   gives the words back and the entropy is recovered *)
Theorem decode_str_encode : forall sha256 nfkd lower wl ent ws seps lead trail,
  sha_ok sha256 -> In wl bip39_langs -> normal_form nfkd lower wl -> bytes_ok ent ->
  encode sha256 nfkd lower wl ent = Ok ws ->
  Forall (fun sp => sp <> [] /\ Bip39Norm.all_space sp) seps -> Bip39Norm.all_space lead -> Bip39Norm.all_space trail ->
  decode_str sha256 nfkd lower bip39_langs (Some wl) (lead ++ Bip39Norm.join_with seps ws ++ trail) = Ok ent.
Proof.
  intros sha256 nfkd lower wl ent ws seps lead trail Hs Hwl Hnf Hb E H1 H2 H3.
  exact (Bip39Props.p_decode_str_encode sha256 nfkd lower Hs wl Hwl Hnf ent ws seps lead trail Hb E H1 H2 H3).
Qed.
Print Assumptions decode_str_encode.

(* accepted iff legal word count, every word listed, and the trailing len/3 bits of the sentence
   equal the SHA-256 prefix of the leading bits, which are the entropy returned *)
Theorem decode_accepts_iff : forall sha256 wl ws e, sha_ok sha256 -> In wl bip39_langs ->
  (decode sha256 bip39_langs (Some wl) ws = Ok e <->
   legal_word_count (length ws) = true /\
   exists idxs, sentence_indices wl ws = Some idxs /\
     let bits := sentence_bits idxs in
     let cl := (length ws / 3)%nat in
     e = bytes_of_bits (firstn (length bits - cl) bits) /\
     skipn (length bits - cl) bits = firstn cl (bits_of_bytes (sha256 e))).
Proof. intros sha256 wl ws e Hs Hwl. exact (Bip39Props.p_decode_accepts_iff sha256 Hs wl Hwl ws e). Qed.
Print Assumptions decode_accepts_iff.

(* [sentence_indices] is defined exactly when every word is in the list *)
Theorem words_listed_iff : forall wl ws,
  (exists idxs, sentence_indices wl ws = Some idxs) <-> Forall (fun w => In w wl) ws.
Proof. intros wl ws. exact (Bip39Props.p_words_listed wl ws). Qed.
Print Assumptions words_listed_iff.

(* everything else is rejected with ValueError (count / unknown word) or MnemonicChecksumError *)
Theorem decode_rejects : forall sha256 wl ws x, sha_ok sha256 -> In wl bip39_langs ->
  decode sha256 bip39_langs (Some wl) ws = Err x ->
  (x = ValueError /\ (legal_word_count (length ws) = false \/ ~ Forall (fun w => In w wl) ws)) \/
  (x = LibError MnemonicChecksumError /\ legal_word_count (length ws) = true /\ Forall (fun w => In w wl) ws).
Proof. intros sha256 wl ws x Hs Hwl. exact (Bip39Props.p_decode_error_classes sha256 Hs wl Hwl ws x). Qed.
Print Assumptions decode_rejects.

(* accepted sentences are exactly the encoder's outputs: they re-encode to themselves *)
Theorem encode_decode_canonical : forall sha256 nfkd lower wl ws e,
  sha_ok sha256 -> In wl bip39_langs -> normal_form nfkd lower wl ->
  decode sha256 bip39_langs (Some wl) ws = Ok e ->
  encode sha256 nfkd lower wl e = Ok ws /\ bytes_ok e /\ legal_entropy_len (length e) = true.
Proof.
  intros sha256 nfkd lower wl ws e Hs Hwl Hnf E.
  exact (Bip39Props.p_encode_decode_canonical sha256 nfkd lower Hs wl Hwl Hnf ws e E).
Qed.
Print Assumptions encode_decode_canonical.

Theorem decode_with_checksum_is_spec : forall sha256 wl ws, sha_ok sha256 -> In wl bip39_langs ->
  decode_with_checksum sha256 bip39_langs (Some wl) ws = decode_with_checksum_spec sha256 wl ws.
Proof. intros sha256 wl ws Hs Hwl. exact (Bip39Props.p_decode_ck_is_spec sha256 Hs wl Hwl ws). Qed.
Print Assumptions decode_with_checksum_is_spec.

(* IsValid never raises and says whether Decode succeeds *)
Theorem is_valid_is_spec : forall sha256 wl ws, sha_ok sha256 -> In wl bip39_langs ->
  is_valid sha256 bip39_langs (Some wl) ws =
  Ok (match decode_spec sha256 wl ws with inl _ => true | inr _ => false end).
Proof. intros sha256 wl ws Hs Hwl. exact (Bip39Props.p_is_valid_spec sha256 Hs wl Hwl ws). Qed.
Print Assumptions is_valid_is_spec.

(* ---- language auto-detection ----
   Full-strength statement (FALSE of the code, see autodetect_refuted):
     forall wl in bip39_langs, forall ws of words of wl,
       decode None ws = decode (Some wl) ws. *)

(* what holds for any configuration of lists: auto-detection gives the outcomes of the explicit
   decoder unless an earlier-enumerated list contains the whole sentence with different indices *)
Theorem autodetect_partial : forall sha256 langs k wl ws,
  nth_error langs k = Some wl -> Forall (fun w => In w wl) ws ->
  (forall j wlj, (j < k)%nat -> nth_error langs j = Some wlj -> Forall (fun w => In w wlj) ws ->
     sentence_indices wlj ws = sentence_indices wl ws) ->
  decode sha256 langs None ws = decode sha256 langs (Some wl) ws /\
  decode_with_checksum sha256 langs None ws = decode_with_checksum sha256 langs (Some wl) ws /\
  is_valid sha256 langs None ws = is_valid sha256 langs (Some wl) ws.
Proof. exact Lemmas.Bip39.autodetect_partial. Qed.
Print Assumptions autodetect_partial.

(* the word-list facts rule the exception out for eight of the nine languages *)
Theorem autodetect_total_for : forall sha256 k wl ws,
  nth_error bip39_langs k = Some wl -> k <> lang_french -> Forall (fun w => In w wl) ws ->
  decode sha256 bip39_langs None ws = decode sha256 bip39_langs (Some wl) ws /\
  decode_with_checksum sha256 bip39_langs None ws = decode_with_checksum sha256 bip39_langs (Some wl) ws /\
  is_valid sha256 bip39_langs None ws = is_valid sha256 bip39_langs (Some wl) ws.
Proof. exact Bip39Autodetect.autodetect_total_for. Qed.
Print Assumptions autodetect_total_for.

(* ... and for French as long as some word of the sentence is not an English word *)
Theorem autodetect_french_partial : forall sha256 ws,
  Forall (fun w => In w wl_bip39_french) ws -> ~ Forall (fun w => In w wl_bip39_english) ws ->
  decode sha256 bip39_langs None ws = decode sha256 bip39_langs (Some wl_bip39_french) ws /\
  decode_with_checksum sha256 bip39_langs None ws = decode_with_checksum sha256 bip39_langs (Some wl_bip39_french) ws /\
  is_valid sha256 bip39_langs None ws = is_valid sha256 bip39_langs (Some wl_bip39_french) ws.
Proof. exact Bip39Autodetect.autodetect_french_partial. Qed.
Print Assumptions autodetect_french_partial.

(* a sentence contained in no list is a ValueError *)
Theorem autodetect_unknown : forall sha256 langs ws,
  (forall wl, In wl langs -> ~ Forall (fun w => In w wl) ws) -> decode sha256 langs None ws = Err ValueError.
Proof. exact Lemmas.Bip39.autodetect_unknown. Qed.
Print Assumptions autodetect_unknown.

(* the round trip with the language auto-detected *)
Theorem decode_encode_auto : forall sha256 nfkd lower wl ent ws,
  sha_ok sha256 -> In wl bip39_langs -> normal_form nfkd lower wl -> wl <> wl_bip39_french -> bytes_ok ent ->
  encode sha256 nfkd lower wl ent = Ok ws -> decode sha256 bip39_langs None ws = Ok ent.
Proof.
  intros sha256 nfkd lower wl ent ws Hs Hwl Hnf Hfr Hb E.
  exact (Bip39Props.p_decode_encode_auto sha256 nfkd lower Hs wl Hwl Hnf ent ws Hfr Hb E).
Qed.
Print Assumptions decode_encode_auto.

Theorem decode_encode_auto_french : forall sha256 nfkd lower ent ws,
  sha_ok sha256 -> normal_form nfkd lower wl_bip39_french -> bytes_ok ent ->
  encode sha256 nfkd lower wl_bip39_french ent = Ok ws -> ~ Forall (fun w => In w wl_bip39_english) ws ->
  decode sha256 bip39_langs None ws = Ok ent.
Proof.
  intros sha256 nfkd lower ent ws Hs Hnf Hb E Hne.
  exact (Bip39Props.p_decode_encode_auto_french sha256 nfkd lower Hs wl_bip39_french
           (Bip39WordlistsOk.lang_at_in lang_french ltac:(unfold lang_french; repeat constructor)) Hnf ent ws eq_refl Hb E Hne).
Qed.
Print Assumptions decode_encode_auto_french.

(* F13.  For any hash function whose first four output bits on the two 16-byte strings below are
   what SHA-256 gives (the harness checks both with hashlib), the sentence
     "humble wagon animal fragile orange science vague machine usage muscle million stable"
   consists of French words, decodes with lang = FRENCH to 7cdfe43735dad7affd5c9af4541a7071, and is
   rejected (MnemonicChecksumError, IsValid = False) when the language is auto-detected: all twelve
   words are English words too, and English is enumerated first. *)
Theorem autodetect_refuted : forall sha256, sha_ok sha256 ->
  firstn 4 (bits_of_bytes (sha256 Bip39Autodetect.f13_entropy_fr)) = [0; 0; 0; 1] ->
  firstn 4 (bits_of_bytes (sha256 Bip39Autodetect.f13_entropy_en)) = [1; 0; 1; 1] ->
  exists ws e, Forall (fun w => In w wl_bip39_french) ws /\
               decode sha256 bip39_langs (Some wl_bip39_french) ws = Ok e /\
               decode sha256 bip39_langs None ws <> Ok e /\
               is_valid sha256 bip39_langs None ws = Ok false.
Proof.
  intros sha256 [A B] H1 H2. exact (Bip39Autodetect.autodetect_refuted sha256 A B H1 H2).
Qed.
Print Assumptions autodetect_refuted.

(* ---- the hypotheses are satisfiable, and the statements are not vacuous ---- *)

Example hypotheses_satisfiable :
  exists sha256 nfkd lower, sha_ok sha256 /\ forall wl, normal_form nfkd lower wl.
Proof. exact Bip39Props.hyps_example. Qed.
Print Assumptions hypotheses_satisfiable.

(* with a stand-in hash (32 zero bytes) the all-zero 128-bit entropy encodes, in English, to twelve
   times the first word, and that sentence decodes back -- explicitly and auto-detected *)
Example roundtrip_example :
  let sha := fun _ : list N => repeat 0 32 in
  let id := fun s : list N => s in
  let ws := repeat (nth 0 wl_bip39_english []) 12 in
  encode sha id id wl_bip39_english (repeat 0 16) = Ok ws /\
  decode sha bip39_langs (Some wl_bip39_english) ws = Ok (repeat 0 16) /\
  decode sha bip39_langs None ws = Ok (repeat 0 16) /\
  decode sha bip39_langs (Some wl_bip39_english) (repeat (nth 1 wl_bip39_english []) 12)
    = Err (LibError MnemonicChecksumError) /\
  decode sha bip39_langs None (repeat (nth 0 wl_bip39_english []) 11) = Err ValueError.
Proof. exact Bip39Props.roundtrip_example. Qed.
Print Assumptions roundtrip_example.

(* C01 -- BIP-39 mnemonic/entropy codec is a checksum-verified bijection in all languages.
   Statements only; every proof is [exact <lemma>] with Print Assumptions beneath. *)
From Coq Require Import NArith List.
From BU Require Import Base.Exn Base.Bytes Gen.Bip39Consts Gen.WlBip39 Model.BinStr Model.Bip39.
From BU Require Lemmas.Bip39WlAux Lemmas.Bip39WordlistsOk.
Import ListNotations.
Open Scope N_scope.

Theorem wordlists_ok : forall wl, In wl bip39_langs -> length wl = 2048%nat /\ NoDup wl.
Proof.
  intros wl H. destruct (Bip39WordlistsOk.bip39_list_ok wl H) as (A & B & _). exact (conj A B).
Qed.
Print Assumptions wordlists_ok.

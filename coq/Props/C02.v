(* C02 -- Mnemonic-to-seed generators equal their KDF definition under Unicode folding.
   Statements only; every proof is [exact <lemma>] with Print Assumptions beneath.

   These theorems are thin by nature: a seed generator is "validate, then one KDF call", so the
   model IS the published definition and the proofs are unfoldings plus the regenerated constants
   ("mnemonic"/"electrum", 2048 rounds, 64 bytes, 100000 iterations).  Their value is that the
   statement is the definition, that the correspondence run pins the code to it on Unicode inputs,
   and the parts with real content: str.split() discards every white-space layout (induction), the
   UTF-8 encoder, fold-invariance from the two NFKD laws, the canonical spelling over the
   regenerated word lists, "a seed iff the sentence is accepted", the Electrum-v1 recurrence.
   PBKDF2-HMAC-SHA512, SHA-256, NFKD, str.lower are oracles; the Electrum-v1/v2 mnemonic validity
   tests are parameters (another property models those codecs). *)
From Coq Require Import NArith Arith List.
From BU Require Import Base.Exn Base.Bytes Gen.Bip39Consts Gen.WlBip39 Model.BinStr Model.Bip39 Model.Seeds.
From BU Require Lemmas.Bip39Norm Lemmas.Seeds Lemmas.SeedsBip39 Lemmas.Bip39Props.
Import ListNotations.
Open Scope N_scope.

Notation ascii := Lemmas.Seeds.ascii.
Notation plain := Lemmas.Bip39Norm.plain.
Notation all_space := Lemmas.Bip39Norm.all_space.
Notation str_mnemonic := Lemmas.Seeds.str_mnemonic.   (* "mnemonic" *)
Notation str_electrum := Lemmas.Seeds.str_electrum.   (* "electrum" *)

(* the two Unicode laws assumed of the NFKD oracle *)
Definition nfkd_laws (nfkd : list N -> list N) : Prop :=
  (forall s, nfkd (nfkd s) = nfkd s) /\ (forall a b, ascii a -> nfkd (a ++ b) = a ++ nfkd b).

(* ---- BIP-39 ---- *)

Theorem bip39_seed_def : forall sha256 nfkd lower pbkdf2 langs lang s p, nfkd_laws nfkd ->
  bip39_seed_str sha256 nfkd lower pbkdf2 langs lang s p =
  (_ <- decode sha256 langs lang (normalize nfkd lower s) ;;
   pw <- utf8 (join_sp (normalize nfkd lower s)) ;;
   ps <- utf8 (nfkd p) ;;
   Ok (pbkdf2 pw (str_mnemonic ++ ps) 2048 64)).
Proof.
  intros sha256 nfkd lower pbkdf2 langs lang s p [_ H].
  exact (Lemmas.Seeds.bip39_seed_def_bytes sha256 nfkd lower pbkdf2 langs H lang s p).
Qed.
Print Assumptions bip39_seed_def.

Theorem seed_fold_invariant : forall sha256 nfkd lower pbkdf2 langs lang s1 s2 p1 p2, nfkd_laws nfkd ->
  normalize nfkd lower s1 = normalize nfkd lower s2 -> nfkd p1 = nfkd p2 ->
  bip39_seed_str sha256 nfkd lower pbkdf2 langs lang s1 p1 = bip39_seed_str sha256 nfkd lower pbkdf2 langs lang s2 p2.
Proof.
  intros sha256 nfkd lower pbkdf2 langs lang s1 s2 p1 p2 [_ H].
  exact (Lemmas.Seeds.seed_fold_invariant sha256 nfkd lower pbkdf2 langs H lang s1 s2 p1 p2).
Qed.
Print Assumptions seed_fold_invariant.

(* instances of the fold: passphrase vs. its NFKD form; any white-space layout; any spelling whose
   words agree after lower+NFKD (letter case, NFC/NFD/NFKC forms) *)
Theorem seed_passphrase_nfkd : forall sha256 nfkd lower pbkdf2 langs lang s p, nfkd_laws nfkd ->
  bip39_seed_str sha256 nfkd lower pbkdf2 langs lang s (nfkd p) = bip39_seed_str sha256 nfkd lower pbkdf2 langs lang s p.
Proof.
  intros sha256 nfkd lower pbkdf2 langs lang s p [H1 H2].
  exact (Lemmas.Seeds.seed_passphrase_nfkd sha256 nfkd lower pbkdf2 langs H1 H2 lang s p).
Qed.
Print Assumptions seed_passphrase_nfkd.

Theorem seed_whitespace_invariant : forall sha256 nfkd lower pbkdf2 langs lang ws seps lead trail p, nfkd_laws nfkd ->
  Forall plain ws -> Forall (fun sp => sp <> [] /\ all_space sp) seps -> all_space lead -> all_space trail ->
  bip39_seed_str sha256 nfkd lower pbkdf2 langs lang (lead ++ Lemmas.Bip39Norm.join_with seps ws ++ trail) p =
  bip39_seed_str sha256 nfkd lower pbkdf2 langs lang (join_sp ws) p.
Proof.
  intros sha256 nfkd lower pbkdf2 langs lang ws seps lead trail p [_ H].
  exact (Lemmas.Seeds.seed_whitespace_invariant sha256 nfkd lower pbkdf2 langs H lang ws seps lead trail p).
Qed.
Print Assumptions seed_whitespace_invariant.

Theorem split_join_with : forall ws seps lead trail,
  Forall plain ws -> Forall (fun sp => sp <> [] /\ all_space sp) seps -> all_space lead -> all_space trail ->
  split_ws (lead ++ Lemmas.Bip39Norm.join_with seps ws ++ trail) = ws.
Proof. intros ws seps lead trail H. exact (Lemmas.Bip39Norm.split_join_with ws H seps lead trail). Qed.
Print Assumptions split_join_with.

Theorem seed_spelling_invariant : forall sha256 nfkd lower pbkdf2 langs lang s1 s2 p, nfkd_laws nfkd ->
  Forall2 (fun a b => nfkd (lower a) = nfkd (lower b)) (split_ws s1) (split_ws s2) ->
  bip39_seed_str sha256 nfkd lower pbkdf2 langs lang s1 p = bip39_seed_str sha256 nfkd lower pbkdf2 langs lang s2 p.
Proof.
  intros sha256 nfkd lower pbkdf2 langs lang s1 s2 p [_ H].
  exact (Lemmas.Seeds.seed_spelling_invariant sha256 nfkd lower pbkdf2 langs H lang s1 s2 p).
Qed.
Print Assumptions seed_spelling_invariant.

(* over the regenerated lists: the canonical spelling (Mnemonic.ToStr) of an accepted sentence *)
Theorem seed_canonical_spelling : forall sha256 nfkd lower pbkdf2 wl s p e,
  Bip39Props.sha_ok sha256 -> nfkd_laws nfkd -> In wl bip39_langs -> Bip39Props.normal_form nfkd lower wl ->
  decode sha256 bip39_langs (Some wl) (normalize nfkd lower s) = Ok e ->
  bip39_seed_str sha256 nfkd lower pbkdf2 bip39_langs (Some wl) (join_sp (normalize nfkd lower s)) p =
  bip39_seed_str sha256 nfkd lower pbkdf2 bip39_langs (Some wl) s p.
Proof.
  intros sha256 nfkd lower pbkdf2 wl s p e Hs [_ H2] Hwl Hnf.
  exact (Lemmas.SeedsBip39.seed_canonical_spelling sha256 nfkd lower pbkdf2 Hs H2 wl Hwl Hnf s p e).
Qed.
Print Assumptions seed_canonical_spelling.

Theorem invalid_sentence_no_seed : forall sha256 nfkd lower pbkdf2 langs lang s p x,
  decode sha256 langs lang (normalize nfkd lower s) = Err x ->
  bip39_seed_str sha256 nfkd lower pbkdf2 langs lang s p = Err x.
Proof. exact Lemmas.Seeds.invalid_sentence_no_seed. Qed.
Print Assumptions invalid_sentence_no_seed.

(* a 64-byte seed comes out exactly for the accepted sentences (passphrases without lone surrogates) *)
Theorem seed_iff_valid : forall sha256 nfkd lower pbkdf2 wl s p,
  Bip39Props.sha_ok sha256 -> nfkd_laws nfkd -> In wl bip39_langs ->
  (forall a b c d, length (pbkdf2 a b c d) = N.to_nat d) -> Forall Lemmas.Seeds.scalar (nfkd p) ->
  ((exists seed, bip39_seed_str sha256 nfkd lower pbkdf2 bip39_langs (Some wl) s p = Ok seed /\ length seed = 64%nat)
   <-> exists e, decode sha256 bip39_langs (Some wl) (normalize nfkd lower s) = Ok e).
Proof.
  intros sha256 nfkd lower pbkdf2 wl s p Hs [_ H2] Hwl Hl Hp.
  exact (Lemmas.SeedsBip39.seed_iff_valid sha256 nfkd lower pbkdf2 Hs H2 wl Hwl s p Hl Hp).
Qed.
Print Assumptions seed_iff_valid.

(* ---- UTF-8 (modelled concretely) ---- *)
Theorem utf8_ascii_prefix : forall a b, ascii a -> utf8 (a ++ b) = rmap (fun y => a ++ y) (utf8 b).
Proof. exact Lemmas.Seeds.utf8_ascii_prefix. Qed.
Print Assumptions utf8_ascii_prefix.
Theorem utf8_bytes : forall s u, utf8 s = Ok u -> bytes_ok u.
Proof. exact Lemmas.Seeds.utf8_bytes. Qed.
Print Assumptions utf8_bytes.
Theorem utf8_total : forall s, Forall Lemmas.Seeds.scalar s -> exists u, utf8 s = Ok u.
Proof. exact Lemmas.Seeds.utf8_total. Qed.
Print Assumptions utf8_total.

(* ---- Substrate ---- *)
Theorem substrate_seed_def : forall sha256 nfkd lower pbkdf2 langs lang s p, nfkd_laws nfkd ->
  substrate_seed_str sha256 nfkd lower pbkdf2 langs lang s p =
  (ent <- decode sha256 langs lang (normalize nfkd lower s) ;;
   salt <- utf8 (str_mnemonic ++ nfkd p) ;;
   Ok (pbkdf2 ent salt 2048 64)).
Proof.
  intros sha256 nfkd lower pbkdf2 langs lang s p [_ H].
  exact (Lemmas.Seeds.substrate_seed_def sha256 nfkd lower pbkdf2 langs H lang s p).
Qed.
Print Assumptions substrate_seed_def.

Theorem substrate_seed_fold : forall sha256 nfkd lower pbkdf2 langs lang1 lang2 s1 s2 p1 p2 e, nfkd_laws nfkd ->
  decode sha256 langs lang1 (normalize nfkd lower s1) = Ok e ->
  decode sha256 langs lang2 (normalize nfkd lower s2) = Ok e -> nfkd p1 = nfkd p2 ->
  substrate_seed_str sha256 nfkd lower pbkdf2 langs lang1 s1 p1 = substrate_seed_str sha256 nfkd lower pbkdf2 langs lang2 s2 p2.
Proof.
  intros sha256 nfkd lower pbkdf2 langs lang1 lang2 s1 s2 p1 p2 e [_ H].
  exact (Lemmas.Seeds.substrate_seed_fold sha256 nfkd lower pbkdf2 langs H lang1 lang2 s1 s2 p1 p2 e).
Qed.
Print Assumptions substrate_seed_fold.

Theorem substrate_invalid_no_seed : forall sha256 nfkd lower pbkdf2 langs lang s p x,
  decode sha256 langs lang (normalize nfkd lower s) = Err x ->
  substrate_seed_str sha256 nfkd lower pbkdf2 langs lang s p = Err x.
Proof. exact Lemmas.Seeds.substrate_invalid_no_seed. Qed.
Print Assumptions substrate_invalid_no_seed.

(* ---- Electrum v2 ---- *)
Theorem electrum_v2_seed_def : forall nfkd lower pbkdf2 ev2_validate s p, nfkd_laws nfkd ->
  electrum_v2_seed_str nfkd lower pbkdf2 ev2_validate s p =
  (_ <- ev2_validate (normalize nfkd lower s) ;;
   pw <- utf8 (join_sp (normalize nfkd lower s)) ;;
   salt <- utf8 (str_electrum ++ nfkd p) ;;
   Ok (pbkdf2 pw salt 2048 64)).
Proof.
  intros nfkd lower pbkdf2 ev2 s p [_ H]. exact (Lemmas.Seeds.electrum_v2_seed_def nfkd lower pbkdf2 H ev2 s p).
Qed.
Print Assumptions electrum_v2_seed_def.

Theorem electrum_v2_seed_fold : forall nfkd lower pbkdf2 ev2_validate s1 s2 p1 p2, nfkd_laws nfkd ->
  normalize nfkd lower s1 = normalize nfkd lower s2 -> nfkd p1 = nfkd p2 ->
  electrum_v2_seed_str nfkd lower pbkdf2 ev2_validate s1 p1 = electrum_v2_seed_str nfkd lower pbkdf2 ev2_validate s2 p2.
Proof.
  intros nfkd lower pbkdf2 ev2 s1 s2 p1 p2 [_ H]. exact (Lemmas.Seeds.electrum_v2_seed_fold nfkd lower pbkdf2 H ev2 s1 s2 p1 p2).
Qed.
Print Assumptions electrum_v2_seed_fold.

Theorem electrum_v2_invalid_no_seed : forall nfkd lower pbkdf2 ev2_validate s p x,
  ev2_validate (normalize nfkd lower s) = Err x -> electrum_v2_seed_str nfkd lower pbkdf2 ev2_validate s p = Err x.
Proof. exact Lemmas.Seeds.electrum_v2_invalid_no_seed. Qed.
Print Assumptions electrum_v2_invalid_no_seed.

(* ---- Electrum v1 ---- *)
Theorem electrum_v1_seed_def : forall sha256 nfkd lower ev1_decode s,
  electrum_v1_seed_str sha256 nfkd lower ev1_decode s =
  (ent <- ev1_decode (normalize nfkd lower s) ;;
   Ok (N.iter 100000 (fun h => sha256 (h ++ hexlify ent)) (hexlify ent))).
Proof. exact Lemmas.Seeds.electrum_v1_seed_def. Qed.
Print Assumptions electrum_v1_seed_def.

Theorem electrum_v1_recurrence : forall sha256 hex n,
  ev1_stretch sha256 hex 0 = hex /\
  ev1_stretch sha256 hex (N.succ n) = sha256 (ev1_stretch sha256 hex n ++ hex).
Proof. intros sha256 hex n. exact (conj (Lemmas.Seeds.ev1_stretch_0 sha256 hex) (Lemmas.Seeds.ev1_stretch_succ sha256 hex n)). Qed.
Print Assumptions electrum_v1_recurrence.

Theorem electrum_v1_seed_fold : forall sha256 nfkd lower ev1_decode s1 s2,
  normalize nfkd lower s1 = normalize nfkd lower s2 ->
  electrum_v1_seed_str sha256 nfkd lower ev1_decode s1 = electrum_v1_seed_str sha256 nfkd lower ev1_decode s2.
Proof. exact Lemmas.Seeds.electrum_v1_seed_fold. Qed.
Print Assumptions electrum_v1_seed_fold.

Theorem electrum_v1_invalid_no_seed : forall sha256 nfkd lower ev1_decode s x,
  ev1_decode (normalize nfkd lower s) = Err x -> electrum_v1_seed_str sha256 nfkd lower ev1_decode s = Err x.
Proof. exact Lemmas.Seeds.electrum_v1_invalid_no_seed. Qed.
Print Assumptions electrum_v1_invalid_no_seed.

Theorem electrum_v1_seed_len : forall sha256 nfkd lower ev1_decode s seed, (forall x, length (sha256 x) = 32%nat) ->
  electrum_v1_seed_str sha256 nfkd lower ev1_decode s = Ok seed -> length seed = 32%nat.
Proof. exact Lemmas.Seeds.electrum_v1_seed_len. Qed.
Print Assumptions electrum_v1_seed_len.

(* what the extracted model runs (one oracle call for the loop) is the definition, provided the
   oracle is the loop -- compared by the harness on small iteration counts *)
Theorem electrum_v1_seed_oracle : forall sha256 nfkd lower ev1_decode sha256_iter s,
  (forall hex n, sha256_iter hex n = ev1_stretch sha256 hex n) ->
  electrum_v1_seed_o_str nfkd lower ev1_decode sha256_iter s = electrum_v1_seed_str sha256 nfkd lower ev1_decode s.
Proof.
  intros sha256 nfkd lower ev1 it s H. exact (Lemmas.Seeds.electrum_v1_seed_oracle sha256 nfkd lower ev1 it H s).
Qed.
Print Assumptions electrum_v1_seed_oracle.

(* ---- the hypotheses are satisfiable; the statements are not vacuous ---- *)
Example nfkd_laws_satisfiable : nfkd_laws (fun s => s).
Proof. exact Lemmas.Seeds.nfkd_laws_id. Qed.
Print Assumptions nfkd_laws_satisfiable.

(* "  Ab\tc　 " splits into the two words "Ab", "c" *)
Example split_example : split_ws [32; 32; 65; 98; 9; 99; 12288; 32] = [[65; 98]; [99]].
Proof. exact Lemmas.Seeds.split_example. Qed.
Print Assumptions split_example.

(* U+00E9, U+20AC, U+1F600 encode to c3a9, e282ac, f09f9880; a lone surrogate is refused *)
Example utf8_example :
  utf8 [233; 8364; 128512] = Ok [195; 169; 226; 130; 172; 240; 159; 152; 128] /\
  utf8 [97; 55296] = Err UnicodeError.
Proof. exact Lemmas.Seeds.utf8_example. Qed.
Print Assumptions utf8_example.

(* ===== linked to the concrete codec models ===== *)
(* The Electrum-v1 seed generator above takes the mnemonic decoder as a parameter ("another property models those
   codecs").  Here it is THE decoder of C17 (Model/ElectrumV1Mnemonic.v over the regenerated 1626-word list, in its
   property-conformant and its current form), and the C17 decode-after-encode / acceptance / error theorems are
   composed with the seed definition.  SHA-256 is the only oracle left.  Likewise the UTF-8 encoder of this property
   is the same function as the one proved against RFC 3629 under C19 (Props/C19.v [utf8_models_agree]). *)
From BU Require Import Model.ChunkMnemonic Model.ElectrumV1Mnemonic.
From BU Require Model.SubstrateScale.
From BU Require Lemmas.MnemC17 Lemmas.LinkSeeds Lemmas.LinkUtf8.

Notation ev1_seed_c := Lemmas.LinkSeeds.ev1_seed_c.
Notation ev1_decoder := Lemmas.LinkSeeds.ev1_decoder.

(* entropy -> Electrum v1 mnemonic -> seed: the seed is the 100000-fold stretched hex of the entropy *)
Theorem electrum_v1_seed_of_entropy : forall sha256 conformant b, bytes_ok b -> length b = 16%nat ->
  exists ws, Lemmas.MnemC17.ev1_encode b = Ok ws /\ length ws = 12%nat /\
    ev1_seed_c sha256 conformant ws = Ok (ev1_stretch sha256 (hexlify b) ev1_hash_itr_num).
Proof. exact Lemmas.LinkSeeds.ev1_seed_of_entropy. Qed.
Print Assumptions electrum_v1_seed_of_entropy.

Theorem electrum_v1_seed_iff_accepted : forall sha256 conformant ws, (forall x, length (sha256 x) = 32%nat) ->
  ((exists seed, ev1_seed_c sha256 conformant ws = Ok seed) <-> (exists b, ev1_decoder conformant ws = Ok b)) /\
  (forall seed, ev1_seed_c sha256 conformant ws = Ok seed -> length seed = 32%nat).
Proof. exact Lemmas.LinkSeeds.ev1_seed_ok_iff. Qed.
Print Assumptions electrum_v1_seed_iff_accepted.

Theorem electrum_v1_seed_errors_linked : forall sha256 conformant ws e,
  ev1_seed_c sha256 conformant ws = Err e -> e = ValueError.
Proof. exact Lemmas.LinkSeeds.ev1_seed_errors. Qed.
Print Assumptions electrum_v1_seed_errors_linked.

(* this property's UTF-8 encoder is the RFC 3629 encoder of C19, hence injective on Python strings *)
Theorem utf8_is_rfc3629_encoder : forall s, Forall (fun c => c < 1114112) s -> utf8 s = SubstrateScale.utf8_encode s.
Proof. exact Lemmas.LinkUtf8.seeds_utf8_eq. Qed.
Print Assumptions utf8_is_rfc3629_encoder.

Theorem utf8_injective_linked : forall s1 s2 b, Forall (fun c => c < 1114112) s1 -> Forall (fun c => c < 1114112) s2 ->
  utf8 s1 = Ok b -> utf8 s2 = Ok b -> s1 = s2.
Proof. exact Lemmas.LinkUtf8.seeds_utf8_inj. Qed.
Print Assumptions utf8_injective_linked.

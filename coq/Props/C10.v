(* C10 -- Decoders accept exactly what the format allows; damage is never mis-decoded.
   Bech32 / Bech32m / SegWit / CashAddr, Base58Check and WIF part.
   Statements only; every proof is [exact <lemma>] (plus trivial case splits) with Print Assumptions beneath.

   Conventions: strings are lists of code points; [py_lower], [is_string_mixed] are Python's str.lower() and
   AlgoUtils.IsStringMixed over the case tables regenerated from the running interpreter (Gen/CaseTables.v);
   [bsym d] is CHARSET[d]; all numeric constants are the ones regenerated from the source
   (Gen/Bech32Consts.v), so a source edit re-states and re-proves everything below. *)
From Coq Require Import NArith List.
From BU Require Import Base.Exn Base.Bytes Gen.Consts Gen.Bech32Consts
  Model.Base58 Model.Bech32Bits Model.Bech32Str Model.Bech32 Model.Wif.
From BU Require Lemmas.Base58 Lemmas.ConstsOk Lemmas.Bech32Bits Lemmas.Bech32Str Lemmas.Bech32Code
  Lemmas.Bech32 Lemmas.Wif Lemmas.Bech32Detect Lemmas.Bech32CertB32 Lemmas.Bech32CertX Lemmas.Bech32Cert Lemmas.Bech32CertCash
  Lemmas.Bech32CashDetect.
Import ListNotations.
Open Scope N_scope.

Notation bsym := (Lemmas.Bech32.sym bech32_charset).
Notation hrp_ok := Lemmas.Bech32.hrp_ok33.          (* non-empty, every code point in 33..126 *)
Notation hrp_enc_ok := Lemmas.Bech32.hrp_enc_ok.    (* ... and no upper-case ASCII letter *)
Notation small32 := Lemmas.Bech32Code.small32.      (* every symbol < 32 *)
Notation segwit_const := Lemmas.Bech32.segwit_const. (* version 0 -> Bech32 constant, else Bech32m *)
Notation segwit_prog_ok := Lemmas.Bech32.segwit_prog_ok.
Notation kelvin_sign := Lemmas.Bech32Str.kelvin_sign.
(* [dec_ascii_rule s]: bech32_dec_ascii_only = true -> every code point of s is below 128.  The generated
   constant bech32_dec_ascii_only says whether _DecodeBech32 has an isascii() guard (false on the pinned
   tree: finding F16); bech32_decoder_min_data is the minimum number of data symbols besides the checksum that
   Bech32Decoder asks for (1 on the pinned tree: finding F11; 0 once empty payloads are accepted).  The
   statements below are about whichever values the source currently yields. *)
Notation dec_ascii_rule := Lemmas.Bech32.dec_ascii_rule.

(* ================================================================== 8 <-> 5 bit regrouping *)
Theorem base32_roundtrip : forall d syms, bytes_ok d ->
  to_base32 8 5 d = Ok syms -> from_base32 5 8 syms = Ok d.
Proof. exact Lemmas.Bech32Bits.from_to_base32. Qed.
Print Assumptions base32_roundtrip.

(* the strict 5->8 conversion accepts only the canonical (zero-padded) symbol string of its output *)
Theorem base32_canonical : forall syms d, from_base32 5 8 syms = Ok d ->
  bytes_ok d /\ Forall (fun x => x < 32) syms /\ to_base32 8 5 d = Ok syms.
Proof. exact Lemmas.Bech32Bits.to_from_base32. Qed.
Print Assumptions base32_canonical.

Theorem base32_errors : forall l e,
  (to_base32 8 5 l = Err e -> e = ValueError) /\ (from_base32 5 8 l = Err e -> e = ValueError).
Proof. intros l e. split; [exact (Lemmas.Bech32Bits.to_base32_err l e)|exact (Lemmas.Bech32Bits.from_base32_err l e)]. Qed.
Print Assumptions base32_errors.

(* ================================================================== Bech32 *)
(* acceptance: exactly the strings that are not mixed-case and whose lower-casing is HRP + separator +
   at least cklen + min_data charset symbols that verify (constant 1) and whose data symbols regroup strictly *)
Theorem bech32_accepts_iff : forall hrp s payload,
  bech32_decode hrp s = Ok payload <->
  dec_ascii_rule s /\ is_string_mixed s = false /\ hrp_ok hrp /\
  exists syms, py_lower s = hrp ++ bech32_sep :: map bsym syms /\ small32 syms /\
    (bech32_cklen + bech32_decoder_min_data <= length syms)%nat /\ b32_verify_checksum bech32_const hrp syms = true /\
    from_base32 5 8 (drop_last bech32_cklen syms) = Ok payload.
Proof. exact Lemmas.Bech32.bech32_decode_ok_iff. Qed.
Print Assumptions bech32_accepts_iff.

Theorem bech32_errors : forall hrp s e,
  bech32_decode hrp s = Err e -> e = ValueError \/ e = LibError Bech32ChecksumError.
Proof. exact Lemmas.Bech32.bech32_decode_err. Qed.
Print Assumptions bech32_errors.

(* canonicity up to the case rule: an accepted string lower-cases to the encoder's output for its payload *)
Theorem bech32_dec_then_enc : forall hrp s payload,
  bech32_decode hrp s = Ok payload -> bech32_encode hrp payload = Ok (py_lower s).
Proof. exact Lemmas.Bech32.bech32_dec_then_enc. Qed.
Print Assumptions bech32_dec_then_enc.

(* Full-strength round trip:
     forall hrp data, hrp_enc_ok hrp -> bytes_ok data ->
       exists s, bech32_encode hrp data = Ok s /\ bech32_decode hrp s = Ok data.
   As long as the decoder demands cklen + 1 data-part characters (bech32_decoder_min_data = 1, the pinned
   tree) it is FALSE (finding F11): the valid encoding of the empty payload -- the BIP-173 test vector
   "a12uel5l" -- is rejected.  (With the repair, bech32_decoder_min_data = 0, the premise is false and
   bech32_dec_enc_partial below is the full-strength statement.) *)
Theorem bech32_dec_enc_refuted : bech32_decoder_min_data = 1%nat ->
  exists hrp data s, hrp_enc_ok hrp /\ bytes_ok data /\
    bech32_encode hrp data = Ok s /\ bech32_decode hrp s = Err ValueError.
Proof.
  intro H. first [ discriminate H |
    exists [97], [], [97; 49; 50; 117; 101; 108; 53; 108]; split; [|split; [constructor|split]];
    [ split; [discriminate|]; constructor; [|constructor]; vm_compute; intuition discriminate
    | vm_compute; reflexivity | vm_compute; reflexivity ] ].
Qed.
Print Assumptions bech32_dec_enc_refuted.

Theorem bech32_dec_enc_partial : forall hrp data, hrp_enc_ok hrp -> bytes_ok data ->
  data <> [] \/ bech32_decoder_min_data = 0%nat ->
  exists s, bech32_encode hrp data = Ok s /\ bech32_decode hrp s = Ok data.
Proof. exact Lemmas.Bech32.bech32_dec_enc. Qed.
Print Assumptions bech32_dec_enc_partial.

Example bech32_dec_enc_example : exists hrp data, hrp_enc_ok hrp /\ bytes_ok data /\ (data <> [] \/ bech32_decoder_min_data = 0%nat) /\
  bech32_encode hrp data = Ok [98; 99; 49; 112; 99; 113; 113; 102; 101; 122; 120; 107; 101].   (* "bc1pcqqfezxke" *)
Proof.
  exists [98; 99], [14; 0]. split; [|split; [|split; [left; discriminate|vm_compute; reflexivity]]].
  - split; [discriminate|]. repeat constructor; vm_compute; intuition discriminate.
  - repeat constructor.
Qed.
Print Assumptions bech32_dec_enc_example.

(* Full-strength statement "accepted strings are ASCII":
     forall hrp s p, bech32_decode hrp s = Ok p -> Forall (fun c => c < 128) s.
   Without an isascii() guard (bech32_dec_ascii_only = false, the pinned tree) it is FALSE (finding F16):
   "BC1PCQQFEZX" + U+212A + "E" decodes like "BC1PCQQFEZXKE". *)
Theorem bech32_accepts_only_ascii_refuted : bech32_dec_ascii_only = false ->
  exists hrp s p, bech32_decode hrp s = Ok p /\ Exists (fun c => 128 <= c) s.
Proof.
  intro H. first [ discriminate H |
    exists [98; 99], [66; 67; 49; 80; 67; 81; 81; 70; 69; 90; 88; 8490; 69], [14; 0]; split;
    [ vm_compute; reflexivity | do 11 apply Exists_cons_tl; apply Exists_cons_hd; vm_compute; discriminate ] ].
Qed.
Print Assumptions bech32_accepts_only_ascii_refuted.

(* ... and with the guard it holds, for all three decoders *)
Theorem bech32_accepts_only_ascii_guarded : forall hrp s, bech32_dec_ascii_only = true ->
  ((exists p, bech32_decode hrp s = Ok p) \/ (exists p, segwit_decode hrp s = Ok p) \/
   (exists p, cash_decode hrp s = Ok p)) -> Forall (fun c => c < 128) s.
Proof. exact Lemmas.Bech32.accepted_ascii_guard. Qed.
Print Assumptions bech32_accepts_only_ascii_guarded.

(* what does hold, decided over the whole code space of the interpreter's lower() table: the only
   non-ASCII code point an accepted Bech32-family string can contain is U+212A KELVIN SIGN *)
Theorem bech32_accepts_only_ascii_partial : forall hrp s,
  ((exists p, bech32_decode hrp s = Ok p) \/ (exists p, segwit_decode hrp s = Ok p) \/
   (exists p, cash_decode hrp s = Ok p)) -> Forall (fun c => c < 128 \/ c = kelvin_sign) s.
Proof.
  intros hrp s [[p H]|[[p H]|[p H]]].
  - exact (Lemmas.Bech32.bech32_accepted_chars hrp s p H).
  - exact (Lemmas.Bech32.segwit_accepted_chars hrp s p H).
  - exact (Lemmas.Bech32.cash_accepted_chars hrp s p H).
Qed.
Print Assumptions bech32_accepts_only_ascii_partial.

(* wrong expected HRP: one string is never accepted under two different HRPs *)
Theorem hrp_mismatch_rejected : forall h1 h2 s,
  (forall p1 p2, bech32_decode h1 s = Ok p1 -> bech32_decode h2 s = Ok p2 -> h1 = h2) /\
  (forall p1 p2, segwit_decode h1 s = Ok p1 -> segwit_decode h2 s = Ok p2 -> h1 = h2) /\
  (forall p1 p2, cash_decode h1 s = Ok p1 -> cash_decode h2 s = Ok p2 -> h1 = h2).
Proof.
  intros h1 h2 s. split; [|split]; intros p1 p2.
  - exact (Lemmas.Bech32.bech32_hrp_unique h1 h2 s p1 p2).
  - exact (Lemmas.Bech32.segwit_hrp_unique h1 h2 s p1 p2).
  - exact (Lemmas.Bech32.cash_hrp_unique h1 h2 s p1 p2).
Qed.
Print Assumptions hrp_mismatch_rejected.

(* the checksum of a data part is unique (Bech32 and Bech32m): the 6 symbols are a function of HRP and data *)
Theorem bech32_checksum_unique : forall K hrp data cs, In K [bech32_const; bech32m_const] ->
  hrp_ok hrp -> small32 data -> length cs = bech32_cklen -> small32 cs ->
  b32_verify_checksum K hrp (data ++ cs) = true -> cs = b32_compute_checksum K hrp data.
Proof.
  intros K hrp data cs [<-|[<-|[]]] Hh.
  - exact (Lemmas.Bech32Code.b32_checksum_unique _ Lemmas.Bech32Code.bech32_const_small hrp data cs (Lemmas.Bech32.hrp_ok33_chars hrp Hh)).
  - exact (Lemmas.Bech32Code.b32_checksum_unique _ Lemmas.Bech32Code.bech32m_const_small hrp data cs (Lemmas.Bech32.hrp_ok33_chars hrp Hh)).
Qed.
Print Assumptions bech32_checksum_unique.

Theorem bech32_verify_compute : forall K hrp data, In K [bech32_const; bech32m_const] ->
  hrp_ok hrp -> small32 data -> b32_verify_checksum K hrp (data ++ b32_compute_checksum K hrp data) = true.
Proof.
  intros K hrp data [<-|[<-|[]]] Hh.
  - exact (Lemmas.Bech32Code.b32_verify_compute _ Lemmas.Bech32Code.bech32_const_small hrp data (Lemmas.Bech32.hrp_ok33_chars hrp Hh)).
  - exact (Lemmas.Bech32Code.b32_verify_compute _ Lemmas.Bech32Code.bech32m_const_small hrp data (Lemmas.Bech32.hrp_ok33_chars hrp Hh)).
Qed.
Print Assumptions bech32_verify_compute.

(* ================================================================== SegWit *)
(* acceptance: string layer as above with the checksum constant selected by the version symbol (Bech32 for
   0, Bech32m otherwise), strict regrouping of the program, and the witness rules
   2 <= |prog| <= 40, version <= 16, version 0 -> |prog| in {20, 32} *)
Theorem segwit_accepts_iff : forall hrp s v prog,
  segwit_decode hrp s = Ok (v, prog) <->
  dec_ascii_rule s /\ is_string_mixed s = false /\ hrp_ok hrp /\
  exists rest, py_lower s = hrp ++ segwit_sep :: map bsym (v :: rest) /\ small32 (v :: rest) /\
    (segwit_cklen <= length rest)%nat /\ b32_verify_checksum (segwit_const v) hrp (v :: rest) = true /\
    from_base32 5 8 (drop_last segwit_cklen rest) = Ok prog /\ segwit_prog_ok v prog.
Proof. exact Lemmas.Bech32.segwit_decode_ok_iff. Qed.
Print Assumptions segwit_accepts_iff.

Theorem segwit_errors : forall hrp s e,
  segwit_decode hrp s = Err e -> e = ValueError \/ e = LibError Bech32ChecksumError.
Proof. exact Lemmas.Bech32.segwit_decode_err. Qed.
Print Assumptions segwit_errors.

Theorem segwit_dec_then_enc : forall hrp s v prog,
  segwit_decode hrp s = Ok (v, prog) -> segwit_encode hrp v prog = Ok (py_lower s).
Proof. exact Lemmas.Bech32.segwit_dec_then_enc. Qed.
Print Assumptions segwit_dec_then_enc.

Theorem segwit_dec_enc : forall hrp v prog, hrp_enc_ok hrp -> bytes_ok prog -> segwit_prog_ok v prog ->
  exists s, segwit_encode hrp v prog = Ok s /\ segwit_decode hrp s = Ok (v, prog).
Proof. exact Lemmas.Bech32.segwit_dec_enc. Qed.
Print Assumptions segwit_dec_enc.

Example segwit_dec_enc_example : exists hrp v prog, hrp_enc_ok hrp /\ bytes_ok prog /\ segwit_prog_ok v prog /\
  segwit_decode hrp [98; 99; 49; 115; 119; 53; 48; 113; 103; 100; 122; 50; 53; 106] = Ok (v, prog).   (* "bc1sw50qgdz25j" *)
Proof.
  exists [98; 99], 16, [117; 30]. split; [|split; [|split]].
  - split; [discriminate|]. repeat constructor; vm_compute; intuition discriminate.
  - repeat constructor.
  - split; [split; apply PeanoNat.Nat.leb_le; reflexivity|split; [apply N.leb_le; reflexivity|discriminate]].
  - vm_compute. reflexivity.
Qed.
Print Assumptions segwit_dec_enc_example.

(* ================================================================== CashAddr *)
Theorem cashaddr_accepts_iff : forall hrp s nv data,
  cash_decode hrp s = Ok (nv, data) <->
  dec_ascii_rule s /\ is_string_mixed s = false /\ hrp_ok hrp /\
  exists syms b, py_lower s = hrp ++ cash_sep :: map bsym syms /\ small32 syms /\
    (cash_cklen + 1 <= length syms)%nat /\ cash_verify_checksum hrp syms = true /\
    from_base32 5 8 (drop_last cash_cklen syms) = Ok (b :: data) /\ nv = [b].
Proof. exact Lemmas.Bech32.cash_decode_ok_iff. Qed.
Print Assumptions cashaddr_accepts_iff.

Theorem cashaddr_errors : forall hrp s e,
  cash_decode hrp s = Err e -> e = ValueError \/ e = LibError Bech32ChecksumError.
Proof. exact Lemmas.Bech32.cash_decode_err. Qed.
Print Assumptions cashaddr_errors.

Theorem cashaddr_dec_then_enc : forall hrp s nv data,
  cash_decode hrp s = Ok (nv, data) -> cash_encode hrp nv data = Ok (py_lower s).
Proof. exact Lemmas.Bech32.cash_dec_then_enc. Qed.
Print Assumptions cashaddr_dec_then_enc.

Theorem cashaddr_dec_enc : forall hrp b data, hrp_enc_ok hrp -> b < 256 -> bytes_ok data ->
  exists s, cash_encode hrp [b] data = Ok s /\ cash_decode hrp s = Ok ([b], data).
Proof. exact Lemmas.Bech32.cash_dec_enc. Qed.
Print Assumptions cashaddr_dec_enc.

Theorem cashaddr_checksum_unique : forall hrp data cs, small32 data -> length cs = cash_cklen -> small32 cs ->
  cash_verify_checksum hrp (data ++ cs) = true -> cs = cash_compute_checksum hrp data.
Proof. exact Lemmas.Bech32Code.cash_checksum_unique. Qed.
Print Assumptions cashaddr_checksum_unique.

(* ================================================================== error detection (BCH distance) *)
(* [hamming a b]: number of positions where two lists differ.
   [data_corrupted sep n s1 s2]: after lower-casing (as the decoders do) s1 = h ++ sep :: t1 and
   s2 = h ++ sep :: t2 with sep not in t1 (so h is s1's HRP), |t1| = |t2| <= n and 1 <= hamming t1 t2 <= 4:
   s2 is s1 with one to four data-part characters replaced by anything.
   The proofs rest on distance certificates evaluated by the kernel on the generator words regenerated
   from the PolyMod bodies: Lemmas/Bech32CertB32.v (window 89) and Lemmas/Bech32CertCash.v (window 160);
   soundness of the certificate (linearity, anchoring, symbol-scaling symmetry) is Lemmas/Bech32Detect.v. *)
Notation hamming := Lemmas.Bech32Detect.hamming.
Notation data_corrupted := Lemmas.Bech32Cert.data_corrupted.        (* 1..4 characters *)
Notation data_corrupted_n := Lemmas.Bech32Cert.data_corrupted_n.    (* 1..k characters *)
Notation b32_window := Lemmas.Bech32CertB32.b32_window.       (* 89 *)
Notation cash_window := Lemmas.Bech32CertCash.cash_window.    (* 160 *)

(* checksum level, Bech32 and Bech32m alike (any constant): within 89 symbols, 1..4 wrong symbols never verify *)
Theorem bech32_checksum_detects_4 : forall K hrp d1 d2, length d1 = length d2 -> (length d1 <= b32_window)%nat ->
  small32 d1 -> small32 d2 -> (1 <= hamming d1 d2 <= 4)%nat ->
  b32_verify_checksum K hrp d1 = true -> b32_verify_checksum K hrp d2 = false.
Proof. exact Lemmas.Bech32Cert.b32_verify_detects. Qed.
Print Assumptions bech32_checksum_detects_4.

(* decoder level: for every HRP and every accepted string with a data part of at most 89 characters, every
   corruption of 1..4 data-part characters is rejected *)
Theorem bech32_detects_4 : forall hrp s1 s2 p1, bech32_decode hrp s1 = Ok p1 ->
  data_corrupted bech32_sep b32_window s1 s2 ->
  exists e, bech32_decode hrp s2 = Err e /\ (e = ValueError \/ e = LibError Bech32ChecksumError).
Proof. exact Lemmas.Bech32Cert.bech32_detects_4_err. Qed.
Print Assumptions bech32_detects_4.

Example bech32_detects_4_example : exists p1,
  bech32_decode [98; 99] [98; 99; 49; 112; 99; 113; 113; 102; 101; 122; 120; 107; 101] = Ok p1 /\
  data_corrupted bech32_sep b32_window [98; 99; 49; 112; 99; 113; 113; 102; 101; 122; 120; 107; 101]
                                        [98; 99; 49; 112; 99; 113; 113; 102; 101; 122; 120; 107; 113].
Proof. exact Lemmas.Bech32Cert.detects_example. Qed.
Print Assumptions bech32_detects_4_example.

(* the window is tight: two valid 90-symbol data parts can differ in only four symbols (the library does
   not enforce BIP-173's 90-character limit, so the length bound has to be in the theorem) *)
Theorem bech32_window_tight : exists e, length e = 90%nat /\ Lemmas.Bech32Detect.weight e = 4%nat /\ small32 e /\
  pm_from Lemmas.Bech32ConstsOk.b32_gens bech32_pm_shift (N.ones bech32_pm_shift) bech32_pm_symbits 0 e = 0.
Proof. exists Lemmas.Bech32Cert.light90. exact Lemmas.Bech32Cert.b32_window_tight. Qed.
Print Assumptions bech32_window_tight.

(* SegWit.  Full-strength statement
     forall hrp s1 s2 v1 p1 n, segwit_decode hrp s1 = Ok (v1, p1) -> data_corrupted segwit_sep n s1 s2 ->
       exists e, segwit_decode hrp s2 = Err e
   is FALSE, of the format itself (BIP-350), not only of this code: Bech32 and Bech32m are two cosets of one
   BCH code, and four substitutions that include the version symbol can move a valid version-0 address to a
   valid Bech32m address.  Witness: bc1qqqqsyqcyq5rqwzqfpg9scrgwpugpzysn4v0345 (P2WPKH) and
   bc1pqqqseqcyq3rqwzqfpg9scrgwpugpzy2n4v0345 (version 1, another program). *)
Theorem segwit_detects_4_refuted : exists hrp s1 s2 p1 p2,
  segwit_decode hrp s1 = Ok (0, p1) /\ segwit_decode hrp s2 = Ok (1, p2) /\ p1 <> p2 /\
  data_corrupted segwit_sep b32_window s1 s2.
Proof.
  destruct Lemmas.Bech32Cert.segwit_cross_witness as (p1 & p2 & H).
  exists [98; 99], Lemmas.Bech32Cert.cross_s1, Lemmas.Bech32Cert.cross_s2, p1, p2. exact H.
Qed.
Print Assumptions segwit_detects_4_refuted.

(* what holds, without any length hypothesis (the witness-program rule bounds the data part by 72 symbols):
   a corruption of 1..4 data-part characters is rejected unless it switches the version symbol between zero
   and non-zero, i.e. between the Bech32 and Bech32m constants *)
Theorem segwit_detects_4_partial : forall hrp s1 s2 v1 p1 n, segwit_decode hrp s1 = Ok (v1, p1) ->
  data_corrupted segwit_sep n s1 s2 ->
  (exists e, segwit_decode hrp s2 = Err e /\ (e = ValueError \/ e = LibError Bech32ChecksumError)) \/
  (exists v2 p2, segwit_decode hrp s2 = Ok (v2, p2) /\ (v1 =? 0) <> (v2 =? 0)).
Proof. exact Lemmas.Bech32Cert.segwit_detects_4_err. Qed.
Print Assumptions segwit_detects_4_partial.

(* and up to THREE substitutions are always detected, also across the two constants: a switch changes the
   version symbol, the version-0 side has 38 or 58 symbols after it, and two further certificates
   (Lemmas/Bech32CertX.v) show that for these lengths a changed first symbol plus at most two other changed
   symbols never shifts the final state by (Bech32 constant) xor (Bech32m constant) *)
Theorem segwit_detects_3 : forall hrp s1 s2 v1 p1 n, segwit_decode hrp s1 = Ok (v1, p1) ->
  data_corrupted_n 3 segwit_sep n s1 s2 ->
  exists e, segwit_decode hrp s2 = Err e /\ (e = ValueError \/ e = LibError Bech32ChecksumError).
Proof. exact Lemmas.Bech32Cert.segwit_detects_3_err. Qed.
Print Assumptions segwit_detects_3.

Example segwit_detects_3_example : exists p1 s2 n,
  segwit_decode [98; 99] Lemmas.Bech32Cert.cross_s1 = Ok (0, p1) /\
  data_corrupted_n 3 segwit_sep n Lemmas.Bech32Cert.cross_s1 s2.
Proof. exact Lemmas.Bech32Cert.segwit_detects_example. Qed.
Print Assumptions segwit_detects_3_example.

(* CashAddr: data parts of at most 160 characters *)
Theorem cashaddr_checksum_detects_4 : forall hrp d1 d2, length d1 = length d2 -> (length d1 <= cash_window)%nat ->
  small32 d1 -> small32 d2 -> (1 <= hamming d1 d2 <= 4)%nat ->
  cash_verify_checksum hrp d1 = true -> cash_verify_checksum hrp d2 = false.
Proof. exact Lemmas.Bech32CashDetect.cash_verify_detects. Qed.
Print Assumptions cashaddr_checksum_detects_4.

Theorem cashaddr_detects_4 : forall hrp s1 s2 p1, cash_decode hrp s1 = Ok p1 ->
  data_corrupted cash_sep cash_window s1 s2 ->
  exists e, cash_decode hrp s2 = Err e /\ (e = ValueError \/ e = LibError Bech32ChecksumError).
Proof. exact Lemmas.Bech32CashDetect.cash_detects_4_err. Qed.
Print Assumptions cashaddr_detects_4.

(* ================================================================== Base58Check *)
Definition b58_alphabets : list (list N) := [b58_alph_btc; b58_alph_xrp].

(* accepted iff the Base58 decoding ends in the checksum of the rest; no detection guarantee is claimed:
   a damaged string is accepted only if it independently satisfies the checksum *)
Theorem b58check_accepts_iff : forall alph (sha256 : list N -> list N) s d,
  Base58.check_decode alph b58_radix b58_cklen sha256 s = Ok d <->
  exists dec, Base58.decode alph b58_radix s = Ok dec /\ d = drop_last b58_cklen dec /\
              take_last b58_cklen dec = Base58.checksum b58_cklen sha256 d.
Proof. intros alph sha s d. exact (Lemmas.Base58.check_decode_ok_iff alph b58_radix b58_cklen sha s d). Qed.
Print Assumptions b58check_accepts_iff.

Theorem b58check_errors : forall alph (sha256 : list N -> list N) s e,
  Base58.check_decode alph b58_radix b58_cklen sha256 s = Err e ->
  e = ValueError \/ e = LibError Base58ChecksumError.
Proof. intros alph sha s e. exact (Lemmas.Base58.check_decode_err alph b58_radix b58_cklen sha s e). Qed.
Print Assumptions b58check_errors.

(* ================================================================== WIF *)
Section WifStatements.
  Variable sha256 : list N -> list N.
  Variable valid_key : list N -> bool.
  Hypothesis sha_len : forall x, length (sha256 x) = 32%nat.
  Hypothesis sha_ok : forall x, bytes_ok (sha256 x).
  Hypothesis valid_len : forall k, valid_key k = true -> length k = 32%nat.

  Notation wif_encode := (Wif.wif_encode b58_alph_btc b58_radix b58_cklen sha256 valid_key wif_compr_suffix).
  Notation wif_decode := (Wif.wif_decode b58_alph_btc b58_radix b58_cklen sha256 valid_key wif_compr_suffix).
  Notation check_decode := (Base58.check_decode b58_alph_btc b58_radix b58_cklen sha256).

  (* accepted iff net_ver is one byte, the Base58Check payload is that byte, a valid key, and the
     compressed-key suffix exactly when the mode is COMPRESSED (true) *)
  Theorem wif_accepts_iff : forall s nvb k c,
    wif_decode s nvb = Ok (k, c) <->
    exists nv, nvb = [nv] /\ valid_key k = true /\
               check_decode s = Ok (nv :: k ++ (if c then [wif_compr_suffix] else [])).
  Proof. exact (Lemmas.Wif.wif_accepts_iff b58_alph_btc b58_radix b58_cklen sha256 valid_key wif_compr_suffix valid_len). Qed.

  Theorem wif_roundtrip : forall k nv c, bytes_ok k -> nv < 256 -> valid_key k = true ->
    exists s, wif_encode k [nv] c = Ok s /\ wif_decode s [nv] = Ok (k, c).
  Proof.
    exact (Lemmas.Wif.wif_roundtrip b58_alph_btc b58_radix b58_cklen sha256 valid_key wif_compr_suffix valid_len
             ConstsOk.b58_alph_btc_nodup ConstsOk.b58_alph_btc_len ConstsOk.b58_radix_ge2 sha_len sha_ok
             ConstsOk.b58_cklen_le (eq_refl : (wif_compr_suffix ?= 256) = Lt)).
  Qed.

  Theorem wif_errors : forall s nvb e, wif_decode s nvb = Err e ->
    e = ValueError \/ e = LibError Base58ChecksumError.
  Proof. exact (Lemmas.Wif.wif_decode_err b58_alph_btc b58_radix b58_cklen sha256 valid_key wif_compr_suffix valid_len). Qed.
End WifStatements.
Print Assumptions wif_accepts_iff.
Print Assumptions wif_roundtrip.
Print Assumptions wif_errors.

(* ================================================================== SS58 and Monero block-Base58
   The two remaining checksummed / block text decoders of the property (models and proofs: Lemmas/SS58*.v,
   Lemmas/Base58Xmr.v, XmrConstsOk.v, developed under C11): a string is accepted exactly when it is the
   encoder's output for the returned value, so nothing non-canonical or damaged is decoded to a payload. *)
From BU Require Model.Codecs.
From BU Require Lemmas.SS58Ok Lemmas.XmrConstsOk.

Theorem ss58_accepts_iff : forall (blake2b512 : list N -> list N) s f data,
  (forall x, length (blake2b512 x) = 64%nat) -> (forall x, bytes_ok (blake2b512 x)) ->
  (Codecs.ss58_decode blake2b512 s = Ok (f, data) <->
   (Codecs.ss58_encode blake2b512 data (BinInt.Z.of_N f) = Ok s /\ bytes_ok data)).
Proof. intros blake s f data H1 H2. apply SS58Ok.ss58_accepts_iff; assumption. Qed.
Print Assumptions ss58_accepts_iff.

Theorem ss58_errors : forall (blake2b512 : list N -> list N) s e,
  Codecs.ss58_decode blake2b512 s = Err e -> e = ValueError \/ e = LibError SS58ChecksumError.
Proof. exact SS58Ok.ss58_decode_err. Qed.
Print Assumptions ss58_errors.

Theorem xmr_b58_accepts_iff : forall s,
  (exists b, Codecs.xmr_decode s = Ok b) <-> (exists b, bytes_ok b /\ Codecs.xmr_encode b = Ok s).
Proof. exact XmrConstsOk.xmr_decode_accepts_iff. Qed.
Print Assumptions xmr_b58_accepts_iff.

Theorem xmr_b58_errors : forall s e, Codecs.xmr_decode s = Err e -> e = ValueError.
Proof. exact XmrConstsOk.xmr_decode_err. Qed.
Print Assumptions xmr_b58_errors.

(* C10 -- placeholder while the models are being validated *)
From Coq Require Import NArith List.
From BU Require Import Base.Exn Base.Bytes Model.Bech32.
Theorem c10_stub : True. Proof. exact I. Qed.
Print Assumptions c10_stub.

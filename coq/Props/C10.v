(* C10 -- Decoders accept exactly what the format allows; damage is never mis-decoded.
   Bech32 / Bech32m / SegWit / CashAddr, Base58Check and WIF part.
   Statements only; every proof is [exact <lemma>] (plus trivial case splits) with Print Assumptions beneath.

   Conventions: strings are lists of code points; [py_lower], [is_string_mixed] are Python's str.lower() and
   AlgoUtils.IsStringMixed over the case tables regenerated from the running interpreter (Gen/CaseTables.v);
   [bsym d] is CHARSET[d]; all numeric constants are the ones regenerated from the source
   (Gen/Bech32Consts.v), so a source edit re-states and re-proves everything below. *)
From Coq Require Import NArith List.
From BU Require Import Base.Exn Base.Bytes Gen.Consts Gen.Bech32Consts
  Model.Base58 Model.Bech32Bits Model.Bech32Str Model.Bech32 Model.Wif.
From BU Require Lemmas.Base58 Lemmas.ConstsOk Lemmas.Bech32Bits Lemmas.Bech32Str Lemmas.Bech32Code
  Lemmas.Bech32 Lemmas.Wif Lemmas.Bech32Detect Lemmas.Bech32CertB32 Lemmas.Bech32CertX Lemmas.Bech32Cert Lemmas.Bech32CertCash
  Lemmas.Bech32CashDetect.
Import ListNotations.
Open Scope N_scope.

Notation bsym := (Lemmas.Bech32.sym bech32_charset).
Notation hrp_ok := Lemmas.Bech32.hrp_ok33.          (* non-empty, every code point in 33..126 *)
Notation hrp_enc_ok := Lemmas.Bech32.hrp_enc_ok.    (* ... and no upper-case ASCII letter *)
Notation small32 := Lemmas.Bech32Code.small32.      (* every symbol < 32 *)
Notation segwit_const := Lemmas.Bech32.segwit_const. (* version 0 -> Bech32 constant, else Bech32m *)
Notation segwit_prog_ok := Lemmas.Bech32.segwit_prog_ok.
Notation kelvin_sign := Lemmas.Bech32Str.kelvin_sign.
(* [dec_ascii_rule s]: bech32_dec_ascii_only = true -> every code point of s is below 128.  The generated
   constant bech32_dec_ascii_only says whether _DecodeBech32 has an isascii() guard (false on the pinned
   tree: finding F16); bech32_decoder_min_data is the minimum number of data symbols besides the checksum that
   Bech32Decoder asks for (1 on the pinned tree: finding F11; 0 once empty payloads are accepted).  The
   statements below are about whichever values the source currently yields. *)
Notation dec_ascii_rule := Lemmas.Bech32.dec_ascii_rule.

(* ================================================================== 8 <-> 5 bit regrouping *)
Theorem base32_roundtrip : forall d syms, bytes_ok d ->
  to_base32 8 5 d = Ok syms -> from_base32 5 8 syms = Ok d.
Proof. exact Lemmas.Bech32Bits.from_to_base32. Qed.
Print Assumptions base32_roundtrip.

(* the strict 5->8 conversion accepts only the canonical (zero-padded) symbol string of its output *)
Theorem base32_canonical : forall syms d, from_base32 5 8 syms = Ok d ->
  bytes_ok d /\ Forall (fun x => x < 32) syms /\ to_base32 8 5 d = Ok syms.
Proof. exact Lemmas.Bech32Bits.to_from_base32. Qed.
Print Assumptions base32_canonical.

Theorem base32_errors : forall l e,
  (to_base32 8 5 l = Err e -> e = ValueError) /\ (from_base32 5 8 l = Err e -> e = ValueError).
Proof. intros l e. split; [exact (Lemmas.Bech32Bits.to_base32_err l e)|exact (Lemmas.Bech32Bits.from_base32_err l e)]. Qed.
Print Assumptions base32_errors.

(* ================================================================== Bech32 *)
(* acceptance: exactly the strings that are not mixed-case and whose lower-casing is HRP + separator +
   at least cklen + min_data charset symbols that verify (constant 1) and whose data symbols regroup strictly *)
Theorem bech32_accepts_iff : forall hrp s payload,
  bech32_decode hrp s = Ok payload <->
  dec_ascii_rule s /\ is_string_mixed s = false /\ hrp_ok hrp /\
  exists syms, py_lower s = hrp ++ bech32_sep :: map bsym syms /\ small32 syms /\
    (bech32_cklen + bech32_decoder_min_data <= length syms)%nat /\ b32_verify_checksum bech32_const hrp syms = true /\
    from_base32 5 8 (drop_last bech32_cklen syms) = Ok payload.
Proof. exact Lemmas.Bech32.bech32_decode_ok_iff. Qed.
Print Assumptions bech32_accepts_iff.

Theorem bech32_errors : forall hrp s e,
  bech32_decode hrp s = Err e -> e = ValueError \/ e = LibError Bech32ChecksumError.
Proof. exact Lemmas.Bech32.bech32_decode_err. Qed.
Print Assumptions bech32_errors.

(* canonicity up to the case rule: an accepted string lower-cases to the encoder's output for its payload *)
Theorem bech32_dec_then_enc : forall hrp s payload,
  bech32_decode hrp s = Ok payload -> bech32_encode hrp payload = Ok (py_lower s).
Proof. exact Lemmas.Bech32.bech32_dec_then_enc. Qed.
Print Assumptions bech32_dec_then_enc.

(* Full-strength round trip:
     forall hrp data, hrp_enc_ok hrp -> bytes_ok data ->
       exists s, bech32_encode hrp data = Ok s /\ bech32_decode hrp s = Ok data.
   As long as the decoder demands cklen + 1 data-part characters (bech32_decoder_min_data = 1, the pinned
   tree) it is FALSE (finding F11): the valid encoding of the empty payload -- the BIP-173 test vector
   "a12uel5l" -- is rejected.  (With the repair, bech32_decoder_min_data = 0, the premise is false and
   bech32_dec_enc_partial below is the full-strength statement.) *)
Theorem bech32_dec_enc_refuted : bech32_decoder_min_data = 1%nat ->
  exists hrp data s, hrp_enc_ok hrp /\ bytes_ok data /\
    bech32_encode hrp data = Ok s /\ bech32_decode hrp s = Err ValueError.
Proof.
  intro H. first [ discriminate H |
    exists [97], [], [97; 49; 50; 117; 101; 108; 53; 108]; split; [|split; [constructor|split]];
    [ split; [discriminate|]; constructor; [|constructor]; vm_compute; intuition discriminate
    | vm_compute; reflexivity | vm_compute; reflexivity ] ].
Qed.
Print Assumptions bech32_dec_enc_refuted.

Theorem bech32_dec_enc_partial : forall hrp data, hrp_enc_ok hrp -> bytes_ok data ->
  data <> [] \/ bech32_decoder_min_data = 0%nat ->
  exists s, bech32_encode hrp data = Ok s /\ bech32_decode hrp s = Ok data.
Proof. exact Lemmas.Bech32.bech32_dec_enc. Qed.
Print Assumptions bech32_dec_enc_partial.

Example bech32_dec_enc_example : exists hrp data, hrp_enc_ok hrp /\ bytes_ok data /\ (data <> [] \/ bech32_decoder_min_data = 0%nat) /\
  bech32_encode hrp data = Ok [98; 99; 49; 112; 99; 113; 113; 102; 101; 122; 120; 107; 101].   (* "bc1pcqqfezxke" *)
Proof.
  exists [98; 99], [14; 0]. split; [|split; [|split; [left; discriminate|vm_compute; reflexivity]]].
  - split; [discriminate|]. repeat constructor; vm_compute; intuition discriminate.
  - repeat constructor.
Qed.
Print Assumptions bech32_dec_enc_example.

(* Full-strength statement "accepted strings are ASCII":
     forall hrp s p, bech32_decode hrp s = Ok p -> Forall (fun c => c < 128) s.
   Without an isascii() guard (bech32_dec_ascii_only = false, the pinned tree) it is FALSE (finding F16):
   "BC1PCQQFEZX" + U+212A + "E" decodes like "BC1PCQQFEZXKE". *)
Theorem bech32_accepts_only_ascii_refuted : bech32_dec_ascii_only = false ->
  exists hrp s p, bech32_decode hrp s = Ok p /\ Exists (fun c => 128 <= c) s.
Proof.
  intro H. first [ discriminate H |
    exists [98; 99], [66; 67; 49; 80; 67; 81; 81; 70; 69; 90; 88; 8490; 69], [14; 0]; split;
    [ vm_compute; reflexivity | do 11 apply Exists_cons_tl; apply Exists_cons_hd; vm_compute; discriminate ] ].
Qed.
Print Assumptions bech32_accepts_only_ascii_refuted.

(* ... and with the guard it holds, for all three decoders *)
Theorem bech32_accepts_only_ascii_guarded : forall hrp s, bech32_dec_ascii_only = true ->
  ((exists p, bech32_decode hrp s = Ok p) \/ (exists p, segwit_decode hrp s = Ok p) \/
   (exists p, cash_decode hrp s = Ok p)) -> Forall (fun c => c < 128) s.
Proof. exact Lemmas.Bech32.accepted_ascii_guard. Qed.
Print Assumptions bech32_accepts_only_ascii_guarded.

(* what does hold, decided over the whole code space of the interpreter's lower() table: the only
   non-ASCII code point an accepted Bech32-family string can contain is U+212A KELVIN SIGN *)
Theorem bech32_accepts_only_ascii_partial : forall hrp s,
  ((exists p, bech32_decode hrp s = Ok p) \/ (exists p, segwit_decode hrp s = Ok p) \/
   (exists p, cash_decode hrp s = Ok p)) -> Forall (fun c => c < 128 \/ c = kelvin_sign) s.
Proof.
  intros hrp s [[p H]|[[p H]|[p H]]].
  - exact (Lemmas.Bech32.bech32_accepted_chars hrp s p H).
  - exact (Lemmas.Bech32.segwit_accepted_chars hrp s p H).
  - exact (Lemmas.Bech32.cash_accepted_chars hrp s p H).
Qed.
Print Assumptions bech32_accepts_only_ascii_partial.

(* wrong expected HRP: one string is never accepted under two different HRPs *)
Theorem hrp_mismatch_rejected : forall h1 h2 s,
  (forall p1 p2, bech32_decode h1 s = Ok p1 -> bech32_decode h2 s = Ok p2 -> h1 = h2) /\
  (forall p1 p2, segwit_decode h1 s = Ok p1 -> segwit_decode h2 s = Ok p2 -> h1 = h2) /\
  (forall p1 p2, cash_decode h1 s = Ok p1 -> cash_decode h2 s = Ok p2 -> h1 = h2).
Proof.
  intros h1 h2 s. split; [|split]; intros p1 p2.
  - exact (Lemmas.Bech32.bech32_hrp_unique h1 h2 s p1 p2).
  - exact (Lemmas.Bech32.segwit_hrp_unique h1 h2 s p1 p2).
  - exact (Lemmas.Bech32.cash_hrp_unique h1 h2 s p1 p2).
Qed.
Print Assumptions hrp_mismatch_rejected.

(* the checksum of a data part is unique (Bech32 and Bech32m): the 6 symbols are a function of HRP and data *)
Theorem bech32_checksum_unique : forall K hrp data cs, In K [bech32_const; bech32m_const] ->
  hrp_ok hrp -> small32 data -> length cs = bech32_cklen -> small32 cs ->
  b32_verify_checksum K hrp (data ++ cs) = true -> cs = b32_compute_checksum K hrp data.
Proof.
  intros K hrp data cs [<-|[<-|[]]] Hh.
  - exact (Lemmas.Bech32Code.b32_checksum_unique _ Lemmas.Bech32Code.bech32_const_small hrp data cs (Lemmas.Bech32.hrp_ok33_chars hrp Hh)).
  - exact (Lemmas.Bech32Code.b32_checksum_unique _ Lemmas.Bech32Code.bech32m_const_small hrp data cs (Lemmas.Bech32.hrp_ok33_chars hrp Hh)).
Qed.
Print Assumptions bech32_checksum_unique.

Theorem bech32_verify_compute : forall K hrp data, In K [bech32_const; bech32m_const] ->
  hrp_ok hrp -> small32 data -> b32_verify_checksum K hrp (data ++ b32_compute_checksum K hrp data) = true.
Proof.
  intros K hrp data [<-|[<-|[]]] Hh.
  - exact (Lemmas.Bech32Code.b32_verify_compute _ Lemmas.Bech32Code.bech32_const_small hrp data (Lemmas.Bech32.hrp_ok33_chars hrp Hh)).
  - exact (Lemmas.Bech32Code.b32_verify_compute _ Lemmas.Bech32Code.bech32m_const_small hrp data (Lemmas.Bech32.hrp_ok33_chars hrp Hh)).
Qed.
Print Assumptions bech32_verify_compute.

(* ================================================================== SegWit *)
(* acceptance: string layer as above with the checksum constant selected by the version symbol (Bech32 for
   0, Bech32m otherwise), strict regrouping of the program, and the witness rules
   2 <= |prog| <= 40, version <= 16, version 0 -> |prog| in {20, 32} *)
Theorem segwit_accepts_iff : forall hrp s v prog,
  segwit_decode hrp s = Ok (v, prog) <->
  dec_ascii_rule s /\ is_string_mixed s = false /\ hrp_ok hrp /\
  exists rest, py_lower s = hrp ++ segwit_sep :: map bsym (v :: rest) /\ small32 (v :: rest) /\
    (segwit_cklen <= length rest)%nat /\ b32_verify_checksum (segwit_const v) hrp (v :: rest) = true /\
    from_base32 5 8 (drop_last segwit_cklen rest) = Ok prog /\ segwit_prog_ok v prog.
Proof. exact Lemmas.Bech32.segwit_decode_ok_iff. Qed.
Print Assumptions segwit_accepts_iff.

Theorem segwit_errors : forall hrp s e,
  segwit_decode hrp s = Err e -> e = ValueError \/ e = LibError Bech32ChecksumError.
Proof. exact Lemmas.Bech32.segwit_decode_err. Qed.
Print Assumptions segwit_errors.

Theorem segwit_dec_then_enc : forall hrp s v prog,
  segwit_decode hrp s = Ok (v, prog) -> segwit_encode hrp v prog = Ok (py_lower s).
Proof. exact Lemmas.Bech32.segwit_dec_then_enc. Qed.
Print Assumptions segwit_dec_then_enc.

Theorem segwit_dec_enc : forall hrp v prog, hrp_enc_ok hrp -> bytes_ok prog -> segwit_prog_ok v prog ->
  exists s, segwit_encode hrp v prog = Ok s /\ segwit_decode hrp s = Ok (v, prog).
Proof. exact Lemmas.Bech32.segwit_dec_enc. Qed.
Print Assumptions segwit_dec_enc.

Example segwit_dec_enc_example : exists hrp v prog, hrp_enc_ok hrp /\ bytes_ok prog /\ segwit_prog_ok v prog /\
  segwit_decode hrp [98; 99; 49; 115; 119; 53; 48; 113; 103; 100; 122; 50; 53; 106] = Ok (v, prog).   (* "bc1sw50qgdz25j" *)
Proof.
  exists [98; 99], 16, [117; 30]. split; [|split; [|split]].
  - split; [discriminate|]. repeat constructor; vm_compute; intuition discriminate.
  - repeat constructor.
  - split; [split; apply PeanoNat.Nat.leb_le; reflexivity|split; [apply N.leb_le; reflexivity|discriminate]].
  - vm_compute. reflexivity.
Qed.
Print Assumptions segwit_dec_enc_example.

(* ================================================================== CashAddr *)
Theorem cashaddr_accepts_iff : forall hrp s nv data,
  cash_decode hrp s = Ok (nv, data) <->
  dec_ascii_rule s /\ is_string_mixed s = false /\ hrp_ok hrp /\
  exists syms b, py_lower s = hrp ++ cash_sep :: map bsym syms /\ small32 syms /\
    (cash_cklen + 1 <= length syms)%nat /\ cash_verify_checksum hrp syms = true /\
    from_base32 5 8 (drop_last cash_cklen syms) = Ok (b :: data) /\ nv = [b].
Proof. exact Lemmas.Bech32.cash_decode_ok_iff. Qed.
Print Assumptions cashaddr_accepts_iff.

Theorem cashaddr_errors : forall hrp s e,
  cash_decode hrp s = Err e -> e = ValueError \/ e = LibError Bech32ChecksumError.
Proof. exact Lemmas.Bech32.cash_decode_err. Qed.
Print Assumptions cashaddr_errors.

Theorem cashaddr_dec_then_enc : forall hrp s nv data,
  cash_decode hrp s = Ok (nv, data) -> cash_encode hrp nv data = Ok (py_lower s).
Proof. exact Lemmas.Bech32.cash_dec_then_enc. Qed.
Print Assumptions cashaddr_dec_then_enc.

Theorem cashaddr_dec_enc : forall hrp b data, hrp_enc_ok hrp -> b < 256 -> bytes_ok data ->
  exists s, cash_encode hrp [b] data = Ok s /\ cash_decode hrp s = Ok ([b], data).
Proof. exact Lemmas.Bech32.cash_dec_enc. Qed.
Print Assumptions cashaddr_dec_enc.

Theorem cashaddr_checksum_unique : forall hrp data cs, small32 data -> length cs = cash_cklen -> small32 cs ->
  cash_verify_checksum hrp (data ++ cs) = true -> cs = cash_compute_checksum hrp data.
Proof. exact Lemmas.Bech32Code.cash_checksum_unique. Qed.
Print Assumptions cashaddr_checksum_unique.

(* ================================================================== error detection (BCH distance) *)
(* [hamming a b]: number of positions where two lists differ.
   [data_corrupted sep n s1 s2]: after lower-casing (as the decoders do) s1 = h ++ sep :: t1 and
   s2 = h ++ sep :: t2 with sep not in t1 (so h is s1's HRP), |t1| = |t2| <= n and 1 <= hamming t1 t2 <= 4:
   s2 is s1 with one to four data-part characters replaced by anything.
   The proofs rest on distance certificates evaluated by the kernel on the generator words regenerated
   from the PolyMod bodies: Lemmas/Bech32CertB32.v (window 89) and Lemmas/Bech32CertCash.v (window 160);
   soundness of the certificate (linearity, anchoring, symbol-scaling symmetry) is Lemmas/Bech32Detect.v. *)
Notation hamming := Lemmas.Bech32Detect.hamming.
Notation data_corrupted := Lemmas.Bech32Cert.data_corrupted.        (* 1..4 characters *)
Notation data_corrupted_n := Lemmas.Bech32Cert.data_corrupted_n.    (* 1..k characters *)
Notation b32_window := Lemmas.Bech32CertB32.b32_window.       (* 89 *)
Notation cash_window := Lemmas.Bech32CertCash.cash_window.    (* 160 *)

(* checksum level, Bech32 and Bech32m alike (any constant): within 89 symbols, 1..4 wrong symbols never verify *)
Theorem bech32_checksum_detects_4 : forall K hrp d1 d2, length d1 = length d2 -> (length d1 <= b32_window)%nat ->
  small32 d1 -> small32 d2 -> (1 <= hamming d1 d2 <= 4)%nat ->
  b32_verify_checksum K hrp d1 = true -> b32_verify_checksum K hrp d2 = false.
Proof. exact Lemmas.Bech32Cert.b32_verify_detects. Qed.
Print Assumptions bech32_checksum_detects_4.

(* decoder level: for every HRP and every accepted string with a data part of at most 89 characters, every
   corruption of 1..4 data-part characters is rejected *)
Theorem bech32_detects_4 : forall hrp s1 s2 p1, bech32_decode hrp s1 = Ok p1 ->
  data_corrupted bech32_sep b32_window s1 s2 ->
  exists e, bech32_decode hrp s2 = Err e /\ (e = ValueError \/ e = LibError Bech32ChecksumError).
Proof. exact Lemmas.Bech32Cert.bech32_detects_4_err. Qed.
Print Assumptions bech32_detects_4.

Example bech32_detects_4_example : exists p1,
  bech32_decode [98; 99] [98; 99; 49; 112; 99; 113; 113; 102; 101; 122; 120; 107; 101] = Ok p1 /\
  data_corrupted bech32_sep b32_window [98; 99; 49; 112; 99; 113; 113; 102; 101; 122; 120; 107; 101]
                                        [98; 99; 49; 112; 99; 113; 113; 102; 101; 122; 120; 107; 113].
Proof. exact Lemmas.Bech32Cert.detects_example. Qed.
Print Assumptions bech32_detects_4_example.

(* the window is tight: two valid 90-symbol data parts can differ in only four symbols (the library does
   not enforce BIP-173's 90-character limit, so the length bound has to be in the theorem) *)
Theorem bech32_window_tight : exists e, length e = 90%nat /\ Lemmas.Bech32Detect.weight e = 4%nat /\ small32 e /\
  pm_from Lemmas.Bech32ConstsOk.b32_gens bech32_pm_shift (N.ones bech32_pm_shift) bech32_pm_symbits 0 e = 0.
Proof. exists Lemmas.Bech32Cert.light90. exact Lemmas.Bech32Cert.b32_window_tight. Qed.
Print Assumptions bech32_window_tight.

(* SegWit.  Full-strength statement
     forall hrp s1 s2 v1 p1 n, segwit_decode hrp s1 = Ok (v1, p1) -> data_corrupted segwit_sep n s1 s2 ->
       exists e, segwit_decode hrp s2 = Err e
   is FALSE, of the format itself (BIP-350), not only of this code: Bech32 and Bech32m are two cosets of one
   BCH code, and four substitutions that include the version symbol can move a valid version-0 address to a
   valid Bech32m address.  Witness: bc1qqqqsyqcyq5rqwzqfpg9scrgwpugpzysn4v0345 (P2WPKH) and
   bc1pqqqseqcyq3rqwzqfpg9scrgwpugpzy2n4v0345 (version 1, another program). *)
Theorem segwit_detects_4_refuted : exists hrp s1 s2 p1 p2,
  segwit_decode hrp s1 = Ok (0, p1) /\ segwit_decode hrp s2 = Ok (1, p2) /\ p1 <> p2 /\
  data_corrupted segwit_sep b32_window s1 s2.
Proof.
  destruct Lemmas.Bech32Cert.segwit_cross_witness as (p1 & p2 & H).
  exists [98; 99], Lemmas.Bech32Cert.cross_s1, Lemmas.Bech32Cert.cross_s2, p1, p2. exact H.
Qed.
Print Assumptions segwit_detects_4_refuted.

(* what holds, without any length hypothesis (the witness-program rule bounds the data part by 72 symbols):
   a corruption of 1..4 data-part characters is rejected unless it switches the version symbol between zero
   and non-zero, i.e. between the Bech32 and Bech32m constants *)
Theorem segwit_detects_4_partial : forall hrp s1 s2 v1 p1 n, segwit_decode hrp s1 = Ok (v1, p1) ->
  data_corrupted segwit_sep n s1 s2 ->
  (exists e, segwit_decode hrp s2 = Err e /\ (e = ValueError \/ e = LibError Bech32ChecksumError)) \/
  (exists v2 p2, segwit_decode hrp s2 = Ok (v2, p2) /\ (v1 =? 0) <> (v2 =? 0)).
Proof. exact Lemmas.Bech32Cert.segwit_detects_4_err. Qed.
Print Assumptions segwit_detects_4_partial.

(* and up to THREE substitutions are always detected, also across the two constants: a switch changes the
   version symbol, the version-0 side has 38 or 58 symbols after it, and two further certificates
   (Lemmas/Bech32CertX.v) show that for these lengths a changed first symbol plus at most two other changed
   symbols never shifts the final state by (Bech32 constant) xor (Bech32m constant) *)
Theorem segwit_detects_3 : forall hrp s1 s2 v1 p1 n, segwit_decode hrp s1 = Ok (v1, p1) ->
  data_corrupted_n 3 segwit_sep n s1 s2 ->
  exists e, segwit_decode hrp s2 = Err e /\ (e = ValueError \/ e = LibError Bech32ChecksumError).
Proof. exact Lemmas.Bech32Cert.segwit_detects_3_err. Qed.
Print Assumptions segwit_detects_3.

Example segwit_detects_3_example : exists p1 s2 n,
  segwit_decode [98; 99] Lemmas.Bech32Cert.cross_s1 = Ok (0, p1) /\
  data_corrupted_n 3 segwit_sep n Lemmas.Bech32Cert.cross_s1 s2.
Proof. exact Lemmas.Bech32Cert.segwit_detects_example. Qed.
Print Assumptions segwit_detects_3_example.

(* CashAddr: data parts of at most 160 characters *)
Theorem cashaddr_checksum_detects_4 : forall hrp d1 d2, length d1 = length d2 -> (length d1 <= cash_window)%nat ->
  small32 d1 -> small32 d2 -> (1 <= hamming d1 d2 <= 4)%nat ->
  cash_verify_checksum hrp d1 = true -> cash_verify_checksum hrp d2 = false.
Proof. exact Lemmas.Bech32CashDetect.cash_verify_detects. Qed.
Print Assumptions cashaddr_checksum_detects_4.

Theorem cashaddr_detects_4 : forall hrp s1 s2 p1, cash_decode hrp s1 = Ok p1 ->
  data_corrupted cash_sep cash_window s1 s2 ->
  exists e, cash_decode hrp s2 = Err e /\ (e = ValueError \/ e = LibError Bech32ChecksumError).
Proof. exact Lemmas.Bech32CashDetect.cash_detects_4_err. Qed.
Print Assumptions cashaddr_detects_4.

(* ================================================================== Base58Check *)
Definition b58_alphabets : list (list N) := [b58_alph_btc; b58_alph_xrp].

(* accepted iff the Base58 decoding ends in the checksum of the rest; no detection guarantee is claimed:
   a damaged string is accepted only if it independently satisfies the checksum *)
Theorem b58check_accepts_iff : forall alph (sha256 : list N -> list N) s d,
  Base58.check_decode alph b58_radix b58_cklen sha256 s = Ok d <->
  exists dec, Base58.decode alph b58_radix s = Ok dec /\ d = drop_last b58_cklen dec /\
              take_last b58_cklen dec = Base58.checksum b58_cklen sha256 d.
Proof. intros alph sha s d. exact (Lemmas.Base58.check_decode_ok_iff alph b58_radix b58_cklen sha s d). Qed.
Print Assumptions b58check_accepts_iff.

Theorem b58check_errors : forall alph (sha256 : list N -> list N) s e,
  Base58.check_decode alph b58_radix b58_cklen sha256 s = Err e ->
  e = ValueError \/ e = LibError Base58ChecksumError.
Proof. intros alph sha s e. exact (Lemmas.Base58.check_decode_err alph b58_radix b58_cklen sha s e). Qed.
Print Assumptions b58check_errors.

(* ================================================================== WIF *)
Section WifStatements.
  Variable sha256 : list N -> list N.
  Variable valid_key : list N -> bool.
  Hypothesis sha_len : forall x, length (sha256 x) = 32%nat.
  Hypothesis sha_ok : forall x, bytes_ok (sha256 x).
  Hypothesis valid_len : forall k, valid_key k = true -> length k = 32%nat.

  Notation wif_encode := (Wif.wif_encode b58_alph_btc b58_radix b58_cklen sha256 valid_key wif_compr_suffix).
  Notation wif_decode := (Wif.wif_decode b58_alph_btc b58_radix b58_cklen sha256 valid_key wif_compr_suffix).
  Notation check_decode := (Base58.check_decode b58_alph_btc b58_radix b58_cklen sha256).

  (* accepted iff net_ver is one byte, the Base58Check payload is that byte, a valid key, and the
     compressed-key suffix exactly when the mode is COMPRESSED (true) *)
  Theorem wif_accepts_iff : forall s nvb k c,
    wif_decode s nvb = Ok (k, c) <->
    exists nv, nvb = [nv] /\ valid_key k = true /\
               check_decode s = Ok (nv :: k ++ (if c then [wif_compr_suffix] else [])).
  Proof. exact (Lemmas.Wif.wif_accepts_iff b58_alph_btc b58_radix b58_cklen sha256 valid_key wif_compr_suffix valid_len). Qed.

  Theorem wif_roundtrip : forall k nv c, bytes_ok k -> nv < 256 -> valid_key k = true ->
    exists s, wif_encode k [nv] c = Ok s /\ wif_decode s [nv] = Ok (k, c).
  Proof.
    exact (Lemmas.Wif.wif_roundtrip b58_alph_btc b58_radix b58_cklen sha256 valid_key wif_compr_suffix valid_len
             ConstsOk.b58_alph_btc_nodup ConstsOk.b58_alph_btc_len ConstsOk.b58_radix_ge2 sha_len sha_ok
             ConstsOk.b58_cklen_le (eq_refl : (wif_compr_suffix ?= 256) = Lt)).
  Qed.

  Theorem wif_errors : forall s nvb e, wif_decode s nvb = Err e ->
    e = ValueError \/ e = LibError Base58ChecksumError.
  Proof. exact (Lemmas.Wif.wif_decode_err b58_alph_btc b58_radix b58_cklen sha256 valid_key wif_compr_suffix valid_len). Qed.
End WifStatements.
Print Assumptions wif_accepts_iff.
Print Assumptions wif_roundtrip.
Print Assumptions wif_errors.

(* ================================================================== SS58 and Monero block-Base58
   The two remaining checksummed / block text decoders of the property (models and proofs: Lemmas/SS58*.v,
   Lemmas/Base58Xmr.v, XmrConstsOk.v, developed under C11): a string is accepted exactly when it is the
   encoder's output for the returned value, so nothing non-canonical or damaged is decoded to a payload. *)
From BU Require Model.Codecs.
From BU Require Lemmas.SS58Ok Lemmas.XmrConstsOk.

Theorem ss58_accepts_iff : forall (blake2b512 : list N -> list N) s f data,
  (forall x, length (blake2b512 x) = 64%nat) -> (forall x, bytes_ok (blake2b512 x)) ->
  (Codecs.ss58_decode blake2b512 s = Ok (f, data) <->
   (Codecs.ss58_encode blake2b512 data (BinInt.Z.of_N f) = Ok s /\ bytes_ok data)).
Proof. intros blake s f data H1 H2. apply SS58Ok.ss58_accepts_iff; assumption. Qed.
Print Assumptions ss58_accepts_iff.

Theorem ss58_errors : forall (blake2b512 : list N -> list N) s e,
  Codecs.ss58_decode blake2b512 s = Err e -> e = ValueError \/ e = LibError SS58ChecksumError.
Proof. exact SS58Ok.ss58_decode_err. Qed.
Print Assumptions ss58_errors.

Theorem xmr_b58_accepts_iff : forall s,
  (exists b, Codecs.xmr_decode s = Ok b) <-> (exists b, bytes_ok b /\ Codecs.xmr_encode b = Ok s).
Proof. exact XmrConstsOk.xmr_decode_accepts_iff. Qed.
Print Assumptions xmr_b58_accepts_iff.

Theorem xmr_b58_errors : forall s e, Codecs.xmr_decode s = Err e -> e = ValueError.
Proof. exact XmrConstsOk.xmr_decode_err. Qed.
Print Assumptions xmr_b58_errors.

(* ############################################################################################################
   PART 2 -- ADDRESS-LEVEL DECODERS (every *AddrDecoder.DecodeAddr modelled in Model/AddrB58.v, AddrText.v,
   AddrXmr.v, AddrAdaShelley.v, AddrAdaByron.v).  Proofs: Lemmas/AddrAccept{B58,Text,B32,Xmr,Ada}.v.

   For each decoder:  [<fam>_decode_accepts_iff]  decode params s = Ok payload <-> explicit description of s
   (codec layer result, prefix / version / header, lengths, checksum equation, key validity), and the corollary
   the property wants,  [<fam>_accepted_is_encoding]:  every accepted string IS the encoder's text for the
   returned payload, up to the format's case rule --
     Base58 / Base58Check / SS58 / Monero:  exact equality (no case rule);
     Bech32 / SegWit / CashAddr:  the encoder yields py_lower s, and s is never mixed-case (all-upper accepted);
     hex formats (ICX, NEAR, SUI, APTOS, ETH without EIP-55):  any case mix accepted, encoder writes lower case;
     ETH with EIP-55:  exact;  Base32 formats:  upper case only (lower case for the Filecoin / Nano alphabets).
   Where the payload is a hash the "encoder" is the text layer applied to the returned payload (no hash
   pre-image is claimed); where it is a key it is the real address encoder.
   Where the corollary is FALSE of the faithful model:  [..._refuted] (concrete witness, kernel-evaluated) and
   [..._partial] (what holds, with the exact extra condition): Aptos (zero padding, which its standard allows) and
   Byron (cbor2 accepts every well-formed CBOR spelling, e.g. non-minimal integer heads).
   The refutations of the first round were library defects (C10-XMR-INTEG-LEN, C10-P2WPKH-LEN, C10-ALGO-NONCANON,
   C10-FIL-NONCANON, C10-NANO-PADBITS, C10-BYRON-TRAILING), since repaired in /repo; the models follow the repaired
   code, the statements are now the FULL ones (accepted <-> encoder output), and the former witnesses are kept as
   [..._rejected] theorems.
   Hashes, key validity, cbor2 parsing are oracles (universally quantified; refutations exhibit an instance).
   ############################################################################################################ *)
From Coq Require Import ZArith.
From BU Require Import Gen.AddrConsts Gen.AddrTextConsts Gen.ConstsCardmon Model.AddrUtils Model.AddrB58 Model.AddrText
  Model.Base32 Model.CborEnc Model.AddrAdaShelley.
From BU Require Model.AddrXmr Model.AddrAdaByron Model.EdLib.
From BU Require Lemmas.AddrB58 Lemmas.AddrInst Lemmas.Base32 Lemmas.CborEnc
  Lemmas.AddrAcceptB58 Lemmas.AddrAcceptText Lemmas.AddrAcceptB32 Lemmas.AddrAcceptXmr Lemmas.AddrAcceptXmrLink Lemmas.AddrAcceptAda.

Notation b58check_decode sha256 alph := (Base58.check_decode alph b58_radix b58_cklen sha256).
Notation b58check_encode sha256 alph := (Base58.check_encode alph b58_radix b58_cklen sha256).
Notation b58_decode := (Base58.decode b58_alph_btc b58_radix).
Notation good_alph := Lemmas.AddrB58.good_alph.          (* the Bitcoin or the Ripple alphabet *)

(* ================================================================== Base58Check: prefix ++ digest *)
Theorem p2pkh_decode_accepts_iff : forall (sha256 : list N -> list N) alph net_ver s d,
  (p2pkh_decode sha256 alph net_ver s = Ok d <->
   b58check_decode sha256 alph s = Ok (net_ver ++ d) /\ length d = hash160_len) /\
  (good_alph alph -> p2pkh_decode sha256 alph net_ver s = Ok d ->
   s = fam_a_encode sha256 alph net_ver d /\ length d = hash160_len).          (* accepted = the encoder's text *)
Proof.
  intros sha alph nv s d. split; [exact (Lemmas.AddrAcceptB58.p2pkh_decode_accepts_iff sha alph nv s d)|
                                  exact (Lemmas.AddrAcceptB58.p2pkh_accepted_is_encoding sha alph nv s d)].
Qed.
Print Assumptions p2pkh_decode_accepts_iff.

(* premises satisfiable (constant-zero "SHA-256") *)
Example p2pkh_accepted_example : exists sha256 s d, good_alph b58_alph_btc /\
  p2pkh_decode sha256 b58_alph_btc [0] s = Ok d /\ d = repeat 7 20.
Proof.
  exists (fun _ => repeat 0 32), (fam_a_encode (fun _ => repeat 0 32) b58_alph_btc [0] (repeat 7 20)), (repeat 7 20).
  split; [left; reflexivity|]. split; [vm_compute; reflexivity|reflexivity].
Qed.
Print Assumptions p2pkh_accepted_example.

(* P2SH, XRP, XTZ: the same pipeline under their alphabet / prefix / digest length *)
Theorem p2sh_xrp_xtz_decode_accepts_iff : forall (sha256 : list N -> list N) prefix s d,
  (p2sh_decode sha256 prefix s = Ok d <->
   b58check_decode sha256 b58_alph_btc s = Ok (prefix ++ d) /\ length d = hash160_len) /\
  (xrp_decode sha256 s = Ok d <->
   b58check_decode sha256 b58_alph_xrp s = Ok (xrp_net_ver ++ d) /\ length d = hash160_len) /\
  (xtz_decode sha256 prefix s = Ok d <->
   b58check_decode sha256 b58_alph_btc s = Ok (prefix ++ d) /\ length d = blake2b160_len) /\
  (xtz_decode sha256 prefix s = Ok d -> s = fam_a_encode sha256 b58_alph_btc prefix d).
Proof.
  intros sha p s d. split; [exact (Lemmas.AddrAcceptB58.p2sh_decode_accepts_iff sha p s d)|].
  split; [exact (Lemmas.AddrAcceptB58.xrp_decode_accepts_iff sha s d)|].
  split; [exact (Lemmas.AddrAcceptB58.xtz_decode_accepts_iff sha p s d)|exact (Lemmas.AddrAcceptB58.xtz_accepted_is_encoding sha p s d)].
Qed.
Print Assumptions p2sh_xrp_xtz_decode_accepts_iff.

(* NEO: the expected version must be ONE byte *)
Theorem neo_decode_accepts_iff : forall (sha256 : list N -> list N) ver s d,
  (neo_decode sha256 ver s = Ok d <->
   exists v0, ver = [v0] /\ b58check_decode sha256 b58_alph_btc s = Ok (v0 :: d) /\ length d = hash160_len) /\
  (neo_decode sha256 ver s = Ok d -> s = b58check_encode sha256 b58_alph_btc (ver ++ d) /\ length ver = 1%nat).
Proof.
  intros sha v s d. split; [exact (Lemmas.AddrAcceptB58.neo_decode_accepts_iff sha v s d)|
                            exact (Lemmas.AddrAcceptB58.neo_accepted_is_encoding sha v s d)].
Qed.
Print Assumptions neo_decode_accepts_iff.

(* ================================================================== plain Base58 with an own checksum *)
Theorem eos_decode_accepts_iff : forall (ripemd160 : list N -> list N) (valid_pub : list N -> bool) s pub,
  (eos_decode ripemd160 valid_pub s = Ok pub <->
   exists a, s = eos_prefix ++ a /\ b58_decode a = Ok (pub ++ eos_checksum ripemd160 pub) /\
             length pub = secp_compr_len /\ length (eos_checksum ripemd160 pub) = eos_cklen /\ valid_pub pub = true) /\
  (eos_decode ripemd160 valid_pub s = Ok pub ->
   s = eos_encode ripemd160 pub /\ valid_pub pub = true /\ length pub = secp_compr_len).
Proof.
  intros rip vp s pub. split; [exact (Lemmas.AddrAcceptB58.eos_decode_accepts_iff rip vp s pub)|
                               exact (Lemmas.AddrAcceptB58.eos_accepted_is_encoding rip vp s pub)].
Qed.
Print Assumptions eos_decode_accepts_iff.

Theorem ergo_decode_accepts_iff : forall (blake2b : nat -> list N -> list N) (valid_pub : list N -> bool) net s pub,
  (ergo_decode blake2b valid_pub net s = Ok pub <->
   b58_decode s = Ok ((ergo_prefix net ++ pub) ++ ergo_checksum blake2b (ergo_prefix net ++ pub)) /\
   length pub = secp_compr_len /\ length (ergo_checksum blake2b (ergo_prefix net ++ pub)) = ergo_cklen /\
   valid_pub pub = true) /\
  (ergo_decode blake2b valid_pub net s = Ok pub ->
   s = ergo_encode blake2b net pub /\ valid_pub pub = true /\ length pub = secp_compr_len).
Proof.
  intros b vp net s pub. split; [exact (Lemmas.AddrAcceptB58.ergo_decode_accepts_iff b vp net s pub)|
                                 exact (Lemmas.AddrAcceptB58.ergo_accepted_is_encoding b vp net s pub)].
Qed.
Print Assumptions ergo_decode_accepts_iff.

Theorem sol_decode_accepts_iff : forall (valid_pub : list N -> bool) s d,
  (sol_decode valid_pub s = Ok d <->
   b58_decode s = Ok d /\ length d = (ed25519_compr_len - 1)%nat /\ valid_pub d = true) /\
  (sol_decode valid_pub s = Ok d -> s = sol_encode d /\ valid_pub d = true).
Proof.
  intros vp s d. split; [exact (Lemmas.AddrAcceptB58.sol_decode_accepts_iff vp s d)|
                         exact (Lemmas.AddrAcceptB58.sol_accepted_is_encoding vp s d)].
Qed.
Print Assumptions sol_decode_accepts_iff.

(* ================================================================== hex formats *)
(* Ethereum, both modes (skip = true: no EIP-55 check) *)
Theorem eth_addr_decode_accepts_iff : forall (keccak256 : list N -> list N) skip s d,
  (eth_decode keccak256 skip s = Ok d <->
   exists a, s = eth_prefix ++ a /\ length a = eth_addr_len /\ forallb is_hex_char a = true /\
             (skip = false -> eth_checksum_encode keccak256 a = a) /\ from_hex a = Ok d) /\
  ((forall x, length (keccak256 x) = 32%nat) -> (forall x, bytes_ok (keccak256 x)) ->
   eth_decode keccak256 skip s = Ok d ->
   length d = 20%nat /\ bytes_ok d /\
   exists a, s = eth_prefix ++ a /\ map ascii_lower a = to_hex d /\
             (skip = false -> a = eth_checksum_encode keccak256 (to_hex d))).
Proof.
  intros kec skip s d. split; [exact (Lemmas.AddrAcceptB58.eth_decode_accepts_iff_gen kec skip s d)|
                               exact (Lemmas.AddrAcceptB58.eth_accepted_is_encoding kec skip s d)].
Qed.
Print Assumptions eth_addr_decode_accepts_iff.

Theorem trx_decode_accepts_iff : forall (sha256 keccak256 : list N -> list N) s d,
  (trx_decode sha256 keccak256 s = Ok d <->
   b58check_decode sha256 b58_alph_btc s = Ok (trx_prefix ++ d) /\ length d = Nat.div eth_addr_len 2) /\
  (trx_decode sha256 keccak256 s = Ok d ->
   s = b58check_encode sha256 b58_alph_btc (trx_prefix ++ d) /\ length d = 20%nat).
Proof.
  intros sha kec s d. split; [exact (Lemmas.AddrAcceptB58.trx_decode_accepts_iff sha kec s d)|
                              exact (Lemmas.AddrAcceptB58.trx_accepted_is_encoding sha kec s d)].
Qed.
Print Assumptions trx_decode_accepts_iff.

Theorem icx_near_sui_decode_accepts_iff : forall (valid_pub : list N -> bool) s d,
  (icx_decode s = Ok d <-> exists a, s = icx_prefix ++ a /\ from_hex a = Ok d /\ length d = icx_hash_len) /\
  (near_decode valid_pub s = Ok d <->
   from_hex s = Ok d /\ length d = (ed25519_compr_len - 1)%nat /\ valid_pub d = true) /\
  (sui_decode s = Ok d <-> exists a, s = sui_prefix ++ a /\ length a = (blake2b256_len * 2)%nat /\ from_hex a = Ok d).
Proof.
  intros vp s d. split; [exact (Lemmas.AddrAcceptB58.icx_decode_accepts_iff s d)|].
  split; [exact (Lemmas.AddrAcceptB58.near_decode_accepts_iff vp s d)|exact (Lemmas.AddrAcceptB58.sui_decode_accepts_iff s d)].
Qed.
Print Assumptions icx_near_sui_decode_accepts_iff.

(* hex formats: any case mix is accepted, the encoder writes lower case *)
Theorem icx_near_sui_accepted_is_encoding : forall (valid_pub : list N -> bool) s d,
  (icx_decode s = Ok d ->
   exists a, s = icx_prefix ++ a /\ map ascii_lower a = to_hex d /\ length d = icx_hash_len /\ bytes_ok d) /\
  (near_decode valid_pub s = Ok d ->
   map ascii_lower s = near_encode d /\ valid_pub d = true /\ length d = (ed25519_compr_len - 1)%nat) /\
  (sui_decode s = Ok d ->
   exists a, s = sui_prefix ++ a /\ map ascii_lower a = to_hex d /\ length d = blake2b256_len /\ bytes_ok d).
Proof.
  intros vp s d. split; [exact (Lemmas.AddrAcceptB58.icx_accepted_is_encoding s d)|].
  split; [exact (Lemmas.AddrAcceptB58.near_accepted_is_encoding vp s d)|exact (Lemmas.AddrAcceptB58.sui_accepted_is_encoding s d)].
Qed.
Print Assumptions icx_near_sui_accepted_is_encoding.

(* Aptos: any number of leading zeros may be missing *)
Theorem aptos_decode_accepts_iff : forall s d,
  (aptos_decode s = Ok d <->
   exists a, s = aptos_prefix ++ a /\ (length a <= sha3_256_len * 2)%nat /\
             from_hex (repeat 48 (sha3_256_len * 2 - length a) ++ a) = Ok d) /\
  (aptos_decode s = Ok d ->                                                         (* aptos_accepted_partial *)
   exists a, s = aptos_prefix ++ a /\ (length a <= sha3_256_len * 2)%nat /\
     map ascii_lower (repeat 48 (sha3_256_len * 2 - length a) ++ a) = to_hex d /\ length d = sha3_256_len /\ bytes_ok d).
Proof.
  intros s d. split; [exact (Lemmas.AddrAcceptB58.aptos_decode_accepts_iff s d)|exact (Lemmas.AddrAcceptB58.aptos_accepted_partial s d)].
Qed.
Print Assumptions aptos_decode_accepts_iff.

(* full statement (accepted => the encoder's output with or without zero trimming, up to case): FALSE -- "0x0" *)
Theorem aptos_canonical_refuted : exists s d, aptos_decode s = Ok d /\ map ascii_lower s = s /\
  forall trim : bool, s <> aptos_prefix ++ (if trim then lstrip 48 (to_hex d) else to_hex d).
Proof. exact Lemmas.AddrAcceptB58.aptos_canonical_refuted. Qed.
Print Assumptions aptos_canonical_refuted.

(* ================================================================== Bech32 families (on the codec models above) *)
Theorem atom_avax_decode_accepts_iff : forall prefix hrp s d,
  (atom_decode bech32_decode hrp s = Ok d <-> bech32_decode hrp s = Ok d /\ length d = hash160_len) /\
  (atom_decode bech32_decode hrp s = Ok d ->
   bech32_encode hrp d = Ok (py_lower s) /\ is_string_mixed s = false /\ length d = hash160_len) /\
  (avax_decode bech32_decode prefix hrp s = Ok d <->
   exists a, s = prefix ++ a /\ bech32_decode hrp a = Ok d /\ length d = hash160_len) /\
  (avax_decode bech32_decode prefix hrp s = Ok d ->
   exists a, s = prefix ++ a /\ bech32_encode hrp d = Ok (py_lower a) /\ length d = hash160_len).
Proof.
  intros p hrp s d. split; [exact (Lemmas.AddrAcceptText.atom_accepts_iff bech32_decode hrp s d)|].
  split; [exact (Lemmas.AddrAcceptText.atom_accepted_is_encoding hrp s d)|].
  split; [exact (Lemmas.AddrAcceptText.avax_accepts_iff bech32_decode p hrp s d)|exact (Lemmas.AddrAcceptText.avax_accepted_is_encoding p hrp s d)].
Qed.
Print Assumptions atom_avax_decode_accepts_iff.

Theorem egld_decode_accepts_iff : forall (valid_pub : N -> list N -> bool) s d,
  (egld_decode valid_pub bech32_decode s = Ok d <->
   bech32_decode egld_hrp s = Ok d /\ length d = (ed25519_compr_len - 1)%nat /\ valid_pub 2 d = true) /\
  (egld_decode valid_pub bech32_decode s = Ok d ->
   egld_encode bech32_encode d = Ok (py_lower s) /\ valid_pub 2 d = true /\ length d = (ed25519_compr_len - 1)%nat).
Proof.
  intros vp s d. split; [exact (Lemmas.AddrAcceptText.egld_accepts_iff vp bech32_decode s d)|
                         exact (Lemmas.AddrAcceptText.egld_accepted_is_encoding vp s d)].
Qed.
Print Assumptions egld_decode_accepts_iff.

(* Injective, Zilliqa; Okex / One (decode through EthAddrDecoder without EIP-55) *)
Theorem inj_zil_okex_one_decode_accepts_iff : forall (keccak256 : list N -> list N) hrp s d,
  (inj_decode bech32_decode s = Ok d <-> bech32_decode inj_hrp s = Ok d /\ length d = Nat.div eth_addr_len 2) /\
  (zil_decode bech32_decode s = Ok d <-> bech32_decode zil_hrp s = Ok d /\ length d = zil_hash_len) /\
  (ethb32_decode keccak256 bech32_decode hrp s = Ok d <-> bech32_decode hrp s = Ok d /\ length d = 20%nat) /\
  (inj_decode bech32_decode s = Ok d -> bech32_encode inj_hrp d = Ok (py_lower s) /\ length d = 20%nat) /\
  (zil_decode bech32_decode s = Ok d -> bech32_encode zil_hrp d = Ok (py_lower s) /\ length d = zil_hash_len) /\
  (ethb32_decode keccak256 bech32_decode hrp s = Ok d -> bech32_encode hrp d = Ok (py_lower s) /\ length d = 20%nat).
Proof.
  intros kec hrp s d. split; [exact (Lemmas.AddrAcceptText.inj_accepts_iff bech32_decode s d)|].
  split; [exact (Lemmas.AddrAcceptText.zil_accepts_iff bech32_decode s d)|].
  split; [exact (Lemmas.AddrAcceptText.ethb32_accepts_iff_concrete kec hrp s d)|].
  split; [exact (Lemmas.AddrAcceptText.inj_accepted_is_encoding s d)|].
  split; [exact (Lemmas.AddrAcceptText.zil_accepted_is_encoding s d)|exact (Lemmas.AddrAcceptText.ethb32_accepted_is_encoding kec hrp s d)].
Qed.
Print Assumptions inj_zil_okex_one_decode_accepts_iff.

(* ================================================================== SegWit / CashAddr addresses *)
(* P2WPKH: version 0 and a 20-byte program; accepted = the SegWit encoder's text for the returned key hash *)
Theorem p2wpkh_decode_accepts_iff : forall hrp s d,
  (p2wpkh_decode segwit_decode hrp s = Ok d <->
   segwit_decode hrp s = Ok (p2wpkh_wit_ver, d) /\ length d = hash160_len) /\
  (p2wpkh_decode segwit_decode hrp s = Ok d ->
   segwit_encode hrp p2wpkh_wit_ver d = Ok (py_lower s) /\ length d = hash160_len).
Proof.
  intros hrp s d. split; [exact (Lemmas.AddrAcceptText.p2wpkh_accepts_iff segwit_decode hrp s d)|
                          exact (Lemmas.AddrAcceptText.p2wpkh_accepted_is_encoding hrp s d)].
Qed.
Print Assumptions p2wpkh_decode_accepts_iff.

(* the SegWit layer alone admits 32-byte programs for version 0 (P2WSH); the address decoder refuses them
   (witness of the repaired finding C10-P2WPKH-LEN: bc1qqqqsyqcyq5rqwzqfpg9scrgwpugpzysnzs23v9ccrydpk8qarc0szrtjt7) *)
Theorem p2wpkh_rejects_p2wsh : exists hrp s prog,
  segwit_decode hrp s = Ok (0, prog) /\ length prog = 32%nat /\ p2wpkh_decode segwit_decode hrp s = Err ValueError.
Proof. exact Lemmas.AddrAcceptText.p2wpkh_rejects_p2wsh. Qed.
Print Assumptions p2wpkh_rejects_p2wsh.

Example p2wpkh_accepted_example : exists d,
  p2wpkh_decode segwit_decode [98; 99] [66; 67; 49; 81; 87; 53; 48; 56; 68; 54; 81; 69; 74; 88; 84; 68; 71; 52; 89; 53; 82;
    51; 90; 65; 82; 86; 65; 82; 89; 48; 67; 53; 88; 87; 55; 75; 86; 56; 70; 51; 84; 52] = Ok d.
Proof. eexists. vm_compute. reflexivity. Qed.   (* BC1QW508D6QEJXTDG4Y5R3ZARVARY0C5XW7KV8F3T4 *)
Print Assumptions p2wpkh_accepted_example.

(* P2TR: version 1 and 32 bytes (whether they are the x coordinate of a curve point is not examined by the
   decoder, nor by BIP-350 address decoding); Bitcoin Cash P2PKH / P2SH: CashAddr version byte and 20 bytes *)
Theorem p2tr_bch_decode_accepts_iff : forall hrp net_ver s d,
  (p2tr_decode segwit_decode hrp s = Ok d <->
   segwit_decode hrp s = Ok (p2tr_wit_ver, d) /\ length d = (secp_compr_len - 1)%nat) /\
  (p2tr_decode segwit_decode hrp s = Ok d -> segwit_encode hrp p2tr_wit_ver d = Ok (py_lower s) /\ length d = 32%nat) /\
  (bch_decode cash_decode hrp net_ver s = Ok d <-> cash_decode hrp s = Ok (net_ver, d) /\ length d = hash160_len) /\
  (bch_decode cash_decode hrp net_ver s = Ok d ->
   cash_encode hrp net_ver d = Ok (py_lower s) /\ length d = hash160_len /\ length net_ver = 1%nat).
Proof.
  intros hrp nv s d. split; [exact (Lemmas.AddrAcceptText.p2tr_accepts_iff segwit_decode hrp s d)|].
  split; [exact (Lemmas.AddrAcceptText.p2tr_accepted_is_encoding hrp s d)|].
  split; [exact (Lemmas.AddrAcceptText.bch_accepts_iff cash_decode hrp nv s d)|exact (Lemmas.AddrAcceptText.bch_accepted_is_encoding hrp nv s d)].
Qed.
Print Assumptions p2tr_bch_decode_accepts_iff.

(* ================================================================== Substrate (SS58): accepted = encoder output *)
Theorem substrate_decode_accepts_iff : forall (blake2b512 : list N -> list N) (valid_pub : N -> list N -> bool),
  (forall x, length (blake2b512 x) = 64%nat) -> (forall x, bytes_ok (blake2b512 x)) ->
  forall curve fmt s d,
  substrate_decode valid_pub (AddrCodecs.ss58_dec blake2b512) curve fmt s = Ok d <->
  substrate_encode (AddrCodecs.ss58_enc blake2b512) fmt d = Ok s /\ bytes_ok d /\ valid_pub curve d = true.
Proof. exact Lemmas.AddrAcceptText.substrate_accepts_iff_concrete. Qed.
Print Assumptions substrate_decode_accepts_iff.
(* ================================================================== Base32 formats *)
Notation b32_dec := AddrCodecs.b32_dec.               (* Base32Decoder.Decode on the C11 codec model *)
Notation b32_enc_nopad := AddrCodecs.b32_enc_nopad.   (* Base32Encoder.EncodeNoPadding *)
Notation b32_alph_ok := Lemmas.Base32.custom_ok.           (* None, or 32 distinct symbols without '=' *)
Notation b32_eff := Lemmas.Base32.eff.
Notation zero_hash := Lemmas.AddrAcceptB32.zero_hash.      (* fun _ => 32 zero bytes *)
Notation zero_blake := Lemmas.AddrAcceptB32.zero_blake.    (* fun n _ => n zero bytes *)
Notation any_valid := Lemmas.AddrAcceptB32.any_valid.      (* every key valid *)

(* what Base32Decoder.Decode accepts: symbols of the alphabet, then a run of '=' (which with the padding the
   library adds has one of the lengths 0,1,3,4,6 and completes a multiple of 8), and the symbols regroup to the
   returned bytes with [bits] < 5 left-over bits of ARBITRARY value [pend] *)
Theorem base32_decode_accepted_shape : forall al s d, b32_alph_ok al -> b32_dec al s = Ok d ->
  exists ds k bits pend, s = map (sym32 (b32_eff al)) ds ++ repeat rfc_pad k /\ Radix.digits_ok 32 ds /\
    (exists j : nat, In (k + j)%nat [0; 1; 3; 4; 6]%nat /\ ((length ds + (k + j)) mod 8 = 0)%nat) /\ bytes_ok d /\
    bits < 5 /\ pend < 2 ^ bits /\ 5 * N.of_nat (length ds) = 8 * N.of_nat (length d) + bits /\
    Radix.from_be 32 ds = be_to_int d * 2 ^ bits + pend.
Proof. exact Lemmas.AddrAcceptB32.b32_dec_inv. Qed.
Print Assumptions base32_decode_accepted_shape.

(* canonical form: no '=' and zero left-over bits => the string is EncodeNoPadding of the bytes; byte counts that
   are multiples of 5 leave no spare bits and no room for '=': there, accepted = encoder output *)
Theorem base32_canonical_form : forall al,  b32_alph_ok al ->
  (forall ds d bits, Radix.digits_ok 32 ds -> bytes_ok d -> bits < 5 ->
     5 * N.of_nat (length ds) = 8 * N.of_nat (length d) + bits -> Radix.from_be 32 ds = be_to_int d * 2 ^ bits ->
     b32_enc_nopad al d = Ok (map (sym32 (b32_eff al)) ds)) /\
  (forall s d, b32_dec al s = Ok d -> (length d mod 5 = 0)%nat -> b32_enc_nopad al d = Ok s).
Proof.
  intros al Ha. split; [intros ds d bits; exact (Lemmas.AddrAcceptB32.b32_dec_canonical al ds d bits Ha)|
                        intros s d; exact (Lemmas.AddrAcceptB32.b32_dec_canonical_exact al s d Ha)].
Qed.
Print Assumptions base32_canonical_form.

Definition hash_laws (h : list N -> list N) (n : nat) : Prop := (forall x, length (h x) = n) /\ (forall x, bytes_ok (h x)).
Definition xof_laws (h : nat -> list N -> list N) : Prop := (forall n x, length (h n x) = n) /\ (forall n x, bytes_ok (h n x)).

(* Algorand: 36 bytes are 58 symbols with two spare bits; the decoder re-encodes and compares, so:
   accepted <-> the string is the encoder's output for a valid 32-byte key *)
Theorem algo_decode_accepts_iff : forall (sha512_256 : list N -> list N) (valid_pub : N -> list N -> bool) s pub,
  (algo_decode sha512_256 valid_pub b32_enc_nopad b32_dec s = Ok pub <->
   b32_dec None s = Ok (pub ++ algo_checksum sha512_256 pub) /\ algo_encode sha512_256 b32_enc_nopad pub = Ok s /\
   length pub = (ed25519_compr_len - 1)%nat /\ length (algo_checksum sha512_256 pub) = algo_cklen /\ valid_pub 2 pub = true) /\
  (hash_laws sha512_256 32 ->
   (algo_decode sha512_256 valid_pub b32_enc_nopad b32_dec s = Ok pub <->
    algo_encode sha512_256 b32_enc_nopad pub = Ok s /\ bytes_ok pub /\ length pub = (ed25519_compr_len - 1)%nat /\
    valid_pub 2 pub = true)).
Proof.
  intros h vp s pub. split; [exact (Lemmas.AddrAcceptB32.algo_accepts_iff h vp b32_enc_nopad b32_dec s pub)|].
  intros [H1 H2]. exact (Lemmas.AddrAcceptB32.algo_accepts_iff_concrete h vp H1 H2 s pub).
Qed.
Print Assumptions algo_decode_accepts_iff.

(* Stellar: 35 bytes = 56 symbols, no spare bits: accepted <-> the encoder's output for a valid key *)
Theorem xlm_decode_accepts_iff : forall (valid_pub : N -> list N -> bool) (crc16_xmodem : list N -> list N) t s pub,
  (xlm_decode valid_pub crc16_xmodem b32_dec t s = Ok pub <->
   b32_dec None s = Ok ((t :: pub) ++ xlm_checksum crc16_xmodem (t :: pub)) /\
   length pub = (ed25519_compr_len - 1)%nat /\ length (xlm_checksum crc16_xmodem (t :: pub)) = xlm_cklen /\
   valid_pub 2 pub = true) /\
  (xlm_decode valid_pub crc16_xmodem b32_dec t s = Ok pub ->
   xlm_encode crc16_xmodem b32_enc_nopad t pub = Ok s /\ valid_pub 2 pub = true /\ length pub = (ed25519_compr_len - 1)%nat) /\
  (hash_laws crc16_xmodem 2 -> t < 256 ->
   (xlm_decode valid_pub crc16_xmodem b32_dec t s = Ok pub <->
    xlm_encode crc16_xmodem b32_enc_nopad t pub = Ok s /\ bytes_ok pub /\ length pub = (ed25519_compr_len - 1)%nat /\
    valid_pub 2 pub = true)).
Proof.
  intros vp crc t s pub. split; [exact (Lemmas.AddrAcceptB32.xlm_accepts_iff vp crc b32_dec t s pub)|].
  split; [exact (Lemmas.AddrAcceptB32.xlm_accepted_is_encoding crc vp t s pub)|].
  intros [H1 H2] Ht. exact (Lemmas.AddrAcceptB32.xlm_accepts_iff_concrete crc vp H1 H2 t s pub Ht).
Qed.
Print Assumptions xlm_decode_accepts_iff.

(* Filecoin: 24 bytes are 39 symbols with three spare bits; the decoder re-encodes and compares:
   accepted <-> "f1" followed by EncodeNoPadding(hash ++ checksum) for a 20-byte hash *)
Theorem fil_decode_accepts_iff : forall (blake2b : nat -> list N -> list N) s h,
  (fil_decode blake2b b32_enc_nopad b32_dec s = Ok h <->
   exists body, s = fil_prefix ++ (48 + fil_secp_type) :: body /\
     b32_dec (Some fil_alphabet) body = Ok (h ++ fil_checksum blake2b fil_secp_type h) /\
     b32_enc_nopad (Some fil_alphabet) (h ++ fil_checksum blake2b fil_secp_type h) = Ok body /\
     length h = blake2b160_len /\ length (fil_checksum blake2b fil_secp_type h) = blake2b32_len) /\
  (xof_laws blake2b ->
   (fil_decode blake2b b32_enc_nopad b32_dec s = Ok h <->
    bytes_ok h /\ length h = blake2b160_len /\
    exists body, b32_enc_nopad (Some fil_alphabet) (h ++ fil_checksum blake2b fil_secp_type h) = Ok body /\
                 s = fil_prefix ++ (48 + fil_secp_type) :: body)).
Proof.
  intros b s h. split; [exact (Lemmas.AddrAcceptB32.fil_accepts_iff b b32_enc_nopad b32_dec s h)|].
  intros [H1 H2]. exact (Lemmas.AddrAcceptB32.fil_accepts_iff_concrete b H1 H2 s h).
Qed.
Print Assumptions fil_decode_accepts_iff.

(* Nano: 40 bytes = 64 symbols, no spare bits; the bytes in front of the key are compared with zero:
   accepted <-> the encoder's output for a valid key *)
Theorem nano_decode_accepts_iff : forall (blake2b : nat -> list N -> list N) (valid_pub : N -> list N -> bool) s pub,
  (nano_decode blake2b valid_pub b32_dec s = Ok pub <->
   exists a, s = nano_prefix ++ a /\
     b32_dec (Some nano_alphabet) (nano_pad_enc ++ a) = Ok (nano_pad_dec ++ pub ++ nano_checksum blake2b pub) /\
     length pub = (ed25519_compr_len - 1)%nat /\
     length (nano_checksum blake2b pub) = blake2b40_len /\ valid_pub 3 pub = true) /\
  (nano_decode blake2b valid_pub b32_dec s = Ok pub ->
   nano_encode blake2b b32_enc_nopad pub = Ok s /\ bytes_ok pub /\ length pub = (ed25519_compr_len - 1)%nat /\
   valid_pub 3 pub = true) /\
  (xof_laws blake2b ->
   (nano_decode blake2b valid_pub b32_dec s = Ok pub <->
    nano_encode blake2b b32_enc_nopad pub = Ok s /\ bytes_ok pub /\ length pub = (ed25519_compr_len - 1)%nat /\
    valid_pub 3 pub = true)).
Proof.
  intros b vp s pub. split; [exact (Lemmas.AddrAcceptB32.nano_accepts_iff b vp b32_dec s pub)|].
  split; [exact (Lemmas.AddrAcceptB32.nano_accepted_is_encoding b vp s pub)|].
  intros [H1 H2]. exact (Lemmas.AddrAcceptB32.nano_accepts_iff_concrete b vp H1 H2 s pub).
Qed.
Print Assumptions nano_decode_accepts_iff.

(* the non-canonical spellings accepted before the repairs (C10-ALGO-NONCANON, C10-FIL-NONCANON, C10-NANO-PADBITS)
   are refused, although the Base32 layer still decodes them to the same bytes.  Instance: constant-zero hashes.
   Algorand "AAA...A" (58) vs "AAA...AB", "AAA...A======"; Filecoin "f1aaa...a" (39) vs "...ah", "...a=";
   Nano "nano_111...1" (60) vs "nano_4111...1" *)
Theorem base32_noncanonical_rejected :
  (exists s1 s2 s3 pub d,
    algo_encode zero_hash b32_enc_nopad pub = Ok s1 /\
    b32_dec None s1 = Ok d /\ b32_dec None s2 = Ok d /\ b32_dec None s3 = Ok d /\
    algo_decode zero_hash any_valid b32_enc_nopad b32_dec s1 = Ok pub /\
    algo_decode zero_hash any_valid b32_enc_nopad b32_dec s2 = Err ValueError /\
    algo_decode zero_hash any_valid b32_enc_nopad b32_dec s3 = Err ValueError) /\
  (exists s1 s2 s3 pub_u,
    fil_encode zero_blake b32_enc_nopad pub_u = Ok s1 /\
    fil_decode zero_blake b32_enc_nopad b32_dec s1 = Ok (zero_blake blake2b160_len pub_u) /\
    fil_decode zero_blake b32_enc_nopad b32_dec s2 = Err ValueError /\
    fil_decode zero_blake b32_enc_nopad b32_dec s3 = Err ValueError) /\
  (exists s1 s2 pub,
    nano_encode zero_blake b32_enc_nopad pub = Ok s1 /\
    nano_decode zero_blake any_valid b32_dec s1 = Ok pub /\
    nano_decode zero_blake any_valid b32_dec s2 = Err ValueError).
Proof. exact Lemmas.AddrAcceptB32.base32_noncanonical_rejected. Qed.
Print Assumptions base32_noncanonical_rejected.

(* Nimiq: spaces are free (str.replace(' ', '')); otherwise the encoder's text (20 bytes = 32 symbols) *)
Theorem nim_decode_accepts_iff : forall s d,
  (nim_decode b32_dec s = Ok d <->
   exists body, filter (fun c => negb (c =? 32)) s = nim_prefix ++ nim_checksum body ++ body /\
     length body = nim_hash_enc_len /\ forallb (fun c => memb c nim_alphabet) body = true /\
     b32_dec (Some nim_alphabet) body = Ok d) /\
  (nim_decode b32_dec s = Ok d ->
   length d = nim_hash_len /\
   exists body, b32_enc_nopad (Some nim_alphabet) d = Ok body /\
     filter (fun c => negb (c =? 32)) s = nim_prefix ++ nim_checksum body ++ body).
Proof.
  intros s d. split; [exact (Lemmas.AddrAcceptB32.nim_accepts_iff b32_dec s d)|exact (Lemmas.AddrAcceptB32.nim_accepted_is_encoding s d)].
Qed.
Print Assumptions nim_decode_accepts_iff.

(* ================================================================== Monero *)
Section XmrStatements.
  Variable keccak : list N -> list N.
  Variable G : Type.
  Variable pdec : list N -> option G.
  Hypothesis keccak_len : forall x, length (keccak x) = 32%nat.
  Notation xmr_decode_addr := (AddrXmr.decode_addr keccak G pdec).
  Notation xmr_encode_key := (AddrXmr.encode_key keccak G pdec).
  Notation xmr_addr_bytes := (AddrXmr.addr_bytes keccak).     (* net ‖ spend ‖ view ‖ id ‖ Keccak(..)[:4] *)
  Notation key_valid := (EdLib.pub_is_valid G pdec).
  Notation pid_of := Lemmas.AddrAcceptXmr.pid_of.               (* the expected payment id, [] if none *)
  Notation pid_ok := Lemmas.AddrAcceptXmr.pid_ok.               (* an expected payment id has 8 bytes *)

  (* payid = None: XmrAddrDecoder; payid = Some p: XmrIntegratedAddrDecoder.
     accepted <-> the block-Base58 decoding is the address layout for two valid keys and EXACTLY the expected id *)
  Theorem xmr_addr_decode_accepts_iff : forall s net payid out,
    xmr_decode_addr s net payid = Ok out <->
    exists ps pv,
      AddrXmr.b58x_decode s = Ok (xmr_addr_bytes net ps pv (pid_of payid)) /\ pid_ok payid /\
      length ps = 32%nat /\ length pv = 32%nat /\ key_valid ps = true /\ key_valid pv = true /\ out = ps ++ pv.
  Proof. exact (Lemmas.AddrAcceptXmr.decode_addr_accepts_iff keccak G pdec keccak_len). Qed.

  (* exact equality with the encoder (Base58 has no case rule): accepted <-> the string is the output of
     XmrAddrEncoder / XmrIntegratedAddrEncoder for two valid keys.  Unconditional: canonicity of the block-Base58
     decoder of Model/XmrB58.v is Lemmas/LinkXmr.v b58x_encode_decode (XmrB58 = Base58Xmr extensionally, canonicity
     transported from xmr_b58_accepts_iff above) *)
  Theorem xmr_addr_decode_accepts_iff_encoder :
    (forall x, bytes_ok (keccak x)) ->
    forall s net payid out, bytes_ok net -> (match payid with Some p => bytes_ok p | None => True end) ->
    (xmr_decode_addr s net payid = Ok out <->
     exists ps pv, out = ps ++ pv /\ length ps = 32%nat /\ length pv = 32%nat /\ bytes_ok ps /\ bytes_ok pv /\
                   key_valid ps = true /\ key_valid pv = true /\ xmr_encode_key ps pv net payid = Ok s).
  Proof. exact (Lemmas.AddrAcceptXmrLink.decode_addr_accepts_iff_encoder keccak G pdec keccak_len). Qed.
End XmrStatements.
Print Assumptions xmr_addr_decode_accepts_iff.
Print Assumptions xmr_addr_decode_accepts_iff_encoder.

(* the witness of the repaired finding C10-XMR-INTEG-LEN: the text of a STANDARD address (no room for a payment id)
   is refused by the integrated decoder for EVERY expected payment id.  Instance: constant-zero Keccak. *)
Theorem xmr_integrated_rejects_plain_payload : exists s net,
  AddrXmr.encode_key Lemmas.AddrAcceptXmr.zero_keccak unit Lemmas.AddrAcceptXmr.all_keys (repeat 0 32) (repeat 0 32) net None = Ok s /\
  AddrXmr.decode_addr Lemmas.AddrAcceptXmr.zero_keccak unit Lemmas.AddrAcceptXmr.all_keys s net None = Ok (repeat 0 64) /\
  forall p, AddrXmr.decode_addr Lemmas.AddrAcceptXmr.zero_keccak unit Lemmas.AddrAcceptXmr.all_keys s net (Some p) = Err ValueError.
Proof. exact Lemmas.AddrAcceptXmr.integrated_rejects_plain_payload. Qed.
Print Assumptions xmr_integrated_rejects_plain_payload.

(* ================================================================== Cardano Shelley *)
(* header byte: type 0000 (payment key + stake key) resp. 1110 (reward) in the high nibble, network tag in the low *)
Theorem ada_shelley_decode_accepts_iff : forall (b32dec : list N -> list N -> option (list N)) net s d, In net ada_nets ->
  (decode_payment b32dec net s = Ok d <->
   b32dec (net_hrp net) s = Some ([0 * 16 + net_tag net] ++ d) /\ length d = (28 + 28)%nat) /\
  (decode_staking b32dec net s = Ok d <->
   b32dec (net_stake_hrp net) s = Some ([14 * 16 + net_tag net] ++ d) /\ length d = 28%nat).
Proof.
  intros f net s d Hn. split; [exact (Lemmas.AddrAcceptAda.decode_payment_accepts_iff f net s d Hn)|
                               exact (Lemmas.AddrAcceptAda.decode_staking_accepts_iff f net s d Hn)].
Qed.
Print Assumptions ada_shelley_decode_accepts_iff.

(* on the Bech32 model above *)
Theorem ada_shelley_accepted_is_encoding : forall net s d, In net ada_nets ->
  (decode_payment Lemmas.AddrAcceptAda.bech32_dec_opt net s = Ok d ->
   bech32_encode (net_hrp net) ([0 * 16 + net_tag net] ++ d) = Ok (py_lower s) /\ length d = 56%nat) /\
  (decode_staking Lemmas.AddrAcceptAda.bech32_dec_opt net s = Ok d ->
   bech32_encode (net_stake_hrp net) ([14 * 16 + net_tag net] ++ d) = Ok (py_lower s) /\ length d = 28%nat).
Proof.
  intros net s d Hn. split; [exact (Lemmas.AddrAcceptAda.shelley_payment_accepted_is_encoding net s d Hn)|
                             exact (Lemmas.AddrAcceptAda.shelley_staking_accepted_is_encoding net s d Hn)].
Qed.
Print Assumptions ada_shelley_accepted_is_encoding.

(* ================================================================== Cardano Byron (cbor2 is an oracle) *)
Theorem ada_byron_decode_accepts_iff : forall (crc32 : list N -> N) (parse_outer : list N -> option (N * list N * N))
    (parse_payload : list N -> option (list N * option (list N) * N)) (parse_bytes : list N -> option (list N)) s out,
  AddrAdaByron.decode_addr crc32 parse_outer parse_payload parse_bytes s = Ok out <->
  exists ser value rh attr1 enc,
    AddrAdaByron.b58dec s = Ok ser /\ parse_outer ser = Some (ada_byron_payload_tag, value, crc32 value) /\
    parse_payload value = Some (rh, attr1, ada_byron_type_pubkey) /\ length rh = ada_keyhash_len /\
    match attr1 with Some v => parse_bytes v = enc /\ enc <> None | None => enc = None end /\
    out = rh ++ Lemmas.AddrAcceptAda.enc_tail enc.
Proof. exact Lemmas.AddrAcceptAda.byron_decode_accepts_iff. Qed.
Print Assumptions ada_byron_decode_accepts_iff.

(* with parsers that accept canonical CBOR only, accepted = the encoder's text for the returned hash and path *)
Theorem ada_byron_accepted_partial : forall (crc32 : list N -> N) (parse_outer : list N -> option (N * list N * N))
    (parse_payload : list N -> option (list N * option (list N) * N)) (parse_bytes : list N -> option (list N)),
  (forall ser t v c, parse_outer ser = Some (t, v, c) -> ser = cbor_array [cbor_tag t (cbor_bytes v); cbor_uint c]) ->
  (forall v rh a ty, parse_payload v = Some (rh, a, ty) ->
     v = cbor_array [cbor_bytes rh; match a with Some x => cbor_map [(cbor_uint 1, cbor_bytes x)] | None => cbor_map [] end;
                     cbor_uint ty]) ->
  (forall x e, parse_bytes x = Some e -> x = cbor_bytes e) ->
  forall s out, AddrAdaByron.decode_addr crc32 parse_outer parse_payload parse_bytes s = Ok out ->
  exists rh enc, s = AddrAdaByron.b58enc (AddrAdaByron.addr_cbor crc32 (AddrAdaByron.payload_cbor rh enc ada_byron_type_pubkey)) /\
    length rh = ada_keyhash_len /\ out = rh ++ Lemmas.AddrAcceptAda.enc_tail enc.
Proof. exact Lemmas.AddrAcceptAda.byron_accepted_partial. Qed.
Print Assumptions ada_byron_accepted_partial.

(* without that hypothesis it is FALSE, already for parsers satisfying every law the C18 round-trip theorem assumes
   of cbor2: s2 writes the CRC in a non-minimal head (well-formed CBOR per RFC 8949, accepted by cbor2 and by the
   library).  Bytes after the CBOR item are refused by a reader that demands exactly one item, as the repaired
   library does (findings C10-BYRON-TRAILING and C10-BYRON-CBOR-LAX, fixed; the latter also made attribute 1 exactly one
   byte-string item and the CRC / type integers proper): second clause *)
Theorem ada_byron_canonical_refuted :
  (exists s1 s2 out,
    AddrAdaByron.encode_key Lemmas.AddrAcceptAda.zero28 Lemmas.AddrAcceptAda.zero28 Lemmas.AddrAcceptAda.zero_crc [] [] None = s1 /\
    s2 <> s1 /\
    AddrAdaByron.decode_addr Lemmas.AddrAcceptAda.zero_crc Lemmas.CborEnc.toy_parse_outer Lemmas.CborEnc.toy_parse_payload
      Lemmas.CborEnc.toy_parse_bytes s1 = Ok out /\
    AddrAdaByron.decode_addr Lemmas.AddrAcceptAda.zero_crc Lemmas.CborEnc.toy_parse_outer Lemmas.CborEnc.toy_parse_payload
      Lemmas.CborEnc.toy_parse_bytes s2 = Ok out) /\
  (exists s1 s3 out,
    AddrAdaByron.encode_key Lemmas.AddrAcceptAda.zero28 Lemmas.AddrAcceptAda.zero28 Lemmas.AddrAcceptAda.zero_crc [] [] None = s1 /\
    AddrAdaByron.b58dec s3 = rmap (fun b => b ++ [0]) (AddrAdaByron.b58dec s1) /\
    AddrAdaByron.decode_addr Lemmas.AddrAcceptAda.zero_crc Lemmas.CborEnc.toy_parse_outer Lemmas.CborEnc.toy_parse_payload
      Lemmas.CborEnc.toy_parse_bytes s1 = Ok out /\
    AddrAdaByron.decode_addr Lemmas.AddrAcceptAda.zero_crc Lemmas.CborEnc.toy_parse_outer Lemmas.CborEnc.toy_parse_payload
      Lemmas.CborEnc.toy_parse_bytes s3 = Err ValueError).
Proof. split; [exact Lemmas.AddrAcceptAda.byron_canonical_refuted|exact Lemmas.AddrAcceptAda.byron_trailing_byte_rejected]. Qed.
Print Assumptions ada_byron_canonical_refuted.

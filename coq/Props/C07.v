(* C07 -- BIP-44/49/84/86/CIP-1852 level discipline holds for every call sequence.
   Statements only; every proof is [exact <lemma>] with Print Assumptions beneath.

   Model: Model/Bip44.v (state = depth, public-only flag, last index, lineage (origin, path), key
   material; operations = the six level methods, the four key-import constructors applied to the
   current key with own / arbitrary / default depth metadata, and -- outside the API proper -- the
   accessor's ConvertToPublic).  All constants come from Gen/Bip44Params.v.  The theorems hold for
   every key type K and every pair of child-derivation functions (abstract ckd).
   A history is: cls.FromSeed, then any list of operations; an operation that raises leaves the
   object it was called on unchanged (exec), so histories with failing calls are included. *)
From Coq Require Import NArith ZArith List Bool.
From BU Require Import Base.Exn Gen.Bip44Params Model.Bip44.
From BU Require Lemmas.Bip44 Lemmas.ObjectsConstsOk.
Import ListNotations.
Open Scope N_scope.

(* An operation with a level guard: a non-member argument of Change raises TypeError; at any other
   level than its own it raises Bip44DepthError and has no effect; at its level (on an object the
   constructor admits) it is exactly Bip32 ChildKey with the index prescribed by the hardening rule. *)
Theorem op_guard : forall K (ckd_priv ckd_pub : K -> N -> res K) c (s : state K) o l iz,
  op_index c o = Some (l, iz) ->
  (well_typed o = false -> step K ckd_priv ckd_pub c s o = Err TypeError) /\
  (well_typed o = true -> depth s <> l ->
     step K ckd_priv ckd_pub c s o = Err (LibError Bip44DepthError) /\ exec K ckd_priv ckd_pub c s o = s) /\
  (well_typed o = true -> depth s = l -> (pub_only s = true -> 3 <= depth s) ->
     step K ckd_priv ckd_pub c s o = child_key K ckd_priv ckd_pub c s iz).
Proof. exact Lemmas.Bip44.op_guard. Qed.
Print Assumptions op_guard.

(* ... and ChildKey has exactly these outcomes: success one level down with the index appended;
   ValueError iff the index is outside 0..2^32-1; Bip32KeyError iff the derivation is refused
   (hardened child of a public-only object, or a curve without that kind of derivation);
   otherwise whatever the key derivator itself raises. *)
Theorem child_key_outcomes : forall K (ckd_priv ckd_pub : K -> N -> res K) c (s : state K) iz,
  match child_key K ckd_priv ckd_pub c s iz with
  | inl s' => exists i, mk_index iz = Ok i /\ child_refused (c_pubderiv c) (pub_only s) i = false /\
                depth s' = depth s + 1 /\ pub_only s' = pub_only s /\ index s' = i /\ path s' = path s ++ [i]
  | inr e => (e = ValueError /\ mk_index iz = Err ValueError) \/
             (e = LibError Bip32KeyError /\
              exists i, mk_index iz = Ok i /\ child_refused (c_pubderiv c) (pub_only s) i = true) \/
             (exists i, mk_index iz = Ok i /\ (if pub_only s then ckd_pub else ckd_priv) (key s) i = Err e)
  end.
Proof. exact Lemmas.Bip44.child_key_outcomes. Qed.
Print Assumptions child_key_outcomes.

Theorem default_path_guard : forall K (ckd_priv ckd_pub : K -> N -> res K) c (s : state K),
  depth s <> 0 ->
  step K ckd_priv ckd_pub c s DeriveDefaultPath = Err (LibError Bip44DepthError) /\
  exec K ckd_priv ckd_pub c s DeriveDefaultPath = s.
Proof. exact Lemmas.Bip44.default_path_guard. Qed.
Print Assumptions default_path_guard.

(* After any history through the API, for every coin enum member: Level() succeeds and equals the
   depth; depth <= 5; the path derived since the last import sits at positions origin.. of
   m/purpose'/coin'/account'/change/index (slot_ok: purpose and coin fixed by the hierarchy and the
   coin, account hardened, change a Bip44Changes value, change/index hardened iff the curve lacks
   public derivation); without re-import under foreign metadata (origin 0) the whole path is the
   depth-long prefix of the canonical path for some arguments a, ch, i. *)
Theorem level_invariant : forall K (ckd_priv ckd_pub : K -> N -> res K) c k0 s0 ops,
  In c all_coins -> from_seed K k0 = Ok s0 -> forallb api_op ops = true ->
  let s := run K ckd_priv ckd_pub c s0 ops in
  level K s = Ok (depth s) /\ depth s <= 5 /\
  depth s = origin s + N.of_nat (length (path s)) /\
  (forall k x, nth_error (path s) k = Some x -> slot_ok c (origin s + N.of_nat k) x) /\
  (path s <> [] -> index s = last (path s) 0) /\
  (origin s = 0 -> exists a ch i, In ch change_values /\
                     path s = firstn (N.to_nat (depth s)) (canonical c a ch i)).
Proof. exact Lemmas.Bip44.level_invariant_full. Qed.
Print Assumptions level_invariant.

(* Public-only objects exist only from account level down to address level -- for histories
   through the Bip44 API (the four import constructors with arbitrary depth metadata included). *)
Theorem public_only_levels : forall K (ckd_priv ckd_pub : K -> N -> res K) c k0 s0 ops,
  In c all_coins -> from_seed K k0 = Ok s0 -> forallb api_op ops = true ->
  pub_only (run K ckd_priv ckd_pub c s0 ops) = true -> 3 <= depth (run K ckd_priv ckd_pub c s0 ops) <= 5.
Proof. exact Lemmas.Bip44.public_only_levels. Qed.
Print Assumptions public_only_levels.

(* FULL STATEMENT (false, finding F20): the same without [forallb api_op ops = true], i.e. for
   histories that also call ConvertToPublic() on the object returned by Bip32Object().
   Witness: FromSeed(..).Bip32Object().ConvertToPublic() is public-only at master level. *)
Theorem public_only_levels_refuted_via_bip32object : forall c,
  exists ops, match from_seed unit tt with
              | inl s0 => let s := run unit (fun _ _ => Ok tt) (fun _ _ => Ok tt) c s0 ops in
                          pub_only s = true /\ depth s = 0
              | inr _ => False end.
Proof. exact Lemmas.Bip44.public_only_levels_refuted. Qed.
Print Assumptions public_only_levels_refuted_via_bip32object.

(* Default-path derivation equals the manual derivation Purpose().Coin().Account(a)[.Change(c)
   [.AddressIndex(i)]] spelled out by the coin's default path, from every state, error cases
   included -- for every member of the five coin enums. *)
Theorem default_path_is_manual : forall K (ckd_priv ckd_pub : K -> N -> res K) c,
  In c all_coins ->
  exists ops, manual_ops c 2 (c_defpath c) = Some ops /\
    forall s : state K, step K ckd_priv ckd_pub c s DeriveDefaultPath =
                        chain K ckd_priv ckd_pub c s (Purpose :: Coin :: ops).
Proof.
  intros K ckd_priv ckd_pub c H. destruct (Lemmas.Bip44.all_coins_manual c H) as (ops & M).
  exists ops. split; [exact M|]. intros s.
  exact (Lemmas.Bip44.default_path_is_manual K ckd_priv ckd_pub c s ops (Lemmas.Bip44.all_coins_wf c H) M).
Qed.
Print Assumptions default_path_is_manual.

(* Keys equal plain Bip32 private derivation from the master key along the canonical path, for
   every history that keeps the lineage (level methods, default path, re-import of the own
   extended key -- conversion to public-only included).  Hypothesis (C04): public derivation
   agrees with private derivation on not-hardened indices. *)
Theorem keys_equal_plain_derivation : forall K (ckd_priv ckd_pub : K -> N -> res K),
  (forall k i, is_hardened i = false -> ckd_pub k i = ckd_priv k i) ->
  forall c k0 s0 ops, In c all_coins -> from_seed K k0 = Ok s0 ->
  forallb api_op ops = true -> forallb lineage_op ops = true ->
  exists a ch i, In ch change_values /\
    plain_derive K ckd_priv k0 (firstn (N.to_nat (depth (run K ckd_priv ckd_pub c s0 ops))) (canonical c a ch i))
    = Ok (key (run K ckd_priv ckd_pub c s0 ops)).
Proof.
  intros K ckd_priv ckd_pub H c k0 s0 ops Hc.
  exact (Lemmas.Bip44.keys_from_seed K ckd_priv ckd_pub H c k0 s0 ops (Lemmas.Bip44.all_coins_wf c Hc)).
Qed.
Print Assumptions keys_equal_plain_derivation.

(* ... and from any object, not only the master one: the key is the plain derivation of the
   starting key along the indices appended to the path. *)
Theorem keys_follow_path : forall K (ckd_priv ckd_pub : K -> N -> res K),
  (forall k i, is_hardened i = false -> ckd_pub k i = ckd_priv k i) ->
  forall c (s : state K) ops, forallb lineage_op ops = true ->
  origin (run K ckd_priv ckd_pub c s ops) = origin s /\
  exists p, path (run K ckd_priv ckd_pub c s ops) = path s ++ p /\
            plain_derive K ckd_priv (key s) p = Ok (key (run K ckd_priv ckd_pub c s ops)).
Proof. intros K ckd_priv ckd_pub H c s ops. exact (Lemmas.Bip44.run_lineage K ckd_priv ckd_pub H c ops s). Qed.
Print Assumptions keys_follow_path.

(* The numbers the statements above rely on, as the source has them today. *)
Theorem level_constants :
  guard_purpose = 0 /\ guard_coin = 1 /\ guard_account = 2 /\ guard_change = 3 /\ guard_addr = 4.
Proof. exact Lemmas.ObjectsConstsOk.guards_ok. Qed.
Print Assumptions level_constants.

Theorem purposes_are_standard :
  purposes = [(0, hardenN 44); (1, hardenN 49); (2, hardenN 84); (3, hardenN 86); (4, hardenN 1852)].
Proof. exact Lemmas.ObjectsConstsOk.purposes_ok. Qed.
Print Assumptions purposes_are_standard.

(* ---- premises are satisfiable / the model does something: concrete histories ---- *)
Definition ex_coin : coin := nth 0 all_coins (mkCoin 0 0 true [] false).
Definition ex_run (ops : list op) : option (N * bool * list N) :=
  match from_seed unit tt with
  | inl s0 => let s := run unit (fun _ _ => Ok tt) (fun _ _ => Ok tt) ex_coin s0 ops in
              Some (depth s, pub_only s, path s)
  | inr _ => None
  end.

(* the legal walk, with an illegal call and a conversion to public-only in the middle *)
Example legal_walk :
  In ex_coin all_coins /\
  ex_run [Purpose; Purpose; Coin; Account 7; AddressIndex 0; ReimportExt true None; Change 1; AddressIndex 5]
  = Some (5, true, canonical ex_coin 7 1 5).
Proof. split; [left; reflexivity|vm_compute; reflexivity]. Qed.
Print Assumptions legal_walk.

(* a public-only import at coin level is refused, at account level accepted *)
Example import_bounds :
  ex_run [Purpose; Coin; ReimportRaw true (Some (2, 0))] = Some (2, false, [c_purpose ex_coin; hardenN (c_index ex_coin)]) /\
  ex_run [Purpose; Coin; ReimportRaw true (Some (3, 0))] = Some (3, true, []).
Proof. split; vm_compute; reflexivity. Qed.
Print Assumptions import_bounds.

(* the hypothesis of keys_equal_plain_derivation is satisfiable, and the conclusion is what one
   expects on a concrete derivation function (key = reversed list of the indices applied) *)
Example keys_premise_satisfiable :
  let ckd := fun (k : list N) (i : N) => (Ok (i :: k) : res (list N)) in
  (forall k i, is_hardened i = false -> ckd k i = ckd k i) /\
  match from_seed (list N) [] with
  | inl s0 => key (run (list N) ckd ckd ex_coin s0
                     [Purpose; Coin; Account 0; ReimportExt true None; Change 0; AddressIndex 9])
              = rev (canonical ex_coin 0 0 9)
  | inr _ => False
  end.
Proof. split; [reflexivity|vm_compute; reflexivity]. Qed.
Print Assumptions keys_premise_satisfiable.

(* "purpose and coin type fixed by the standard and the coin": every (hierarchy, coin) row the
   level automaton is instantiated with -- regenerated from the source on every run -- carries the
   coin type of the committed registry snapshot (Lemmas/Registry.v). *)
From BU Require Lemmas.Bip44Registry Model.Bip44RegistryIdx.
Theorem coin_types_are_the_registry_ones :
  forall r, In r Gen.Bip44Params.coin_rows -> Bip44RegistryIdx.row_matches_registry r = true.
Proof. exact Bip44Registry.coin_row_registry. Qed.
Print Assumptions coin_types_are_the_registry_ones.

(* C05 -- Extended-key serialisation is lossless, canonical and version-checked.
   Statements only; every proof is [exact <lemma>] with Print Assumptions beneath.

   Reading guide.  [sha256] is any function with 32-byte outputs; [priv_ok] / [pub_parse] are the curve
   library's private-key validity test and public-key parser (oracles); a key-net-version pair [v] ranges over
   [bip32_key_net_versions], the list of all distinct (public, private) pairs configured by any coin
   (regenerated from /repo on every run).  [layout ver kd key] is
   ver || depth || fingerprint || be32 index || chain code || key. *)
From Coq Require Import NArith ZArith List Bool.
From BU Require Import Base.Exn Base.Bytes Gen.Consts Gen.SerbipConsts Model.Base58 Model.Bip32Data Model.Bip32Ser Model.Slip32.
From BU Require Lemmas.Base58 Lemmas.ConstsOk Lemmas.SerbipAux Lemmas.SerbipConstsOk Lemmas.Bip32Ser Lemmas.Slip32.
Import ListNotations.
Open Scope N_scope.

Notation kd_ok := Lemmas.Bip32Ser.kd_ok.
Notation kd_master_consistent := Lemmas.Bip32Ser.kd_master_consistent.
Notation layout := Lemmas.Bip32Ser.layout.
Notation be32 := Lemmas.SerbipAux.be32.
Notation B58 f := (f b58_alph_btc b58_radix b58_cklen) (only parsing).

Definition sha_law (sha256 : list N -> list N) : Prop :=
  (forall x, length (sha256 x) = 32%nat) /\ (forall x, bytes_ok (sha256 x)).

(* ---- the version table: every configured pair is 4+4 bytes and public <> private *)
Theorem key_net_versions_wf : forall v, In v bip32_key_net_versions ->
  length (fst v) = 4%nat /\ length (snd v) = 4%nat /\ bytes_ok (fst v) /\ bytes_ok (snd v) /\ fst v <> snd v.
Proof. exact SerbipConstsOk.key_net_versions_ok. Qed.
Print Assumptions key_net_versions_wf.

(* ---- ser_layout *)
Theorem ser_layout_priv : forall sha256 v kd raw, kd_ok kd ->
  B58 ser_priv sha256 v kd raw = Ok (B58 check_encode sha256 (layout (snd v) kd (0 :: raw))).
Proof. intros sha256. exact (Lemmas.Bip32Ser.ser_priv_layout _ _ _ sha256). Qed.
Print Assumptions ser_layout_priv.

Theorem ser_layout_pub : forall sha256 v kd pk, kd_ok kd ->
  B58 ser_pub sha256 v kd pk = Ok (B58 check_encode sha256 (layout (fst v) kd pk)).
Proof. intros sha256. exact (Lemmas.Bip32Ser.ser_pub_layout _ _ _ sha256). Qed.
Print Assumptions ser_layout_pub.

(* 78 bytes for 32-byte private / 33-byte public keys, 110 for the 64-byte (Kholaw) private key *)
Theorem ser_layout_length : forall ver kd key, length ver = 4%nat -> kd_ok kd ->
  length (layout ver kd key) = (45 + length key)%nat.
Proof. exact Lemmas.Bip32Ser.layout_length. Qed.
Print Assumptions ser_layout_length.

Theorem be32_is_big_endian : forall i, i < 4294967296 -> bytes_ok (be32 i) /\ be_to_int (be32 i) = i.
Proof. exact Lemmas.SerbipAux.be32_ok. Qed.
Print Assumptions be32_is_big_endian.

(* a depth above 255 (reachable by deriving below depth 255) cannot be serialised: OverflowError *)
Theorem ser_depth_overflow : forall sha256 key kd ver, 256 <= kd_depth kd ->
  B58 serialize sha256 key kd ver = Err OverflowError.
Proof. intros sha256. exact (Lemmas.Bip32Ser.ser_depth_overflow _ _ _ sha256). Qed.
Print Assumptions ser_depth_overflow.

(* ---- deser_ser *)
Theorem deser_ser_priv : forall sha256 priv_ok pub_parse v kd raw s, sha_law sha256 ->
  In v bip32_key_net_versions -> kd_ok kd -> kd_master_consistent kd -> bytes_ok raw ->
  (length raw = 32%nat \/ length raw = 64%nat) -> priv_ok raw = true ->
  B58 ser_priv sha256 v kd raw = Ok s ->
  B58 from_extended sha256 priv_ok pub_parse s v = Ok (mk_obj false raw kd).
Proof.
  intros sha256 priv_ok pub_parse v kd raw s [H1 H2] Hin.
  exact (Lemmas.Bip32Ser.deser_ser_priv _ _ _ sha256 priv_ok pub_parse ConstsOk.b58_alph_btc_nodup
           ConstsOk.b58_alph_btc_len ConstsOk.b58_radix_ge2 H1 H2 ConstsOk.b58_cklen_le v kd raw s
           (SerbipConstsOk.key_net_versions_ok v Hin)).
Qed.
Print Assumptions deser_ser_priv.

Theorem deser_ser_pub : forall sha256 priv_ok pub_parse v kd pk s, sha_law sha256 ->
  In v bip32_key_net_versions -> kd_ok kd -> kd_master_consistent kd -> bytes_ok pk ->
  length pk = 33%nat -> pub_parse pk = Some pk ->
  B58 ser_pub sha256 v kd pk = Ok s ->
  B58 from_extended sha256 priv_ok pub_parse s v = Ok (mk_obj true pk kd).
Proof.
  intros sha256 priv_ok pub_parse v kd pk s [H1 H2] Hin.
  exact (Lemmas.Bip32Ser.deser_ser_pub _ _ _ sha256 priv_ok pub_parse ConstsOk.b58_alph_btc_nodup
           ConstsOk.b58_alph_btc_len ConstsOk.b58_radix_ge2 H1 H2 ConstsOk.b58_cklen_le v kd pk s
           (SerbipConstsOk.key_net_versions_ok v Hin)).
Qed.
Print Assumptions deser_ser_pub.

(* the one exception to losslessness, demanded by the rejection clause: a depth-0 key with a non-zero
   fingerprint or index serialises, but its serialisation is rejected *)
Theorem deser_ser_master_inconsistent : forall sha256 priv_ok pub_parse v kd key s (is_public : bool),
  sha_law sha256 -> In v bip32_key_net_versions -> kd_ok kd -> bytes_ok key -> kd_depth kd = 0 ->
  (kd_fp kd <> bip32_fprint_master \/ kd_index kd <> 0) ->
  (if is_public then B58 ser_pub sha256 v kd key else B58 ser_priv sha256 v kd key) = Ok s ->
  B58 from_extended sha256 priv_ok pub_parse s v = Err (LibError Bip32KeyError).
Proof.
  intros sha256 priv_ok pub_parse v kd key s is_public [H1 H2] Hin.
  exact (Lemmas.Bip32Ser.deser_ser_master_inconsistent _ _ _ sha256 priv_ok pub_parse ConstsOk.b58_alph_btc_nodup
           ConstsOk.b58_alph_btc_len ConstsOk.b58_radix_ge2 H1 H2 ConstsOk.b58_cklen_le v kd key s is_public
           (SerbipConstsOk.key_net_versions_ok v Hin)).
Qed.
Print Assumptions deser_ser_master_inconsistent.

(* ---- ser_deser: canonicity.  Holds for every version pair, configured or not. *)
Theorem ser_deser : forall sha256 priv_ok pub_parse s v o, sha_law sha256 ->
  (forall b c, pub_parse b = Some c -> length b = 33%nat -> c = b) ->
  B58 from_extended sha256 priv_ok pub_parse s v = Ok o ->
  B58 to_extended sha256 o v = Ok s.
Proof.
  intros sha256 priv_ok pub_parse s v o [H1 H2] Hc.
  exact (Lemmas.Bip32Ser.ser_deser _ _ _ sha256 priv_ok pub_parse ConstsOk.b58_alph_btc_nodup
           ConstsOk.b58_alph_btc_len ConstsOk.b58_radix_ge2 H1 H2 ConstsOk.b58_cklen_le Hc s v o).
Qed.
Print Assumptions ser_deser.

Theorem from_extended_injective : forall sha256 priv_ok pub_parse s1 s2 v o, sha_law sha256 ->
  (forall b c, pub_parse b = Some c -> length b = 33%nat -> c = b) ->
  B58 from_extended sha256 priv_ok pub_parse s1 v = Ok o ->
  B58 from_extended sha256 priv_ok pub_parse s2 v = Ok o -> s1 = s2.
Proof.
  intros sha256 priv_ok pub_parse s1 s2 v o [H1 H2] Hc.
  exact (Lemmas.Bip32Ser.from_extended_inj _ _ _ sha256 priv_ok pub_parse ConstsOk.b58_alph_btc_nodup
           ConstsOk.b58_alph_btc_len ConstsOk.b58_radix_ge2 H1 H2 ConstsOk.b58_cklen_le Hc s1 s2 v o).
Qed.
Print Assumptions from_extended_injective.

(* ---- deser_rejects *)
Theorem rejects_text_damage : forall sha256 priv_ok pub_parse s v e, sha_law sha256 ->
  B58 check_decode sha256 s = Err e ->
  B58 from_extended sha256 priv_ok pub_parse s v = Err e /\ (e = ValueError \/ e = LibError Base58ChecksumError).
Proof.
  intros sha256 priv_ok pub_parse s v e [H1 H2].
  exact (Lemmas.Bip32Ser.reject_text_damage _ _ _ sha256 priv_ok pub_parse ConstsOk.b58_alph_btc_nodup
           ConstsOk.b58_alph_btc_len ConstsOk.b58_radix_ge2 H1 H2 ConstsOk.b58_cklen_le s v e).
Qed.
Print Assumptions rejects_text_damage.

Theorem rejects_unknown_version : forall sha256 priv_ok pub_parse s v ser, sha_law sha256 ->
  B58 check_decode sha256 s = Ok ser -> firstn 4 ser <> fst v -> firstn 4 ser <> snd v ->
  B58 from_extended sha256 priv_ok pub_parse s v = Err (LibError Bip32KeyError).
Proof.
  intros sha256 priv_ok pub_parse s v ser [H1 H2].
  exact (Lemmas.Bip32Ser.reject_unknown_version _ _ _ sha256 priv_ok pub_parse ConstsOk.b58_alph_btc_nodup
           ConstsOk.b58_alph_btc_len ConstsOk.b58_radix_ge2 H1 H2 ConstsOk.b58_cklen_le s v ser).
Qed.
Print Assumptions rejects_unknown_version.

Theorem rejects_wrong_length_pub : forall sha256 priv_ok pub_parse s v ser, sha_law sha256 ->
  B58 check_decode sha256 s = Ok ser -> firstn 4 ser = fst v -> length ser <> 78%nat ->
  B58 from_extended sha256 priv_ok pub_parse s v = Err (LibError Bip32KeyError).
Proof.
  intros sha256 priv_ok pub_parse s v ser [H1 H2].
  exact (Lemmas.Bip32Ser.reject_wrong_length_pub _ _ _ sha256 priv_ok pub_parse ConstsOk.b58_alph_btc_nodup
           ConstsOk.b58_alph_btc_len ConstsOk.b58_radix_ge2 H1 H2 ConstsOk.b58_cklen_le s v ser).
Qed.
Print Assumptions rejects_wrong_length_pub.

Theorem rejects_wrong_length_priv : forall sha256 priv_ok pub_parse s v ser, sha_law sha256 ->
  B58 check_decode sha256 s = Ok ser -> fst v <> snd v -> firstn 4 ser = snd v ->
  ~ (length ser = 78%nat \/ length ser = 110%nat) ->
  B58 from_extended sha256 priv_ok pub_parse s v = Err (LibError Bip32KeyError).
Proof.
  intros sha256 priv_ok pub_parse s v ser [H1 H2].
  exact (Lemmas.Bip32Ser.reject_wrong_length_priv _ _ _ sha256 priv_ok pub_parse ConstsOk.b58_alph_btc_nodup
           ConstsOk.b58_alph_btc_len ConstsOk.b58_radix_ge2 H1 H2 ConstsOk.b58_cklen_le s v ser).
Qed.
Print Assumptions rejects_wrong_length_priv.

Theorem rejects_nonzero_pad : forall sha256 priv_ok pub_parse s v ser, sha_law sha256 ->
  B58 check_decode sha256 s = Ok ser -> fst v <> snd v -> firstn 4 ser = snd v -> nth 45 ser 0 <> 0 ->
  B58 from_extended sha256 priv_ok pub_parse s v = Err (LibError Bip32KeyError).
Proof.
  intros sha256 priv_ok pub_parse s v ser [H1 H2].
  exact (Lemmas.Bip32Ser.reject_nonzero_pad _ _ _ sha256 priv_ok pub_parse ConstsOk.b58_alph_btc_nodup
           ConstsOk.b58_alph_btc_len ConstsOk.b58_radix_ge2 H1 H2 ConstsOk.b58_cklen_le s v ser).
Qed.
Print Assumptions rejects_nonzero_pad.

Theorem rejects_invalid_priv_key : forall sha256 priv_ok pub_parse s v ser, sha_law sha256 ->
  B58 check_decode sha256 s = Ok ser -> fst v <> snd v -> firstn 4 ser = snd v ->
  priv_ok (skipn 46 ser) = false ->
  B58 from_extended sha256 priv_ok pub_parse s v = Err (LibError Bip32KeyError).
Proof.
  intros sha256 priv_ok pub_parse s v ser [H1 H2].
  exact (Lemmas.Bip32Ser.reject_invalid_priv_key _ _ _ sha256 priv_ok pub_parse ConstsOk.b58_alph_btc_nodup
           ConstsOk.b58_alph_btc_len ConstsOk.b58_radix_ge2 H1 H2 ConstsOk.b58_cklen_le s v ser).
Qed.
Print Assumptions rejects_invalid_priv_key.

Theorem rejects_invalid_pub_key : forall sha256 priv_ok pub_parse s v ser, sha_law sha256 ->
  B58 check_decode sha256 s = Ok ser -> firstn 4 ser = fst v -> pub_parse (skipn 45 ser) = None ->
  B58 from_extended sha256 priv_ok pub_parse s v = Err (LibError Bip32KeyError).
Proof.
  intros sha256 priv_ok pub_parse s v ser [H1 H2].
  exact (Lemmas.Bip32Ser.reject_invalid_pub_key _ _ _ sha256 priv_ok pub_parse ConstsOk.b58_alph_btc_nodup
           ConstsOk.b58_alph_btc_len ConstsOk.b58_radix_ge2 H1 H2 ConstsOk.b58_cklen_le s v ser).
Qed.
Print Assumptions rejects_invalid_pub_key.

Theorem rejects_master_metadata : forall sha256 priv_ok pub_parse s v ser, sha_law sha256 ->
  B58 check_decode sha256 s = Ok ser -> nth 4 ser 0 = 0 ->
  (Bytes.slice 5 9 ser <> bip32_fprint_master \/ be_to_int (Bytes.slice 9 13 ser) <> 0) ->
  B58 from_extended sha256 priv_ok pub_parse s v = Err (LibError Bip32KeyError).
Proof.
  intros sha256 priv_ok pub_parse s v ser [H1 H2].
  exact (Lemmas.Bip32Ser.reject_master_metadata _ _ _ sha256 priv_ok pub_parse ConstsOk.b58_alph_btc_nodup
           ConstsOk.b58_alph_btc_len ConstsOk.b58_radix_ge2 H1 H2 ConstsOk.b58_cklen_le s v ser).
Qed.
Print Assumptions rejects_master_metadata.

(* ... and nothing else is ever raised: no IndexError, no container ValueError after the length check *)
Theorem rejects_only_documented : forall sha256 priv_ok pub_parse s v e, sha_law sha256 ->
  B58 from_extended sha256 priv_ok pub_parse s v = Err e ->
  (B58 check_decode sha256 s = Err e /\ (e = ValueError \/ e = LibError Base58ChecksumError)) \/
  ((exists ser, B58 check_decode sha256 s = Ok ser) /\ e = LibError Bip32KeyError).
Proof.
  intros sha256 priv_ok pub_parse s v e [H1 H2].
  exact (Lemmas.Bip32Ser.from_extended_errors _ _ _ sha256 priv_ok pub_parse ConstsOk.b58_alph_btc_nodup
           ConstsOk.b58_alph_btc_len ConstsOk.b58_radix_ge2 H1 H2 ConstsOk.b58_cklen_le s v e).
Qed.
Print Assumptions rejects_only_documented.

(* ---- SLIP-32 over an abstract Bech32 codec *)
Definition bech_law (enc : list N -> list N -> list N) (dec : list N -> list N -> res (list N)) : Prop :=
  (forall hrp d, bytes_ok d -> dec hrp (enc hrp d) = Ok d) /\ (forall hrp d, firstn (length hrp) (enc hrp d) = hrp).
Notation path_ok := Lemmas.Slip32.path_ok.
Definition slip32_std : slip32_ver := (slip32_std_pub, slip32_std_priv).

Theorem slip32_roundtrip_priv : forall enc dec path cc raw s, bech_law enc dec ->
  path_ok path -> length cc = 32%nat -> bytes_ok cc -> bytes_ok raw ->
  slip32_ser_priv enc slip32_std path cc raw = Ok s ->
  slip32_deserialize dec s slip32_std = Ok (raw, path, cc, false).
Proof.
  intros enc dec path cc raw s [H1 H2].
  exact (Lemmas.Slip32.slip32_roundtrip_priv enc dec H1 H2 slip32_std path cc raw s SerbipConstsOk.slip32_std_ok).
Qed.
Print Assumptions slip32_roundtrip_priv.

Theorem slip32_roundtrip_pub : forall enc dec v path cc pk s, bech_law enc dec ->
  path_ok path -> length cc = 32%nat -> bytes_ok cc -> bytes_ok pk ->
  slip32_ser_pub enc v path cc pk = Ok s ->
  slip32_deserialize dec s v = Ok (pk, path, cc, true).
Proof. intros enc dec v path cc pk s [H1 H2]. exact (Lemmas.Slip32.slip32_roundtrip_pub enc dec H1 H2 v path cc pk s). Qed.
Print Assumptions slip32_roundtrip_pub.

Theorem slip32_ser_layout : forall enc v path cc raw, path_ok path -> length cc = 32%nat ->
  slip32_ser_priv enc v path cc raw = Ok (enc (snd v) (Lemmas.Slip32.slip32_layout path cc (0 :: raw))).
Proof. exact Lemmas.Slip32.slip32_ser_layout. Qed.
Print Assumptions slip32_ser_layout.

(* SLIP-32 parsing fails only with ValueError or with what the Bech32 layer raised (ValueError /
   Bech32ChecksumError there).  Before the repair of F12 in /repo this was false: a checksum-valid private
   string whose payload stops after the chain code raised IndexError; it is now a ValueError. *)
Theorem slip32_rejects_only_documented : forall enc dec v s e, bech_law enc dec ->
  (forall hrp s d, dec hrp s = Ok d -> bytes_ok d) ->
  slip32_deserialize dec s v = Err e -> e = ValueError \/ (exists hrp, dec hrp s = Err e).
Proof.
  intros enc dec v s e [H1 H2] H3. exact (Lemmas.Slip32.slip32_errors dec H3 v s e).
Qed.
Print Assumptions slip32_rejects_only_documented.

Theorem slip32_short_payload_rejected : forall enc dec cc, bech_law enc dec -> length cc = 32%nat -> bytes_ok cc ->
  slip32_deserialize dec (enc (snd slip32_std) (0 :: cc)) slip32_std = Err ValueError.
Proof.
  intros enc dec cc [H1 H2] Lc Hc.
  exact (Lemmas.Slip32.slip32_short_payload_value_error enc dec H1 H2 slip32_std cc SerbipConstsOk.slip32_std_ok Lc Hc).
Qed.
Print Assumptions slip32_short_payload_rejected.

(* ---- the premises are satisfiable: a concrete instance evaluated by the kernel
   (stand-in hash with 32-byte output; all 4-byte-metadata boundary values) *)
Definition sha_demo (x : list N) : list N := repeat (N.of_nat (length x) mod 256) 32.
Definition kd_demo : key_data := mk_kd 255 4294967295 (repeat 0 31 ++ [1]) [0; 0; 0; 1].
Definition raw_demo : list N := repeat 0 31 ++ [1].

Example deser_ser_demo :
  forallb (fun v =>
    match B58 ser_priv sha_demo v kd_demo raw_demo with
    | inl s => match B58 from_extended sha_demo (fun b => (length b =? 32)%nat) (fun b => Some b) s v with
               | inl o => negb (o_public o) && list_eqb (o_key o) raw_demo && (kd_depth (o_kd o) =? 255)
                          && (kd_index (o_kd o) =? 4294967295)
               | inr _ => false
               end
    | inr _ => false
    end) bip32_key_net_versions = true.
Proof. vm_compute. reflexivity. Qed.
Print Assumptions deser_ser_demo.

(* ===== linked to the concrete codec models ===== *)
(* SLIP-32 on THE Bech32 codec of Model/Bech32.v (the C10 model, constants regenerated from /repo): the
   [bech_law enc dec] premise of the SLIP-32 theorems above is gone, and nothing replaces it -- SLIP-32 uses
   no hash, so these statements have no hypothesis about any oracle.

   The abstract law quantified over every HRP; the real codec satisfies it only for well-formed HRPs
   (non-empty, printable ASCII, no upper-case letter: [hrp_enc_ok]) -- see [slip32_law_false_of_codec] below.
   The standard net versions "xpub"/"xprv" are well-formed ([slip32_std_hrps_wf], by computation on the
   regenerated strings); for caller-supplied net versions the condition is a premise.  [slip32c_ser_*] are
   the serialisers over the [res]-valued encoder (Model/LinkSlip32.v); [slip32c_deserialize] is
   [slip32_deserialize bech32_decode]. *)
From BU Require Import Model.Bech32 Model.LinkSlip32.
From BU Require Lemmas.Bech32 Lemmas.LinkBech32 Lemmas.LinkSlip32.
Notation hrp_enc_ok := Lemmas.Bech32.hrp_enc_ok.

Theorem slip32_std_hrps_wf : hrp_enc_ok slip32_std_pub /\ hrp_enc_ok slip32_std_priv.
Proof. exact LinkSlip32.slip32_std_hrps_ok. Qed.
Print Assumptions slip32_std_hrps_wf.

Theorem slip32_roundtrip_priv_concrete : forall path cc raw s,
  path_ok path -> length cc = 32%nat -> bytes_ok cc -> bytes_ok raw ->
  slip32c_ser_priv slip32_std path cc raw = Ok s ->
  slip32c_deserialize s slip32_std = Ok (raw, path, cc, false).
Proof.
  intros path cc raw s.
  exact (LinkSlip32.slip32c_roundtrip_priv slip32_std path cc raw s SerbipConstsOk.slip32_std_ok
           (proj2 LinkSlip32.slip32_std_hrps_ok)).
Qed.
Print Assumptions slip32_roundtrip_priv_concrete.

(* any net versions whose private HRP is well-formed *)
Theorem slip32_roundtrip_priv_concrete_any : forall v path cc raw s,
  length (fst v) = length (snd v) -> fst v <> snd v -> hrp_enc_ok (snd v) ->
  path_ok path -> length cc = 32%nat -> bytes_ok cc -> bytes_ok raw ->
  slip32c_ser_priv v path cc raw = Ok s ->
  slip32c_deserialize s v = Ok (raw, path, cc, false).
Proof. intros v path cc raw s H1 H2. exact (LinkSlip32.slip32c_roundtrip_priv v path cc raw s (conj H1 H2)). Qed.
Print Assumptions slip32_roundtrip_priv_concrete_any.

Theorem slip32_roundtrip_pub_concrete : forall v path cc pk s, hrp_enc_ok (fst v) ->
  path_ok path -> length cc = 32%nat -> bytes_ok cc -> bytes_ok pk ->
  slip32c_ser_pub v path cc pk = Ok s ->
  slip32c_deserialize s v = Ok (pk, path, cc, true).
Proof. exact LinkSlip32.slip32c_roundtrip_pub. Qed.
Print Assumptions slip32_roundtrip_pub_concrete.

(* the serialisers return on all well-formed parts, so the round trips are not vacuous *)
Theorem slip32_serialize_total_concrete : forall v path cc key,
  path_ok path -> length cc = 32%nat -> bytes_ok cc -> bytes_ok key ->
  (exists s, slip32c_ser_priv v path cc key = Ok s) /\ (exists s, slip32c_ser_pub v path cc key = Ok s).
Proof.
  intros v path cc key Hp Lc Hc Hk.
  exact (conj (LinkSlip32.slip32c_ser_priv_total v path cc key Hp Lc Hc Hk)
              (LinkSlip32.slip32c_ser_pub_total v path cc key Hp Lc Hc Hk)).
Qed.
Print Assumptions slip32_serialize_total_concrete.

Theorem slip32_ser_layout_concrete : forall v path cc raw, path_ok path -> length cc = 32%nat ->
  slip32c_ser_priv v path cc raw = bech32_encode (snd v) (Lemmas.Slip32.slip32_layout path cc (0 :: raw)).
Proof. exact LinkSlip32.slip32c_ser_layout. Qed.
Print Assumptions slip32_ser_layout_concrete.

(* every string, every pair of net-version strings: ValueError or Bech32ChecksumError, nothing else *)
Theorem slip32_rejects_only_documented_concrete : forall v s e,
  slip32c_deserialize s v = Err e -> e = ValueError \/ e = LibError Bech32ChecksumError.
Proof. exact LinkSlip32.slip32c_errors. Qed.
Print Assumptions slip32_rejects_only_documented_concrete.

Theorem slip32_short_payload_rejected_concrete : forall cc s, length cc = 32%nat -> bytes_ok cc ->
  bech32_encode slip32_std_priv (0 :: cc) = Ok s -> slip32c_deserialize s slip32_std = Err ValueError.
Proof.
  intros cc s.
  exact (LinkSlip32.slip32c_short_payload slip32_std cc s SerbipConstsOk.slip32_std_ok (proj2 LinkSlip32.slip32_std_hrps_ok)).
Qed.
Print Assumptions slip32_short_payload_rejected_concrete.

(* canonicity inherited from Bech32: an accepted public string is, up to letter case, the encoding of its payload *)
Theorem slip32_accepted_is_canonical_concrete : forall v s pk path cc,
  slip32c_deserialize s v = Ok (pk, path, cc, true) ->
  exists ser, bech32_decode (fst v) s = Ok ser /\ bech32_encode (fst v) ser = Ok (Bech32Str.py_lower s).
Proof. exact LinkSlip32.slip32c_deser_then_ser_pub. Qed.
Print Assumptions slip32_accepted_is_canonical_concrete.

(* [bech_law] as stated above is FALSE of the real codec: an upper-case HRP is encoded, and the string is
   refused on the way back (mixed case).  With net versions ("X", "Y") a public key serialises and does not
   deserialise -- so the abstract round-trip theorems were vacuous for such net versions, and the premise
   [hrp_enc_ok] of the concrete ones is necessary.  (Observed on /repo: Slip32KeyNetVersions("XPUB", "XPRV").) *)
Theorem slip32_law_false_of_codec :
  (let s := [88; 49; 113; 113; 108; 104; 48; 122; 53; 51] in
   bech32_encode [88] [0] = Ok s /\ bech32_decode [88] s = Err ValueError) /\
  (exists s, slip32c_ser_pub ([88], [89]) [] (repeat 0 32) [2] = Ok s /\
             slip32c_deserialize s ([88], [89]) = Err ValueError).
Proof. exact (conj LinkBech32.bech32_rt_fails_uppercase_hrp LinkSlip32.slip32c_uppercase_hrp_not_roundtrip). Qed.
Print Assumptions slip32_law_false_of_codec.

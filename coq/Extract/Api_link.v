(* API entries for the LINKED models (Model/Link*.v): the pipelines run end to end inside the model, on the concrete
   codec models -- the Bech32 / Base58 / SS58 / UTF-8 oracles that the entries of Api_serbip / Api_cardmon ask the
   harness for are not used here.  Only hashes, KDFs, AES, NFC, the EC group and the key tests remain oracles. *)
From Coq Require Import NArith ZArith List String.
From BU Require Import Base.Exn Base.Val Base.Bytes Gen.Consts Gen.SerbipConsts Gen.ConstsCardmon Extract.ApiCommon.
From BU Require Model.Slip32 Model.LinkSlip32 Model.Bip38 Model.LinkAddr Model.ElectrumWallet Model.Brainwallet
  Model.Bip32Kholaw Model.AddrAdaShelley Model.LinkAdaShelley Model.SubstratePath Model.LinkSubstrate
  Model.AddrText Model.LinkCrc16 Lemmas.AddrInst.
From BU Require Extract.Api_serbip Extract.Api_cardmon Extract.Api_paths.
Import ListNotations.
Open Scope string_scope.

Definition ns_of (l : list val) : list N := map (fun v => match v with VN n => n | _ => 0%N end) l.

Definition api (ask : string -> list val -> val) : list api_entry :=
  let sha256 := o_sha256 ask in
  let rip := o_ripemd160 ask in
  let nfc := o_nfc ask in
  let scrypt := Api_serbip.o_scrypt ask in
  let aes_enc := Api_serbip.o_aes_enc ask in
  let aes_dec := Api_serbip.o_aes_dec ask in
  let pt := Api_serbip.pt in
  let k1_base := Api_serbip.k1_base ask in
  let k1_smul := Api_serbip.k1_smul ask in
  let k1_add := Api_serbip.k1_add ask in
  let k1_ser_c := Api_serbip.k1_ser_c ask in
  let k1_ser_u := Api_serbip.k1_ser_u ask in
  let k1_deser := Api_serbip.k1_deser ask in
  let vbool := Api_serbip.vbool in
  let on_curve := Api_serbip.o_on_curve ask in
  (* Cardano *)
  let ept := Api_cardmon.pt in
  let e_dec := Api_cardmon.e_dec ask in
  let e_mul := Api_cardmon.e_mul ask in
  let e_add := Api_cardmon.e_add ask in
  let e_base := Api_cardmon.e_base ask in
  let blake224 := o_blake2b ask 28 in
  let hmac512 := o_hmac_sha512 ask in
  let hmac256 := o_hmac_sha256 ask in
  let pbkdf2 := o_pbkdf2_sha512 ask in
  let kh_der := Bip32Kholaw.kh_derivator ept e_mul e_base Api_cardmon.e_is_zero Api_cardmon.e_enc in
  let kh_derive := Bip32Kholaw.derive hmac512 ept e_add e_mul e_base Api_cardmon.e_is_zero Api_cardmon.e_enc e_dec kh_der in
  let kh_start (scheme : N) (seed : list N) : res Bip32Kholaw.node :=
    match scheme with
    | 0%N => Bip32Kholaw.kh_from_seed hmac512 hmac256 ept e_mul e_base Api_cardmon.e_is_zero Api_cardmon.e_enc Api_cardmon.master_fuel seed
    | _ => Bip32Kholaw.ic_from_seed pbkdf2 ept e_mul e_base Api_cardmon.e_is_zero Api_cardmon.e_enc seed
    end in
  (* Substrate *)
  let blake256 := o_blake2b ask 32 in
  let blake512 := o_blake2b ask 64 in
  let hard := fun cc pk sk => Api_paths.split32 (o_bytes ask "sr25519_hard" [VB cc; VB pk; VB sk]) in
  let soft := fun cc pk sk => Api_paths.split32 (o_bytes ask "sr25519_soft" [VB cc; VB pk; VB sk]) in
  let softpub := fun cc pk => o_bytes ask "sr25519_soft_pub" [VB cc; VB pk] in
  let valid_pub := fun (curve : N) b => o_bool ask "valid_pub" [VN curve; VB b] in
  [
  (* ---- C05: SLIP-32, no oracle at all *)
  ("slip32c_ser_priv", fun a => match a with [VB hpub; VB hpriv; VL path; VB cc; VB raw] =>
      rb (LinkSlip32.slip32c_ser_priv (hpub, hpriv) (ns_of path) cc raw) | _ => bad_call end);
  ("slip32c_ser_pub", fun a => match a with [VB hpub; VB hpriv; VL path; VB cc; VB pk] =>
      rb (LinkSlip32.slip32c_ser_pub (hpub, hpriv) (ns_of path) cc pk) | _ => bad_call end);
  ("slip32c_deserialize", fun a => match a with [VB hpub; VB hpriv; VB s] =>
      rmap (fun r => match r with (k, path, cc, p) => VL [VB k; VL (map VN path); VB cc; VBool p] end)
        (LinkSlip32.slip32c_deserialize s (hpub, hpriv)) | _ => bad_call end);
  (* ---- C09: Stellar addresses with CRC-16/XMODEM inside the model *)
  ("crc16_xmodem_c", fun a => match a with [VB b] => Ok (VB (LinkCrc16.crc16_xmodem b)) | _ => bad_call end);
  ("xlm_encode_c", fun a => match a with [VN t; VB pub] =>
      rb (AddrText.xlm_encode LinkCrc16.crc16_xmodem AddrCodecs.b32_enc_nopad t pub) | _ => bad_call end);
  ("xlm_decode_c", fun a => match a with [VN t; VB s] =>
      rb (AddrText.xlm_decode valid_pub LinkCrc16.crc16_xmodem AddrCodecs.b32_dec t s) | _ => bad_call end);
  (* ---- C13: BIP-38 with the P2PKH address and UTF-8 inside the model *)
  ("bip38c_address", fun a => match a with [p; VN c] =>
      Ok (VB (LinkAddr.bip38_p2pkh sha256 rip pt k1_ser_c k1_ser_u (Api_serbip.pt_of p) (vbool c))) | _ => bad_call end);
  (* Bip38Addr.AddressHash(pub, mode) *)
  ("bip38c_address_hash", fun a => match a with [p; VN c] =>
      Ok (VB (LinkAddr.bip38c_address_hash sha256 rip pt k1_ser_c k1_ser_u (Api_serbip.pt_of p) (vbool c))) | _ => bad_call end);
  ("bip38c_noec_encrypt", fun a => match a with [VB key; VB pass; VN c] =>
      rb (LinkAddr.bip38c_noec_encrypt sha256 rip nfc scrypt aes_enc pt k1_base k1_smul k1_ser_c k1_ser_u key pass (vbool c))
      | _ => bad_call end);
  ("bip38c_noec_decrypt", fun a => match a with [VB enc; VB pass] =>
      rmap Api_serbip.v_keymode
        (LinkAddr.bip38c_noec_decrypt sha256 rip nfc scrypt aes_dec pt k1_base k1_smul k1_ser_c k1_ser_u enc pass)
      | _ => bad_call end);
  ("bip38c_ec_generate", fun a => match a with [VB pass; VN c; VL ls; VB salt; VB seedb] =>
      rb (LinkAddr.bip38c_ec_generate sha256 rip nfc scrypt aes_enc pt k1_base k1_smul k1_ser_c k1_ser_u k1_deser
            pass (vbool c) (Api_serbip.lotseq_of ls) salt seedb) | _ => bad_call end);
  ("bip38c_ec_decrypt", fun a => match a with [VB enc; VB pass] =>
      rmap Api_serbip.v_keymode
        (LinkAddr.bip38c_ec_decrypt sha256 rip nfc scrypt aes_dec pt k1_base k1_smul k1_ser_c k1_ser_u enc pass)
      | _ => bad_call end);
  (* ---- C18: Shelley addresses on the Bech32 model *)
  ("ada_shelley_encode_c", fun a => match a with [VN net; VB pub; VB sk] =>
      rb (LinkAdaShelley.encode_payment_c blake224 ept e_dec (Api_cardmon.ada_net_of net) pub sk) | _ => bad_call end);
  ("ada_shelley_decode_c", fun a => match a with [VN net; VB s] =>
      rb (LinkAdaShelley.decode_payment_c (Api_cardmon.ada_net_of net) s) | _ => bad_call end);
  ("ada_staking_encode_c", fun a => match a with [VN net; VB sk] =>
      rb (LinkAdaShelley.encode_staking_c blake224 ept e_dec (Api_cardmon.ada_net_of net) sk) | _ => bad_call end);
  ("ada_staking_decode_c", fun a => match a with [VN net; VB s] =>
      rb (LinkAdaShelley.decode_staking_c (Api_cardmon.ada_net_of net) s) | _ => bad_call end);
  (* [scheme 0 Kholaw(Ledger) / 1 Icarus; seed; net; account; change; index; op 0 address, 1 staking address] *)
  ("ada_shelley_wallet_c", fun a => match a with [VN scheme; VB seed; VN net; VZ acc; VZ chg; VZ idx; VN op] =>
      m <- kh_start scheme seed ;;
      acct <- AddrAdaShelley.cip1852_account kh_derive m acc ;;
      match op with
      | 0%N => rb (LinkAdaShelley.shelley_address_c blake224 ept e_dec kh_derive (Api_cardmon.ada_net_of net) acct chg idx)
      | _ => rb (LinkAdaShelley.shelley_staking_address_c blake224 ept e_dec kh_derive (Api_cardmon.ada_net_of net) acct)
      end
    | _ => bad_call end);
  (* ---- C19: Substrate key -> SS58 address *)
  ("sub_address_c", fun a => match a with [VN fmt; VB pk] =>
      rb (LinkSubstrate.sub_address blake512 fmt (SubstratePath.mk_skey None pk [])) | _ => bad_call end);
  ("sub_address_decode_c", fun a => match a with [VN fmt; VB s] =>
      rb (LinkSubstrate.sub_address_decode blake512 valid_pub fmt s) | _ => bad_call end);
  ("sub_wallet_address_c", fun a => match a with [VN fmt; VL sk; VB pk; VB path] =>
      let k := SubstratePath.mk_skey (match sk with [VB x] => Some x | _ => None end) pk [] in
      rb (LinkSubstrate.sub_wallet_address blake256 blake512 hard soft softpub fmt k path) | _ => bad_call end);
  (* ---- C20: Electrum addresses, SPL token, brainwallet *)
  ("electrum_v1_addr_c", fun a => match a with [VN kind; VB b; VZ c; VZ i] =>
      rb (w <- Api_serbip.v1_wallet_of ask kind b ;;
          LinkAddr.v1c_get_address sha256 rip pt k1_base k1_smul k1_add Api_serbip.k1_is_inf k1_ser_c k1_ser_u w c i)
      | _ => bad_call end);
  (* [wallet type 0 standard / 1 segwit; master object; change; index] -> address *)
  ("electrum_v2_addr_c", fun a => match a with [VN wtype; master; c; i] =>
      match Api_serbip.idx_of c, Api_serbip.idx_of i with
      | Some c', Some i' =>
        let d := Api_serbip.v2_derived ask wtype master c' i' in
        rb (if N.eqb wtype 0 then LinkAddr.v2c_std_address sha256 rip val Api_serbip.obj_pub d
            else LinkAddr.v2c_segwit_address sha256 rip val Api_serbip.obj_pub d)
      | _, _ => bad_call
      end | _ => bad_call end);
  ("electrum_v2_addr_decode_c", fun a => match a with [VN wtype; VB s] =>
      rb (if N.eqb wtype 0 then LinkAddr.v2c_std_decode sha256 s else LinkAddr.v2c_segwit_decode s) | _ => bad_call end);
  ("spl_sol_decode_c", fun a => match a with [VB s] => rb (LinkAddr.splc_sol_decode on_curve s) | _ => bad_call end);
  ("spl_find_pda_c", fun a => match a with [VL seeds; VB prog] =>
      rb (LinkAddr.splc_find_pda sha256 on_curve (map Api_serbip.bytes_of seeds) prog) | _ => bad_call end);
  ("spl_get_ata_c", fun a => match a with [VB wallet; VB mint] =>
      rb (LinkAddr.splc_get_ata sha256 on_curve wallet mint) | _ => bad_call end);
  ("spl_get_ata_prog_c", fun a => match a with [VB wallet; VB mint; VB tp] =>
      rb (LinkAddr.splc_get_ata_with_program sha256 on_curve wallet mint tp) | _ => bad_call end);
  ("brainwallet_c", fun a => match a with VN cls :: VB pass :: algo =>
      match Api_serbip.bw_algo_of algo with
      | Some al => rb (LinkAddr.bwc_generate sha256 pbkdf2 scrypt (Api_serbip.o_priv_ok ask cls) al pass)
      | None => bad_call
      end | _ => bad_call end)
  ].

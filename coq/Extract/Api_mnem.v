(* API entries for the mnemonic models of C17 (see Extract/ApiCommon.v for the conventions).
   Words travel as VB (code points); a mnemonic as VL of words; a language as its enum position,
   an absent language (automatic detection) as any number >= 100. *)
From Coq Require Import NArith ZArith List String.
From BU Require Import Base.Exn Base.Val Base.Bytes Extract.ApiCommon.
From BU Require Import Gen.MnemConsts Gen.MnemLangs Gen.WlMnem_Ev1.
From BU Require Import Model.MnemWords Model.MnemText Model.ChunkMnemonic.
From BU Require Model.MoneroMnemonic Model.AlgorandMnemonic Model.ElectrumV1Mnemonic Model.ElectrumV2Mnemonic.
Import ListNotations.
Open Scope string_scope.

Definition vwords (l : list val) : option (list (list N)) :=
  fold_right (fun v acc => match v, acc with VB w, Some t => Some (w :: t) | _, _ => None end) (Some []) l.
Definition rwords (r : res (list (list N))) : res val := rmap (fun ws => VL (map VB ws)) r.
Definition endian_of (e : N) : endian := if N.eqb e 0 then Little else Big.
Definition lang_opt (l : N) : option nat := if N.ltb l 100 then Some (N.to_nat l) else None.

(* word list selector of the chunk entries: 0..9 Monero languages, anything else the Electrum v1 list *)
Definition chunk_wl (i : N) : list (list N) :=
  match nth_error xmr_langs (N.to_nat i) with Some L => fst L | None => wl_ev1 end.

(* MnemonicValidator.IsValid: catches ValueError (with its subclasses) and MnemonicChecksumError only *)
Definition is_valid {A} (r : res A) : res val :=
  match r with
  | inl _ => Ok (VBool true)
  | inr ValueError | inr UnicodeError | inr (LibError MnemonicChecksumError) => Ok (VBool false)
  | inr e => Err e
  end.

Definition xmr_encode := MoneroMnemonic.encode xmr_langs xmr_entropy_bit_lens.
Definition xmr_decode := MoneroMnemonic.decode xmr_langs xmr_word_nums xmr_word_nums_chk words_to_chunk.
Definition xmr_decode_current :=
  MoneroMnemonic.decode xmr_langs xmr_word_nums xmr_word_nums_chk words_to_chunk_current.

Definition algo_encode sha := AlgorandMnemonic.encode algo_wl algo_cklen algo_entropy_bit_lens algo_word_bits sha.
Definition algo_decode sha := AlgorandMnemonic.decode algo_wl algo_word_nums algo_cklen algo_word_bits sha.
Definition ropt (o : option (list N)) : res val :=
  match o with Some l => Ok (VL [VL (map VN l)]) | None => Ok (VL []) end.
Definition vnums (l : list val) : option (list N) :=
  fold_right (fun v acc => match v, acc with VN x, Some t => Some (x :: t) | _, _ => None end) (Some []) l.

Definition ev1_encode := ElectrumV1Mnemonic.encode wl_ev1 ev1_entropy_bit_lens.
Definition ev1_decode (conformant : bool) :=
  ElectrumV1Mnemonic.decode wl_ev1 ev1_word_nums (if conformant then words_to_chunk else words_to_chunk_current).
(* ElectrumV1MnemonicValidator().IsValid *)
Definition ev1_valid (conformant : bool) (ws : list (list N)) : bool :=
  match ev1_decode conformant ws with inl _ => true | inr _ => false end.

Definition ev2_gate (conformant : bool) : N -> bool :=
  if conformant then ElectrumV2Mnemonic.gate_conformant ev2_word_bit_len ev2_entropy_bit_lens
  else ElectrumV2Mnemonic.gate_current ev2_word_bit_len ev2_entropy_bit_lens.

(* Bip39Mnemonic._Normalize on each word (lower + NFKD, an oracle), applied [k] times: Mnemonic.FromString
   normalises twice (FromString, then FromList), FromList once *)
Fixpoint norm_words (ask : string -> list val -> val) (k : N) (fuel : nat) (ws : list (list N)) : list (list N) :=
  match fuel with
  | O => ws
  | S f => if N.eqb k 0 then ws else norm_words ask (k - 1) f (map (fun w => o_bytes ask "mnem_norm" [VB w]) ws)
  end.
Definition normk ask (k : N) ws := norm_words ask k 3 ws.

Definition api (ask : string -> list val -> val) : list api_entry :=
  let sha512_256 := o_sha512_256 ask in
  let hmac := o_hmac_sha512 ask in
  let b39v := fun ws => o_bool ask "bip39_valid" [VL (map VB ws)] in
  let ev2_encode := fun gc e1c => ElectrumV2Mnemonic.encode ev2_langs ev2_type_prefixes ev2_hmac_key hmac b39v
                                    (ev1_valid e1c) (ev2_gate gc) in
  let ev2_decode := fun e1c => ElectrumV2Mnemonic.decode b39_langs ev2_langs ev2_word_nums ev2_type_prefixes
                                 ev2_hmac_key hmac b39v (ev1_valid e1c) in
  let ev2_from_entropy := fun gc e1c => ElectrumV2Mnemonic.from_entropy ev2_langs ev2_type_prefixes ev2_hmac_key
                                          ev2_max_attempts hmac b39v (ev1_valid e1c) (ev2_gate gc) in
  let flag := fun c => negb (N.eqb c 0) in [
  ("ev1_encode", fun a => match a with [VB b] => rwords (rmap (normk ask 1) (ev1_encode b)) | _ => bad_call end);
  ("ev1_decode", fun a => match a with [VN c; VN k; VL ws] =>
      match vwords ws with Some w => rb (ev1_decode (flag c) (normk ask k w)) | None => bad_call end
      | _ => bad_call end);
  ("ev1_is_valid", fun a => match a with [VN c; VN k; VL ws] =>
      match vwords ws with Some w => is_valid (ev1_decode (flag c) (normk ask k w)) | None => bad_call end
      | _ => bad_call end);
  ("ev2_gate", fun a => match a with [VN c; VN e] => Ok (VBool (ev2_gate (flag c) e)) | _ => bad_call end);
  ("ev2_encode", fun a => match a with [VN gc; VN e1c; VN ty; VN l; VB b] =>
      rwords (rmap (normk ask 1) (ev2_encode (flag gc) (flag e1c) (N.to_nat ty) (N.to_nat l) b)) | _ => bad_call end);
  ("ev2_decode", fun a => match a with [VN e1c; VN ty; VN l; VN k; VL ws] =>
      match vwords ws with
      | Some w => rb (ev2_decode (flag e1c) (lang_opt ty) (lang_opt l) (normk ask k w))
      | None => bad_call end | _ => bad_call end);
  ("ev2_is_valid", fun a => match a with [VN e1c; VN ty; VN l; VN k; VL ws] =>
      match vwords ws with
      | Some w => is_valid (ev2_decode (flag e1c) (lang_opt ty) (lang_opt l) (normk ask k w))
      | None => bad_call end | _ => bad_call end);
  ("ev2_from_entropy", fun a => match a with [VN gc; VN e1c; VN ty; VN l; VN fuel; VB b] =>
      rwords (rmap (normk ask 1) (ev2_from_entropy (flag gc) (flag e1c) (N.to_nat fuel) (N.to_nat ty) (N.to_nat l) b))
      | _ => bad_call end);
  ("algo_convert_bits", fun a => match a with [VL d; VN f; VN t] =>
      match vnums d with Some l => ropt (AlgorandMnemonic.convert_bits l f t) | None => bad_call end
      | _ => bad_call end);
  ("algo_encode", fun a => match a with [VB b] =>
      rwords (rmap (normk ask 1) (algo_encode sha512_256 b)) | _ => bad_call end);
  ("algo_decode", fun a => match a with [VN c; VN k; VL ws] =>
      match vwords ws with Some w => rb (algo_decode sha512_256 (negb (N.eqb c 0)) (normk ask k w))
      | None => bad_call end | _ => bad_call end);
  ("algo_is_valid", fun a => match a with [VN c; VN k; VL ws] =>
      match vwords ws with Some w => is_valid (algo_decode sha512_256 (negb (N.eqb c 0)) (normk ask k w))
      | None => bad_call end | _ => bad_call end);
  ("mnem_utf8", fun a => match a with [VB s] => rb (utf8 s) | _ => bad_call end);
  ("mnem_crc32", fun a => match a with [VB b] => Ok (VN (crc32 b)) | _ => bad_call end);
  ("chunk_encode", fun a => match a with [VN l; VN e; VB b] =>
      rwords (bytes_chunk_to_words (chunk_wl l) (endian_of e) b) | _ => bad_call end);
  ("chunk_decode", fun a => match a with [VN l; VN e; VL [VB w1; VB w2; VB w3]] =>
      rb (words_to_chunk (chunk_wl l) (endian_of e) w1 w2 w3) | _ => bad_call end);
  ("chunk_decode_current", fun a => match a with [VN l; VN e; VL [VB w1; VB w2; VB w3]] =>
      rb (words_to_chunk_current (chunk_wl l) (endian_of e) w1 w2 w3) | _ => bad_call end);
  ("xmr_encode", fun a => match a with [VN l; VN c; VB b] =>
      rwords (xmr_encode (N.to_nat l) (negb (N.eqb c 0)) b) | _ => bad_call end);
  ("xmr_decode", fun a => match a with [VN l; VL ws] =>
      match vwords ws with Some w => rb (xmr_decode (lang_opt l) w) | None => bad_call end | _ => bad_call end);
  ("xmr_is_valid", fun a => match a with [VN l; VL ws] =>
      match vwords ws with Some w => is_valid (xmr_decode (lang_opt l) w) | None => bad_call end | _ => bad_call end);
  ("xmr_is_valid_current", fun a => match a with [VN l; VL ws] =>
      match vwords ws with Some w => is_valid (xmr_decode_current (lang_opt l) w) | None => bad_call end
      | _ => bad_call end);
  ("xmr_decode_current", fun a => match a with [VN l; VL ws] =>
      match vwords ws with Some w => rb (xmr_decode_current (lang_opt l) w) | None => bad_call end
      | _ => bad_call end)
].

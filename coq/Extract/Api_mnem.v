(* API entries for the mnemonic models of C17 (see Extract/ApiCommon.v for the conventions).
   Words travel as VB (code points); a mnemonic as VL of words; a language as its enum position,
   an absent language (automatic detection) as any number >= 100. *)
From Coq Require Import NArith ZArith List String.
From BU Require Import Base.Exn Base.Val Base.Bytes Extract.ApiCommon.
From BU Require Import Gen.MnemConsts Gen.MnemLangs Gen.WlMnem_Ev1.
From BU Require Import Model.MnemWords Model.MnemText Model.ChunkMnemonic.
From BU Require Model.MoneroMnemonic.
Import ListNotations.
Open Scope string_scope.

Definition vwords (l : list val) : option (list (list N)) :=
  fold_right (fun v acc => match v, acc with VB w, Some t => Some (w :: t) | _, _ => None end) (Some []) l.
Definition rwords (r : res (list (list N))) : res val := rmap (fun ws => VL (map VB ws)) r.
Definition endian_of (e : N) : endian := if N.eqb e 0 then Little else Big.
Definition lang_opt (l : N) : option nat := if N.ltb l 100 then Some (N.to_nat l) else None.

(* word list selector of the chunk entries: 0..9 Monero languages, anything else the Electrum v1 list *)
Definition chunk_wl (i : N) : list (list N) :=
  match nth_error xmr_langs (N.to_nat i) with Some L => fst L | None => wl_ev1 end.

(* MnemonicValidator.IsValid: catches ValueError (with its subclasses) and MnemonicChecksumError only *)
Definition is_valid {A} (r : res A) : res val :=
  match r with
  | inl _ => Ok (VBool true)
  | inr ValueError | inr UnicodeError | inr (LibError MnemonicChecksumError) => Ok (VBool false)
  | inr e => Err e
  end.

Definition xmr_encode := MoneroMnemonic.encode xmr_langs xmr_entropy_bit_lens.
Definition xmr_decode := MoneroMnemonic.decode xmr_langs xmr_word_nums xmr_word_nums_chk words_to_chunk.
Definition xmr_decode_current :=
  MoneroMnemonic.decode xmr_langs xmr_word_nums xmr_word_nums_chk words_to_chunk_current.

Definition api (ask : string -> list val -> val) : list api_entry := [
  ("mnem_utf8", fun a => match a with [VB s] => rb (utf8 s) | _ => bad_call end);
  ("mnem_crc32", fun a => match a with [VB b] => Ok (VN (crc32 b)) | _ => bad_call end);
  ("chunk_encode", fun a => match a with [VN l; VN e; VB b] =>
      rwords (bytes_chunk_to_words (chunk_wl l) (endian_of e) b) | _ => bad_call end);
  ("chunk_decode", fun a => match a with [VN l; VN e; VL [VB w1; VB w2; VB w3]] =>
      rb (words_to_chunk (chunk_wl l) (endian_of e) w1 w2 w3) | _ => bad_call end);
  ("chunk_decode_current", fun a => match a with [VN l; VN e; VL [VB w1; VB w2; VB w3]] =>
      rb (words_to_chunk_current (chunk_wl l) (endian_of e) w1 w2 w3) | _ => bad_call end);
  ("xmr_encode", fun a => match a with [VN l; VN c; VB b] =>
      rwords (xmr_encode (N.to_nat l) (negb (N.eqb c 0)) b) | _ => bad_call end);
  ("xmr_decode", fun a => match a with [VN l; VL ws] =>
      match vwords ws with Some w => rb (xmr_decode (lang_opt l) w) | None => bad_call end | _ => bad_call end);
  ("xmr_is_valid", fun a => match a with [VN l; VL ws] =>
      match vwords ws with Some w => is_valid (xmr_decode (lang_opt l) w) | None => bad_call end | _ => bad_call end);
  ("xmr_is_valid_current", fun a => match a with [VN l; VL ws] =>
      match vwords ws with Some w => is_valid (xmr_decode_current (lang_opt l) w) | None => bad_call end
      | _ => bad_call end);
  ("xmr_decode_current", fun a => match a with [VN l; VL ws] =>
      match vwords ws with Some w => rb (xmr_decode_current (lang_opt l) w) | None => bad_call end
      | _ => bad_call end)
].

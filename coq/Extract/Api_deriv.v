(* API entries for Model/Bip32Slip10.v and Model/Electrum.v (properties C03, C04).
   Curve ids: 0 secp256k1, 1 nist256p1, 2 ed25519, 3 ed25519-blake2b.
   Variant: 0 = property-conformant model (SLIP-0010 retry), 1 = the code as it stands (no retry).
   EC points travel as VL [] (infinity) or VL [VN x; VN y]; group operations are answered by the
   ec_base / ec_add oracles (harness/ecref.py) and deriv_ec_mul (harness/deriv_fastec.py, cached Jacobian
   arithmetic cross-checked against ecref on every run); compressed serialisation is computed here.
   [mock]: list of (HMAC data, forced HMAC output) pairs -- lets the harness drive the rare branches
   (left half >= n, zero child) by forcing the same HMAC outputs on both sides. *)
From Coq Require Import NArith ZArith List String Bool.
From BU Require Import Base.Exn Base.Val Base.Bytes Gen.DerivConsts Extract.ApiCommon.
From BU Require Import Model.Group Model.Bip32Slip10 Model.Electrum.
Import ListNotations.
Open Scope string_scope.
Open Scope N_scope.

Section ApiDeriv.
  Variable ask : string -> list val -> val.

  Definition vals_N (l : list val) : list N :=
    map (fun v => match v with VN n => n | _ => 0 end) l.
  Definition o_pt (name : string) (args : list val) : list N :=
    match ask name args with VL l => vals_N l | _ => [] end.
  Definition pt_val (P : list N) : val := VL (map VN P).

  Definition be32 (v : N) : list N := match int_to_be_fixed 32 v with inl b => b | inr _ => [] end.
  Definition ser_c_xy (P : list N) : list N :=
    match P with [x; y] => [2 + y mod 2] ++ be32 x | _ => [] end.
  Definition ser_u_xy (P : list N) : list N :=
    match P with [x; y] => [4] ++ be32 x ++ be32 y | _ => [] end.

  Definition G_oracle (cid ord : N) : group_ops :=
    mk_group_ops (list N) []
      (fun P Q => o_pt "ec_add" [VN cid; pt_val P; pt_val Q])
      (fun k P => o_pt "deriv_ec_mul" [VN cid; VN k; pt_val P])
      (o_pt "ec_base" [VN cid]) ord
      (fun P => match P with [] => true | _ => false end)
      ser_c_xy ser_u_xy.

  Definition G_secp : group_ops := G_oracle 0 secp256k1_order.
  Definition G_nist : group_ops := G_oracle 1 nist256p1_order.

  Fixpoint assoc_bytes (k : list N) (l : list (list N * list N)) : option (list N) :=
    match l with
    | [] => None
    | (a, b) :: t => if list_eqb a k then Some b else assoc_bytes k t
    end.
  Definition mock_of (v : list val) : list (list N * list N) :=
    flat_map (fun e => match e with VL [VB a; VB b] => [(a, b)] | _ => [] end) v.
  Definition hmac_with (mock : list (list N * list N)) (key data : list N) : list N :=
    match assoc_bytes data mock with Some out => out | None => o_hmac_sha512 ask key data end.

  Definition ed_pub_oracle (variant : N) (seed : list N) : list N :=
    o_bytes ask "ed25519_pub" [VN variant; VB seed].

  (* a Bip32 class together with the way its public keys travel *)
  Record packed := mk_packed {
    pk_ops : deriv_ops;
    pk_in : val -> option (d_pub pk_ops);
    pk_out : d_pub pk_ops -> val
  }.

  Definition pt_in (v : val) : option (list N) :=
    match v with VL l => Some (vals_N l) | _ => None end.
  Definition bytes_in (v : val) : option (list N) :=
    match v with VB b => Some b | _ => None end.

  Definition pack (curve variant : N) (hm : list N -> list N -> list N) : packed :=
    match curve with
    | 0 => if variant =? 0
           then mk_packed (ecdsa_ops G_secp hm slip10_hmac_key_secp256k1) pt_in pt_val
           else mk_packed (ecdsa_ops_current G_secp hm slip10_hmac_key_secp256k1) pt_in pt_val
    | 1 => if variant =? 0
           then mk_packed (ecdsa_ops G_nist hm slip10_hmac_key_nist256p1) pt_in pt_val
           else mk_packed (ecdsa_ops_current G_nist hm slip10_hmac_key_nist256p1) pt_in pt_val
    | 2 => mk_packed (ed_ops hm (ed_pub_oracle 0)) bytes_in VB
    | _ => mk_packed (ed_ops hm (ed_pub_oracle 1)) bytes_in VB
    end.

  Definition observe (pk : packed) (o : obj (pk_ops pk)) : val :=
    VL [ VOpt (option_map VB (o_priv o));
         VB (d_pub_ser (pk_ops pk) (o_pub o));
         VB (kd_chain (o_data o));
         VN (kd_depth (o_data o));
         VN (kd_index (o_data o));
         VB (kd_fprint (o_data o));
         VB (fingerprint (o_hash160 ask) (pk_ops pk) o);
         pk_out pk (o_pub o) ].

  Definition to_nat (n : N) : nat := N.to_nat n.
  Definition nz (n : N) : bool := negb (n =? 0).

  (* FromSeed(seed).DerivePath(path) *)
  Definition run_seed (pk : packed) (hm : list N -> list N -> list N) (fuel : N) (seed : list N)
             (is_abs : N) (path : list N) : res val :=
    o <- from_seed_and_path hm (o_hash160 ask) (pk_ops pk) (to_nat fuel) seed (nz is_abs) path ;;
    Ok (observe pk o).

  (* FromPrivateKey(kb, key_data) [.ConvertToPublic()] .DerivePath(path) [.ConvertToPublic()] *)
  Definition run_priv (pk : packed) (hm : list N -> list N -> list N) (fuel : N) (kb : list N)
             (kd : key_data) (pub_first pub_after is_abs : N) (path : list N) : res val :=
    o <- new_priv (pk_ops pk) kb kd ;;
    let o1 := if nz pub_first then convert_to_public (pk_ops pk) o else o in
    o2 <- derive_path (o_hash160 ask) (pk_ops pk) (to_nat fuel) o1 (nz is_abs) path ;;
    Ok (observe pk (if nz pub_after then convert_to_public (pk_ops pk) o2 else o2)).

  (* ---- histories: a start object and a list of operations
       start: VL [VN 0; VB seed] | VL [VN 1; VB kb; VN depth; VN index; VB chain; VB pfp]
            | VL [VN 2; P; VN depth; VN index; VB chain; VB pfp]
       op:    VL [VN 0; VN i] ChildKey(i) | VL [VN 1] ConvertToPublic()
            | VL [VN 2; VN is_abs; VL path] DerivePath(Bip32Path(path, is_abs)) | VL [VN 3] PrivateKey() (checked, object kept) ---- *)
  Definition script_start (pk : packed) (hm : list N -> list N -> list N) (fuel : N) (st : val)
    : res (obj (pk_ops pk)) :=
    match st with
    | VL [VN 0; VB seed] => from_seed hm (pk_ops pk) (to_nat fuel) seed
    | VL [VN 1; VB kb; VN depth; VN index; VB chain; VB pfp] =>
        new_priv (pk_ops pk) kb (mk_key_data depth index chain pfp)
    | VL [VN 2; Pv; VN depth; VN index; VB chain; VB pfp] =>
        match pk_in pk Pv with
        | Some P => new_pub (pk_ops pk) P (mk_key_data depth index chain pfp)
        | None => bad_call
        end
    | _ => bad_call
    end.

  Fixpoint script_ops (pk : packed) (fuel : N) (o : obj (pk_ops pk)) (ops : list val)
    : res (obj (pk_ops pk)) :=
    match ops with
    | [] => Ok o
    | VL [VN 0; VN i] :: t =>
        o' <- child_key (o_hash160 ask) (pk_ops pk) (to_nat fuel) o i ;; script_ops pk fuel o' t
    | VL [VN 1] :: t => script_ops pk fuel (convert_to_public (pk_ops pk) o) t
    | VL [VN 2; VN is_abs; VL path] :: t =>
        o' <- derive_path (o_hash160 ask) (pk_ops pk) (to_nat fuel) o (nz is_abs) (vals_N path) ;;
        script_ops pk fuel o' t
    | VL [VN 3] :: t =>
        _ <- private_key (pk_ops pk) o ;; script_ops pk fuel o t
    | _ => bad_call
    end.

  Definition run_script (pk : packed) (hm : list N -> list N -> list N) (fuel : N) (st : val) (ops : list val)
    : res val :=
    o <- script_start pk hm fuel st ;;
    o' <- script_ops pk fuel o ops ;;
    Ok (observe pk o').

  (* ---- Electrum v1 (secp256k1) ---- *)
  Definition ev1_start (kb : list N) (pub_first : N) : res (ev1 G_secp) :=
    o <- ev1_from_private_key G_secp kb ;;
    Ok (if nz pub_first then ev1_to_public G_secp o else o).
  Definition pub_obs (P : list N) : val := VL [VB (ser_c_xy P); VB (ser_u_xy P)].

  Definition kd_of (depth index : N) (chain pfp : list N) : key_data := mk_key_data depth index chain pfp.

  Definition api_deriv : list api_entry := [
    ("slip10_seed_path", fun a => match a with
       [VN curve; VN variant; VN fuel; VL mock; VB seed; VN is_abs; VL path] =>
         let hm := hmac_with (mock_of mock) in
         run_seed (pack curve variant hm) hm fuel seed is_abs (vals_N path)
       | _ => bad_call end);
    ("slip10_priv_path", fun a => match a with
       [VN curve; VN variant; VN fuel; VL mock; VB kb; VN depth; VN index; VB chain; VB pfp;
        VN pub_first; VN pub_after; VN is_abs; VL path] =>
         let hm := hmac_with (mock_of mock) in
         run_priv (pack curve variant hm) hm fuel kb (kd_of depth index chain pfp) pub_first pub_after
                  is_abs (vals_N path)
       | _ => bad_call end);
    ("slip10_script", fun a => match a with
       [VN curve; VN variant; VN fuel; VL mock; st; VL ops] =>
         let hm := hmac_with (mock_of mock) in
         run_script (pack curve variant hm) hm fuel st ops
       | _ => bad_call end);
    (* ElectrumV1.FromPrivateKey(kb)[ -> FromPublicKey(its public key)].GetPublicKey(change, addr) *)
    ("ev1_get_public_key", fun a => match a with
       [VB kb; VN pub_first; VN change; VN addr] =>
         o <- ev1_start kb pub_first ;;
         rmap pub_obs (ev1_get_public_key G_secp (o_sha256 ask) o change addr)
       | _ => bad_call end);
    ("ev1_get_private_key", fun a => match a with
       [VB kb; VN pub_first; VN change; VN addr] =>
         o <- ev1_start kb pub_first ;;
         rb (ev1_get_private_key G_secp (o_sha256 ask) o change addr)
       | _ => bad_call end);
    (* ElectrumV1.FromPublicKey(point).GetPublicKey(change, addr) *)
    ("ev1_pub_get_public_key", fun a => match a with
       [Pv; VN change; VN addr] =>
         match pt_in Pv with
         | Some P => o <- ev1_from_public_key G_secp P ;;
                     rmap pub_obs (ev1_get_public_key G_secp (o_sha256 ask) o change addr)
         | None => bad_call
         end
       | _ => bad_call end)
  ].
End ApiDeriv.

Definition api (ask : string -> list val -> val) : list api_entry := api_deriv ask.

(* The committed registry snapshot (Lemmas/Registry.v) made executable: coin type of a
   (hierarchy, enum member), for comparison with the live configuration objects. *)
From Coq Require Import NArith List String.
From BU Require Import Base.Exn Base.Val Extract.ApiCommon.
From BU Require Model.Bip44RegistryIdx.
Import ListNotations.
Open Scope string_scope.

Definition api (ask : string -> list val -> val) : list api_entry := [
  ("registry_coin_idx", fun a => match a with [VN hid; VB member] =>
      match Bip44RegistryIdx.registry_coin_idx hid member with
      | Some i => Ok (VN i) | None => Err KeyError end | _ => bad_call end)
].

(* API entries for Model/PyText.v, Model/Bip32Path.v, Model/SubstrateScale.v, Model/SubstratePath.v. *)
From Coq Require Import NArith ZArith List String Bool.
From BU Require Import Base.Exn Base.Val Base.Bytes Gen.PathConsts Extract.ApiCommon.
From BU Require Model.PyText Model.Bip32Path Model.SubstrateScale Model.SubstratePath.
Import ListNotations.
Open Scope string_scope.

Definition vpath (p : Bip32Path.path) : val :=
  VL [VL (map VN (Bip32Path.p_elems p)); VBool (Bip32Path.p_abs p)].

Fixpoint vals_N (l : list val) : option (list N) :=
  match l with
  | [] => Some []
  | VN n :: t => option_map (cons n) (vals_N t)
  | _ => None
  end.

(* the path-walking logic of DerivePath run over a symbolic key: (depth, public-only, indexes walked).
   ChildKey on a public-only key refuses hardened indexes (Bip32Base.__ValidateAndCkdPub). *)
Definition tkey := (N * bool * list N)%type.
Definition t_depth (k : tkey) : N := fst (fst k).
Definition t_ckd (k : tkey) (i : N) : res tkey :=
  let '(d, pub, tr) := k in
  if pub && Bip32Path.is_hardened_index i then Err (LibError Bip32KeyError)
  else Ok ((d + 1)%N, pub, (tr ++ [i])%list).
Definition vtkey (k : tkey) : val :=
  let '(d, pub, tr) := k in VL [VN d; VL (map VN tr)].

Definition velem (el : SubstratePath.elem) : val :=
  VL [VB (SubstratePath.e_body el); VBool (SubstratePath.e_hard el)].

Fixpoint vals_B (l : list val) : option (list (list N)) :=
  match l with
  | [] => Some []
  | VB b :: t => option_map (cons b) (vals_B t)
  | _ => None
  end.

Definition split32 (b : list N) : list N * list N := (firstn 32 b, skipn 32 b).

Definition vskey (k : SubstratePath.skey) : val :=
  VL [match SubstratePath.k_priv k with Some sk => VL [VB sk] | None => VL [] end;
      VB (SubstratePath.k_pub k); VB (SubstratePath.to_str (SubstratePath.k_path k))].

Definition api (ask : string -> list val -> val) : list api_entry :=
  let blake := o_blake2b ask 32 in
  let hard := fun cc pk sk => split32 (o_bytes ask "sr25519_hard" [VB cc; VB pk; VB sk]) in
  let soft := fun cc pk sk => split32 (o_bytes ask "sr25519_soft" [VB cc; VB pk; VB sk]) in
  let softpub := fun cc pk => o_bytes ask "sr25519_soft_pub" [VB cc; VB pk] in [
  ("utf8_encode", fun a => match a with [VB s] => rb (SubstrateScale.utf8_encode s) | _ => bad_call end);
  ("utf8_decode", fun a => match a with [VB b] => Ok (VOpt (option_map VB (SubstrateScale.utf8_decode b))) | _ => bad_call end);
  ("scale_cuint", fun a => match a with [VN v] => rb (SubstrateScale.cuint_encode v) | _ => bad_call end);
  ("scale_bytes", fun a => match a with [VB s] => rb (SubstrateScale.bytes_encode_str s) | _ => bad_call end);
  ("sub_make_elem", fun a => match a with [VB e] => rmap velem (SubstratePath.make_elem e) | _ => bad_call end);
  ("sub_parse", fun a => match a with [VB s] => rmap (fun p => VL (map velem p)) (SubstratePath.parse s) | _ => bad_call end);
  ("sub_to_str", fun a => match a with [VL l] =>
      match vals_B l with
      | Some es => rmap (fun p => VB (SubstratePath.to_str p)) (mapM SubstratePath.make_elem es)
      | None => bad_call end | _ => bad_call end);
  ("sub_chain_code", fun a => match a with [VB b] => rb (SubstratePath.chain_code blake b) | _ => bad_call end);
  ("sub_derive", fun a => match a with [VL sk; VB pk; VB s] =>
      let k := SubstratePath.mk_skey (match sk with [VB x] => Some x | _ => None end) pk [] in
      rmap vskey (SubstratePath.derive_path_str blake hard soft softpub k s) | _ => bad_call end);
  ("py_int", fun a => match a with [VB s] => rmap VZ (PyText.py_int s) | _ => bad_call end);
  ("py_isnumeric", fun a => match a with [VB s] => Ok (VBool (PyText.py_isnumeric s)) | _ => bad_call end);
  ("py_strip", fun a => match a with [VB s] => Ok (VB (PyText.py_strip s)) | _ => bad_call end);
  ("py_str_of_int", fun a => match a with [VN n] => Ok (VB (PyText.str_of_N n)) | _ => bad_call end);
  ("py_cp_class", fun a => match a with [VN c] =>
      Ok (VL [VBool (PyText.cp_isnumeric c); VBool (PyText.cp_isdecimal c); VBool (PyText.cp_isdigit c);
              VBool (PyText.cp_isspace c); VBool (PyText.cp_int_space c);
              match PyText.cp_digit_val c with Some d => VL [VN d] | None => VL [] end]) | _ => bad_call end);
  ("bip32_parse", fun a => match a with [VB s] => rmap vpath (Bip32Path.parse s) | _ => bad_call end);
  ("bip32_to_str", fun a => match a with [VL l; VN ab] =>
      match vals_N l with
      | Some idx => rmap (fun p => VB (Bip32Path.to_str p))
                         (Bip32Path.make_path (map Z.of_N idx) (negb (N.eqb ab 0)))
      | None => bad_call end | _ => bad_call end);
  ("bip32_key_index", fun a => match a with [VZ i] => rn (Bip32Path.key_index i) | _ => bad_call end);
  ("bip32_index_ops", fun a => match a with [VZ i] =>
      Ok (VL [VZ (Bip32Path.harden_index_z i); VZ (Bip32Path.unharden_index_z i);
              VBool (Bip32Path.is_hardened_index_z i)]) | _ => bad_call end);
  ("bip32_index_to_bytes", fun a => match a with [VN big; VN i] =>
      rb (Bip32Path.key_index_to_bytes (negb (N.eqb big 0)) i) | _ => bad_call end);
  ("bip32_index_from_bytes", fun a => match a with [VB b] => rn (Bip32Path.key_index_from_bytes b) | _ => bad_call end);
  ("bip32_derive_trace", fun a => match a with [VN d; VN pub; VB s] =>
      rmap vtkey (Bip32Path.derive_path_str tkey t_depth t_ckd (d, negb (N.eqb pub 0), []) s) | _ => bad_call end)
].

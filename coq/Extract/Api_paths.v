(* API entries for Model/PyText.v, Model/Bip32Path.v, Model/SubstrateScale.v, Model/SubstratePath.v. *)
From Coq Require Import NArith ZArith List String Bool.
From BU Require Import Base.Exn Base.Val Base.Bytes Gen.PathConsts Extract.ApiCommon.
From BU Require Model.PyText Model.Bip32Path.
Import ListNotations.
Open Scope string_scope.

Definition vpath (p : Bip32Path.path) : val :=
  VL [VL (map VN (Bip32Path.p_elems p)); VBool (Bip32Path.p_abs p)].

Fixpoint vals_N (l : list val) : option (list N) :=
  match l with
  | [] => Some []
  | VN n :: t => option_map (cons n) (vals_N t)
  | _ => None
  end.

(* the path-walking logic of DerivePath run over a symbolic key: (depth, public-only, indexes walked).
   ChildKey on a public-only key refuses hardened indexes (Bip32Base.__ValidateAndCkdPub). *)
Definition tkey := (N * bool * list N)%type.
Definition t_depth (k : tkey) : N := fst (fst k).
Definition t_ckd (k : tkey) (i : N) : res tkey :=
  let '(d, pub, tr) := k in
  if pub && Bip32Path.is_hardened_index i then Err (LibError Bip32KeyError)
  else Ok ((d + 1)%N, pub, (tr ++ [i])%list).
Definition vtkey (k : tkey) : val :=
  let '(d, pub, tr) := k in VL [VN d; VL (map VN tr)].

Definition api (ask : string -> list val -> val) : list api_entry := [
  ("py_int", fun a => match a with [VB s] => rmap VZ (PyText.py_int s) | _ => bad_call end);
  ("py_isnumeric", fun a => match a with [VB s] => Ok (VBool (PyText.py_isnumeric s)) | _ => bad_call end);
  ("py_strip", fun a => match a with [VB s] => Ok (VB (PyText.py_strip s)) | _ => bad_call end);
  ("py_str_of_int", fun a => match a with [VN n] => Ok (VB (PyText.str_of_N n)) | _ => bad_call end);
  ("py_cp_class", fun a => match a with [VN c] =>
      Ok (VL [VBool (PyText.cp_isnumeric c); VBool (PyText.cp_isdecimal c); VBool (PyText.cp_isdigit c);
              VBool (PyText.cp_isspace c); VBool (PyText.cp_int_space c);
              match PyText.cp_digit_val c with Some d => VL [VN d] | None => VL [] end]) | _ => bad_call end);
  ("bip32_parse", fun a => match a with [VB s] => rmap vpath (Bip32Path.parse s) | _ => bad_call end);
  ("bip32_parse_current", fun a => match a with [VB s] => rmap vpath (Bip32Path.parse_current s) | _ => bad_call end);
  ("bip32_to_str", fun a => match a with [VL l; VN ab] =>
      match vals_N l with
      | Some idx => rmap (fun p => VB (Bip32Path.to_str p))
                         (Bip32Path.make_path (map Z.of_N idx) (negb (N.eqb ab 0)))
      | None => bad_call end | _ => bad_call end);
  ("bip32_key_index", fun a => match a with [VZ i] => rn (Bip32Path.key_index i) | _ => bad_call end);
  ("bip32_index_ops", fun a => match a with [VZ i] =>
      Ok (VL [VZ (Bip32Path.harden_index_z i); VZ (Bip32Path.unharden_index_z i);
              VBool (Bip32Path.is_hardened_index_z i)]) | _ => bad_call end);
  ("bip32_index_to_bytes", fun a => match a with [VN big; VN i] =>
      rb (Bip32Path.key_index_to_bytes (negb (N.eqb big 0)) i) | _ => bad_call end);
  ("bip32_index_from_bytes", fun a => match a with [VB b] => rn (Bip32Path.key_index_from_bytes b) | _ => bad_call end);
  ("bip32_derive_trace", fun a => match a with [VN d; VN pub; VB s] =>
      rmap vtkey (Bip32Path.derive_path_str tkey t_depth t_ckd (d, negb (N.eqb pub 0), []) s) | _ => bad_call end)
].

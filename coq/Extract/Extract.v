From Coq Require Import ExtrOcamlBasic.
From BU Require Import Extract.ApiCommon Extract.Api.
Extraction Language OCaml.
Extraction "model.ml" Api.dispatch ApiCommon.result_code.

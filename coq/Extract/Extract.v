From Coq Require Import ExtrOcamlBasic.
From BU Require Import Extract.Api.
Extraction Language OCaml.
Extraction "model.ml" dispatch result_code.

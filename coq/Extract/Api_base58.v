(* API entries for Model/Base58.v (see Extract/ApiCommon.v for the conventions). *)
From Coq Require Import NArith ZArith List String.
From BU Require Import Base.Exn Base.Val Base.Bytes Gen.Consts Extract.ApiCommon.
From BU Require Model.Base58.
Import ListNotations.
Open Scope string_scope.

Definition b58_alph (i : N) : list N := if N.eqb i 0 then b58_alph_btc else b58_alph_xrp.

Definition api (ask : string -> list val -> val) : list api_entry :=
  let sha256 := o_sha256 ask in [
  ("b58_encode", fun a => match a with [VN i; VB b] =>
      Ok (VB (Base58.encode (b58_alph i) b58_radix b)) | _ => bad_call end);
  ("b58_decode", fun a => match a with [VN i; VB s] =>
      rb (Base58.decode (b58_alph i) b58_radix s) | _ => bad_call end);
  ("b58_check_encode", fun a => match a with [VN i; VB b] =>
      Ok (VB (Base58.check_encode (b58_alph i) b58_radix b58_cklen sha256 b)) | _ => bad_call end);
  ("b58_check_decode", fun a => match a with [VN i; VB s] =>
      rb (Base58.check_decode (b58_alph i) b58_radix b58_cklen sha256 s) | _ => bad_call end)
].

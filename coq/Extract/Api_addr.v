(* API entries for Model/AddrB58.v. *)
From Coq Require Import NArith ZArith List String.
From BU Require Import Base.Exn Base.Val Base.Bytes Gen.Consts Gen.AddrConsts Extract.ApiCommon.
From BU Require Model.AddrB58.
Import ListNotations.
Open Scope string_scope.

Definition alph_of (i : N) : list N := if N.eqb i 0 then b58_alph_btc else b58_alph_xrp.
Definition bool_of (n : N) : bool := negb (N.eqb n 0).

Definition api_main (ask : string -> list val -> val) : list api_entry :=
  let sha := o_sha256 ask in
  let rip := o_ripemd160 ask in
  let kec := o_keccak256 ask in
  let sha3 := o_sha3_256 ask in
  let b2b := fun (n : nat) b => o_blake2b ask (N.of_nat n) b in
  let vp := fun (curve : N) b => o_bool ask "valid_pub" [VN curve; VB b] in
  [
  ("p2pkh_encode", fun a => match a with [VN i; VB nv; VB pub] =>
      Ok (VB (AddrB58.p2pkh_encode sha rip (alph_of i) nv pub)) | _ => bad_call end);
  ("p2pkh_decode", fun a => match a with [VN i; VB nv; VB s] =>
      rb (AddrB58.p2pkh_decode sha (alph_of i) nv s) | _ => bad_call end);
  ("p2sh_encode", fun a => match a with [VB nv; VB pub] =>
      Ok (VB (AddrB58.p2sh_encode sha rip nv pub)) | _ => bad_call end);
  ("p2sh_decode", fun a => match a with [VB nv; VB s] =>
      rb (AddrB58.p2sh_decode sha nv s) | _ => bad_call end);
  ("xrp_encode", fun a => match a with [VB pub] => Ok (VB (AddrB58.xrp_encode sha rip pub)) | _ => bad_call end);
  ("xrp_decode", fun a => match a with [VB s] => rb (AddrB58.xrp_decode sha s) | _ => bad_call end);
  ("xtz_encode", fun a => match a with [VB p; VB pub] => Ok (VB (AddrB58.xtz_encode sha b2b p pub)) | _ => bad_call end);
  ("xtz_decode", fun a => match a with [VB p; VB s] => rb (AddrB58.xtz_decode sha p s) | _ => bad_call end);
  ("neo_encode", fun a => match a with [VB v; VB p; VB sfx; VB pub] =>
      Ok (VB (AddrB58.neo_encode sha rip v p sfx pub)) | _ => bad_call end);
  ("neo_decode", fun a => match a with [VB v; VB s] => rb (AddrB58.neo_decode sha v s) | _ => bad_call end);
  ("eos_encode", fun a => match a with [VB pub] => Ok (VB (AddrB58.eos_encode rip pub)) | _ => bad_call end);
  ("eos_decode", fun a => match a with [VB s] => rb (AddrB58.eos_decode rip (vp 0%N) s) | _ => bad_call end);
  ("ergo_encode", fun a => match a with [VN net; VB pub] => Ok (VB (AddrB58.ergo_encode b2b net pub)) | _ => bad_call end);
  ("ergo_decode", fun a => match a with [VN net; VB s] => rb (AddrB58.ergo_decode b2b (vp 0%N) net s) | _ => bad_call end);
  ("sol_encode", fun a => match a with [VB pub] => Ok (VB (AddrB58.sol_encode pub)) | _ => bad_call end);
  ("sol_decode", fun a => match a with [VB s] => rb (AddrB58.sol_decode (vp 2%N) s) | _ => bad_call end);
  ("eth_encode", fun a => match a with [VN sk; VB pub] => Ok (VB (AddrB58.eth_encode kec (bool_of sk) pub)) | _ => bad_call end);
  ("eth_decode", fun a => match a with [VN sk; VB s] => rb (AddrB58.eth_decode kec (bool_of sk) s) | _ => bad_call end);
  ("trx_encode", fun a => match a with [VB pub] => rb (AddrB58.trx_encode sha kec pub) | _ => bad_call end);
  ("trx_decode", fun a => match a with [VB s] => rb (AddrB58.trx_decode sha kec s) | _ => bad_call end);
  ("icx_encode", fun a => match a with [VB pub] => Ok (VB (AddrB58.icx_encode sha3 pub)) | _ => bad_call end);
  ("icx_decode", fun a => match a with [VB s] => rb (AddrB58.icx_decode s) | _ => bad_call end);
  ("near_encode", fun a => match a with [VB pub] => Ok (VB (AddrB58.near_encode pub)) | _ => bad_call end);
  ("near_decode", fun a => match a with [VB s] => rb (AddrB58.near_decode (vp 2%N) s) | _ => bad_call end);
  ("sui_encode", fun a => match a with [VB pub] => Ok (VB (AddrB58.sui_encode b2b pub)) | _ => bad_call end);
  ("sui_decode", fun a => match a with [VB s] => rb (AddrB58.sui_decode s) | _ => bad_call end);
  ("aptos_encode", fun a => match a with [VN t; VB pub] => Ok (VB (AddrB58.aptos_encode sha3 (bool_of t) pub)) | _ => bad_call end);
  ("aptos_decode", fun a => match a with [VB s] => rb (AddrB58.aptos_decode s) | _ => bad_call end)
].

(* Taproot output key (Model/Taproot.v); curve arithmetic through the ec_* oracles (curve id 0) *)
From BU Require Model.Taproot.
From BU Require Import Base.Radix.

Definition pt_of_val (v : val) : option (N * N) :=
  match v with VL [VN x; VN y] => Some (x, y) | _ => None end.
Definition val_of_pt (p : option (N * N)) : val :=
  match p with Some (x, y) => VL [VN x; VN y] | None => VL [] end.

Definition api_taproot (ask : string -> list val -> val) : list api_entry :=
  let sha := o_sha256 ask in
  let sqrt_even := fun x => match ask "ec_lift_x" [VN 0; VN x; VN 0] with VL [VN _; VN y] => Some y | _ => None end in
  let ec_add := fun p q => pt_of_val (ask "ec_add" [VN 0; val_of_pt p; val_of_pt q]) in
  (* coincurve: scalar 0 or >= n is refused with ValueError.  (The order is asked for inside the
     closure: extracted OCaml is strict, a let-bound oracle call would run on every dispatch.) *)
  let mul_base := fun k => if orb (N.eqb k 0) (N.leb (o_N ask "ec_order" [VN 0]) k) then Err ValueError
                           else Ok (pt_of_val (ask "ec_mul" [VN 0; VN k; ask "ec_base" [VN 0]])) in
  [ ("taproot_tweak", fun a => match a with [VB pub] =>
       rb (Taproot.tweak sha sqrt_even ec_add mul_base secp_coord_len pub) | _ => bad_call end) ].

Definition api (ask : string -> list val -> val) : list api_entry := api_main ask ++ api_taproot ask.

(* API entries for the Bech32 / SegWit / CashAddr address pipelines of Model/AddrText.v on the C10 codec models. *)
From Coq Require Import NArith ZArith List String.
From BU Require Import Base.Exn Base.Val Base.Bytes Gen.Consts Gen.AddrConsts Gen.AddrTextConsts Extract.ApiCommon.
From BU Require Model.AddrText Model.Bech32 Model.Taproot.
From BU Require Extract.Api_addr.
Import ListNotations.
Open Scope string_scope.

Definition api (ask : string -> list val -> val) : list api_entry :=
  let sha := o_sha256 ask in
  let rip := o_ripemd160 ask in
  let kec := o_keccak256 ask in
  let vp := fun (curve : N) b => o_bool ask "valid_pub" [VN curve; VB b] in
  let benc := Bech32.bech32_encode in
  let bdec := Bech32.bech32_decode in
  [
  ("atom_encode", fun a => match a with [VB hrp; VB pub] => rb (AddrText.atom_encode sha rip benc hrp pub) | _ => bad_call end);
  ("atom_decode", fun a => match a with [VB hrp; VB s] => rb (AddrText.atom_decode bdec hrp s) | _ => bad_call end);
  ("avax_encode", fun a => match a with [VN x; VB pub] =>
      rb (if N.eqb x 0 then AddrText.avax_encode sha rip benc avax_p_prefix avax_p_hrp pub
          else AddrText.avax_encode sha rip benc avax_x_prefix avax_x_hrp pub) | _ => bad_call end);
  ("avax_decode", fun a => match a with [VN x; VB s] =>
      rb (if N.eqb x 0 then AddrText.avax_decode bdec avax_p_prefix avax_p_hrp s
          else AddrText.avax_decode bdec avax_x_prefix avax_x_hrp s) | _ => bad_call end);
  ("egld_encode", fun a => match a with [VB pub] => rb (AddrText.egld_encode benc pub) | _ => bad_call end);
  ("egld_decode", fun a => match a with [VB s] => rb (AddrText.egld_decode vp bdec s) | _ => bad_call end);
  ("zil_encode", fun a => match a with [VB pub] => rb (AddrText.zil_encode sha benc pub) | _ => bad_call end);
  ("zil_decode", fun a => match a with [VB s] => rb (AddrText.zil_decode bdec s) | _ => bad_call end);
  (* which: 0 inj, 1 okex, 2 one *)
  ("ethb32_encode", fun a => match a with [VN w; VB pub_u] =>
      rb (AddrText.ethb32_encode kec benc (if N.eqb w 0 then inj_hrp else if N.eqb w 1 then okex_hrp else one_hrp) pub_u)
      | _ => bad_call end);
  ("ethb32_decode", fun a => match a with [VN w; VB s] =>
      rb (if N.eqb w 0 then AddrText.inj_decode bdec s
          else AddrText.ethb32_decode kec bdec (if N.eqb w 1 then okex_hrp else one_hrp) s) | _ => bad_call end);
  ("p2wpkh_encode", fun a => match a with [VB hrp; VB pub] =>
      rb (AddrText.p2wpkh_encode sha rip Bech32.segwit_encode hrp pub) | _ => bad_call end);
  ("p2wpkh_decode", fun a => match a with [VB hrp; VB s] => rb (AddrText.p2wpkh_decode Bech32.segwit_decode hrp s) | _ => bad_call end);
  ("p2tr_decode", fun a => match a with [VB hrp; VB s] => rb (AddrText.p2tr_decode Bech32.segwit_decode hrp s) | _ => bad_call end);
  ("bch_p2pkh_encode", fun a => match a with [VB hrp; VB nv; VB pub] =>
      rb (AddrText.bch_p2pkh_encode sha rip Bech32.cash_encode hrp nv pub) | _ => bad_call end);
  ("bch_p2sh_encode", fun a => match a with [VB hrp; VB nv; VB pub] =>
      rb (AddrText.bch_p2sh_encode sha rip Bech32.cash_encode hrp nv pub) | _ => bad_call end);
  ("bch_decode", fun a => match a with [VB hrp; VB nv; VB s] => rb (AddrText.bch_decode Bech32.cash_decode hrp nv s) | _ => bad_call end)
].

(* API entries for Model/Bip39.v and Model/Seeds.v (see Extract/ApiCommon.v for the conventions).
   A language is VL [] (auto-detect) or VL [VN i] (index in Gen.WlBip39.bip39_langs);
   a mnemonic object is VL [VB word; ...]; text is VB code-points. *)
From Coq Require Import NArith ZArith List String.
From BU Require Import Base.Exn Base.Val Base.Bytes Gen.Bip39Consts Gen.WlBip39 Extract.ApiCommon.
From BU Require Model.BinStr Model.Bip39 Model.Seeds.
Import ListNotations.
Open Scope string_scope.

Definition lang_of (v : val) : option (option (list (list N))) :=
  match v with
  | VL [] => Some None
  | VL [VN i] => match nth_error bip39_langs (N.to_nat i) with Some wl => Some (Some wl) | None => None end
  | _ => None
  end.

Fixpoint words_of (l : list val) : option (list (list N)) :=
  match l with
  | [] => Some []
  | VB w :: t => match words_of t with Some r => Some (w :: r) | None => None end
  | _ => None
  end.

Definition vwords (ws : list (list N)) : val := VL (map VB ws).
Definition rbool (r : res bool) : res val := rmap VBool r.

(* error class of a validity oracle: 0 = fine, otherwise the exn_code of the exception *)
Definition res_of_code (c : N) : res unit :=
  if N.eqb c 0 then Ok tt
  else if N.eqb c 1 then Err ValueError
  else if N.eqb c 104 then Err (LibError MnemonicChecksumError)
  else Err (Foreign c).

Definition api (ask : string -> list val -> val) : list api_entry :=
  let sha256 := o_sha256 ask in
  let nfkd := o_nfkd ask in
  let lower := fun s => o_bytes ask "py_lower" [VB s] in
  let pbkdf2 := o_pbkdf2_sha512 ask in
  let ev2_validate := fun ws => res_of_code (o_N ask "electrum_v2_validate" [vwords ws]) in
  let ev1_decode := fun ws =>
      match ask "electrum_v1_decode" [vwords ws] with
      | VL [VN c; VB b] => if N.eqb c 0 then Ok b else (_ <- res_of_code c ;; Err ValueError)
      | _ => Err (Foreign 2)
      end in
  let sha256_iter := fun hex n => o_bytes ask "sha256_iter_electrum_v1" [VB hex; VN n] in
  [
  ("bip39_normalize", fun a => match a with [VB s] =>
      Ok (vwords (Bip39.normalize nfkd lower s)) | _ => bad_call end);
  ("bip39_encode", fun a => match a with [VN i; VB ent] =>
      match nth_error bip39_langs (N.to_nat i) with
      | Some wl => rmap vwords (Bip39.encode sha256 nfkd lower wl ent)
      | None => bad_call end | _ => bad_call end);
  ("bip39_decode", fun a => match a with [l; VL ws] =>
      match lang_of l, words_of ws with
      | Some lang, Some w => rb (Bip39.decode sha256 bip39_langs lang w)
      | _, _ => bad_call end | _ => bad_call end);
  ("bip39_decode_str", fun a => match a with [l; VB s] =>
      match lang_of l with
      | Some lang => rb (Bip39.decode_str sha256 nfkd lower bip39_langs lang s)
      | _ => bad_call end | _ => bad_call end);
  ("bip39_decode_ck", fun a => match a with [l; VL ws] =>
      match lang_of l, words_of ws with
      | Some lang, Some w => rb (Bip39.decode_with_checksum sha256 bip39_langs lang w)
      | _, _ => bad_call end | _ => bad_call end);
  ("bip39_decode_ck_str", fun a => match a with [l; VB s] =>
      match lang_of l with
      | Some lang => rb (Bip39.decode_with_checksum_str sha256 nfkd lower bip39_langs lang s)
      | _ => bad_call end | _ => bad_call end);
  ("bip39_is_valid", fun a => match a with [l; VL ws] =>
      match lang_of l, words_of ws with
      | Some lang, Some w => rbool (Bip39.is_valid sha256 bip39_langs lang w)
      | _, _ => bad_call end | _ => bad_call end);
  ("bip39_is_valid_str", fun a => match a with [l; VB s] =>
      match lang_of l with
      | Some lang => rbool (Bip39.is_valid_str sha256 nfkd lower bip39_langs lang s)
      | _ => bad_call end | _ => bad_call end);
  (* ---- seeds ---- *)
  ("bip39_seed_str", fun a => match a with [l; VB s; VB p] =>
      match lang_of l with
      | Some lang => rb (Seeds.bip39_seed_str sha256 nfkd lower pbkdf2 bip39_langs lang s p)
      | _ => bad_call end | _ => bad_call end);
  ("bip39_seed_list", fun a => match a with [l; VL ws; VB p] =>
      match lang_of l, words_of ws with
      | Some lang, Some w => rb (Seeds.bip39_seed_list sha256 nfkd lower pbkdf2 bip39_langs lang w p)
      | _, _ => bad_call end | _ => bad_call end);
  ("substrate_seed_str", fun a => match a with [l; VB s; VB p] =>
      match lang_of l with
      | Some lang => rb (Seeds.substrate_seed_str sha256 nfkd lower pbkdf2 bip39_langs lang s p)
      | _ => bad_call end | _ => bad_call end);
  ("electrum_v2_seed_str", fun a => match a with [VB s; VB p] =>
      rb (Seeds.electrum_v2_seed_str nfkd lower pbkdf2 ev2_validate s p) | _ => bad_call end);
  ("electrum_v1_seed_str", fun a => match a with [VB s] =>
      rb (Seeds.electrum_v1_seed_o_str nfkd lower ev1_decode sha256_iter s) | _ => bad_call end);
  (* the N.iter definition itself, for small iteration counts (ties it to the loop oracle) *)
  ("electrum_v1_stretch", fun a => match a with [VB hex; VN n] =>
      Ok (VB (Seeds.ev1_stretch sha256 hex n)) | _ => bad_call end);
  ("utf8_encode", fun a => match a with [VB s] => rb (Seeds.utf8 s) | _ => bad_call end)
].

(* API entries for the coin tables (C08): the generated table, the committed snapshot and the
   boolean checks of Model/Coins.v, addressed by index so that the harness can compare every
   field of every member with the live configuration objects of the implementation. *)
From Coq Require Import NArith ZArith List String.
From BU Require Import Base.Exn Base.Val Base.Bytes Gen.CoinsConsts Model.Coins Gen.Coins Extract.ApiCommon.
From BU Require Lemmas.CoinsExpected Lemmas.Registry.
Import ListNotations.
Open Scope string_scope.

Definition vstrs (l : list (list N)) : val := VL (map VB l).

Definition params_val (p : addr_params) : val :=
  match p with
  | APNone => VL [VN 0]
  | APNetVer v => VL [VN 1; VB v]
  | APHrp h => VL [VN 2; VB h]
  | APBch h v => VL [VN 3; VB h; VB v]
  | APNeo v => VL [VN 4; VB v]
  | APSS58 f => VL [VN 5; VN f]
  | APXlm t => VL [VN 6; VN t]
  | APXtz p => VL [VN 7; VB p]
  | APErgo t => VL [VN 8; VN t]
  | APShelley t => VL [VN 9; VN t]
  | APChainCode => VL [VN 10]
  end.

Definition addr_val (a : addr_conf) : val :=
  VL [VN (addr_cls_code (a_cls a)); vstrs (a_keys a); vstrs (a_call_keys a); params_val (a_params a)].

Definition body_val (b : coin_body) : val :=
  match b with
  | CBip b =>
      VL [VN 0; VN (conf_cls_code (b_conf_cls b)); VN (b_coin_idx b); VBool (b_testnet b);
          VB (b_def_path b); VB (b_key_pub b); VB (b_key_priv b);
          VOpt (match b_alt_key b with Some (p, q) => Some (VL [VB p; VB q]) | None => None end);
          VOpt (match b_wif b with Some w => Some (VB w) | None => None end);
          VN (bip32_code (b_bip32 b)); VN (curve_code (b_curve b));
          addr_val (b_addr b);
          VOpt (match b_alt_addr b with Some a => Some (addr_val a) | None => None end)]
  | CSubstrate f => VL [VN 1; VN f]
  | CMonero a i s => VL [VN 2; VB a; VB i; VB s]
  end.

(* provenance fields that exist only in the source text (c_cc_refs, b_slip44_sym) are not part
   of the value compared with the live objects; they are covered by registry_equal *)
Definition coin_val (c : coin) : val :=
  VL [VN (family_code (c_family c)); VB (c_member c); VN (c_value c); VB (c_conf_attr c);
      VB (c_cc c); VB (c_name c); VB (c_abbr c); body_val (c_body c)].

Definition pval_val (p : pval) : val :=
  match p with PB b => VL [VN 0; VB b] | PS s => VL [VN 1; VB s] | PI n => VL [VN 2; VN n] end.
Definition cconf_val (c : cconf) : val :=
  VL [VB (cc_attr c); VB (cc_name c); VB (cc_abbr c);
      VL (map (fun kv => VL [VB (fst kv); pval_val (snd kv)]) (cc_params c))].

Definition nth_res {A} (l : list A) (i : N) : res A := of_option (nth_error l (N.to_nat i)) IndexError.

Definition the_env : env :=
  {| e_infos := addr_cls_table; e_accepts := key_accepts_table; e_refused := toaddress_refused |}.

Definition api (ask : string -> list val -> val) : list api_entry := [
  ("coins_count", fun a => match a with [] => Ok (VNat (List.length all_coins)) | _ => bad_call end);
  ("cconf_count", fun a => match a with [] => Ok (VNat (List.length coins_conf_table)) | _ => bad_call end);
  ("gen_coin", fun a => match a with [VN i] => rmap coin_val (nth_res all_coins i) | _ => bad_call end);
  ("reg_coin", fun a => match a with [VN i] => rmap coin_val (nth_res Registry.golden i) | _ => bad_call end);
  ("gen_cconf", fun a => match a with [VN i] => rmap cconf_val (nth_res coins_conf_table i) | _ => bad_call end);
  ("reg_cconf", fun a => match a with [VN i] => rmap cconf_val (nth_res Registry.golden_coins_conf i) | _ => bad_call end);
  ("gen_slip44", fun a => match a with [] =>
      Ok (VL (map (fun kv => VL [VB (fst kv); VN (snd kv)]) slip44_table)) | _ => bad_call end);
  ("reg_slip44", fun a => match a with [] =>
      Ok (VL (map (fun kv => VL [VB (fst kv); VN (snd kv)]) Registry.golden_slip44)) | _ => bad_call end);
  ("coin_ok", fun a => match a with [VN i] =>
      rmap (fun c => VBool (coin_ok the_env c)) (nth_res all_coins i) | _ => bad_call end);
  ("coin_coherent", fun a => match a with [VN i] =>
      rmap (fun c => VBool (coin_coherent coins_conf_table slip44_table CoinsExpected.testnet_keeps_index c))
           (nth_res all_coins i) | _ => bad_call end);
  ("cconf_coherent", fun a => match a with [VN i] =>
      rmap (fun c => VBool (cconf_coherent c)) (nth_res coins_conf_table i) | _ => bad_call end);
  ("cc_param_ok", fun a => match a with [VB k; VN t; VB b; VN n] =>
      Ok (VBool (cc_param_ok (k, match t with 0%N => PB b | 1%N => PS b | _ => PI n end))) | _ => bad_call end);
  ("parse_path", fun a => match a with [VB s] =>
      rmap (fun r => VL [VBool (fst r); VL (map VN (snd r))]) (parse_path s) | _ => bad_call end);
  ("show_path", fun a => match a with [VN ab; VL l] =>
      Ok (VB (show_path (negb (N.eqb ab 0)) (map (fun v => match v with VN n => n | _ => 0%N end) l)))
      | _ => bad_call end);
  ("full_path", fun a => match a with [VN i] =>
      c <- nth_res all_coins i ;;
      match c_body c with
      | CBip b => rmap (fun p => VL (map VN p)) (full_default_path (c_family c) b)
      | _ => Err TypeError
      end | _ => bad_call end);
  ("enum_aliases", fun a => match a with [] =>
      Ok (VL (map (fun t => VL [VN (family_code (fst (fst t))); VB (snd (fst t)); VB (snd t)]) enum_aliases))
      | _ => bad_call end);
  ("addr_keys", fun a => match a with [VN i] =>
      rmap (fun r => VL [VN (addr_cls_code (ai_cls r)); VN (key_kind_code (ai_key r)); vstrs (ai_enc_req r);
                         vstrs (ai_enc_opt r); vstrs (ai_dec_req r); vstrs (ai_dec_opt r)])
           (nth_res addr_cls_table i) | _ => bad_call end)
].

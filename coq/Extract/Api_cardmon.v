(* API entries for the Monero (C16) and Cardano (C18) models. *)
From Coq Require Import NArith ZArith List String Bool.
From BU Require Import Base.Exn Base.Val Base.Radix Base.Bytes Gen.ConstsCardmon Extract.ApiCommon.
From BU Require Model.XmrB58 Model.EdLib Model.AddrXmr Model.Monero Model.CborEnc Model.Bip32Kholaw Model.ByronLegacyDeriv Model.AddrAdaShelley Model.AddrAdaByron.
Import ListNotations.
Open Scope string_scope.

(* ed25519 points travel as coordinates; the reference arithmetic is harness/ecref.py (curve id 2) *)
Definition pt := (N * N)%type.
Definition vpt (p : pt) : val := VL [VN (fst p); VN (snd p)].
Definition pt_of_val (v : val) : option pt :=
  match v with VL [VN x; VN y] => Some (x, y) | _ => None end.

Section Ed.
  Variable ask : string -> list val -> val.
  Definition o_pt (name : string) (args : list val) : pt :=
    match pt_of_val (ask name args) with Some p => p | None => (0, 1)%N end.
  Definition e_add (p q : pt) : pt := o_pt "ec_add" [VN 2; vpt p; vpt q].
  Definition e_mul (n : N) (p : pt) : pt := o_pt "ec_mul" [VN 2; VN n; vpt p].
  Definition e_base : pt := o_pt "ec_base" [VN 2].
  Definition e_is_zero (p : pt) : bool := (N.eqb (fst p) 0 && N.eqb (snd p) 1)%bool.
  (* RFC 8032 encoding, computed here (not an oracle) *)
  Definition e_enc (p : pt) : list N := EdLib.le_pad 32 (snd p + 2 ^ 255 * (fst p mod 2))%N.
  Definition e_dec (b : list N) : option pt := pt_of_val (ask "ed_dec_lenient" [VB b]).
  Definition e_refused (b : list N) : bool := o_bool ask "ed_mul_refuses" [VB b].
End Ed.

Definition xmr_net (i : N) : Monero.netconf := nth (N.to_nat i) xmr_nets ([], [], []).

Definition vopt_b (o : option (list N)) : val := match o with Some b => VL [VB b] | None => VL [] end.
Definition opt_of_val (v : val) : option (option (list N)) :=
  match v with VL [] => Some None | VL [VB b] => Some (Some b) | _ => None end.


(* ---- Cardano (C18) ---- *)
Definition master_fuel : nat := 200.
Definition vnode (n : Bip32Kholaw.node) : val :=
  VL [vopt_b (Bip32Kholaw.n_priv n); VB (Bip32Kholaw.n_pub n); VB (Bip32Kholaw.n_cc n); VN (Bip32Kholaw.n_depth n)].
Fixpoint zs_of_vals (l : list val) : option (list Z) :=
  match l with
  | [] => Some []
  | VZ z :: t => match zs_of_vals t with Some r => Some (z :: r) | None => None end
  | _ => None
  end.


Definition ada_net_of (i : N) : AddrAdaShelley.ada_net := nth (N.to_nat i) ada_nets (0%N, [], []).
Fixpoint ns_of_vals (l : list val) : option (list N) :=
  match l with
  | [] => Some []
  | VN z :: t => match ns_of_vals t with Some r => Some (z :: r) | None => None end
  | _ => None
  end.
Definition opt_bytes_of_val (v : val) : option (list N) := match v with VL [VB b] => Some b | _ => None end.

Definition api (ask : string -> list val -> val) : list api_entry :=
  let keccak := o_keccak256 ask in
  let M_from_seed := Monero.from_seed keccak pt (e_mul ask) (e_base ask) e_is_zero e_enc in
  let M_from_spend := Monero.from_priv_spend keccak pt (e_mul ask) (e_base ask) e_is_zero e_enc in
  let M_from_bip44 := Monero.from_bip44_priv keccak pt (e_mul ask) (e_base ask) e_is_zero e_enc in
  let M_watch := Monero.from_watch_only pt (e_mul ask) (e_base ask) e_is_zero e_enc (e_dec ask) in
  let ctor (c : N) (a b : list N) (net : N) : res Monero.wallet :=
    match c with
    | 0%N => M_from_seed a (xmr_net net)
    | 1%N => M_from_spend a (xmr_net net)
    | 2%N => M_from_bip44 a (xmr_net net)
    | _ => M_watch a b (xmr_net net)
    end in
  let compute_keys := Monero.compute_keys keccak pt (e_add ask) (e_mul ask) (e_base ask) e_is_zero e_enc (e_dec ask) (e_refused ask) in
  let subaddress := Monero.subaddress keccak pt (e_add ask) (e_mul ask) (e_base ask) e_is_zero e_enc (e_dec ask) (e_refused ask) in
  let primary := Monero.primary_address keccak pt (e_add ask) (e_mul ask) (e_base ask) e_is_zero e_enc (e_dec ask) (e_refused ask) in
  let integrated := Monero.integrated_address keccak pt (e_dec ask) in
  let hmac512 := o_hmac_sha512 ask in
  let hmac256 := o_hmac_sha256 ask in
  let pbkdf2 := o_pbkdf2_sha512 ask in
  let sha512 := o_sha512 ask in
  let kh_der := Bip32Kholaw.kh_derivator pt (e_mul ask) (e_base ask) e_is_zero e_enc in
  let by_der := ByronLegacyDeriv.by_derivator pt (e_mul ask) (e_base ask) e_is_zero e_enc in
  let node_from_priv := Bip32Kholaw.node_from_priv pt (e_mul ask) (e_base ask) e_is_zero e_enc in
  let derive := Bip32Kholaw.derive hmac512 pt (e_add ask) (e_mul ask) (e_base ask) e_is_zero e_enc (e_dec ask) in
  (* scheme 0 Kholaw seed, 1 Icarus seed, 2 Byron legacy seed, 3 Kholaw private key + chain code,
     4 Byron-legacy private key + chain code *)
  let start (scheme : N) (a cc : list N) : res Bip32Kholaw.node :=
    match scheme with
    | 0%N => Bip32Kholaw.kh_from_seed hmac512 hmac256 pt (e_mul ask) (e_base ask) e_is_zero e_enc master_fuel a
    | 1%N => Bip32Kholaw.ic_from_seed pbkdf2 pt (e_mul ask) (e_base ask) e_is_zero e_enc a
    | 2%N => ByronLegacyDeriv.by_from_seed hmac512 sha512 pt (e_mul ask) (e_base ask) e_is_zero e_enc master_fuel a
    | _ => node_from_priv a cc 0%N
    end in
  let der_of (scheme : N) := match scheme with 2%N | 4%N => by_der | _ => kh_der end in
  let blake224 := o_blake2b ask 28 in
  let b32_enc (hrp data : list N) : list N := o_bytes ask "bech32_encode" [VB hrp; VB data] in
  let b32_dec (hrp text : list N) : option (list N) := opt_bytes_of_val (ask "bech32_decode" [VB hrp; VB text]) in
  let sh_encode := AddrAdaShelley.encode_payment blake224 pt (e_dec ask) b32_enc in
  let sh_decode := AddrAdaShelley.decode_payment b32_dec in
  let st_encode := AddrAdaShelley.encode_staking blake224 pt (e_dec ask) b32_enc in
  let st_decode := AddrAdaShelley.decode_staking b32_dec in
  let chacha_enc (k n a p : list N) : list N := o_bytes ask "chacha_enc" [VB k; VB n; VB a; VB p] in
  let chacha_dec (k n a c t : list N) : option (list N) := opt_bytes_of_val (ask "chacha_dec" [VB k; VB n; VB a; VB c; VB t]) in
  let parse_outer (b : list N) : option (N * list N * N) :=
    match ask "byron_parse_outer" [VB b] with VL [VN t; VB v; VN c] => Some (t, v, c) | _ => None end in
  let parse_payload (b : list N) : option (list N * option (list N) * N) :=
    match ask "byron_parse_payload" [VB b] with
    | VL [VB rh; VL []; VN ty] => Some (rh, None, ty)
    | VL [VB rh; VL [VB v]; VN ty] => Some (rh, Some v, ty)
    | _ => None end in
  let parse_bytes (b : list N) : option (list N) := opt_bytes_of_val (ask "cbor_parse_bytes" [VB b]) in
  let crc32 := o_crc32 ask in
  let sha3 := o_sha3_256 ask in
  let by_encode_legacy := AddrAdaByron.encode_legacy sha3 blake224 chacha_enc crc32 pt (e_dec ask) in
  let by_encode_icarus := AddrAdaByron.encode_icarus sha3 blake224 crc32 pt (e_dec ask) in
  let by_decode := AddrAdaByron.decode_addr crc32 parse_outer parse_payload parse_bytes in
  [
  ("xmrb58_encode", fun a => match a with [VB b] =>
      Ok (VB (AddrXmr.b58x_encode b)) | _ => bad_call end);
  ("xmrb58_decode", fun a => match a with [VB s] =>
      rb (AddrXmr.b58x_decode s) | _ => bad_call end);
  ("ed_sc_reduce", fun a => match a with [VB b] => Ok (VB (EdLib.sc_reduce b)) | _ => bad_call end);
  (* wallet construction followed by one operation:
     [ctor; a; b; net; op; args]  ctor 0 seed, 1 private spend key, 2 bip44 key, 3 watch-only (a = view, b = pub spend)
     op 0 keys, 1 primary address, 2 subaddress [minor; major], 3 integrated [payment id],
        4 private spend key, 5 sub-address public keys [minor; major] *)
  ("xmr_wallet", fun a => match a with [VN c; VB x; VB y; VN net; VN op; VL args] =>
      w <- ctor c x y net ;;
      match op, args with
      | 0%N, [] => Ok (VL [vopt_b (Monero.w_priv_s w); VB (Monero.w_priv_v w); VB (Monero.w_pub_s w); VB (Monero.w_pub_v w)])
      | 1%N, [] => rb (primary w)
      | 2%N, [VZ minor; VZ major] => rb (subaddress w minor major)
      | 3%N, [VB pid] => rb (integrated w pid)
      | 4%N, [] => rb (Monero.private_spend_key w)
      | 5%N, [VZ minor; VZ major] => rmap (fun k => VL [VB (fst k); VB (snd k)]) (compute_keys w minor major)
      | _, _ => bad_call
      end
    | _ => bad_call end);
  ("kh_master", fun a => match a with [VN scheme; VB seed] =>
      rmap (fun m => VL [VB (fst m); VB (snd m)])
        (match scheme with
         | 0%N => Bip32Kholaw.kh_master hmac512 hmac256 master_fuel seed
         | 1%N => Bip32Kholaw.ic_master pbkdf2 seed
         | _ => ByronLegacyDeriv.by_master hmac512 sha512 master_fuel seed
         end)
    | _ => bad_call end);
  (* [scheme; a; cc; path1; public?; path2]: derive path1, optionally ConvertToPublic, derive path2 *)
  ("kh_derive", fun a => match a with [VN scheme; VB x; VB cc; VL p1; VN pubflag; VL p2] =>
      match zs_of_vals p1, zs_of_vals p2 with
      | Some path1, Some path2 =>
        n0 <- start scheme x cc ;;
        n1 <- derive (der_of scheme) n0 path1 ;;
        n2 <- derive (der_of scheme) (if N.eqb pubflag 0 then n1 else Bip32Kholaw.to_public n1) path2 ;;
        Ok (vnode n2)
      | _, _ => bad_call
      end
    | _ => bad_call end);
  ("ada_shelley_encode", fun a => match a with [VN net; VB pub; VB sk] =>
      rb (sh_encode (ada_net_of net) pub sk) | _ => bad_call end);
  ("ada_shelley_decode", fun a => match a with [VN net; VB s] => rb (sh_decode (ada_net_of net) s) | _ => bad_call end);
  ("ada_staking_encode", fun a => match a with [VN net; VB sk] => rb (st_encode (ada_net_of net) sk) | _ => bad_call end);
  ("ada_staking_decode", fun a => match a with [VN net; VB s] => rb (st_decode (ada_net_of net) s) | _ => bad_call end);
  (* [scheme 0 Kholaw(Ledger) / 1 Icarus; seed; net; account; change; index; op 0 address, 1 staking address, 2 keys] *)
  ("ada_shelley_wallet", fun a => match a with [VN scheme; VB seed; VN net; VZ acc; VZ chg; VZ idx; VN op] =>
      m <- start scheme seed [] ;;
      acct <- AddrAdaShelley.cip1852_account (derive kh_der) m acc ;;
      match op with
      | 0%N => rb (AddrAdaShelley.shelley_address blake224 pt (e_dec ask) b32_enc (derive kh_der) (ada_net_of net) acct chg idx)
      | 1%N => rb (AddrAdaShelley.shelley_staking_address blake224 pt (e_dec ask) b32_enc (derive kh_der) (ada_net_of net) acct)
      | _ => s <- AddrAdaShelley.staking_node (derive kh_der) acct ;;
             k <- AddrAdaShelley.address_node (derive kh_der) acct chg idx ;;
             Ok (VL [VB (Bip32Kholaw.n_pub k); VB (Bip32Kholaw.n_pub s)])
      end
    | _ => bad_call end);
  ("cbor_indef_encode", fun a => match a with [VL l] =>
      match ns_of_vals l with Some ns => Ok (VB (AddrAdaByron.indef_encode ns)) | None => bad_call end
    | _ => bad_call end);
  ("cbor_indef_decode", fun a => match a with [VB b] => rmap (fun l => VL (map VN l)) (AddrAdaByron.indef_decode b) | _ => bad_call end);
  ("ada_byron_encode_icarus", fun a => match a with [VB pub; VB cc] => rb (by_encode_icarus pub cc) | _ => bad_call end);
  ("ada_byron_encode_legacy", fun a => match a with [VB pub; VB cc; VL path; VB key] =>
      match ns_of_vals path with Some p => rb (by_encode_legacy pub cc p key) | None => bad_call end
    | _ => bad_call end);
  ("ada_byron_decode", fun a => match a with [VB s] => rb (by_decode s) | _ => bad_call end);
  (* [seed; first; second; op]: op 0 GetAddress, 1 HdPathFromAddress(GetAddress), 2 HdPathKey, 3 public key + chain code *)
  ("ada_byron_wallet", fun a => match a with [VB seed; VZ i1; VZ i2; VN op] =>
      m <- start 2%N seed [] ;;
      let addr := AddrAdaByron.get_address sha3 blake224 pbkdf2 chacha_enc crc32 pt (e_dec ask) (derive by_der) m i1 i2 in
      match op with
      | 0%N => rb addr
      | 1%N => s <- addr ;;
               rmap (fun l => VL (map VN l))
                 (AddrAdaByron.hd_path_from_address pbkdf2 chacha_dec crc32 parse_outer parse_payload parse_bytes m s)
      | 2%N => Ok (VB (AddrAdaByron.hd_path_key pbkdf2 m))
      | _ => k <- AddrAdaByron.wallet_key (derive by_der) m i1 i2 ;; Ok (VL [VB (Bip32Kholaw.n_pub k); VB (Bip32Kholaw.n_cc k)])
      end
    | _ => bad_call end);
  (* Bip44(CARDANO_BYRON_LEDGER (scheme 0) / CARDANO_BYRON_ICARUS (scheme 1)) address at acc/change/index *)
  ("ada_icarus_wallet", fun a => match a with [VN scheme; VB seed; VZ acc; VZ chg; VZ idx] =>
      m <- start scheme seed [] ;;
      rb (AddrAdaByron.icarus_wallet_address sha3 blake224 crc32 pt (e_dec ask) (derive kh_der) m acc chg idx)
    | _ => bad_call end);
  (* HdPathFromAddress of an arbitrary address string under the wallet of [seed] *)
  ("ada_byron_path_from", fun a => match a with [VB seed; VB s] =>
      m <- start 2%N seed [] ;;
      rmap (fun l => VL (map VN l))
        (AddrAdaByron.hd_path_from_address pbkdf2 chacha_dec crc32 parse_outer parse_payload parse_bytes m s)
    | _ => bad_call end);
  ("xmr_addr_encode", fun a => match a with [VB ps; VB pv; VB net; po] =>
      match opt_of_val po with
      | Some payid => rb (AddrXmr.encode_key keccak pt (e_dec ask) ps pv net payid)
      | None => bad_call end
    | _ => bad_call end);
  ("xmr_addr_decode", fun a => match a with [VB s; VB net; po] =>
      match opt_of_val po with
      | Some payid => rb (AddrXmr.decode_addr keccak pt (e_dec ask) s net payid)
      | None => bad_call end
    | _ => bad_call end)
].

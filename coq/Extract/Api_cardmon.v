(* API entries for the Monero (C16) and Cardano (C18) models. *)
From Coq Require Import NArith ZArith List String Bool.
From BU Require Import Base.Exn Base.Val Base.Radix Base.Bytes Gen.ConstsCardmon Extract.ApiCommon.
From BU Require Model.XmrB58 Model.EdLib Model.AddrXmr Model.Monero.
Import ListNotations.
Open Scope string_scope.

(* ed25519 points travel as coordinates; the reference arithmetic is harness/ecref.py (curve id 2) *)
Definition pt := (N * N)%type.
Definition vpt (p : pt) : val := VL [VN (fst p); VN (snd p)].
Definition pt_of_val (v : val) : option pt :=
  match v with VL [VN x; VN y] => Some (x, y) | _ => None end.

Section Ed.
  Variable ask : string -> list val -> val.
  Definition o_pt (name : string) (args : list val) : pt :=
    match pt_of_val (ask name args) with Some p => p | None => (0, 1)%N end.
  Definition e_add (p q : pt) : pt := o_pt "ec_add" [VN 2; vpt p; vpt q].
  Definition e_mul (n : N) (p : pt) : pt := o_pt "ec_mul" [VN 2; VN n; vpt p].
  Definition e_base : pt := o_pt "ec_base" [VN 2].
  Definition e_is_zero (p : pt) : bool := (N.eqb (fst p) 0 && N.eqb (snd p) 1)%bool.
  (* RFC 8032 encoding, computed here (not an oracle) *)
  Definition e_enc (p : pt) : list N := EdLib.le_pad 32 (snd p + 2 ^ 255 * (fst p mod 2))%N.
  Definition e_dec (b : list N) : option pt := pt_of_val (ask "ed_dec_lenient" [VB b]).
  Definition e_refused (b : list N) : bool := o_bool ask "ed_mul_refuses" [VB b].
End Ed.

Definition xmr_net (i : N) : Monero.netconf := nth (N.to_nat i) xmr_nets ([], [], []).

Definition vopt_b (o : option (list N)) : val := match o with Some b => VL [VB b] | None => VL [] end.
Definition opt_of_val (v : val) : option (option (list N)) :=
  match v with VL [] => Some None | VL [VB b] => Some (Some b) | _ => None end.

Definition api (ask : string -> list val -> val) : list api_entry :=
  let keccak := o_keccak256 ask in
  let M_from_seed := Monero.from_seed keccak pt (e_mul ask) (e_base ask) e_is_zero e_enc in
  let M_from_spend := Monero.from_priv_spend keccak pt (e_mul ask) (e_base ask) e_is_zero e_enc in
  let M_from_bip44 := Monero.from_bip44_priv keccak pt (e_mul ask) (e_base ask) e_is_zero e_enc in
  let M_watch := Monero.from_watch_only pt (e_mul ask) (e_base ask) e_is_zero e_enc (e_dec ask) in
  let ctor (c : N) (a b : list N) (net : N) : res Monero.wallet :=
    match c with
    | 0%N => M_from_seed a (xmr_net net)
    | 1%N => M_from_spend a (xmr_net net)
    | 2%N => M_from_bip44 a (xmr_net net)
    | _ => M_watch a b (xmr_net net)
    end in
  let compute_keys := Monero.compute_keys keccak pt (e_add ask) (e_mul ask) (e_base ask) e_is_zero e_enc (e_dec ask) (e_refused ask) in
  let subaddress := Monero.subaddress keccak pt (e_add ask) (e_mul ask) (e_base ask) e_is_zero e_enc (e_dec ask) (e_refused ask) in
  let primary := Monero.primary_address keccak pt (e_add ask) (e_mul ask) (e_base ask) e_is_zero e_enc (e_dec ask) (e_refused ask) in
  let integrated := Monero.integrated_address keccak pt (e_dec ask) in
  [
  ("xmrb58_encode", fun a => match a with [VB b] =>
      Ok (VB (AddrXmr.b58x_encode b)) | _ => bad_call end);
  ("xmrb58_decode", fun a => match a with [VB s] =>
      rb (AddrXmr.b58x_decode s) | _ => bad_call end);
  ("ed_sc_reduce", fun a => match a with [VB b] => Ok (VB (EdLib.sc_reduce b)) | _ => bad_call end);
  (* wallet construction followed by one operation:
     [ctor; a; b; net; op; args]  ctor 0 seed, 1 private spend key, 2 bip44 key, 3 watch-only (a = view, b = pub spend)
     op 0 keys, 1 primary address, 2 subaddress [minor; major], 3 integrated [payment id],
        4 private spend key, 5 sub-address public keys [minor; major] *)
  ("xmr_wallet", fun a => match a with [VN c; VB x; VB y; VN net; VN op; VL args] =>
      w <- ctor c x y net ;;
      match op, args with
      | 0%N, [] => Ok (VL [vopt_b (Monero.w_priv_s w); VB (Monero.w_priv_v w); VB (Monero.w_pub_s w); VB (Monero.w_pub_v w)])
      | 1%N, [] => rb (primary w)
      | 2%N, [VZ minor; VZ major] => rb (subaddress w minor major)
      | 3%N, [VB pid] => rb (integrated w pid)
      | 4%N, [] => rb (Monero.private_spend_key w)
      | 5%N, [VZ minor; VZ major] => rmap (fun k => VL [VB (fst k); VB (snd k)]) (compute_keys w minor major)
      | _, _ => bad_call
      end
    | _ => bad_call end);
  ("xmr_addr_encode", fun a => match a with [VB ps; VB pv; VB net; po] =>
      match opt_of_val po with
      | Some payid => rb (AddrXmr.encode_key keccak pt (e_dec ask) ps pv net payid)
      | None => bad_call end
    | _ => bad_call end);
  ("xmr_addr_decode", fun a => match a with [VB s; VB net; po] =>
      match opt_of_val po with
      | Some payid => rb (AddrXmr.decode_addr keccak pt (e_dec ask) s net payid)
      | None => bad_call end
    | _ => bad_call end)
].

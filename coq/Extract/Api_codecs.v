(* API entries for the C11 codec models (see Extract/ApiCommon.v for the conventions). *)
From Coq Require Import NArith ZArith List String.
From BU Require Import Base.Exn Base.Val Base.Bytes Gen.Consts Extract.ApiCommon.
From BU Require Import Model.Codecs.
From BU Require Model.IntBytes Model.ConvertBits Model.Scale Model.Cbor.
Import ListNotations.
Open Scope string_scope.

(* a list of ints arrives as bytes/text (VB) or, with large members, as VL of VN *)
Fixpoint vals_N (l : list val) : option (list N) :=
  match l with
  | [] => Some []
  | VN n :: t => option_map (cons n) (vals_N t)
  | _ => None
  end.
Definition as_list (v : val) : option (list N) :=
  match v with VB l => Some l | VL l => vals_N l | _ => None end.
Definition ropt (r : res (option (list N))) : res val :=
  rmap (fun o => match o with Some l => VL [VB l] | None => VL [] end) r.

Definition opt_text (v : val) : option (option (list N)) :=
  match v with VL [] => Some None | VL [VB c] => Some (Some c) | _ => None end.

Fixpoint vals_Z (l : list val) : option (list Z) :=
  match l with
  | [] => Some []
  | VZ z :: t => option_map (cons z) (vals_Z t)
  | _ => None
  end.
Definition item_val (i : Cbor.item) : val :=
  match i with Cbor.CInt z => VZ z | Cbor.COther b => VL [VN b] end.

Definition api (ask : string -> list val -> val) : list api_entry :=
  let blake := o_blake2b ask 64 in [
  ("xmr_encode", fun a => match a with [VB b] => rb (xmr_encode b) | _ => bad_call end);
  ("xmr_decode", fun a => match a with [VB s] => rb (xmr_decode s) | _ => bad_call end);
  (* IntegerUtils / BytesUtils; booleans are VN 0/1, "None" width is 0 *)
  ("int_to_bytes", fun a => match a with [VZ v; VN w; VN big] =>
      rb (IntBytes.to_bytes v w (negb (N.eqb big 0))) | _ => bad_call end);
  ("bytes_to_int", fun a => match a with [VB b; VN big] =>
      Ok (VN (IntBytes.to_integer b (negb (N.eqb big 0)))) | _ => bad_call end);
  ("bytes_number", fun a => match a with [VZ v] => Ok (VN (IntBytes.bytes_number v)) | _ => bad_call end);
  ("int_to_binstr", fun a => match a with [VN n; VN pad] =>
      Ok (VB (IntBytes.int_to_binstr n (N.to_nat pad))) | _ => bad_call end);
  ("int_from_binstr", fun a => match a with [VB s] => rmap VZ (IntBytes.int_from_binstr s) | _ => bad_call end);
  ("bytes_to_binstr", fun a => match a with [VB b; VN pad] =>
      Ok (VB (IntBytes.bytes_to_binstr b (N.to_nat pad))) | _ => bad_call end);
  ("bytes_from_binstr", fun a => match a with [VB s; VN pad] =>
      rb (IntBytes.bytes_from_binstr s (N.to_nat pad)) | _ => bad_call end);
  ("hex_encode", fun a => match a with [VB b] => Ok (VB (IntBytes.to_hex_string b)) | _ => bad_call end);
  ("hex_decode", fun a => match a with [VB s] => rb (IntBytes.from_hex_string s) | _ => bad_call end);
  (* Bech32BaseUtils *)
  ("to_base32", fun a => match a with [v] =>
      match as_list v with Some l => rb (to_base32 l) | None => bad_call end | _ => bad_call end);
  ("from_base32", fun a => match a with [v] =>
      match as_list v with Some l => rb (from_base32 l) | None => bad_call end | _ => bad_call end);
  ("convert_bits", fun a => match a with [v; VN fb; VN tb; VN pad] =>
      match as_list v with
      | Some l => ropt (ConvertBits.convert_bits fb tb l (negb (N.eqb pad 0)))
      | None => bad_call end | _ => bad_call end);
  (* Base32; custom alphabet: ( ) = None, ( text ) = Some *)
  ("b32_encode", fun a => match a with [VB b; c] =>
      match opt_text c with Some c => rb (b32_encode b c) | None => bad_call end | _ => bad_call end);
  ("b32_encode_nopad", fun a => match a with [VB b; c] =>
      match opt_text c with Some c => rb (b32_encode_no_padding b c) | None => bad_call end | _ => bad_call end);
  ("b32_decode", fun a => match a with [VB s; c] =>
      match opt_text c with Some c => rb (b32_decode s c) | None => bad_call end | _ => bad_call end);
  (* SS58 *)
  ("ss58_encode", fun a => match a with [VB d; VZ f] => rb (ss58_encode blake d f) | _ => bad_call end);
  ("ss58_decode", fun a => match a with [VB s] =>
      rmap (fun r => VL [VN (fst r); VB (snd r)]) (ss58_decode blake s) | _ => bad_call end);
  (* SCALE *)
  ("scale_uint", fun a => match a with [VN k; VZ v] => rb (scale_uint_encode (N.to_nat k) v) | _ => bad_call end);
  ("scale_compact", fun a => match a with [VZ v] => rb (scale_compact_encode v) | _ => bad_call end);
  ("scale_bytes", fun a => match a with [VB b] => rb (scale_bytes_encode b) | _ => bad_call end);
  ("scale_compact_decode", fun a => match a with [VB b] =>
      rmap (fun r => VL [VN (fst r); VB (snd r)]) (Scale.compact_decode b) | _ => bad_call end);
  (* CBOR indefinite-length array: ints as VZ, other items as ( n<first byte> ) *)
  ("cbor_encode", fun a => match a with [VL l] =>
      match vals_Z l with Some zs => Ok (VB (cbor_encode zs)) | None => bad_call end | _ => bad_call end);
  ("cbor_decode", fun a => match a with [VB b] => rmap (fun l => VL (map item_val l)) (cbor_decode b) | _ => bad_call end)
].

(* API entries for the C11 codec models (see Extract/ApiCommon.v for the conventions). *)
From Coq Require Import NArith ZArith List String.
From BU Require Import Base.Exn Base.Val Base.Bytes Gen.Consts Extract.ApiCommon.
From BU Require Import Model.Codecs.
Import ListNotations.
Open Scope string_scope.

Definition api (ask : string -> list val -> val) : list api_entry := [
  ("xmr_encode", fun a => match a with [VB b] => rb (xmr_encode b) | _ => bad_call end);
  ("xmr_decode", fun a => match a with [VB s] => rb (xmr_decode s) | _ => bad_call end);
  ("xmr_decode_current", fun a => match a with [VB s] => rb (xmr_decode_current s) | _ => bad_call end)
].

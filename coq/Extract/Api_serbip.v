(* API entries for the C05 / C13 / C20 models (see Extract/ApiCommon.v for the conventions). *)
From Coq Require Import NArith ZArith List String.
From BU Require Import Base.Exn Base.Val Base.Bytes Gen.Consts Gen.SerbipConsts Extract.ApiCommon.
From BU Require Model.Base58 Model.Bip32Data Model.Bip32Ser Model.Slip32.
Import ListNotations.
Open Scope string_scope.

Definition v_kd (kd : Bip32Data.key_data) : val :=
  VL [VN (Bip32Data.kd_depth kd); VN (Bip32Data.kd_index kd); VB (Bip32Data.kd_cc kd); VB (Bip32Data.kd_fp kd)].
Definition v_obj (o : Bip32Ser.bip32_obj) : val :=
  VL [VBool (Bip32Ser.o_public o); VB (Bip32Ser.o_key o); v_kd (Bip32Ser.o_kd o)].

Section Api.
  Variable ask : string -> list val -> val.
  Let sha256 := o_sha256 ask.

  (* ---- C05 oracles: key validity per Bip32 class id *)
  Definition o_priv_ok (cls : N) (b : list N) : bool := o_bool ask "c05_priv_ok" [VN cls; VB b].
  Definition o_pub_parse (cls : N) (b : list N) : option (list N) :=
    match ask "c05_pub_parse" [VN cls; VB b] with VL [VB c] => Some c | _ => None end.
  Definition o_pub_of_priv (cls : N) (b : list N) : list N := o_bytes ask "c05_pub_of_priv" [VN cls; VB b].
  Definition o_bech_enc (hrp data : list N) : list N := o_bytes ask "bech32_enc" [VB hrp; VB data].
  Definition o_bech_dec (hrp s : list N) : res (list N) :=
    match ask "bech32_dec" [VB hrp; VB s] with
    | VL [VN 0; VB d] => Ok d
    | VL [VN 1; _] => Err ValueError
    | VL [VN 102; _] => Err (LibError Bech32ChecksumError)
    | _ => Err (Foreign 2)
    end.

  Definition b58c_enc := Base58.check_encode b58_alph_btc b58_radix b58_cklen sha256.
  Definition from_ext (cls : N) := Bip32Ser.from_extended b58_alph_btc b58_radix b58_cklen sha256
                                     (o_priv_ok cls) (o_pub_parse cls).
  Definition construct (cls : N) := Bip32Ser.construct (o_priv_ok cls) (o_pub_parse cls).
  Definition to_ext_priv := Bip32Ser.to_extended_priv b58_alph_btc b58_radix b58_cklen sha256.
  Definition to_ext_pub (cls : N) := Bip32Ser.to_extended_pub b58_alph_btc b58_radix b58_cklen sha256 (o_pub_of_priv cls).

  Definition api_c05 : list api_entry := [
  ("c05_mk_key_data", fun a => match a with [VZ d; VZ i; VB cc; VB fp] =>
      rmap v_kd (Bip32Data.mk_key_data d i cc fp) | _ => bad_call end);
  ("c05_mk_key_net_ver", fun a => match a with [VB pub; VB priv] =>
      rmap (fun p => VL [VB (fst p); VB (snd p)]) (Bip32Data.mk_key_net_ver pub priv) | _ => bad_call end);
  (* Cls.FromPrivateKey(raw, Bip32KeyData(d, i, cc, fp), Bip32KeyNetVersions(pub, priv)).PrivateKey().ToExtended() *)
  ("c05_ser_priv", fun a => match a with [VN cls; VB pub; VB priv; VZ d; VZ i; VB cc; VB fp; VB raw] =>
      rb (v <- Bip32Data.mk_key_net_ver pub priv ;; kd <- Bip32Data.mk_key_data d i cc fp ;;
          o <- construct cls false raw kd ;; to_ext_priv o v) | _ => bad_call end);
  (* ... .PublicKey().ToExtended() *)
  ("c05_ser_pub_of_priv", fun a => match a with [VN cls; VB pub; VB priv; VZ d; VZ i; VB cc; VB fp; VB raw] =>
      rb (v <- Bip32Data.mk_key_net_ver pub priv ;; kd <- Bip32Data.mk_key_data d i cc fp ;;
          o <- construct cls false raw kd ;; to_ext_pub cls o v) | _ => bad_call end);
  (* Cls.FromPublicKey(pk, ...).PublicKey().ToExtended() *)
  ("c05_ser_pub", fun a => match a with [VN cls; VB pub; VB priv; VZ d; VZ i; VB cc; VB fp; VB pk] =>
      rb (v <- Bip32Data.mk_key_net_ver pub priv ;; kd <- Bip32Data.mk_key_data d i cc fp ;;
          o <- construct cls true pk kd ;; to_ext_pub cls o v) | _ => bad_call end);
  (* Cls.FromExtendedKey(s, Bip32KeyNetVersions(pub, priv)) -> (is_public, key bytes, key data) *)
  ("c05_from_extended", fun a => match a with [VN cls; VB pub; VB priv; VB s] =>
      rmap v_obj (v <- Bip32Data.mk_key_net_ver pub priv ;; from_ext cls s v) | _ => bad_call end);
  (* Bip32KeyDeserializer.DeserializeKey *)
  ("c05_deserialize", fun a => match a with [VB pub; VB priv; VB s] =>
      rmap (fun r => match r with (k, kd, p) => VL [VB k; v_kd kd; VBool p] end)
        (v <- Bip32Data.mk_key_net_ver pub priv ;;
         Bip32Ser.deserialize b58_alph_btc b58_radix b58_cklen sha256 s v) | _ => bad_call end);
  (* re-serialisation of a parsed key: FromExtendedKey(s).{PrivateKey|PublicKey}().ToExtended() *)
  ("c05_reserialize", fun a => match a with [VN cls; VB pub; VB priv; VB s] =>
      rb (v <- Bip32Data.mk_key_net_ver pub priv ;; o <- from_ext cls s v ;;
          Bip32Ser.to_extended b58_alph_btc b58_radix b58_cklen sha256 o v) | _ => bad_call end);
  (* SLIP-32 *)
  ("slip32_ser_priv", fun a => match a with [VB hpub; VB hpriv; VL path; VB cc; VB raw] =>
      rb (Slip32.slip32_ser_priv o_bech_enc (hpub, hpriv)
            (map (fun v => match v with VN n => n | _ => 0%N end) path) cc raw) | _ => bad_call end);
  ("slip32_ser_pub", fun a => match a with [VB hpub; VB hpriv; VL path; VB cc; VB pk] =>
      rb (Slip32.slip32_ser_pub o_bech_enc (hpub, hpriv)
            (map (fun v => match v with VN n => n | _ => 0%N end) path) cc pk) | _ => bad_call end);
  ("slip32_deserialize", fun a => match a with [VB hpub; VB hpriv; VB s] =>
      rmap (fun r => match r with (k, path, cc, p) => VL [VB k; VL (map VN path); VB cc; VBool p] end)
        (Slip32.slip32_deserialize o_bech_dec s (hpub, hpriv)) | _ => bad_call end)
  ].
End Api.

Definition api (ask : string -> list val -> val) : list api_entry := api_c05 ask.

(* API entries for the C05 / C13 / C20 models (see Extract/ApiCommon.v for the conventions). *)
From Coq Require Import NArith ZArith List String.
From BU Require Import Base.Exn Base.Val Base.Bytes Gen.Consts Gen.SerbipConsts Extract.ApiCommon.
From BU Require Model.Base58 Model.Bip32Data Model.Bip32Ser Model.Slip32 Model.WifCodec Model.Bip38 Model.ElectrumWallet Model.Brainwallet Model.SplToken.
Import ListNotations.
Open Scope string_scope.

Definition v_kd (kd : Bip32Data.key_data) : val :=
  VL [VN (Bip32Data.kd_depth kd); VN (Bip32Data.kd_index kd); VB (Bip32Data.kd_cc kd); VB (Bip32Data.kd_fp kd)].
Definition v_obj (o : Bip32Ser.bip32_obj) : val :=
  VL [VBool (Bip32Ser.o_public o); VB (Bip32Ser.o_key o); v_kd (Bip32Ser.o_kd o)].

Section Api.
  Variable ask : string -> list val -> val.
  Let sha256 := o_sha256 ask.

  (* ---- C05 oracles: key validity per Bip32 class id *)
  Definition o_priv_ok (cls : N) (b : list N) : bool := o_bool ask "c05_priv_ok" [VN cls; VB b].
  Definition o_pub_parse (cls : N) (b : list N) : option (list N) :=
    match ask "c05_pub_parse" [VN cls; VB b] with VL [VB c] => Some c | _ => None end.
  Definition o_pub_of_priv (cls : N) (b : list N) : list N := o_bytes ask "c05_pub_of_priv" [VN cls; VB b].
  Definition o_bech_enc (hrp data : list N) : list N := o_bytes ask "bech32_enc" [VB hrp; VB data].
  Definition o_bech_dec (hrp s : list N) : res (list N) :=
    match ask "bech32_dec" [VB hrp; VB s] with
    | VL [VN 0; VB d] => Ok d
    | VL [VN 1; _] => Err ValueError
    | VL [VN 102; _] => Err (LibError Bech32ChecksumError)
    | _ => Err (Foreign 2)
    end.

  Definition b58c_enc := Base58.check_encode b58_alph_btc b58_radix b58_cklen sha256.
  Definition from_ext (cls : N) := Bip32Ser.from_extended b58_alph_btc b58_radix b58_cklen sha256
                                     (o_priv_ok cls) (o_pub_parse cls).
  Definition construct (cls : N) := Bip32Ser.construct (o_priv_ok cls) (o_pub_parse cls).
  Definition to_ext_priv := Bip32Ser.to_extended_priv b58_alph_btc b58_radix b58_cklen sha256.
  Definition to_ext_pub (cls : N) := Bip32Ser.to_extended_pub b58_alph_btc b58_radix b58_cklen sha256 (o_pub_of_priv cls).

  Definition api_c05 : list api_entry := [
  ("c05_mk_key_data", fun a => match a with [VZ d; VZ i; VB cc; VB fp] =>
      rmap v_kd (Bip32Data.mk_key_data d i cc fp) | _ => bad_call end);
  ("c05_mk_key_net_ver", fun a => match a with [VB pub; VB priv] =>
      rmap (fun p => VL [VB (fst p); VB (snd p)]) (Bip32Data.mk_key_net_ver pub priv) | _ => bad_call end);
  (* Cls.FromPrivateKey(raw, Bip32KeyData(d, i, cc, fp), Bip32KeyNetVersions(pub, priv)).PrivateKey().ToExtended() *)
  ("c05_ser_priv", fun a => match a with [VN cls; VB pub; VB priv; VZ d; VZ i; VB cc; VB fp; VB raw] =>
      rb (v <- Bip32Data.mk_key_net_ver pub priv ;; kd <- Bip32Data.mk_key_data d i cc fp ;;
          o <- construct cls false raw kd ;; to_ext_priv o v) | _ => bad_call end);
  (* ... .PublicKey().ToExtended() *)
  ("c05_ser_pub_of_priv", fun a => match a with [VN cls; VB pub; VB priv; VZ d; VZ i; VB cc; VB fp; VB raw] =>
      rb (v <- Bip32Data.mk_key_net_ver pub priv ;; kd <- Bip32Data.mk_key_data d i cc fp ;;
          o <- construct cls false raw kd ;; to_ext_pub cls o v) | _ => bad_call end);
  (* Cls.FromPublicKey(pk, ...).PublicKey().ToExtended() *)
  ("c05_ser_pub", fun a => match a with [VN cls; VB pub; VB priv; VZ d; VZ i; VB cc; VB fp; VB pk] =>
      rb (v <- Bip32Data.mk_key_net_ver pub priv ;; kd <- Bip32Data.mk_key_data d i cc fp ;;
          o <- construct cls true pk kd ;; to_ext_pub cls o v) | _ => bad_call end);
  (* Cls.FromExtendedKey(s, Bip32KeyNetVersions(pub, priv)) -> (is_public, key bytes, key data) *)
  ("c05_from_extended", fun a => match a with [VN cls; VB pub; VB priv; VB s] =>
      rmap v_obj (v <- Bip32Data.mk_key_net_ver pub priv ;; from_ext cls s v) | _ => bad_call end);
  (* Bip32KeyDeserializer.DeserializeKey *)
  ("c05_deserialize", fun a => match a with [VB pub; VB priv; VB s] =>
      rmap (fun r => match r with (k, kd, p) => VL [VB k; v_kd kd; VBool p] end)
        (v <- Bip32Data.mk_key_net_ver pub priv ;;
         Bip32Ser.deserialize b58_alph_btc b58_radix b58_cklen sha256 s v) | _ => bad_call end);
  (* re-serialisation of a parsed key: FromExtendedKey(s).{PrivateKey|PublicKey}().ToExtended() *)
  ("c05_reserialize", fun a => match a with [VN cls; VB pub; VB priv; VB s] =>
      rb (v <- Bip32Data.mk_key_net_ver pub priv ;; o <- from_ext cls s v ;;
          Bip32Ser.to_extended b58_alph_btc b58_radix b58_cklen sha256 o v) | _ => bad_call end);
  (* SLIP-32 *)
  ("slip32_ser_priv", fun a => match a with [VB hpub; VB hpriv; VL path; VB cc; VB raw] =>
      rb (Slip32.slip32_ser_priv o_bech_enc (hpub, hpriv)
            (map (fun v => match v with VN n => n | _ => 0%N end) path) cc raw) | _ => bad_call end);
  ("slip32_ser_pub", fun a => match a with [VB hpub; VB hpriv; VL path; VB cc; VB pk] =>
      rb (Slip32.slip32_ser_pub o_bech_enc (hpub, hpriv)
            (map (fun v => match v with VN n => n | _ => 0%N end) path) cc pk) | _ => bad_call end);
  ("slip32_deserialize", fun a => match a with [VB hpub; VB hpriv; VB s] =>
      rmap (fun r => match r with (k, path, cc, p) => VL [VB k; VL (map VN path); VB cc; VBool p] end)
        (Slip32.slip32_deserialize o_bech_dec s (hpub, hpriv)) | _ => bad_call end)
  ].

  (* ---- C13: secp256k1 points travel as [] / [x; y] *)
  Definition pt := list N.
  Definition v_pt (p : pt) : val := VL (map VN p).
  Definition pt_of (v : val) : pt :=
    match v with VL [VN x; VN y] => [x; y] | _ => [] end.
  Definition k1_base : pt := pt_of (ask "ec_base" [VN 0]).
  Definition k1_smul (k : N) (p : pt) : pt := pt_of (ask "ec_mul" [VN 0; VN k; v_pt p]).
  Definition k1_add (p q : pt) : pt := pt_of (ask "ec_add" [VN 0; v_pt p; v_pt q]).
  Definition k1_ser_c (p : pt) : list N := o_bytes ask "secp_ser_c" [v_pt p].
  Definition k1_ser_u (p : pt) : list N := o_bytes ask "secp_ser_u" [v_pt p].
  Definition k1_deser (b : list N) : option pt :=
    match ask "secp_deser" [VB b] with VL [VN x; VN y] => Some [x; y] | _ => None end.
  Definition o_p2pkh (p : pt) (c : bool) : list N := o_bytes ask "p2pkh_btc" [v_pt p; VBool c].
  Definition o_utf8 (t : list N) : res (list N) :=
    match ask "utf8_encode" [VB t] with
    | VL [VN 0; VB b] => Ok b
    | _ => Err UnicodeError
    end.
  Definition o_scrypt (pw salt : list N) (n r p dklen : N) : list N :=
    o_bytes ask "scrypt" [VB pw; VB salt; VN n; VN r; VN p; VN dklen].
  Definition o_aes_enc (k b : list N) : list N := o_bytes ask "aes256_ecb_enc" [VB k; VB b].
  Definition o_aes_dec (k b : list N) : list N := o_bytes ask "aes256_ecb_dec" [VB k; VB b].
  Definition vbool (v : N) : bool := negb (N.eqb v 0).
  Definition v_keymode (r : list N * bool) : val := VL [VB (fst r); VBool (snd r)].
  Definition lotseq_of (v : list val) : option (Z * Z) :=
    match v with [VZ l; VZ q] => Some (l, q) | _ => None end.

  Definition api_c13 : list api_entry := [
  ("wif_encode", fun a => match a with [VB key; VB nv; VN c] =>
      rb (WifCodec.wif_encode b58_alph_btc b58_radix b58_cklen sha256 key nv (vbool c)) | _ => bad_call end);
  ("wif_decode", fun a => match a with [VB s; VB nv] =>
      rmap v_keymode (WifCodec.wif_decode b58_alph_btc b58_radix b58_cklen sha256 s nv) | _ => bad_call end);
  ("bip38_noec_encrypt", fun a => match a with [VB key; VB pass; VN c] =>
      rb (Bip38.noec_encrypt b58_alph_btc b58_radix b58_cklen sha256 (o_nfc ask) o_utf8 o_scrypt o_aes_enc
            pt k1_base k1_smul o_p2pkh key pass (vbool c)) | _ => bad_call end);
  ("bip38_noec_decrypt", fun a => match a with [VB enc; VB pass] =>
      rmap v_keymode (Bip38.noec_decrypt b58_alph_btc b58_radix b58_cklen sha256 (o_nfc ask) o_utf8 o_scrypt o_aes_dec
            pt k1_base k1_smul o_p2pkh enc pass) | _ => bad_call end);
  ("bip38_ec_intermediate", fun a => match a with [VB pass; VL ls; VB salt] =>
      rb (Bip38.gen_intermediate b58_alph_btc b58_radix b58_cklen sha256 (o_nfc ask) o_utf8 o_scrypt
            pt k1_base k1_smul k1_ser_c pass (lotseq_of ls) salt) | _ => bad_call end);
  ("bip38_ec_gen_private_key", fun a => match a with [VB ip; VN c; VB seedb] =>
      rb (Bip38.gen_private_key b58_alph_btc b58_radix b58_cklen sha256 o_scrypt o_aes_enc
            pt k1_smul k1_ser_c k1_deser o_p2pkh ip (vbool c) seedb) | _ => bad_call end);
  ("bip38_ec_decrypt", fun a => match a with [VB enc; VB pass] =>
      rmap v_keymode (Bip38.ec_decrypt b58_alph_btc b58_radix b58_cklen sha256 (o_nfc ask) o_utf8 o_scrypt o_aes_dec
            pt k1_base k1_smul k1_ser_c o_p2pkh enc pass) | _ => bad_call end);
  ("bip38_ec_generate", fun a => match a with [VB pass; VN c; VL ls; VB salt; VB seedb] =>
      rb (Bip38.generate_private_key_ec b58_alph_btc b58_radix b58_cklen sha256 (o_nfc ask) o_utf8 o_scrypt o_aes_enc
            pt k1_base k1_smul k1_ser_c k1_deser o_p2pkh pass (vbool c) (lotseq_of ls) salt seedb) | _ => bad_call end)
  ].

  (* ---- C20 *)
  Definition k1_is_inf (p : pt) : bool := match p with [] => true | _ => false end.
  Definition v1_wallet_of (kind : N) (b : list N) : res (ElectrumWallet.v1_wallet pt) :=
    if N.eqb kind 0 then ElectrumWallet.v1_from_private_key pt b else ElectrumWallet.v1_from_public_key pt k1_deser b.
  Definition o_p2pkh_u (p : pt) : list N := o_p2pkh p false.

  (* Bip32 objects are opaque values [priv or empty; compressed pub; chain code; depth]; ckd is a reference oracle *)
  Definition o_ckd (o : val) (i : N) : res val :=
    match ask "bip32_ckd" [o; VN i] with
    | VL [VN 0; c] => Ok c
    | VL [VN 105; _] => Err (LibError Bip32KeyError)
    | _ => Err (Foreign 3)
    end.
  Definition obj_depth (o : val) : N := match o with VL [_; _; _; VN d] => d | _ => 0%N end.
  Definition obj_priv (o : val) : res (list N) :=
    match o with VL [VB ((_ :: _) as k); _; _; _] => Ok k | _ => Err (LibError Bip32KeyError) end.
  Definition obj_pub (o : val) : list N := match o with VL [_; VB p; _; _] => p | _ => [] end.
  Definition o_addr_p2pkh (p : list N) : list N := o_bytes ask "p2pkh_btc_pub" [VB p].
  Definition o_addr_p2wpkh (p : list N) : list N := o_bytes ask "p2wpkh_btc_pub" [VB p].
  Definition idx_of (v : val) : option ElectrumWallet.idx_arg :=
    match v with
    | VL [VN 0; VZ z] => Some (ElectrumWallet.IdxInt z)
    | VL [VN _; VN n] => Some (ElectrumWallet.IdxObj n)
    | _ => None
    end.
  Definition v2_derived (wtype : N) (master : val) (c i : ElectrumWallet.idx_arg) : res val :=
    if N.eqb wtype 0 then
      m <- ElectrumWallet.v2_new val obj_depth master ;; ElectrumWallet.v2_std_derive val o_ckd m c i
    else
      acc <- ElectrumWallet.v2_segwit_new val o_ckd obj_depth master ;; ElectrumWallet.v2_segwit_derive val o_ckd acc c i.
  Definition optn (v : val) : option N := match v with VL [VN n] => Some n | _ => None end.
  Definition bw_algo_of (a : list val) : option Brainwallet.bw_algo :=
    match a with
    | [VN 0] => Some Brainwallet.BwSha256
    | [VN 1] => Some Brainwallet.BwDoubleSha256
    | [VN 2; VB salt; itr] => Some (Brainwallet.BwPbkdf2 salt (optn itr))
    | [VN 3; VB salt; n; r; p] => Some (Brainwallet.BwScrypt salt (optn n) (optn r) (optn p))
    | _ => None
    end.
  Definition o_sol_decode (t : list N) : res (list N) :=
    match ask "sol_decode" [VB t] with VL [VN 0; VB b] => Ok b | _ => Err ValueError end.
  Definition o_on_curve (b : list N) : bool := o_bool ask "ed25519_is_valid" [VB b].
  Definition bytes_of (v : val) : list N := match v with VB b => b | _ => [] end.

  Definition api_c20 : list api_entry := [
  ("dec_str", fun a => match a with [VN n] => Ok (VB (ElectrumWallet.dec_str n)) | _ => bad_call end);
  ("electrum_v1_priv", fun a => match a with [VN kind; VB b; VZ c; VZ i] =>
      rb (w <- v1_wallet_of kind b ;; ElectrumWallet.v1_get_private_key sha256 pt k1_base k1_smul k1_ser_u w c i) | _ => bad_call end);
  ("electrum_v1_pub", fun a => match a with [VN kind; VB b; VZ c; VZ i] =>
      rb (w <- v1_wallet_of kind b ;;
          p <- ElectrumWallet.v1_get_public_key sha256 pt k1_base k1_smul k1_add k1_is_inf k1_ser_u w c i ;; Ok (k1_ser_u p)) | _ => bad_call end);
  ("electrum_v1_addr", fun a => match a with [VN kind; VB b; VZ c; VZ i] =>
      rb (w <- v1_wallet_of kind b ;;
          ElectrumWallet.v1_get_address sha256 pt k1_base k1_smul k1_add k1_is_inf k1_ser_u o_p2pkh_u w c i) | _ => bad_call end);
  (* [wallet type 0 standard / 1 segwit; what 0 private key / 1 public key / 2 address; master object; change; index] *)
  ("electrum_v2", fun a => match a with [VN wtype; VN what; master; c; i] =>
      match idx_of c, idx_of i with
      | Some c', Some i' =>
        let d := v2_derived wtype master c' i' in
        rb (if N.eqb what 0 then ElectrumWallet.v2_private_key val obj_priv d
            else if N.eqb what 1 then ElectrumWallet.v2_public_key val obj_pub d
            else if N.eqb wtype 0 then ElectrumWallet.v2_std_address val obj_pub o_addr_p2pkh d
            else ElectrumWallet.v2_segwit_address val obj_pub o_addr_p2wpkh d)
      | _, _ => bad_call
      end | _ => bad_call end);
  (* [curve class id for the validity test; passphrase; algorithm description ...] *)
  ("brainwallet", fun a => match a with VN cls :: VB pass :: algo =>
      match bw_algo_of algo with
      | Some al => rb (Brainwallet.bw_generate sha256 (o_pbkdf2_sha512 ask) o_scrypt o_utf8 (o_priv_ok cls) al pass)
      | None => bad_call
      end | _ => bad_call end);
  ("spl_find_pda", fun a => match a with [VL seeds; VB prog] =>
      rb (SplToken.find_pda b58_alph_btc b58_radix sha256 o_on_curve o_sol_decode (map bytes_of seeds) prog) | _ => bad_call end);
  ("spl_get_ata", fun a => match a with [VB wallet; VB mint] =>
      rb (SplToken.get_ata b58_alph_btc b58_radix sha256 o_on_curve o_sol_decode wallet mint) | _ => bad_call end);
  ("spl_get_ata_prog", fun a => match a with [VB wallet; VB mint; VB tp] =>
      rb (SplToken.get_ata_with_program b58_alph_btc b58_radix sha256 o_on_curve o_sol_decode wallet mint tp) | _ => bad_call end)
  ].
End Api.

Definition api (ask : string -> list val -> val) : list api_entry := api_c05 ask ++ api_c13 ask ++ api_c20 ask.

(* API entries for the decoders of Model/AddrText.v whose text codec is a merged model: the Base32 pipelines
   (Algo, Xlm, Fil, Nano, Nim) over Codecs.b32_decode and the Substrate pipeline over Codecs.ss58_decode.
   (The Bech32 / SegWit / CashAddr pipelines are added the same way once those codec models are merged.) *)
From Coq Require Import NArith ZArith List String.
From BU Require Import Base.Exn Base.Val Base.Bytes Extract.ApiCommon.
From BU Require Model.Codecs Model.AddrText.
Import ListNotations.
Open Scope string_scope.

Definition b32_dec (c : option (list N)) (s : list N) : res (list N) := Codecs.b32_decode s c.

Definition api (ask : string -> list val -> val) : list api_entry :=
  let sha512_256 := o_sha512_256 ask in
  let b2b := fun (n : nat) b => o_blake2b ask (N.of_nat n) b in
  let blake512 := o_blake2b ask 64 in
  let vp := fun (curve : N) b => o_bool ask "valid_pub_text" [VN curve; VB b] in
  let crc16 := fun b => o_bytes ask "crc16_xmodem" [VB b] in
  [
  ("algo_addr_decode", fun a => match a with [VB s] => rb (AddrText.algo_decode sha512_256 vp b32_dec s) | _ => bad_call end);
  ("xlm_addr_decode", fun a => match a with [VN ty; VB s] => rb (AddrText.xlm_decode vp crc16 b32_dec ty s) | _ => bad_call end);
  ("fil_addr_decode", fun a => match a with [VB s] => rb (AddrText.fil_decode b2b b32_dec s) | _ => bad_call end);
  ("nano_addr_decode", fun a => match a with [VB s] => rb (AddrText.nano_decode b2b vp b32_dec s) | _ => bad_call end);
  ("nim_addr_decode", fun a => match a with [VB s] => rb (AddrText.nim_decode b32_dec s) | _ => bad_call end);
  ("substrate_addr_decode", fun a => match a with [VN curve; VN fmt; VB s] =>
      rb (AddrText.substrate_decode vp (Codecs.ss58_decode blake512) curve fmt s) | _ => bad_call end)
  ].

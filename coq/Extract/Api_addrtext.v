(* API entries for the Base32 / SS58 address pipelines of Model/AddrText.v on the concrete codecs. *)
From Coq Require Import NArith ZArith List String.
From BU Require Import Base.Exn Base.Val Base.Bytes Gen.Consts Gen.AddrConsts Gen.AddrTextConsts Extract.ApiCommon.
From BU Require Model.AddrText Model.AddrCodecs.
Import ListNotations.
Open Scope string_scope.

Definition api (ask : string -> list val -> val) : list api_entry :=
  let s5 := o_sha512_256 ask in
  let crc := fun b => o_bytes ask "crc16_xmodem" [VB b] in
  let b2b := fun (n : nat) b => o_blake2b ask (N.of_nat n) b in
  let b512 := fun b => o_blake2b ask 64%N b in
  let vp := fun (curve : N) b => o_bool ask "valid_pub" [VN curve; VB b] in
  let enc := AddrCodecs.b32_enc_nopad in
  let dec := AddrCodecs.b32_dec in
  [
  ("algo_encode", fun a => match a with [VB pub] => rb (AddrText.algo_encode s5 enc pub) | _ => bad_call end);
  ("algo_decode", fun a => match a with [VB s] => rb (AddrText.algo_decode s5 vp enc dec s) | _ => bad_call end);
  ("xlm_encode", fun a => match a with [VN t; VB pub] => rb (AddrText.xlm_encode crc enc t pub) | _ => bad_call end);
  ("xlm_decode", fun a => match a with [VN t; VB s] => rb (AddrText.xlm_decode vp crc dec t s) | _ => bad_call end);
  ("fil_encode", fun a => match a with [VB pub] => rb (AddrText.fil_encode b2b enc pub) | _ => bad_call end);
  ("fil_decode", fun a => match a with [VB s] => rb (AddrText.fil_decode b2b enc dec s) | _ => bad_call end);
  ("nano_encode", fun a => match a with [VB pub] => rb (AddrText.nano_encode b2b enc pub) | _ => bad_call end);
  ("nano_decode", fun a => match a with [VB s] => rb (AddrText.nano_decode b2b vp dec s) | _ => bad_call end);
  ("nim_encode", fun a => match a with [VB pub] => rb (AddrText.nim_encode b2b enc pub) | _ => bad_call end);
  ("nim_decode", fun a => match a with [VB s] => rb (AddrText.nim_decode dec s) | _ => bad_call end);
  ("substrate_encode", fun a => match a with [VN fmt; VB pub] =>
      rb (AddrText.substrate_encode (AddrCodecs.ss58_enc b512) fmt pub) | _ => bad_call end);
  ("substrate_decode", fun a => match a with [VN curve; VN fmt; VB s] =>
      rb (AddrText.substrate_decode vp (AddrCodecs.ss58_dec b512) curve fmt s) | _ => bad_call end)
].

(* Dispatch table from API names to model functions; the only consumer is the extracted
   driver.  Oracles are answered by the harness through [ask]. *)
From Coq Require Import NArith ZArith List String.
From BU Require Import Base.Exn Base.Val Base.Bytes Gen.Consts.
From BU Require Model.Base58.
Import ListNotations.
Open Scope string_scope.

Section Api.
  Variable ask : string -> list val -> val.

  Definition o_bytes (name : string) (args : list val) : list N :=
    match ask name args with VB b => b | _ => [] end.
  Definition sha256 (b : list N) : list N := o_bytes "sha256" [VB b].

  Definition b58_alph (i : N) : list N := if N.eqb i 0 then b58_alph_btc else b58_alph_xrp.

  Definition rb (r : res (list N)) : res val := rmap VB r.

  Definition api : list (string * (list val -> res val)) := [
    ("b58_encode", fun a => match a with [VN i; VB b] =>
        Ok (VB (Base58.encode (b58_alph i) b58_radix b)) | _ => bad_call end);
    ("b58_decode", fun a => match a with [VN i; VB s] =>
        rb (Base58.decode (b58_alph i) b58_radix s) | _ => bad_call end);
    ("b58_check_encode", fun a => match a with [VN i; VB b] =>
        Ok (VB (Base58.check_encode (b58_alph i) b58_radix b58_cklen sha256 b)) | _ => bad_call end);
    ("b58_check_decode", fun a => match a with [VN i; VB s] =>
        rb (Base58.check_decode (b58_alph i) b58_radix b58_cklen sha256 s) | _ => bad_call end)
  ].

  Fixpoint lookup (name : string) (l : list (string * (list val -> res val))) :=
    match l with
    | [] => None
    | (n, f) :: t => if String.eqb n name then Some f else lookup name t
    end.

  Definition dispatch (name : string) (args : list val) : res val :=
    match lookup name api with Some f => f args | None => Err (Foreign 1) end.

  Definition result_code (r : res val) : N * val :=
    match r with inl v => (0%N, v) | inr e => (exn_code e, VL []) end.
End Api.

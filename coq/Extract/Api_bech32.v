(* API entries for Model/Bech32*.v and Model/Wif.v (see Extract/ApiCommon.v for the conventions). *)
From Coq Require Import NArith ZArith List String Bool.
From BU Require Import Base.Exn Base.Val Base.Bytes Gen.Consts Gen.Bech32Consts Extract.ApiCommon.
From BU Require Model.Base58 Model.Bech32Bits Model.Bech32Str Model.Bech32 Model.Wif.
Import ListNotations.
Open Scope string_scope.

Definition vopt (r : res (option (list N))) : res val :=
  rmap (fun o => match o with Some l => VL [VB l] | None => VL [] end) r.

Definition enc_const (i : N) : N := if N.eqb i 0 then bech32_const else bech32m_const.

Definition api (ask : string -> list val -> val) : list api_entry :=
  let sha256 := o_sha256 ask in
  (* Secp256k1PrivateKey.IsValidBytes: 32 bytes, 0 < k < n; the group order comes from the reference EC code *)
  let valid_key := fun k : list N =>
    (Nat.eqb (List.length k) 32) && negb (N.eqb (be_to_int k) 0) && N.ltb (be_to_int k) (o_N ask "ec_order" [VN 0]) in [
  ("b32_convert_bits", fun a => match a with [VN f; VN t; VN pad; VB d] =>
      vopt (Bech32Bits.convert_bits f t (negb (N.eqb pad 0)) d) | _ => bad_call end);
  ("b32_to_base32", fun a => match a with [VB d] => rb (Bech32.b32_to_base32 d) | _ => bad_call end);
  ("b32_from_base32", fun a => match a with [VB d] => rb (Bech32.b32_from_base32 d) | _ => bad_call end);
  ("py_lower", fun a => match a with [VB s] => Ok (VB (Bech32Str.py_lower s)) | _ => bad_call end);
  ("py_upper", fun a => match a with [VB s] => Ok (VB (Bech32Str.py_upper s)) | _ => bad_call end);
  ("is_string_mixed", fun a => match a with [VB s] => Ok (VBool (Bech32Str.is_string_mixed s)) | _ => bad_call end);
  ("b32_polymod", fun a => match a with [VB v] => Ok (VN (Bech32.b32_polymod v)) | _ => bad_call end);
  ("b32_hrp_expand", fun a => match a with [VB h] => Ok (VB (Bech32.b32_hrp_expand h)) | _ => bad_call end);
  ("b32_compute_checksum", fun a => match a with [VN e; VB h; VB d] =>
      Ok (VB (Bech32.b32_compute_checksum (enc_const e) h d)) | _ => bad_call end);
  ("b32_verify_checksum", fun a => match a with [VN e; VB h; VB d] =>
      Ok (VBool (Bech32.b32_verify_checksum (enc_const e) h d)) | _ => bad_call end);
  ("bech32_encode", fun a => match a with [VB h; VB d] => rb (Bech32.bech32_encode h d) | _ => bad_call end);
  ("bech32_decode", fun a => match a with [VB h; VB s] => rb (Bech32.bech32_decode h s) | _ => bad_call end);
  ("segwit_encode", fun a => match a with [VB h; VN v; VB p] => rb (Bech32.segwit_encode h v p) | _ => bad_call end);
  ("segwit_decode", fun a => match a with [VB h; VB s] =>
      rmap (fun r => VL [VN (fst r); VB (snd r)]) (Bech32.segwit_decode h s) | _ => bad_call end);
  ("cash_polymod", fun a => match a with [VB v] => Ok (VN (Bech32.cash_polymod v)) | _ => bad_call end);
  ("cash_hrp_expand", fun a => match a with [VB h] => Ok (VB (Bech32.cash_hrp_expand h)) | _ => bad_call end);
  ("cash_compute_checksum", fun a => match a with [VB h; VB d] =>
      Ok (VB (Bech32.cash_compute_checksum h d)) | _ => bad_call end);
  ("cash_verify_checksum", fun a => match a with [VB h; VB d] =>
      Ok (VBool (Bech32.cash_verify_checksum h d)) | _ => bad_call end);
  ("cash_encode", fun a => match a with [VB h; VB n; VB d] => rb (Bech32.cash_encode h n d) | _ => bad_call end);
  ("cash_decode", fun a => match a with [VB h; VB s] =>
      rmap (fun r => VL [VB (fst r); VB (snd r)]) (Bech32.cash_decode h s) | _ => bad_call end);
  ("wif_encode", fun a => match a with [VB k; VB nv; VN c] =>
      rb (Wif.wif_encode b58_alph_btc b58_radix b58_cklen sha256 valid_key wif_compr_suffix k nv (negb (N.eqb c 0)))
      | _ => bad_call end);
  ("wif_decode", fun a => match a with [VB s; VB nv] =>
      rmap (fun r => VL [VB (fst r); VBool (snd r)])
           (Wif.wif_decode b58_alph_btc b58_radix b58_cklen sha256 valid_key wif_compr_suffix s nv)
      | _ => bad_call end)
].

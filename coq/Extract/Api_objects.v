(* API entries for the object layer: Model/Bip44.v (C07) and Model/Memo.v (C15).
   See Extract/ApiCommon.v for the conventions. *)
From Coq Require Import NArith ZArith List String Bool Ascii.
From BU Require Import Base.Exn Base.Val Base.Bytes Gen.Bip44Params Extract.ApiCommon.
From BU Require Model.Bip44 Model.Memo Model.Objects.
Import ListNotations.
Open Scope string_scope.

(* coin row of Gen/Bip44Params.v by (hierarchy id, enum member name) *)
Definition find_coin (h : N) (name : list N) : option Bip44.coin :=
  match find (fun r => let '(h', n, _, _, _, _) := r in N.eqb h h' && list_eqb n name) coin_rows with
  | Some r => Bip44.coin_of_row r
  | None => None
  end.

Definition val_Z (v : val) : option Z :=
  match v with VZ z => Some z | VN n => Some (Z.of_N n) | _ => None end.

Definition dec_meta (has d i : N) : option (N * N) := if N.eqb has 0 then None else Some (d, i).

Definition dec_op (v : val) : option Bip44.op :=
  match v with
  | VL [VN 0] => Some Bip44.Purpose
  | VL [VN 1] => Some Bip44.Coin
  | VL [VN 2; i] => option_map Bip44.Account (val_Z i)
  | VL [VN 3; VN c] => Some (Bip44.Change c)
  | VL [VN 4; i] => option_map Bip44.AddressIndex (val_Z i)
  | VL [VN 5] => Some Bip44.DeriveDefaultPath
  | VL [VN 6; VN p; VN has; VN d; VN i] => Some (Bip44.ReimportExt (negb (N.eqb p 0)) (dec_meta has d i))
  | VL [VN 7; VN p; VN has; VN d; VN i] => Some (Bip44.ReimportRaw (negb (N.eqb p 0)) (dec_meta has d i))
  | VL [VN 8] => Some Bip44.Bip32ObjConvertToPublic
  | _ => None
  end.

Fixpoint dec_ops (l : list val) : option (list Bip44.op) :=
  match l with
  | [] => Some []
  | v :: t => match dec_op v, dec_ops t with Some o, Some r => Some (o :: r) | _, _ => None end
  end.

(* key material is irrelevant to the automaton: unit, derivations never refuse on their own *)
Definition ckd_unit (k : unit) (i : N) : res unit := Ok tt.

Definition bip44_observe (c : Bip44.coin) (ops : list Bip44.op) : res val :=
  s0 <- Bip44.from_seed unit tt ;;
  let obs := Bip44.observe unit ckd_unit ckd_unit c s0 ops in
  let s := Bip44.run unit ckd_unit ckd_unit c s0 ops in
  Ok (VL [VL (map (fun r => let '(code, d, p, i) := r in VL [VN code; VN d; VBool p; VN i]) obs);
          VN (Bip44.origin s); VL (map VN (Bip44.path s));
          match Bip44.level unit s with inl l => VN l | inr _ => VL [] end]).

(* ---- C15: staleness prediction of the memo model over the generated object table ---- *)
Fixpoint str_of (l : list N) : string :=
  match l with [] => EmptyString | c :: t => String (ascii_of_N c) (str_of t) end.

Fixpoint dec_Ns (l : list val) : list N :=
  match l with VN n :: t => n :: dec_Ns t | _ => [] end.

Definition dec_owner (v : val) : option (string * N) :=
  match v with VL [VB f; VN o] => Some (str_of f, o) | _ => None end.
Fixpoint dec_owners (l : list val) : list (string * N) :=
  match l with v :: t => match dec_owner v with Some p => p :: dec_owners t | None => dec_owners t end | [] => [] end.
Fixpoint dec_graph (l : list val) : Objects.graph :=
  match l with
  | VL [VN o; VL ows] :: t => (o, dec_owners ows) :: dec_graph t
  | _ => []
  end.
Definition dec_hop (v : val) : option Objects.hop :=
  match v with
  | VL [VN 0; VN o; VB name; VL args] => Some (Objects.HCall (o, str_of name, dec_Ns args))
  | VL [VN 1; VN o; VB f; VN x] => Some (Objects.HWrite (o, str_of f) x)
  | _ => None
  end.
Fixpoint dec_hops (l : list val) : option (list Objects.hop) :=
  match l with
  | [] => Some []
  | v :: t => match dec_hop v, dec_hops t with Some o, Some r => Some (o :: r) | _, _ => None end
  end.

Definition api (ask : string -> list val -> val) : list api_entry := [
  (* [object graph; history] -> one flag per call: does the memo model (caches and read-sets from
     Gen/Objects.v) return a value different from the uncached function of the current state? *)
  ("memo_stale", fun a => match a with [VL g; VL h] =>
      match dec_hops h with
      | Some hops => Ok (VL (map VBool (Objects.stale_run (dec_graph g) hops)))
      | None => bad_call
      end | _ => bad_call end);
  (* is the method memoised according to the generated table, and which mutable fields does it read *)
  ("memo_info", fun a => match a with [VB name] =>
      Ok (VL [VBool (Objects.smem (str_of name) (map Objects.name_of Gen.Objects.cached));
              VL (map (fun f => VB (map (fun c => N_of_ascii c) (list_ascii_of_string f))) (Objects.gen_reads (str_of name)))])
      | _ => bad_call end);
  (* the field tables of Gen/Objects.v the history check needs: [lazily initialised fields (the memoisation caches
     a process-state snapshot may see filling); fields written after construction; every declared field] *)
  ("object_fields", fun a => match a with [] =>
      let enc := fun f => VB (map (fun c => N_of_ascii c) (list_ascii_of_string f)) in
      Ok (VL [VL (map enc Gen.Objects.lazy_fields); VL (map enc Gen.Objects.mutable_fields);
              VL (map enc Gen.Objects.declared_fields)])
      | _ => bad_call end);
  (* [hierarchy id; coin enum member name; ops] -> [[code, depth, public-only, index] per step; origin; path; level] *)
  ("bip44_observe", fun a => match a with [VN h; VB name; VL ops] =>
      match find_coin h name, dec_ops ops with
      | Some c, Some o => bip44_observe c o
      | _, _ => bad_call
      end | _ => bad_call end);
  (* the coin row as the model sees it: [purpose; coin index; pubderiv; default path; absolute] *)
  ("bip44_coin", fun a => match a with [VN h; VB name] =>
      match find_coin h name with
      | Some c => Ok (VL [VN (Bip44.c_purpose c); VN (Bip44.c_index c); VBool (Bip44.c_pubderiv c);
                          VL (map VN (Bip44.c_defpath c)); VBool (Bip44.c_defabs c)])
      | None => bad_call
      end | _ => bad_call end)
].

(* API entries for the thin compositions of Model/C14b.v (property C14, second wave): wallet-level constructors,
   key containers, seed generators, FromString of the mnemonic containers.  Results of constructors are reduced to
   what identifies the outcome (the harness compares the outcome class).
   Bip32 class ids: 0 Bip32Slip10Secp256k1, 1 Bip32KholawEd25519 (also CardanoIcarusBip32, CardanoByronLegacyBip32),
   2 Bip32Slip10Ed25519, 3 Bip32Slip10Nist256p1, 4 Bip32Slip10Ed25519Blake2b; key validity / public-key parsing per
   class are the c14b_priv_ok / c14b_pub_parse oracles (harness/oracles_c14b.py, own EC arithmetic). *)
From Coq Require Import NArith ZArith List String Bool.
From BU Require Import Base.Exn Base.Val Base.Bytes Gen.Consts Gen.SerbipConsts Gen.ConstsCardmon Gen.WlBip39 Extract.ApiCommon.
From BU Require Model.Base58 Model.Bip39 Model.Bip32Data Model.Bip32Ser Model.Bip44 Model.Cbor Model.Bip32Kholaw
                Model.ByronLegacyDeriv Model.Monero Model.C14b.
From BU Require Extract.Api_cardmon Extract.Api_bip39.
Import ListNotations.
Open Scope string_scope.

Definition vwords (ws : list (list N)) : val := VL (map VB ws).
Definition v_obj (o : Bip32Ser.bip32_obj) : val :=
  VL [VBool (Bip32Ser.o_public o); VB (Bip32Ser.o_key o); VN (Bip32Data.kd_depth (Bip32Ser.o_kd o))].
Definition v_item (it : Cbor.item) : val :=
  match it with Cbor.CInt z => VZ z | Cbor.COther b => VL [VN b] end.
Definition v_sub (o : C14b.sub_obj) : val :=
  VL [match fst o with Some k => VL [VB k] | None => VL [] end; VB (snd o)].

Definition api (ask : string -> list val -> val) : list api_entry :=
  let sha256 := o_sha256 ask in
  let nfkd := o_nfkd ask in
  let lower := fun t => o_bytes ask "py_lower" [VB t] in
  let priv_ok (cls : N) (b : list N) : bool := o_bool ask "c14b_priv_ok" [VN cls; VB b] in
  let pub_parse (cls : N) (b : list N) : option (list N) :=
    match ask "c14b_pub_parse" [VN cls; VB b] with VL [VB c] => Some c | _ => None end in
  let from_ext (cls : N) := Bip32Ser.from_extended b58_alph_btc b58_radix b58_cklen sha256 (priv_ok cls) (pub_parse cls) in
  let b44_ext (cls : N) := C14b.bip44_from_extended b58_alph_btc b58_radix b58_cklen sha256 (priv_ok cls) (pub_parse cls) in
  (* ed25519 arithmetic as in Api_cardmon.v *)
  let pt := Api_cardmon.pt in
  let e_add := Api_cardmon.e_add ask in
  let e_mul := Api_cardmon.e_mul ask in
  let e_base := Api_cardmon.e_base ask in
  let e_is_zero := Api_cardmon.e_is_zero in
  let e_enc := Api_cardmon.e_enc in
  let e_dec := Api_cardmon.e_dec ask in
  let hmac512 := o_hmac_sha512 ask in
  let hmac256 := o_hmac_sha256 ask in
  let pbkdf2 := o_pbkdf2_sha512 ask in
  let sha512 := o_sha512 ask in
  let kh_der := Bip32Kholaw.kh_derivator pt e_mul e_base e_is_zero e_enc in
  let by_der := ByronLegacyDeriv.by_derivator pt e_mul e_base e_is_zero e_enc in
  (* scheme 0 Bip32KholawEd25519, 1 CardanoIcarusBip32, 2 CardanoByronLegacyBip32 *)
  let kh_start (scheme : N) (seed : list N) : res Bip32Kholaw.node :=
    match scheme with
    | 0%N => Bip32Kholaw.kh_from_seed hmac512 hmac256 pt e_mul e_base e_is_zero e_enc Api_cardmon.master_fuel seed
    | 1%N => Bip32Kholaw.ic_from_seed pbkdf2 pt e_mul e_base e_is_zero e_enc seed
    | _ => ByronLegacyDeriv.by_from_seed hmac512 sha512 pt e_mul e_base e_is_zero e_enc Api_cardmon.master_fuel seed
    end in
  let der_of (scheme : N) := match scheme with 2%N => by_der | _ => kh_der end in
  let chacha_dec (k n a c t : list N) : option (list N) :=
    Api_cardmon.opt_bytes_of_val (ask "chacha_dec" [VB k; VB n; VB a; VB c; VB t]) in
  let sr_pub_of_secret (k : list N) : option (list N) :=
    Api_cardmon.opt_bytes_of_val (ask "c14b_sr_pub_of_secret" [VB k]) in
  let sr_pair_from_seed (s : list N) : list N * list N :=
    match ask "c14b_sr_pair_from_seed" [VB s] with VL [VB p; VB k] => (p, k) | _ => ([], []) end in
  [
  (* MoneroMnemonic.FromString(str).ToList() *)
  ("mnemonic_from_string", fun a => match a with [VB s] => rmap vwords (C14b.mnemonic_from_string s) | _ => bad_call end);
  (* Bip39Mnemonic.FromString(str).ToList() -- Algorand / Electrum v1 / v2 containers inherit it *)
  ("bip39_mnemonic_from_string", fun a => match a with [VB s] =>
      rmap vwords (C14b.bip39_mnemonic_from_string nfkd lower s) | _ => bad_call end);
  (* CardanoIcarusSeedGenerator / CardanoByronLegacySeedGenerator (mnemonic str, lang as in Api_bip39) *)
  ("icarus_seed", fun a => match a with [l; VB s] =>
      match Api_bip39.lang_of l with
      | Some lang => rb (C14b.icarus_seed sha256 nfkd lower bip39_langs lang s)
      | None => bad_call end | _ => bad_call end);
  ("byron_legacy_seed", fun a => match a with [l; VB s] =>
      match Api_bip39.lang_of l with
      | Some lang => rb (C14b.byron_legacy_seed sha256 nfkd lower bip39_langs (o_blake2b ask 32) lang s)
      | None => bad_call end | _ => bad_call end);
  (* <Bip32 class>.FromExtendedKey(str, Bip32KeyNetVersions(pub, priv)) / FromPrivateKey(bytes) / FromPublicKey(bytes) *)
  ("bip32_from_extended", fun a => match a with [VN cls; VB pub; VB priv; VB s] =>
      rmap v_obj (v <- Bip32Data.mk_key_net_ver pub priv ;; from_ext cls s v) | _ => bad_call end);
  ("bip32_from_private_key", fun a => match a with [VN cls; VB raw] =>
      rmap v_obj (Bip32Ser.construct (priv_ok cls) (pub_parse cls) false raw
                    (C14b.default_key_data 0 0)) | _ => bad_call end);
  ("bip32_from_public_key", fun a => match a with [VN cls; VB pk] =>
      rmap v_obj (Bip32Ser.construct (priv_ok cls) (pub_parse cls) true pk
                    (C14b.default_key_data 0 0)) | _ => bad_call end);
  (* Bip44 / Bip49 / Bip84 / Bip86 / Cip1852 .FromExtendedKey(str, coin) / FromPrivateKey / FromPublicKey (bytes, coin):
     cls = the coin's Bip32 class, (pub, priv) = the coin's key net versions *)
  ("bip44_from_extended", fun a => match a with [VN cls; VB pub; VB priv; VB s] =>
      rmap v_obj (v <- Bip32Data.mk_key_net_ver pub priv ;; b44_ext cls s v) | _ => bad_call end);
  ("bip44_from_private_key", fun a => match a with [VN cls; VB raw] =>
      rmap v_obj (C14b.bip44_from_private_key (priv_ok cls) (pub_parse cls) raw) | _ => bad_call end);
  ("bip44_from_public_key", fun a => match a with [VN cls; VB pk] =>
      rmap v_obj (C14b.bip44_from_public_key (priv_ok cls) (pub_parse cls) pk) | _ => bad_call end);
  (* Bip32KholawEd25519 / CardanoIcarusBip32 / CardanoByronLegacyBip32 .FromSeed(bytes) and .FromSeedAndPath(seed, str);
     also Cip1852.FromSeed (scheme 1) through bip44_from_seed *)
  ("kh_from_seed", fun a => match a with [VN scheme; VB seed] =>
      rmap Api_cardmon.vnode (kh_start scheme seed) | _ => bad_call end);
  ("kh_bip44_from_seed", fun a => match a with [VN scheme; VB seed] =>
      rmap (fun s => Api_cardmon.vnode (Bip44.key s)) (C14b.bip44_from_seed (kh_start scheme seed)) | _ => bad_call end);
  ("kh_from_seed_and_path_str", fun a => match a with [VN scheme; VB seed; VB s] =>
      rmap Api_cardmon.vnode
        (C14b.kh_from_seed_and_path_str hmac512 pt e_add e_mul e_base e_is_zero e_enc e_dec (der_of scheme)
           (kh_start scheme) seed s) | _ => bad_call end);
  (* <Kholaw class>.FromPrivateKey / FromPublicKey / FromExtendedKey (key material [public?; key; chain code; depth]) followed
     by ChildKey(i): scheme 0/1 Khovratovich-Law derivator, 2 Byron legacy *)
  ("kh_key_child", fun a => match a with [VN scheme; VN pub; VB key; VB cc; VN depth; VZ i] =>
      rmap Api_cardmon.vnode
        (n <- (if N.eqb pub 0 then Bip32Kholaw.node_from_priv pt e_mul e_base e_is_zero e_enc key cc depth
               else Bip32Kholaw.node_from_pub pt e_dec key cc depth) ;;
         Bip32Kholaw.child_key hmac512 pt e_add e_mul e_base e_is_zero e_enc e_dec (der_of scheme) n i) | _ => bad_call end);
  (* AdaByronAddrDecoder.DecryptHdPath(enc, key) *)
  ("byron_decrypt_path", fun a => match a with [VB key; VB enc] =>
      rmap (fun l => VL (map v_item l)) (C14b.byron_decrypt_path chacha_dec key enc) | _ => bad_call end);
  (* MoneroPrivateKey.FromBytes / MoneroPublicKey.FromBytes *)
  ("monero_priv_from_bytes", fun a => match a with [VB b] => rb (Monero.priv_from_bytes b) | _ => bad_call end);
  ("monero_pub_from_bytes", fun a => match a with [VB b] => rb (Monero.pub_from_bytes pt e_dec b) | _ => bad_call end);
  (* Sr25519 / Substrate key layers *)
  ("sr_priv_is_valid", fun a => match a with [VB b] => rmap VBool (C14b.sr_priv_is_valid b) | _ => bad_call end);
  ("sr_pub_is_valid", fun a => match a with [VB b] => rmap VBool (C14b.sr_pub_is_valid b) | _ => bad_call end);
  ("sr_point_from_bytes", fun a => match a with [VB b] =>
      rmap (fun p => VL [VN (fst p); VN (snd p)]) (C14b.sr_point_from_bytes b) | _ => bad_call end);
  ("substrate_priv_from_bytes", fun a => match a with [VB b] => rb (C14b.substrate_priv_from_bytes b) | _ => bad_call end);
  ("substrate_pub_from_bytes", fun a => match a with [VB b] => rb (C14b.substrate_pub_from_bytes b) | _ => bad_call end);
  ("substrate_from_private_key", fun a => match a with [VB b] =>
      rmap v_sub (C14b.substrate_from_private_key sr_pub_of_secret b) | _ => bad_call end);
  ("substrate_from_public_key", fun a => match a with [VB b] =>
      rmap v_sub (C14b.substrate_from_public_key b) | _ => bad_call end);
  ("substrate_from_seed", fun a => match a with [VB seed] =>
      rmap v_sub (C14b.substrate_from_seed sr_pair_from_seed seed) | _ => bad_call end)
].

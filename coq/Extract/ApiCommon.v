(* Conventions shared by the Extract/Api_*.v files.
   Each Api_<group>.v defines, inside [Section Api. Variable ask : string -> list val -> val.],
     Definition api : list (string * (list val -> res val)) := [ ("name", fun a => match a with ... end); ... ].
   harness/framework.py generates Extract/Api.v, which concatenates all of them into [dispatch].
   Oracles are answered by the harness (harness/oracles.py ORACLES) through [ask]. *)
From Coq Require Import NArith ZArith List String.
From BU Require Import Base.Exn Base.Val.
Import ListNotations.
Open Scope string_scope.

Definition api_entry := (string * (list val -> res val))%type.

Section Oracles.
  Variable ask : string -> list val -> val.
  Definition o_bytes (name : string) (args : list val) : list N :=
    match ask name args with VB b => b | _ => [] end.
  Definition o_N (name : string) (args : list val) : N :=
    match ask name args with VN n => n | _ => 0%N end.
  Definition o_bool (name : string) (args : list val) : bool :=
    match ask name args with VN 0 => false | VN _ => true | _ => false end.
  Definition o_sha256 (b : list N) : list N := o_bytes "sha256" [VB b].
  Definition o_sha512 (b : list N) : list N := o_bytes "sha512" [VB b].
  Definition o_sha512_256 (b : list N) : list N := o_bytes "sha512_256" [VB b].
  Definition o_sha3_256 (b : list N) : list N := o_bytes "sha3_256" [VB b].
  Definition o_keccak256 (b : list N) : list N := o_bytes "keccak256" [VB b].
  Definition o_ripemd160 (b : list N) : list N := o_bytes "ripemd160" [VB b].
  Definition o_hash160 (b : list N) : list N := o_bytes "hash160" [VB b].
  Definition o_blake2b (size : N) (b : list N) : list N := o_bytes "blake2b" [VB b; VN size].
  Definition o_hmac_sha256 (k m : list N) : list N := o_bytes "hmac_sha256" [VB k; VB m].
  Definition o_hmac_sha512 (k m : list N) : list N := o_bytes "hmac_sha512" [VB k; VB m].
  Definition o_pbkdf2_sha512 (pw salt : list N) (iters dklen : N) : list N :=
    o_bytes "pbkdf2_sha512" [VB pw; VB salt; VN iters; VN dklen].
  Definition o_crc32 (b : list N) : N := o_N "crc32" [VB b].
  Definition o_nfkd (t : list N) : list N := o_bytes "nfkd" [VB t].
  Definition o_nfc (t : list N) : list N := o_bytes "nfc" [VB t].
End Oracles.

Definition rb (r : res (list N)) : res val := rmap VB r.
Definition rn (r : res N) : res val := rmap VN r.

Fixpoint lookup (name : string) (l : list api_entry) : option (list val -> res val) :=
  match l with
  | [] => None
  | (n, f) :: t => if String.eqb n name then Some f else lookup name t
  end.

Definition result_code (r : res val) : N * val :=
  match r with inl v => (0%N, v) | inr e => (exn_code e, VL []) end.

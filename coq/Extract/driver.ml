(* Generic driver for the extracted model: one request per line on stdin
     <api-name> <val> <val> ...
   answered on stdout by
     = <exn-code, 0 = ok> <val>
   Oracle questions are written as  "? <name> <val> ..."  and answered with one <val> line.
   Wire format of values:  n<hex>  z[-]<hex>  b<hex bytes>  t<hex>.<hex>...  ( v v ... )   *)

module M = Model

let rec pos_of_bits (s : string) (i : int) (acc : M.positive) : M.positive =
  (* s: binary digits msb first, acc holds bits consumed so far *)
  if i >= String.length s then acc
  else pos_of_bits s (i + 1) (if s.[i] = '1' then M.XI acc else M.XO acc)

let hexval c = match c with
  | '0'..'9' -> Char.code c - 48
  | 'a'..'f' -> Char.code c - 87
  | 'A'..'F' -> Char.code c - 55
  | _ -> failwith "bad hex"

let n_of_hex (h : string) : M.n =
  (* to binary string *)
  let b = Buffer.create (4 * String.length h) in
  String.iter (fun c -> let v = hexval c in
    for k = 3 downto 0 do Buffer.add_char b (if (v lsr k) land 1 = 1 then '1' else '0') done) h;
  let s = Buffer.contents b in
  let len = String.length s in
  let rec first i = if i >= len then len else if s.[i] = '1' then i else first (i + 1) in
  let i = first 0 in
  if i >= len then M.N0 else M.Npos (pos_of_bits s (i + 1) M.XH)

let hex_of_n (n : M.n) : string =
  match n with
  | M.N0 -> "0"
  | M.Npos p ->
    (* collect bits lsb first *)
    let rec bits p acc = match p with
      | M.XH -> 1 :: acc
      | M.XO q -> bits q (0 :: acc)
      | M.XI q -> bits q (1 :: acc) in
    (* bits p [] returns msb first?  we cons lsb first then deeper bits, so the head ends as msb *)
    let l = bits p [] in
    let len = List.length l in
    let pad = (4 - len mod 4) mod 4 in
    let l = List.init pad (fun _ -> 0) @ l in
    let b = Buffer.create (len / 4 + 1) in
    let rec go = function
      | a :: b1 :: c :: d :: t ->
        Buffer.add_char b "0123456789abcdef".[a * 8 + b1 * 4 + c * 2 + d]; go t
      | _ -> () in
    go l; Buffer.contents b

let small_int_of_n (n : M.n) : int =
  match n with
  | M.N0 -> 0
  | M.Npos p -> let rec f = function M.XH -> 1 | M.XO q -> 2 * f q | M.XI q -> 2 * f q + 1 in f p

let rec n_of_small (i : int) : M.n =
  if i = 0 then M.N0 else M.Npos (pos_of_small i)
and pos_of_small i =
  if i = 1 then M.XH else if i land 1 = 1 then M.XI (pos_of_small (i lsr 1)) else M.XO (pos_of_small (i lsr 1))

let coq_string (s : string) : M.string =
  let ascii c = let v = Char.code c in
    let b k = (v lsr k) land 1 = 1 in
    M.Ascii (b 0, b 1, b 2, b 3, b 4, b 5, b 6, b 7) in
  let r = ref M.EmptyString in
  for i = String.length s - 1 downto 0 do r := M.String (ascii s.[i], !r) done; !r

let ocaml_string (s : M.string) : string =
  let b = Buffer.create 16 in
  let rec go = function
    | M.EmptyString -> ()
    | M.String (M.Ascii (b0, b1, b2, b3, b4, b5, b6, b7), t) ->
      let v = List.fold_left (fun acc (k, x) -> if x then acc lor (1 lsl k) else acc) 0
          [0, b0; 1, b1; 2, b2; 3, b3; 4, b4; 5, b5; 6, b6; 7, b7] in
      Buffer.add_char b (Char.chr v); go t in
  go s; Buffer.contents b

(* ---- printing ---- *)
let rec print_val (b : Buffer.t) (v : M.val0) : unit =
  match v with
  | M.VN n -> Buffer.add_char b 'n'; Buffer.add_string b (hex_of_n n)
  | M.VZ z -> Buffer.add_char b 'z';
    (match z with
     | M.Z0 -> Buffer.add_char b '0'
     | M.Zpos p -> Buffer.add_string b (hex_of_n (M.Npos p))
     | M.Zneg p -> Buffer.add_char b '-'; Buffer.add_string b (hex_of_n (M.Npos p)))
  | M.VB l ->
    let small = List.for_all (fun x -> match x with M.N0 -> true | M.Npos _ -> small_int_of_n' x) l in
    if small then begin
      Buffer.add_char b 'b';
      List.iter (fun x -> Buffer.add_string b (Printf.sprintf "%02x" (small_int_of_n x))) l
    end else begin
      Buffer.add_char b 't';
      List.iteri (fun i x -> if i > 0 then Buffer.add_char b '.'; Buffer.add_string b (hex_of_n x)) l
    end
  | M.VL l ->
    Buffer.add_char b '(';
    List.iter (fun x -> Buffer.add_char b ' '; print_val b x) l;
    Buffer.add_string b " )"
and small_int_of_n' (n : M.n) : bool =
  (* n < 256 without building a big int: at most 8 bits *)
  match n with
  | M.N0 -> true
  | M.Npos p -> let rec depth p k = if k > 8 then k else match p with M.XH -> k | M.XO q | M.XI q -> depth q (k + 1) in
    depth p 1 <= 8

(* ---- parsing ---- *)
let parse_tokens (toks : string list) : M.val0 list =
  let rec value toks = match toks with
    | [] -> failwith "unexpected end"
    | "(" :: rest -> let (l, rest') = items rest [] in (M.VL l, rest')
    | t :: rest ->
      let body = String.sub t 1 (String.length t - 1) in
      (match t.[0] with
       | 'n' -> (M.VN (n_of_hex body), rest)
       | 'z' ->
         if body = "0" then (M.VZ M.Z0, rest)
         else if body.[0] = '-' then
           (match n_of_hex (String.sub body 1 (String.length body - 1)) with
            | M.Npos p -> (M.VZ (M.Zneg p), rest) | M.N0 -> (M.VZ M.Z0, rest))
         else (match n_of_hex body with M.Npos p -> (M.VZ (M.Zpos p), rest) | M.N0 -> (M.VZ M.Z0, rest))
       | 'b' ->
         let k = String.length body / 2 in
         (M.VB (List.init k (fun i -> n_of_small (hexval body.[2*i] * 16 + hexval body.[2*i+1]))), rest)
       | 't' ->
         if body = "" then (M.VB [], rest)
         else (M.VB (List.map n_of_hex (String.split_on_char '.' body)), rest)
       | _ -> failwith ("bad token " ^ t))
  and items toks acc = match toks with
    | ")" :: rest -> (List.rev acc, rest)
    | _ -> let (v, rest) = value toks in items rest (v :: acc) in
  let rec all toks acc = match toks with
    | [] -> List.rev acc
    | _ -> let (v, rest) = value toks in all rest (v :: acc) in
  all toks []

let split_line (l : string) : string list =
  List.filter (fun s -> s <> "") (String.split_on_char ' ' l)

let ask (name : M.string) (args : M.val0 list) : M.val0 =
  let b = Buffer.create 256 in
  Buffer.add_string b "? "; Buffer.add_string b (ocaml_string name);
  List.iter (fun v -> Buffer.add_char b ' '; print_val b v) args;
  Buffer.add_char b '\n';
  print_string (Buffer.contents b); flush stdout;
  let l = input_line stdin in
  match parse_tokens (split_line l) with
  | [v] -> v
  | _ -> failwith "bad oracle answer"

let () =
  try
    while true do
      let l = input_line stdin in
      match split_line l with
      | [] -> ()
      | name :: toks ->
        let args = parse_tokens toks in
        let r = M.dispatch ask (coq_string name) args in
        let (code, v) = M.result_code r in
        let b = Buffer.create 256 in
        Buffer.add_string b "= "; Buffer.add_string b (string_of_int (small_int_of_n code));
        Buffer.add_char b ' '; print_val b v; Buffer.add_char b '\n';
        print_string (Buffer.contents b); flush stdout
    done
  with End_of_file -> ()

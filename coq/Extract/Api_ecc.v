(* API entries for Model/Ed25519Lib.v and Model/EccAdapter.v (see Extract/ApiCommon.v). *)
From Coq Require Import NArith ZArith List String Bool.
From BU Require Import Base.Exn Base.Val Base.Bytes Gen.Ecc Extract.ApiCommon.
From BU Require Model.Ed25519Lib.
From BU Require Import Model.EccAdapter.
Import ListNotations.
Open Scope string_scope.

Definition o_Z (ask : string -> list val -> val) (name : string) (args : list val) : Z :=
  match ask name args with VZ z => z | VN n => Z.of_N n | _ => 0%Z end.

Definition rz (r : res Z) : res val := rmap VZ r.
Definition rbool (r : res bool) : res val := rmap VBool r.
Definition rpt (r : res (Z * Z)) : res val := rmap (fun P => VL [VZ (fst P); VZ (snd P)]) r.



Section EdLibApi.
  Variable ask : string -> list val -> val.

  (* mode 0: the library's own _x_recover (concrete square-and-multiply, ~1 s per call in the extracted model);
     mode 1: a reference square root answered by the harness (harness/oracles_ecc.py), for bulk runs *)
  Definition xrec (mode : N) : Z -> Z :=
    if N.eqb mode 0 then Ed25519Lib.x_recover ed_q ed_d ed_sqrtm1
    else fun y => o_Z ask "ed_x_recover" [VZ y].
  Definition in_sub (P : Z * Z) : bool := o_bool ask "ed_in_subgroup" [VZ (fst P); VZ (snd P)].
  Definition g : Z * Z := (ed_gx, ed_gy).

  Definition edlib_api : list api_entry := [
    ("edlib_powmod", fun a => match a with [VZ b; VZ e; VZ m] => Ok (VZ (Ed25519Lib.powmod b e m)) | _ => bad_call end);
    ("edlib_x_recover", fun a => match a with [VZ y] => Ok (VZ (Ed25519Lib.x_recover ed_q ed_d ed_sqrtm1 y)) | _ => bad_call end);
    ("edlib_int_decode", fun a => match a with [VB b] => Ok (VZ (Ed25519Lib.int_decode b)) | _ => bad_call end);
    ("edlib_int_encode", fun a => match a with [VZ v] => rb (Ed25519Lib.int_encode ed_coord_len v) | _ => bad_call end);
    ("edlib_is_valid_bytes", fun a => match a with [VB b] =>
        Ok (VL [VBool (Ed25519Lib.point_is_decoded_bytes ed_coord_len b); VBool (Ed25519Lib.point_is_encoded_bytes ed_coord_len b);
                VBool (Ed25519Lib.point_is_valid_bytes ed_coord_len b)]) | _ => bad_call end);
    ("edlib_bytes_to_coord", fun a => match a with [VN m; VB b] =>
        rpt (Ed25519Lib.point_bytes_to_coord ed_q ed_coord_len ed_clamp ed_sign_bit (xrec m) b) | _ => bad_call end);
    ("edlib_coord_to_bytes", fun a => match a with [VZ x; VZ y] =>
        rb (Ed25519Lib.point_coord_to_bytes ed_coord_len (x, y)) | _ => bad_call end);
    ("edlib_decode_no_check", fun a => match a with [VN m; VB b] =>
        rpt (Ed25519Lib.point_decode_no_check ed_q ed_coord_len ed_clamp ed_sign_bit (xrec m) b) | _ => bad_call end);
    ("edlib_decode", fun a => match a with [VN m; VB b] =>
        rpt (Ed25519Lib.point_decode ed_q ed_d ed_coord_len ed_clamp ed_sign_bit (xrec m) b) | _ => bad_call end);
    ("edlib_encode", fun a => match a with [VZ x; VZ y] =>
        rb (Ed25519Lib.point_encode ed_coord_len ed_sign_byte (x, y)) | _ => bad_call end);
    ("edlib_is_generator_bytes", fun a => match a with [VB b] =>
        rbool (Ed25519Lib.point_is_generator_bytes ed_g_dec_bytes ed_g_enc_bytes ed_coord_len b) | _ => bad_call end);
    ("edlib_is_generator_coord", fun a => match a with [VZ x; VZ y] =>
        Ok (VBool (Ed25519Lib.point_is_generator_coord g (x, y))) | _ => bad_call end);
    ("edlib_on_curve_bytes", fun a => match a with [VN m; VB b] =>
        rbool (Ed25519Lib.point_is_on_curve_bytes ed_q ed_d ed_coord_len ed_clamp ed_sign_bit (xrec m) b) | _ => bad_call end);
    ("edlib_on_curve_coord", fun a => match a with [VZ x; VZ y] =>
        Ok (VBool (Ed25519Lib.on_curve ed_q ed_d (x, y))) | _ => bad_call end);
    ("edlib_point_add", fun a => match a with [VN m; VB b1; VB b2] =>
        rb (Ed25519Lib.point_add ed_q ed_d ed_coord_len ed_clamp ed_sign_bit ed_sign_byte (xrec m) b1 b2) | _ => bad_call end);
    ("edlib_scalar_mul", fun a => match a with [VN m; VZ s; VB pb] =>
        rb (Ed25519Lib.point_scalar_mul_int ed_q ed_d ed_coord_len ed_clamp ed_sign_bit ed_sign_byte (xrec m) in_sub s pb)
      | _ => bad_call end);
    ("edlib_scalar_mul_bytes", fun a => match a with [VN m; VB sb; VB pb] =>
        rb (Ed25519Lib.point_scalar_mul_bytes ed_q ed_d ed_coord_len ed_clamp ed_sign_bit ed_sign_byte (xrec m) in_sub sb pb)
      | _ => bad_call end);
    ("edlib_scalar_mul_base", fun a => match a with [VZ s] =>
        rb (Ed25519Lib.point_scalar_mul_base_int ed_q ed_d g ed_coord_len ed_clamp ed_sign_byte s) | _ => bad_call end);
    ("edlib_scalar_mul_base_bytes", fun a => match a with [VB sb] =>
        rb (Ed25519Lib.point_scalar_mul_base_bytes ed_q ed_d g ed_coord_len ed_clamp ed_sign_byte sb) | _ => bad_call end);
    ("edlib_scalar_reduce", fun a => match a with [VZ s] => rb (Ed25519Lib.scalar_reduce_int ed_l ed_coord_len s) | _ => bad_call end);
    ("edlib_scalar_reduce_bytes", fun a => match a with [VB b] => rb (Ed25519Lib.scalar_reduce_bytes ed_l ed_coord_len b) | _ => bad_call end);
    ("edlib_scalar_is_valid", fun a => match a with [VZ s] => Ok (VBool (Ed25519Lib.scalar_is_valid_int ed_l s)) | _ => bad_call end);
    ("edlib_scalar_is_valid_bytes", fun a => match a with [VB b] => Ok (VBool (Ed25519Lib.scalar_is_valid_bytes ed_l b)) | _ => bad_call end)
  ].
End EdLibApi.


(* ---------------------------------------------------------------- adapter level: Weierstrass curves
   kind 0: secp256k1 / coincurve, 1: secp256k1 / python-ecdsa, 2: nist256p1 (python-ecdsa).
   Group operations and the SEC1 square root are answered by harness/ecref.py (curve ids 0, 1);
   the private-key acceptance oracle is instantiated with its specification 0 < k < n. *)
Definition wpt_val (P : wpt) : val := match P with Some (x, y) => VL [VN x; VN y] | None => VL [] end.
Definition val_wpt (v : val) : wpt := match v with VL [VN x; VN y] => Some (x, y) | _ => None end.

Section WeierApi.
  Variable ask : string -> list val -> val.
  Variable k : N.
  Definition cid : N := if N.eqb k 2 then 1%N else 0%N.
  Definition be : backend := if N.eqb k 0 then Coincurve else Ecdsa.
  Definition wp := if N.eqb k 2 then nist_p else secp_p.
  Definition wa := if N.eqb k 2 then nist_a else secp_a.
  Definition wb := if N.eqb k 2 then nist_b else secp_b.
  Definition wn := if N.eqb k 2 then nist_n else secp_n.
  Definition wbase : wpt := if N.eqb k 2 then Some (nist_gx, nist_gy) else Some (secp_gx, secp_gy).
  Definition w_add (P Q : wpt) : wpt := val_wpt (ask "ec_add" [VN cid; wpt_val P; wpt_val Q]).
  Definition w_smul (s : N) (P : wpt) : wpt := val_wpt (ask "ec_mul" [VN cid; VN s; wpt_val P]).
  Definition w_lift (x : N) (odd : bool) : option (N * N) := val_wpt (ask "ec_lift_x" [VN cid; VN x; VBool odd]).
  Definition w_acc := Weier.accepts_priv_spec wn.

  Definition w_priv_from_bytes := Weier.priv_from_bytes ecdsa_priv_len w_acc be.
  Definition w_pub_from_bytes :=
    Weier.pub_from_bytes wp wa wb ecdsa_coord_len ecdsa_pub_c_len ecdsa_pub_u_len ecdsa_unc_prefix w_lift be.
  Definition w_point_from_bytes (cur : bool) :=
    Weier.point_from_bytes wp wa wb ecdsa_coord_len ecdsa_pub_c_len ecdsa_pub_u_len ecdsa_unc_prefix w_lift cur be.
  Definition w_point_from_coords (cur : bool) := Weier.point_from_coords wp wa wb cur be.
  Definition w_comp := Weier.pub_raw_compressed ecdsa_coord_len.
  Definition w_unc := Weier.pub_raw_uncompressed ecdsa_coord_len ecdsa_unc_prefix.
  Definition w_obs (P : wpt) : res val :=
    x <- Weier.point_x P ;; y <- Weier.point_y P ;;
    raw <- Weier.point_raw ecdsa_coord_len P ;; enc <- Weier.point_raw_encoded ecdsa_coord_len P ;;
    Ok (VL [VN x; VN y; VB raw; VB enc]).
  Definition w_pub_obs (P : wpt) : res val :=
    c <- w_comp P ;; u <- w_unc P ;; x <- Weier.point_x P ;; y <- Weier.point_y P ;;
    Ok (VL [VB c; VB u; VN x; VN y]).
End WeierApi.

Definition nbool (n : N) : bool := negb (N.eqb n 0).

Definition weier_api (ask : string -> list val -> val) : list api_entry := [
  ("w_priv_from_bytes", fun a => match a with [VN k; VB b] => rb (w_priv_from_bytes k b) | _ => bad_call end);
  ("w_priv_is_valid", fun a => match a with [VN k; VB b] => rbool (is_valid (w_priv_from_bytes k b)) | _ => bad_call end);
  ("w_priv_pub", fun a => match a with [VN k; VB b] =>
      key <- w_priv_from_bytes k b ;;
      let P := Weier.priv_public (wbase k) (w_smul ask k) key in
      c <- w_comp P ;; u <- w_unc P ;; Ok (VL [VB c; VB u]) | _ => bad_call end);
  ("w_pub_from_bytes", fun a => match a with [VN k; VB b] =>
      P <- w_pub_from_bytes ask k b ;; w_pub_obs P | _ => bad_call end);
  ("w_pub_is_valid", fun a => match a with [VN k; VB b] => rbool (is_valid (w_pub_from_bytes ask k b)) | _ => bad_call end);
  ("w_pub_from_point", fun a => match a with [VN cur; VN k; VN x; VN y] =>
      P <- w_point_from_coords k (nbool cur) x y ;;
      Q <- Weier.pub_from_point (wp k) (wa k) (wb k) (be k) P ;; rb (w_comp Q) | _ => bad_call end);
  ("w_point_from_bytes", fun a => match a with [VN cur; VN k; VB b] =>
      P <- w_point_from_bytes ask k (nbool cur) b ;; w_obs P | _ => bad_call end);
  ("w_point_from_coords", fun a => match a with [VN cur; VN k; VN x; VN y] =>
      P <- w_point_from_coords k (nbool cur) x y ;; w_obs P | _ => bad_call end);
  ("w_point_add", fun a => match a with [VN k; VB b1; VB b2] =>
      P1 <- w_point_from_bytes ask k false b1 ;; P2 <- w_point_from_bytes ask k false b2 ;;
      R <- Weier.point_add (w_add ask k) (be k) P1 P2 ;; w_obs R | _ => bad_call end);
  ("w_point_mul", fun a => match a with [VN k; VB b; VN s] =>
      P <- w_point_from_bytes ask k false b ;;
      R <- Weier.point_mul (wn k) (w_smul ask k) (be k) P s ;; w_obs R | _ => bad_call end)
].

(* ---------------------------------------------------------------- adapter level: ed25519 family
   kind 3: ed25519, 4: ed25519-blake2b, 5: ed25519-kholaw, 6: ed25519-monero.  x-recovery, group operations
   and the prime-subgroup test are answered by the harness reference (curve id 2); hashes by hashlib. *)
Section EdwApi.
  Variable ask : string -> list val -> val.
  Definition ekind (k : N) : edkind :=
    if N.eqb k 3 then Ed25519 else if N.eqb k 4 then Ed25519Blake2b else if N.eqb k 5 then Ed25519Kholaw else Ed25519Monero.
  Definition zpt_val (P : Z * Z) : val := VL [VN (Z.to_N (fst P)); VN (Z.to_N (snd P))].
  Definition val_zpt (v : val) : Z * Z :=
    match v with VL [VN x; VN y] => (Z.of_N x, Z.of_N y) | _ => (0%Z, 1%Z) end.
  Definition e_xrec (y : Z) : Z := o_Z ask "ed_x_recover" [VZ y].
  Definition e_add (P Q : Z * Z) : Z * Z := val_zpt (ask "ec_add" [VN 2; zpt_val P; zpt_val Q]).
  Definition e_smul (s : Z) (P : Z * Z) : Z * Z := val_zpt (ask "ec_mul" [VN 2; VN (Z.to_N s); zpt_val P]).
  Definition e_sha512 := o_sha512 ask.
  Definition e_blake2b512 := o_blake2b ask 64.
  Definition e_b2b_acc (cur : bool) := if cur then Edw.b2b_accepts_current_spec else Edw.accepts_len32_spec.

  Definition e_pub_from_bytes (cur : bool) (k : N) :=
    Edw.pub_from_bytes ed_q ed_d ed_coord_len ed_clamp ed_sign_bit ed_pub_prefix ed_pub_len e_xrec
      Edw.accepts_len32_spec cur (ekind k).
  Definition e_point_from_bytes (cur : bool) :=
    Edw.point_from_bytes ed_q ed_d ed_coord_len ed_clamp ed_sign_bit ed_sign_byte e_xrec cur.
  Definition e_point_from_coords (cur : bool) :=
    Edw.point_from_coords ed_q ed_d ed_coord_len ed_clamp ed_sign_bit ed_sign_byte e_xrec cur.
  Definition e_point_x := Edw.point_x ed_q ed_coord_len ed_clamp ed_sign_bit e_xrec.
  Definition e_point_y := Edw.point_y ed_q ed_coord_len ed_clamp ed_sign_bit e_xrec.
  Definition e_point_raw := Edw.point_raw ed_q ed_coord_len ed_clamp ed_sign_bit e_xrec.
  Definition e_obs (enc : list N) : res val :=
    x <- e_point_x enc ;; y <- e_point_y enc ;; raw <- e_point_raw enc ;;
    Ok (VL [VZ x; VZ y; VB raw; VB (Edw.point_raw_encoded enc)]).
  Definition e_priv_from_bytes (cur : bool) (k : N) :=
    Edw.priv_from_bytes ed_l ed_priv_len Edw.accepts_len32_spec (e_b2b_acc cur) cur (ekind k).
  Definition e_priv_public (cur : bool) (k : N) :=
    Edw.priv_public ed_q ed_d (ed_gx, ed_gy) ed_g_enc_bytes ed_coord_len ed_clamp ed_sign_bit ed_sign_byte ed_priv_len
      e_xrec e_smul e_sha512 e_blake2b512 (in_sub ask) cur (ekind k).
End EdwApi.

Definition edw_api (ask : string -> list val -> val) : list api_entry := [
  ("e_priv_from_bytes", fun a => match a with [VN cur; VN k; VB b] =>
      rb (rmap (Edw.priv_raw (ekind k)) (e_priv_from_bytes (nbool cur) k b)) | _ => bad_call end);
  ("e_priv_is_valid", fun a => match a with [VN cur; VN k; VB b] =>
      rbool (is_valid (e_priv_from_bytes (nbool cur) k b)) | _ => bad_call end);
  ("e_priv_pub", fun a => match a with [VN cur; VN k; VB b] =>
      key <- e_priv_from_bytes (nbool cur) k b ;; pk <- e_priv_public ask (nbool cur) k key ;;
      Ok (VL [VB (Edw.pub_raw_compressed ed_pub_prefix (ekind k) pk); VB (Edw.pub_raw_uncompressed ed_pub_prefix (ekind k) pk)])
    | _ => bad_call end);
  ("e_pub_from_bytes", fun a => match a with [VN cur; VN k; VB b] =>
      key <- e_pub_from_bytes ask (nbool cur) k b ;;
      x <- e_point_x ask key ;; y <- e_point_y ask key ;;
      Ok (VL [VB (Edw.pub_raw_compressed ed_pub_prefix (ekind k) key);
              VB (Edw.pub_raw_uncompressed ed_pub_prefix (ekind k) key); VZ x; VZ y]) | _ => bad_call end);
  ("e_pub_is_valid", fun a => match a with [VN cur; VN k; VB b] =>
      rbool (is_valid (e_pub_from_bytes ask (nbool cur) k b)) | _ => bad_call end);
  ("e_pub_from_point", fun a => match a with [VN cur; VN k; VZ x; VZ y] =>
      enc <- e_point_from_coords ask (nbool cur) x y ;;
      key <- e_pub_from_bytes ask (nbool cur) k (Edw.point_raw_encoded enc) ;;
      Ok (VB (Edw.pub_raw_compressed ed_pub_prefix (ekind k) key)) | _ => bad_call end);
  ("e_point_from_bytes", fun a => match a with [VN cur; VB b] =>
      enc <- e_point_from_bytes ask (nbool cur) b ;; e_obs ask enc | _ => bad_call end);
  ("e_point_from_coords", fun a => match a with [VN cur; VZ x; VZ y] =>
      enc <- e_point_from_coords ask (nbool cur) x y ;; e_obs ask enc | _ => bad_call end);
  ("e_point_add", fun a => match a with [VN cur; VB b1; VB b2] =>
      P1 <- e_point_from_bytes ask (nbool cur) b1 ;; P2 <- e_point_from_bytes ask (nbool cur) b2 ;;
      R <- Edw.point_add ed_q ed_d ed_coord_len ed_clamp ed_sign_bit ed_sign_byte (e_xrec ask) (e_add ask) P1 P2 ;;
      e_obs ask R | _ => bad_call end);
  ("e_point_mul", fun a => match a with [VN cur; VB b; VZ s] =>
      P <- e_point_from_bytes ask (nbool cur) b ;;
      R <- Edw.point_mul ed_q ed_d ed_g_enc_bytes ed_coord_len ed_clamp ed_sign_bit ed_sign_byte (e_xrec ask) (e_smul ask)
             (in_sub ask) (nbool cur) P s ;;
      e_obs ask R | _ => bad_call end);
  ("sr_priv_from_bytes", fun a => match a with [VB b] => rb (Sr.sr_priv_from_bytes sr_priv_len b) | _ => bad_call end);
  ("sr_pub_from_bytes", fun a => match a with [VB b] => rb (Sr.sr_pub_from_bytes sr_pub_len b) | _ => bad_call end)
].

Definition api (ask : string -> list val -> val) : list api_entry := edlib_api ask ++ weier_api ask ++ edw_api ask.

(* API entries for Model/Ed25519Lib.v and Model/EccAdapter.v (see Extract/ApiCommon.v). *)
From Coq Require Import NArith ZArith List String Bool.
From BU Require Import Base.Exn Base.Val Base.Bytes Gen.Ecc Extract.ApiCommon.
From BU Require Model.Ed25519Lib.
Import ListNotations.
Open Scope string_scope.

Definition o_Z (ask : string -> list val -> val) (name : string) (args : list val) : Z :=
  match ask name args with VZ z => z | VN n => Z.of_N n | _ => 0%Z end.

Definition rz (r : res Z) : res val := rmap VZ r.
Definition rbool (r : res bool) : res val := rmap VBool r.
Definition rpt (r : res (Z * Z)) : res val := rmap (fun P => VL [VZ (fst P); VZ (snd P)]) r.



Section EdLibApi.
  Variable ask : string -> list val -> val.

  (* mode 0: the library's own _x_recover (concrete square-and-multiply, ~1 s per call in the extracted model);
     mode 1: a reference square root answered by the harness (harness/oracles_ecc.py), for bulk runs *)
  Definition xrec (mode : N) : Z -> Z :=
    if N.eqb mode 0 then Ed25519Lib.x_recover ed_q ed_d ed_sqrtm1
    else fun y => o_Z ask "ed_x_recover" [VZ y].
  Definition in_sub (P : Z * Z) : bool := o_bool ask "ed_in_subgroup" [VZ (fst P); VZ (snd P)].
  Definition g : Z * Z := (ed_gx, ed_gy).

  Definition edlib_api : list api_entry := [
    ("edlib_powmod", fun a => match a with [VZ b; VZ e; VZ m] => Ok (VZ (Ed25519Lib.powmod b e m)) | _ => bad_call end);
    ("edlib_x_recover", fun a => match a with [VZ y] => Ok (VZ (Ed25519Lib.x_recover ed_q ed_d ed_sqrtm1 y)) | _ => bad_call end);
    ("edlib_int_decode", fun a => match a with [VB b] => Ok (VZ (Ed25519Lib.int_decode b)) | _ => bad_call end);
    ("edlib_int_encode", fun a => match a with [VZ v] => rb (Ed25519Lib.int_encode ed_coord_len v) | _ => bad_call end);
    ("edlib_is_valid_bytes", fun a => match a with [VB b] =>
        Ok (VL [VBool (Ed25519Lib.point_is_decoded_bytes ed_coord_len b); VBool (Ed25519Lib.point_is_encoded_bytes ed_coord_len b);
                VBool (Ed25519Lib.point_is_valid_bytes ed_coord_len b)]) | _ => bad_call end);
    ("edlib_bytes_to_coord", fun a => match a with [VN m; VB b] =>
        rpt (Ed25519Lib.point_bytes_to_coord ed_q ed_coord_len ed_clamp ed_sign_bit (xrec m) b) | _ => bad_call end);
    ("edlib_coord_to_bytes", fun a => match a with [VZ x; VZ y] =>
        rb (Ed25519Lib.point_coord_to_bytes ed_coord_len (x, y)) | _ => bad_call end);
    ("edlib_decode_no_check", fun a => match a with [VN m; VB b] =>
        rpt (Ed25519Lib.point_decode_no_check ed_q ed_coord_len ed_clamp ed_sign_bit (xrec m) b) | _ => bad_call end);
    ("edlib_decode", fun a => match a with [VN m; VB b] =>
        rpt (Ed25519Lib.point_decode ed_q ed_d ed_coord_len ed_clamp ed_sign_bit (xrec m) b) | _ => bad_call end);
    ("edlib_encode", fun a => match a with [VZ x; VZ y] =>
        rb (Ed25519Lib.point_encode ed_coord_len ed_sign_byte (x, y)) | _ => bad_call end);
    ("edlib_is_generator_bytes", fun a => match a with [VB b] =>
        rbool (Ed25519Lib.point_is_generator_bytes ed_g_dec_bytes ed_g_enc_bytes ed_coord_len b) | _ => bad_call end);
    ("edlib_is_generator_coord", fun a => match a with [VZ x; VZ y] =>
        Ok (VBool (Ed25519Lib.point_is_generator_coord g (x, y))) | _ => bad_call end);
    ("edlib_on_curve_bytes", fun a => match a with [VN m; VB b] =>
        rbool (Ed25519Lib.point_is_on_curve_bytes ed_q ed_d ed_coord_len ed_clamp ed_sign_bit (xrec m) b) | _ => bad_call end);
    ("edlib_on_curve_coord", fun a => match a with [VZ x; VZ y] =>
        Ok (VBool (Ed25519Lib.on_curve ed_q ed_d (x, y))) | _ => bad_call end);
    ("edlib_point_add", fun a => match a with [VN m; VB b1; VB b2] =>
        rb (Ed25519Lib.point_add ed_q ed_d ed_coord_len ed_clamp ed_sign_bit ed_sign_byte (xrec m) b1 b2) | _ => bad_call end);
    ("edlib_scalar_mul", fun a => match a with [VN m; VZ s; VB pb] =>
        rb (Ed25519Lib.point_scalar_mul_int ed_q ed_d ed_coord_len ed_clamp ed_sign_bit ed_sign_byte (xrec m) in_sub s pb)
      | _ => bad_call end);
    ("edlib_scalar_mul_bytes", fun a => match a with [VN m; VB sb; VB pb] =>
        rb (Ed25519Lib.point_scalar_mul_bytes ed_q ed_d ed_coord_len ed_clamp ed_sign_bit ed_sign_byte (xrec m) in_sub sb pb)
      | _ => bad_call end);
    ("edlib_scalar_mul_base", fun a => match a with [VZ s] =>
        rb (Ed25519Lib.point_scalar_mul_base_int ed_q ed_d g ed_coord_len ed_clamp ed_sign_byte s) | _ => bad_call end);
    ("edlib_scalar_mul_base_bytes", fun a => match a with [VB sb] =>
        rb (Ed25519Lib.point_scalar_mul_base_bytes ed_q ed_d g ed_coord_len ed_clamp ed_sign_byte sb) | _ => bad_call end);
    ("edlib_scalar_reduce", fun a => match a with [VZ s] => rb (Ed25519Lib.scalar_reduce_int ed_l ed_coord_len s) | _ => bad_call end);
    ("edlib_scalar_reduce_bytes", fun a => match a with [VB b] => rb (Ed25519Lib.scalar_reduce_bytes ed_l ed_coord_len b) | _ => bad_call end);
    ("edlib_scalar_is_valid", fun a => match a with [VZ s] => Ok (VBool (Ed25519Lib.scalar_is_valid_int ed_l s)) | _ => bad_call end);
    ("edlib_scalar_is_valid_bytes", fun a => match a with [VB b] => Ok (VBool (Ed25519Lib.scalar_is_valid_bytes ed_l b)) | _ => bad_call end)
  ].
End EdLibApi.

Definition api (ask : string -> list val -> val) : list api_entry := edlib_api ask.

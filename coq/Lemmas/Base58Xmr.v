(* Proofs about Model/Base58Xmr.v (Monero block Base58). *)
From Coq Require Import NArith Arith List Lia Bool.
From BU Require Import Base.Exn Base.Radix Base.Bytes Model.Base58 Model.Base58Xmr.
From BU Require Lemmas.Base58.
Import ListNotations.
Open Scope N_scope.

(* ---- small list facts ---- *)

Lemma firstn_app_exact {A} n (a b : list A) : length a = n -> firstn n (a ++ b) = a.
Proof.
  intros <-. rewrite firstn_app, Nat.sub_diag, firstn_all. simpl. apply app_nil_r.
Qed.
Lemma skipn_app_exact {A} n (a b : list A) : length a = n -> skipn n (a ++ b) = b.
Proof.
  intros <-. rewrite skipn_app, Nat.sub_diag, skipn_all. reflexivity.
Qed.

Lemma index_of_nat_nth c l : forall i, index_of_nat c l = Some i -> nth_error l i = Some c.
Proof.
  induction l as [|x t IH]; intros i E; [discriminate|]. simpl in E.
  destruct (Nat.eqb_spec x c) as [->|].
  - inversion E; reflexivity.
  - destruct (index_of_nat c t) as [j|]; [|discriminate]. inversion E; subst. simpl. auto.
Qed.

Lemma index_of_nat_nodup l : NoDup l -> forall i c, nth_error l i = Some c -> index_of_nat c l = Some i.
Proof.
  induction 1 as [|x t Hx Hnd IH]; intros i c E; [destruct i; discriminate|].
  destruct i as [|i]; simpl in *.
  - inversion E; subst. rewrite Nat.eqb_refl. reflexivity.
  - destruct (Nat.eqb_spec x c) as [->|].
    + exfalso. apply Hx. eapply nth_error_In; eauto.
    + rewrite (IH _ _ E). reflexivity.
Qed.

Lemma lead_count_repeat_plus c k l : lead_count c (repeat c k ++ l) = (k + lead_count c l)%nat.
Proof. induction k; simpl; [reflexivity|]. rewrite N.eqb_refl, IHk. reflexivity. Qed.

Lemma lead_count_le c l : (lead_count c l <= length l)%nat.
Proof. pose proof (lead_count_length c l). lia. Qed.

Lemma be_to_int_lt b : bytes_ok b -> be_to_int b < 256 ^ N.of_nat (length b).
Proof.
  intros H. unfold be_to_int, from_be. rewrite <- (rev_length b).
  apply (from_le_lt 256 r256). apply bytes_ok_rev; exact H.
Qed.

(* number of radix-r digits is monotone in the value *)
Lemma to_le_length_mono r : 2 <= r -> forall v w, v <= w -> (length (to_le r v) <= length (to_le r w))%nat.
Proof.
  intros Hr v w Hvw.
  apply (to_le_length_le r Hr).
  pose proof (from_le_lt r Hr (to_le r w) (to_le_digits r Hr w)) as L.
  rewrite (from_to_le r Hr) in L. lia.
Qed.

Lemma stripped_ge_gen r : 2 <= r -> forall c, digits_ok r c -> (forall x t, c = x :: t -> x <> 0) -> c <> [] ->
  r ^ N.of_nat (length c - 1) <= from_be r c.
Proof.
  intros Hr c Hc Hhd Hne. unfold from_be. rewrite <- (rev_length c).
  apply (from_le_ge r Hr).
  - destruct c as [|x t]; [congruence|]. simpl.
    apply (canon_le_snoc r); [apply digits_ok_rev; inversion Hc; auto|inversion Hc; auto|eapply Hhd; eauto].
  - intro E. apply Hne. rewrite <- (rev_involutive c), E. reflexivity.
Qed.

(* the check of __UnPad, len(dec.lstrip(b"\x00")) > d, says exactly that the value does not fit d bytes *)
Lemma lstrip_check dec d : bytes_ok dec ->
  (d <? length (lstrip 0 dec))%nat = negb (be_to_int dec <? 256 ^ N.of_nat d).
Proof.
  intros Hb. set (c := lstrip 0 dec).
  assert (Hc : bytes_ok c).
  { rewrite (lead_count_lstrip 0 dec) in Hb. apply bytes_ok_app in Hb. tauto. }
  assert (V : be_to_int dec = be_to_int c).
  { rewrite (lead_count_lstrip 0 dec) at 1. apply be_to_int_zeros. }
  rewrite V. destruct (Nat.ltb_spec d (length c)) as [L|L].
  - assert (G : 256 ^ N.of_nat (length c - 1) <= be_to_int c).
    { apply (stripped_ge_gen 256 r256); [exact Hc|apply lstrip_hd|]. destruct c; [simpl in L; lia|discriminate]. }
    assert (256 ^ N.of_nat d <= 256 ^ N.of_nat (length c - 1)) by (apply N.pow_le_mono_r; lia).
    destruct (N.ltb_spec (be_to_int c) (256 ^ N.of_nat d)); [lia|reflexivity].
  - pose proof (be_to_int_lt c Hc).
    assert (256 ^ N.of_nat (length c) <= 256 ^ N.of_nat d) by (apply N.pow_le_mono_r; lia).
    destruct (N.ltb_spec (be_to_int c) (256 ^ N.of_nat d)); [reflexivity|lia].
Qed.

Section XmrProofs.
  Variable alph : list N.
  Variable radix : N.
  Variable dec_max enc_max : nat.
  Variable enc_lens : list nat.

  Hypothesis alph_nodup : NoDup alph.
  Hypothesis alph_len : length alph = N.to_nat radix.
  Hypothesis radix_ge2 : 2 <= radix.
  (* facts about BLOCK_ENC_BYTE_LENS, all decided by vm_compute on the generated table *)
  Hypothesis dec_max_pos : (0 < dec_max)%nat.
  Hypothesis lens_len : length enc_lens = S dec_max.
  Hypothesis lens_max : nth_error enc_lens dec_max = Some enc_max.
  Hypothesis lens_0 : nth_error enc_lens 0 = Some 0%nat.
  Hypothesis lens_lt : forall d e, (d < dec_max)%nat -> nth_error enc_lens d = Some e -> (e < enc_max)%nat.
  Hypothesis lens_nodup : NoDup enc_lens.
  Hypothesis lens_fit : forall d e, nth_error enc_lens d = Some e -> 256 ^ N.of_nat d <= radix ^ N.of_nat e.
  Hypothesis lens_sub : forall d k e e', (k <= d)%nat ->
    nth_error enc_lens d = Some e -> nth_error enc_lens (d - k) = Some e' -> (k + e' <= e)%nat.

  Hypothesis lens_ge : forall d e, nth_error enc_lens d = Some e -> (d <= e)%nat.
  Hypothesis lens_min : forall d e k, nth_error enc_lens d = Some e -> (k < e)%nat ->
    (d <= k + length (to_le 256 (radix ^ N.of_nat (e - k - 1))))%nat.

  Notation b58enc := (b58enc alph radix).
  Notation b58dec := (b58dec alph radix).
  Notation pad := (pad alph).
  Notation enc_blocks := (enc_blocks alph radix dec_max enc_max).
  Notation dec_block := (dec_block alph radix).
  Notation dec_blocks := (dec_blocks dec_max enc_max).
  Notation decode_gen := (decode_gen dec_max enc_max enc_lens).
  Notation encode := (Base58Xmr.encode alph radix dec_max enc_max enc_lens).
  Notation decode := (Base58Xmr.decode alph radix dec_max enc_max enc_lens).
  Notation a0 := (Base58.a0 alph).

  Let b58_decode_encode := Lemmas.Base58.decode_encode alph radix alph_nodup alph_len radix_ge2.

  Lemma enc_max_pos : (0 < enc_max)%nat.
  Proof. pose proof (lens_lt 0%nat 0%nat dec_max_pos lens_0). lia. Qed.

  Lemma lens_defined d : (d <= dec_max)%nat -> exists e, nth_error enc_lens d = Some e.
  Proof.
    intros H. destruct (nth_error enc_lens d) as [e|] eqn:E; [eauto|].
    apply nth_error_None in E. lia.
  Qed.

  (* the Base58 text of a d-byte block never exceeds the table width for d *)
  Lemma b58enc_length blk d e : bytes_ok blk -> length blk = d -> nth_error enc_lens d = Some e ->
    (length (b58enc blk) <= e)%nat.
  Proof.
    intros Hb Hl He. unfold Base58Xmr.b58enc, Base58.encode.
    rewrite app_length, repeat_length, map_length.
    set (k := lead_count 0 blk).
    assert (Hk : (k <= d)%nat) by (subst d; apply lead_count_le).
    assert (Hd : (d <= dec_max)%nat).
    { assert (d < length enc_lens)%nat by (apply nth_error_Some; congruence). lia. }
    destruct (lens_defined (d - k)%nat ltac:(lia)) as [e' He'].
    pose proof (lens_sub d k e e' Hk He He') as S1.
    assert (V : be_to_int blk < 256 ^ N.of_nat (d - k)).
    { rewrite (lead_count_lstrip 0 blk). fold k. rewrite be_to_int_zeros.
      assert (Hs : bytes_ok (lstrip 0 blk)).
      { rewrite (lead_count_lstrip 0 blk) in Hb. apply bytes_ok_app in Hb. tauto. }
      pose proof (be_to_int_lt _ Hs) as L.
      pose proof (lead_count_length 0 blk) as LL. fold k in LL.
      replace (d - k)%nat with (length (lstrip 0 blk)) by lia. exact L. }
    pose proof (lens_fit _ _ He') as F.
    assert (L : (length (to_le radix (be_to_int blk)) <= e')%nat).
    { apply (to_le_length_le radix radix_ge2). lia. }
    unfold to_be. rewrite rev_length. lia.
  Qed.

  Lemma pad_length n s : (length s <= n)%nat -> length (pad n s) = n.
  Proof. intros H. unfold Base58Xmr.pad. rewrite app_length, repeat_length. lia. Qed.

  (* left-padding with ALPHABET[0] is Base58-encoding with extra leading zero bytes *)
  Lemma pad_is_encode n blk :
    pad n (b58enc blk) = b58enc (repeat 0 (n - length (b58enc blk)) ++ blk).
  Proof.
    unfold Base58Xmr.pad. set (j := (n - length (b58enc blk))%nat).
    unfold Base58Xmr.b58enc, Base58.encode.
    rewrite lead_count_repeat_plus, be_to_int_zeros, repeat_app, <- app_assoc. reflexivity.
  Qed.

  Lemma unpad_zeros j blk : unpad (length blk) (repeat 0 j ++ blk) = blk.
  Proof.
    unfold unpad. rewrite app_length, repeat_length.
    destruct (Nat.leb_spec (length blk) (j + length blk)); [|lia].
    replace (j + length blk - length blk)%nat with j by lia.
    apply skipn_app_exact, repeat_length.
  Qed.

  (* one block: encoder output has exactly the table width, Base58-decodes, passes the value check, and
     the unpad slice (start = number of pad bytes >= 0) gives the block back *)
  Lemma block_roundtrip blk d e : bytes_ok blk -> length blk = d -> nth_error enc_lens d = Some e ->
    length (pad e (b58enc blk)) = e /\ dec_block d (pad e (b58enc blk)) = Ok blk.
  Proof.
    intros Hb Hl He. split.
    - apply pad_length. eapply b58enc_length; eauto.
    - unfold Base58Xmr.dec_block. rewrite pad_is_encode. set (j := (e - length (b58enc blk))%nat).
      change (Base58Xmr.b58dec alph radix (Base58Xmr.b58enc alph radix (repeat 0 j ++ blk)))
        with (Base58.decode alph radix (Base58.encode alph radix (repeat 0 j ++ blk))).
      rewrite b58_decode_encode by (apply bytes_ok_app; split; [apply bytes_ok_repeat0|exact Hb]).
      cbn [bind Ok].
      rewrite lstrip_check by (apply bytes_ok_app; split; [apply bytes_ok_repeat0|exact Hb]).
      rewrite be_to_int_zeros.
      pose proof (be_to_int_lt blk Hb) as L. rewrite Hl in L.
      destruct (N.ltb_spec (be_to_int blk) (256 ^ N.of_nat d)); [|exfalso; lia].
      cbn [negb]. subst d. rewrite unpad_zeros. reflexivity.
  Qed.

  Lemma enc_blocks_length cnt : forall b, bytes_ok b -> length b = (cnt * dec_max)%nat ->
    length (enc_blocks cnt b) = (cnt * enc_max)%nat.
  Proof.
    induction cnt as [|c IH]; intros b Hb Hl; [reflexivity|].
    cbn [Base58Xmr.enc_blocks]. rewrite app_length.
    assert (L1 : length (firstn dec_max b) = dec_max) by (rewrite firstn_length; simpl in Hl; lia).
    destruct (block_roundtrip (firstn dec_max b) dec_max enc_max (bytes_ok_firstn _ _ Hb) L1 lens_max) as [P _].
    rewrite P, IH; [simpl; lia|apply bytes_ok_skipn; auto|rewrite skipn_length; simpl in Hl; lia].
  Qed.

  Lemma dec_enc_blocks cnt : forall b ts, bytes_ok b -> length b = (cnt * dec_max)%nat ->
    dec_blocks dec_block cnt (enc_blocks cnt b ++ ts) = Ok b.
  Proof.
    induction cnt as [|c IH]; intros b ts Hb Hl.
    - destruct b; [reflexivity|discriminate].
    - cbn [Base58Xmr.enc_blocks Base58Xmr.dec_blocks].
      assert (L1 : length (firstn dec_max b) = dec_max) by (rewrite firstn_length; simpl in Hl; lia).
      destruct (block_roundtrip (firstn dec_max b) dec_max enc_max (bytes_ok_firstn _ _ Hb) L1 lens_max)
        as (P & D).
      rewrite <- app_assoc.
      rewrite (firstn_app_exact enc_max _ _ P), (skipn_app_exact enc_max _ _ P).
      rewrite D. cbn [bind Ok]. rewrite IH;
        [|apply bytes_ok_skipn; auto|rewrite skipn_length; simpl in Hl; lia].
      cbn [bind Ok]. unfold Ok. f_equal. apply firstn_skipn.
  Qed.

  Lemma enc_blocks_prefix cnt : forall b tl, length b = (cnt * dec_max)%nat ->
    enc_blocks cnt (b ++ tl) = enc_blocks cnt b.
  Proof.
    induction cnt as [|c IH]; intros b tl Hl; [reflexivity|].
    cbn [Base58Xmr.enc_blocks]. simpl in Hl.
    rewrite firstn_app, skipn_app.
    replace (dec_max - length b)%nat with 0%nat by lia. simpl. rewrite app_nil_r.
    f_equal. apply IH. rewrite skipn_length. lia.
  Qed.

  (* Base58XmrDecoder.Decode (Base58XmrEncoder.Encode b) = b for every byte string *)
  Theorem decode_encode b : bytes_ok b -> exists s, encode b = Ok s /\ decode s = Ok b.
  Proof.
    intros Hb.
    set (cnt := (length b / dec_max)%nat). set (last := (length b mod dec_max)%nat).
    assert (Hdm : dec_max <> 0%nat) by lia.
    pose proof (Nat.div_mod (length b) dec_max Hdm) as DM. fold cnt last in DM.
    pose proof (Nat.mod_upper_bound (length b) dec_max Hdm) as LB. fold last in LB.
    set (hd := firstn (cnt * dec_max) b). set (tl := skipn (cnt * dec_max) b).
    assert (Hsplit : b = hd ++ tl) by (symmetry; apply firstn_skipn).
    assert (Lhd : length hd = (cnt * dec_max)%nat) by (unfold hd; rewrite firstn_length; lia).
    assert (Ltl : length tl = last) by (unfold tl; rewrite skipn_length; lia).
    assert (Bhd : bytes_ok hd) by (apply bytes_ok_firstn; auto).
    assert (Btl : bytes_ok tl) by (apply bytes_ok_skipn; auto).
    assert (Efull : enc_blocks cnt b = enc_blocks cnt hd)
      by (rewrite Hsplit at 1; apply enc_blocks_prefix; exact Lhd).
    pose proof (enc_blocks_length cnt hd Bhd Lhd) as Lfull.
    pose proof enc_max_pos as EP. assert (Hem : enc_max <> 0%nat) by lia.
    unfold Base58Xmr.encode. fold cnt last. rewrite Efull.
    destruct (Nat.ltb_spec 0 last) as [Hpos|Hz].
    - (* a partial last block *)
      destruct (lens_defined last ltac:(lia)) as [e He]. rewrite He. cbn [of_option bind Ok].
      assert (Etl : slice (cnt * dec_max) (cnt * dec_max + last) b = tl).
      { unfold slice. fold tl. replace (cnt * dec_max + last - cnt * dec_max)%nat with last by lia.
        rewrite <- Ltl. apply firstn_all. }
      rewrite Etl. eexists; split; [reflexivity|].
      destruct (block_roundtrip tl last e Btl Ltl He) as (P & D).
      pose proof (lens_lt last e LB He) as Elt.
      unfold Base58Xmr.decode, Base58Xmr.decode_gen. rewrite app_length, Lfull, P.
      assert (Q : ((cnt * enc_max + e) / enc_max = cnt)%nat).
      { symmetry. apply (Nat.div_unique _ _ _ e); lia. }
      assert (R : ((cnt * enc_max + e) mod enc_max = e)%nat).
      { symmetry. apply (Nat.mod_unique _ _ cnt e); lia. }
      rewrite Q, R. rewrite (index_of_nat_nodup _ lens_nodup _ _ He). cbn [of_option bind Ok].
      rewrite (dec_enc_blocks cnt hd _ Bhd Lhd). cbn [bind Ok].
      assert (Hepos : (0 < e)%nat).
      { destruct e; [|lia]. exfalso.
        pose proof (index_of_nat_nodup _ lens_nodup _ _ He) as I1.
        pose proof (index_of_nat_nodup _ lens_nodup _ _ lens_0) as I2. rewrite I1 in I2.
        inversion I2. lia. }
      destruct (Nat.ltb_spec 0 e); [|lia].
      unfold slice. rewrite <- Lfull, skipn_app_exact by reflexivity.
      replace (length (enc_blocks cnt hd) + e - length (enc_blocks cnt hd))%nat with e by lia.
      rewrite <- P at 1. rewrite firstn_all. rewrite D. cbn [bind Ok].
      rewrite <- Hsplit. reflexivity.
    - (* only full blocks *)
      assert (last = 0%nat) by lia. eexists; split; [reflexivity|].
      assert (tl = []) by (destruct tl; [reflexivity|simpl in Ltl; lia]).
      unfold Base58Xmr.decode, Base58Xmr.decode_gen. rewrite Lfull.
      rewrite Nat.div_mul, Nat.mod_mul by lia.
      rewrite (index_of_nat_nodup _ lens_nodup _ _ lens_0). cbn [of_option bind Ok].
      rewrite <- (app_nil_r (enc_blocks cnt hd)), (dec_enc_blocks cnt hd _ Bhd Lhd). cbn [bind Ok].
      change (0 <? 0)%nat with false. cbv iota.
      rewrite Hsplit. rewrite H0, app_nil_r. reflexivity.
  Qed.

  (* ------------------------------------------------------------------------------------------
     Blocks that were not produced by the encoder (material for property C10).               *)

  Notation sym_index := (Base58.sym_index alph).
  Notation block_value := (Base58Xmr.block_value alph radix).

  Lemma lead_count_digits s : forall ds, mapM sym_index s = Ok ds -> lead_count a0 s = lead_count 0 ds.
  Proof.
    induction s as [|c s IH]; intros ds M; simpl in M.
    - inversion M; reflexivity.
    - destruct (sym_index c) as [d|] eqn:HS; simpl in M; [|discriminate].
      destruct (mapM sym_index s) as [ds'|] eqn:M'; simpl in M; [|discriminate].
      inversion M; subst ds; clear M. simpl.
      destruct (Lemmas.Base58.sym_index_spec alph radix alph_len radix_ge2 c d HS) as [Hd Hc].
      destruct (N.eqb_spec c a0) as [Ec|Ec]; destruct (N.eqb_spec d 0) as [Ed|Ed].
      + f_equal. apply IH; reflexivity.
      + exfalso. subst c. rewrite Lemmas.Base58.a0_sym in Ec.
        apply (Lemmas.Base58.sym_inj alph radix alph_nodup alph_len radix_ge2) in Ec; [auto|auto|lia].
      + exfalso. subst d. apply Ec. symmetry. exact Hc.
      + reflexivity.
  Qed.

  (* shape of Base58Decoder.Decode's result in terms of the digit list *)
  Lemma b58dec_shape s dec : b58dec s = Ok dec ->
    exists ds, mapM sym_index s = Ok ds /\ digits_ok radix ds /\ length ds = length s /\
      dec = repeat 0 (lead_count 0 ds) ++ int_to_be_min (from_be radix (lstrip 0 ds)) /\
      from_be radix (lstrip 0 ds) = from_be radix ds.
  Proof.
    unfold Base58Xmr.b58dec, Base58.decode. destruct (mapM sym_index s) as [ds|] eqn:M; simpl; [|discriminate].
    intros E; inversion E; subst dec; clear E. exists ds.
    destruct (Lemmas.Base58.mapM_sym_index_spec alph radix alph_len radix_ge2 _ _ M) as [Hds _].
    assert (V : from_be radix (lstrip 0 ds) = from_be radix ds).
    { rewrite (lead_count_lstrip 0 ds) at 2. unfold from_be.
      rewrite rev_app_distr, rev_repeat. symmetry. apply (from_le_pad radix radix_ge2). }
    repeat split; auto.
    - eapply Lemmas.Base58.mapM_length; eauto.
    - rewrite (lead_count_digits _ _ M), V. reflexivity.
  Qed.

  Lemma stripped_ge c : digits_ok radix c -> (forall x t, c = x :: t -> x <> 0) -> c <> [] ->
    radix ^ N.of_nat (length c - 1) <= from_be radix c.
  Proof.
    intros Hc Hhd Hne. unfold from_be. rewrite <- (rev_length c).
    apply (from_le_ge radix radix_ge2).
    - destruct c as [|x t]; [congruence|]. simpl.
      apply (canon_le_snoc radix); [apply digits_ok_rev; inversion Hc; auto|inversion Hc; auto|eapply Hhd; eauto].
    - intro E. apply Hne. rewrite <- (rev_involutive c), E. reflexivity.
  Qed.

  (* the block lemma at full strength: ANY string of block width e = enc_lens[d] that Base58-decodes
     yields at least d bytes, so __UnPad's slice start is never negative -- for every input *)
  Lemma block_dec_length s d e dec : nth_error enc_lens d = Some e -> length s = e ->
    b58dec s = Ok dec -> (d <= length dec)%nat.
  Proof.
    intros He Hl D. destruct (b58dec_shape _ _ D) as (ds & M & Hds & Lds & -> & _).
    rewrite app_length, repeat_length.
    set (k := lead_count 0 ds). set (c := lstrip 0 ds).
    pose proof (lead_count_length 0 ds) as LL. fold k c in LL.
    assert (Hc : digits_ok radix c).
    { rewrite (lead_count_lstrip 0 ds) in Hds. apply digits_ok_app in Hds. tauto. }
    destruct c as [|x t] eqn:Ec.
    - simpl in LL. pose proof (lens_ge _ _ He). lia.
    - assert (G : radix ^ N.of_nat (length (x :: t) - 1) <= from_be radix (x :: t)).
      { apply stripped_ge; [exact Hc| |congruence]. intros y u E. inversion E; subst y u.
        apply (lstrip_hd 0 ds x t). exact Ec. }
      assert (Hk : (k < e)%nat) by (simpl in LL; lia).
      pose proof (lens_min d e k He Hk) as Mn.
      replace (length (x :: t) - 1)%nat with (e - k - 1)%nat in G by lia.
      pose proof (to_le_length_mono 256 r256 _ _ G) as Mo.
      unfold int_to_be_min, to_be. rewrite rev_length. lia.
  Qed.

  Lemma unpad_skipn d dec : (d <= length dec)%nat -> unpad d dec = skipn (length dec - d) dec.
  Proof. intros H. unfold unpad. destruct (Nat.leb_spec d (length dec)); [reflexivity|lia]. Qed.

  Lemma b58dec_value s dec : b58dec s = Ok dec -> block_value s = Ok (be_to_int dec) /\ bytes_ok dec.
  Proof.
    intros D. destruct (b58dec_shape _ _ D) as (ds & M & Hds & Lds & -> & V).
    unfold Base58Xmr.block_value. rewrite M. simpl. split.
    - rewrite be_to_int_zeros, be_to_int_min, V. reflexivity.
    - apply bytes_ok_app. split; [apply bytes_ok_repeat0|apply int_to_be_min_ok].
  Qed.

  Lemma be_to_int_app a b : be_to_int (a ++ b) = be_to_int a * 256 ^ N.of_nat (length b) + be_to_int b.
  Proof.
    unfold be_to_int, from_be. rewrite rev_app_distr, (from_le_app 256 r256), rev_length. lia.
  Qed.

  Lemma be_to_int_zero_iff z : bytes_ok z -> (be_to_int z = 0 <-> z = repeat 0 (length z)).
  Proof.
    intros Hz. split.
    - induction Hz as [|x t Hx Ht IH]; [reflexivity|].
      change (x :: t) with ([x] ++ t). rewrite be_to_int_app. intros E.
      assert (Ex : be_to_int [x] = x) by (unfold be_to_int, from_be; simpl; lia).
      rewrite Ex in E.
      assert (P : 0 < 256 ^ N.of_nat (length t)) by (apply N.neq_0_lt_0, N.pow_nonzero; lia).
      assert (x = 0) by nia. subst x. simpl. f_equal. apply IH. lia.
    - intros ->. rewrite <- (app_nil_r (repeat 0 _)), be_to_int_zeros. reflexivity.
  Qed.

  (* Canonicity of one block, exactly: an accepted block string re-encodes to itself iff its
     Base58 value fits the d bytes the decoder keeps.  (F2: the code does not check this.) *)
  Theorem block_canonical_iff s d e dec v : nth_error enc_lens d = Some e -> length s = e ->
    b58dec s = Ok dec -> block_value s = Ok v ->
    (pad e (b58enc (unpad d dec)) = s <-> v < 256 ^ N.of_nat d).
  Proof.
    intros He Hl D BV.
    pose proof (block_dec_length _ _ _ _ He Hl D) as Ld.
    destruct (b58dec_value _ _ D) as [BV' Hdec]. rewrite BV in BV'. inversion BV'; subst v; clear BV'.
    rewrite (unpad_skipn _ _ Ld).
    set (n := (length dec - d)%nat). set (Z := firstn n dec). set (U := skipn n dec).
    assert (Sp : dec = Z ++ U) by (symmetry; apply firstn_skipn).
    assert (LU : length U = d) by (unfold U; rewrite skipn_length; lia).
    assert (LZ : length Z = n) by (unfold Z; rewrite firstn_length; lia).
    assert (BU : bytes_ok U) by (apply bytes_ok_skipn; auto).
    assert (BZ : bytes_ok Z) by (apply bytes_ok_firstn; auto).
    assert (Val : be_to_int dec = be_to_int Z * 256 ^ N.of_nat d + be_to_int U)
      by (rewrite Sp at 1; rewrite be_to_int_app, LU; reflexivity).
    pose proof (be_to_int_lt U BU) as UL. rewrite LU in UL.
    assert (Zero : be_to_int dec < 256 ^ N.of_nat d <-> Z = repeat 0 n).
    { rewrite <- LZ. rewrite <- (be_to_int_zero_iff Z BZ). rewrite Val.
      assert (P : 0 < 256 ^ N.of_nat d) by (apply N.neq_0_lt_0, N.pow_nonzero; lia).
      split; [intros; nia|intros ->; lia]. }
    rewrite Zero. split.
    - (* re-encodes to itself -> the dropped prefix is zeros *)
      intros E. rewrite pad_is_encode in E.
      set (j := (e - length (b58enc U))%nat) in E.
      assert (D2 : b58dec s = Ok (repeat 0 j ++ U)).
      { rewrite <- E. apply b58_decode_encode. apply bytes_ok_app; split; [apply bytes_ok_repeat0|auto]. }
      assert (E2 : Z ++ U = repeat 0 j ++ U).
      { rewrite D in D2. unfold Ok in D2. injection D2 as D2'. rewrite <- Sp. exact D2'. }
      apply app_inv_tail in E2.
      assert (n = j) by (rewrite <- LZ, E2, repeat_length; reflexivity).
      rewrite E2. f_equal. auto.
    - (* zeros dropped -> Base58 canonicity gives the string back *)
      intros EZ.
      pose proof (Lemmas.Base58.encode_decode alph radix alph_nodup alph_len radix_ge2 s dec D) as C.
      rewrite Sp, EZ in C.
      assert (C' : repeat a0 n ++ b58enc U = s).
      { rewrite <- C. unfold Base58Xmr.b58enc, Base58.encode.
        rewrite lead_count_repeat_plus, be_to_int_zeros, repeat_app, <- app_assoc. reflexivity. }
      unfold Base58Xmr.pad. rewrite <- C'. f_equal. f_equal.
      rewrite <- Hl, <- C', app_length, repeat_length. lia.
  Qed.

  (* ------------------------------------------------------------------------------------------
     The decoder with the block-value check: canonicity, acceptance, error classes; and its
     relation to the decoder of the current code.                                              *)

  Lemma firstn_add {A} a b (l : list A) : firstn (a + b) l = firstn a l ++ firstn b (skipn a l).
  Proof.
    revert l; induction a as [|a IH]; intros l; [reflexivity|].
    destruct l as [|x l]; [simpl; rewrite firstn_nil; reflexivity|]. simpl. f_equal. apply IH.
  Qed.

  Lemma dec_block_spec d e t U : nth_error enc_lens d = Some e -> length t = e -> dec_block d t = Ok U ->
    length U = d /\ bytes_ok U /\ pad e (b58enc U) = t.
  Proof.
    intros He Hl. unfold Base58Xmr.dec_block. destruct (b58dec t) as [dec|] eqn:D; cbn [bind]; [|discriminate].
    rewrite lstrip_check by (apply (b58dec_value _ _ D)).
    destruct (N.ltb_spec (be_to_int dec) (256 ^ N.of_nat d)) as [V|]; cbn [negb]; [|discriminate].
    intros E. assert (EU : U = unpad d dec) by (unfold Ok in E; congruence). subst U. clear E.
    pose proof (block_dec_length _ _ _ _ He Hl D) as Ld.
    destruct (b58dec_value _ _ D) as [BV Bd].
    split; [|split].
    - rewrite (unpad_skipn _ _ Ld), skipn_length. lia.
    - rewrite (unpad_skipn _ _ Ld). apply bytes_ok_skipn; exact Bd.
    - apply (block_canonical_iff t d e dec _ He Hl D BV). exact V.
  Qed.

  Lemma dec_block_err d t e : dec_block d t = Err e -> e = ValueError.
  Proof.
    unfold Base58Xmr.dec_block. destruct (b58dec t) as [dec|e'] eqn:D; cbn [bind].
    - destruct (d <? length (lstrip 0 dec))%nat; [|discriminate]. unfold Err. congruence.
    - intros E. assert (e' = e) by (unfold Err in E; congruence). subst e'.
      eapply Lemmas.Base58.decode_err; exact D.
  Qed.

  Section Generic.
    Variable f : nat -> list N -> res (list N).
    Hypothesis f_err : forall d t e, f d t = Err e -> e = ValueError.

    Lemma dec_blocks_err cnt : forall s e, dec_blocks f cnt s = Err e -> e = ValueError.
    Proof.
      induction cnt as [|c IH]; intros s e; [discriminate|]. cbn [Base58Xmr.dec_blocks].
      destruct (f dec_max (firstn enc_max s)) as [d|e1] eqn:F; cbn [bind].
      - destruct (dec_blocks f c (skipn enc_max s)) as [r|e2] eqn:R; cbn [bind]; [discriminate|].
        intros E. assert (e2 = e) by (unfold Err in E; congruence). subst. eauto.
      - intros E. assert (e1 = e) by (unfold Err in E; congruence). subst. eauto.
    Qed.

    Lemma decode_gen_err s e : decode_gen f s = Err e -> e = ValueError.
    Proof.
      unfold Base58Xmr.decode_gen.
      destruct (index_of_nat _ enc_lens) as [ld|]; cbn [of_option bind Err Ok];
        [|intros E; unfold Err in E; congruence].
      destruct (dec_blocks f _ s) as [full|e1] eqn:F; cbn [bind].
      - destruct (0 <? _)%nat; [|discriminate].
        destruct (f ld _) as [d|e2] eqn:Fl; cbn [bind]; [discriminate|].
        intros E. assert (e2 = e) by (unfold Err in E; congruence). subst. eauto.
      - intros E. assert (e1 = e) by (unfold Err in E; congruence). subst. eapply dec_blocks_err; eauto.
    Qed.
  End Generic.

  Theorem decode_err s e : decode s = Err e -> e = ValueError.
  Proof. apply decode_gen_err. exact dec_block_err. Qed.

  Lemma dec_blocks_canon cnt : forall s b, (cnt * enc_max <= length s)%nat ->
    dec_blocks dec_block cnt s = Ok b ->
    length b = (cnt * dec_max)%nat /\ bytes_ok b /\ enc_blocks cnt b = firstn (cnt * enc_max) s.
  Proof.
    induction cnt as [|c IH]; intros s b Hl.
    - cbn. intros E. assert (b = []) by (unfold Ok in E; congruence). subst. repeat split; constructor.
    - cbn [Base58Xmr.dec_blocks].
      destruct (dec_block dec_max (firstn enc_max s)) as [U|] eqn:D; cbn [bind]; [|discriminate].
      destruct (dec_blocks dec_block c (skipn enc_max s)) as [r|] eqn:R; cbn [bind]; [|discriminate].
      intros E. assert (b = U ++ r) by (unfold Ok in E; congruence). subst b. clear E.
      assert (L1 : length (firstn enc_max s) = enc_max) by (rewrite firstn_length; simpl in Hl; lia).
      destruct (dec_block_spec _ _ _ _ lens_max L1 D) as (LU & BU & PU).
      assert (Hl2 : (c * enc_max <= length (skipn enc_max s))%nat) by (rewrite skipn_length; simpl in Hl; lia).
      destruct (IH _ _ Hl2 R) as (Lr & Br & Er).
      split; [|split].
      + rewrite app_length. simpl. lia.
      + apply bytes_ok_app; auto.
      + cbn [Base58Xmr.enc_blocks].
        rewrite (firstn_app_exact dec_max _ _ LU), (skipn_app_exact dec_max _ _ LU), PU, Er.
        change (S c * enc_max)%nat with (enc_max + c * enc_max)%nat. rewrite firstn_add. reflexivity.
  Qed.

  (* canonicity: every accepted string is the encoding of the bytes it decodes to *)
  Theorem encode_decode s b : decode s = Ok b -> encode b = Ok s /\ bytes_ok b.
  Proof.
    pose proof enc_max_pos as EP. assert (Hem : enc_max <> 0%nat) by lia.
    assert (Hdm : dec_max <> 0%nat) by lia.
    unfold Base58Xmr.decode, Base58Xmr.decode_gen. cbv zeta.
    set (cnt := (length s / enc_max)%nat). set (last := (length s mod enc_max)%nat).
    pose proof (Nat.div_mod (length s) enc_max Hem) as DM. fold cnt last in DM.
    pose proof (Nat.mod_upper_bound (length s) enc_max Hem) as LB. fold last in LB.
    destruct (index_of_nat last enc_lens) as [ld|] eqn:I; cbn [of_option bind Ok Err]; [|discriminate].
    apply index_of_nat_nth in I.
    destruct (dec_blocks dec_block cnt s) as [full|] eqn:F; cbn [bind]; [|discriminate].
    destruct (dec_blocks_canon cnt s full ltac:(lia) F) as (Lf & Bf & Ef).
    destruct (Nat.ltb_spec 0 last) as [Hpos|Hz].
    - set (tl := slice (cnt * enc_max) (cnt * enc_max + last) s).
      destruct (dec_block ld tl) as [U|] eqn:D; cbn [bind]; [|discriminate].
      intros E. assert (b = full ++ U) by (unfold Ok in E; congruence). subst b. clear E.
      assert (Etl : tl = skipn (cnt * enc_max) s).
      { unfold tl, slice. replace (cnt * enc_max + last - cnt * enc_max)%nat with last by lia.
        apply firstn_all2. rewrite skipn_length. lia. }
      assert (Ltl : length tl = last) by (rewrite Etl, skipn_length; lia).
      destruct (dec_block_spec _ _ _ _ I Ltl D) as (LU & BU & PU).
      assert (Hld : (ld < dec_max)%nat).
      { assert (ld < length enc_lens)%nat by (apply nth_error_Some; congruence).
        destruct (Nat.eq_dec ld dec_max) as [->|]; [|lia]. rewrite lens_max in I.
        assert (enc_max = last) by congruence. lia. }
      assert (Hld0 : (0 < ld)%nat).
      { destruct ld; [|lia]. rewrite lens_0 in I. assert (0%nat = last) by congruence. lia. }
      split; [|apply bytes_ok_app; auto].
      unfold Base58Xmr.encode. rewrite app_length, Lf, LU.
      assert (Q : ((cnt * dec_max + ld) / dec_max = cnt)%nat).
      { symmetry. apply (Nat.div_unique _ _ _ ld); lia. }
      assert (R : ((cnt * dec_max + ld) mod dec_max = ld)%nat).
      { symmetry. apply (Nat.mod_unique _ _ cnt ld); lia. }
      rewrite Q, R. destruct (Nat.ltb_spec 0 ld); [|lia].
      rewrite I. cbn [of_option bind Ok].
      rewrite (enc_blocks_prefix cnt full U Lf), Ef.
      unfold slice. rewrite <- Lf, skipn_app_exact by reflexivity.
      replace (length full + ld - length full)%nat with ld by lia.
      rewrite <- LU at 1. rewrite firstn_all, PU, Etl, firstn_skipn. reflexivity.
    - intros E. assert (b = full) by (unfold Ok in E; congruence). subst b. clear E.
      split; [|exact Bf].
      unfold Base58Xmr.encode. rewrite Lf, Nat.div_mul, Nat.mod_mul by lia.
      change (0 <? 0)%nat with false. cbv iota. rewrite Ef.
      rewrite firstn_all2 by lia. reflexivity.
  Qed.

  (* acceptance: the decoder accepts exactly the image of the encoder *)
  Theorem decode_accepts_iff s :
    (exists b, decode s = Ok b) <-> (exists b, bytes_ok b /\ encode b = Ok s).
  Proof.
    split.
    - intros [b D]. exists b. destruct (encode_decode _ _ D); auto.
    - intros (b & Hb & E). destruct (decode_encode b Hb) as (s' & E' & D).
      rewrite E in E'. assert (s = s') by (unfold Ok in E'; congruence). subst s'. eauto.
  Qed.

  (* the encoder is injective (a consequence of the round trip) *)
  Theorem encode_inj b1 b2 s : bytes_ok b1 -> bytes_ok b2 -> encode b1 = Ok s -> encode b2 = Ok s -> b1 = b2.
  Proof.
    intros H1 H2 E1 E2.
    destruct (decode_encode b1 H1) as (s1 & A1 & D1). destruct (decode_encode b2 H2) as (s2 & A2 & D2).
    rewrite E1 in A1. rewrite E2 in A2.
    assert (s = s1) by (unfold Ok in A1; congruence). assert (s = s2) by (unfold Ok in A2; congruence).
    subst s1 s2. rewrite D1 in D2. unfold Ok in D2. congruence.
  Qed.

  (* the length of the text is a function of the length of the data alone: enc_max symbols per full block
     plus the table width of the last, partial block (0 when there is none) *)
  Theorem encode_length b s : bytes_ok b -> encode b = Ok s ->
    exists e, nth_error enc_lens (length b mod dec_max) = Some e /\
      length s = (length b / dec_max * enc_max + e)%nat.
  Proof.
    intros Hb.
    set (cnt := (length b / dec_max)%nat). set (last := (length b mod dec_max)%nat).
    assert (Hdm : dec_max <> 0%nat) by lia.
    pose proof (Nat.div_mod (length b) dec_max Hdm) as DM. fold cnt last in DM.
    pose proof (Nat.mod_upper_bound (length b) dec_max Hdm) as LB. fold last in LB.
    set (hd := firstn (cnt * dec_max) b). set (tl := skipn (cnt * dec_max) b).
    assert (Hsplit : b = hd ++ tl) by (symmetry; apply firstn_skipn).
    assert (Lhd : length hd = (cnt * dec_max)%nat) by (unfold hd; rewrite firstn_length; lia).
    assert (Ltl : length tl = last) by (unfold tl; rewrite skipn_length; lia).
    assert (Bhd : bytes_ok hd) by (apply bytes_ok_firstn; auto).
    assert (Btl : bytes_ok tl) by (apply bytes_ok_skipn; auto).
    assert (Efull : enc_blocks cnt b = enc_blocks cnt hd)
      by (rewrite Hsplit at 1; apply enc_blocks_prefix; exact Lhd).
    pose proof (enc_blocks_length cnt hd Bhd Lhd) as Lfull.
    unfold Base58Xmr.encode. fold cnt last. rewrite Efull.
    destruct (Nat.ltb_spec 0 last) as [Hpos|Hz].
    - destruct (lens_defined last ltac:(lia)) as [e He]. rewrite He. cbn [of_option bind Ok].
      assert (Etl : slice (cnt * dec_max) (cnt * dec_max + last) b = tl).
      { unfold slice. fold tl. replace (cnt * dec_max + last - cnt * dec_max)%nat with last by lia.
        rewrite <- Ltl. apply firstn_all. }
      rewrite Etl. intros E. exists e. split; [reflexivity|].
      destruct (block_roundtrip tl last e Btl Ltl He) as (P & _).
      assert (Es : s = enc_blocks cnt hd ++ pad e (b58enc tl)) by (unfold Ok in E; congruence).
      rewrite Es, app_length, Lfull, P. reflexivity.
    - intros E. exists 0%nat. assert (last = 0%nat) by lia.
      split; [replace last with 0%nat by lia; exact lens_0|].
      assert (Es : s = enc_blocks cnt hd) by (unfold Ok in E; congruence).
      rewrite Es, Lfull. lia.
  Qed.
End XmrProofs.

(* Proofs about Model/WifCodec.v (C13, WIF part). *)
From Coq Require Import NArith Arith List Lia Bool.
From BU Require Import Base.Exn Base.Radix Base.Bytes Gen.SerbipConsts Model.Base58 Model.WifCodec.
From BU Require Import Lemmas.Base58 Lemmas.SerbipAux Lemmas.SerbipConstsOk.
Import ListNotations.
Open Scope N_scope.

Lemma secp_priv_valid_spec k : secp_priv_valid k = true <->
  length k = 32%nat /\ 0 < be_to_int k /\ be_to_int k < secp256k1_order.
Proof.
  unfold secp_priv_valid. rewrite !andb_true_iff, Nat.eqb_eq, !N.ltb_lt, c_ecdsa_priv_len. tauto.
Qed.

Lemma secp_priv_valid_len k : secp_priv_valid k = true -> length k = 32%nat.
Proof. intros H. apply secp_priv_valid_spec in H. tauto. Qed.

Lemma secp_priv_valid_wrong_len k : length k <> 32%nat -> secp_priv_valid k = false.
Proof.
  intros H. destruct (secp_priv_valid k) eqn:E; [|reflexivity]. apply secp_priv_valid_len in E. contradiction.
Qed.

Lemma fixed32 v : v < secp256k1_order -> exists b, int_to_be_fixed 32 v = Ok b /\ length b = 32%nat /\
  bytes_ok b /\ be_to_int b = v.
Proof.
  intros H. destruct (int_to_be_fixed_fits 32 v) as [b E].
  { pose proof c_order_lt. change (N.of_nat 32) with 32. lia. }
  exists b. apply int_to_be_fixed_ok in E as H'. tauto.
Qed.

Lemma nth_error_last {A} (l : list A) x : nth_error (l ++ [x]) (length (l ++ [x]) - 1) = Some x.
Proof.
  rewrite app_length. cbn [length]. replace (length l + 1 - 1)%nat with (length l) by lia.
  rewrite nth_error_app2 by lia. rewrite Nat.sub_diag. reflexivity.
Qed.

Lemma drop_last_1_snoc l (x : N) : drop_last 1 (l ++ [x]) = l.
Proof. apply (drop_last_app' 1 l [x]). reflexivity. Qed.

Lemma snoc_of_last (k : list N) x : nth_error k (length k - 1) = Some x -> k = drop_last 1 k ++ [x].
Proof.
  intros H. assert (L : (0 < length k)%nat).
  { destruct k; [discriminate|cbn; lia]. }
  rewrite <- (drop_take_last 1 k) at 1. f_equal. unfold take_last.
  rewrite (slice_split (length k - 1) (length k) k) by lia.
  replace (length k) with (S (length k - 1)) at 2 by lia. rewrite (slice_nth _ _ _ H).
  rewrite skipn_all. reflexivity.
Qed.

Section WifProofs.
  Set Default Proof Using "All".
  Variable alph : list N.
  Variable radix : N.
  Variable cklen : nat.
  Variable sha256 : list N -> list N.

  Hypothesis alph_nodup : NoDup alph.
  Hypothesis alph_len : length alph = N.to_nat radix.
  Hypothesis radix_ge2 : 2 <= radix.
  Hypothesis sha_len : forall x, length (sha256 x) = 32%nat.
  Hypothesis sha_ok : forall x, bytes_ok (sha256 x).
  Hypothesis cklen_le : (cklen <= 32)%nat.

  Notation check_encode := (check_encode alph radix cklen sha256).
  Notation check_decode := (check_decode alph radix cklen sha256).
  Notation wif_encode := (wif_encode alph radix cklen sha256).
  Notation wif_decode := (wif_decode alph radix cklen sha256).

  Let cd_enc := check_decode_encode alph radix cklen sha256 alph_nodup alph_len radix_ge2 sha_len sha_ok cklen_le.
  Let cd_iff := check_decode_ok_iff alph radix cklen sha256.
  Let cd_err := check_decode_err alph radix cklen sha256.
  Let ce_dec := check_encode_decode alph radix cklen sha256 alph_nodup alph_len radix_ge2.

  Definition wif_payload (v : N) (key : list N) (compressed : bool) : list N :=
    [v] ++ (if compressed then key ++ [wif_compr_suffix] else key).

  (* layout: version byte || key || optional 0x01, Base58Check *)
  Theorem wif_encode_layout key v c : secp_priv_valid key = true ->
    wif_encode key [v] c = Ok (check_encode (wif_payload v key c)).
  Proof using Type. intros H. unfold WifCodec.wif_encode. rewrite H. destruct c; reflexivity. Qed.

  Theorem wif_encode_invalid key nv c : secp_priv_valid key = false -> wif_encode key nv c = Err ValueError.
  Proof using Type. intros H. unfold WifCodec.wif_encode. rewrite H. reflexivity. Qed.

  (* the decoder on a decoded payload *)
  Lemma wif_decode_payload v key c : secp_priv_valid key = true ->
    (if (length (wif_payload v key c) =? 0)%nat then Err ValueError else
     b0 <- of_option (nth_error (wif_payload v key c) 0) IndexError ;;
     nv <- ord1 [v] ;;
     if negb (b0 =? nv) then Err ValueError else
     let k := skipn 1 (wif_payload v key c) in
     if secp_priv_valid (drop_last 1 k) then
       last <- of_option (nth_error k (length k - 1)) IndexError ;;
       if negb (last =? wif_compr_suffix) then Err ValueError else Ok (drop_last 1 k, true)
     else if secp_priv_valid k then Ok (k, false) else Err ValueError) = Ok (key, c).
  Proof.
    intros H. unfold wif_payload. cbn [app length Nat.eqb nth_error of_option bind Ok ord1 skipn].
    rewrite N.eqb_refl. cbn [negb]. destruct c.
    - rewrite drop_last_1_snoc, H, nth_error_last. cbn [of_option bind Ok]. rewrite N.eqb_refl. reflexivity.
    - rewrite secp_priv_valid_wrong_len.
      2:{ unfold drop_last. rewrite firstn_length. apply secp_priv_valid_len in H. lia. }
      rewrite H. reflexivity.
  Qed.

  Theorem wif_roundtrip key v c : secp_priv_valid key = true -> bytes_ok key -> v < 256 ->
    exists s, wif_encode key [v] c = Ok s /\ wif_decode s [v] = Ok (key, c).
  Proof.
    intros H Hk Hv. exists (check_encode (wif_payload v key c)). split; [apply wif_encode_layout; auto|].
    unfold WifCodec.wif_decode. cbn [length Nat.eqb negb]. rewrite cd_enc.
    2:{ unfold wif_payload. constructor; auto. destruct c; auto. apply bytes_ok_app. split; auto.
        constructor; [rewrite c_wif_suffix; lia|constructor]. }
    cbn [bind Ok]. apply wif_decode_payload. exact H.
  Qed.

  (* every accepted string is the encoding of what it decodes to; the compressed flag is decided by
     whether the payload after the version byte is a valid key followed by 0x01 (34 bytes) or a valid key (33) *)
  Theorem wif_decode_unambiguous s v key c : wif_decode s [v] = Ok (key, c) ->
    secp_priv_valid key = true /\ check_decode s = Ok (wif_payload v key c) /\ wif_encode key [v] c = Ok s.
  Proof.
    unfold WifCodec.wif_decode. cbn [length Nat.eqb negb].
    destruct (check_decode s) as [dec|] eqn:D; cbn [bind Ok]; [|discriminate].
    destruct dec as [|b0 k]; cbn [length Nat.eqb nth_error of_option bind Ok ord1 skipn]; [discriminate|].
    destruct (N.eqb_spec b0 v) as [->|]; cbn [negb]; [|discriminate].
    assert (Enc : forall p, check_decode s = Ok p -> p <> [] -> check_encode p = s).
    { intros p Dp Hne. apply ce_dec; auto. intros dec0 Hd. apply cd_iff in Dp. destruct Dp as (dec' & D' & -> & _).
      rewrite Hd in D'. inversion D'; subst dec'. unfold drop_last in Hne.
      destruct (Nat.le_gt_cases cklen (length dec0)); [auto|].
      exfalso. apply Hne. replace (length dec0 - cklen)%nat with 0%nat by lia. reflexivity. }
    destruct (secp_priv_valid (drop_last 1 k)) eqn:V1.
    - destruct (nth_error k (length k - 1)) as [last|] eqn:NL; cbn [of_option bind Ok]; [|discriminate].
      destruct (N.eqb_spec last wif_compr_suffix) as [->|]; cbn [negb]; [|discriminate].
      intros E; inversion E; subst key c; clear E.
      pose proof (snoc_of_last k _ NL) as Ek.
      assert (P : v :: k = wif_payload v (drop_last 1 k) true) by (unfold wif_payload; cbn [app]; congruence).
      split; [exact V1|]. rewrite <- P. split; [reflexivity|].
      rewrite wif_encode_layout by auto. rewrite <- P. f_equal. apply Enc; [exact D|discriminate].
    - destruct (secp_priv_valid k) eqn:V2; [|discriminate].
      intros E; inversion E; subst key c; clear E.
      split; [exact V2|]. split; [reflexivity|]. rewrite wif_encode_layout by auto. unfold wif_payload. cbn [app].
      f_equal. apply Enc; [exact D|discriminate].
  Qed.

  (* nothing but the two documented classes escapes, whatever the version argument *)
  Theorem wif_decode_errors_any s nv e : wif_decode s nv = Err e -> e = ValueError \/ e = LibError Base58ChecksumError.
  Proof.
    unfold WifCodec.wif_decode.
    destruct nv as [|v [|? ?]]; cbn [length Nat.eqb negb]; try solve [intros E; inversion E; auto].
    destruct (check_decode s) as [dec|e'] eqn:D; cbn [bind Ok].
    2:{ intros E; inversion E; subst. eapply cd_err; eauto. }
    destruct dec as [|b0 k]; cbn [length Nat.eqb nth_error of_option bind Ok ord1 skipn].
    { intros E; inversion E; auto. }
    destruct (negb (b0 =? v)); [intros E; inversion E; auto|].
    destruct (secp_priv_valid (drop_last 1 k)) eqn:V1.
    - apply secp_priv_valid_len in V1. unfold drop_last in V1. rewrite firstn_length in V1.
      destruct (nth_error k (length k - 1)) as [last|] eqn:NL; cbn [of_option bind Ok].
      + destruct (negb (last =? wif_compr_suffix)); intros E; inversion E; auto.
      + apply nth_error_None in NL. lia.
    - destruct (secp_priv_valid k); intros E; inversion E; auto.
  Qed.

  Theorem wif_decode_errors s v e : wif_decode s [v] = Err e -> e = ValueError \/ e = LibError Base58ChecksumError.
  Proof. apply wif_decode_errors_any. Qed.

  (* the version argument must be a single byte: anything else is rejected with ValueError before decoding *)
  Theorem wif_decode_bad_version_arg s nv : length nv <> 1%nat -> wif_decode s nv = Err ValueError.
  Proof using Type.
    intros L. unfold WifCodec.wif_decode. destruct nv as [|a [|b t]]; cbn [length Nat.eqb negb]; try reflexivity.
    exfalso; apply L; reflexivity.
  Qed.
End WifProofs.

(* Facts about Model/Bech32Str.v: rfind, and the case tables regenerated from the interpreter
   (Gen/CaseTables.v).  Statements over the whole code space are decided by a sweep over the table itself. *)
From Coq Require Import NArith Arith List Lia Bool.
From BU Require Import Base.Exn Base.Bytes Gen.CaseTables Model.Bech32Str.
Import ListNotations.
Open Scope N_scope.

(* ---- rfind *)
Lemma rfind_none c l : rfind c l = None <-> ~ In c l.
Proof.
  induction l as [|x t IH]; simpl; [tauto|].
  destruct (rfind c t) as [i|].
  - split; [discriminate|]. intros H. exfalso. apply H. right.
    destruct (in_dec N.eq_dec c t) as [|Hn]; [assumption|]. apply IH in Hn. discriminate.
  - destruct (N.eqb_spec x c) as [->|Hn].
    + split; [discriminate|]. intros H. exfalso. apply H. auto.
    + split; [|reflexivity]. intros _ [E|I]; [congruence|]. apply IH in I; auto.
Qed.

Lemma rfind_some c l : forall i, rfind c l = Some i ->
  exists a b, l = a ++ c :: b /\ ~ In c b /\ length a = i.
Proof.
  induction l as [|x t IH]; intros i E; [discriminate|]. simpl in E.
  destruct (rfind c t) as [j|] eqn:R.
  - inversion E; subst. destruct (IH j eq_refl) as (a & b & -> & Hb & <-).
    exists (x :: a), b. auto.
  - destruct (N.eqb_spec x c) as [->|]; [|discriminate]. inversion E; subst.
    exists [], t. split; [reflexivity|]. split; [apply rfind_none; assumption|reflexivity].
Qed.

Lemma rfind_app c a b : ~ In c b -> rfind c (a ++ c :: b) = Some (length a).
Proof.
  intros Hb. induction a as [|x a IH]; simpl.
  - apply rfind_none in Hb. rewrite Hb, N.eqb_refl. reflexivity.
  - rewrite IH. reflexivity.
Qed.

Lemma firstn_app_exact {A} (a b : list A) : firstn (length a) (a ++ b) = a.
Proof. rewrite firstn_app, Nat.sub_diag, firstn_all. simpl. apply app_nil_r. Qed.

Lemma skipn_app_exact {A} (a : list A) x b : skipn (S (length a)) (a ++ x :: b) = b.
Proof. induction a; simpl in *; auto. Qed.

(* ---- assoc *)
Lemma assoc_in c t v : assoc c t = Some v -> In (c, v) t.
Proof.
  induction t as [|[k w] r IH]; simpl; [discriminate|].
  destruct (N.eqb_spec k c) as [->|]; [intros E; inversion E; auto|auto].
Qed.

(* ---- ASCII: every code point below 128 other than A-Z is its own lower case and is not upper case *)
Definition stableb (c : N) : bool := list_eqb (lower_cp c) [c] && negb (is_upper c).

Lemma ascii_sweep :
  forallb (fun c => ((65 <=? c) && (c <=? 90)) || stableb c) (map N.of_nat (seq 0 128)) = true.
Proof. vm_compute. reflexivity. Qed.

Lemma ascii_stable c : c < 128 -> ~ (65 <= c <= 90) -> lower_cp c = [c] /\ is_upper c = false.
Proof.
  intros Hc Hn. pose proof ascii_sweep as S. rewrite forallb_forall in S.
  specialize (S c). assert (I : In c (map N.of_nat (seq 0 128))).
  { apply in_map_iff. exists (N.to_nat c). split; [apply Nnat.N2Nat.id|]. apply in_seq. lia. }
  specialize (S I). apply orb_true_iff in S. destruct S as [S|S].
  - apply andb_true_iff in S. destruct S as [S1 S2]. apply N.leb_le in S1, S2. tauto.
  - unfold stableb in S. apply andb_true_iff in S. destruct S as [S1 S2].
    apply list_eqb_spec in S1. apply negb_true_iff in S2. auto.
Qed.

Definition stable (c : N) : Prop := lower_cp c = [c] /\ is_upper c = false.

Lemma py_lower_stable s : Forall stable s -> py_lower s = s.
Proof.
  induction 1 as [|c s [Hc _] Hs IH]; [reflexivity|]. unfold py_lower in *. cbn [flat_map].
  rewrite Hc, IH. reflexivity.
Qed.

Lemma not_mixed_stable s : Forall stable s -> is_string_mixed s = false.
Proof.
  intros H. unfold is_string_mixed. apply andb_false_iff. right.
  induction H as [|c s [_ Hc] Hs IH]; [reflexivity|]. cbn [existsb]. rewrite Hc, IH. reflexivity.
Qed.

(* ---- the whole code space: which code points lower-case into pure ASCII?  Only ASCII ones and
        U+212A KELVIN SIGN (decided on the interpreter's table; U+0130 gives 'i' + U+0307). *)
Definition kelvin_sign : N := 8490.

Lemma lower_table_ascii_sweep :
  forallb (fun p => (fst p <? 128) || (fst p =? kelvin_sign) || negb (forallb (fun x => x <? 128) (snd p)))
          lower_table = true.
Proof. vm_compute. reflexivity. Qed.

Theorem lower_into_ascii c : Forall (fun x => x < 128) (lower_cp c) -> c < 128 \/ c = kelvin_sign.
Proof.
  unfold lower_cp. destruct (assoc c lower_table) as [img|] eqn:A.
  - intros H. apply assoc_in in A. pose proof lower_table_ascii_sweep as S. rewrite forallb_forall in S.
    specialize (S _ A). cbn [fst snd] in S. apply orb_true_iff in S. destruct S as [S|S].
    + apply orb_true_iff in S. destruct S as [S|S]; [left; apply N.ltb_lt; assumption|right; apply N.eqb_eq; assumption].
    + exfalso. apply negb_true_iff in S. assert (T : forallb (fun x => x <? 128) img = true); [|congruence].
      apply forallb_forall. intros x Hx. apply N.ltb_lt. rewrite Forall_forall in H. auto.
  - intros H. inversion H; auto.
Qed.

Lemma py_lower_ascii s : Forall (fun x => x < 128) (py_lower s) ->
  Forall (fun c => c < 128 \/ c = kelvin_sign) s.
Proof.
  induction s as [|c s IH]; intros H; constructor; unfold py_lower in H; cbn [flat_map] in H;
    apply Forall_app in H; destruct H as [H1 H2]; [apply lower_into_ascii; assumption|auto].
Qed.

Lemma kelvin_lower : lower_cp kelvin_sign = [107] /\ is_upper kelvin_sign = true /\ is_lower kelvin_sign = false.
Proof. vm_compute. auto. Qed.

(* Proofs about Model/Bip38.v (C13). *)
From Coq Require Import NArith ZArith Arith List Lia Bool.
From BU Require Import Base.Exn Base.Radix Base.Bytes Gen.SerbipConsts Model.Base58 Model.WifCodec Model.Bip38.
From BU Require Import Lemmas.Base58 Lemmas.SerbipAux Lemmas.SerbipConstsOk Lemmas.WifCodec.
Import ListNotations.
Open Scope N_scope.

(* ---------------------------------------------------------------- xor *)
Lemma xor_length a : forall b, length (xor_bytes a b) = Nat.min (length a) (length b).
Proof. induction a as [|x a IH]; intros [|y b]; cbn [xor_bytes length Nat.min]; auto. Qed.

Lemma xor_involutive a : forall b, (length a <= length b)%nat -> xor_bytes (xor_bytes a b) b = a.
Proof.
  induction a as [|x a IH]; intros [|y b] L; cbn [xor_bytes length] in *; auto; try lia.
  rewrite IH by lia. f_equal. rewrite N.lxor_assoc, N.lxor_nilpotent, N.lxor_0_r. reflexivity.
Qed.

Lemma xor_app a : forall a' b b', length a = length b ->
  xor_bytes (a ++ a') (b ++ b') = xor_bytes a b ++ xor_bytes a' b'.
Proof.
  induction a as [|x a IH]; intros a' [|y b] b' L; cbn [length] in L; try discriminate; [reflexivity|].
  cbn [app xor_bytes]. f_equal. apply IH. lia.
Qed.

(* ---------------------------------------------------------------- field splitting of 39-byte payloads *)
Lemma split_2_3_7_23 (b : list N) :
  b = slice 0 2 b ++ slice 2 3 b ++ slice 3 7 b ++ slice 7 23 b ++ skipn 23 b.
Proof.
  transitivity (slice 0 2 b ++ skipn 2 b); [apply (slice_split 0 2 b); lia|]. f_equal.
  transitivity (slice 2 3 b ++ skipn 3 b); [apply slice_split; lia|]. f_equal.
  transitivity (slice 3 7 b ++ skipn 7 b); [apply slice_split; lia|]. f_equal.
  apply slice_split; lia.
Qed.

Lemma fields_2_3_7_23 p f a e1 e2 (b : list N) : b = p ++ [f] ++ a ++ e1 ++ e2 ->
  length p = 2%nat -> length a = 4%nat -> length e1 = 16%nat -> length e2 = 16%nat ->
  slice 0 2 b = p /\ nth_error b 2 = Some f /\ slice 3 7 b = a /\ slice 7 23 b = e1 /\ skipn 23 b = e2.
Proof.
  intros E Lp La L1 L2.
  assert (L : length b = 39%nat) by (subst b; rewrite !app_length; cbn [length]; lia).
  pose proof (split_2_3_7_23 b) as S. rewrite E in S at 1.
  apply app_inj_len in S; [destruct S as [S1 S]|rewrite slice_length; lia].
  apply app_inj_len in S; [destruct S as [S2 S]|rewrite slice_length; cbn; lia].
  apply app_inj_len in S; [destruct S as [S3 S]|rewrite slice_length; lia].
  apply app_inj_len in S; [destruct S as [S4 S]|rewrite slice_length; lia].
  repeat split; try (symmetry; assumption).
  subst b. rewrite nth_error_app2 by lia. rewrite Lp. reflexivity.
Qed.

Section Bip38NoEc.
  Set Default Proof Using "All".
  Variable alph : list N.
  Variable radix : N.
  Variable cklen : nat.
  Variable sha256 : list N -> list N.
  Variable nfc : list N -> list N.
  Variable utf8 : list N -> res (list N).
  Variable scrypt : list N -> list N -> N -> N -> N -> N -> list N.
  Variable aes_enc aes_dec : list N -> list N -> list N.
  Variable G : Type.
  Variable base : G.
  Variable smul : N -> G -> G.
  Variable p2pkh : G -> bool -> list N.

  Hypothesis alph_nodup : NoDup alph.
  Hypothesis alph_len : length alph = N.to_nat radix.
  Hypothesis radix_ge2 : 2 <= radix.
  Hypothesis sha_len : forall x, length (sha256 x) = 32%nat.
  Hypothesis sha_ok : forall x, bytes_ok (sha256 x).
  Hypothesis cklen_le : (cklen <= 32)%nat.
  Hypothesis scrypt_len : forall pw salt n r p dk, length (scrypt pw salt n r p dk) = N.to_nat dk.
  Hypothesis aes_dec_enc : forall k b, length b = 16%nat -> aes_dec k (aes_enc k b) = b.
  Hypothesis aes_enc_len : forall k b, length b = 16%nat -> length (aes_enc k b) = 16%nat.
  Hypothesis aes_enc_ok : forall k b, bytes_ok (aes_enc k b).

  Notation b58c_enc := (check_encode alph radix cklen sha256).
  Notation b58c_dec := (check_decode alph radix cklen sha256).
  Notation noec_encrypt := (noec_encrypt alph radix cklen sha256 nfc utf8 scrypt aes_enc G base smul p2pkh).
  Notation noec_decrypt := (noec_decrypt alph radix cklen sha256 nfc utf8 scrypt aes_dec G base smul p2pkh).
  Notation address_hash := (address_hash sha256 G p2pkh).

  Let cd_enc := check_decode_encode alph radix cklen sha256 alph_nodup alph_len radix_ge2 sha_len sha_ok cklen_le.
  Let cd_err := check_decode_err alph radix cklen sha256.

  (* the standard's quantities *)
  Definition std_halves (pw ah : list N) : list N * list N :=
    let K := scrypt pw ah 16384 8 8 64 in (firstn 32 K, skipn 32 K).
  Definition std_flag (compressed : bool) : N := if compressed then 224 else 192.      (* 0xe0 / 0xc0 *)
  Definition std_noec_payload (key pw : list N) (ah : list N) (compressed : bool) : list N :=
    let '(dh1, dh2) := std_halves pw ah in
    [1; 66] ++ [std_flag compressed] ++ ah ++
    aes_enc dh2 (xor_bytes (firstn 16 key) (firstn 16 dh1)) ++
    aes_enc dh2 (xor_bytes (skipn 16 key) (skipn 16 dh1)).

  Lemma address_hash_len P c : length (address_hash P c) = 4%nat.
  Proof. unfold Bip38.address_hash, dsha. rewrite firstn_length, sha_len, c_addr_hash_len. reflexivity. Qed.
  Lemma address_hash_ok P c : bytes_ok (address_hash P c).
  Proof. unfold Bip38.address_hash, dsha. apply bytes_ok_firstn, sha_ok. Qed.

  Lemma noec_halves_std pass pw ah : utf8 (nfc pass) = Ok pw ->
    noec_halves nfc utf8 scrypt pass ah = Ok (std_halves pw ah).
  Proof. intros U. unfold noec_halves. rewrite U. reflexivity. Qed.

  Lemma std_halves_len pw ah : length (fst (std_halves pw ah)) = 32%nat /\ length (snd (std_halves pw ah)) = 32%nat.
  Proof.
    unfold std_halves. cbn [fst snd]. rewrite firstn_length, skipn_length, scrypt_len.
    change (N.to_nat 64) with 64%nat. split; reflexivity.
  Qed.

  (* noec_layout: prefix 0142, flag e0/c0, address hash, two AES blocks of key xor derivedhalf1 under derivedhalf2 *)
  Theorem noec_layout key pass pw c : secp_priv_valid key = true -> utf8 (nfc pass) = Ok pw ->
    noec_encrypt key pass c =
      Ok (b58c_enc (std_noec_payload key pw (address_hash (smul (be_to_int key) base) c) c)).
  Proof.
    intros V U. unfold Bip38.noec_encrypt, pub_of_priv. rewrite V. cbn [bind Ok].
    rewrite (noec_halves_std _ _ _ U). cbn [bind Ok]. unfold std_noec_payload.
    destruct (std_halves pw _) as [dh1 dh2]. destruct c; reflexivity.
  Qed.

  Lemma std_noec_payload_fields key pw ah c : length key = 32%nat -> length ah = 4%nat ->
    exists e1 e2, std_noec_payload key pw ah c = [1; 66] ++ [std_flag c] ++ ah ++ e1 ++ e2 /\
      length e1 = 16%nat /\ length e2 = 16%nat /\ bytes_ok e1 /\ bytes_ok e2 /\
      let '(dh1, dh2) := std_halves pw ah in
      xor_bytes (aes_dec dh2 e1 ++ aes_dec dh2 e2) dh1 = key.
  Proof.
    intros Lk La. unfold std_noec_payload. destruct (std_halves_len pw ah) as [L1 L2].
    destruct (std_halves pw ah) as [dh1 dh2]. cbn [fst snd] in L1, L2.
    assert (X1 : length (xor_bytes (firstn 16 key) (firstn 16 dh1)) = 16%nat)
      by (rewrite xor_length, !firstn_length; lia).
    assert (X2 : length (xor_bytes (skipn 16 key) (skipn 16 dh1)) = 16%nat)
      by (rewrite xor_length, !skipn_length; lia).
    eexists; eexists. split; [reflexivity|].
    repeat split; auto.
    rewrite !aes_dec_enc by auto.
    rewrite <- (firstn_skipn 16 dh1) at 3. rewrite xor_app by (rewrite X1, firstn_length; lia).
    rewrite !xor_involutive by (rewrite ?firstn_length, ?skipn_length; lia).
    apply firstn_skipn.
  Qed.

  Lemma std_flag_lt c : std_flag c < 256.
  Proof. destruct c; cbn; lia. Qed.

  Theorem noec_decrypt_encrypt key pass pw c :
    secp_priv_valid key = true -> bytes_ok key -> utf8 (nfc pass) = Ok pw ->
    exists s, noec_encrypt key pass c = Ok s /\ noec_decrypt s pass = Ok (key, c).
  Proof.
    intros V Hk U. pose proof (secp_priv_valid_len _ V) as Lk.
    set (P := smul (be_to_int key) base). set (ah := address_hash P c).
    exists (b58c_enc (std_noec_payload key pw ah c)). split; [apply noec_layout; auto|].
    pose proof (address_hash_len P c) as La. fold ah in La.
    destruct (std_noec_payload_fields key pw ah c Lk La) as (e1 & e2 & Ep & L1 & L2 & B1 & B2 & Hx).
    unfold Bip38.noec_decrypt, Bip38.b58c_dec. rewrite cd_enc.
    2:{ rewrite Ep. repeat (apply bytes_ok_app; split); auto.
        - repeat constructor; lia.
        - constructor; [apply std_flag_lt|constructor].
        - apply address_hash_ok. }
    cbn [bind Ok].
    destruct (fields_2_3_7_23 [1; 66] (std_flag c) ah e1 e2 _ Ep) as (F1 & F2 & F3 & F4 & F5); auto.
    assert (L39 : length (std_noec_payload key pw ah c) = 39%nat).
    { rewrite Ep, !app_length, La, L1, L2. reflexivity. }
    rewrite L39, c_noec_enc_len. cbn [Nat.eqb negb].
    change (sl bip38_noec_dec_slices 0 (std_noec_payload key pw ah c)) with (slice 0 2 (std_noec_payload key pw ah c)).
    change (sl bip38_noec_dec_slices 2 (std_noec_payload key pw ah c)) with (slice 3 7 (std_noec_payload key pw ah c)).
    change (sl bip38_noec_dec_slices 3 (std_noec_payload key pw ah c)) with (slice 7 23 (std_noec_payload key pw ah c)).
    change (sl bip38_noec_dec_slices 4 (std_noec_payload key pw ah c)) with (skipn 23 (std_noec_payload key pw ah c)).
    change (fst (nth 1 bip38_noec_dec_slices (0%nat, 0%nat))) with 2%nat.
    rewrite F1, F2, F3, F4, F5. cbn [of_option bind Ok].
    rewrite c_noec_prefix, list_eqb_refl. cbn [negb].
    destruct c_noec_flags as [Fc Fu]. rewrite Fc, Fu.
    assert (FL : (std_flag c =? 224) || (std_flag c =? 192) = true) by (destruct c; reflexivity).
    rewrite FL. cbn [negb].
    rewrite (noec_halves_std _ _ _ U). cbn [bind Ok].
    destruct (std_halves pw ah) as [dh1 dh2]. rewrite Hx.
    unfold pub_of_priv. rewrite V. cbn [bind Ok].
    assert (FC : (std_flag c =? 224) = c) by (destruct c; reflexivity). rewrite FC.
    fold P. fold ah. rewrite list_eqb_refl. reflexivity.
  Qed.

  (* noec_wrong_input_iff: for ANY checksum-valid 39-byte payload with the right prefix and flag and ANY
     passphrase, the decrypter recomputes key := (AES^-1 halves) xor derivedhalf1 and accepts exactly when that
     key is valid and the address hash of its public key (in the flagged mode) equals the embedded one *)
  Theorem noec_accept_iff b pass pw : bytes_ok b -> length b = 39%nat ->
    slice 0 2 b = [1; 66] -> (nth 2 b 0 = 224 \/ nth 2 b 0 = 192) -> utf8 (nfc pass) = Ok pw ->
    let ah := slice 3 7 b in
    let '(dh1, dh2) := std_halves pw ah in
    let key := xor_bytes (aes_dec dh2 (slice 7 23 b) ++ aes_dec dh2 (skipn 23 b)) dh1 in
    let c := nth 2 b 0 =? 224 in
    noec_decrypt (b58c_enc b) pass =
      if secp_priv_valid key && list_eqb ah (address_hash (smul (be_to_int key) base) c)
      then Ok (key, c) else Err ValueError.
  Proof.
    intros Hb L Hp Hf U. cbv zeta.
    destruct (std_halves pw (slice 3 7 b)) as [dh1 dh2] eqn:EH.
    unfold Bip38.noec_decrypt, Bip38.b58c_dec. rewrite cd_enc by auto. cbn [bind Ok].
    rewrite L, c_noec_enc_len. cbn [Nat.eqb negb].
    change (sl bip38_noec_dec_slices 0 b) with (slice 0 2 b).
    change (sl bip38_noec_dec_slices 2 b) with (slice 3 7 b).
    change (sl bip38_noec_dec_slices 3 b) with (slice 7 23 b).
    change (sl bip38_noec_dec_slices 4 b) with (skipn 23 b).
    change (fst (nth 1 bip38_noec_dec_slices (0%nat, 0%nat))) with 2%nat.
    assert (N2 : nth_error b 2 = Some (nth 2 b 0)) by (apply nth_error_nth'; lia).
    rewrite N2. cbn [of_option bind Ok]. rewrite Hp, c_noec_prefix, list_eqb_refl. cbn [negb].
    destruct c_noec_flags as [Fc Fu]. rewrite Fc, Fu.
    assert (FL : (nth 2 b 0 =? 224) || (nth 2 b 0 =? 192) = true).
    { destruct Hf as [E | E]; rewrite E; reflexivity. }
    rewrite FL. cbn [negb]. rewrite (noec_halves_std _ _ _ U), EH. cbn [bind Ok].
    unfold pub_of_priv.
    destruct (secp_priv_valid _); cbn [bind Ok andb]; [|reflexivity].
    destruct (list_eqb _ _); reflexivity.
  Qed.

  (* a passphrase that cannot be encoded (lone surrogates) is a ValueError subclass on both sides *)
  Theorem noec_errors enc pass e : noec_decrypt enc pass = Err e ->
    e = ValueError \/ e = LibError Base58ChecksumError \/ (exists e', utf8 (nfc pass) = Err e' /\ e = e').
  Proof.
    unfold Bip38.noec_decrypt, Bip38.b58c_dec. destruct (b58c_dec enc) as [b|e'] eqn:D; cbn [bind Ok].
    2:{ intros E. assert (He : e = e') by (unfold Err in E; congruence). subst e.
        destruct (cd_err _ _ D) as [X|X]; rewrite X; auto. }
    rewrite c_noec_enc_len. destruct (Nat.eqb_spec (length b) 39) as [L|L]; cbn [negb]; [|intros E; inversion E; auto].
    change (fst (nth 1 bip38_noec_dec_slices (0%nat, 0%nat))) with 2%nat.
    assert (N2 : nth_error b 2 = Some (nth 2 b 0)) by (apply nth_error_nth'; lia).
    rewrite N2. cbn [of_option bind Ok].
    destruct (negb (list_eqb _ _)); [intros E; inversion E; auto|].
    destruct (negb (_ || _)); [intros E; inversion E; auto|].
    unfold noec_halves. destruct (utf8 (nfc pass)) as [pw|eu] eqn:U; cbn [bind Ok].
    2:{ intros E. assert (He : e = eu) by (unfold Err in E; congruence). subst e.
        right; right. exists eu. split; reflexivity. }
    unfold pub_of_priv. destruct (secp_priv_valid _); cbn [bind Ok]; [|intros E; inversion E; auto].
    destruct (negb (list_eqb _ _)); intros E; inversion E; auto.
  Qed.
End Bip38NoEc.

(* ---------------------------------------------------------------- lot / sequence packing, flag byte *)
Lemma lot_seq_max_fits : (1048575 * 4096 + 4095 = 4294967295)%Z.
Proof. reflexivity. Qed.

Theorem lot_seq_packing lot seq salt : (0 <= lot < 1048576)%Z -> (0 <= seq < 4096)%Z ->
  owner_entropy_lotseq lot seq salt = Ok (salt ++ be32 (Z.to_N (lot * 4096 + seq))) /\
  Z.to_N (lot * 4096 + seq) < 4294967296 /\
  (Z.of_N (Z.to_N (lot * 4096 + seq)) / 4096 = lot)%Z /\ (Z.of_N (Z.to_N (lot * 4096 + seq)) mod 4096 = seq)%Z.
Proof.
  intros Hl Hs. destruct c_ec_lot_seq as (A & B & C & D & E & _).
  unfold owner_entropy_lotseq. rewrite A, B, C, D, E.
  destruct (Z.ltb_spec lot 0); [lia|]. destruct (Z.ltb_spec 1048575 lot); [lia|].
  destruct (Z.ltb_spec seq 0); [lia|]. destruct (Z.ltb_spec 4095 seq); [lia|]. cbn [orb].
  change (4095 + 1)%Z with 4096%Z.
  assert (R : Z.to_N (lot * 4096 + seq) < 4294967296) by lia.
  rewrite int_to_be_fixed_be32 by exact R. split; [reflexivity|]. split; [exact R|].
  rewrite Z2N.id by lia. split.
  - replace (lot * 4096 + seq)%Z with (seq + lot * 4096)%Z by lia.
    rewrite Z.div_add by lia. rewrite Z.div_small by lia. lia.
  - replace (lot * 4096 + seq)%Z with (seq + lot * 4096)%Z by lia.
    rewrite Z.mod_add by lia. apply Z.mod_small. lia.
Qed.

Theorem lot_seq_rejected lot seq salt : ~ ((0 <= lot < 1048576)%Z /\ (0 <= seq < 4096)%Z) ->
  owner_entropy_lotseq lot seq salt = Err ValueError.
Proof.
  intros H. destruct c_ec_lot_seq as (A & B & C & D & E & _).
  unfold owner_entropy_lotseq. rewrite A, B, C, D.
  destruct (Z.ltb_spec lot 0); [reflexivity|]. destruct (Z.ltb_spec 1048575 lot); [reflexivity|].
  destruct (Z.ltb_spec seq 0); [reflexivity|]. destruct (Z.ltb_spec 4095 seq); [reflexivity|]. lia.
Qed.

Theorem ec_flagbyte_values c l : ec_flagbyte c l = (if c then 32 else 0) + (if l then 4 else 0).
Proof. destruct c, l; reflexivity. Qed.

Theorem ec_flag_options_flagbyte c l : ec_flag_options (ec_flagbyte c l) = Ok (c, l).
Proof. destruct c, l; reflexivity. Qed.

Definition res_is_ok {A} (r : res A) : bool := match r with inl _ => true | inr _ => false end.

Lemma ec_flag_options_table :
  forallb (fun f => Bool.eqb (res_is_ok (ec_flag_options f)) (memb f [0; 4; 32; 36]))
          (map N.of_nat (seq 0 256)) = true.
Proof. vm_compute. reflexivity. Qed.

(* of the 256 flag bytes exactly 00, 04, 20, 24 are accepted by the EC decrypter *)
Theorem ec_flag_options_iff f : f < 256 -> ((exists r, ec_flag_options f = Ok r) <-> In f [0; 4; 32; 36]).
Proof.
  intros H. pose proof ec_flag_options_table as T. rewrite forallb_forall in T.
  assert (I : In f (map N.of_nat (seq 0 256))).
  { apply in_map_iff. exists (N.to_nat f). split; [apply Nnat.N2Nat.id|]. apply in_seq. lia. }
  specialize (T f I). apply Bool.eqb_prop in T. rewrite <- memb_In, <- T.
  destruct (ec_flag_options f) as [r0|e0]; cbn [res_is_ok].
  - split; [intros _; reflexivity|intros _; exists r0; reflexivity].
  - split; [intros [r1 E]; discriminate|intros E; discriminate].
Qed.

Theorem ec_flag_options_error f e : ec_flag_options f = Err e -> e = ValueError.
Proof. unfold ec_flag_options. destruct (negb _); intros H; inversion H; reflexivity. Qed.

(* the no-EC flag bytes: both carry the two top bits, 0x20 says "compressed" *)
Theorem noec_flagbyte_bits : bip38_noec_flag_uncompr = 192 /\ bip38_noec_flag_compr = 192 + 32.
Proof. split; reflexivity. Qed.

(* Proofs about Model/Bip38.v (C13). *)
From Coq Require Import NArith ZArith Arith List Lia Bool.
From BU Require Import Base.Exn Base.Radix Base.Bytes Gen.SerbipConsts Model.Base58 Model.WifCodec Model.Bip38.
From BU Require Import Lemmas.Base58 Lemmas.SerbipAux Lemmas.SerbipConstsOk Lemmas.WifCodec.
Import ListNotations.
Open Scope N_scope.

(* ---------------------------------------------------------------- xor *)
Lemma xor_length a : forall b, length (xor_bytes a b) = Nat.min (length a) (length b).
Proof. induction a as [|x a IH]; intros [|y b]; cbn [xor_bytes length Nat.min]; auto. Qed.

Lemma xor_involutive a : forall b, (length a <= length b)%nat -> xor_bytes (xor_bytes a b) b = a.
Proof.
  induction a as [|x a IH]; intros [|y b] L; cbn [xor_bytes length] in *; auto; try lia.
  rewrite IH by lia. f_equal. rewrite N.lxor_assoc, N.lxor_nilpotent, N.lxor_0_r. reflexivity.
Qed.

Lemma xor_app a : forall a' b b', length a = length b ->
  xor_bytes (a ++ a') (b ++ b') = xor_bytes a b ++ xor_bytes a' b'.
Proof.
  induction a as [|x a IH]; intros a' [|y b] b' L; cbn [length] in L; try discriminate; [reflexivity|].
  cbn [app xor_bytes]. f_equal. apply IH. lia.
Qed.

(* ---------------------------------------------------------------- field splitting of 39-byte payloads *)
Lemma split_2_3_7_23 (b : list N) :
  b = slice 0 2 b ++ slice 2 3 b ++ slice 3 7 b ++ slice 7 23 b ++ skipn 23 b.
Proof.
  transitivity (slice 0 2 b ++ skipn 2 b); [apply (slice_split 0 2 b); lia|]. f_equal.
  transitivity (slice 2 3 b ++ skipn 3 b); [apply slice_split; lia|]. f_equal.
  transitivity (slice 3 7 b ++ skipn 7 b); [apply slice_split; lia|]. f_equal.
  apply slice_split; lia.
Qed.

Lemma fields_2_3_7_23 p f a e1 e2 (b : list N) : b = p ++ [f] ++ a ++ e1 ++ e2 ->
  length p = 2%nat -> length a = 4%nat -> length e1 = 16%nat -> length e2 = 16%nat ->
  slice 0 2 b = p /\ nth_error b 2 = Some f /\ slice 3 7 b = a /\ slice 7 23 b = e1 /\ skipn 23 b = e2.
Proof.
  intros E Lp La L1 L2.
  assert (L : length b = 39%nat) by (subst b; rewrite !app_length; cbn [length]; lia).
  pose proof (split_2_3_7_23 b) as S. rewrite E in S at 1.
  apply app_inj_len in S; [destruct S as [S1 S]|rewrite slice_length; lia].
  apply app_inj_len in S; [destruct S as [S2 S]|rewrite slice_length; cbn; lia].
  apply app_inj_len in S; [destruct S as [S3 S]|rewrite slice_length; lia].
  apply app_inj_len in S; [destruct S as [S4 S]|rewrite slice_length; lia].
  repeat split; try (symmetry; assumption).
  subst b. rewrite nth_error_app2 by lia. rewrite Lp. reflexivity.
Qed.

Section Bip38NoEc.
  Set Default Proof Using "All".
  Variable alph : list N.
  Variable radix : N.
  Variable cklen : nat.
  Variable sha256 : list N -> list N.
  Variable nfc : list N -> list N.
  Variable utf8 : list N -> res (list N).
  Variable scrypt : list N -> list N -> N -> N -> N -> N -> list N.
  Variable aes_enc aes_dec : list N -> list N -> list N.
  Variable G : Type.
  Variable base : G.
  Variable smul : N -> G -> G.
  Variable p2pkh : G -> bool -> list N.

  Hypothesis alph_nodup : NoDup alph.
  Hypothesis alph_len : length alph = N.to_nat radix.
  Hypothesis radix_ge2 : 2 <= radix.
  Hypothesis sha_len : forall x, length (sha256 x) = 32%nat.
  Hypothesis sha_ok : forall x, bytes_ok (sha256 x).
  Hypothesis cklen_le : (cklen <= 32)%nat.
  Hypothesis scrypt_len : forall pw salt n r p dk, length (scrypt pw salt n r p dk) = N.to_nat dk.
  Hypothesis aes_dec_enc : forall k b, length b = 16%nat -> aes_dec k (aes_enc k b) = b.
  Hypothesis aes_enc_len : forall k b, length b = 16%nat -> length (aes_enc k b) = 16%nat.
  Hypothesis aes_enc_ok : forall k b, bytes_ok (aes_enc k b).

  Notation b58c_enc := (check_encode alph radix cklen sha256).
  Notation b58c_dec := (check_decode alph radix cklen sha256).
  Notation noec_encrypt := (noec_encrypt alph radix cklen sha256 nfc utf8 scrypt aes_enc G base smul p2pkh).
  Notation noec_decrypt := (noec_decrypt alph radix cklen sha256 nfc utf8 scrypt aes_dec G base smul p2pkh).
  Notation address_hash := (address_hash sha256 G p2pkh).

  Let cd_enc := check_decode_encode alph radix cklen sha256 alph_nodup alph_len radix_ge2 sha_len sha_ok cklen_le.
  Let cd_err := check_decode_err alph radix cklen sha256.

  (* the standard's quantities *)
  Definition std_halves (pw ah : list N) : list N * list N :=
    let K := scrypt pw ah 16384 8 8 64 in (firstn 32 K, skipn 32 K).
  Definition std_flag (compressed : bool) : N := if compressed then 224 else 192.      (* 0xe0 / 0xc0 *)
  Definition std_noec_payload (key pw : list N) (ah : list N) (compressed : bool) : list N :=
    let '(dh1, dh2) := std_halves pw ah in
    [1; 66] ++ [std_flag compressed] ++ ah ++
    aes_enc dh2 (xor_bytes (firstn 16 key) (firstn 16 dh1)) ++
    aes_enc dh2 (xor_bytes (skipn 16 key) (skipn 16 dh1)).

  Lemma address_hash_len P c : length (address_hash P c) = 4%nat.
  Proof. unfold Bip38.address_hash, dsha. rewrite firstn_length, sha_len, c_addr_hash_len. reflexivity. Qed.
  Lemma address_hash_ok P c : bytes_ok (address_hash P c).
  Proof. unfold Bip38.address_hash, dsha. apply bytes_ok_firstn, sha_ok. Qed.

  Lemma noec_halves_std pass pw ah : utf8 (nfc pass) = Ok pw ->
    noec_halves nfc utf8 scrypt pass ah = Ok (std_halves pw ah).
  Proof. intros U. unfold noec_halves. rewrite U. reflexivity. Qed.

  Lemma std_halves_len pw ah : length (fst (std_halves pw ah)) = 32%nat /\ length (snd (std_halves pw ah)) = 32%nat.
  Proof.
    unfold std_halves. cbn [fst snd]. rewrite firstn_length, skipn_length, scrypt_len.
    change (N.to_nat 64) with 64%nat. split; reflexivity.
  Qed.

  (* noec_layout: prefix 0142, flag e0/c0, address hash, two AES blocks of key xor derivedhalf1 under derivedhalf2 *)
  Theorem noec_layout key pass pw c : secp_priv_valid key = true -> utf8 (nfc pass) = Ok pw ->
    noec_encrypt key pass c =
      Ok (b58c_enc (std_noec_payload key pw (address_hash (smul (be_to_int key) base) c) c)).
  Proof.
    intros V U. unfold Bip38.noec_encrypt, pub_of_priv. rewrite V. cbn [bind Ok].
    rewrite (noec_halves_std _ _ _ U). cbn [bind Ok]. unfold std_noec_payload.
    destruct (std_halves pw _) as [dh1 dh2]. destruct c; reflexivity.
  Qed.

  Lemma std_noec_payload_fields key pw ah c : length key = 32%nat -> length ah = 4%nat ->
    exists e1 e2, std_noec_payload key pw ah c = [1; 66] ++ [std_flag c] ++ ah ++ e1 ++ e2 /\
      length e1 = 16%nat /\ length e2 = 16%nat /\ bytes_ok e1 /\ bytes_ok e2 /\
      let '(dh1, dh2) := std_halves pw ah in
      xor_bytes (aes_dec dh2 e1 ++ aes_dec dh2 e2) dh1 = key.
  Proof.
    intros Lk La. unfold std_noec_payload. destruct (std_halves_len pw ah) as [L1 L2].
    destruct (std_halves pw ah) as [dh1 dh2]. cbn [fst snd] in L1, L2.
    assert (X1 : length (xor_bytes (firstn 16 key) (firstn 16 dh1)) = 16%nat)
      by (rewrite xor_length, !firstn_length; lia).
    assert (X2 : length (xor_bytes (skipn 16 key) (skipn 16 dh1)) = 16%nat)
      by (rewrite xor_length, !skipn_length; lia).
    eexists; eexists. split; [reflexivity|].
    repeat split; auto.
    rewrite !aes_dec_enc by auto.
    rewrite <- (firstn_skipn 16 dh1) at 3. rewrite xor_app by (rewrite X1, firstn_length; lia).
    rewrite !xor_involutive by (rewrite ?firstn_length, ?skipn_length; lia).
    apply firstn_skipn.
  Qed.

  Lemma std_flag_lt c : std_flag c < 256.
  Proof. destruct c; cbn; lia. Qed.

  Theorem noec_decrypt_encrypt key pass pw c :
    secp_priv_valid key = true -> bytes_ok key -> utf8 (nfc pass) = Ok pw ->
    exists s, noec_encrypt key pass c = Ok s /\ noec_decrypt s pass = Ok (key, c).
  Proof.
    intros V Hk U. pose proof (secp_priv_valid_len _ V) as Lk.
    set (P := smul (be_to_int key) base). set (ah := address_hash P c).
    exists (b58c_enc (std_noec_payload key pw ah c)). split; [apply noec_layout; auto|].
    pose proof (address_hash_len P c) as La. fold ah in La.
    destruct (std_noec_payload_fields key pw ah c Lk La) as (e1 & e2 & Ep & L1 & L2 & B1 & B2 & Hx).
    unfold Bip38.noec_decrypt, Bip38.b58c_dec. rewrite cd_enc.
    2:{ rewrite Ep. repeat (apply bytes_ok_app; split); auto.
        - repeat constructor; lia.
        - constructor; [apply std_flag_lt|constructor].
        - apply address_hash_ok. }
    cbn [bind Ok].
    destruct (fields_2_3_7_23 [1; 66] (std_flag c) ah e1 e2 _ Ep) as (F1 & F2 & F3 & F4 & F5); auto.
    assert (L39 : length (std_noec_payload key pw ah c) = 39%nat).
    { rewrite Ep, !app_length, La, L1, L2. reflexivity. }
    rewrite L39, c_noec_enc_len. cbn [Nat.eqb negb].
    change (sl bip38_noec_dec_slices 0 (std_noec_payload key pw ah c)) with (slice 0 2 (std_noec_payload key pw ah c)).
    change (sl bip38_noec_dec_slices 2 (std_noec_payload key pw ah c)) with (slice 3 7 (std_noec_payload key pw ah c)).
    change (sl bip38_noec_dec_slices 3 (std_noec_payload key pw ah c)) with (slice 7 23 (std_noec_payload key pw ah c)).
    change (sl bip38_noec_dec_slices 4 (std_noec_payload key pw ah c)) with (skipn 23 (std_noec_payload key pw ah c)).
    change (fst (nth 1 bip38_noec_dec_slices (0%nat, 0%nat))) with 2%nat.
    rewrite F1, F2, F3, F4, F5. cbn [of_option bind Ok].
    rewrite c_noec_prefix, list_eqb_refl. cbn [negb].
    destruct c_noec_flags as [Fc Fu]. rewrite Fc, Fu.
    assert (FL : (std_flag c =? 224) || (std_flag c =? 192) = true) by (destruct c; reflexivity).
    rewrite FL. cbn [negb].
    rewrite (noec_halves_std _ _ _ U). cbn [bind Ok].
    destruct (std_halves pw ah) as [dh1 dh2]. rewrite Hx.
    unfold pub_of_priv. rewrite V. cbn [bind Ok].
    assert (FC : (std_flag c =? 224) = c) by (destruct c; reflexivity). rewrite FC.
    fold P. fold ah. rewrite list_eqb_refl. reflexivity.
  Qed.

  (* noec_wrong_input_iff: for ANY checksum-valid 39-byte payload with the right prefix and flag and ANY
     passphrase, the decrypter recomputes key := (AES^-1 halves) xor derivedhalf1 and accepts exactly when that
     key is valid and the address hash of its public key (in the flagged mode) equals the embedded one *)
  Theorem noec_accept_iff b pass pw : bytes_ok b -> length b = 39%nat ->
    slice 0 2 b = [1; 66] -> (nth 2 b 0 = 224 \/ nth 2 b 0 = 192) -> utf8 (nfc pass) = Ok pw ->
    let ah := slice 3 7 b in
    let '(dh1, dh2) := std_halves pw ah in
    let key := xor_bytes (aes_dec dh2 (slice 7 23 b) ++ aes_dec dh2 (skipn 23 b)) dh1 in
    let c := nth 2 b 0 =? 224 in
    noec_decrypt (b58c_enc b) pass =
      if secp_priv_valid key && list_eqb ah (address_hash (smul (be_to_int key) base) c)
      then Ok (key, c) else Err ValueError.
  Proof.
    intros Hb L Hp Hf U. cbv zeta.
    destruct (std_halves pw (slice 3 7 b)) as [dh1 dh2] eqn:EH.
    unfold Bip38.noec_decrypt, Bip38.b58c_dec. rewrite cd_enc by auto. cbn [bind Ok].
    rewrite L, c_noec_enc_len. cbn [Nat.eqb negb].
    change (sl bip38_noec_dec_slices 0 b) with (slice 0 2 b).
    change (sl bip38_noec_dec_slices 2 b) with (slice 3 7 b).
    change (sl bip38_noec_dec_slices 3 b) with (slice 7 23 b).
    change (sl bip38_noec_dec_slices 4 b) with (skipn 23 b).
    change (fst (nth 1 bip38_noec_dec_slices (0%nat, 0%nat))) with 2%nat.
    assert (N2 : nth_error b 2 = Some (nth 2 b 0)) by (apply nth_error_nth'; lia).
    rewrite N2. cbn [of_option bind Ok]. rewrite Hp, c_noec_prefix, list_eqb_refl. cbn [negb].
    destruct c_noec_flags as [Fc Fu]. rewrite Fc, Fu.
    assert (FL : (nth 2 b 0 =? 224) || (nth 2 b 0 =? 192) = true).
    { destruct Hf as [E | E]; rewrite E; reflexivity. }
    rewrite FL. cbn [negb]. rewrite (noec_halves_std _ _ _ U), EH. cbn [bind Ok].
    unfold pub_of_priv.
    destruct (secp_priv_valid _); cbn [bind Ok andb]; [|reflexivity].
    destruct (list_eqb _ _); reflexivity.
  Qed.

  (* a passphrase that cannot be encoded (lone surrogates) is a ValueError subclass on both sides *)
  Theorem noec_errors enc pass e : noec_decrypt enc pass = Err e ->
    e = ValueError \/ e = LibError Base58ChecksumError \/ (exists e', utf8 (nfc pass) = Err e' /\ e = e').
  Proof.
    unfold Bip38.noec_decrypt, Bip38.b58c_dec. destruct (b58c_dec enc) as [b|e'] eqn:D; cbn [bind Ok].
    2:{ intros E. assert (He : e = e') by (unfold Err in E; congruence). subst e.
        destruct (cd_err _ _ D) as [X|X]; rewrite X; auto. }
    rewrite c_noec_enc_len. destruct (Nat.eqb_spec (length b) 39) as [L|L]; cbn [negb]; [|intros E; inversion E; auto].
    change (fst (nth 1 bip38_noec_dec_slices (0%nat, 0%nat))) with 2%nat.
    assert (N2 : nth_error b 2 = Some (nth 2 b 0)) by (apply nth_error_nth'; lia).
    rewrite N2. cbn [of_option bind Ok].
    destruct (negb (list_eqb _ _)); [intros E; inversion E; auto|].
    destruct (negb (_ || _)); [intros E; inversion E; auto|].
    unfold noec_halves. destruct (utf8 (nfc pass)) as [pw|eu] eqn:U; cbn [bind Ok].
    2:{ intros E. assert (He : e = eu) by (unfold Err in E; congruence). subst e.
        right; right. exists eu. split; reflexivity. }
    unfold pub_of_priv. destruct (secp_priv_valid _); cbn [bind Ok]; [|intros E; inversion E; auto].
    destruct (negb (list_eqb _ _)); intros E; inversion E; auto.
  Qed.
End Bip38NoEc.

(* ---------------------------------------------------------------- lot / sequence packing, flag byte *)
Lemma lot_seq_max_fits : (1048575 * 4096 + 4095 = 4294967295)%Z.
Proof. reflexivity. Qed.

Theorem lot_seq_packing lot seq salt : (0 <= lot < 1048576)%Z -> (0 <= seq < 4096)%Z ->
  owner_entropy_lotseq lot seq salt = Ok (salt ++ be32 (Z.to_N (lot * 4096 + seq))) /\
  Z.to_N (lot * 4096 + seq) < 4294967296 /\
  (Z.of_N (Z.to_N (lot * 4096 + seq)) / 4096 = lot)%Z /\ (Z.of_N (Z.to_N (lot * 4096 + seq)) mod 4096 = seq)%Z.
Proof.
  intros Hl Hs. destruct c_ec_lot_seq as (A & B & C & D & E & _).
  unfold owner_entropy_lotseq. rewrite A, B, C, D, E.
  destruct (Z.ltb_spec lot 0); [lia|]. destruct (Z.ltb_spec 1048575 lot); [lia|].
  destruct (Z.ltb_spec seq 0); [lia|]. destruct (Z.ltb_spec 4095 seq); [lia|]. cbn [orb].
  change (4095 + 1)%Z with 4096%Z.
  assert (R : Z.to_N (lot * 4096 + seq) < 4294967296) by lia.
  rewrite int_to_be_fixed_be32 by exact R. split; [reflexivity|]. split; [exact R|].
  rewrite Z2N.id by lia. split.
  - replace (lot * 4096 + seq)%Z with (seq + lot * 4096)%Z by lia.
    rewrite Z.div_add by lia. rewrite Z.div_small by lia. lia.
  - replace (lot * 4096 + seq)%Z with (seq + lot * 4096)%Z by lia.
    rewrite Z.mod_add by lia. apply Z.mod_small. lia.
Qed.

Theorem lot_seq_rejected lot seq salt : ~ ((0 <= lot < 1048576)%Z /\ (0 <= seq < 4096)%Z) ->
  owner_entropy_lotseq lot seq salt = Err ValueError.
Proof.
  intros H. destruct c_ec_lot_seq as (A & B & C & D & E & _).
  unfold owner_entropy_lotseq. rewrite A, B, C, D.
  destruct (Z.ltb_spec lot 0); [reflexivity|]. destruct (Z.ltb_spec 1048575 lot); [reflexivity|].
  destruct (Z.ltb_spec seq 0); [reflexivity|]. destruct (Z.ltb_spec 4095 seq); [reflexivity|]. lia.
Qed.

Theorem ec_flagbyte_values c l : ec_flagbyte c l = (if c then 32 else 0) + (if l then 4 else 0).
Proof. destruct c, l; reflexivity. Qed.

Theorem ec_flag_options_flagbyte c l : ec_flag_options (ec_flagbyte c l) = Ok (c, l).
Proof. destruct c, l; reflexivity. Qed.

Definition res_is_ok {A} (r : res A) : bool := match r with inl _ => true | inr _ => false end.

Lemma ec_flag_options_table :
  forallb (fun f => Bool.eqb (res_is_ok (ec_flag_options f)) (memb f [0; 4; 32; 36]))
          (map N.of_nat (seq 0 256)) = true.
Proof. vm_compute. reflexivity. Qed.

(* of the 256 flag bytes exactly 00, 04, 20, 24 are accepted by the EC decrypter *)
Theorem ec_flag_options_iff f : f < 256 -> ((exists r, ec_flag_options f = Ok r) <-> In f [0; 4; 32; 36]).
Proof.
  intros H. pose proof ec_flag_options_table as T. rewrite forallb_forall in T.
  assert (I : In f (map N.of_nat (seq 0 256))).
  { apply in_map_iff. exists (N.to_nat f). split; [apply Nnat.N2Nat.id|]. apply in_seq. lia. }
  specialize (T f I). apply Bool.eqb_prop in T. rewrite <- memb_In, <- T.
  destruct (ec_flag_options f) as [r0|e0]; cbn [res_is_ok].
  - split; [intros _; reflexivity|intros _; exists r0; reflexivity].
  - split; [intros [r1 E]; discriminate|intros E; discriminate].
Qed.

Theorem ec_flag_options_error f e : ec_flag_options f = Err e -> e = ValueError.
Proof. unfold ec_flag_options. destruct (negb _); intros H; inversion H; reflexivity. Qed.

(* the no-EC flag bytes: both carry the two top bits, 0x20 says "compressed" *)
Theorem noec_flagbyte_bits : bip38_noec_flag_uncompr = 192 /\ bip38_noec_flag_compr = 192 + 32.
Proof. split; reflexivity. Qed.

(* ================================================================ EC-multiplied keys *)
Lemma split_8_16 (b : list N) : b = slice 0 8 b ++ slice 8 16 b ++ skipn 16 b.
Proof.
  transitivity (slice 0 8 b ++ skipn 8 b); [apply (slice_split 0 8 b); lia|]. f_equal. apply slice_split; lia.
Qed.

Lemma fields_8_16 m o p (b : list N) : b = m ++ o ++ p -> length m = 8%nat -> length o = 8%nat -> length p = 33%nat ->
  slice 0 8 b = m /\ slice 8 16 b = o /\ skipn 16 b = p.
Proof.
  intros E Lm Lo Lp. assert (L : length b = 49%nat) by (subst b; rewrite !app_length; lia).
  pose proof (split_8_16 b) as S. rewrite E in S at 1.
  apply app_inj_len in S; [destruct S as [S1 S]|rewrite slice_length; lia].
  apply app_inj_len in S; [destruct S as [S2 S]|rewrite slice_length; lia].
  repeat split; symmetry; assumption.
Qed.

Lemma split_ec39 (b : list N) :
  b = slice 0 2 b ++ slice 2 3 b ++ slice 3 7 b ++ slice 7 15 b ++ slice 15 23 b ++ skipn 23 b.
Proof.
  transitivity (slice 0 2 b ++ skipn 2 b); [apply (slice_split 0 2 b); lia|]. f_equal.
  transitivity (slice 2 3 b ++ skipn 3 b); [apply slice_split; lia|]. f_equal.
  transitivity (slice 3 7 b ++ skipn 7 b); [apply slice_split; lia|]. f_equal.
  transitivity (slice 7 15 b ++ skipn 15 b); [apply slice_split; lia|]. f_equal.
  apply slice_split; lia.
Qed.

Lemma fields_ec39 p f a o e1 e2 (b : list N) : b = p ++ [f] ++ a ++ o ++ e1 ++ e2 ->
  length p = 2%nat -> length a = 4%nat -> length o = 8%nat -> length e1 = 8%nat -> length e2 = 16%nat ->
  slice 0 2 b = p /\ nth_error b 2 = Some f /\ slice 3 7 b = a /\ slice 7 15 b = o /\ slice 15 23 b = e1 /\ skipn 23 b = e2.
Proof.
  intros E Lp La Lo L1 L2.
  assert (L : length b = 39%nat) by (subst b; rewrite !app_length; cbn [length]; lia).
  pose proof (split_ec39 b) as S. rewrite E in S at 1.
  apply app_inj_len in S; [destruct S as [S1 S]|rewrite slice_length; lia].
  apply app_inj_len in S; [destruct S as [S2 S]|rewrite slice_length; cbn; lia].
  apply app_inj_len in S; [destruct S as [S3 S]|rewrite slice_length; lia].
  apply app_inj_len in S; [destruct S as [S4 S]|rewrite slice_length; lia].
  apply app_inj_len in S; [destruct S as [S5 S]|rewrite slice_length; lia].
  repeat split; try (symmetry; assumption).
  subst b. rewrite nth_error_app2 by lia. rewrite Lp. reflexivity.
Qed.

Lemma magic_distinct : list_eqb bip38_ec_magic_nolotseq bip38_ec_magic_lotseq = false.
Proof. vm_compute. reflexivity. Qed.
Lemma magic_lens : length bip38_ec_magic_lotseq = 8%nat /\ length bip38_ec_magic_nolotseq = 8%nat /\
                   bytes_ok bip38_ec_magic_lotseq /\ bytes_ok bip38_ec_magic_nolotseq.
Proof. repeat split; try reflexivity; apply bytes_okb_spec; vm_compute; reflexivity. Qed.

Section Bip38Ec.
  Set Default Proof Using "All".
  Variable alph : list N.
  Variable radix : N.
  Variable cklen : nat.
  Variable sha256 : list N -> list N.
  Variable nfc : list N -> list N.
  Variable utf8 : list N -> res (list N).
  Variable scrypt : list N -> list N -> N -> N -> N -> N -> list N.
  Variable aes_enc aes_dec : list N -> list N -> list N.
  Variable G : Type.
  Variable base : G.
  Variable smul : N -> G -> G.
  Variable ser_c : G -> list N.
  Variable deser : list N -> option G.
  Variable p2pkh : G -> bool -> list N.

  Hypothesis alph_nodup : NoDup alph.
  Hypothesis alph_len : length alph = N.to_nat radix.
  Hypothesis radix_ge2 : 2 <= radix.
  Hypothesis sha_len : forall x, length (sha256 x) = 32%nat.
  Hypothesis sha_ok : forall x, bytes_ok (sha256 x).
  Hypothesis cklen_le : (cklen <= 32)%nat.
  Hypothesis scrypt_len : forall pw salt n r p dk, length (scrypt pw salt n r p dk) = N.to_nat dk.
  Hypothesis aes_dec_enc : forall k b, length b = 16%nat -> aes_dec k (aes_enc k b) = b.
  Hypothesis aes_enc_len : forall k b, length b = 16%nat -> length (aes_enc k b) = 16%nat.
  Hypothesis aes_enc_ok : forall k b, bytes_ok (aes_enc k b).
  Hypothesis ser_c_len : forall P, length (ser_c P) = 33%nat.
  Hypothesis ser_c_ok : forall P, bytes_ok (ser_c P).
  Hypothesis deser_ser : forall P, deser (ser_c P) = Some P.
  (* Z-module laws of the group: (b*G)*a = (a*b mod n)*G *)
  Hypothesis smul_smul : forall a b P, smul a (smul b P) = smul (a * b) P.
  Hypothesis smul_mod_order : forall a, smul (a mod secp256k1_order) base = smul a base.

  Notation b58c_enc := (check_encode alph radix cklen sha256).
  Notation address_hash := (address_hash sha256 G p2pkh).
  Notation pass_factor := (pass_factor sha256 nfc utf8 scrypt).
  Notation gen_intermediate := (gen_intermediate alph radix cklen sha256 nfc utf8 scrypt G base smul ser_c).
  Notation gen_private_key := (gen_private_key alph radix cklen sha256 scrypt aes_enc G smul ser_c deser p2pkh).
  Notation ec_decrypt := (ec_decrypt alph radix cklen sha256 nfc utf8 scrypt aes_dec G base smul ser_c p2pkh).
  Notation generate := (generate_private_key_ec alph radix cklen sha256 nfc utf8 scrypt aes_enc G base smul ser_c deser p2pkh).

  Let cd_enc := check_decode_encode alph radix cklen sha256 alph_nodup alph_len radix_ge2 sha_len sha_ok cklen_le.

  Definition has_ls (ls : option (Z * Z)) : bool := match ls with Some _ => true | None => false end.
  Definition owner_entropy_of (ls : option (Z * Z)) (salt : list N) : res (list N) :=
    match ls with Some (lot, seq) => owner_entropy_lotseq lot seq salt | None => Ok salt end.

  (* the AES / xor algebra of the seedb encryption: the decrypter recovers seedb *)
  Lemma ec_seedb_recover seedb dh1 dh2 : length seedb = 24%nat -> length dh1 = 32%nat ->
    let ep1 := aes_enc dh2 (xor_bytes (slice 0 16 seedb) (slice 0 16 dh1)) in
    let ep2 := aes_enc dh2 (xor_bytes (skipn 8 ep1 ++ skipn 16 seedb) (skipn 16 dh1)) in
    let dp2 := xor_bytes (aes_dec dh2 ep2) (skipn 16 dh1) in
    xor_bytes (aes_dec dh2 (slice 0 8 ep1 ++ slice 0 8 dp2)) (slice 0 16 dh1) ++ skipn 8 dp2 = seedb.
  Proof.
    intros Ls Ld. cbv zeta.
    set (x1 := xor_bytes (slice 0 16 seedb) (slice 0 16 dh1)).
    assert (Lx1 : length x1 = 16%nat) by (unfold x1; rewrite xor_length, !slice_length; lia).
    set (ep1 := aes_enc dh2 x1). assert (Le1 : length ep1 = 16%nat) by (apply aes_enc_len; exact Lx1).
    set (y := skipn 8 ep1 ++ skipn 16 seedb).
    assert (Ly : length y = 16%nat) by (unfold y; rewrite app_length, !skipn_length; lia).
    assert (Ld16 : length (skipn 16 dh1) = 16%nat) by (rewrite skipn_length; lia).
    rewrite aes_dec_enc by (rewrite xor_length; lia).
    rewrite xor_involutive by lia.
    assert (Y1 : slice 0 8 y = skipn 8 ep1).
    { unfold y. rewrite slice_0. apply firstn_app_exact. rewrite skipn_length. lia. }
    assert (Y2 : skipn 8 y = skipn 16 seedb).
    { unfold y. apply skipn_app_exact. rewrite skipn_length. lia. }
    rewrite Y1, Y2, slice_0, (firstn_skipn 8 ep1). unfold ep1. rewrite aes_dec_enc by exact Lx1.
    unfold x1. rewrite xor_involutive by (rewrite !slice_length; lia).
    rewrite slice_0. apply firstn_skipn.
  Qed.

  Lemma ec_halves_len pp ah oe : let h := ec_halves scrypt pp ah oe in length (fst h) = 32%nat /\ length (snd h) = 32%nat.
  Proof.
    unfold ec_halves. destruct c_ec_scrypt as (_ & _ & _ & _ & _ & _ & _ & E). rewrite E. cbn [fst snd].
    change (N.to_nat (64 / 2)) with 32%nat. rewrite firstn_length, skipn_length, scrypt_len.
    change (N.to_nat 64) with 64%nat. split; reflexivity.
  Qed.

  Lemma address_hash_len' P c : length (address_hash P c) = 4%nat.
  Proof. unfold Bip38.address_hash, dsha. rewrite firstn_length, sha_len, c_addr_hash_len. reflexivity. Qed.
  Lemma address_hash_ok' P c : bytes_ok (address_hash P c).
  Proof. unfold Bip38.address_hash, dsha. apply bytes_ok_firstn, sha_ok. Qed.

  Lemma ec_flagbyte_lt c l : ec_flagbyte c l < 256.
  Proof. destruct c, l; vm_compute; reflexivity. Qed.

  (* ec_decrypt_generate *)
  Theorem ec_decrypt_generate pass c ls salt seedb oe pfb :
    owner_entropy_of ls salt = Ok oe -> length oe = 8%nat -> bytes_ok oe ->
    pass_factor pass oe (has_ls ls) = Ok pfb ->
    length seedb = 24%nat ->
    let pf := be_to_int pfb in
    let fb := be_to_int (dsha sha256 seedb) in
    0 < pf < secp256k1_order -> 0 < fb < secp256k1_order -> (pf * fb) mod secp256k1_order <> 0 ->
    exists enc key, generate pass c ls salt seedb = Ok enc /\ ec_decrypt enc pass = Ok (key, c) /\
                    length key = 32%nat /\ be_to_int key = (pf * fb) mod secp256k1_order /\
                    secp_priv_valid key = true.
  Proof.
    intros Hoe Loe Boe Hpf Lsb pf fb Rpf Rfb Hk.
    destruct magic_lens as (ML1 & ML2 & MB1 & MB2).
    set (P := smul pf base).
    set (magic := if has_ls ls then bip38_ec_magic_lotseq else bip38_ec_magic_nolotseq).
    assert (Lmagic : length magic = 8%nat) by (unfold magic; destruct (has_ls ls); assumption).
    assert (Bmagic : bytes_ok magic) by (unfold magic; destruct (has_ls ls); assumption).
    assert (PM : forall k Q, 0 < k < secp256k1_order -> point_mul G smul k Q = Ok (smul k Q)).
    { intros k Q Hr. unfold point_mul. destruct (N.eqb_spec k 0); [lia|].
      destruct (N.leb_spec secp256k1_order k); [lia|]. reflexivity. }
    (* --- the intermediate code *)
    assert (GI : gen_intermediate pass ls salt = Ok (b58c_enc (magic ++ oe ++ ser_c P))).
    { unfold Bip38.gen_intermediate. fold (has_ls ls).
      replace (match ls with Some (lot, seq) => owner_entropy_lotseq lot seq salt | None => Ok salt end)
        with (owner_entropy_of ls salt) by (destruct ls as [[? ?]|]; reflexivity).
      rewrite Hoe. cbn [bind Ok]. rewrite Hpf. cbn [bind Ok]. unfold pass_point. fold pf. rewrite PM by exact Rpf.
      reflexivity. }
    (* --- the encrypted key *)
    set (Q := smul fb P). set (ah := address_hash Q c).
    pose proof (address_hash_len' Q c) as Lah. fold ah in Lah.
    destruct (ec_halves scrypt (ser_c P) ah oe) as [dh1 dh2] eqn:EH.
    pose proof (ec_halves_len (ser_c P) ah oe) as HL. cbv zeta in HL. rewrite EH in HL. cbn [fst snd] in HL.
    destruct HL as [Ld1 Ld2].
    set (ep1 := aes_enc dh2 (xor_bytes (slice 0 16 seedb) (slice 0 16 dh1))).
    set (ep2 := aes_enc dh2 (xor_bytes (skipn 8 ep1 ++ skipn 16 seedb) (skipn 16 dh1))).
    assert (Le1 : length ep1 = 16%nat).
    { apply aes_enc_len. rewrite xor_length, !slice_length; lia. }
    assert (Le2 : length ep2 = 16%nat).
    { apply aes_enc_len. rewrite xor_length, app_length, !skipn_length. lia. }
    set (flag := ec_flagbyte c (has_ls ls)).
    set (Y := bip38_ec_prefix ++ [flag] ++ ah ++ oe ++ slice 0 8 ep1 ++ ep2).
    assert (MagicEq : list_eqb magic bip38_ec_magic_lotseq = has_ls ls).
    { unfold magic. destruct (has_ls ls); [apply list_eqb_refl|apply magic_distinct]. }
    assert (GP : gen_private_key (b58c_enc (magic ++ oe ++ ser_c P)) c seedb = Ok (b58c_enc Y)).
    { unfold Bip38.gen_private_key, Bip38.b58c_dec. rewrite cd_enc.
      2:{ repeat (apply bytes_ok_app; split); auto. }
      cbn [bind Ok].
      destruct (fields_8_16 magic oe (ser_c P) _ eq_refl) as (F1 & F2 & F3); auto.
      assert (L49 : length (magic ++ oe ++ ser_c P) = 49%nat) by (rewrite !app_length, Lmagic, Loe, ser_c_len; reflexivity).
      destruct c_ec_misc as (CI & _). rewrite L49, CI. cbn [Nat.eqb negb].
      change (sl bip38_ec_gen_slices 0 (magic ++ oe ++ ser_c P)) with (slice 0 8 (magic ++ oe ++ ser_c P)).
      change (sl bip38_ec_gen_slices 1 (magic ++ oe ++ ser_c P)) with (slice 8 16 (magic ++ oe ++ ser_c P)).
      change (sl bip38_ec_gen_slices 2 (magic ++ oe ++ ser_c P)) with (skipn 16 (magic ++ oe ++ ser_c P)).
      rewrite F1, F2, F3, deser_ser. cbn [of_option bind Ok].
      assert (MC : list_eqb magic bip38_ec_magic_nolotseq || list_eqb magic bip38_ec_magic_lotseq = true).
      { unfold magic. destruct (has_ls ls); rewrite list_eqb_refl; [apply orb_true_r|reflexivity]. }
      rewrite MC. cbn [negb]. fold fb. rewrite PM by exact Rfb. cbn [bind Ok]. fold Q. fold ah. rewrite EH.
      rewrite MagicEq. reflexivity. }
    exists (b58c_enc Y).
    (* --- decryption *)
    assert (BY : bytes_ok Y).
    { unfold Y. destruct c_ec_misc as (_ & _ & _ & CP & _). rewrite CP.
      repeat (apply bytes_ok_app; split); auto.
      - repeat constructor; lia.
      - constructor; [apply ec_flagbyte_lt|constructor].
      - apply address_hash_ok'.
      - apply bytes_ok_slice, aes_enc_ok.
      - apply aes_enc_ok. }
    destruct (fields_ec39 bip38_ec_prefix flag ah oe (slice 0 8 ep1) ep2 Y eq_refl) as (F1 & F2 & F3 & F4 & F5 & F6); auto.
    { rewrite slice_length; lia. }
    assert (L39 : length Y = 39%nat).
    { unfold Y. rewrite !app_length, Lah, Loe, Le2, slice_length by lia. reflexivity. }
    destruct (fixed32 ((pf * fb) mod secp256k1_order)) as (key & EK & LK & BK & IK).
    { apply N.mod_lt. pose proof c_order_pos. lia. }
    assert (VK : secp_priv_valid key = true).
    { apply secp_priv_valid_spec. rewrite IK. repeat split; auto; try lia.
      apply N.mod_lt. pose proof c_order_pos. lia. }
    exists key. split.
    { unfold Bip38.generate_private_key_ec. rewrite GI. cbn [bind Ok]. exact GP. }
    split; [|auto].
    unfold Bip38.ec_decrypt, Bip38.b58c_dec. rewrite cd_enc by exact BY. cbn [bind Ok].
    destruct c_ec_misc as (_ & CE & _ & _ & _). rewrite L39, CE. cbn [Nat.eqb negb].
    change (sl bip38_ec_dec_slices 0 Y) with (slice 0 2 Y).
    change (sl bip38_ec_dec_slices 2 Y) with (slice 3 7 Y).
    change (sl bip38_ec_dec_slices 3 Y) with (slice 7 15 Y).
    change (sl bip38_ec_dec_slices 4 Y) with (slice 15 23 Y).
    change (sl bip38_ec_dec_slices 5 Y) with (skipn 23 Y).
    change (fst (nth 1 bip38_ec_dec_slices (0%nat, 0%nat))) with 2%nat.
    rewrite F1, F2, F3, F4, F5, F6. cbn [of_option bind Ok]. rewrite list_eqb_refl. cbn [negb].
    unfold flag. rewrite ec_flag_options_flagbyte. cbn [bind Ok].
    rewrite Hpf. cbn [bind Ok]. unfold pass_point. fold pf. rewrite PM by exact Rpf. cbn [bind Ok]. fold P.
    rewrite EH.
    change (sl bip38_ec_factorb_slices 0 dh1) with (skipn 16 dh1).
    change (sl bip38_ec_factorb_slices 3 dh1) with (slice 0 16 dh1).
    set (dp2 := xor_bytes (aes_dec dh2 ep2) (skipn 16 dh1)).
    change (sl bip38_ec_factorb_slices 1 dp2) with (slice 0 8 dp2).
    change (sl bip38_ec_factorb_slices 2 dp2) with (skipn 8 dp2).
    pose proof (ec_seedb_recover seedb dh1 dh2 Lsb Ld1) as REC. cbv zeta in REC.
    fold ep1 in REC. fold ep2 in REC. fold dp2 in REC. rewrite REC.
    fold fb. rewrite c_ecdsa_priv_len, EK. cbn [bind Ok].
    unfold pub_of_priv. rewrite VK. cbn [bind Ok].
    assert (PQ : smul (be_to_int key) base = Q).
    { rewrite IK, smul_mod_order. unfold Q, P. rewrite smul_smul. f_equal. apply N.mul_comm. }
    rewrite PQ. fold ah. rewrite list_eqb_refl. reflexivity.
  Qed.

End Bip38Ec.

(* the owner entropy is 8 bytes in both forms *)
Lemma owner_entropy_len ls salt oe : owner_entropy_of ls salt = Ok oe ->
  length salt = (if has_ls ls then 4 else 8)%nat -> bytes_ok salt -> length oe = 8%nat /\ bytes_ok oe.
Proof.
  intros E L B. destruct ls as [[lot seq]|]; cbn [owner_entropy_of has_ls] in *.
  - destruct (Z_lt_dec lot 0) as [|H1]; [rewrite lot_seq_rejected in E by lia; discriminate|].
    destruct (Z_lt_dec 1048575 lot) as [|H2]; [rewrite lot_seq_rejected in E by lia; discriminate|].
    destruct (Z_lt_dec seq 0) as [|H3]; [rewrite lot_seq_rejected in E by lia; discriminate|].
    destruct (Z_lt_dec 4095 seq) as [|H4]; [rewrite lot_seq_rejected in E by lia; discriminate|].
    destruct (lot_seq_packing lot seq salt) as (E' & R & _); try lia.
    rewrite E' in E. inversion E; subst oe. rewrite app_length, L. split; [reflexivity|].
    apply bytes_ok_app. split; auto. apply be32_ok. exact R.
  - inversion E; subst. auto.
Qed.

(* Object level (Bip32Base): master key generation, ChildKey bookkeeping, DerivePath as a fold,
   and conformance of whole derivations with the key tree of BIP-32 / SLIP-0010. *)
From Coq Require Import NArith Arith List Lia Bool.
From BU Require Import Base.Exn Base.Radix Base.Bytes Model.Group Gen.DerivConsts.
From BU Require Import Model.SpecSlip10 Model.Bip32Slip10.
From BU Require Import Lemmas.DerivAux Lemmas.DerivConstsOk Lemmas.GroupLaws Lemmas.Bip32Slip10.
Import ListNotations.
Open Scope N_scope.

(* --------------------------------------------------------------------------------------------- *)
Section Generic.
  Variable hash160 : list N -> list N.
  Variable D : deriv_ops.
  Notation child_key := (child_key hash160 D).
  Notation derive_elems := (derive_elems hash160 D).

  Lemma vke_ok {A} (r : res A) a : value_error_to_key_error r = Ok a -> r = Ok a.
  Proof. destruct r as [x|[]]; cbn; intros H; try discriminate; exact H. Qed.

  Lemma vke_err {A} (r : res A) e : value_error_to_key_error r = Err e ->
    (r = Err e /\ e <> ValueError /\ e <> UnicodeError) \/
    (e = LibError Bip32KeyError /\ (r = Err ValueError \/ r = Err UnicodeError)).
  Proof.
    destruct r as [x|e0]; cbn; intros H; [discriminate|].
    destruct e0; cbn in H; injection H as <-;
      first [left; split; [reflexivity|split; discriminate] | right; split; [reflexivity|auto]].
  Qed.

  Lemma new_priv_inv kb kd o : new_priv D kb kd = Ok o ->
    exists k, d_priv_of_bytes D kb = Ok k /\ o = mk_obj (Some k) (d_pub_of_priv D k) kd.
  Proof.
    unfold new_priv. intros H. apply bind_ok_inv in H. destruct H as (k & H1 & H2).
    apply vke_ok in H1. exists k. split; [exact H1|]. injection H2 as <-. reflexivity.
  Qed.

  Lemma new_pub_inv P kd o : new_pub D P kd = Ok o ->
    exists P', d_pub_check D P = Ok P' /\ o = mk_obj None P' kd.
  Proof.
    unfold new_pub. intros H. apply bind_ok_inv in H. destruct H as (k & H1 & H2).
    apply vke_ok in H1. exists k. split; [exact H1|]. injection H2 as <-. reflexivity.
  Qed.

  (* ChildKey bookkeeping: depth + 1, the index, the parent's fingerprint; privacy is inherited *)
  Theorem child_metadata fuel o i o' : child_key fuel o i = Ok o' ->
    i <= bip32_index_max /\
    kd_depth (o_data o') = kd_depth (o_data o) + 1 /\
    kd_index (o_data o') = i /\
    kd_fprint (o_data o') = firstn bip32_fprint_len (hash160 (d_pub_ser D (o_pub o))) /\
    (o_priv o' = None <-> o_priv o = None).
  Proof.
    unfold Bip32Slip10.child_key. destruct (N.leb_spec i bip32_index_max) as [Hi|]; [|discriminate].
    destruct (o_priv o) as [k|] eqn:P.
    - intros H. apply bind_ok_inv in H. destruct H as (kc & _ & H).
      apply new_priv_inv in H. destruct H as (k' & _ & ->). cbn.
      repeat split; try reflexivity; try assumption; discriminate.
    - destruct (hardened i); [discriminate|]. cbn [negb].
      intros H. apply bind_ok_inv in H. destruct H as (Pc & _ & H).
      apply new_pub_inv in H. destruct H as (P' & _ & ->). cbn.
      repeat split; try reflexivity; assumption.
  Qed.

  Lemma child_key_index_range fuel o i : bip32_index_max < i -> child_key fuel o i = Err ValueError.
  Proof.
    intros H. unfold Bip32Slip10.child_key. destruct (N.leb_spec i bip32_index_max); [lia|reflexivity].
  Qed.

  (* hardened derivation from a public-only object is refused with the documented key error *)
  Theorem hardened_from_public_refused fuel o i :
    o_priv o = None -> i <= bip32_index_max -> hardened i = true ->
    child_key fuel o i = Err (LibError Bip32KeyError).
  Proof.
    intros P Hi Hh. unfold Bip32Slip10.child_key. destruct (N.leb_spec i bip32_index_max); [|lia].
    rewrite P, Hh. reflexivity.
  Qed.

  (* DerivePath is the fold of ChildKey: it splits along concatenation of paths *)
  Theorem path_fold fuel o p q :
    derive_elems fuel o (p ++ q) = (o' <- derive_elems fuel o p ;; derive_elems fuel o' q).
  Proof.
    revert o. induction p as [|i p IH]; intros o; [reflexivity|].
    cbn [app Bip32Slip10.derive_elems]. destruct (child_key fuel o i) as [o1|e]; [|reflexivity].
    cbn [bind]. apply IH.
  Qed.

  Lemma derive_elems_snoc fuel o p i :
    derive_elems fuel o (p ++ [i]) = (o' <- derive_elems fuel o p ;; child_key fuel o' i).
  Proof.
    rewrite path_fold. destruct (derive_elems fuel o p) as [o1|e]; [|reflexivity].
    cbn [bind Bip32Slip10.derive_elems]. destruct (child_key fuel o1 i); reflexivity.
  Qed.

  (* metadata along a whole path: depth grows by the length, privacy is inherited *)
  Theorem path_metadata fuel : forall p o o', derive_elems fuel o p = Ok o' ->
    kd_depth (o_data o') = kd_depth (o_data o) + N.of_nat (length p) /\
    (o_priv o' = None <-> o_priv o = None) /\
    Forall (fun i => i <= bip32_index_max) p.
  Proof.
    induction p as [|i p IH]; intros o o' H.
    - injection H as <-. cbn. repeat split; auto; lia.
    - cbn [Bip32Slip10.derive_elems] in H. apply bind_ok_inv in H. destruct H as (o1 & H1 & H2).
      apply child_metadata in H1. destruct H1 as (M0 & M1 & _ & _ & M4).
      destruct (IH _ _ H2) as (I1 & I2 & I3). cbn [length]. rewrite Nnat.Nat2N.inj_succ.
      repeat split; [lia|tauto|tauto|constructor; assumption].
  Qed.

  (* a public-only object never yields a private key, whatever is derived from it *)
  Theorem public_only_never_private fuel o p o' :
    derive_elems fuel (convert_to_public D o) p = Ok o' ->
    private_key D o' = Err (LibError Bip32KeyError) /\ is_public_only D o' = true.
  Proof.
    intros H. apply path_metadata in H. destruct H as (_ & H & _).
    assert (P : o_priv o' = None) by (apply H; reflexivity).
    unfold private_key, is_public_only. rewrite P. split; reflexivity.
  Qed.

  Lemma convert_to_public_idem o : convert_to_public D (convert_to_public D o) = convert_to_public D o.
  Proof. reflexivity. Qed.

  Lemma private_key_some o k : o_priv o = Some k -> private_key D o = Ok k.
  Proof. unfold private_key. intros ->. reflexivity. Qed.
End Generic.

(* --------------------------------------------------------------------------------------------- *)
Lemma ecdsa_valid_iff (G : group_ops) b :
  ecdsa_priv_valid G b = true <-> length b = 32%nat /\ 0 < be_to_int b < order G.
Proof.
  unfold ecdsa_priv_valid. rewrite ecdsa_priv_len_32, !andb_true_iff, Nat.eqb_eq, N.ltb_lt, N.ltb_lt. tauto.
Qed.

Lemma new_priv_ecdsa (G : group_ops) hmac512 hmac_key kb kd :
  length kb = 32%nat -> 0 < be_to_int kb < order G ->
  new_priv (ecdsa_ops G hmac512 hmac_key) kb kd =
  Ok (mk_obj (D := ecdsa_ops G hmac512 hmac_key) (Some kb) (point_of (be_to_int kb)) kd).
Proof.
  intros H1 H2. unfold new_priv. cbn [d_priv_of_bytes ecdsa_ops]. unfold ecdsa_priv_of_bytes.
  rewrite (proj2 (ecdsa_valid_iff G kb) (conj H1 H2)). reflexivity.
Qed.

Section EcdsaObjects.
  Variable G : group_ops.
  Variable hmac512 : list N -> list N -> list N.
  Variable hash160 : list N -> list N.
  Variable hmac_key : list N.
  Notation n := (order G).
  Hypothesis n_pos : 0 < n.
  Hypothesis n_small : n <= 2 ^ 256.
  Hypothesis HM : hmac_ok hmac512.

  Notation D := (ecdsa_ops G hmac512 hmac_key).
  Notation eobj := (obj D).

  (* the standard's key tree at this curve *)
  Notation spec_master := (master_node hmac512 hmac_key false n).
  Notation spec_child := (child_node hmac512 hash160 false n (pt G) point_of ser_c).
  Notation spec_path := (path_node hmac512 hash160 false n (pt G) point_of ser_c).

  (* representation invariant of private objects and the extended private key they stand for *)
  Definition ecdsa_wf (o : eobj) (kb : list N) : Prop :=
    o_priv o = Some kb /\ length kb = 32%nat /\ bytes_ok kb /\ 0 < be_to_int kb < n /\
    o_pub o = point_of (be_to_int kb).
  Definition xprv_of (o : eobj) (kb : list N) : xprv :=
    mk_xprv (be_to_int kb) (kd_chain (o_data o)) (kd_depth (o_data o)) (kd_index (o_data o))
            (kd_fprint (o_data o)).

  (* ---- master key ---- *)
  Lemma master_loop_sound fuel : forall S kb c,
    master_loop hmac512 D fuel S = Ok (kb, c) ->
    master_from hmac512 hmac_key false n S (be_to_int kb, c) /\
    length kb = 32%nat /\ bytes_ok kb /\ 0 < be_to_int kb < n /\ length c = 32%nat.
  Proof using n_pos n_small HM.
    induction fuel as [|f IH]; intros S kb c E; [discriminate|].
    cbn [master_loop d_hmac_key d_priv_of_bytes ecdsa_ops] in E. unfold ecdsa_priv_of_bytes in E.
    destruct (ecdsa_priv_valid G (left_half (hmac512 hmac_key S))) eqn:V; cbn [is_ok] in E.
    - injection E as <- <-. apply ecdsa_valid_iff in V. destruct V as [V1 V2].
      rewrite left_half_IL in *. rewrite right_half_IR. rewrite <- parse256_be in *.
      split; [apply master_done; right; lia|].
      repeat split; try lia; try assumption.
      + apply IL_ok, (proj2 HM).
      + apply IR_length, (proj1 HM).
    - destruct (IH _ _ _ E) as (M & R). split; [|exact R].
      apply master_retry; [reflexivity| |exact M].
      rewrite left_half_IL in V. rewrite parse256_be.
      destruct (N.eq_dec (be_to_int (IL (hmac512 hmac_key S))) 0) as [|Hn0]; [left; assumption|right].
      destruct (N.le_gt_cases n (be_to_int (IL (hmac512 hmac_key S)))) as [|Hlt]; [assumption|exfalso].
      assert (T : ecdsa_priv_valid G (IL (hmac512 hmac_key S)) = true)
        by (apply ecdsa_valid_iff; split; [apply IL_length, (proj1 HM)|lia]).
      congruence.
  Qed.

  Lemma master_loop_complete S r :
    master_from hmac512 hmac_key false n S r ->
    exists fuel, master_loop hmac512 D fuel S = Ok (spec_ser256 (fst r), snd r).
  Proof using n_pos n_small HM.
    induction 1 as [S Hv | S r _ Hbad _ [f IH]].
    - destruct Hv as [|[Hn0 Hlt]]; [discriminate|]. exists 1%nat.
      cbn [master_loop d_hmac_key d_priv_of_bytes ecdsa_ops fst snd]. unfold ecdsa_priv_of_bytes.
      rewrite parse256_be in *.
      replace (ecdsa_priv_valid G (left_half (hmac512 hmac_key S))) with true.
      + cbn [is_ok]. rewrite left_half_IL, right_half_IR, <- parse256_be.
        rewrite (IL_ser _ (proj1 HM _ _) (proj2 HM _ _)). reflexivity.
      + symmetry. apply ecdsa_valid_iff. rewrite left_half_IL. split; [apply IL_length, (proj1 HM)|lia].
    - exists (Datatypes.S f). cbn [master_loop d_hmac_key d_priv_of_bytes ecdsa_ops]. unfold ecdsa_priv_of_bytes.
      replace (ecdsa_priv_valid G (left_half (hmac512 hmac_key S))) with false; [exact IH|].
      symmetry. apply not_true_is_false. intros T. apply ecdsa_valid_iff in T.
      rewrite left_half_IL, <- parse256_be in T. lia.
  Qed.

  Theorem from_seed_conforms fuel seed o : from_seed hmac512 D fuel seed = Ok o ->
    exists kb, ecdsa_wf o kb /\ spec_master seed (xprv_of o kb) /\ length (kd_chain (o_data o)) = 32%nat.
  Proof using n_pos n_small HM.
    unfold from_seed, master_key. intros H. apply bind_ok_inv in H. destruct H as ([kb c] & H1 & H2).
    rewrite seed_min_16 in H1. destruct (Nat.leb_spec 16 (length seed)) as [Hl|]; [|discriminate].
    apply master_loop_sound in H1. destruct H1 as (M & K1 & K2 & K3 & K4).
    cbn [fst snd] in H2. rewrite (new_priv_ecdsa G hmac512 hmac_key kb _ K1 K3) in H2. injection H2 as <-.
    exists kb. split; [|split].
    - repeat split; try assumption; try apply K3.
    - unfold master_node, xprv_of.
      cbn [x_key x_chain x_depth x_child x_parent_fp o_data kd_depth kd_index kd_chain kd_fprint master_data].
      repeat split; try assumption. unfold spec_seed_min_bits. lia.
    - exact K4.
  Qed.

  Theorem from_seed_short fuel seed : (length seed < 16)%nat ->
    from_seed hmac512 D fuel seed = Err ValueError.
  Proof.
    intros H. unfold from_seed, master_key. rewrite seed_min_16.
    destruct (Nat.leb_spec 16 (length seed)); [lia|reflexivity].
  Qed.

  (* ---- one private child ---- *)
  Theorem child_key_conforms fuel o kb i o' : ecdsa_wf o kb ->
    child_key hash160 D fuel o i = Ok o' ->
    exists kb', ecdsa_wf o' kb' /\ spec_child (xprv_of o kb) i (xprv_of o' kb') /\
                length (kd_chain (o_data o')) = 32%nat.
  Proof.
    intros (W1 & W2 & W3 & W4 & W5) H. unfold child_key in H.
    destruct (N.leb_spec i bip32_index_max) as [Hi|]; [|discriminate]. rewrite W1 in H.
    apply bind_ok_inv in H. destruct H as ([kb' c'] & H1 & H2).
    cbn [d_ckd_priv ecdsa_ops] in H1. rewrite W5 in H1.
    pose proof (ckd_priv_ecdsa_key G hmac512 n_pos n_small HM _ _ _ _ _ _ _ H1) as (K1 & K2 & K3 & K4).
    apply (ckd_priv_ecdsa_sound G hmac512 n_pos n_small) in H1; [|assumption..].
    destruct H1 as [S1 S2]. cbn [fst snd] in H2. rewrite (new_priv_ecdsa G hmac512 hmac_key kb' _ K1 K3) in H2. injection H2 as <-.
    exists kb'. split; [|split].
    - repeat split; try assumption; try apply K3.
    - unfold child_node, xprv_of.
      cbn [x_key x_chain x_depth x_child x_parent_fp o_data kd_depth kd_index kd_chain kd_fprint child_data].
      split; [apply index_lt; exact Hi|]. split; [exact S1|].
      split; [reflexivity|]. split; [reflexivity|].
      unfold fingerprint, key_identifier, spec_fingerprint. cbn [d_pub_ser ecdsa_ops]. rewrite W5, fprint_len_4. reflexivity.
    - exact K4.
  Qed.

  (* the only way a private ECDSA derivation step can fail is fuel: no key error, no overflow *)
  Theorem child_key_priv_err fuel o kb i e : ecdsa_wf o kb -> i <= bip32_index_max ->
    child_key hash160 D fuel o i = Err e -> e = OutOfFuel.
  Proof.
    intros (W1 & _) Hi H. unfold child_key in H.
    destruct (N.leb_spec i bip32_index_max); [|lia]. rewrite W1 in H.
    apply bind_err_inv in H. destruct H as [H|([kb' c'] & H1 & H2)].
    - cbn [d_ckd_priv ecdsa_ops] in H. eapply (ckd_priv_ecdsa_err G hmac512 n_pos n_small); eauto.
    - cbn [d_ckd_priv ecdsa_ops] in H1.
      pose proof (ckd_priv_ecdsa_key G hmac512 n_pos n_small HM _ _ _ _ _ _ _ H1) as (K1 & K2 & K3 & K4).
      cbn [fst snd] in H2. rewrite (new_priv_ecdsa G hmac512 hmac_key kb' _ K1 K3) in H2. discriminate.
  Qed.

  (* ---- a whole path: node by node the key tree of the standard ---- *)
  Theorem derive_elems_conforms fuel : forall p o kb o', ecdsa_wf o kb ->
    derive_elems hash160 D fuel o p = Ok o' ->
    exists kb', ecdsa_wf o' kb' /\ spec_path (xprv_of o kb) p (xprv_of o' kb').
  Proof.
    induction p as [|i p IH]; intros o kb o' W H.
    - injection H as <-. exists kb. split; [exact W|constructor].
    - cbn [derive_elems] in H. apply bind_ok_inv in H. destruct H as (o1 & H1 & H2).
      destruct (child_key_conforms _ _ _ _ _ W H1) as (kb1 & W1 & C1 & _).
      destruct (IH _ _ _ W1 H2) as (kb' & W' & P'). exists kb'. split; [exact W'|].
      econstructor; eassumption.
  Qed.

  Theorem derivation_conforms fuel seed p o :
    from_seed_and_path hmac512 hash160 D fuel seed true p = Ok o ->
    exists kb m, ecdsa_wf o kb /\ spec_master seed m /\ spec_path m p (xprv_of o kb).
  Proof.
    unfold from_seed_and_path. intros H. apply bind_ok_inv in H. destruct H as (o0 & H1 & H2).
    destruct (from_seed_conforms _ _ _ H1) as (kb0 & W0 & M0 & _).
    unfold derive_path in H2.
    assert (Z : kd_depth (o_data o0) = 0) by (destruct M0 as (_ & _ & Z & _); exact Z).
    rewrite Z in H2. cbn in H2.
    destruct (derive_elems_conforms _ _ _ _ _ W0 H2) as (kb & W & P).
    exists kb, (xprv_of o0 kb0). auto.
  Qed.

  (* every key handed out is valid for the curve *)
  Theorem derived_key_valid o kb : ecdsa_wf o kb ->
    private_key D o = Ok kb /\ ecdsa_priv_valid G kb = true /\ int_to_be_fixed 32 (be_to_int kb) = Ok kb.
  Proof using Type.
    intros (W1 & W2 & W3 & W4 & W5). split; [unfold private_key; rewrite W1; reflexivity|].
    split; [apply ecdsa_valid_iff; auto|]. rewrite <- W2. apply be_fixed_roundtrip, W3.
  Qed.
End EcdsaObjects.

(* --------------------------------------------------------------------------------------------- *)
(* ed25519 / ed25519-blake2b: the standard with is_ed25519 = true; public keys are 0x00 || A where
   A is the curve's public key of the 32-byte secret ser256(k). *)
Section Ed25519Objects.
  Variable hmac512 : list N -> list N -> list N.
  Variable hash160 : list N -> list N.
  Variable ed_pub : list N -> list N.
  Variable n_any : N.                       (* the order plays no role in the ed25519 branch *)
  Hypothesis HM : hmac_ok hmac512.

  Notation D := (ed_ops hmac512 ed_pub).
  Notation edobj := (obj D).
  Notation ed_point := (fun k => ed_pub (spec_ser256 k)).
  Notation ed_serP := (fun A : list N => [0] ++ A).

  Notation spec_CKDpriv := (CKDpriv hmac512 true n_any (list N) ed_point ed_serP).
  Notation spec_master := (master_node hmac512 curve_ed25519_seed true n_any).
  Notation spec_child := (child_node hmac512 hash160 true n_any (list N) ed_point ed_serP).
  Notation spec_path := (path_node hmac512 hash160 true n_any (list N) ed_point ed_serP).

  Definition ed_wf (o : edobj) (kb : list N) : Prop :=
    o_priv o = Some kb /\ length kb = 32%nat /\ bytes_ok kb /\ o_pub o = ed_pub kb.
  Definition xprv_of_ed (o : edobj) (kb : list N) : xprv :=
    mk_xprv (be_to_int kb) (kd_chain (o_data o)) (kd_depth (o_data o)) (kd_index (o_data o))
            (kd_fprint (o_data o)).

  Lemma new_priv_ed kb kd : length kb = 32%nat ->
    new_priv D kb kd = Ok (mk_obj (D := D) (Some kb) (ed_pub kb) kd).
  Proof.
    intros H. unfold new_priv. cbn [d_priv_of_bytes ed_ops]. unfold ed_priv_of_bytes.
    rewrite ed25519_priv_len_32, H. reflexivity.
  Qed.

  Lemma ser256_of_key kb : length kb = 32%nat -> bytes_ok kb -> spec_ser256 (be_to_int kb) = kb.
  Proof. intros L B. unfold spec_ser256. rewrite <- L at 1. apply ser_be_of_bytes, B. Qed.

  (* CKDpriv, hardened *)
  Theorem ckd_priv_ed_sound fuel kb K c i kb' c' :
    bytes_ok kb -> length kb = 32%nat -> i <= bip32_index_max ->
    ckd_priv_ed hmac512 fuel kb K c i = Ok (kb', c') ->
    spec_CKDpriv (be_to_int kb) c i (be_to_int kb', c') /\
    length kb' = 32%nat /\ bytes_ok kb' /\ length c' = 32%nat.
  Proof.
    intros B L Hi E. unfold ckd_priv_ed in E. destruct (hardened i) eqn:Hh; [|discriminate].
    rewrite (ser32_spec i Hi), bind_ok in E. injection E as <- <-.
    rewrite left_half_IL, right_half_IR, ?priv_prefix_0.
    split; [|split; [apply IL_length, (proj1 HM)|split; [apply IL_ok, (proj2 HM)|apply IR_length, (proj1 HM)]]].
    eexists. split.
    - unfold ckd_priv_first. rewrite <- (hardened_spec i Hi), Hh, (ser256_of_key kb L B). reflexivity.
    - rewrite <- (parse256_be (IL _)). apply SpecSlip10.ckd_priv_ed. reflexivity.
  Qed.

  Theorem ckd_priv_ed_complete kb K c i r :
    bytes_ok kb -> length kb = 32%nat -> i <= bip32_index_max ->
    spec_CKDpriv (be_to_int kb) c i r ->
    forall fuel, ckd_priv_ed hmac512 fuel kb K c i = Ok (spec_ser256 (fst r), snd r).
  Proof.
    intros B L Hi (I & F & S) fuel. unfold ckd_priv_first in F. rewrite <- (hardened_spec i Hi) in F.
    unfold ckd_priv_ed. destruct (hardened i); [|discriminate].
    rewrite (ser256_of_key kb L B) in F.
    assert (EI : I = hmac512 c ([0] ++ kb ++ spec_ser32 i)) by congruence. clear F.
    rewrite (ser32_spec i Hi), bind_ok.
    inversion S as [I0 _ E1 E2| |]; [|discriminate|discriminate]. cbn [fst snd].
    rewrite left_half_IL, right_half_IR, priv_prefix_0. rewrite <- EI.
    rewrite (IL_ser I); [reflexivity|rewrite EI; apply (proj1 HM)|rewrite EI; apply (proj2 HM)].
  Qed.

  (* non-hardened derivation is refused, by the model as by the standard ("return failure") *)
  Theorem ed25519_soft_refused fuel (o : edobj) i :
    i <= bip32_index_max -> hardened i = false ->
    child_key hash160 D fuel o i = Err (LibError Bip32KeyError) /\
    (forall k c, CKDpriv_fails hmac512 true (list N) ed_point ed_serP k c i).
  Proof.
    intros Hi Hh. split.
    - unfold child_key. destruct (N.leb_spec i bip32_index_max); [|lia].
      destruct (o_priv o) as [k|].
      + cbn [d_ckd_priv ed_ops]. unfold ckd_priv_ed. rewrite Hh. reflexivity.
      + rewrite Hh. reflexivity.
    - intros k c. unfold CKDpriv_fails, ckd_priv_first. rewrite <- (hardened_spec i Hi), Hh. reflexivity.
  Qed.

  (* any public derivation on the ed25519 schemes is refused with the key error *)
  Theorem ed25519_public_refused fuel (o : edobj) i :
    o_priv o = None -> i <= bip32_index_max ->
    child_key hash160 D fuel o i = Err (LibError Bip32KeyError) /\
    (forall K c, CKDpub_fails hmac512 true (list N) ed_serP K c i).
  Proof.
    intros P Hi. split.
    - unfold child_key. destruct (N.leb_spec i bip32_index_max); [|lia]. rewrite P.
      destruct (hardened i); reflexivity.
    - intros K c. unfold CKDpub_fails, ckd_pub_first. destruct (spec_hardened i); reflexivity.
  Qed.

  (* master key: never re-hashed *)
  Theorem from_seed_conforms_ed fuel seed o : from_seed hmac512 D fuel seed = Ok o ->
    exists kb, ed_wf o kb /\ spec_master seed (xprv_of_ed o kb) /\ length (kd_chain (o_data o)) = 32%nat.
  Proof.
    unfold from_seed, master_key. intros H. apply bind_ok_inv in H. destruct H as ([kb c] & H1 & H2).
    rewrite seed_min_16 in H1. destruct (Nat.leb_spec 16 (length seed)) as [Hl|]; [|discriminate].
    destruct fuel as [|f]; [discriminate|].
    cbn [master_loop d_hmac_key d_priv_of_bytes ed_ops] in H1. unfold ed_priv_of_bytes in H1.
    rewrite ed25519_priv_len_32, left_half_IL, (IL_length _ (proj1 HM _ _)) in H1. cbn [Nat.eqb is_ok] in H1.
    injection H1 as <- <-. rewrite right_half_IR in H2. cbn [fst snd] in H2.
    rewrite (new_priv_ed _ _ (IL_length _ (proj1 HM _ _))) in H2. injection H2 as <-.
    exists (IL (hmac512 slip10_hmac_key_ed25519 seed)). split; [|split].
    - repeat split; [apply IL_length, (proj1 HM)|apply IL_ok, (proj2 HM)].
    - unfold master_node, xprv_of_ed.
      cbn [x_key x_chain x_depth x_child x_parent_fp o_data kd_depth kd_index kd_chain kd_fprint master_data].
      split; [unfold spec_seed_min_bits; lia|]. split; [|repeat split].
      rewrite <- parse256_be, hmac_key_ed25519_ok. apply master_done. left. reflexivity.
    - cbn. apply IR_length, (proj1 HM).
  Qed.

  Theorem child_key_conforms_ed fuel o kb i o' : ed_wf o kb ->
    child_key hash160 D fuel o i = Ok o' ->
    exists kb', ed_wf o' kb' /\ spec_child (xprv_of_ed o kb) i (xprv_of_ed o' kb').
  Proof.
    intros (W1 & W2 & W3 & W4) H. unfold child_key in H.
    destruct (N.leb_spec i bip32_index_max) as [Hi|]; [|discriminate]. rewrite W1 in H.
    apply bind_ok_inv in H. destruct H as ([kb' c'] & H1 & H2).
    cbn [d_ckd_priv ed_ops] in H1.
    apply ckd_priv_ed_sound in H1; [|assumption..]. destruct H1 as (S1 & K1 & K2 & K3).
    cbn [fst snd] in H2. rewrite (new_priv_ed kb' _ K1) in H2. injection H2 as <-.
    exists kb'. split.
    - repeat split; assumption.
    - unfold child_node, xprv_of_ed.
      cbn [x_key x_chain x_depth x_child x_parent_fp o_data kd_depth kd_index kd_chain kd_fprint child_data].
      split; [apply index_lt; exact Hi|]. split; [exact S1|].
      split; [reflexivity|]. split; [reflexivity|].
      unfold fingerprint, key_identifier, spec_fingerprint. cbn [d_pub_ser ed_ops]. unfold ed_pub_ser.
      rewrite W4, fprint_len_4, ed25519_pub_prefix_0, (ser256_of_key kb W2 W3). reflexivity.
  Qed.

  Theorem derive_elems_conforms_ed fuel : forall p o kb o', ed_wf o kb ->
    derive_elems hash160 D fuel o p = Ok o' ->
    exists kb', ed_wf o' kb' /\ spec_path (xprv_of_ed o kb) p (xprv_of_ed o' kb').
  Proof.
    induction p as [|i p IH]; intros o kb o' W H.
    - injection H as <-. exists kb. split; [exact W|constructor].
    - cbn [derive_elems] in H. apply bind_ok_inv in H. destruct H as (o1 & H1 & H2).
      destruct (child_key_conforms_ed _ _ _ _ _ W H1) as (kb1 & W1 & C1).
      destruct (IH _ _ _ W1 H2) as (kb' & W' & P'). exists kb'. split; [exact W'|].
      econstructor; eassumption.
  Qed.

  Theorem derivation_conforms_ed fuel seed p o :
    from_seed_and_path hmac512 hash160 D fuel seed true p = Ok o ->
    exists kb m, ed_wf o kb /\ spec_master seed m /\ spec_path m p (xprv_of_ed o kb).
  Proof.
    unfold from_seed_and_path. intros H. apply bind_ok_inv in H. destruct H as (o0 & H1 & H2).
    destruct (from_seed_conforms_ed _ _ _ H1) as (kb0 & W0 & M0 & _).
    unfold derive_path in H2.
    assert (Z : kd_depth (o_data o0) = 0) by (destruct M0 as (_ & _ & Z & _); exact Z).
    rewrite Z in H2. cbn in H2.
    destruct (derive_elems_conforms_ed _ _ _ _ _ W0 H2) as (kb & W & P).
    exists kb, (xprv_of_ed o0 kb0). auto.
  Qed.
End Ed25519Objects.

(* seeds shorter than the minimum are refused before any hashing, on every curve *)
Lemma from_seed_short_any hmac512 (D : deriv_ops) fuel seed : (length seed < 16)%nat ->
  from_seed hmac512 D fuel seed = Err ValueError.
Proof.
  intros H. unfold from_seed, master_key. rewrite seed_min_16.
  destruct (Nat.leb_spec 16 (length seed)); [lia|reflexivity].
Qed.

(* C04: public (watch-only) derivation is the public side of private derivation, BIP-32 / SLIP-0010
   ECDSA curves.  Everything here is over an abstract group with the Z-module laws as hypotheses
   (Lemmas/GroupLaws.v); [order_exact] is needed because the public side must recognise the point at
   infinity exactly when the private side sees a zero key. *)
From Coq Require Import NArith Arith List Lia Bool.
From BU Require Import Base.Exn Base.Radix Base.Bytes Model.Group Gen.DerivConsts.
From BU Require Import Model.SpecSlip10 Model.Bip32Slip10.
From BU Require Import Lemmas.DerivAux Lemmas.DerivConstsOk Lemmas.GroupLaws Lemmas.Bip32Slip10 Lemmas.Bip32Base.
Import ListNotations.
Open Scope N_scope.

Section Commute.
  Variable G : group_ops.
  Variable hmac512 : list N -> list N -> list N.
  Variable hash160 : list N -> list N.
  Variable hmac_key : list N.
  Notation n := (order G).
  Hypothesis n_pos : 0 < n.
  Hypothesis n_small : n <= 2 ^ 256.
  Hypothesis HM : hmac_ok hmac512.
  Hypothesis L : group_laws G.
  Hypothesis X : order_exact G.

  Notation D := (ecdsa_ops G hmac512 hmac_key).

  (* the public image of a private derivation result *)
  Definition pub_of_result (kc : list N * list N) : pt G * list N :=
    (point_of (be_to_int (fst kc)), snd kc).

  Lemma zero_test_agrees k il :
    is_zero (add (@point_of G k) (smul il base)) = ((il + k) mod n =? 0).
  Proof.
    pose proof (is_zero_sum_iff G L X k il) as Z. unfold point_of. rewrite (N.add_comm il k).
    destruct (is_zero (add (smul k base) (smul il base))); destruct (N.eqb_spec ((k + il) mod n) 0) as [E|E];
      try reflexivity.
    - exfalso. apply E, Z. reflexivity.
    - apply Z in E. discriminate.
  Qed.

  (* the two re-hash loops run in lock step *)
  Lemma loops_commute fuel k c ib : forall I,
    ckd_pub_loop G hmac512 fuel (point_of k) c ib I =
    (kc <- ckd_priv_loop G hmac512 fuel k c ib I ;; Ok (pub_of_result kc)).
  Proof.
    induction fuel as [|f IH]; intros I; [reflexivity|].
    cbn [ckd_pub_loop ckd_priv_loop]. rewrite zero_test_agrees.
    destruct ((n <=? be_to_int (left_half I)) || ((be_to_int (left_half I) + k) mod n =? 0)); [apply IH|].
    rewrite ecdsa_priv_len_32, int_to_be_fixed_ser.
    - rewrite !bind_ok. unfold pub_of_result. cbn [fst snd].
      rewrite ser_be_value by (rewrite pow256_32; pose proof (N.mod_lt (be_to_int (left_half I) + k) n); lia).
      unfold point_of. rewrite (N.add_comm (be_to_int (left_half I)) k), (smul_add_mod G L). reflexivity.
    - rewrite pow256_32. pose proof (N.mod_lt (be_to_int (left_half I) + k) n). lia.
  Qed.

  (* CkdPub o N = N o CkdPriv for non-hardened indices *)
  Theorem ckd_commutes fuel kb c i : hardened i = false ->
    ckd_pub_ecdsa G hmac512 fuel (point_of (be_to_int kb)) c i =
    (kc <- ckd_priv_ecdsa G hmac512 fuel kb (point_of (be_to_int kb)) c i ;; Ok (pub_of_result kc)).
  Proof.
    intros Hh. unfold ckd_pub_ecdsa, ckd_priv_ecdsa, ckd_data. rewrite Hh.
    destruct (ser32 i) as [ib|e]; [|reflexivity]. cbn [bind]. apply loops_commute.
  Qed.

  Lemma convert_fingerprint (o : obj D) :
    fingerprint hash160 D (convert_to_public D o) = fingerprint hash160 D o.
  Proof. reflexivity. Qed.

  Lemma new_pub_ecdsa k kd : 0 < k < n ->
    new_pub D (point_of k) kd = Ok (mk_obj (D := D) None (point_of k) kd).
  Proof.
    intros Hk. unfold new_pub. cbn [d_pub_check ecdsa_ops]. unfold ecdsa_pub_check.
    replace (is_zero (@point_of G k)) with false; [reflexivity|].
    symmetry. apply (is_zero_false_iff G L). apply (point_of_valid_nonzero G X). exact Hk.
  Qed.

  (* ChildKey on the public-only object = public half of ChildKey on the private object:
     key, chain code, depth, index, parent fingerprint -- the whole object -- and the same
     failure (fuel) if any *)
  Theorem child_key_commutes fuel o kb i : ecdsa_wf G hmac512 hmac_key o kb -> hardened i = false ->
    child_key hash160 D fuel (convert_to_public D o) i =
    rmap (convert_to_public D) (child_key hash160 D fuel o i).
  Proof.
    intros W Hh. pose proof W as (W1 & W2 & W3 & W4 & W5). unfold child_key.
    destruct (N.leb_spec i bip32_index_max) as [Hi|]; [|reflexivity].
    cbn [convert_to_public o_priv o_pub o_data]. rewrite W1, Hh. cbn [negb d_ckd_priv d_ckd_pub ecdsa_ops].
    rewrite W5, (ckd_commutes fuel kb _ i Hh).
    destruct (ckd_priv_ecdsa G hmac512 fuel kb (point_of (be_to_int kb)) (kd_chain (o_data o)) i) as [[kb' c']|e] eqn:E;
      [|reflexivity].
    cbn [bind]. unfold pub_of_result. cbn [fst snd]. rewrite bind_ok. cbn [fst snd].
    destruct (ckd_priv_ecdsa_key G hmac512 n_pos n_small HM _ _ _ _ _ _ _ E) as (K1 & K2 & K3 & K4).
    rewrite (new_priv_ecdsa G hmac512 hmac_key kb' _ K1 K3), (new_pub_ecdsa _ _ K3).
    cbn [rmap]. unfold convert_to_public, child_data, fingerprint, key_identifier. cbn [o_pub o_data]. reflexivity.
  Qed.

  (* ... and along any non-hardened path *)
  Theorem derive_commutes fuel : forall p o kb, ecdsa_wf G hmac512 hmac_key o kb ->
    Forall (fun i => hardened i = false) p ->
    derive_elems hash160 D fuel (convert_to_public D o) p =
    rmap (convert_to_public D) (derive_elems hash160 D fuel o p).
  Proof.
    induction p as [|i p IH]; intros o kb W F; [reflexivity|].
    inversion F as [|? ? Hi Fp]; subst. cbn [derive_elems].
    rewrite (child_key_commutes fuel o kb i W Hi).
    destruct (child_key hash160 D fuel o i) as [o1|e] eqn:E; [|reflexivity].
    cbn [rmap bind].
    destruct (child_key_conforms G hmac512 hash160 hmac_key n_pos n_small HM _ _ _ _ _ W E) as (kb1 & W1 & _).
    apply (IH o1 kb1 W1 Fp).
  Qed.

  (* the same identity between the standard's own relations: N(CKDpriv(x, i)) = CKDpub(N(x), i) *)
  Lemma spec_from_commutes k c i I r :
    ckd_priv_from hmac512 false n k c i I r ->
    ckd_pub_from hmac512 n (pt G) point_of add zero (point_of k) c i I (point_of (fst r), snd r).
  Proof.
    induction 1 as [I Hed | I _ Hlt Hnz | I r _ Hbad _ IH]; [discriminate| |].
    - cbn [fst snd]. unfold point_of. rewrite (smul_add_mod G L). apply ckd_pub_valid; [exact Hlt|].
      fold (@point_of G (parse256 (IL I))). unfold point_of. rewrite <- (smul_add G L).
      intro Z. apply X in Z. contradiction.
    - apply ckd_pub_restart; [|exact IH].
      destruct Hbad as [H|H]; [left; exact H|right].
      unfold point_of. rewrite <- (smul_add G L). apply (smul_mod_zero G L). exact H.
  Qed.

  Theorem spec_commutes k c i r : spec_hardened i = false ->
    CKDpriv hmac512 false n (pt G) point_of ser_c k c i r ->
    CKDpub hmac512 false n (pt G) point_of ser_c add zero (point_of k) c i (point_of (fst r), snd r).
  Proof.
    intros Hh (I & F & S). unfold ckd_priv_first in F. rewrite Hh in F. injection F as <-.
    eexists. split; [unfold ckd_pub_first; rewrite Hh; reflexivity|].
    apply spec_from_commutes. exact S.
  Qed.
End Commute.

(* --------------------------------------------------------------------------------------------- *)
(* The code as it stands: commutation holds under the guard 0 < IL < n and a non-zero child (the
   complement is F1 on the derivation side and F15 on the scalar-multiplication adapter). *)
Section CommuteCurrent.
  Variable G : group_ops.
  Variable hmac512 : list N -> list N -> list N.
  Notation n := (order G).
  Hypothesis n_pos : 0 < n.
  Hypothesis n_small : n <= 2 ^ 256.
  Hypothesis L : group_laws G.

  Theorem ckd_commutes_current fuel kb c i kb' c' : hardened i = false ->
    ckd_priv_ecdsa_current G hmac512 fuel kb (point_of (be_to_int kb)) c i = Ok (kb', c') ->
    ckd_pub_ecdsa_current G hmac512 fuel (point_of (be_to_int kb)) c i = Ok (point_of (be_to_int kb'), c').
  Proof.
    intros Hh. unfold ckd_priv_ecdsa_current, ckd_pub_ecdsa_current, ckd_data. rewrite Hh.
    destruct (ser32 i) as [ib|e]; [|discriminate]. cbn [bind].
    set (I := hmac512 c (ser_c (@point_of G (be_to_int kb)) ++ ib)).
    rewrite ecdsa_priv_len_32, int_to_be_fixed_ser
      by (rewrite pow256_32; pose proof (N.mod_lt (be_to_int (left_half I) + be_to_int kb) n); lia).
    rewrite bind_ok. intros E. injection E as <- <-.
    rewrite ser_be_value by (rewrite pow256_32; pose proof (N.mod_lt (be_to_int (left_half I) + be_to_int kb) n); lia).
    unfold point_of. rewrite (N.add_comm (be_to_int (left_half I))), (smul_add_mod G L). reflexivity.
  Qed.
End CommuteCurrent.

(* str.split() and " ".join: every white-space layout of the same words splits to the same word
   list (Bip39Mnemonic.FromString / Mnemonic.ToStr).  Used by C01 (string-level round trip) and
   C02 (seed invariance). *)
From Coq Require Import NArith Arith List Lia Bool.
From BU Require Import Base.Exn Base.Bytes Model.BinStr Model.Bip39 Gen.Bip39Consts.
Import ListNotations.
Open Scope N_scope.

(* ------------------------------------------------------------------ str.split() *)

Definition all_space (s : list N) : Prop := Forall (fun c => is_space c = true) s.
Definition plain (w : list N) : Prop := w <> [] /\ Forall (fun c => is_space c = false) w.

Lemma split_ws_lead sp s : all_space sp -> split_ws (sp ++ s) = split_ws s.
Proof.
  induction 1 as [|c t Hc Ht IH]; [reflexivity|]. cbn [app split_ws]. rewrite Hc. exact IH.
Qed.

Lemma split_ws_all_space sp : all_space sp -> split_ws sp = [].
Proof. intros H. rewrite <- (app_nil_r sp). rewrite split_ws_lead by exact H. reflexivity. Qed.

Lemma split_ws_word_end w : plain w -> split_ws w = [w].
Proof.
  intros [Hne Hp]. induction Hp as [|a t Ha Ht IH]; [congruence|].
  cbn [split_ws]. rewrite Ha. destruct t as [|b t']; [reflexivity|].
  inversion Ht as [|? ? Hb _]; subst. rewrite Hb. rewrite IH by discriminate. reflexivity.
Qed.

Lemma split_ws_word_sep w c s : plain w -> is_space c = true -> split_ws (w ++ c :: s) = w :: split_ws s.
Proof.
  intros [Hne Hp] Hc. induction Hp as [|a t Ha Ht IH]; [congruence|].
  cbn [app split_ws]. rewrite Ha. destruct t as [|b t'].
  - cbn [app]. rewrite Hc. cbn [split_ws]. rewrite Hc. reflexivity.
  - inversion Ht as [|? ? Hb _]; subst. cbn [app]. rewrite Hb.
    change (b :: t' ++ c :: s) with ((b :: t') ++ c :: s). rewrite IH by discriminate. reflexivity.
Qed.

(* words joined by arbitrary non-empty white-space runs (missing runs default to one space) *)
Fixpoint join_with (seps : list (list N)) (ws : list (list N)) : list N :=
  match ws with
  | [] => []
  | [w] => w
  | w :: t => match seps with
              | sp :: seps' => w ++ sp ++ join_with seps' t
              | [] => w ++ [32] ++ join_with [] t
              end
  end.

Lemma join_sp_with ws : join_sp ws = join_with [] ws.
Proof.
  induction ws as [|w t IH]; [reflexivity|]. destruct t as [|w' t']; [reflexivity|].
  cbn [join_sp join_with] in *. rewrite IH. reflexivity.
Qed.

Lemma space_32 : is_space 32 = true. Proof. reflexivity. Qed.

Theorem split_join_with ws : Forall plain ws -> forall seps lead trail,
  Forall (fun sp => sp <> [] /\ all_space sp) seps -> all_space lead -> all_space trail ->
  split_ws (lead ++ join_with seps ws ++ trail) = ws.
Proof.
  induction 1 as [|w t Hw Ht IH]; intros seps lead trail Hs Hl Htr.
  - cbn [join_with app]. apply split_ws_all_space. apply Forall_app. auto.
  - rewrite split_ws_lead by exact Hl. destruct t as [|w' t'].
    + cbn [join_with]. destruct trail as [|c tr].
      * rewrite app_nil_r. apply split_ws_word_end. exact Hw.
      * inversion Htr as [|? ? Hc Htr']; subst. rewrite split_ws_word_sep by assumption.
        rewrite split_ws_all_space by exact Htr'. reflexivity.
    + destruct seps as [|sp seps'].
      * cbn [join_with]. rewrite <- !app_assoc. cbn [app].
        rewrite split_ws_word_sep by (try exact Hw; exact space_32). f_equal.
        apply (IH [] [] trail); [constructor|constructor|exact Htr].
      * inversion Hs as [|? ? [Hne Hsp] Hs']; subst. cbn [join_with]. rewrite <- !app_assoc.
        destruct sp as [|c sp']; [congruence|]. inversion Hsp as [|? ? Hc Hsp']; subst.
        cbn [app]. rewrite split_ws_word_sep by assumption. f_equal.
        apply (IH seps' sp' trail); assumption.
Qed.

Corollary split_join_sp ws : Forall plain ws -> split_ws (join_sp ws) = ws.
Proof.
  intros H. rewrite join_sp_with. pose proof (split_join_with ws H [] [] []) as P.
  cbn [app] in P. rewrite app_nil_r in P. apply P; constructor.
Qed.


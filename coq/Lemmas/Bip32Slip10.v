(* Proofs about Model/Bip32Slip10.v: the model with SLIP-0010's re-hash loops equals the standard
   as transcribed in Model/SpecSlip10.v; validity of every derived key; metadata; refusals; the fold
   along a path; and what holds / fails of the code's present no-retry derivation (F1). *)
From Coq Require Import NArith Arith List Lia Bool.
From BU Require Import Base.Exn Base.Radix Base.Bytes Model.Group Gen.DerivConsts.
From BU Require Import Model.SpecSlip10 Model.Bip32Slip10 Lemmas.DerivAux Lemmas.DerivConstsOk Lemmas.GroupLaws.
Import ListNotations.
Open Scope N_scope.

(* the only facts assumed of HMAC-SHA512: 64 output bytes *)
Definition hmac_ok (hmac512 : list N -> list N -> list N) : Prop :=
  (forall k m, length (hmac512 k m) = 64%nat) /\ (forall k m, bytes_ok (hmac512 k m)).

Lemma left_half_IL I : left_half I = IL I.
Proof. reflexivity. Qed.
Lemma right_half_IR I : right_half I = IR I.
Proof. reflexivity. Qed.

Lemma IL_length I : length I = 64%nat -> length (IL I) = 32%nat.
Proof. intros H. unfold IL. rewrite firstn_length, H. reflexivity. Qed.
Lemma IR_length I : length I = 64%nat -> length (IR I) = 32%nat.
Proof. intros H. unfold IR. rewrite skipn_length, H. reflexivity. Qed.
Lemma IL_ok I : bytes_ok I -> bytes_ok (IL I).
Proof. apply bytes_ok_firstn. Qed.

Lemma IL_ser I : length I = 64%nat -> bytes_ok I -> spec_ser256 (parse256 (IL I)) = IL I.
Proof.
  intros L B. rewrite parse256_be. unfold spec_ser256.
  rewrite <- (IL_length I L) at 1. apply ser_be_of_bytes, IL_ok, B.
Qed.

Lemma hardened_spec i : i <= bip32_index_max -> hardened i = spec_hardened i.
Proof.
  intros H. unfold hardened, spec_hardened. rewrite hardened_bit_31. apply testbit31_ge.
  rewrite index_max_val in H. lia.
Qed.

Lemma ser32_spec i : i <= bip32_index_max -> ser32 i = Ok (spec_ser32 i).
Proof.
  intros H. unfold ser32, spec_ser32. rewrite index_len_4. apply int_to_be_fixed_ser.
  rewrite pow256_4. rewrite index_max_val in H. lia.
Qed.

Lemma index_lt i : i <= bip32_index_max <-> i < 2 ^ 32.
Proof. rewrite index_max_val. lia. Qed.

(* --------------------------------------------------------------------------------------------- *)
Section EcdsaProofs.
  Variable G : group_ops.
  Variable hmac512 : list N -> list N -> list N.
  Notation n := (order G).
  Hypothesis n_pos : 0 < n.
  Hypothesis n_small : n <= 2 ^ 256.          (* a scalar below n fits 32 bytes *)
  Hypothesis HM : hmac_ok hmac512.

  (* the standard's relations at this curve *)
  Notation spec_priv_from := (ckd_priv_from hmac512 false n).
  Notation spec_CKDpriv := (CKDpriv hmac512 false n (pt G) point_of ser_c).
  Notation spec_pub_from := (ckd_pub_from hmac512 n (pt G) point_of add zero).
  Notation spec_CKDpub := (CKDpub hmac512 false n (pt G) point_of ser_c add zero).

  Lemma mod_n_lt x : x mod n < 2 ^ 256.
  Proof. pose proof (N.mod_lt x n). lia. Qed.

  (* ---- the retry loop of CKDpriv is the standard's restart relation ---- *)
  Lemma ckd_priv_loop_sound fuel kpar cpar i : forall I kb c,
    ckd_priv_loop G hmac512 fuel kpar cpar (spec_ser32 i) I = Ok (kb, c) ->
    spec_priv_from kpar cpar i I (be_to_int kb, c) /\ kb = spec_ser256 (be_to_int kb).
  Proof.
    induction fuel as [|f IH]; intros I kb c E; [discriminate|].
    cbn [ckd_priv_loop] in E. rewrite left_half_IL, right_half_IR, <- parse256_be in E.
    destruct (N.leb_spec n (parse256 (IL I))) as [Hge|Hlt]; cbn [orb] in E.
    - destruct (IH _ _ _ E) as [S1 S2]. split; [|exact S2].
      apply ckd_priv_restart; [reflexivity|left; exact Hge|exact S1].
    - destruct (N.eqb_spec ((parse256 (IL I) + kpar) mod n) 0) as [Hz|Hnz].
      + destruct (IH _ _ _ E) as [S1 S2]. split; [|exact S2].
        apply ckd_priv_restart; [reflexivity|right; exact Hz|exact S1].
      + rewrite ecdsa_priv_len_32, int_to_be_fixed_ser in E by (rewrite pow256_32; apply mod_n_lt).
        rewrite bind_ok in E. injection E as <- <-.
        rewrite ser_be_value by (rewrite pow256_32; apply mod_n_lt).
        split; [|reflexivity]. apply ckd_priv_valid; [reflexivity|exact Hlt|exact Hnz].
  Qed.

  Lemma ckd_priv_loop_mono fuel kpar cpar ib : forall I r,
    ckd_priv_loop G hmac512 fuel kpar cpar ib I = Ok r ->
    ckd_priv_loop G hmac512 (S fuel) kpar cpar ib I = Ok r.
  Proof.
    induction fuel as [|f IH]; intros I r E; [discriminate|].
    cbn [ckd_priv_loop] in E. cbn [ckd_priv_loop].
    destruct (_ || _); [|exact E]. apply IH in E. exact E.
  Qed.

  Lemma ckd_priv_loop_mono_le f1 f2 kpar cpar ib I r : (f1 <= f2)%nat ->
    ckd_priv_loop G hmac512 f1 kpar cpar ib I = Ok r ->
    ckd_priv_loop G hmac512 f2 kpar cpar ib I = Ok r.
  Proof.
    induction 1 as [|m _ IH]; intros E; [exact E|]. apply ckd_priv_loop_mono, IH, E.
  Qed.

  Lemma ckd_priv_loop_complete kpar cpar i I r :
    spec_priv_from kpar cpar i I r ->
    exists fuel, ckd_priv_loop G hmac512 fuel kpar cpar (spec_ser32 i) I = Ok (spec_ser256 (fst r), snd r).
  Proof.
    induction 1 as [I Hed | I _ Hlt Hnz | I r _ Hbad _ [f IH]].
    - discriminate.
    - exists 1%nat. cbn [ckd_priv_loop fst snd]. rewrite left_half_IL, right_half_IR, <- parse256_be.
      destruct (N.leb_spec n (parse256 (IL I))); [lia|].
      destruct (N.eqb_spec ((parse256 (IL I) + kpar) mod n) 0); [contradiction|]. cbn [orb].
      rewrite ecdsa_priv_len_32, int_to_be_fixed_ser by (rewrite pow256_32; apply mod_n_lt). reflexivity.
    - exists (S f). cbn [ckd_priv_loop]. rewrite left_half_IL, right_half_IR, <- parse256_be.
      replace ((n <=? parse256 (IL I)) || ((parse256 (IL I) + kpar) mod n =? 0)) with true; [exact IH|].
      symmetry. apply orb_true_iff. destruct Hbad as [H|H]; [left; apply N.leb_le; exact H|right; apply N.eqb_eq; exact H].
  Qed.

  (* the standard's CKDpriv is a (partial) function *)
  Lemma spec_priv_from_functional kpar cpar i I r1 :
    spec_priv_from kpar cpar i I r1 -> forall r2, spec_priv_from kpar cpar i I r2 -> r1 = r2.
  Proof.
    induction 1 as [I Hed | I _ Hlt Hnz | I r _ Hbad _ IH]; intros r2 H2.
    - discriminate.
    - inversion H2; subst; [discriminate|reflexivity|]. match goal with H : _ \/ _ |- _ => destruct H end; [lia|contradiction].
    - inversion H2; subst; [discriminate| |].
      + destruct Hbad; [lia|contradiction].
      + apply IH. assumption.
  Qed.

  (* every key the loop returns is a valid key, 32 bytes, and the only failure is fuel *)
  Lemma ckd_priv_loop_key fuel kpar cpar ib : forall I kb c,
    ckd_priv_loop G hmac512 fuel kpar cpar ib I = Ok (kb, c) ->
    length kb = 32%nat /\ bytes_ok kb /\ 0 < be_to_int kb < n.
  Proof.
    induction fuel as [|f IH]; intros I kb c E; [discriminate|].
    cbn [ckd_priv_loop] in E.
    destruct (N.leb_spec n (be_to_int (left_half I))) as [Hge|Hlt]; cbn [orb] in E; [eapply IH; eauto|].
    destruct (N.eqb_spec ((be_to_int (left_half I) + kpar) mod n) 0) as [Hz|Hnz]; [eapply IH; eauto|].
    destruct (int_to_be_fixed ecdsa_priv_len _) as [b|e] eqn:F; cbn in E; [|discriminate].
    injection E as <- <-. apply int_to_be_fixed_inv in F. destruct F as (F1 & F2 & F3).
    rewrite F3. split; [exact F2|]. split; [exact F1|]. pose proof (N.mod_lt (be_to_int (left_half I) + kpar) n). lia.
  Qed.

  Lemma ckd_priv_loop_err fuel kpar cpar ib : forall I e,
    ckd_priv_loop G hmac512 fuel kpar cpar ib I = Err e -> e = OutOfFuel.
  Proof.
    induction fuel as [|f IH]; intros I e E; [injection E as <-; reflexivity|].
    cbn [ckd_priv_loop] in E. destruct (_ || _); [eapply IH; eauto|].
    rewrite ecdsa_priv_len_32, int_to_be_fixed_ser in E by (rewrite pow256_32; apply mod_n_lt). discriminate.
  Qed.

  (* chain codes are right halves of HMAC outputs: 32 bytes *)
  Lemma ckd_priv_loop_chain fuel kpar cpar ib : forall I kb c, length I = 64%nat ->
    ckd_priv_loop G hmac512 fuel kpar cpar ib I = Ok (kb, c) -> length c = 32%nat.
  Proof.
    induction fuel as [|f IH]; intros I kb c L E; [discriminate|].
    cbn [ckd_priv_loop] in E. destruct (_ || _).
    - eapply IH; [|exact E]. apply (proj1 HM).
    - destruct (int_to_be_fixed _ _); [cbn [bind] in E|discriminate]. injection E as <- <-.
      rewrite right_half_IR. apply IR_length, L.
  Qed.


  (* ---- CKDpriv as a whole ---- *)
  Lemma ckd_first_spec kb c i : bytes_ok kb -> length kb = 32%nat -> i <= bip32_index_max ->
    ckd_priv_first hmac512 false (pt G) point_of ser_c (be_to_int kb) c i =
    Some (hmac512 c (ckd_data G kb (point_of (be_to_int kb)) i (spec_ser32 i))).
  Proof.
    intros B L Hi. unfold ckd_priv_first, ckd_data. rewrite (hardened_spec i Hi).
    destruct (spec_hardened i); [|reflexivity].
    rewrite priv_prefix_0. unfold spec_ser256. rewrite <- L at 1. rewrite (ser_be_of_bytes kb B). reflexivity.
  Qed.

  Theorem ckd_priv_ecdsa_sound fuel kb c i kb' c' :
    bytes_ok kb -> length kb = 32%nat -> i <= bip32_index_max ->
    ckd_priv_ecdsa G hmac512 fuel kb (point_of (be_to_int kb)) c i = Ok (kb', c') ->
    spec_CKDpriv (be_to_int kb) c i (be_to_int kb', c') /\ kb' = spec_ser256 (be_to_int kb').
  Proof.
    intros B L Hi E. unfold ckd_priv_ecdsa in E. rewrite (ser32_spec i Hi), bind_ok in E.
    destruct (ckd_priv_loop_sound _ _ _ _ _ _ _ E) as [S1 S2]. split; [|exact S2].
    eexists. split; [apply ckd_first_spec; assumption|exact S1].
  Qed.

  Theorem ckd_priv_ecdsa_complete kb c i r :
    bytes_ok kb -> length kb = 32%nat -> i <= bip32_index_max ->
    spec_CKDpriv (be_to_int kb) c i r ->
    exists fuel, ckd_priv_ecdsa G hmac512 fuel kb (point_of (be_to_int kb)) c i = Ok (spec_ser256 (fst r), snd r).
  Proof.
    intros B L Hi (I & F & S). rewrite (ckd_first_spec kb c i B L Hi) in F. injection F as <-.
    destruct (ckd_priv_loop_complete _ _ _ _ _ S) as [fuel E]. exists fuel.
    unfold ckd_priv_ecdsa. rewrite (ser32_spec i Hi), bind_ok. exact E.
  Qed.

  Theorem spec_CKDpriv_functional kpar c i r1 r2 :
    spec_CKDpriv kpar c i r1 -> spec_CKDpriv kpar c i r2 -> r1 = r2.
  Proof.
    intros (I1 & F1 & S1) (I2 & F2 & S2). rewrite F1 in F2. injection F2 as <-.
    eapply spec_priv_from_functional; eauto.
  Qed.

  Theorem ckd_priv_ecdsa_key fuel kb K c i kb' c' :
    ckd_priv_ecdsa G hmac512 fuel kb K c i = Ok (kb', c') ->
    length kb' = 32%nat /\ bytes_ok kb' /\ 0 < be_to_int kb' < n /\ length c' = 32%nat.
  Proof.
    unfold ckd_priv_ecdsa. intros E. apply bind_ok_inv in E. destruct E as (ib & _ & E).
    pose proof (ckd_priv_loop_key _ _ _ _ _ _ _ E) as (K1 & K2 & K3).
    repeat split; try assumption; try apply K3.
    eapply ckd_priv_loop_chain; [|exact E]. apply (proj1 HM).
  Qed.

  Theorem ckd_priv_ecdsa_err fuel kb K c i e : i <= bip32_index_max ->
    ckd_priv_ecdsa G hmac512 fuel kb K c i = Err e -> e = OutOfFuel.
  Proof.
    intros Hi E. unfold ckd_priv_ecdsa in E. rewrite (ser32_spec i Hi), bind_ok in E.
    eapply ckd_priv_loop_err; eauto.
  Qed.

  (* ---- BIP-32's rule: whenever BIP-32 itself yields a key for i, SLIP-0010 yields the same ---- *)
  Theorem slip10_extends_bip32 kpar c i r :
    bip32_ckd_priv hmac512 n (pt G) point_of ser_c kpar c i = Some r -> spec_CKDpriv kpar c i r.
  Proof.
    unfold bip32_ckd_priv, CKDpriv, ckd_priv_first. intros E.
    destruct (spec_hardened i).
    - eexists; split; [reflexivity|].
      destruct (N.leb_spec n (parse256 (IL (hmac512 c ([0] ++ spec_ser256 kpar ++ spec_ser32 i))))) as [|Hlt]; [discriminate|].
      destruct (N.eqb_spec ((parse256 (IL (hmac512 c ([0] ++ spec_ser256 kpar ++ spec_ser32 i))) + kpar) mod n) 0) as [|Hnz]; [discriminate|].
      cbn [orb] in E. injection E as <-. apply ckd_priv_valid; [reflexivity|exact Hlt|exact Hnz].
    - eexists; split; [reflexivity|].
      destruct (N.leb_spec n (parse256 (IL (hmac512 c (ser_c (@point_of G kpar) ++ spec_ser32 i))))) as [|Hlt]; [discriminate|].
      destruct (N.eqb_spec ((parse256 (IL (hmac512 c (ser_c (@point_of G kpar) ++ spec_ser32 i))) + kpar) mod n) 0) as [|Hnz]; [discriminate|].
      cbn [orb] in E. injection E as <-. apply ckd_priv_valid; [reflexivity|exact Hlt|exact Hnz].
  Qed.

  (* ---- CKDpub (needs the group laws only to read the code's "P + iL*G" as the standard's
     "point(IL) + K_par" and the zero test as equality with the point at infinity) ---- *)
  Section Pub.
    Hypothesis L : group_laws G.

    Lemma ckd_pub_loop_sound fuel Kpar cpar i : forall I K c,
      ckd_pub_loop G hmac512 fuel Kpar cpar (spec_ser32 i) I = Ok (K, c) ->
      spec_pub_from Kpar cpar i I (K, c).
    Proof.
      induction fuel as [|f IH]; intros I K c E; [discriminate|].
      cbn [ckd_pub_loop] in E. rewrite left_half_IL, right_half_IR, <- parse256_be in E.
      rewrite (add_comm G L Kpar) in E. change (smul (parse256 (IL I)) base) with (@point_of G (parse256 (IL I))) in E.
      destruct (N.leb_spec n (parse256 (IL I))) as [Hge|Hlt]; cbn [orb] in E.
      - apply ckd_pub_restart; [left; exact Hge|apply IH; exact E].
      - destruct (is_zero (add (point_of (parse256 (IL I))) Kpar)) eqn:Z.
        + apply ckd_pub_restart; [right; apply (is_zero_spec G L); exact Z|apply IH; exact E].
        + injection E as <- <-. apply ckd_pub_valid; [exact Hlt|].
          apply (is_zero_false_iff G L). exact Z.
    Qed.

    Lemma ckd_pub_loop_complete Kpar cpar i I r :
      spec_pub_from Kpar cpar i I r ->
      exists fuel, ckd_pub_loop G hmac512 fuel Kpar cpar (spec_ser32 i) I = Ok r.
    Proof.
      induction 1 as [I Hlt Hnz | I r Hbad _ [f IH]].
      - exists 1%nat. cbn [ckd_pub_loop]. rewrite left_half_IL, right_half_IR, <- parse256_be.
        rewrite (add_comm G L Kpar). change (smul (parse256 (IL I)) base) with (@point_of G (parse256 (IL I))).
        destruct (N.leb_spec n (parse256 (IL I))); [lia|]. cbn [orb].
        apply (is_zero_false_iff G L) in Hnz. rewrite Hnz. reflexivity.
      - exists (S f). cbn [ckd_pub_loop]. rewrite left_half_IL, right_half_IR, <- parse256_be.
        rewrite (add_comm G L Kpar). change (smul (parse256 (IL I)) base) with (@point_of G (parse256 (IL I))).
        replace ((n <=? parse256 (IL I)) || is_zero (add (point_of (parse256 (IL I))) Kpar)) with true; [exact IH|].
        symmetry. apply orb_true_iff. destruct Hbad as [H|H]; [left; apply N.leb_le; exact H|right; apply (is_zero_spec G L); exact H].
    Qed.

    Theorem ckd_pub_ecdsa_sound fuel K c i K' c' : i <= bip32_index_max -> hardened i = false ->
      ckd_pub_ecdsa G hmac512 fuel K c i = Ok (K', c') -> spec_CKDpub K c i (K', c').
    Proof.
      intros Hi Hh E. unfold ckd_pub_ecdsa in E. rewrite (ser32_spec i Hi), bind_ok in E.
      exists (hmac512 c (ser_c K ++ spec_ser32 i)). split.
      - unfold ckd_pub_first. rewrite <- (hardened_spec i Hi), Hh. reflexivity.
      - apply (ckd_pub_loop_sound _ _ _ _ _ _ _ E).
    Qed.

    Theorem ckd_pub_ecdsa_complete K c i r : i <= bip32_index_max ->
      spec_CKDpub K c i r -> exists fuel, ckd_pub_ecdsa G hmac512 fuel K c i = Ok r.
    Proof.
      intros Hi (I & F & S). unfold ckd_pub_first in F.
      destruct (spec_hardened i); [discriminate|]. injection F as <-.
      destruct (ckd_pub_loop_complete _ _ _ _ _ S) as [fuel E]. exists fuel.
      unfold ckd_pub_ecdsa. rewrite (ser32_spec i Hi), bind_ok. exact E.
    Qed.
  End Pub.
End EcdsaProofs.

(* The Bech32 <-> Bech32m switch.  A SegWit string valid under one constant and a corrupted copy valid under the
   other must differ in the version symbol (zero <-> non-zero); the version-0 one has a 20- or 32-byte program,
   i.e. 38 or 58 symbols after the version symbol.  For these two lengths: if the first symbols differ and at
   most two of the remaining symbols do, the final states never differ by
   (Bech32 constant) xor (Bech32m constant).  Evaluated by the kernel on the constants regenerated from the
   source (about 0.1 million look-ups).  With three further symbols it is false (segwit_cross_witness). *)
From Coq Require Import NArith List.
From BU Require Import Gen.Bech32Consts Model.Bech32 Lemmas.Bech32ConstsOk Lemmas.Bech32Detect.
Open Scope N_scope.

Definition b32_coset_diff : N := N.lxor bech32_const bech32m_const.

Lemma b32_coset_certificate_38 :
  certificateV b32_gens bech32_pm_shift bech32_pm_symbits b32_coset_diff 38 = true.
Proof. vm_cast_no_check (eq_refl true). Qed.

Lemma b32_coset_certificate_58 :
  certificateV b32_gens bech32_pm_shift bech32_pm_symbits b32_coset_diff 58 = true.
Proof. vm_cast_no_check (eq_refl true). Qed.

(* The Bech32 <-> Bech32m coset certificate: within 72 symbols (the longest SegWit data part) no pattern of
   1..3 wrong symbols has the syndrome (Bech32 constant) xor (Bech32m constant).  Evaluated by the kernel on
   the constants regenerated from the source (2.5 million look-ups, about 25 s).  It is false for four
   symbols (Lemmas/Bech32Cert.v: segwit_cross_witness) and for three symbols within 89. *)
From Coq Require Import NArith List.
From BU Require Import Gen.Bech32Consts Model.Bech32 Lemmas.Bech32ConstsOk Lemmas.Bech32Detect.
Open Scope N_scope.

Definition segwit_window : nat := 72.
Definition b32_coset_diff : N := N.lxor bech32_const bech32m_const.

Lemma b32_coset_certificate :
  certificateX b32_gens bech32_pm_shift bech32_pm_symbits b32_coset_diff segwit_window = true.
Proof. vm_cast_no_check (eq_refl true). Qed.

(* LINK: BIP-38 (Model/Bip38.v, Lemmas/Bip38.v) with its two non-cryptographic Section variables instantiated:
   [p2pkh] := the P2PKH address of Model/AddrB58.v over the serialised point (Base58Check of Model/Base58.v, net
   version looked up from the source) and [utf8] := the RFC 3629 encoder of Model/SubstrateScale.v.  The premise
   "utf8 (nfc pass) = Ok pw" of the abstract theorems becomes the checkable "the normalised passphrase has no lone
   surrogate"; the error clause "whatever utf8 raised" becomes UnicodeError.  Remaining oracles: sha256,
   ripemd160, NFC, scrypt, AES, the group with its two point serialisations. *)
From Coq Require Import NArith ZArith List Bool Lia.
From BU Require Import Base.Exn Base.Radix Base.Bytes Gen.Consts Gen.AddrConsts Gen.SerbipConsts Gen.LinkConsts.
From BU Require Import Model.Base58 Model.AddrB58 Model.SubstrateScale Model.WifCodec Model.Bip38 Model.LinkAddr.
From BU Require Lemmas.ConstsOk Lemmas.SubstrateScale Lemmas.Bip38 Lemmas.AddrB58.
Import ListNotations.
Open Scope N_scope.

Notation scalar := Lemmas.SubstrateScale.scalar.

Lemma utf8_total s : Forall scalar s -> exists b, utf8_encode s = Ok b /\ bytes_ok b.
Proof. intros H. destruct (proj1 (Lemmas.SubstrateScale.utf8_encode_spec s) H) as (b & E & B & _). eauto. Qed.

Lemma utf8_err s e : utf8_encode s = Err e -> e = UnicodeError /\ ~ Forall scalar s.
Proof.
  intros H. destruct (Lemmas.SubstrateScale.utf8_encode_spec s) as [H1 H2].
  destruct (Lemmas.SubstrateScale.Forall_scalar_dec s) as [F|F].
  - destruct (H1 F) as (b & E & _). rewrite E in H. discriminate.
  - rewrite (H2 F) in H. inversion H. split; [reflexivity|exact F].
Qed.

Section Link.
  Variables sha256 ripemd160 : list N -> list N.
  Variable nfc : list N -> list N.
  Variable scrypt : list N -> list N -> N -> N -> N -> N -> list N.
  Variable aes_enc aes_dec : list N -> list N -> list N.
  Variable G : Type.
  Variable base : G.
  Variable smul : N -> G -> G.
  Variables ser_c ser_u : G -> list N.
  Variable deser : list N -> option G.

  Hypothesis sha_len : forall x, length (sha256 x) = 32%nat.
  Hypothesis sha_ok : forall x, bytes_ok (sha256 x).
  Hypothesis scrypt_len : forall pw salt n r p dk, length (scrypt pw salt n r p dk) = N.to_nat dk.
  Hypothesis aes_dec_enc : forall k b, length b = 16%nat -> aes_dec k (aes_enc k b) = b.
  Hypothesis aes_enc_len : forall k b, length b = 16%nat -> length (aes_enc k b) = 16%nat.
  Hypothesis aes_enc_ok : forall k b, bytes_ok (aes_enc k b).

  Notation p2pkh := (bip38_p2pkh sha256 ripemd160 G ser_c ser_u).
  Notation ahash := (bip38c_address_hash sha256 ripemd160 G ser_c ser_u).
  Notation encrypt := (bip38c_noec_encrypt sha256 ripemd160 nfc scrypt aes_enc G base smul ser_c ser_u).
  Notation decrypt := (bip38c_noec_decrypt sha256 ripemd160 nfc scrypt aes_dec G base smul ser_c ser_u).
  Notation std_halves := (Lemmas.Bip38.std_halves scrypt).

  (* the address hash, spelled out down to the hash functions: no address function left abstract *)
  Theorem address_hash_concrete P c :
    ahash P c = firstn 4 (sha256 (sha256
      (check_encode b58_alph_btc b58_radix b58_cklen sha256
         (bip38_addr_net_ver ++ ripemd160 (sha256 (if c then ser_c P else ser_u P)))))).
  Proof. reflexivity. Qed.

  Theorem noec_layout_c key pass c : secp_priv_valid key = true -> Forall scalar (nfc pass) ->
    exists pw, utf8_encode (nfc pass) = Ok pw /\
      let ah := ahash (smul (be_to_int key) base) c in
      let K := scrypt pw ah 16384 8 8 64 in
      let dh1 := firstn 32 K in let dh2 := skipn 32 K in
      encrypt key pass c =
        Ok (check_encode b58_alph_btc b58_radix b58_cklen sha256
              ([1; 66] ++ [if c then 224 else 192] ++ ah ++
               aes_enc dh2 (xor_bytes (firstn 16 key) (firstn 16 dh1)) ++
               aes_enc dh2 (xor_bytes (skipn 16 key) (skipn 16 dh1)))).
  Proof.
    intros V S. destruct (utf8_total _ S) as (pw & U & _). exists pw. split; [exact U|].
    exact (Lemmas.Bip38.noec_layout _ _ _ sha256 nfc utf8_encode scrypt aes_enc aes_dec G base smul p2pkh
             ConstsOk.b58_alph_btc_nodup ConstsOk.b58_alph_btc_len ConstsOk.b58_radix_ge2 sha_len sha_ok ConstsOk.b58_cklen_le
             scrypt_len aes_dec_enc aes_enc_len aes_enc_ok key pass pw c V U).
  Qed.

  Theorem noec_decrypt_encrypt_c key pass c :
    secp_priv_valid key = true -> bytes_ok key -> Forall scalar (nfc pass) ->
    exists s, encrypt key pass c = Ok s /\ decrypt s pass = Ok (key, c).
  Proof.
    intros V B S. destruct (utf8_total _ S) as (pw & U & _).
    exact (Lemmas.Bip38.noec_decrypt_encrypt _ _ _ sha256 nfc utf8_encode scrypt aes_enc aes_dec G base smul p2pkh
             ConstsOk.b58_alph_btc_nodup ConstsOk.b58_alph_btc_len ConstsOk.b58_radix_ge2 sha_len sha_ok ConstsOk.b58_cklen_le
             scrypt_len aes_dec_enc aes_enc_len aes_enc_ok key pass pw c V B U).
  Qed.

  Theorem noec_wrong_input_iff_c b pass pw : bytes_ok b -> length b = 39%nat ->
    slice 0 2 b = [1; 66] -> (nth 2 b 0 = 224 \/ nth 2 b 0 = 192) -> utf8_encode (nfc pass) = Ok pw ->
    let ah := slice 3 7 b in
    let '(dh1, dh2) := std_halves pw ah in
    let key := xor_bytes (aes_dec dh2 (slice 7 23 b) ++ aes_dec dh2 (skipn 23 b)) dh1 in
    let c := nth 2 b 0 =? 224 in
    decrypt (check_encode b58_alph_btc b58_radix b58_cklen sha256 b) pass =
      if secp_priv_valid key && list_eqb ah (ahash (smul (be_to_int key) base) c)
      then Ok (key, c) else Err ValueError.
  Proof.
    exact (Lemmas.Bip38.noec_accept_iff _ _ _ sha256 nfc utf8_encode scrypt aes_enc aes_dec G base smul p2pkh
             ConstsOk.b58_alph_btc_nodup ConstsOk.b58_alph_btc_len ConstsOk.b58_radix_ge2 sha_len sha_ok ConstsOk.b58_cklen_le
             scrypt_len aes_dec_enc aes_enc_len aes_enc_ok b pass pw).
  Qed.

  Theorem noec_errors_c enc pass e : decrypt enc pass = Err e ->
    e = ValueError \/ e = LibError Base58ChecksumError \/ (e = UnicodeError /\ ~ Forall scalar (nfc pass)).
  Proof.
    intros H.
    destruct (Lemmas.Bip38.noec_errors _ _ _ sha256 nfc utf8_encode scrypt aes_enc aes_dec G base smul p2pkh
                ConstsOk.b58_alph_btc_nodup ConstsOk.b58_alph_btc_len ConstsOk.b58_radix_ge2 sha_len sha_ok ConstsOk.b58_cklen_le
                scrypt_len aes_dec_enc aes_enc_len aes_enc_ok enc pass e H) as [A|[A|(e' & U & ->)]]; auto.
    right. right. apply utf8_err. exact U.
  Qed.

  Hypothesis ser_c_len : forall P, length (ser_c P) = 33%nat.
  Hypothesis ser_c_ok : forall P, bytes_ok (ser_c P).
  Hypothesis deser_ser : forall P, deser (ser_c P) = Some P.
  Hypothesis smul_smul : forall a b P, smul a (smul b P) = smul (a * b) P.
  Hypothesis smul_mod_order : forall a, smul (a mod secp256k1_order) base = smul a base.

  Notation generate := (bip38c_ec_generate sha256 ripemd160 nfc scrypt aes_enc G base smul ser_c ser_u deser).
  Notation ec_decrypt := (bip38c_ec_decrypt sha256 ripemd160 nfc scrypt aes_dec G base smul ser_c ser_u).

  Theorem ec_decrypt_generate_c pass c ls salt seedb oe pfb :
    Lemmas.Bip38.owner_entropy_of ls salt = Ok oe -> length oe = 8%nat -> bytes_ok oe ->
    pass_factor sha256 nfc utf8_encode scrypt pass oe (Lemmas.Bip38.has_ls ls) = Ok pfb ->
    length seedb = 24%nat ->
    let pf := be_to_int pfb in
    let fb := be_to_int (sha256 (sha256 seedb)) in
    0 < pf < secp256k1_order -> 0 < fb < secp256k1_order -> (pf * fb) mod secp256k1_order <> 0 ->
    exists enc key, generate pass c ls salt seedb = Ok enc /\ ec_decrypt enc pass = Ok (key, c) /\
                    length key = 32%nat /\ be_to_int key = (pf * fb) mod secp256k1_order /\
                    secp_priv_valid key = true.
  Proof.
    exact (Lemmas.Bip38.ec_decrypt_generate _ _ _ sha256 nfc utf8_encode scrypt aes_enc aes_dec G base smul ser_c deser p2pkh
             ConstsOk.b58_alph_btc_nodup ConstsOk.b58_alph_btc_len ConstsOk.b58_radix_ge2 sha_len sha_ok ConstsOk.b58_cklen_le
             scrypt_len aes_dec_enc aes_enc_len aes_enc_ok ser_c_len ser_c_ok deser_ser smul_smul smul_mod_order
             pass c ls salt seedb oe pfb).
  Qed.

  (* the address whose hash is embedded decodes, with the library's own P2PKH decoder, to the hash160 of the
     serialised key: the BIP-38 address hash commits to exactly that 20-byte value and the compression mode *)
  Hypothesis rip_len : forall x, length (ripemd160 x) = 20%nat.
  Hypothesis rip_ok : forall x, bytes_ok (ripemd160 x).

  Theorem bip38_address_decodes P c :
    p2pkh_decode sha256 b58_alph_btc bip38_addr_net_ver (p2pkh P c) =
      Ok (ripemd160 (sha256 (if c then ser_c P else ser_u P))).
  Proof.
    unfold bip38_p2pkh, p2pkh_of_point.
    apply (Lemmas.AddrB58.p2pkh_decode_encode sha256 ripemd160 sha_len sha_ok rip_len rip_ok).
    - left. reflexivity.
    - vm_compute. repeat constructor.
  Qed.
End Link.

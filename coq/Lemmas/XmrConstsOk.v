(* Facts about the Monero block table regenerated from /repo (Gen/Consts.v), decided by the kernel
   on every run, and the Base58Xmr theorems instantiated on the generated constants. *)
From Coq Require Import NArith Arith List Lia Bool.
From BU Require Import Base.Exn Base.Radix Base.Bytes Gen.Consts Model.Base58 Model.Base58Xmr Model.Codecs.
From BU Require Lemmas.Base58 Lemmas.ConstsOk Lemmas.Base58Xmr.
Import ListNotations.
Open Scope N_scope.

Lemma forallb_seq (f : nat -> bool) n : forallb f (seq 0 n) = true -> forall i, (i < n)%nat -> f i = true.
Proof. intros H i Hi. rewrite forallb_forall in H. apply H, in_seq. lia. Qed.

Definition lens := xmr_block_enc_lens.
Definition nlens := length lens.

Lemma nth_lens_lt d e : nth_error lens d = Some e -> (d < nlens)%nat.
Proof. intros H. apply nth_error_Some. congruence. Qed.

(* enc_len d is the least e with 58^e >= 256^d, for every row d = 0..8 of the table *)
Definition row_ok (d : nat) : bool :=
  match nth_error lens d with
  | Some e => (256 ^ N.of_nat d <=? b58_radix ^ N.of_nat e) &&
              match e with O => true | S e1 => b58_radix ^ N.of_nat e1 <? 256 ^ N.of_nat d end
  | None => false
  end.

Lemma rows_ok : forallb row_ok (seq 0 nlens) = true.
Proof. vm_compute. reflexivity. Qed.

Lemma xmr_table_len : length xmr_block_enc_lens = S xmr_block_dec_max.
Proof. vm_compute. reflexivity. Qed.

Theorem xmr_table_ok : forall d e, nth_error xmr_block_enc_lens d = Some e ->
  (d <= xmr_block_dec_max)%nat /\
  256 ^ N.of_nat d <= b58_radix ^ N.of_nat e /\
  (forall e', (e' < e)%nat -> b58_radix ^ N.of_nat e' < 256 ^ N.of_nat d).
Proof.
  intros d e H. pose proof (nth_lens_lt d e H) as L.
  pose proof (forallb_seq _ _ rows_ok d L) as R. unfold row_ok in R. fold lens in H. rewrite H in R.
  apply andb_true_iff in R. destruct R as [R1 R2]. apply N.leb_le in R1.
  split; [|split; [exact R1|]].
  - unfold nlens, lens in L. rewrite xmr_table_len in L. lia.
  - intros e' He'. destruct e as [|e1]; [lia|]. apply N.ltb_lt in R2.
    assert (b58_radix ^ N.of_nat e' <= b58_radix ^ N.of_nat e1).
    { apply N.pow_le_mono_r; [vm_compute; discriminate|lia]. }
    lia.
Qed.

Lemma xmr_table_rows : exists e, nth_error xmr_block_enc_lens xmr_block_dec_max = Some e.
Proof. vm_compute. eauto. Qed.

Lemma xmr_dec_max_pos : (0 < xmr_block_dec_max)%nat.
Proof. vm_compute. lia. Qed.
Lemma xmr_lens_max : nth_error xmr_block_enc_lens xmr_block_dec_max = Some xmr_block_enc_max.
Proof. vm_compute. reflexivity. Qed.
Lemma xmr_lens_0 : nth_error xmr_block_enc_lens 0 = Some 0%nat.
Proof. vm_compute. reflexivity. Qed.

Fixpoint nodupb_nat (l : list nat) : bool :=
  match l with [] => true | x :: t => negb (existsb (Nat.eqb x) t) && nodupb_nat t end.
Lemma nodupb_nat_sound l : nodupb_nat l = true -> NoDup l.
Proof.
  induction l as [|x t IH]; simpl; [constructor|].
  rewrite andb_true_iff, negb_true_iff. intros [H1 H2]. constructor; auto.
  intro I. assert (existsb (Nat.eqb x) t = true); [|congruence].
  apply existsb_exists. exists x. split; [auto|apply Nat.eqb_refl].
Qed.
Lemma xmr_lens_nodup : NoDup xmr_block_enc_lens.
Proof. apply nodupb_nat_sound. vm_compute. reflexivity. Qed.

Definition lt_ok (d : nat) : bool :=
  match nth_error lens d with Some e => (e <? xmr_block_enc_max)%nat | None => false end.
Lemma xmr_lens_lt : forall d e, (d < xmr_block_dec_max)%nat ->
  nth_error xmr_block_enc_lens d = Some e -> (e < xmr_block_enc_max)%nat.
Proof.
  intros d e Hd H.
  assert (A : forallb lt_ok (seq 0 xmr_block_dec_max) = true) by (vm_compute; reflexivity).
  pose proof (forallb_seq _ _ A d Hd) as R. unfold lt_ok in R. fold lens in H. rewrite H in R.
  apply Nat.ltb_lt in R. exact R.
Qed.

Lemma xmr_lens_fit : forall d e, nth_error xmr_block_enc_lens d = Some e ->
  256 ^ N.of_nat d <= b58_radix ^ N.of_nat e.
Proof. intros d e H. apply (xmr_table_ok d e H). Qed.

Definition sub_ok (d : nat) : bool :=
  forallb (fun k => match nth_error lens d, nth_error lens (d - k) with
                    | Some e, Some e' => (k + e' <=? e)%nat
                    | _, _ => false end) (seq 0 (S d)).
Lemma xmr_lens_sub : forall d k e e', (k <= d)%nat ->
  nth_error xmr_block_enc_lens d = Some e -> nth_error xmr_block_enc_lens (d - k) = Some e' ->
  (k + e' <= e)%nat.
Proof.
  intros d k e e' Hk H H'.
  assert (A : forallb sub_ok (seq 0 nlens) = true) by (vm_compute; reflexivity).
  pose proof (forallb_seq _ _ A d (nth_lens_lt d e H)) as R. unfold sub_ok in R.
  pose proof (forallb_seq _ _ R k ltac:(lia)) as R2. cbv beta in R2.
  fold lens in H, H'. rewrite H, H' in R2. apply Nat.leb_le in R2. exact R2.
Qed.

Lemma xmr_lens_ge : forall d e, nth_error xmr_block_enc_lens d = Some e -> (d <= e)%nat.
Proof.
  intros d e H.
  assert (A : forallb (fun d => match nth_error lens d with Some e => (d <=? e)%nat | None => false end)
                (seq 0 nlens) = true) by (vm_compute; reflexivity).
  pose proof (forallb_seq _ _ A d (nth_lens_lt d e H)) as R. cbv beta in R.
  fold lens in H. rewrite H in R. apply Nat.leb_le in R. exact R.
Qed.

Definition min_ok (d : nat) : bool :=
  match nth_error lens d with
  | Some e => forallb (fun k => (d <=? k + length (to_le 256 (b58_radix ^ N.of_nat (e - k - 1))))%nat) (seq 0 e)
  | None => false
  end.
Lemma xmr_lens_min : forall d e k, nth_error xmr_block_enc_lens d = Some e -> (k < e)%nat ->
  (d <= k + length (to_le 256 (b58_radix ^ N.of_nat (e - k - 1))))%nat.
Proof.
  intros d e k H Hk.
  assert (A : forallb min_ok (seq 0 nlens) = true) by (vm_compute; reflexivity).
  pose proof (forallb_seq _ _ A d (nth_lens_lt d e H)) as R. unfold min_ok in R.
  fold lens in H. rewrite H in R.
  pose proof (forallb_seq _ _ R k Hk) as R2. cbv beta in R2. apply Nat.leb_le in R2. exact R2.
Qed.

Lemma xmr_alph_nodup : NoDup xmr_alph.
Proof. apply nodupb_sound. vm_compute. reflexivity. Qed.
Lemma xmr_alph_len : length xmr_alph = N.to_nat b58_radix.
Proof. vm_compute. reflexivity. Qed.

(* ---- the model on the generated constants ---- *)
Ltac xmr_inst L := apply L; eauto using xmr_alph_nodup, xmr_alph_len, ConstsOk.b58_radix_ge2, xmr_dec_max_pos, xmr_table_len, xmr_lens_max, xmr_lens_0, xmr_lens_lt, xmr_lens_nodup, xmr_lens_fit, xmr_lens_sub, xmr_lens_ge, xmr_lens_min.
Ltac xmr_inst_d L := apply L with (dec_max := xmr_block_dec_max); eauto using xmr_alph_nodup, xmr_alph_len, ConstsOk.b58_radix_ge2, xmr_dec_max_pos, xmr_table_len, xmr_lens_max, xmr_lens_0, xmr_lens_lt, xmr_lens_nodup, xmr_lens_fit, xmr_lens_sub, xmr_lens_ge, xmr_lens_min.

Theorem xmr_decode_encode : forall b, bytes_ok b -> exists s, xmr_encode b = Ok s /\ xmr_decode s = Ok b.
Proof. xmr_inst Lemmas.Base58Xmr.decode_encode. Qed.

(* canonicity of the decoder with the block-value check *)
Theorem xmr_encode_decode : forall s b, xmr_decode s = Ok b -> xmr_encode b = Ok s /\ bytes_ok b.
Proof. xmr_inst Lemmas.Base58Xmr.encode_decode. Qed.

Theorem xmr_decode_accepts_iff : forall s,
  (exists b, xmr_decode s = Ok b) <-> (exists b, bytes_ok b /\ xmr_encode b = Ok s).
Proof. xmr_inst Lemmas.Base58Xmr.decode_accepts_iff. Qed.

Theorem xmr_decode_err : forall s e, xmr_decode s = Err e -> e = ValueError.
Proof. intros s e. apply Lemmas.Base58Xmr.decode_err. Qed.

Theorem xmr_encode_inj : forall b1 b2 s, bytes_ok b1 -> bytes_ok b2 ->
  xmr_encode b1 = Ok s -> xmr_encode b2 = Ok s -> b1 = b2.
Proof. xmr_inst Lemmas.Base58Xmr.encode_inj. Qed.

(* __UnPad's slice start len(dec) - unpad_len is never negative, for every block string *)
(* text length as a function of the data length (per full block BLOCK_ENC_MAX_BYTE_LEN symbols, then the table row) *)
Theorem xmr_encode_length : forall b s, bytes_ok b -> xmr_encode b = Ok s ->
  exists e, nth_error xmr_block_enc_lens (length b mod xmr_block_dec_max) = Some e /\
    length s = (length b / xmr_block_dec_max * xmr_block_enc_max + e)%nat.
Proof. xmr_inst Lemmas.Base58Xmr.encode_length. Qed.

(* the two Monero address payload sizes (1 + 32 + 32 [+ 8] + 4 bytes) give the well-known 95 and 106 symbols *)
Theorem xmr_address_text_lengths : forall b s, bytes_ok b -> xmr_encode b = Ok s ->
  (length b = 69%nat -> length s = 95%nat) /\ (length b = 77%nat -> length s = 106%nat).
Proof.
  intros b s Hb E. destruct (xmr_encode_length b s Hb E) as (e & He & L).
  split; intros Hl; rewrite Hl in He, L; vm_compute in He; injection He as <-; rewrite L; vm_compute; reflexivity.
Qed.

Theorem xmr_block_dec_length : forall s d e dec, nth_error xmr_block_enc_lens d = Some e -> length s = e ->
  xmr_b58dec s = Ok dec -> (d <= length dec)%nat.
Proof. xmr_inst_d Lemmas.Base58Xmr.block_dec_length. Qed.

Theorem xmr_block_canonical_iff : forall s d e dec v,
  nth_error xmr_block_enc_lens d = Some e -> length s = e ->
  xmr_b58dec s = Ok dec -> xmr_block_value s = Ok v ->
  (xmr_pad e (xmr_b58enc (unpad d dec)) = s <-> v < 256 ^ N.of_nat d).
Proof. xmr_inst_d Lemmas.Base58Xmr.block_canonical_iff. Qed.

(* Historical witness (defect F2, repaired in /repo by the check in __UnPad): before the repair the decoder
   accepted "zz" (block value 3363 >= 256), returned 0x23, whose encoding is "1c"; and 11 x 'z' (value >= 2^64)
   was silently truncated.  The decoder now rejects both: *)
Theorem xmr_overflow_rejected : xmr_decode [122; 122] = Err ValueError /\ xmr_decode (repeat 122 11) = Err ValueError.
Proof. split; vm_compute; reflexivity. Qed.

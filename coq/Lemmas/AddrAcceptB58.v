(* Acceptance characterisations of the address decoders of Model/AddrB58.v (property C10, address level):
   [decode params s = Ok payload  <->  explicit description of s], and the corollary the property wants --
   every accepted string IS the encoder's text for the returned payload (up to the format's case rule).

   Base58Check prefix family (P2PKH, P2SH, XRP, XTZ), NEO, own-checksum Base58 (EOS, ERGO, SOL), hex
   (ETH with and without EIP-55, TRX, ICX, NEAR, SUI, APTOS).  Hashes and key validity are Section
   variables; no law about them is needed for the characterisations (only for the satisfiability examples). *)
From Coq Require Import NArith Arith List Bool Lia.
From BU Require Import Base.Exn Base.Radix Base.Bytes Gen.Consts Gen.AddrConsts Model.Base58 Model.AddrUtils Model.AddrB58.
From BU Require Lemmas.Base58 Lemmas.ConstsOk.
From BU Require Import Lemmas.AddrB58.
Import ListNotations.
Open Scope N_scope.

(* ---- generic helpers ---- *)
Lemma Ok_inj {A} (a b : A) : @Ok A a = Ok b -> a = b.
Proof. intros H. injection H. auto. Qed.

Lemma c2v_ok_iff {A} (r : res A) (a : A) : checksum_to_value_error r = Ok a <-> r = Ok a.
Proof.
  unfold checksum_to_value_error. destruct r as [x|e]; [tauto|].
  destruct e as [| | | | | | | |l| |]; try tauto. destruct l; split; intros H; try exact H; discriminate.
Qed.

Lemma validate_length_iff a n u : validate_length a n = Ok u <-> length a = n.
Proof.
  split; [apply validate_length_inv|]. intros H. destruct u. apply validate_length_ok; exact H.
Qed.

Lemma remove_prefix_iff a p d : validate_and_remove_prefix a p = Ok d <-> a = p ++ d.
Proof. split; [apply remove_prefix_inv|]. intros ->. apply remove_prefix_app. Qed.

Lemma validate_checksum_iff payload ck f u : validate_checksum payload ck f = Ok u <-> ck = f payload.
Proof.
  unfold validate_checksum. destruct (list_eqb ck (f payload)) eqn:E.
  - apply list_eqb_spec in E. destruct u. tauto.
  - split; [discriminate|]. intros H. apply list_eqb_spec in H. congruence.
Qed.

(* splitting a list of known total length at the checksum *)
Lemma split_exact (d : list N) (n k : nat) : length d = (n + k)%nat ->
  length (drop_last k d) = n /\ length (take_last k d) = k /\ d = drop_last k d ++ take_last k d.
Proof.
  intros L. unfold drop_last, take_last. rewrite firstn_length, skipn_length.
  split; [lia|]. split; [lia|]. symmetry. apply firstn_skipn.
Qed.

(* ---- hex: what unhexlify accepts and returns ---- *)
Lemma hex_val_lt c v : hex_val c = Some v -> v < 16.
Proof.
  unfold hex_val. repeat match goal with |- context [if ?b then _ else _] => destruct b eqn:? end; try discriminate;
    intros H; inversion H; subst; clear H;
    repeat match goal with H : (_ && _) = true |- _ => apply andb_true_iff in H; destruct H end;
    repeat match goal with H : (_ <=? _) = true |- _ => apply N.leb_le in H end; lia.
Qed.

Lemma hex_digit_of_val c v : hex_val c = Some v -> hex_digit v = ascii_lower c.
Proof.
  destruct (N.leb_spec c 127) as [L|G].
  - assert (F : forallb (fun c => match hex_val c with Some v => hex_digit v =? ascii_lower c | None => true end)
                        (map N.of_nat (seq 0 128)) = true) by (vm_compute; reflexivity).
    rewrite forallb_forall in F. specialize (F c (small_N_in c L)).
    intros H. rewrite H in F. apply N.eqb_eq. exact F.
  - unfold hex_val.
    assert (E1 : (48 <=? c) && (c <=? 57) = false) by (apply andb_false_iff; right; apply N.leb_gt; lia).
    assert (E2 : (97 <=? c) && (c <=? 102) = false) by (apply andb_false_iff; right; apply N.leb_gt; lia).
    assert (E3 : (65 <=? c) && (c <=? 70) = false) by (apply andb_false_iff; right; apply N.leb_gt; lia).
    rewrite E1, E2, E3. discriminate.
Qed.

(* unhexlify inverts hexlify up to case: an accepted string lower-cases to the hex of what it returns,
   consists of hex digits only, has even length, and the result is a byte string *)
Lemma from_hex_inv : forall n s d, (length s <= n)%nat -> from_hex s = Ok d ->
  to_hex d = map ascii_lower s /\ bytes_ok d /\ forallb is_hex_char s = true /\ length s = (2 * length d)%nat.
Proof.
  induction n as [|n IH]; intros s d L H.
  - destruct s; [|simpl in L; lia]. simpl in H. inversion H; subst. repeat split; constructor.
  - destruct s as [|a [|b t]].
    + simpl in H. inversion H; subst. repeat split; constructor.
    + simpl in H. discriminate.
    + cbn [from_hex] in H. destruct (hex_val a) as [x|] eqn:Ea; [|discriminate].
      destruct (hex_val b) as [y|] eqn:Eb; [|discriminate].
      destruct (from_hex t) as [r|] eqn:Et; cbn [rmap] in H; [|discriminate].
      assert (Hd : d = (16 * x + y) :: r) by (unfold Ok in H; congruence). subst d; clear H.
      destruct (IH t r ltac:(simpl in L; lia) Et) as (I1 & I2 & I3 & I4).
      pose proof (hex_val_lt _ _ Ea) as Hx. pose proof (hex_val_lt _ _ Eb) as Hy.
      repeat split.
      * cbn [to_hex flat_map app map]. fold (to_hex r). rewrite I1.
        replace ((16 * x + y) / 16) with x by (apply N.div_unique with y; lia).
        replace ((16 * x + y) mod 16) with y by (apply N.mod_unique with x; lia).
        rewrite (hex_digit_of_val _ _ Ea), (hex_digit_of_val _ _ Eb). reflexivity.
      * constructor; [lia|exact I2].
      * cbn [forallb]. unfold is_hex_char at 1 2. rewrite Ea, Eb, I3. reflexivity.
      * cbn [length]. rewrite I4. lia.
Qed.

Lemma from_hex_ok_inv s d : from_hex s = Ok d ->
  to_hex d = map ascii_lower s /\ bytes_ok d /\ forallb is_hex_char s = true /\ length s = (2 * length d)%nat.
Proof. apply (from_hex_inv (length s)). lia. Qed.

Lemma is_hex_lower c : is_hex_char (ascii_lower c) = is_hex_char c.
Proof. unfold is_hex_char. rewrite hex_val_lower. reflexivity. Qed.

(* from_hex only looks at the case-insensitive value of each symbol *)
Lemma from_hex_lower : forall n s, (length s <= n)%nat -> from_hex (map ascii_lower s) = from_hex s.
Proof.
  induction n as [|n IH]; intros s L.
  - destruct s; [reflexivity|simpl in L; lia].
  - destruct s as [|a [|b t]]; [reflexivity|reflexivity|].
    cbn [map from_hex]. rewrite !hex_val_lower, IH by (simpl in L; lia). reflexivity.
Qed.

(* conversely every even-length hex string is accepted *)
Lemma from_hex_total : forall n s, (length s <= n)%nat -> forallb is_hex_char s = true -> Nat.even (length s) = true ->
  exists d, from_hex s = Ok d.
Proof.
  induction n as [|n IH]; intros s L H E.
  - destruct s; [exists []; reflexivity|simpl in L; lia].
  - destruct s as [|a [|b t]]; [exists []; reflexivity|simpl in E; discriminate|].
    cbn [forallb] in H. apply andb_true_iff in H. destruct H as [Ha H]. apply andb_true_iff in H. destruct H as [Hb H].
    unfold is_hex_char in Ha, Hb. cbn [from_hex].
    destruct (hex_val a) as [x|]; [|discriminate]. destruct (hex_val b) as [y|]; [|discriminate].
    destruct (IH t ltac:(simpl in L; lia) H ltac:(exact E)) as (r & ->). eexists; reflexivity.
Qed.

Section Accept.
  Set Default Proof Using "Type".
  Variables sha256 ripemd160 keccak256 sha3_256 : list N -> list N.
  Variable blake2b : nat -> list N -> list N.
  Variable valid_pub : list N -> bool.

  Notation check_decode alph := (Base58.check_decode alph b58_radix b58_cklen sha256).
  Notation check_encode alph := (Base58.check_encode alph b58_radix b58_cklen sha256).
  Notation b58c_dec := (b58c_dec sha256).
  Notation fam_a_decode := (fam_a_decode sha256).
  Notation fam_a_encode := (fam_a_encode sha256).

  Lemma b58c_dec_iff alph s x : b58c_dec alph s = Ok x <-> check_decode alph s = Ok x.
  Proof. unfold AddrB58.b58c_dec. apply c2v_ok_iff. Qed.

  (* ---------------------------------------------------------------- family A: Base58Check(prefix ++ digest) *)
  (* accepted iff the Base58Check payload is the expected prefix followed by exactly dlen bytes *)
  Theorem fam_a_decode_accepts_iff alph prefix dlen s d :
    fam_a_decode alph prefix dlen s = Ok d <->
    check_decode alph s = Ok (prefix ++ d) /\ length d = dlen.
  Proof.
    split.
    - intros H. destruct (fam_a_decode_inv sha256 alph prefix dlen s d H) as (dec & E & -> & L).
      split; [apply b58c_dec_iff; exact E|exact L].
    - intros [E L]. unfold AddrB58.fam_a_decode. apply b58c_dec_iff in E. rewrite E. cbn [bind Ok].
      rewrite validate_length_ok by (rewrite app_length; lia). cbn [bind Ok]. apply remove_prefix_app.
  Qed.

  (* a non-empty Base58Check payload sits in front of a full checksum *)
  Lemma check_payload_len alph s x dec : check_decode alph s = Ok x -> x <> [] ->
    Base58.decode alph b58_radix s = Ok dec -> (b58_cklen <= length dec)%nat.
  Proof.
    intros H Hx D. apply Lemmas.Base58.check_decode_ok_iff in H. destruct H as (dec' & D' & -> & _).
    rewrite D in D'. inversion D'; subst dec'. unfold drop_last in Hx.
    destruct (Nat.le_gt_cases b58_cklen (length dec)) as [|G]; [assumption|].
    exfalso. apply Hx. replace (length dec - b58_cklen)%nat with 0%nat by lia. reflexivity.
  Qed.

  Lemma check_canonical alph s x : good_alph alph -> check_decode alph s = Ok x -> x <> [] -> check_encode alph x = s.
  Proof.
    intros Ha H Hx. destruct Ha as [-> | ->].
    - apply (Lemmas.Base58.check_encode_decode _ _ _ sha256 ConstsOk.b58_alph_btc_nodup ConstsOk.b58_alph_btc_len
               ConstsOk.b58_radix_ge2 s x H). intros dec D. eapply check_payload_len; eauto.
    - apply (Lemmas.Base58.check_encode_decode _ _ _ sha256 ConstsOk.b58_alph_xrp_nodup ConstsOk.b58_alph_xrp_len
               ConstsOk.b58_radix_ge2 s x H). intros dec D. eapply check_payload_len; eauto.
  Qed.

  (* every accepted string is the encoder's text for the returned digest: exact equality (Base58 has no case rule) *)
  Theorem fam_a_accepted_is_encoding alph prefix dlen s d : good_alph alph -> (0 < dlen + length prefix)%nat ->
    fam_a_decode alph prefix dlen s = Ok d -> s = fam_a_encode alph prefix d.
  Proof.
    intros Ha Hl H. apply fam_a_decode_accepts_iff in H. destruct H as [E L].
    unfold AddrB58.fam_a_encode, AddrB58.b58c_enc. symmetry. apply check_canonical; auto.
    intro Z. apply (f_equal (@length N)) in Z. rewrite app_length in Z. simpl in Z. lia.
  Qed.

  Theorem p2pkh_decode_accepts_iff alph net_ver s d :
    p2pkh_decode sha256 alph net_ver s = Ok d <->
    check_decode alph s = Ok (net_ver ++ d) /\ length d = hash160_len.
  Proof. apply fam_a_decode_accepts_iff. Qed.

  Theorem p2pkh_accepted_is_encoding alph net_ver s d : good_alph alph ->
    p2pkh_decode sha256 alph net_ver s = Ok d -> s = fam_a_encode alph net_ver d /\ length d = hash160_len.
  Proof.
    intros Ha H. split.
    - apply (fam_a_accepted_is_encoding alph net_ver hash160_len s d Ha); [vm_compute; lia|exact H].
    - apply p2pkh_decode_accepts_iff in H. apply H.
  Qed.

  Theorem p2sh_decode_accepts_iff net_ver s d :
    p2sh_decode sha256 net_ver s = Ok d <->
    check_decode b58_alph_btc s = Ok (net_ver ++ d) /\ length d = hash160_len.
  Proof. apply fam_a_decode_accepts_iff. Qed.

  Theorem xrp_decode_accepts_iff s d :
    xrp_decode sha256 s = Ok d <->
    check_decode b58_alph_xrp s = Ok (xrp_net_ver ++ d) /\ length d = hash160_len.
  Proof. apply fam_a_decode_accepts_iff. Qed.

  Theorem xtz_decode_accepts_iff prefix s d :
    xtz_decode sha256 prefix s = Ok d <->
    check_decode b58_alph_btc s = Ok (prefix ++ d) /\ length d = blake2b160_len.
  Proof. apply fam_a_decode_accepts_iff. Qed.

  Theorem xtz_accepted_is_encoding prefix s d :
    xtz_decode sha256 prefix s = Ok d -> s = fam_a_encode b58_alph_btc prefix d.
  Proof. apply fam_a_accepted_is_encoding; [left; reflexivity|vm_compute; lia]. Qed.

  (* ---------------------------------------------------------------- NEO *)
  (* accepted iff the expected version is ONE byte and the payload is that byte followed by 20 bytes *)
  Theorem neo_decode_accepts_iff ver s d :
    neo_decode sha256 ver s = Ok d <->
    exists v0, ver = [v0] /\ check_decode b58_alph_btc s = Ok (v0 :: d) /\ length d = hash160_len.
  Proof.
    unfold AddrB58.neo_decode. split.
    - destruct (b58c_dec b58_alph_btc s) as [dec|] eqn:E; cbn [bind]; [|discriminate].
      destruct (validate_length dec _) eqn:L; cbn [bind]; [|discriminate].
      destruct dec as [|v0 rest]; [discriminate|].
      destruct (list_eqb ver [v0]) eqn:V; [|discriminate]. intros H; inversion H; subst rest; clear H.
      apply list_eqb_spec in V. subst ver. apply validate_length_inv in L. apply b58c_dec_iff in E.
      exists v0. split; [reflexivity|]. split; [exact E|]. cbn [length] in L. lia.
    - intros (v0 & -> & E & L). apply b58c_dec_iff in E. rewrite E. cbn [bind Ok].
      rewrite validate_length_ok by (cbn [length]; lia). cbn [bind Ok]. rewrite list_eqb_refl. reflexivity.
  Qed.

  Theorem neo_accepted_is_encoding ver s d : neo_decode sha256 ver s = Ok d ->
    s = check_encode b58_alph_btc (ver ++ d) /\ length ver = 1%nat.
  Proof.
    intros H. apply neo_decode_accepts_iff in H. destruct H as (v0 & -> & E & L). split; [|reflexivity].
    symmetry. apply check_canonical; [left; reflexivity|exact E|discriminate].
  Qed.

  (* ---------------------------------------------------------------- family B: plain Base58, own checksum *)
  Notation b58_decode := (Base58.decode b58_alph_btc b58_radix).
  Notation b58_encode := (Base58.encode b58_alph_btc b58_radix).

  Lemma b58_canonical s b : b58_decode s = Ok b -> b58_encode b = s.
  Proof.
    apply (Lemmas.Base58.encode_decode _ _ ConstsOk.b58_alph_btc_nodup ConstsOk.b58_alph_btc_len ConstsOk.b58_radix_ge2).
  Qed.

  Theorem eos_decode_accepts_iff s pub :
    eos_decode ripemd160 valid_pub s = Ok pub <->
    exists a, s = eos_prefix ++ a /\ b58_decode a = Ok (pub ++ eos_checksum ripemd160 pub) /\
              length pub = secp_compr_len /\ length (eos_checksum ripemd160 pub) = eos_cklen /\ valid_pub pub = true.
  Proof.
    unfold AddrB58.eos_decode. split.
    - destruct (validate_and_remove_prefix s eos_prefix) as [a|] eqn:P; cbn [bind]; [|discriminate].
      unfold AddrB58.b58_dec. destruct (b58_decode a) as [dec|] eqn:D; cbn [bind]; [|discriminate].
      destruct (validate_length dec _) eqn:L; cbn [bind]; [|discriminate].
      unfold split_by_checksum.
      destruct (validate_checksum (drop_last eos_cklen dec) (take_last eos_cklen dec) (eos_checksum ripemd160)) eqn:C;
        cbn [bind]; [|discriminate].
      destruct (valid_pub (drop_last eos_cklen dec)) eqn:V; [|discriminate].
      intros H; inversion H; subst pub; clear H.
      apply remove_prefix_inv in P. apply validate_length_inv in L. apply validate_checksum_iff in C.
      destruct (split_exact dec secp_compr_len eos_cklen L) as (L1 & L2 & S).
      exists a. split; [exact P|]. rewrite <- C. split; [rewrite <- S; exact D|]. auto.
    - intros (a & -> & D & L & Lc & V). rewrite remove_prefix_app. cbn [bind Ok].
      unfold AddrB58.b58_dec. rewrite D. cbn [bind Ok].
      rewrite validate_length_ok by (rewrite app_length; lia). cbn [bind Ok]. unfold split_by_checksum.
      rewrite (drop_last_app' eos_cklen), (take_last_app' eos_cklen) by exact Lc.
      unfold validate_checksum. rewrite list_eqb_refl. cbn [bind Ok]. rewrite V. reflexivity.
  Qed.

  Theorem eos_accepted_is_encoding s pub : eos_decode ripemd160 valid_pub s = Ok pub ->
    s = eos_encode ripemd160 pub /\ valid_pub pub = true /\ length pub = secp_compr_len.
  Proof.
    intros H. apply eos_decode_accepts_iff in H. destruct H as (a & -> & D & L & _ & V).
    split; [|auto]. unfold AddrB58.eos_encode, AddrB58.b58_enc. f_equal. symmetry. apply b58_canonical. exact D.
  Qed.

  Theorem ergo_decode_accepts_iff net s pub :
    ergo_decode blake2b valid_pub net s = Ok pub <->
    b58_decode s = Ok ((ergo_prefix net ++ pub) ++ ergo_checksum blake2b (ergo_prefix net ++ pub)) /\
    length pub = secp_compr_len /\ length (ergo_checksum blake2b (ergo_prefix net ++ pub)) = ergo_cklen /\
    valid_pub pub = true.
  Proof.
    unfold AddrB58.ergo_decode. split.
    - unfold AddrB58.b58_dec. destruct (b58_decode s) as [dec|] eqn:D; cbn [bind]; [|discriminate].
      destruct (validate_length dec _) eqn:L; cbn [bind]; [|discriminate].
      unfold split_by_checksum.
      destruct (validate_checksum (drop_last ergo_cklen dec) (take_last ergo_cklen dec) (ergo_checksum blake2b)) eqn:C;
        cbn [bind]; [|discriminate].
      destruct (validate_and_remove_prefix (drop_last ergo_cklen dec) (ergo_prefix net)) as [p|] eqn:P; cbn [bind]; [|discriminate].
      destruct (valid_pub p) eqn:V; [|discriminate]. intros H; inversion H; subst p; clear H.
      apply validate_length_inv in L. apply validate_checksum_iff in C. apply remove_prefix_inv in P.
      replace (secp_compr_len + ergo_cklen + 1)%nat with ((secp_compr_len + 1) + ergo_cklen)%nat in L by lia.
      destruct (split_exact dec (secp_compr_len + 1) ergo_cklen L) as (L1 & L2 & S).
      rewrite <- P, <- C. split; [rewrite <- S; reflexivity|]. split; [|auto].
      rewrite P in L1. rewrite app_length in L1. unfold ergo_prefix in L1. simpl length in L1. lia.
    - intros (D & L & Lc & V). unfold AddrB58.b58_dec. rewrite D. cbn [bind Ok].
      rewrite validate_length_ok.
      2:{ rewrite !app_length, Lc, L. unfold ergo_prefix. simpl length. lia. }
      cbn [bind Ok]. unfold split_by_checksum.
      rewrite (drop_last_app' ergo_cklen), (take_last_app' ergo_cklen) by exact Lc.
      unfold validate_checksum. rewrite list_eqb_refl. cbn [bind Ok]. rewrite remove_prefix_app. cbn [bind Ok].
      rewrite V. reflexivity.
  Qed.

  Theorem ergo_accepted_is_encoding net s pub : ergo_decode blake2b valid_pub net s = Ok pub ->
    s = ergo_encode blake2b net pub /\ valid_pub pub = true /\ length pub = secp_compr_len.
  Proof.
    intros H. apply ergo_decode_accepts_iff in H. destruct H as (D & L & _ & V). split; [|auto].
    unfold AddrB58.ergo_encode, AddrB58.b58_enc. symmetry. apply b58_canonical. exact D.
  Qed.

  Theorem sol_decode_accepts_iff s d :
    sol_decode valid_pub s = Ok d <->
    b58_decode s = Ok d /\ length d = (ed25519_compr_len - 1)%nat /\ valid_pub d = true.
  Proof.
    unfold AddrB58.sol_decode, AddrB58.b58_dec. split.
    - destruct (b58_decode s) as [dec|] eqn:D; cbn [bind]; [|discriminate].
      destruct (validate_length dec _) eqn:L; cbn [bind]; [|discriminate].
      destruct (valid_pub dec) eqn:V; [|discriminate]. intros H; inversion H; subst dec.
      apply validate_length_inv in L. auto.
    - intros (D & L & V). rewrite D. cbn [bind Ok]. rewrite validate_length_ok by exact L. cbn [bind Ok].
      rewrite V. reflexivity.
  Qed.

  Theorem sol_accepted_is_encoding s d : sol_decode valid_pub s = Ok d -> s = sol_encode d /\ valid_pub d = true.
  Proof.
    intros H. apply sol_decode_accepts_iff in H. destruct H as (D & _ & V). split; [|exact V].
    unfold AddrB58.sol_encode, AddrB58.b58_enc. symmetry. apply b58_canonical. exact D.
  Qed.

  (* ---------------------------------------------------------------- family C: hex strings *)
  (* Ethereum, both modes: prefix, 40 hex digits, fixed by the EIP-55 encoding unless that check is skipped *)
  Theorem eth_decode_accepts_iff_gen skip s d :
    eth_decode keccak256 skip s = Ok d <->
    exists a, s = eth_prefix ++ a /\ length a = eth_addr_len /\ forallb is_hex_char a = true /\
              (skip = false -> eth_checksum_encode keccak256 a = a) /\ from_hex a = Ok d.
  Proof.
    unfold AddrB58.eth_decode. split.
    - destruct (validate_and_remove_prefix s eth_prefix) as [a|] eqn:P; cbn [bind]; [|discriminate].
      destruct (validate_length a eth_addr_len) eqn:L; cbn [bind]; [|discriminate].
      destruct (forallb is_hex_char a) eqn:H; cbn [negb]; [|discriminate].
      destruct (negb skip && negb (list_eqb a (eth_checksum_encode keccak256 a))) eqn:C; [discriminate|].
      intros F. exists a. apply remove_prefix_inv in P. apply validate_length_inv in L.
      repeat split; auto. intros ->. cbn [negb andb] in C. apply negb_false_iff in C. apply list_eqb_spec in C. auto.
    - intros (a & -> & L & H & C & F). rewrite remove_prefix_app. cbn [bind Ok].
      rewrite validate_length_ok by exact L. cbn [bind Ok]. rewrite H. cbn [negb].
      destruct skip; cbn [negb andb]; [exact F|]. rewrite (C eq_refl), list_eqb_refl. exact F.
  Qed.

  (* the EIP-55 encoding only depends on the lower-cased string *)
  Lemma map_eip55_lower a : forall dg, (length a <= length dg)%nat -> forallb is_hex_char dg = true ->
    map eip55 (combine a dg) = map eip55 (combine (map ascii_lower a) dg).
  Proof.
    induction a as [|c a IH]; intros dg Ld Hd; [reflexivity|].
    destruct dg as [|h dg]; [simpl in Ld; lia|]. cbn [forallb] in Hd. apply andb_true_iff in Hd. destruct Hd as [Hh Hd].
    cbn [map combine]. f_equal; [|apply IH; [simpl in Ld; lia|exact Hd]].
    unfold eip55. unfold is_hex_char in Hh. destruct (hex_val h) as [v|]; [|discriminate].
    destruct (8 <=? v); [symmetry; apply ascii_upper_lower|symmetry; apply ascii_lower_idem].
  Qed.

  (* every accepted string is the encoder's text for the returned 20 bytes: exactly (EIP-55 mode), or up to
     ASCII case (mode without checksum encoding, where the decoder accepts any case mix) *)
  Theorem eth_accepted_is_encoding skip s d :
    (forall x, length (keccak256 x) = 32%nat) -> (forall x, bytes_ok (keccak256 x)) ->
    eth_decode keccak256 skip s = Ok d ->
    length d = 20%nat /\ bytes_ok d /\
    exists a, s = eth_prefix ++ a /\ map ascii_lower a = to_hex d /\
              (skip = false -> a = eth_checksum_encode keccak256 (to_hex d)).
  Proof.
    intros kec_len kec_ok H. apply eth_decode_accepts_iff_gen in H. destruct H as (a & -> & L & Hh & C & F).
    destruct (from_hex_ok_inv a d F) as (I1 & I2 & I3 & I4).
    split; [rewrite L in I4; unfold eth_addr_len in I4; lia|]. split; [exact I2|].
    exists a. split; [reflexivity|]. split; [symmetry; exact I1|].
    intros Hs. specialize (C Hs). rewrite <- C at 1. rewrite I1. rewrite !eth_cs_unfold. rewrite map_map.
    assert (E : map (fun x => ascii_lower (ascii_lower x)) a = map ascii_lower a)
      by (apply map_ext; intros; apply ascii_lower_idem).
    rewrite E. apply map_eip55_lower.
    - rewrite to_hex_length, kec_len, L. unfold eth_addr_len. lia.
    - apply to_hex_all_hex, kec_ok.
  Qed.

  Lemma check_decode_bytes_ok alph s x : check_decode alph s = Ok x -> bytes_ok x.
  Proof.
    intros H. apply Lemmas.Base58.check_decode_ok_iff in H. destruct H as (dec & D & -> & _).
    apply bytes_ok_firstn. eapply Lemmas.Base58.decode_ok_bytes; eauto.
  Qed.

  (* Tron: Base58Check of the prefix byte and the 20 address bytes *)
  Theorem trx_decode_accepts_iff s d :
    trx_decode sha256 keccak256 s = Ok d <->
    check_decode b58_alph_btc s = Ok (trx_prefix ++ d) /\ length d = Nat.div eth_addr_len 2.
  Proof.
    unfold AddrB58.trx_decode. split.
    - destruct (b58c_dec b58_alph_btc s) as [dec|] eqn:E; cbn [bind]; [|discriminate].
      destruct (validate_length dec _) eqn:L; cbn [bind]; [|discriminate].
      destruct (validate_and_remove_prefix dec trx_prefix) as [raw|] eqn:P; cbn [bind]; [|discriminate].
      intros H. apply b58c_dec_iff in E. apply remove_prefix_inv in P. subst dec. apply validate_length_inv in L.
      pose proof (check_decode_bytes_ok _ _ _ E) as B. apply bytes_ok_app in B. destruct B as [_ B].
      apply eth_decode_accepts_iff_gen in H. destruct H as (a & Ea & _ & _ & _ & F).
      apply app_inv_head in Ea. subst a. rewrite (from_hex_to_hex raw B) in F.
      assert (raw = d) by (unfold Ok in F; congruence). subst d. split; [exact E|]. rewrite app_length in L. lia.
    - intros [E L]. pose proof (check_decode_bytes_ok _ _ _ E) as B. apply bytes_ok_app in B. destruct B as [_ B].
      apply b58c_dec_iff in E. rewrite E. cbn [bind Ok].
      rewrite validate_length_ok by (rewrite app_length; lia). cbn [bind Ok]. rewrite remove_prefix_app. cbn [bind Ok].
      apply eth_decode_accepts_iff_gen. exists (to_hex d). split; [reflexivity|].
      split; [rewrite to_hex_length, L; reflexivity|]. split; [apply to_hex_all_hex; exact B|].
      split; [discriminate|apply from_hex_to_hex; exact B].
  Qed.

  Theorem trx_accepted_is_encoding s d : trx_decode sha256 keccak256 s = Ok d ->
    s = check_encode b58_alph_btc (trx_prefix ++ d) /\ length d = 20%nat.
  Proof.
    intros H. apply trx_decode_accepts_iff in H. destruct H as [E L]. split; [|exact L].
    symmetry. apply check_canonical; [left; reflexivity|exact E|discriminate].
  Qed.

  Theorem icx_decode_accepts_iff s h :
    icx_decode s = Ok h <-> exists a, s = icx_prefix ++ a /\ from_hex a = Ok h /\ length h = icx_hash_len.
  Proof.
    unfold AddrB58.icx_decode. split.
    - destruct (validate_and_remove_prefix s icx_prefix) as [a|] eqn:P; cbn [bind]; [|discriminate].
      destruct (from_hex a) as [x|] eqn:F; cbn [bind]; [|discriminate].
      destruct (validate_length x icx_hash_len) eqn:L; cbn [bind]; [|discriminate].
      intros H; inversion H; subst x. apply remove_prefix_inv in P. apply validate_length_inv in L. exists a. auto.
    - intros (a & -> & F & L). rewrite remove_prefix_app. cbn [bind Ok]. rewrite F. cbn [bind Ok].
      rewrite validate_length_ok by exact L. reflexivity.
  Qed.

  (* hex formats: the decoder accepts upper, lower and mixed case; the encoder writes lower case *)
  Theorem icx_accepted_is_encoding s h : icx_decode s = Ok h ->
    exists a, s = icx_prefix ++ a /\ map ascii_lower a = to_hex h /\ length h = icx_hash_len /\ bytes_ok h.
  Proof.
    intros H. apply icx_decode_accepts_iff in H. destruct H as (a & -> & F & L).
    destruct (from_hex_ok_inv a h F) as (I1 & I2 & _ & _). exists a. auto.
  Qed.

  Theorem near_decode_accepts_iff s k :
    near_decode valid_pub s = Ok k <->
    from_hex s = Ok k /\ length k = (ed25519_compr_len - 1)%nat /\ valid_pub k = true.
  Proof.
    unfold AddrB58.near_decode. split.
    - destruct (from_hex s) as [x|] eqn:F; cbn [bind]; [|discriminate].
      destruct (validate_length x _) eqn:L; cbn [bind]; [|discriminate].
      destruct (valid_pub x) eqn:V; [|discriminate]. intros H; inversion H; subst x.
      apply validate_length_inv in L. auto.
    - intros (F & L & V). rewrite F. cbn [bind Ok]. rewrite validate_length_ok by exact L. cbn [bind Ok].
      rewrite V. reflexivity.
  Qed.

  Theorem near_accepted_is_encoding s k : near_decode valid_pub s = Ok k ->
    map ascii_lower s = near_encode k /\ valid_pub k = true /\ length k = (ed25519_compr_len - 1)%nat.
  Proof.
    intros H. apply near_decode_accepts_iff in H. destruct H as (F & L & V).
    destruct (from_hex_ok_inv s k F) as (I1 & _). unfold AddrB58.near_encode. auto.
  Qed.

  Theorem sui_decode_accepts_iff s d :
    sui_decode s = Ok d <->
    exists a, s = sui_prefix ++ a /\ length a = (blake2b256_len * 2)%nat /\ from_hex a = Ok d.
  Proof.
    unfold AddrB58.sui_decode. split.
    - destruct (validate_and_remove_prefix s sui_prefix) as [a|] eqn:P; cbn [bind]; [|discriminate].
      destruct (validate_length a _) eqn:L; cbn [bind]; [|discriminate].
      intros F. apply remove_prefix_inv in P. apply validate_length_inv in L. exists a. auto.
    - intros (a & -> & L & F). rewrite remove_prefix_app. cbn [bind Ok]. rewrite validate_length_ok by exact L.
      exact F.
  Qed.

  Theorem sui_accepted_is_encoding s d : sui_decode s = Ok d ->
    exists a, s = sui_prefix ++ a /\ map ascii_lower a = to_hex d /\ length d = blake2b256_len /\ bytes_ok d.
  Proof.
    intros H. apply sui_decode_accepts_iff in H. destruct H as (a & -> & L & F).
    destruct (from_hex_ok_inv a d F) as (I1 & I2 & _ & I4). exists a. repeat split; auto. lia.
  Qed.

  (* Aptos: any number of leading '0' characters may be missing (the decoder pads them back) *)
  Theorem aptos_decode_accepts_iff s d :
    aptos_decode s = Ok d <->
    exists a, s = aptos_prefix ++ a /\ (length a <= sha3_256_len * 2)%nat /\
              from_hex (repeat 48 (sha3_256_len * 2 - length a) ++ a) = Ok d.
  Proof.
    unfold AddrB58.aptos_decode. split.
    - destruct (validate_and_remove_prefix s aptos_prefix) as [a|] eqn:P; cbn [bind]; [|discriminate].
      destruct (validate_length _ _) eqn:L; cbn [bind]; [|discriminate].
      intros F. apply remove_prefix_inv in P. apply validate_length_inv in L. exists a.
      rewrite app_length, repeat_length in L. split; [exact P|]. split; [lia|exact F].
    - intros (a & -> & L & F). rewrite remove_prefix_app. cbn [bind Ok].
      rewrite validate_length_ok by (rewrite app_length, repeat_length; lia). exact F.
  Qed.

  (* what holds: the zero-padded body is, up to case, the hex text of the returned bytes (= the encoder's
     untrimmed output) *)
  Theorem aptos_accepted_partial s d : aptos_decode s = Ok d ->
    exists a, s = aptos_prefix ++ a /\ (length a <= sha3_256_len * 2)%nat /\
      map ascii_lower (repeat 48 (sha3_256_len * 2 - length a) ++ a) = to_hex d /\ length d = sha3_256_len /\ bytes_ok d.
  Proof.
    intros H. apply aptos_decode_accepts_iff in H. destruct H as (a & -> & L & F).
    destruct (from_hex_ok_inv _ d F) as (I1 & I2 & _ & I4). exists a. repeat split; auto.
    rewrite app_length, repeat_length in I4. lia.
  Qed.
End Accept.

(* Full statement "an accepted Aptos string is the encoder's output for the returned bytes, with or without
   zero trimming, up to case" is FALSE: "0x0" is accepted (32 zero bytes) although the encoders write "0x" (trimmed)
   or "0x" followed by 64 zeros.  (The Aptos address standard, AIP-40, lets relaxed parsers accept any amount of
   zero padding, so this is a laxness of the format, not recorded as a defect.) *)
Theorem aptos_canonical_refuted : exists s d, aptos_decode s = Ok d /\
  map ascii_lower s = s /\
  forall trim : bool, s <> aptos_prefix ++ (if trim then lstrip 48 (to_hex d) else to_hex d).
Proof.
  exists (aptos_prefix ++ [48]), (repeat 0 32). split; [vm_compute; reflexivity|]. split; [vm_compute; reflexivity|].
  intros [|]; vm_compute; discriminate.
Qed.

(* Efficient, proved-sound decision procedures for facts about large word lists
   (2048 words of code points): NoDup and index compatibility of two lists, through a
   PositiveMap keyed by a numeric encoding of the word.  The encoding need not be injective
   for soundness: NoDup (map key l) -> NoDup l, and a word of A always finds its key in A's map. *)
From Coq Require Import NArith PArith Arith List Bool Lia FMapPositive.
From BU Require Import Base.Bytes Gen.WlBip39.
Import ListNotations.
Open Scope N_scope.

Module PM := PositiveMap.

Definition wkey (w : list N) : positive :=
  N.succ_pos (fold_left (fun a c => a * 2097152 + c) w 1).

(* ---- NoDup ---- *)
Fixpoint nodup_keys (l : list positive) (m : PM.t unit) : bool :=
  match l with
  | [] => true
  | k :: t => match PM.find k m with
              | Some _ => false
              | None => nodup_keys t (PM.add k tt m)
              end
  end.

Lemma nodup_keys_sound l : forall m, nodup_keys l m = true ->
  NoDup l /\ forall k, In k l -> PM.find k m = None.
Proof.
  induction l as [|a t IH]; intros m H; simpl in H.
  - split; [constructor|intros k []].
  - destruct (PM.find a m) eqn:E; [discriminate|].
    apply IH in H as [ND Hm]. split.
    + constructor; [|exact ND]. intro Hin. specialize (Hm a Hin). rewrite PM.gss in Hm. discriminate.
    + intros k [<-|Hin]; [exact E|]. specialize (Hm k Hin).
      destruct (Pos.eq_dec k a) as [->|Hne]; [rewrite PM.gss in Hm; discriminate|].
      rewrite PM.gso in Hm; auto.
Qed.

Definition words_nodupb (wl : list (list N)) : bool := nodup_keys (map wkey wl) (PM.empty unit).

Lemma words_nodupb_keys wl : words_nodupb wl = true -> NoDup (map wkey wl).
Proof. intros H. apply nodup_keys_sound in H. tauto. Qed.

Lemma words_nodupb_sound wl : words_nodupb wl = true -> NoDup wl.
Proof. intros H. apply words_nodupb_keys in H. eapply NoDup_map_inv; eauto. Qed.

(* ---- key -> index map of a list ---- *)
Fixpoint index_map (l : list positive) (i : nat) (m : PM.t nat) : PM.t nat :=
  match l with
  | [] => m
  | k :: t => index_map t (S i) (PM.add k i m)
  end.

Lemma index_map_notin l : forall i m k, ~ In k l -> PM.find k (index_map l i m) = PM.find k m.
Proof.
  induction l as [|a t IH]; intros i m k Hn; simpl; [reflexivity|].
  rewrite IH by (intro; apply Hn; right; assumption).
  apply PM.gso. intro; subst; apply Hn; left; reflexivity.
Qed.

Lemma index_map_in l : forall i m k, In k l -> exists j, PM.find k (index_map l i m) = Some j.
Proof.
  induction l as [|a t IH]; intros i m k Hin; [destruct Hin|]. simpl.
  destruct (in_dec Pos.eq_dec k t) as [Ht|Ht]; [apply IH; exact Ht|].
  destruct Hin as [<-|Hin]; [|contradiction].
  rewrite index_map_notin by exact Ht. rewrite PM.gss. eauto.
Qed.

Lemma index_map_nth l : forall i m j k, NoDup l -> nth_error l j = Some k ->
  PM.find k (index_map l i m) = Some (i + j)%nat.
Proof.
  induction l as [|a t IH]; intros i m j k ND E; [destruct j; discriminate|].
  inversion ND as [|? ? Ha NDt]; subst. destruct j as [|j]; simpl in *.
  - inversion E; subst. rewrite index_map_notin by exact Ha. rewrite PM.gss. f_equal. lia.
  - rewrite (IH (S i) _ j k NDt E). f_equal. lia.
Qed.

(* ---- two lists: every common word sits at the same index ---- *)
Definition compatible (A B : list (list N)) : Prop :=
  forall w i j, nth_error A i = Some w -> nth_error B j = Some w -> i = j.
Definition disjoint (A B : list (list N)) : Prop := forall w, In w A -> In w B -> False.

Definition compatb (A B : list (list N)) : bool :=
  let m := index_map (map wkey A) 0 (PM.empty nat) in
  forallb (fun ki => match PM.find (fst ki) m with None => true | Some j => Nat.eqb j (snd ki) end)
          (combine (map wkey B) (seq 0 (length B))).

Definition disjointb (A B : list (list N)) : bool :=
  let m := index_map (map wkey A) 0 (PM.empty nat) in
  forallb (fun k => match PM.find k m with None => true | Some _ => false end) (map wkey B).

Lemma nth_error_combine_seq {X} (l : list X) : forall s j x, nth_error l j = Some x ->
  In (x, (s + j)%nat) (combine l (seq s (length l))).
Proof.
  induction l as [|a t IH]; intros s j x E; [destruct j; discriminate|].
  destruct j as [|j]; simpl in *.
  - inversion E; subst. left. f_equal. lia.
  - right. replace (s + S j)%nat with (S s + j)%nat by lia. apply IH; exact E.
Qed.

Lemma compatb_sound A B : words_nodupb A = true -> compatb A B = true -> compatible A B.
Proof.
  intros HA H w i j EA EB. unfold compatb in H. rewrite forallb_forall in H.
  assert (Hin : In (wkey w, j) (combine (map wkey B) (seq 0 (length B)))).
  { rewrite <- (map_length wkey B). apply (nth_error_combine_seq (map wkey B) 0 j).
    rewrite nth_error_map, EB. reflexivity. }
  specialize (H _ Hin). cbn [fst snd] in H.
  rewrite (index_map_nth (map wkey A) 0 _ i (wkey w)) in H.
  - apply Nat.eqb_eq in H. exact H.
  - apply words_nodupb_keys; exact HA.
  - rewrite nth_error_map, EA. reflexivity.
Qed.

Lemma disjointb_sound A B : disjointb A B = true -> disjoint A B.
Proof.
  intros H w HA HB. unfold disjointb in H. rewrite forallb_forall in H.
  specialize (H (wkey w) (in_map wkey _ _ HB)).
  destruct (index_map_in (map wkey A) 0 (PM.empty nat) (wkey w) (in_map wkey _ _ HA)) as [j Hj].
  rewrite Hj in H. discriminate.
Qed.

Lemma disjoint_compatible A B : disjoint A B -> compatible A B.
Proof.
  intros H w i j EA EB. exfalso. apply (H w); eapply nth_error_In; eauto.
Qed.

(* ---- exact word-level helpers (quadratic; used on two pairs only) ---- *)
Fixpoint wmemb (w : list N) (l : list (list N)) : bool :=
  match l with [] => false | x :: t => list_eqb x w || wmemb w t end.

Lemma wmemb_In w l : wmemb w l = true <-> In w l.
Proof.
  induction l as [|x t IH]; simpl; [split; [discriminate|tauto]|].
  rewrite orb_true_iff, list_eqb_spec, IH. tauto.
Qed.

Definition shared (A B : list (list N)) : list (list N) := filter (fun w => wmemb w A) B.

Lemma shared_spec A B w : In w (shared A B) <-> In w A /\ In w B.
Proof. unfold shared. rewrite filter_In, wmemb_In. tauto. Qed.

(* the k-th configured BIP-39 list (Gen.WlBip39.bip39_langs, enumeration order) *)
Definition lang_at (k : nat) : list (list N) := nth k bip39_langs [].

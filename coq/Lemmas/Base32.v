(* Proofs about Model/Base32.v. *)
From Coq Require Import NArith Arith List Lia Bool.
From BU Require Import Base.Exn Base.Radix Base.Bytes Model.ConvertBits Model.Base32 Lemmas.CodecsAux.
From BU Require Model.Base58 Lemmas.Base58 Lemmas.ConvertBits.
Import ListNotations.
Open Scope N_scope.

(* ---- the RFC 4648 alphabet ---- *)
Lemma rfc_nodup : NoDup rfc_alphabet.
Proof. apply nodupb_sound. vm_compute. reflexivity. Qed.
Lemma rfc_len : length rfc_alphabet = N.to_nat 32.
Proof. reflexivity. Qed.
Lemma rfc_no_pad : ~ In rfc_pad rfc_alphabet.
Proof. intro H. apply memb_In in H. vm_compute in H. discriminate. Qed.
Lemma r32 : 2 <= 32. Proof. lia. Qed.

(* ---- strip ---- *)
Lemma lstrip_set_repeat c k l : lstrip_set [c] (repeat c k ++ l) = lstrip_set [c] l.
Proof. induction k; cbn [repeat app lstrip_set memb]; [reflexivity|]. rewrite N.eqb_refl. exact IHk. Qed.

Lemma lstrip_set_hd c l : (forall x t, l = x :: t -> x <> c) -> lstrip_set [c] l = l.
Proof.
  destruct l as [|x t]; [reflexivity|]. intros H. cbn [lstrip_set memb].
  destruct (N.eqb_spec x c) as [E|_]; [exfalso; eapply H; eauto|reflexivity].
Qed.

Lemma rstrip_set_app c x k : (forall y, In y x -> y <> c) -> rstrip_set [c] (x ++ repeat c k) = x.
Proof.
  intros H. unfold rstrip_set. rewrite rev_app_distr, rev_repeat, lstrip_set_repeat, lstrip_set_hd.
  - apply rev_involutive.
  - intros y t E. apply H. apply in_rev. rewrite E. left; reflexivity.
Qed.

(* ---- symbols ---- *)
Section Alphabet.
  Variable alph : list N.
  Hypothesis alph_nodup : NoDup alph.
  Hypothesis alph_len : length alph = N.to_nat 32.

  Lemma sym32_in d : d < 32 -> In (sym32 alph d) alph.
  Proof. intros H. unfold sym32, Base58.sym. apply nth_In. lia. Qed.

  Lemma mapM_rev_index ds : digits_ok 32 ds -> mapM (rev_index alph) (map (sym32 alph) ds) = Ok ds.
  Proof.
    induction 1 as [|d t Hd Ht IH]; [reflexivity|]. cbn [map mapM].
    unfold rev_index at 1, sym32 at 1.
    rewrite (Lemmas.Base58.sym_index_sym alph 32 alph_nodup alph_len r32 d Hd). cbn [bind Ok].
    rewrite IH. reflexivity.
  Qed.

  Lemma syms_not c ds : ~ In c alph -> digits_ok 32 ds -> forall y, In y (map (sym32 alph) ds) -> y <> c.
  Proof.
    intros Hc Hds y Hy. apply in_map_iff in Hy. destruct Hy as (d & <- & Hd).
    unfold digits_ok in Hds. rewrite Forall_forall in Hds. specialize (Hds d Hd).
    intro E. apply Hc. rewrite <- E. apply sym32_in. exact Hds.
  Qed.
End Alphabet.

(* ---- padding count ---- *)
Definition padcount (L : nat) : nat := ((8 - L mod 8) mod 8)%nat.

Lemma padcount_spec (L n p : nat) : (5 * L = 8 * n + p)%nat -> (p < 5)%nat ->
  existsb (Nat.eqb (padcount L)) [0; 1; 3; 4; 6]%nat = true /\ ((L + padcount L) mod 8 = 0)%nat.
Proof.
  intros E Hp. unfold padcount.
  pose proof (Nat.div_mod L 8 ltac:(lia)) as DM. pose proof (Nat.mod_upper_bound L 8 ltac:(lia)) as UB.
  set (m := (L mod 8)%nat) in *. set (q := (L / 8)%nat) in *. clearbody m q.
  assert (C : (m = 0 \/ m = 2 \/ m = 4 \/ m = 5 \/ m = 7)%nat) by lia.
  destruct C as [->|[->|[->|[->| ->]]]]; (split; [reflexivity|]); subst L.
  - change ((8 - 0) mod 8)%nat with 0%nat. rewrite Nat.add_0_r, Nat.add_0_r, Nat.mul_comm. apply Nat.mod_mul; lia.
  - change ((8 - 2) mod 8)%nat with 6%nat. replace (8 * q + 2 + 6)%nat with ((q + 1) * 8)%nat by lia. apply Nat.mod_mul; lia.
  - change ((8 - 4) mod 8)%nat with 4%nat. replace (8 * q + 4 + 4)%nat with ((q + 1) * 8)%nat by lia. apply Nat.mod_mul; lia.
  - change ((8 - 5) mod 8)%nat with 3%nat. replace (8 * q + 5 + 3)%nat with ((q + 1) * 8)%nat by lia. apply Nat.mod_mul; lia.
  - change ((8 - 7) mod 8)%nat with 1%nat. replace (8 * q + 7 + 1)%nat with ((q + 1) * 8)%nat by lia. apply Nat.mod_mul; lia.
Qed.

Lemma p8 : 0 < 8. Proof. reflexivity. Qed.
Lemma p5 : 0 < 5. Proof. reflexivity. Qed.

(* the regrouped digits of a byte string, as a relation *)
Definition digits5 (b ds : list N) : Prop :=
  digits_ok 32 ds /\ exists p, p < 5 /\ 5 * N.of_nat (length ds) = 8 * N.of_nat (length b) + p /\
                               from_be 32 ds = be_to_int b * 2 ^ p.

Lemma b32encode_shape b : bytes_ok b ->
  exists ds, digits5 b ds /\
    b32encode b = Ok (map (sym32 rfc_alphabet) ds ++ repeat rfc_pad (padcount (length ds))).
Proof.
  intros Hb. destruct (Lemmas.ConvertBits.convert_pad_spec 8 5 p8 p5 b Hb) as (l & p & E & Hl & Hp & Hlen & Hval).
  exists l. split; [split; [exact Hl|exists p; auto]|].
  unfold b32encode. rewrite E. reflexivity.
Qed.

Lemma quot_unique X V c pend : 0 < c -> pend < c -> X * c + pend = V * c -> pend = 0 /\ X = V.
Proof.
  intros Hc Hp E.
  assert (X = V).
  { destruct (N.lt_trichotomy X V) as [L|[L|L]]; [|exact L|]; exfalso; nia. }
  subst. split; [lia|reflexivity].
Qed.

(* b32decode of RFC-alphabet symbols followed by the matching '=' run *)
Lemma b32decode_encoded b ds : bytes_ok b -> digits5 b ds ->
  b32decode (map (sym32 rfc_alphabet) ds ++ repeat rfc_pad (padcount (length ds))) = Ok b.
Proof.
  intros Hb (Hds & p & Hp & Hlen & Hval).
  destruct (padcount_spec (length ds) (length b) (N.to_nat p) ltac:(lia) ltac:(lia)) as [K1 K2].
  unfold b32decode. set (k := padcount (length ds)) in *.
  rewrite app_length, map_length, repeat_length, K2. cbn [Nat.eqb negb].
  rewrite (rstrip_set_app rfc_pad) by (apply (syms_not rfc_alphabet rfc_len); [apply rfc_no_pad|exact Hds]).
  rewrite (mapM_rev_index rfc_alphabet rfc_nodup rfc_len ds Hds). cbn [bind Ok].
  rewrite map_length. replace (length ds + k - length ds)%nat with k by lia. rewrite K1. cbn [negb].
  destruct (Lemmas.ConvertBits.convert_floor_spec 5 8 p5 p8 ds Hds)
    as (b' & bits & pend & Hbits & Hpend & Hb' & Hlen' & Hval' & E').
  rewrite E'. cbn. unfold Ok. f_equal.
  assert (bits = p /\ length b' = length b) by lia. destruct H as [-> Lb].
  change (2 ^ 8) with 256 in *. change (2 ^ 5) with 32 in *.
  fold (be_to_int b') in Hval'. rewrite Hval in Hval'.
  destruct (quot_unique _ _ _ _ (pow2_pos p) Hpend Hval') as [_ EV].
  apply (from_be_inj_len 256 r256); auto.
Qed.

Theorem b32decode_b32encode b : bytes_ok b -> exists s, b32encode b = Ok s /\ b32decode s = Ok b.
Proof.
  intros Hb. destruct (b32encode_shape b Hb) as (ds & D & E). eexists; split; [exact E|].
  apply b32decode_encoded; assumption.
Qed.

(* ---- str.translate(str.maketrans(from, to)) ---- *)
Lemma trans_fold_notin c from : forall (to : list N) (acc : N), ~ In c from ->
  fold_left (fun (acc : N) (ft : N * N) => if N.eqb c (fst ft) then snd ft else acc) (combine from to) acc = acc.
Proof.
  induction from as [|a from IH]; intros to acc H; [reflexivity|].
  destruct to as [|b to]; [reflexivity|]. cbn [combine fold_left fst snd].
  destruct (N.eqb_spec c a) as [->|_]; [exfalso; apply H; left; reflexivity|].
  apply IH. intro I. apply H. right; exact I.
Qed.

Lemma trans_fold_nth c from : NoDup from -> forall (to : list N) i (acc t : N),
  nth_error from i = Some c -> nth_error to i = Some t ->
  fold_left (fun (acc : N) (ft : N * N) => if N.eqb c (fst ft) then snd ft else acc) (combine from to) acc = t.
Proof.
  induction 1 as [|a from Ha Hnd IH]; intros to i acc t Hf Ht; [destruct i; discriminate|].
  destruct to as [|b to]; [destruct i; discriminate|]. cbn [combine fold_left fst snd].
  destruct i as [|i]; cbn [nth_error] in Hf, Ht.
  - assert (a = c) by congruence. assert (b = t) by congruence. subst. rewrite N.eqb_refl.
    apply trans_fold_notin. exact Ha.
  - destruct (N.eqb_spec c a) as [->|_]; [exfalso; apply Ha; eapply nth_error_In; eauto|].
    eapply IH; eauto.
Qed.

Lemma trans_char_sym from to d : NoDup from -> length from = N.to_nat 32 -> length to = N.to_nat 32 ->
  d < 32 -> trans_char from to (sym32 from d) = sym32 to d.
Proof.
  intros Hnd Lf Lt Hd. unfold trans_char, sym32, Base58.sym.
  apply (trans_fold_nth _ from Hnd to (N.to_nat d)); apply nth_error_nth'; lia.
Qed.

Lemma trans_char_other from to c : ~ In c from -> trans_char from to c = c.
Proof. intros H. unfold trans_char. apply trans_fold_notin. exact H. Qed.

Lemma translate_syms from to ds k : NoDup from -> length from = N.to_nat 32 -> length to = N.to_nat 32 ->
  ~ In rfc_pad from -> digits_ok 32 ds ->
  translate from to (map (sym32 from) ds ++ repeat rfc_pad k) = Ok (map (sym32 to) ds ++ repeat rfc_pad k).
Proof.
  intros Hnd Lf Lt Hp Hds. unfold translate. rewrite Lf, Lt, Nat.eqb_refl. unfold Ok. f_equal.
  rewrite map_app, map_map, map_repeat_N, (trans_char_other from to rfc_pad Hp). f_equal.
  apply map_ext_in. intros d Hd. unfold digits_ok in Hds. rewrite Forall_forall in Hds.
  apply trans_char_sym; auto.
Qed.

(* ---- the library level, on the RFC alphabet and "=" ---- *)
Definition valid_custom (c : list N) : Prop := NoDup c /\ length c = 32%nat /\ ~ In rfc_pad c.
Definition custom_ok (custom : option (list N)) : Prop :=
  match custom with None => True | Some c => valid_custom c end.
Definition eff (custom : option (list N)) : list N :=
  match custom with None => rfc_alphabet | Some c => c end.

Notation encode := (Base32.encode rfc_alphabet).
Notation encode_no_padding := (Base32.encode_no_padding rfc_alphabet [rfc_pad]).
Notation decode := (Base32.decode rfc_alphabet [rfc_pad]).

Lemma eff_facts custom : custom_ok custom ->
  NoDup (eff custom) /\ length (eff custom) = N.to_nat 32 /\ ~ In rfc_pad (eff custom).
Proof.
  destruct custom as [c|]; cbn.
  - intros (A & B & C). auto.
  - intros _. split; [apply rfc_nodup|]. split; [apply rfc_len|apply rfc_no_pad].
Qed.

Lemma encode_shape b custom : bytes_ok b -> custom_ok custom ->
  exists ds, digits5 b ds /\
    encode b custom = Ok (map (sym32 (eff custom)) ds ++ repeat rfc_pad (padcount (length ds))).
Proof.
  intros Hb Hc. destruct (b32encode_shape b Hb) as (ds & D & E). exists ds. split; [exact D|].
  unfold Base32.encode. rewrite E. cbn [bind Ok]. destruct custom as [c|]; [|reflexivity].
  destruct Hc as (A & B & C). destruct D as [Hds _].
  apply translate_syms; auto using rfc_nodup, rfc_len, rfc_no_pad.
Qed.

Lemma concat_pad k : concat (repeat [rfc_pad] k) = repeat rfc_pad k.
Proof. induction k; simpl; congruence. Qed.

Lemma add_padding_bare (x : list N) : add_padding [rfc_pad] x = x ++ repeat rfc_pad (padcount (length x)).
Proof.
  unfold add_padding, padcount. pose proof (Nat.mod_upper_bound (length x) 8 ltac:(lia)) as UB.
  destruct (Nat.eqb_spec (length x mod 8) 0) as [E|NE].
  - rewrite E. change ((8 - 0) mod 8)%nat with 0%nat. cbn. rewrite app_nil_r. reflexivity.
  - rewrite concat_pad. rewrite (Nat.mod_small (8 - length x mod 8) 8) by lia. reflexivity.
Qed.

Lemma add_padding_full (x : list N) : (length x mod 8 = 0)%nat -> add_padding [rfc_pad] x = x.
Proof. intros E. unfold add_padding. rewrite E. reflexivity. Qed.

Lemma decode_of_shape b ds custom (full : bool) : bytes_ok b -> custom_ok custom -> digits5 b ds ->
  decode (map (sym32 (eff custom)) ds ++ (if full then repeat rfc_pad (padcount (length ds)) else [])) custom = Ok b.
Proof.
  intros Hb Hc D. pose proof D as (Hds & p & Hp & Hlen & Hval).
  destruct (padcount_spec (length ds) (length b) (N.to_nat p) ltac:(lia) ltac:(lia)) as [K1 K2].
  destruct (eff_facts custom Hc) as (E1 & E2 & E3).
  unfold Base32.decode.
  assert (P : add_padding [rfc_pad] (map (sym32 (eff custom)) ds ++
                (if full then repeat rfc_pad (padcount (length ds)) else [])) =
              map (sym32 (eff custom)) ds ++ repeat rfc_pad (padcount (length ds))).
  { destruct full.
    - apply add_padding_full. rewrite app_length, map_length, repeat_length. exact K2.
    - rewrite app_nil_r, add_padding_bare, map_length. reflexivity. }
  rewrite P. destruct custom as [c|].
  - cbn [eff] in *.
    assert (Chk : existsb (fun ch => negb (memb ch c) && negb (list_eqb [ch] [rfc_pad]))
                    (map (sym32 c) ds ++ repeat rfc_pad (padcount (length ds))) = false).
    { apply not_true_is_false. intro X. apply existsb_exists in X. destruct X as (ch & I & X).
      apply andb_true_iff in X. destruct X as [X1 X2]. apply negb_true_iff in X1, X2.
      apply in_app_or in I. destruct I as [I|I].
      - apply in_map_iff in I. destruct I as (d & <- & Hd).
        unfold digits_ok in Hds. rewrite Forall_forall in Hds.
        assert (In (sym32 c d) c) by (apply sym32_in; auto).
        apply memb_In in H. congruence.
      - apply repeat_spec in I. subst ch. rewrite list_eqb_refl in X2. discriminate. }
    rewrite Chk. rewrite (translate_syms c rfc_alphabet ds _ E1 E2 rfc_len E3 Hds). cbn [bind Ok].
    apply b32decode_encoded; assumption.
  - cbn [bind Ok eff]. apply b32decode_encoded; assumption.
Qed.

(* Base32Decoder.Decode(Base32Encoder.Encode(b, A), A) = b for the RFC alphabet and every bijective custom
   alphabet A (32 distinct characters, none of them '='), every byte string b *)
Theorem decode_encode b custom : bytes_ok b -> custom_ok custom ->
  exists s, encode b custom = Ok s /\ decode s custom = Ok b.
Proof.
  intros Hb Hc. destruct (encode_shape b custom Hb Hc) as (ds & D & E). eexists; split; [exact E|].
  apply (decode_of_shape b ds custom true); assumption.
Qed.

(* ... and the same through EncodeNoPadding: padding is stripped and restored for every length mod 5 *)
Theorem decode_encode_no_padding b custom : bytes_ok b -> custom_ok custom ->
  exists s, encode_no_padding b custom = Ok s /\ decode s custom = Ok b /\ ~ In rfc_pad s.
Proof.
  intros Hb Hc. destruct (encode_shape b custom Hb Hc) as (ds & D & E).
  destruct (eff_facts custom Hc) as (E1 & E2 & E3). pose proof D as (Hds & _).
  exists (map (sym32 (eff custom)) ds). unfold Base32.encode_no_padding. rewrite E. cbn [bind Ok].
  rewrite (rstrip_set_app rfc_pad) by (apply (syms_not (eff custom) E2); assumption).
  split; [reflexivity|]. split.
  - pose proof (decode_of_shape b ds custom false Hb Hc D) as R. rewrite app_nil_r in R. exact R.
  - intro I. eapply (syms_not (eff custom) E2 rfc_pad ds E3 Hds); eauto.
Qed.

(* the encoded text is the standard one: data symbols = 8->5 regrouping, length a multiple of 8 *)
Theorem encode_standard b custom s : bytes_ok b -> custom_ok custom -> encode b custom = Ok s ->
  (length s mod 8 = 0)%nat /\
  exists ds, digits5 b ds /\ s = map (sym32 (eff custom)) ds ++ repeat rfc_pad (padcount (length ds)).
Proof.
  intros Hb Hc E. destruct (encode_shape b custom Hb Hc) as (ds & D & E'). rewrite E in E'.
  assert (S : s = map (sym32 (eff custom)) ds ++ repeat rfc_pad (padcount (length ds))) by (unfold Ok in E'; congruence).
  split; [|exists ds; auto]. pose proof D as (Hds & p & Hp & Hlen & Hval).
  destruct (padcount_spec (length ds) (length b) (N.to_nat p) ltac:(lia) ltac:(lia)) as [_ K2].
  rewrite S, app_length, map_length, repeat_length. exact K2.
Qed.

(* the regrouped digits are unique, so the relation digits5 is a function of b *)
Lemma digits5_unique b ds1 ds2 : digits5 b ds1 -> digits5 b ds2 -> ds1 = ds2.
Proof.
  intros (H1 & p1 & P1 & L1 & V1) (H2 & p2 & P2 & L2 & V2).
  assert (p1 = p2 /\ length ds1 = length ds2) by lia. destruct H as [-> L].
  apply (from_be_inj_len 32 r32); auto. congruence.
Qed.

(* with a custom alphabet, any character that is neither in that alphabet nor '=' is a ValueError
   (before the repair in /repo such a character of the standard alphabet was decoded as an alias) *)
Theorem decode_custom_foreign s c ch : In ch s -> ~ In ch c -> ch <> rfc_pad ->
  decode s (Some c) = Err ValueError.
Proof.
  intros I Hc Hp. unfold Base32.decode.
  assert (I2 : In ch (add_padding [rfc_pad] s)).
  { unfold add_padding. destruct (_ =? 0)%nat; [exact I|apply in_or_app; left; exact I]. }
  assert (X : existsb (fun ch => negb (memb ch c) && negb (list_eqb [ch] [rfc_pad])) (add_padding [rfc_pad] s) = true).
  { apply existsb_exists. exists ch. split; [exact I2|]. apply andb_true_iff. split; apply negb_true_iff.
    - destruct (memb ch c) eqn:M; [apply memb_In in M; contradiction|reflexivity].
    - destruct (list_eqb [ch] [rfc_pad]) eqn:L; [|reflexivity]. apply list_eqb_spec in L. congruence. }
  rewrite X. reflexivity.
Qed.

(* ---- error classes: the decoder raises nothing but ValueError (in particular the regrouping loop never runs
        out of fuel, because every accepted symbol is below 32) ---- *)
Lemma mapM_rev_index_digits alph : length alph = N.to_nat 32 -> forall body ds,
  mapM (rev_index alph) body = Ok ds -> digits_ok 32 ds.
Proof.
  intros Hl body ds M.
  exact (proj1 (Lemmas.Base58.mapM_sym_index_spec alph 32 Hl r32 body ds M)).
Qed.

Theorem b32decode_err s e : b32decode s = Err e -> e = ValueError.
Proof.
  unfold b32decode. destruct (negb _); [unfold Err; congruence|].
  destruct (mapM (rev_index rfc_alphabet) _) as [ds|e1] eqn:M; cbn [bind].
  - destruct (negb _); [unfold Err; congruence|].
    pose proof (mapM_rev_index_digits rfc_alphabet rfc_len _ _ M) as Hds.
    destruct (Lemmas.ConvertBits.convert_floor_spec 5 8 p5 p8 ds Hds) as (l & bits & pend & _ & _ & _ & _ & _ & E).
    rewrite E. discriminate.
  - intros E. assert (e1 = e) by (unfold Err in E; congruence). subst.
    apply Lemmas.Base58.mapM_err_exists in M. destruct M as (x & _ & Hx).
    eapply Lemmas.Base58.sym_index_err; exact Hx.
Qed.

Theorem decode_err s custom e : decode s custom = Err e -> e = ValueError.
Proof.
  unfold Base32.decode. destruct custom as [c|].
  - destruct (existsb _ _); cbn [bind Err Ok]; [intros E; unfold Err in E; congruence|].
    unfold translate. destruct (_ =? _)%nat; cbn [bind Ok Err]; [apply b32decode_err|intros E; unfold Err in E; congruence].
  - cbn [bind Ok]. apply b32decode_err.
Qed.

(* b32decode is not canonical: left-over bits are not checked (RFC 4648 section 3.5 leaves this to the
   implementation); "AB======" and "AA======" both decode to 0x00 *)
Example b32decode_noncanonical :
  b32decode [65; 66; 61; 61; 61; 61; 61; 61] = Ok [0] /\ b32encode [0] = Ok [65; 65; 61; 61; 61; 61; 61; 61].
Proof. split; vm_compute; reflexivity. Qed.

(* C14 no-escape lemmas: BIP-39 decoder / validator / seed generators (proved directly from the models: every
   Err site of these models is a ValueError, UnicodeError or MnemonicChecksumError, for arbitrary oracles and
   word lists), and the Monero / Algorand / Electrum mnemonic decoders (from their contributors' error lemmas). *)
From Coq Require Import NArith Arith List Bool Lia.
From BU Require Import Base.Exn Base.Bytes Model.BinStr Model.Bip39 Model.Seeds Gen.Bip39Consts.
From BU Require Import Lemmas.NoEscape.
Import ListNotations.

(* ------------------------------------------------------------------ binary-string helpers *)
Lemma bin_digit_family c : in_family (bin_digit c) = true.
Proof. unfold bin_digit. fam. Qed.

Lemma int_of_binstr_family s : in_family (int_of_binstr s) = true.
Proof. unfold int_of_binstr. fam. apply bin_digit_family. Qed.

Lemma hex_val_family c : in_family (hex_val c) = true.
Proof. unfold hex_val. fam. Qed.

Lemma unhexlify_family : forall n s, (length s <= n)%nat -> in_family (unhexlify s) = true.
Proof.
  induction n as [|n IH]; intros s L.
  - destruct s; [reflexivity|simpl in L; lia].
  - destruct s as [|a [|b t]]; [reflexivity|reflexivity|]. cbn [unhexlify]. fam; try apply hex_val_family.
    apply IH. simpl in L. lia.
Qed.

Lemma bytes_of_binstr_family s pad : in_family (bytes_of_binstr s pad) = true.
Proof. unfold bytes_of_binstr. fam; [apply int_of_binstr_family|eapply unhexlify_family; reflexivity]. Qed.

(* ------------------------------------------------------------------ BIP-39 *)
Section Bip39.
  Variable sha256 nfkd lower : list N -> list N.
  Variable langs : list (list (list N)).

  Lemma get_word_idx_family wl w : in_family (get_word_idx wl w) = true.
  Proof. unfold get_word_idx. fam. Qed.

  Lemma find_language_in_family ls ws : in_family (find_language_in ls ws) = true.
  Proof. induction ls as [|wl t IH]; cbn [find_language_in]; fam. Qed.

  Lemma entropy_of_binstr_family mbs : in_family (entropy_of_binstr mbs) = true.
  Proof. unfold entropy_of_binstr. apply bytes_of_binstr_family. Qed.

  Lemma decode_bin_family lang ws : in_family (decode_bin sha256 langs lang ws) = true.
  Proof.
    unfold decode_bin, find_language, compute_cksum. fam;
      try apply find_language_in_family; try apply get_word_idx_family; try apply entropy_of_binstr_family.
  Qed.

  (* Bip39MnemonicDecoder(lang).Decode(mnemonic object) *)
  Lemma bip39_decode_family lang ws : in_family (decode sha256 langs lang ws) = true.
  Proof. unfold decode. fam; [apply decode_bin_family|apply entropy_of_binstr_family]. Qed.

  (* ... DecodeWithChecksum *)
  Lemma bip39_decode_ck_family lang ws : in_family (decode_with_checksum sha256 langs lang ws) = true.
  Proof. unfold decode_with_checksum. fam; [apply decode_bin_family|apply bytes_of_binstr_family]. Qed.

  (* the same on a str argument (Bip39Mnemonic.FromString first: split + lower + NFKD, no error site) *)
  Lemma bip39_decode_str_family lang s : in_family (decode_str sha256 nfkd lower langs lang s) = true.
  Proof. apply bip39_decode_family. Qed.
  Lemma bip39_decode_ck_str_family lang s : in_family (decode_with_checksum_str sha256 nfkd lower langs lang s) = true.
  Proof. apply bip39_decode_ck_family. Qed.

  (* Bip39MnemonicValidator.IsValid: what it does not catch is what Decode raised; Validate = Decode *)
  Lemma bip39_is_valid_family lang ws : in_family (is_valid sha256 langs lang ws) = true.
  Proof.
    unfold is_valid. pose proof (bip39_decode_family lang ws) as H.
    destruct (decode sha256 langs lang ws) as [x|e]; [reflexivity|].
    destruct (caught_by_is_valid e); [reflexivity|exact H].
  Qed.
  Lemma bip39_is_valid_str_family lang s : in_family (is_valid_str sha256 nfkd lower langs lang s) = true.
  Proof. apply bip39_is_valid_family. Qed.

  (* ---- seed generators *)
  Variable pbkdf2 : list N -> list N -> N -> N -> list N.

  Lemma utf8_char_family c : in_family (utf8_char c) = true.
  Proof. unfold utf8_char. fam. Qed.
  Lemma seeds_utf8_family s : in_family (utf8 s) = true.
  Proof. unfold utf8. fam. apply utf8_char_family. Qed.

  Lemma derive_key_str_family pw salt r : in_family (derive_key_str pbkdf2 pw salt r) = true.
  Proof. unfold derive_key_str. fam; apply seeds_utf8_family. Qed.
  Lemma derive_key_bytes_family pw salt r : in_family (derive_key_bytes pbkdf2 pw salt r) = true.
  Proof. unfold derive_key_bytes. fam; apply seeds_utf8_family. Qed.

  (* Bip39SeedGenerator(str, lang).Generate(passphrase) *)
  Lemma bip39_seed_str_family lang s pass :
    in_family (bip39_seed_str sha256 nfkd lower pbkdf2 langs lang s pass) = true.
  Proof.
    unfold bip39_seed_str, bip39_seed. fam; [apply bip39_decode_family|apply derive_key_str_family].
  Qed.
  Lemma bip39_seed_list_family lang ws pass :
    in_family (bip39_seed_list sha256 nfkd lower pbkdf2 langs lang ws pass) = true.
  Proof.
    unfold bip39_seed_list, bip39_seed. fam; [apply bip39_decode_family|apply derive_key_str_family].
  Qed.

  (* SubstrateBip39SeedGenerator(str, lang).Generate(passphrase) *)
  Lemma substrate_seed_str_family lang s pass :
    in_family (substrate_seed_str sha256 nfkd lower pbkdf2 langs lang s pass) = true.
  Proof.
    unfold substrate_seed_str, substrate_seed. fam; [apply bip39_decode_family|apply derive_key_bytes_family].
  Qed.

  (* ElectrumV2SeedGenerator / ElectrumV1SeedGenerator, relative to the validity test / decoder of the scheme *)
  Lemma electrum_v2_seed_str_family (ev2_validate : list (list N) -> res unit) s pass :
    (forall ws, in_family (ev2_validate ws) = true) ->
    in_family (electrum_v2_seed_str nfkd lower pbkdf2 ev2_validate s pass) = true.
  Proof. intros H. unfold electrum_v2_seed_str, electrum_v2_seed. fam; [apply H|apply derive_key_str_family]. Qed.

  Lemma electrum_v1_seed_str_family (ev1_decode : list (list N) -> res (list N)) s :
    (forall ws, in_family (ev1_decode ws) = true) ->
    in_family (electrum_v1_seed_str sha256 nfkd lower ev1_decode s) = true.
  Proof. intros H. unfold electrum_v1_seed_str, electrum_v1_seed. fam. apply H. Qed.
End Bip39.

(* ------------------------------------------------------------------ Monero / Algorand / Electrum v1 / v2
   (the instantiations on the regenerated constants are those of Lemmas/MnemC17.v) *)
From BU Require Import Model.MnemWords Model.MnemText Model.ChunkMnemonic Gen.MnemConsts Gen.MnemLangs.
From BU Require Model.MoneroMnemonic Model.ElectrumV2Mnemonic.
From BU Require Lemmas.MnemWords Lemmas.MoneroMnemonic Lemmas.MnemC17.

Lemma mnem_utf8_family s : in_family (MnemText.utf8 s) = true.
Proof. unfold MnemText.utf8. fam. unfold MnemText.utf8_cp. fam. Qed.

Lemma word_idx_family wl w : in_family (word_idx wl w) = true.
Proof. unfold word_idx. fam. Qed.

Lemma find_language_family {A} (wl_of : A -> list (list N)) langs ws : in_family (find_language wl_of langs ws) = true.
Proof. unfold find_language. fam. Qed.

(* MoneroMnemonicDecoder(lang).Decode, lang a MoneroLanguages member or None (automatic detection),
   conformant = the decoder with the chunk-overflow check (current /repo), false = before fix F8 *)
Lemma xmr_decode_family (conformant : bool) (lang : option nat) ws :
  (forall i, lang = Some i -> exists L, nth_error xmr_langs i = Some L) ->
  in_family (Lemmas.MnemC17.xmr_decoder conformant lang ws) = true.
Proof.
  intros Hl.
  assert (S : forall i L, nth_error xmr_langs i = Some L ->
              in_family (Lemmas.MnemC17.xmr_decoder conformant (Some i) ws) = true).
  { intros i L HL. apply family_of_errs. intros e E.
    destruct (Lemmas.MnemC17.xmr_decode_err_family conformant i L ws e HL) as [->|[->| ->]]; try reflexivity.
    destruct conformant; exact E. }
  destruct lang as [i|].
  - destruct (Hl i eq_refl) as [L HL]. exact (S i L HL).
  - destruct (memb (N.of_nat (length ws)) xmr_word_nums) eqn:M.
    + destruct (find_language (@fst _ _) xmr_langs ws) as [L|e] eqn:F.
      * destruct (Lemmas.MnemWords.find_language_ok _ _ _ _ F) as [I _].
        destruct (In_nth_error _ _ I) as [i HL].
        specialize (S i L HL). unfold Lemmas.MnemC17.xmr_decoder in *.
        destruct conformant;
          [unfold Lemmas.MnemC17.xmr_decode in *|unfold Lemmas.MnemC17.xmr_decode_current in *];
          rewrite (Lemmas.MoneroMnemonic.decode_auto_as _ _ _ _ i L ws HL F); exact S.
      * unfold Lemmas.MnemC17.xmr_decoder.
        destruct conformant;
          [unfold Lemmas.MnemC17.xmr_decode|unfold Lemmas.MnemC17.xmr_decode_current];
          rewrite Lemmas.MoneroMnemonic.decode_none_unfold, M, F;
          apply (Lemmas.MnemWords.find_language_err _ _ _ _) in F; destruct F as [-> _]; reflexivity.
    + unfold Lemmas.MnemC17.xmr_decoder.
      destruct conformant;
        [unfold Lemmas.MnemC17.xmr_decode|unfold Lemmas.MnemC17.xmr_decode_current];
        rewrite Lemmas.MoneroMnemonic.decode_none_unfold, M; reflexivity.
Qed.

(* AlgorandMnemonicDecoder.Decode (sha512/256 an oracle with 32-byte outputs) *)
Lemma algo_decode_family sha conformant ws :
  (forall x, length (sha x) = 32%nat) -> (forall x, bytes_ok (sha x)) ->
  in_family (Lemmas.MnemC17.algo_decode sha conformant ws) = true.
Proof.
  intros H1 H2. apply family_of_errs. intros e E.
  destruct (Lemmas.MnemC17.algo_decode_err_family sha H1 H2 conformant ws e E) as [->| ->]; reflexivity.
Qed.

(* ElectrumV1MnemonicDecoder.Decode *)
Lemma ev1_decode_family (conformant : bool) ws :
  in_family ((if conformant then Lemmas.MnemC17.ev1_decode else Lemmas.MnemC17.ev1_decode_current) ws) = true.
Proof.
  apply family_of_errs. intros e E.
  rewrite (Lemmas.MnemC17.ev1_decode_err_family conformant ws e); [reflexivity|]. destruct conformant; exact E.
Qed.

(* ElectrumV2MnemonicDecoder(type, lang).Decode: type / lang enum members or None.  Proved directly: after the two
   enum look-ups the KeyError of TYPE_TO_PREFIX[type] is unreachable; everything else is ValueError/UnicodeError.
   Holds for arbitrary HMAC and validity oracles. *)
Section Ev2.
  Variable hmac : list N -> list N -> list N.
  Variable bip39_valid ev1v : list (list N) -> bool.

  Lemma ev2_is_valid_family ws ty :
    (forall t, ty = Some t -> exists p, nth_error ev2_type_prefixes t = Some p) ->
    in_family (Lemmas.MnemC17.ev2_is_valid hmac bip39_valid ev1v ws ty) = true.
  Proof.
    intros Ht. unfold Lemmas.MnemC17.ev2_is_valid, ElectrumV2Mnemonic.is_valid_mnemonic,
      ElectrumV2Mnemonic.seed_version_hex.
    destruct (bip39_valid ws || ev1v ws); [reflexivity|].
    apply fam_bind; [apply fam_bind; [apply mnem_utf8_family|reflexivity]|]. intros h _.
    destruct ty as [t|]; [|reflexivity]. destruct (Ht t eq_refl) as [p ->]. reflexivity.
  Qed.

  Lemma ev2_decode_family ty lang ws :
    (forall t, ty = Some t -> exists p, nth_error ev2_type_prefixes t = Some p) ->
    (forall l, lang = Some l -> exists wl, nth_error ev2_langs l = Some wl) ->
    in_family (Lemmas.MnemC17.ev2_decode hmac bip39_valid ev1v ty lang ws) = true.
  Proof.
    intros Ht Hl. unfold Lemmas.MnemC17.ev2_decode, ElectrumV2Mnemonic.decode.
    apply fam_bind.
    { destruct ty as [t|]; [|reflexivity]. destruct (Ht t eq_refl) as [p ->]. reflexivity. }
    intros _ _. apply fam_bind.
    { destruct lang as [l|]; [|reflexivity]. destruct (Hl l eq_refl) as [wl ->]. reflexivity. }
    intros fixed _.
    destruct (memb _ _); [|reflexivity].
    apply fam_bind; [apply (ev2_is_valid_family ws ty Ht)|]. intros v _.
    destruct v; [|reflexivity].
    apply fam_bind; [destruct fixed; [reflexivity|apply find_language_family]|]. intros wl _.
    apply fam_bind; [apply fam_mapM; intros; apply word_idx_family|]. reflexivity.
  Qed.
End Ev2.

(* ------------------------------------------------------------------ the encoders behind <X>MnemonicGenerator.FromEntropy(bytes)
   A wrong entropy length is the ValueError of the length guard; on a legal length the contributors' round-trip
   theorems show the encoder returns (so its list-index / assert sites -- IndexError, AssertionError in the models --
   are unreachable on a bytes object). *)
From BU Require Import Gen.WlBip39 Model.Bip39Spec.
From BU Require Lemmas.Bip39Props Lemmas.MnemConstsOk Lemmas.MnemConstsOkB39.

(* Bip39MnemonicGenerator(lang).FromEntropy(bytes) / Bip39MnemonicEncoder(lang).Encode(bytes) *)
Lemma bip39_encode_family sha256 nfkd lower wl ent :
  Lemmas.Bip39Props.sha_ok sha256 -> In wl bip39_langs -> bytes_ok ent ->
  in_family (Bip39.encode sha256 nfkd lower wl ent) = true.
Proof.
  intros Hs Hwl Hb. rewrite (Lemmas.Bip39Props.p_encode_raw sha256 nfkd lower Hs wl Hwl ent Hb).
  apply fam_rmap. unfold encode_spec. fam.
Qed.

(* MoneroMnemonicGenerator(lang).FromEntropyNoChecksum / FromEntropyWithChecksum (bytes) *)
Lemma xmr_encode_family i L chk b : nth_error xmr_langs i = Some L -> bytes_ok b ->
  in_family (Lemmas.MnemC17.xmr_encode i chk b) = true.
Proof.
  intros HL Hb. destruct (MoneroMnemonic.valid_entropy_len xmr_entropy_bit_lens b) eqn:V.
  - destruct (Lemmas.MnemC17.xmr_dec_enc words_to_chunk i L chk b (or_introl eq_refl) HL Hb V) as (ws & E & _).
    unfold Lemmas.MnemC17.xmr_encode. rewrite E. reflexivity.
  - unfold Lemmas.MnemC17.xmr_encode, MoneroMnemonic.encode, MoneroMnemonic.encode_to_list, MoneroMnemonic.get_lang.
    rewrite HL. cbn [of_option bind Ok]. rewrite V. reflexivity.
Qed.

(* AlgorandMnemonicGenerator.FromEntropy(bytes) *)
Lemma algo_encode_family sha b :
  (forall x, length (sha x) = 32%nat) -> (forall x, bytes_ok (sha x)) -> bytes_ok b ->
  in_family (Lemmas.MnemC17.algo_encode sha b) = true.
Proof.
  intros H1 H2 Hb. destruct (Nat.eq_dec (length b) 32) as [L|L].
  - destruct (Lemmas.MnemC17.algo_dec_enc sha H1 H2 true b Hb L) as (ws & E & _).
    unfold Lemmas.MnemC17.algo_encode. rewrite E. reflexivity.
  - unfold Lemmas.MnemC17.algo_encode, AlgorandMnemonic.encode. rewrite Lemmas.MnemConstsOkB39.algo_ent_eq.
    cbn [memb]. destruct (N.eqb_spec (N.of_nat (length b) * 8) 256) as [Q|Q]; [lia|]. reflexivity.
Qed.

(* ElectrumV1MnemonicGenerator.FromEntropy(bytes) *)
Lemma ev1_encode_family b : bytes_ok b -> in_family (Lemmas.MnemC17.ev1_encode b) = true.
Proof.
  intros Hb. destruct (Nat.eq_dec (length b) 16) as [L|L].
  - destruct (Lemmas.MnemC17.ev1_dec_enc words_to_chunk b (or_introl eq_refl) Hb L) as (ws & E & _).
    unfold Lemmas.MnemC17.ev1_encode. rewrite E. reflexivity.
  - unfold Lemmas.MnemC17.ev1_encode, ElectrumV1Mnemonic.encode. rewrite Lemmas.MnemConstsOk.ev1_ent_eq.
    cbn [memb]. destruct (N.eqb_spec (N.of_nat (length b) * 8) 128) as [Q|Q]; [lia|]. reflexivity.
Qed.

(* LINK: the C20 pipelines on the concrete address codecs (Model/LinkAddr.v).
   - Electrum v1: [p2pkh_u] := P2PKH (Base58Check of Model/Base58.v) of the point serialised as the source says;
   - Electrum v2: [addr_p2pkh] := P2PKH of the compressed key, [addr_p2wpkh] := P2WPKH on the SegWit codec of
     Model/Bech32.v (a partial encoder: bound, not wrapped);
   - SPL token: [sol_decode] := SolAddrDecoder (Base58 + length + key test), Base58 := Bitcoin alphabet.
   Each address is shown to decode, with the library's own decoder, to the hash of the key it was made of; for
   the SPL functions the abstract premises about [sol_decode] become facts about Base58.  Oracles left:
   sha256, ripemd160, the group / Bip32 object, Ed25519PublicKey.IsValidBytes. *)
From Coq Require Import NArith ZArith Arith List Bool Lia.
From BU Require Import Base.Exn Base.Radix Base.Bytes Gen.Consts Gen.AddrConsts Gen.AddrTextConsts Gen.SerbipConsts Gen.LinkConsts.
From BU Require Import Model.Base58 Model.AddrUtils Model.AddrB58 Model.AddrText Model.Bech32 Model.Bip38
  Model.ElectrumWallet Model.SplToken Model.LinkAddr.
From BU Require Lemmas.Base58 Lemmas.ConstsOk Lemmas.AddrB58 Lemmas.Bech32 Lemmas.AddrInstBech32 Lemmas.LinkBech32
  Lemmas.SerbipConstsOk Lemmas.ElectrumWallet Lemmas.SplToken.
Import ListNotations.
Open Scope N_scope.

(* ---- the regenerated parameters are what the models below rely on (re-proved on every run) *)
Lemma link_consts_ok :
  electrum_v1_addr_compressed = false /\ p2pkh_default_compressed = true /\
  bytes_ok bip38_addr_net_ver /\ bytes_ok electrum_v1_addr_net_ver /\ bytes_ok electrum_v2_std_addr_net_ver /\
  Lemmas.Bech32.hrp_enc_ok electrum_v2_segwit_addr_hrp.
Proof.
  split; [reflexivity|]. split; [reflexivity|].
  split; [vm_compute; repeat constructor|]. split; [vm_compute; repeat constructor|].
  split; [vm_compute; repeat constructor|]. apply LinkBech32.hrp_enc_okb_sound. vm_compute. reflexivity.
Qed.

Section Electrum.
  Variables sha256 ripemd160 : list N -> list N.
  Hypothesis sha_len : forall x, length (sha256 x) = 32%nat.
  Hypothesis sha_ok : forall x, bytes_ok (sha256 x).
  Hypothesis rip_len : forall x, length (ripemd160 x) = 20%nat.
  Hypothesis rip_ok : forall x, bytes_ok (ripemd160 x).

  Notation h160 := (hash160 sha256 ripemd160).

  Section V1.
    Variable G : Type.
    Variable base : G.
    Variable smul : N -> G -> G.
    Variable add : G -> G -> G.
    Variable is_inf : G -> bool.
    Variables ser_c ser_u : G -> list N.

    Notation get_pub := (v1_get_public_key sha256 G base smul add is_inf ser_u).
    Notation get_addr := (v1c_get_address sha256 ripemd160 G base smul add is_inf ser_c ser_u).
    Notation addr_of := (electrum_v1_p2pkh sha256 ripemd160 G ser_c ser_u).

    (* the address is Base58Check(net version || hash160(04 || X || Y)) *)
    Theorem v1_address_concrete P :
      addr_of P = check_encode b58_alph_btc b58_radix b58_cklen sha256 (electrum_v1_addr_net_ver ++ h160 (ser_u P)).
    Proof. reflexivity. Qed.

    Theorem v1_get_address_c w c i a : get_addr w c i = Ok a ->
      exists P, get_pub w c i = Ok P /\ a = addr_of P /\
        p2pkh_decode sha256 b58_alph_btc electrum_v1_addr_net_ver a = Ok (h160 (ser_u P)).
    Proof using sha_len sha_ok rip_len rip_ok.
      unfold v1c_get_address. rewrite Lemmas.ElectrumWallet.v1_address_uncompressed.
      destruct (get_pub w c i) as [P|]; cbn [bind Ok]; [|discriminate]. intros H. inversion H. exists P.
      split; [reflexivity|]. split; [reflexivity|].
      apply (Lemmas.AddrB58.p2pkh_decode_encode sha256 ripemd160 sha_len sha_ok rip_len rip_ok).
      - left. reflexivity.
      - apply link_consts_ok.
    Qed.
  End V1.

  Section V2.
    Variable obj : Type.
    Variable pub_of : obj -> list N.

    Notation std_address := (v2c_std_address sha256 ripemd160 obj pub_of).
    Notation segwit_address := (v2c_segwit_address sha256 ripemd160 obj pub_of).

    Theorem v2_std_address_c o a : std_address o = Ok a ->
      exists x, o = Ok x /\ v2c_std_decode sha256 a = Ok (h160 (pub_of x)).
    Proof using sha_len sha_ok rip_len rip_ok.
      unfold v2c_std_address. destruct o as [x|]; cbn [bind Ok]; [|discriminate]. intros H. inversion H.
      exists x. split; [reflexivity|]. unfold v2c_std_decode.
      apply (Lemmas.AddrB58.p2pkh_decode_encode sha256 ripemd160 sha_len sha_ok rip_len rip_ok).
      - left. reflexivity.
      - apply link_consts_ok.
    Qed.

    (* the SegWit encoder never refuses a 20-byte program under the configured HRP: the address exists ... *)
    Theorem v2_segwit_address_total x : exists a, segwit_address (Ok x) = Ok a.
    Proof using sha_len sha_ok rip_len rip_ok.
      unfold v2c_segwit_address. cbn [bind Ok]. unfold p2wpkh_encode.
      destruct (Lemmas.Bech32.segwit_dec_enc electrum_v2_segwit_addr_hrp p2wpkh_wit_ver (h160 (pub_of x))) as (s & E & _).
      - apply link_consts_ok.
      - apply rip_ok.
      - apply Lemmas.AddrInstBech32.prog_ok_v0_20. apply rip_len.
      - exists s. exact E.
    Qed.

    (* ... and decodes to the hash160 of the compressed key *)
    Theorem v2_segwit_address_c o a : segwit_address o = Ok a ->
      exists x, o = Ok x /\ v2c_segwit_decode a = Ok (h160 (pub_of x)).
    Proof using sha_len sha_ok rip_len rip_ok.
      unfold v2c_segwit_address. destruct o as [x|]; cbn [bind Ok]; [|discriminate]. intros H.
      exists x. split; [reflexivity|]. unfold v2c_segwit_decode.
      eapply Lemmas.AddrInstBech32.p2wpkh_rt; eauto. apply link_consts_ok.
    Qed.
  End V2.
End Electrum.

(* ------------------------------------------------------------------ SPL token *)
Section Spl.
  Variable sha256 : list N -> list N.
  Variable on_curve : list N -> bool.
  Hypothesis sha_len : forall x, length (sha256 x) = 32%nat.
  Hypothesis sha_ok : forall x, bytes_ok (sha256 x).

  Notation sol_decode := (splc_sol_decode on_curve).
  Notation find_pda := (splc_find_pda sha256 on_curve).
  Notation get_ata := (splc_get_ata sha256 on_curve).
  Notation loop := (find_pda_loop sha256 on_curve).
  Notation b58enc := (encode b58_alph_btc b58_radix).
  Notation b58dec := (decode b58_alph_btc b58_radix).

  (* SolAddrDecoder: exactly the Base58 spellings of 32-byte strings the key test accepts *)
  Theorem sol_decode_ok_iff s p : sol_decode s = Ok p <->
    (b58dec s = Ok p /\ length p = 32%nat /\ on_curve p = true).
  Proof.
    unfold splc_sol_decode, AddrB58.sol_decode, b58_dec.
    destruct (b58dec s) as [d|e]; cbn [bind Ok].
    2:{ split; [discriminate|]. intros (H & _). discriminate. }
    unfold validate_length. change (ed25519_compr_len - 1)%nat with 32%nat.
    destruct (Nat.eqb_spec (length d) 32) as [L|L]; cbn [bind Ok].
    - destruct (on_curve d) eqn:C.
      + split; [intros H; inversion H; subst; auto|]. intros (H & _). exact H.
      + split; [discriminate|]. intros (H & _ & C'). inversion H; subst. congruence.
    - split; [discriminate|]. intros (H & L' & _). inversion H; subst. contradiction.
  Qed.

  Lemma loop_len cat prog : forall fuel bump h, loop cat prog bump fuel = Ok h -> length h = 32%nat /\ bytes_ok h /\ on_curve h = false.
  Proof.
    induction fuel as [|f IH]; intros bump h; cbn [find_pda_loop]; [discriminate|].
    destruct (on_curve (pda_hash sha256 cat bump prog)) eqn:C; [apply IH|].
    intros H. inversion H; subst. unfold pda_hash. auto.
  Qed.

  (* a PDA is the Base58 text of a 32-byte off-curve hash: the library's own Solana address decoder REFUSES it *)
  Theorem pda_is_not_a_sol_address seeds program_id a : find_pda seeds program_id = Ok a ->
    exists h, b58dec a = Ok h /\ a = b58enc h /\ length h = 32%nat /\ on_curve h = false /\
              sol_decode a = Err ValueError.
  Proof.
    unfold splc_find_pda, SplToken.find_pda.
    destruct (_ <? _)%nat; [discriminate|]. destruct (existsb _ _); [discriminate|].
    destruct (sol_decode program_id) as [prog|]; cbn [bind Ok]; [|discriminate].
    destruct (loop (concat seeds) prog spl_bump_max (N.to_nat spl_bump_max)) as [h|] eqn:L; cbn [bind Ok]; [|discriminate].
    intros H. inversion H. destruct (loop_len _ _ _ _ _ L) as (Lh & Bh & Ch). exists h.
    assert (D : b58dec (b58enc h) = Ok h)
      by (apply (Lemmas.Base58.decode_encode _ _ ConstsOk.b58_alph_btc_nodup ConstsOk.b58_alph_btc_len ConstsOk.b58_radix_ge2 h Bh)).
    split; [exact D|]. split; [reflexivity|]. split; [exact Lh|]. split; [exact Ch|].
    unfold splc_sol_decode, AddrB58.sol_decode, b58_dec. rewrite D. cbn [bind Ok]. unfold validate_length.
    change (ed25519_compr_len - 1)%nat with 32%nat. rewrite Lh. cbn [Nat.eqb bind Ok]. rewrite Ch. reflexivity.
  Qed.

  Theorem find_pda_spec_c seeds program_id prog : (length seeds <= 16)%nat ->
    Forall (fun s => (length s <= 32)%nat) seeds ->
    b58dec program_id = Ok prog -> length prog = 32%nat -> on_curve prog = true ->
    find_pda seeds program_id = (h <- loop (concat seeds) prog 255 255 ;; Ok (b58enc h)).
  Proof.
    intros L F D Lp C. apply Lemmas.SplToken.find_pda_spec; auto. apply sol_decode_ok_iff. auto.
  Qed.

  (* the two program ids of the source decode (Base58, 32 bytes) to these bytes -- by computation *)
  Definition ata_program_bytes : list N :=
    match b58dec spl_def_program_id with inl b => b | inr _ => [] end.
  Definition token_program_bytes : list N :=
    match b58dec spl_def_token_program_id with inl b => b | inr _ => [] end.
  Lemma program_ids_decode :
    b58dec spl_def_program_id = Ok ata_program_bytes /\ length ata_program_bytes = 32%nat /\
    b58dec spl_def_token_program_id = Ok token_program_bytes /\ length token_program_bytes = 32%nat.
  Proof. repeat split; vm_compute; reflexivity. Qed.

  (* the associated token account: the premises "sol_decode x = Ok _" and the three length premises of
     [ata_formula] are replaced by facts about the strings; what is left to assume is that the two program ids
     pass the library's key test (an oracle: Ed25519PublicKey.IsValidBytes) *)
  Theorem ata_formula_c wallet mint w m :
    sol_decode wallet = Ok w -> sol_decode mint = Ok m ->
    on_curve ata_program_bytes = true -> on_curve token_program_bytes = true ->
    get_ata wallet mint =
      (h <- loop (w ++ token_program_bytes ++ m) ata_program_bytes 255 255 ;; Ok (b58enc h)).
  Proof.
    intros Dw Dm C1 C2. destruct program_ids_decode as (P1 & L1 & P2 & L2).
    pose proof (proj1 (sol_decode_ok_iff _ _) Dw) as (_ & Lw & _).
    pose proof (proj1 (sol_decode_ok_iff _ _) Dm) as (_ & Lm & _).
    apply (Lemmas.SplToken.ata_formula sha256 on_curve b58_alph_btc b58_radix sol_decode wallet mint w token_program_bytes m ata_program_bytes);
      auto; apply sol_decode_ok_iff; auto.
  Qed.
End Spl.

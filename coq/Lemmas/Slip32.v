(* Proofs about Model/Slip32.v (C05, SLIP-32 part).  The Bech32 codec is abstract: the theorems need
   only decode(encode d) = d and that an encoding starts with its human-readable part. *)
From Coq Require Import NArith ZArith Arith List Lia Bool.
From BU Require Import Base.Exn Base.Radix Base.Bytes Gen.SerbipConsts Model.Bip32Data Model.Slip32.
From BU Require Import Lemmas.Base58 Lemmas.SerbipAux Lemmas.SerbipConstsOk Lemmas.Bip32Ser.
Import ListNotations.
Open Scope N_scope.

Lemma be32_length i : length (be32 i) = 4%nat.
Proof. reflexivity. Qed.

Lemma concat_be32_length path : length (concat (map be32 path)) = (4 * length path)%nat.
Proof.
  induction path as [|i t IH]; [reflexivity|]. cbn [map concat]. rewrite app_length, IH, be32_length.
  cbn [length]. lia.
Qed.

Lemma concat_be32_ok path : Forall (fun i => i <= bip32_index_max) path -> bytes_ok (concat (map be32 path)).
Proof.
  induction 1 as [|i t Hi Ht IH]; [constructor|]. cbn [map concat]. apply bytes_ok_app. split; auto.
  rewrite c_index_max in Hi. apply be32_ok. lia.
Qed.

Lemma mapM_index_to_bytes path : Forall (fun i => i <= bip32_index_max) path ->
  mapM index_to_bytes path = Ok (map be32 path).
Proof.
  intros H. apply mapM_ok_forall. intros x Hx. rewrite Forall_forall in H. apply index_to_bytes_ok; auto.
Qed.

Lemma mk_depth_nat n : mk_depth (Z.of_nat n) = Ok (N.of_nat n).
Proof. rewrite <- nat_N_Z. apply mk_depth_N. Qed.

Section Slip32Proofs.
  Variable bech_enc : list N -> list N -> list N.
  Variable bech_dec : list N -> list N -> res (list N).

  Hypothesis bech_dec_enc : forall hrp d, bytes_ok d -> bech_dec hrp (bech_enc hrp d) = Ok d.
  Hypothesis bech_enc_prefix : forall hrp d, firstn (length hrp) (bech_enc hrp d) = hrp.

  Notation slip32_ser_priv := (slip32_ser_priv bech_enc).
  Notation slip32_ser_pub := (slip32_ser_pub bech_enc).
  Notation slip32_deserialize := (slip32_deserialize bech_dec).

  Definition slip32_ver_ok (v : slip32_ver) : Prop := length (fst v) = length (snd v) /\ fst v <> snd v.
  Definition path_ok (path : list N) : Prop :=
    (length path <= 255)%nat /\ Forall (fun i => i <= bip32_index_max) path.

  (* the SLIP-32 byte layout: depth || path indices (be32 each) || chain code || key *)
  Definition slip32_layout (path cc key : list N) : list N :=
    [N.of_nat (length path)] ++ concat (map be32 path) ++ cc ++ key.

  Lemma slip32_payload_layout key path cc : path_ok path -> length cc = 32%nat ->
    slip32_payload key path cc = Ok (slip32_layout path cc key).
  Proof.
    intros [Lp Hp] Lc. unfold slip32_payload. rewrite mk_chain_code_ok by auto. cbn [bind Ok].
    rewrite mk_depth_nat. cbn [bind Ok]. rewrite depth_to_bytes_ok by lia. cbn [bind Ok].
    rewrite mapM_index_to_bytes by auto. reflexivity.
  Qed.

  Lemma slip32_layout_ok path cc key : path_ok path -> bytes_ok cc -> bytes_ok key ->
    bytes_ok (slip32_layout path cc key).
  Proof.
    intros [Lp Hp] Hc Hk. unfold slip32_layout. repeat (apply bytes_ok_app; split); auto.
    - repeat constructor. lia.
    - apply concat_be32_ok; auto.
  Qed.

  (* the path loop reads back exactly the serialised indices *)
  Lemma slip32_path_loop path : forall pre rest start,
    Forall (fun i => i <= bip32_index_max) path -> length pre = start ->
    slip32_path (pre ++ concat (map be32 path) ++ rest) start (length path) = Ok path.
  Proof.
    induction path as [|i t IH]; intros pre rest start H L; [reflexivity|].
    inversion H as [|? ? Hi Ht]; subst. cbn [length slip32_path map concat].
    change bip32_index_len with 4%nat.
    assert (Hi' : i < 4294967296) by (rewrite c_index_max in Hi; lia).
    destruct (be32_ok i Hi') as [B1 B2].
    assert (S1 : slice (length pre) (length pre + 4) (pre ++ (be32 i ++ concat (map be32 t)) ++ rest) = be32 i).
    { unfold slice. rewrite skipn_app_exact by reflexivity.
      replace (length pre + 4 - length pre)%nat with 4%nat by lia.
      rewrite <- app_assoc. apply firstn_app_exact. reflexivity. }
    rewrite S1. rewrite index_from_bytes_ok by auto. rewrite B2. cbn [bind Ok].
    replace (pre ++ (be32 i ++ concat (map be32 t)) ++ rest)
      with ((pre ++ be32 i) ++ concat (map be32 t) ++ rest) by (rewrite <- !app_assoc; reflexivity).
    rewrite IH; [reflexivity|auto|]. rewrite app_length, be32_length. reflexivity.
  Qed.

  Lemma slip32_parts_layout path cc key is_public : path_ok path -> length cc = 32%nat ->
    slip32_parts (slip32_layout path cc key) is_public =
      k <- (if is_public then Ok key
            else k0 <- of_option (nth_error key 0) ValueError ;;
                 if negb (k0 =? 0) then Err ValueError else Ok (skipn 1 key)) ;;
      Ok (k, path, cc).
  Proof.
    intros [Lp Hp] Lc. unfold slip32_parts, slip32_layout.
    cbn [app nth_error of_option bind Ok]. rewrite Nnat.Nat2N.id.
    change path_idx with 1%nat. change bip32_index_len with 4%nat. change bip32_chaincode_len with 32%nat.
    change (N.of_nat (length path) :: concat (map be32 path) ++ cc ++ key)
      with ([N.of_nat (length path)] ++ concat (map be32 path) ++ cc ++ key).
    rewrite slip32_path_loop by auto. cbn [bind Ok].
    set (pre := [N.of_nat (length path)] ++ concat (map be32 path)).
    assert (Lpre : length pre = (1 + length path * 4)%nat).
    { unfold pre. rewrite app_length, concat_be32_length. cbn [length]. lia. }
    replace ([N.of_nat (length path)] ++ concat (map be32 path) ++ cc ++ key) with (pre ++ cc ++ key)
      by (unfold pre; rewrite <- app_assoc; reflexivity).
    assert (S1 : slice (1 + length path * 4) (1 + length path * 4 + 32) (pre ++ cc ++ key) = cc).
    { unfold slice. rewrite skipn_app_exact by auto.
      replace (1 + length path * 4 + 32 - (1 + length path * 4))%nat with 32%nat by lia.
      apply firstn_app_exact. auto. }
    assert (S2 : skipn (1 + length path * 4 + 32) (pre ++ cc ++ key) = key).
    { rewrite app_assoc. apply skipn_app_exact. rewrite app_length. lia. }
    rewrite S1, S2. destruct c_slip32_pad as [_ P]. rewrite P.
    destruct is_public.
    - cbn [bind Ok]. rewrite mk_chain_code_ok by auto. reflexivity.
    - destruct key as [|k0 key']; cbn [nth_error of_option bind Ok]; [reflexivity|].
      destruct (negb (k0 =? 0)); cbn [bind Ok]; [reflexivity|]. rewrite mk_chain_code_ok by auto. reflexivity.
  Qed.

  Lemma get_if_public_priv v d : slip32_ver_ok v -> slip32_get_if_public (bech_enc (snd v) d) v = Ok false.
  Proof.
    intros [L Hne]. unfold slip32_get_if_public. rewrite L, bech_enc_prefix.
    rewrite list_eqb_false by congruence. rewrite list_eqb_refl. reflexivity.
  Qed.
  Lemma get_if_public_pub v d : slip32_get_if_public (bech_enc (fst v) d) v = Ok true.
  Proof. unfold slip32_get_if_public. rewrite bech_enc_prefix, list_eqb_refl. reflexivity. Qed.

  Theorem slip32_roundtrip_priv v path cc raw s :
    slip32_ver_ok v -> path_ok path -> length cc = 32%nat -> bytes_ok cc -> bytes_ok raw ->
    slip32_ser_priv v path cc raw = Ok s ->
    slip32_deserialize s v = Ok (raw, path, cc, false).
  Proof.
    intros Hv Hp Lc Hc Hr E. unfold Slip32.slip32_ser_priv, slip32_serialize in E.
    rewrite slip32_payload_layout in E by auto. inversion E; subst s; clear E.
    destruct c_slip32_pad as [P _]. rewrite P.
    unfold Slip32.slip32_deserialize. rewrite get_if_public_priv by auto. cbn [bind Ok].
    rewrite bech_dec_enc by (apply slip32_layout_ok; auto; constructor; auto; lia).
    cbn [bind Ok]. rewrite slip32_parts_layout by auto. reflexivity.
  Qed.

  Theorem slip32_roundtrip_pub v path cc pk s :
    path_ok path -> length cc = 32%nat -> bytes_ok cc -> bytes_ok pk ->
    slip32_ser_pub v path cc pk = Ok s ->
    slip32_deserialize s v = Ok (pk, path, cc, true).
  Proof.
    intros Hp Lc Hc Hr E. unfold Slip32.slip32_ser_pub, slip32_serialize in E.
    rewrite slip32_payload_layout in E by auto. inversion E; subst s; clear E.
    unfold Slip32.slip32_deserialize. rewrite get_if_public_pub. cbn [bind Ok].
    rewrite bech_dec_enc by (apply slip32_layout_ok; auto).
    cbn [bind Ok]. rewrite slip32_parts_layout by auto. reflexivity.
  Qed.

  (* ser_layout for SLIP-32 *)
  Theorem slip32_ser_layout v path cc raw : path_ok path -> length cc = 32%nat ->
    slip32_ser_priv v path cc raw = Ok (bech_enc (snd v) (slip32_layout path cc (0 :: raw))).
  Proof.
    intros Hp Lc. unfold Slip32.slip32_ser_priv, slip32_serialize. destruct c_slip32_pad as [P _]. rewrite P.
    rewrite slip32_payload_layout by auto. reflexivity.
  Qed.

  (* more than 255 path elements do not fit the depth byte *)
  Theorem slip32_path_too_long v path cc raw : (256 <= length path)%nat -> length cc = 32%nat ->
    slip32_ser_priv v path cc raw = Err OverflowError.
  Proof.
    intros L Lc. unfold Slip32.slip32_ser_priv, slip32_serialize, slip32_payload.
    rewrite mk_chain_code_ok by auto. cbn [bind Ok]. rewrite mk_depth_nat. cbn [bind Ok].
    rewrite depth_to_bytes_overflow by lia. reflexivity.
  Qed.

  (* F12 (repaired in /repo): a private payload that ends before the key part is rejected with ValueError.
     Witness shape: depth byte 0 followed by a chain code only. *)
  Theorem slip32_short_payload_value_error v cc : slip32_ver_ok v -> length cc = 32%nat -> bytes_ok cc ->
    slip32_deserialize (bech_enc (snd v) (0 :: cc)) v = Err ValueError.
  Proof.
    intros Hv Lc Hc. unfold Slip32.slip32_deserialize. rewrite get_if_public_priv by auto. cbn [bind Ok].
    rewrite bech_dec_enc by (constructor; auto; lia). cbn [bind Ok].
    replace (0 :: cc) with (slip32_layout [] cc []) by (unfold slip32_layout; cbn [length N.of_nat map concat app]; rewrite app_nil_r; reflexivity).
    rewrite slip32_parts_layout; [reflexivity| |auto]. split; [cbn; lia|constructor].
  Qed.

  (* the path loop cannot fail on well-formed bytes: at most 4 bytes are read per element *)
  Lemma slip32_path_total ser : bytes_ok ser -> forall count start, exists p, slip32_path ser start count = Ok p.
  Proof.
    intros Hb. induction count as [|c IH]; intros start; [exists []; reflexivity|].
    cbn [slip32_path]. change bip32_index_len with 4%nat.
    assert (Hs : bytes_ok (slice start (start + 4) ser)) by (apply bytes_ok_slice; auto).
    assert (Ls : (length (slice start (start + 4) ser) <= 4)%nat).
    { unfold slice. rewrite firstn_length. lia. }
    unfold index_from_bytes. rewrite mk_index_N.
    2:{ rewrite c_index_max. pose proof (be_to_int_lt _ Hs) as B.
        assert (256 ^ N.of_nat (length (slice start (start + 4) ser)) <= 256 ^ 4) by (apply N.pow_le_mono_r; lia).
        change (256 ^ 4) with 4294967296 in *. lia. }
    cbn [bind Ok]. destruct (IH (start + 4)%nat) as [p E]. rewrite E. exists (be_to_int (slice start (start + 4) ser) :: p).
    reflexivity.
  Qed.

  Hypothesis bech_dec_ok : forall hrp s d, bech_dec hrp s = Ok d -> bytes_ok d.

  (* nothing but ValueError, or whatever the Bech32 layer raised, ever comes out of the deserialiser *)
  Theorem slip32_errors v s e : slip32_deserialize s v = Err e ->
    e = ValueError \/ (exists hrp, bech_dec hrp s = Err e).
  Proof.
    unfold Slip32.slip32_deserialize, slip32_get_if_public.
    destruct (list_eqb (firstn (length (fst v)) s) (fst v)); [|destruct (list_eqb (firstn (length (snd v)) s) (snd v))];
      cbn [bind Ok]; try (intros E; inversion E; auto; fail).
    all: match goal with |- context [bech_dec ?h ?x] => destruct (bech_dec h x) as [ser|e'] eqn:D end;
      cbn [bind Ok]; try (intros E; inversion E; subst; right; eauto; fail).
    all: pose proof (bech_dec_ok _ _ _ D) as Hb; unfold slip32_parts;
      destruct (nth_error ser 0) as [d|]; cbn [of_option bind Ok]; try (intros E; inversion E; auto; fail);
      destruct (slip32_path_total ser Hb (N.to_nat d) path_idx) as [p Ep]; rewrite Ep; cbn [bind Ok].
    - unfold mk_chain_code. destruct (_ =? _)%nat; cbn [bind Ok]; intros E; inversion E; auto.
    - destruct (nth_error _ 0) as [k0|]; cbn [of_option bind Ok]; try (intros E; inversion E; auto; fail).
      destruct (negb _); cbn [bind Ok]; try (intros E; inversion E; auto; fail).
      unfold mk_chain_code. destruct (_ =? _)%nat; cbn [bind Ok]; intros E; inversion E; auto.
  Qed.
End Slip32Proofs.

(* Proofs about Model/ElectrumV1Mnemonic.v (the chunk codec, big endian, 16 bytes <-> 12 words). *)
From Coq Require Import NArith Arith List Lia Bool.
From BU Require Import Base.Exn Base.Bytes Model.MnemWords Model.ChunkMnemonic Model.ElectrumV1Mnemonic
  Lemmas.MnemWords Lemmas.ChunkMnemonic Lemmas.MoneroMnemonic.
From BU Require Import Gen.MnemConsts.
Import ListNotations.
Open Scope N_scope.

Local Arguments Nat.div _ _ : simpl never.

Section Ev1Proofs.
  Variable wl : list (list N).
  Variables word_nums ent_bit_lens : list N.
  Hypothesis wl_nodup : NoDup wl.
  Hypothesis wl_pos : 0 < wl_len wl.
  Hypothesis wl_cube : chunk_limit <= wl_len wl * wl_len wl * wl_len wl.
  Hypothesis nums_eq : word_nums = [12].
  Hypothesis ent_eq : ent_bit_lens = [128].

  Notation encode := (encode wl ent_bit_lens).
  Notation decode := (decode wl word_nums).

  Lemma ent_ok (b : list N) : memb (N.of_nat (length b) * 8) ent_bit_lens = true <-> length b = 16%nat.
  Proof. rewrite ent_eq. cbn [memb]. rewrite orb_false_r, N.eqb_eq. lia. Qed.

  Lemma nums_ok k : memb (N.of_nat k) word_nums = true <-> k = 12%nat.
  Proof. rewrite nums_eq. cbn [memb]. rewrite orb_false_r, N.eqb_eq. lia. Qed.

  Lemma encode_chunks cs :
    Forall (fun c => bytes_ok c /\ length c = 4%nat) cs ->
    exists gs, mapM (bytes_chunk_to_words wl Big) cs = Ok gs /\
      Forall (fun g => length g = 3%nat) gs /\ length gs = length cs /\
      Forall (fun w => In w wl) (concat gs) /\
      mapM (decode_triple wl words_to_chunk) gs = Ok cs /\
      mapM (decode_triple wl words_to_chunk_current) gs = Ok cs.
  Proof.
    induction 1 as [|c cs [Hc Hl] _ (gs & M & G3 & Gl & Gin & D1 & D2)].
    - exists []. simpl. repeat split; constructor.
    - destruct (b2w_total wl wl_nodup wl_pos Big c) as (x & y & z & E & Ix & Iy & Iz).
      destruct (w2c_b2w wl wl_nodup wl_pos Big c _ wl_cube Hc Hl E) as (x' & y' & z' & Q & W1 & W2).
      inversion Q as [[Qx Qy Qz]]. rewrite <- Qx, <- Qy, <- Qz in *.
      exists ([x; y; z] :: gs). simpl. rewrite E, M. simpl. rewrite W1, W2, D1, D2. simpl.
      repeat split; try reflexivity.
      + constructor; [reflexivity|assumption].
      + congruence.
      + repeat constructor; try assumption; apply word_idx_ok_iff; eauto.
  Qed.

  Theorem dec_enc w2c b : w2c = words_to_chunk \/ w2c = words_to_chunk_current ->
    bytes_ok b -> length b = 16%nat ->
    exists ws, encode b = Ok ws /\ length ws = 12%nat /\ Forall (fun w => In w wl) ws /\
               decode w2c ws = Ok b.
  Proof using All.
    intros Hw Hb Hl. destruct (bytes_groups b 4 Hb ltac:(lia)) as [Hcs Hcat].
    destruct (encode_chunks _ Hcs) as (gs & M & G3 & Gl & Gin & D1 & D2).
    rewrite groups_length in Gl.
    assert (Hws : length (concat gs) = 12%nat) by (rewrite (concat_length_const 3 gs G3); lia).
    exists (concat gs). split; [|split; [assumption|split; [assumption|]]].
    - unfold ElectrumV1Mnemonic.encode. rewrite (proj2 (ent_ok b) Hl), Hl.
      change (Nat.div 16 4) with 4%nat. rewrite M. reflexivity.
    - unfold ElectrumV1Mnemonic.decode. rewrite Hws, (proj2 (nums_ok 12) eq_refl).
      change (Nat.div 12 3) with 4%nat.
      replace (groups 3 4 (concat gs)) with (groups 3 (length gs) (concat gs)) by (rewrite Gl; reflexivity).
      rewrite groups_concat' by assumption.
      destruct Hw as [-> | ->]; [rewrite D1|rewrite D2]; rewrite bind_ok, Hcat; reflexivity.
  Qed.

  Definition accepts_spec (canon : bool) (ws : list (list N)) : Prop :=
    length ws = 12%nat /\ Forall (fun w => In w wl) ws /\
    (canon = true -> Forall (triple_canon wl) (groups 3 4 ws)).

  Lemma phrase12 (ws : list (list N)) : length ws = 12%nat -> concat (groups 3 4 ws) = ws.
  Proof. intros H. rewrite concat_groups by lia. change (3 * 4)%nat with 12%nat. rewrite <- H. apply firstn_all. Qed.

  Theorem accepts_iff (canon : bool) ws :
    (exists b, decode (if canon then words_to_chunk else words_to_chunk_current) ws = Ok b)
    <-> accepts_spec canon ws.
  Proof using All.
    set (w2c := if canon then words_to_chunk else words_to_chunk_current).
    assert (Dec : forall g, (exists a b c, g = [a; b; c]) ->
      ((exists y, decode_triple wl w2c g = Ok y) <->
       (match g with [a; b; c] => In a wl /\ In b wl /\ In c wl | _ => False end /\
        (canon = true -> triple_canon wl g)))).
    { intros g (a & b & c & ->). unfold w2c. simpl. destruct canon.
      - rewrite (w2c_ok_iff wl wl_pos Big a b c). split.
        + intros (v & P & Lt). split; [|intros _; eauto].
          destruct (words_packed_ok _ _ _ _ _ P) as (i1 & i2 & i3 & A & B & C & _).
          repeat split; apply word_idx_ok_iff; eauto.
        + intros [_ H]. exact (H eq_refl).
      - rewrite (w2c_current_ok_iff wl wl_pos Big a b c). split; [intros H; split; [exact H|discriminate]|tauto]. }
    unfold ElectrumV1Mnemonic.decode, accepts_spec. split.
    - intros [b H]. destruct (memb (N.of_nat (length ws)) word_nums) eqn:Mn; [|discriminate].
      apply nums_ok in Mn. rewrite Mn in H. change (Nat.div 12 3) with 4%nat in H.
      destruct (mapM (decode_triple wl w2c) (groups 3 4 ws)) as [cs|] eqn:D; simpl in H; [|discriminate].
      pose proof (groups3_shape ws 4 ltac:(lia)) as Sh.
      assert (T : Forall (fun g => exists y, decode_triple wl w2c g = Ok y) (groups 3 4 ws))
        by (apply mapM_total_iff; eauto).
      assert (T' : Forall (fun g => match g with [a; b; c] => In a wl /\ In b wl /\ In c wl | _ => False end /\
                                    (canon = true -> triple_canon wl g)) (groups 3 4 ws)).
      { rewrite Forall_forall in *. intros g Hg. apply Dec; auto. }
      split; [assumption|]. split.
      + rewrite <- (phrase12 ws Mn). apply (triples_in wl (groups 3 4 ws) Sh).
        rewrite Forall_forall in *. intros g Hg. apply T'; assumption.
      + intros Hc. rewrite Forall_forall in *. intros g Hg. apply T'; assumption.
    - intros (L & Hin & T). rewrite (proj2 (nums_ok _) L), L. change (Nat.div 12 3) with 4%nat.
      pose proof (groups3_shape ws 4 ltac:(lia)) as Sh.
      rewrite <- (phrase12 ws L) in Hin. apply (triples_in wl _ Sh) in Hin.
      assert (T' : Forall (fun g => exists y, decode_triple wl w2c g = Ok y) (groups 3 4 ws)).
      { rewrite Forall_forall in Sh, Hin |- *. intros g Hg. apply Dec; [auto|]. split; [apply Hin; assumption|].
        intros Hc. specialize (T Hc). rewrite Forall_forall in T. auto. }
      apply mapM_total_iff in T'. destruct T' as [cs D]. exists (concat cs). rewrite D. reflexivity.
  Qed.

  Theorem accepted_is_canonical ws b : decode words_to_chunk ws = Ok b ->
    length b = 16%nat /\ bytes_ok b /\ encode b = Ok ws.
  Proof using All.
    unfold ElectrumV1Mnemonic.decode. intros H.
    destruct (memb (N.of_nat (length ws)) word_nums) eqn:Mn; [|discriminate].
    apply nums_ok in Mn. rewrite Mn in H. change (Nat.div 12 3) with 4%nat in H.
    destruct (mapM (decode_triple wl words_to_chunk) (groups 3 4 ws)) as [cs|] eqn:D; simpl in H; [|discriminate].
    inversion H as [Hb]. clear H. subst b.
    pose proof (groups3_shape ws 4 ltac:(lia)) as Sh.
    apply mapM_ok_inv in D.
    assert (Hcl : length cs = 4%nat) by (rewrite <- (Forall2_length' _ _ _ D); apply groups_length).
    assert (F : Forall2 (fun c g => bytes_chunk_to_words wl Big c = Ok g) cs (groups 3 4 ws) /\
                Forall (fun c => bytes_ok c /\ length c = 4%nat) cs).
    { clear Hcl. induction D as [|g c gs' cs' Hgc _ IH]; [split; constructor|].
      inversion Sh as [|? ? (x & y & z & Eg) Sh']. rewrite Eg in Hgc |- *. simpl in Hgc.
      destruct (b2w_w2c wl wl_pos Big x y z c Hgc) as (B1 & B2 & B3).
      destruct (IH Sh') as [I1 I2]. split; constructor; auto. }
    destruct F as [F Fc].
    assert (Hbl : length (concat cs) = 16%nat).
    { rewrite (concat_length_const 4 cs); [lia|]. rewrite Forall_forall in *. intros c Hc. apply Fc; assumption. }
    split; [assumption|]. split.
    { unfold bytes_ok. apply Forall_concat. rewrite Forall_forall in *. intros c Hc. apply Fc; assumption. }
    unfold ElectrumV1Mnemonic.encode. rewrite (proj2 (ent_ok _) Hbl), Hbl. change (Nat.div 16 4) with 4%nat.
    replace (groups 4 4 (concat cs)) with (groups 4 (length cs) (concat cs)) by (rewrite Hcl; reflexivity).
    rewrite groups_concat'.
    2:{ rewrite Forall_forall in *. intros c Hc. apply Fc; assumption. }
    rewrite (mapM_ok_intro _ _ _ F), bind_ok, (phrase12 ws Mn). reflexivity.
  Qed.

  Theorem decode_err_family (canon : bool) ws e :
    decode (if canon then words_to_chunk else words_to_chunk_current) ws = Err e -> e = ValueError.
  Proof using All.
    unfold ElectrumV1Mnemonic.decode.
    destruct (memb (N.of_nat (length ws)) word_nums) eqn:Mn; [|intros Q; inversion Q; auto].
    apply nums_ok in Mn. rewrite Mn. change (Nat.div 12 3) with 4%nat.
    destruct (mapM _ _) as [cs|x] eqn:D; simpl; [discriminate|].
    intros Q; inversion Q as [Qe]. rewrite <- Qe. apply mapM_err_inv in D. destruct D as (g & Hg & Dg).
    pose proof (groups3_shape ws 4 ltac:(lia)) as Sh.
    rewrite Forall_forall in Sh. destruct (Sh g Hg) as (a & b & c & Eg). rewrite Eg in Dg. simpl in Dg.
    destruct canon.
    - eapply w2c_err; [|eauto]. assumption.
    - unfold words_to_chunk_current in Dg.
      destruct (words_packed wl a b c) as [v|] eqn:P; simpl in Dg.
      + destruct (Nat.ltb 3 (get_bytes_number v)) eqn:G; [discriminate|].
        apply (int_to_bytes_fixed_err Big) in Dg. apply Nat.ltb_ge in G.
        assert (G4 : (get_bytes_number v <= 4)%nat) by lia.
        apply (gbn_le 4 v ltac:(lia)) in G4. unfold chunk_byte_len in Dg. lia.
      + inversion Dg as [De]. apply words_packed_err in P. destruct P as [Pe _]. congruence.
  Qed.
End Ev1Proofs.

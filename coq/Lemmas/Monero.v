(* Proofs about Model/Monero.v. *)
From Coq Require Import NArith ZArith Arith List Lia Bool.
From BU Require Import Base.Exn Base.Radix Base.Bytes Gen.ConstsCardmon.
From BU Require Import Model.EdLib Model.AddrXmr Model.Monero Lemmas.CardmonConstsOk Lemmas.EdLib Lemmas.AddrXmr.
Import ListNotations.
Open Scope N_scope.

Section MoneroProofs.
  Variable keccak : list N -> list N.
  Variable G : Type.
  Variable gadd : G -> G -> G.
  Variable gmul : N -> G -> G.
  Variable gbase : G.
  Variable g_is_zero : G -> bool.
  Variable penc : G -> list N.
  Variable pdec : list N -> option G.
  Variable p_refused : list N -> bool.

  Hypothesis keccak_len : forall x, length (keccak x) = 32%nat.
  Hypothesis keccak_ok : forall x, bytes_ok (keccak x).
  Hypothesis penc_len : forall P, length (penc P) = 32%nat.
  Hypothesis penc_ok : forall P, bytes_ok (penc P).
  Hypothesis pdec_penc : forall P, pdec (penc P) = Some P.

  Notation priv_from_bytes := Monero.priv_from_bytes.
  Notation pub_from_bytes := (Monero.pub_from_bytes G pdec).
  Notation priv_public := (Monero.priv_public G gmul gbase g_is_zero penc).
  Notation view_from_spend := (Monero.view_from_spend keccak).
  Notation from_priv_spend := (Monero.from_priv_spend keccak G gmul gbase g_is_zero penc).
  Notation from_seed := (Monero.from_seed keccak G gmul gbase g_is_zero penc).
  Notation from_bip44_priv := (Monero.from_bip44_priv keccak G gmul gbase g_is_zero penc).
  Notation from_watch_only := (Monero.from_watch_only G gmul gbase g_is_zero penc pdec).
  Notation compute_keys := (Monero.compute_keys keccak G gadd gmul gbase g_is_zero penc pdec p_refused).
  Notation subaddress := (Monero.subaddress keccak G gadd gmul gbase g_is_zero penc pdec p_refused).
  Notation primary_address := (Monero.primary_address keccak G gadd gmul gbase g_is_zero penc pdec p_refused).
  Notation integrated_address := (Monero.integrated_address keccak G pdec).
  Notation compute_and_encode := (Monero.compute_and_encode keccak G gadd gmul gbase g_is_zero penc pdec p_refused).

  (* the public point of a scalar below l *)
  Definition pub_of (n : N) : list N := penc (gmul n gbase).

  Lemma key_err_ok {A} (r : res A) a : key_err r = Ok a -> r = Ok a.
  Proof. destruct r as [x|e]; simpl; [auto|]. destruct (is_value_error e); discriminate. Qed.

  Lemma priv_from_bytes_ok b k : priv_from_bytes b = Ok k -> k = b /\ length b = 32%nat /\ le_to_int b < ed_order.
  Proof. intros H. apply key_err_ok in H. apply monero_priv_from_bytes_ok; exact H. Qed.

  Lemma priv_from_bytes_err b e : priv_from_bytes b = Err e -> e = LibError MoneroKeyError.
  Proof.
    unfold Monero.priv_from_bytes, key_err. destruct (monero_priv_from_bytes b) eqn:E; [discriminate|].
    apply monero_priv_from_bytes_err in E. subst. simpl. intros H; inversion H; auto.
  Qed.

  Lemma priv_from_sc_reduce b : priv_from_bytes (sc_reduce b) = Ok (sc_reduce b).
  Proof. unfold Monero.priv_from_bytes. rewrite sc_reduce_valid. reflexivity. Qed.

  Lemma priv_public_ok k p : length k = 32%nat -> le_to_int k < ed_order -> priv_public k = Ok p ->
    p = pub_of (le_to_int k) /\ le_to_int k <> 0 /\ g_is_zero (gmul (le_to_int k) gbase) = false.
  Proof.
    intros L V. unfold Monero.priv_public, mul_base_bytes, mul_base_n, int_decode.
    rewrite L, ed_coord_len_32, Nat.eqb_refl, (sodium_scalar_small _ V).
    destruct (N.eqb_spec (le_to_int k) 0) as [|NZ]; [discriminate|].
    destruct (g_is_zero _) eqn:Z; [discriminate|]. simpl. intros H; inversion H; auto.
  Qed.

  Lemma priv_public_err k e : length k = 32%nat -> priv_public k = Err e -> e = scalarmult_error.
  Proof.
    intros L. unfold Monero.priv_public, mul_base_bytes, mul_base_n. rewrite L, ed_coord_len_32, Nat.eqb_refl.
    destruct (_ || _); intros H; inversion H; auto.
  Qed.

  (* ---- construction from a private spend key ---- *)
  Definition view_scalar (sk : list N) : N := le_to_int (keccak sk) mod ed_order.

  Theorem from_priv_spend_ok b net w : from_priv_spend b net = Ok w ->
    length b = 32%nat /\ le_to_int b < ed_order /\ le_to_int b <> 0 /\
    w_priv_s w = Some b /\
    w_priv_v w = sc_reduce (keccak b) /\
    le_to_int (w_priv_v w) = view_scalar b /\
    w_pub_s w = pub_of (le_to_int b) /\
    w_pub_v w = pub_of (view_scalar b) /\
    w_net w = net.
  Proof.
    unfold Monero.from_priv_spend.
    destruct (priv_from_bytes b) as [sk|] eqn:E1; cbn [bind Ok Err]; [|discriminate].
    destruct (priv_from_bytes_ok _ _ E1) as (-> & L & V).
    unfold Monero.view_from_spend. rewrite priv_from_sc_reduce. cbn [bind Ok Err].
    destruct (sc_reduce_props (keccak b)) as (_ & L2 & V2). rewrite ed_coord_len_32 in L2.
    destruct (priv_public b) as [ps|] eqn:E3; cbn [bind Ok Err]; [|discriminate].
    destruct (priv_public (sc_reduce (keccak b))) as [pv|] eqn:E4; cbn [bind Ok Err]; [|discriminate].
    intros H; inversion H; subst; clear H. cbn [w_priv_s w_priv_v w_pub_s w_pub_v w_net].
    destruct (priv_public_ok _ _ L V E3) as (-> & NZ & _).
    assert (V3 : le_to_int (sc_reduce (keccak b)) < ed_order) by (rewrite V2; apply mod_order_lt).
    destruct (priv_public_ok _ _ L2 V3 E4) as (-> & _ & _).
    unfold view_scalar. rewrite V2. repeat split; auto.
  Qed.

  Lemma view_key_props b net w : from_priv_spend b net = Ok w ->
    w_priv_v w = sc_reduce (keccak b) /\ length (w_priv_v w) = 32%nat /\
    le_to_int (w_priv_v w) = le_to_int (keccak b) mod ed_order.
  Proof.
    intros H. destruct (from_priv_spend_ok _ _ _ H) as (_ & _ & _ & _ & A & B & _).
    split; [exact A|]. split; [|exact B]. rewrite A.
    pose proof (proj1 (proj2 (sc_reduce_props (keccak b)))) as L. rewrite ed_coord_len_32 in L. exact L.
  Qed.

  (* the only other outcomes: a refused key, or libsodium's error on a zero scalar / identity point *)
  Theorem from_priv_spend_err b net e : from_priv_spend b net = Err e ->
    e = LibError MoneroKeyError \/ e = scalarmult_error.
  Proof.
    unfold Monero.from_priv_spend.
    destruct (priv_from_bytes b) as [sk|] eqn:E1; cbn [bind Ok Err];
      [|intros H; inversion H; subst; left; eapply priv_from_bytes_err; eauto].
    destruct (priv_from_bytes_ok _ _ E1) as (-> & L & V).
    unfold Monero.view_from_spend. rewrite priv_from_sc_reduce. cbn [bind Ok Err].
    destruct (sc_reduce_props (keccak b)) as (_ & L2 & _). rewrite ed_coord_len_32 in L2.
    destruct (priv_public b) as [ps|] eqn:E3; cbn [bind Ok Err];
      [|intros H; inversion H; subst; right; exact (priv_public_err _ _ L E3)].
    destruct (priv_public (sc_reduce (keccak b))) as [pv|] eqn:E4; cbn [bind Ok Err]; [discriminate|].
    intros H; inversion H; subst; right; exact (priv_public_err _ _ L2 E4).
  Qed.

  (* ---- seeds ---- *)
  Definition seed_scalar (seed : list N) : N :=
    le_to_int (if (length seed =? 32)%nat then seed else keccak seed) mod ed_order.

  Theorem spend_from_seed seed net w : from_seed seed net = Ok w ->
    exists sk, w_priv_s w = Some sk /\ length sk = 32%nat /\ le_to_int sk = seed_scalar seed /\
               sk = sc_reduce (if (length seed =? 32)%nat then seed else keccak seed).
  Proof.
    unfold Monero.from_seed, Monero.spend_bytes_of_seed. rewrite ed_priv_len_32. intros H.
    destruct (from_priv_spend_ok _ _ _ H) as (L & _ & _ & S & _).
    eexists; split; [exact S|]. split; [exact L|]. split; [|reflexivity].
    unfold seed_scalar. apply sc_reduce_props.
  Qed.

  (* seeds of every length are accepted: never a key error *)
  Theorem from_seed_total seed net :
    (exists w, from_seed seed net = Ok w) \/ from_seed seed net = Err scalarmult_error.
  Proof.
    destruct (from_seed seed net) as [w|e] eqn:E; [left; exists w; reflexivity|right].
    unfold Monero.from_seed in E. destruct (from_priv_spend_err _ _ _ E) as [-> | ->]; [|reflexivity].
    exfalso. unfold Monero.from_priv_spend, Monero.spend_bytes_of_seed in E.
    rewrite priv_from_sc_reduce in E. cbn [bind Ok Err] in E.
    unfold Monero.view_from_spend in E. rewrite priv_from_sc_reduce in E. cbn [bind Ok Err] in E.
    match type of E with context [sc_reduce ?x] => destruct (sc_reduce_props x) as (_ & L & _) end.
    rewrite ed_coord_len_32 in L.
    match type of E with bind ?x _ = _ => destruct x eqn:E3 end; cbn [bind Ok Err] in E.
    - destruct (sc_reduce_props (keccak (sc_reduce (if (length seed =? ed_priv_len)%nat then seed else keccak seed))))
        as (_ & L2 & _). rewrite ed_coord_len_32 in L2.
      match type of E with bind ?x _ = _ => destruct x eqn:E4 end; cbn [bind Ok Err] in E; [discriminate|].
      inversion E; subst. apply priv_public_err in E4; [discriminate|exact L2].
    - inversion E; subst. apply priv_public_err in E3; [discriminate|exact L].
  Qed.

  Theorem from_bip44_is_keccak k net : from_bip44_priv k net = from_priv_spend (sc_reduce (keccak k)) net.
  Proof. reflexivity. Qed.

  (* ---- watch-only ---- *)
  Theorem from_watch_only_ok vb pb net w : from_watch_only vb pb net = Ok w ->
    w_priv_s w = None /\ w_priv_v w = vb /\ length vb = 32%nat /\ le_to_int vb < ed_order /\
    w_pub_s w = strip_pub_prefix pb /\ length (w_pub_s w) = 32%nat /\ (exists B, pdec (w_pub_s w) = Some B) /\
    w_pub_v w = pub_of (le_to_int vb) /\ w_net w = net.
  Proof.
    unfold Monero.from_watch_only.
    destruct (priv_from_bytes vb) as [vk|] eqn:E1; cbn [bind Ok Err]; [|discriminate].
    destruct (priv_from_bytes_ok _ _ E1) as (-> & L & V).
    destruct (pub_from_bytes pb) as [ps|] eqn:E2; cbn [bind Ok Err]; [|discriminate].
    apply key_err_ok in E2. destruct (pub_from_bytes_ok G pdec _ _ E2) as (-> & L2 & B & D).
    destruct (priv_public vb) as [pv|] eqn:E3; cbn [bind Ok Err]; [|discriminate].
    destruct (priv_public_ok _ _ L V E3) as (-> & _ & _).
    intros H; inversion H; subst; clear H. cbn [w_priv_s w_priv_v w_pub_s w_pub_v w_net].
    repeat split; eauto.
  Qed.

  Theorem watch_only_no_spend_key vb pb net w : from_watch_only vb pb net = Ok w ->
    private_spend_key w = Err (LibError MoneroKeyError).
  Proof.
    intros H. apply from_watch_only_ok in H. destruct H as (S & _). unfold private_spend_key. rewrite S. reflexivity.
  Qed.

  (* the watch-only wallet made of the view key and public spend key of a full wallet *)
  Definition strip_spend (w : wallet) : wallet :=
    mk_wallet None (w_priv_v w) (w_pub_s w) (w_pub_v w) (w_net w).

  Theorem watch_only_of_full b net w : from_priv_spend b net = Ok w ->
    from_watch_only (w_priv_v w) (w_pub_s w) net = Ok (strip_spend w).
  Proof.
    intros H. pose proof H as H0. unfold Monero.from_priv_spend in H0.
    destruct (from_priv_spend_ok _ _ _ H) as (L & V & NZ & S & Ev & Vv & Eps & Epv & En).
    destruct (priv_from_bytes b) as [sk|] eqn:E1; cbn [bind Ok Err] in H0; [|discriminate].
    destruct (priv_from_bytes_ok _ _ E1) as (-> & _ & _).
    unfold Monero.view_from_spend in H0. rewrite priv_from_sc_reduce in H0. cbn [bind Ok Err] in H0.
    destruct (priv_public b) as [ps|] eqn:E3; cbn [bind Ok Err] in H0; [|discriminate].
    destruct (priv_public (sc_reduce (keccak b))) as [pv|] eqn:E4; cbn [bind Ok Err] in H0; [|discriminate].
    inversion H0; subst w; clear H0. cbn [w_priv_s w_priv_v w_pub_s w_pub_v w_net] in *.
    unfold Monero.from_watch_only. rewrite priv_from_sc_reduce. cbn [bind Ok Err].
    unfold Monero.pub_from_bytes. rewrite Eps. unfold pub_of.
    rewrite (pub_from_bytes_valid G pdec _ _ (penc_len _) (pdec_penc _)). cbn [key_err bind Ok Err].
    rewrite E4. cbn [bind Ok Err]. unfold strip_spend. cbn [w_priv_s w_priv_v w_pub_s w_pub_v w_net]. reflexivity.
  Qed.

  (* the address functions do not read the private spend key *)
  Theorem addresses_ignore_spend_key w :
    primary_address (strip_spend w) = primary_address w /\
    (forall minor major, subaddress (strip_spend w) minor major = subaddress w minor major) /\
    (forall minor major, compute_keys (strip_spend w) minor major = compute_keys w minor major) /\
    (forall pid, integrated_address (strip_spend w) pid = integrated_address w pid).
  Proof. repeat split. Qed.

  (* ---- sub-addresses ---- *)
  Definition sub_scalar (vk : list N) (major minor : N) : N :=
    le_to_int (keccak (xmr_sub_prefix ++ vk ++ le_pad 4 major ++ le_pad 4 minor)) mod ed_order.

  Lemma idx_ok_spec i : idx_ok i = true <-> (0 <= i < 2 ^ 32)%Z.
  Proof.
    unfold idx_ok. rewrite andb_true_iff, !Z.leb_le, xmr_sub_max_idx_val. lia.
  Qed.

  Lemma le_pad4 i : (0 <= i < 2 ^ 32)%Z -> int_to_le_fixed xmr_sub_idx_len (Z.to_N i) = Ok (le_pad 4 (Z.to_N i)).
  Proof.
    intros H. rewrite xmr_sub_idx_len_4. apply le_pad_fixed.
    change (256 ^ N.of_nat 4) with (Z.to_N (2 ^ 32)). apply Z2N.inj_lt; lia.
  Qed.

  Lemma subaddr_scalar_ok vk major minor : (0 <= major < 2 ^ 32)%Z -> (0 <= minor < 2 ^ 32)%Z ->
    subaddr_scalar keccak vk (Z.to_N major) (Z.to_N minor) = Ok (sub_scalar vk (Z.to_N major) (Z.to_N minor)).
  Proof.
    intros H1 H2. unfold subaddr_scalar. rewrite (le_pad4 _ H1), (le_pad4 _ H2). cbn [bind Ok Err].
    unfold sub_scalar, int_decode. f_equal. apply sc_reduce_props.
  Qed.

  Lemma pub_from_point_enc P : pub_from_point G pdec (penc P) = Ok (penc P).
  Proof.
    unfold pub_from_point, Monero.pub_from_bytes.
    rewrite (pub_from_bytes_valid G pdec _ _ (penc_len _) (pdec_penc _)). reflexivity.
  Qed.

  Lemma order_fits n : n < ed_order -> int_encode n = Ok (le_pad ed_coord_len n).
  Proof. intros H. unfold int_encode. apply le_pad_fixed. pose proof order_lt_256_32. lia. Qed.

  (* the sub-address formula, for every index pair of the domain other than (0,0) *)
  Theorem subaddress_formula w minor major B ds cs :
    pdec (w_pub_s w) = Some B -> le_to_int (w_priv_v w) < ed_order ->
    (0 <= minor < 2 ^ 32)%Z -> (0 <= major < 2 ^ 32)%Z -> (minor, major) <> (0, 0)%Z ->
    compute_keys w minor major = Ok (ds, cs) ->
    let a := le_to_int (w_priv_v w) in
    let m := sub_scalar (w_priv_v w) (Z.to_N major) (Z.to_N minor) in
    let D := gadd B (gmul m gbase) in
    ds = penc D /\ cs = penc (gmul a D).
  Proof.
    intros HB Ha Hmi Hma Hnz. unfold Monero.compute_keys.
    rewrite (proj2 (idx_ok_spec minor) Hmi), (proj2 (idx_ok_spec major) Hma).
    destruct ((minor =? 0)%Z && (major =? 0)%Z) eqn:Z0.
    { apply andb_true_iff in Z0. destruct Z0 as [Z1 Z2]. apply Z.eqb_eq in Z1, Z2. subst. congruence. }
    rewrite (subaddr_scalar_ok _ _ _ Hma Hmi). cbn [bind Ok Err].
    set (m := sub_scalar (w_priv_v w) (Z.to_N major) (Z.to_N minor)).
    assert (Hm : m < ed_order) by apply mod_order_lt.
    unfold mul_base_int. rewrite (order_fits _ Hm). cbn [bind Ok Err]. unfold mul_base_n.
    rewrite (sodium_scalar_small _ Hm).
    destruct ((m =? 0) || g_is_zero (gmul m gbase)); [discriminate|]. cbn [bind Ok Err].
    unfold add_bytes. rewrite HB, pdec_penc. cbn [bind Ok Err].
    unfold mul_int. rewrite (order_fits _ Ha). cbn [bind Ok Err].
    destruct (p_refused _); [discriminate|]. rewrite pdec_penc.
    rewrite (sodium_scalar_small _ Ha).
    destruct ((le_to_int (w_priv_v w) =? 0) || g_is_zero _); [discriminate|]. cbn [bind Ok Err].
    rewrite !pub_from_point_enc. cbn [bind Ok Err]. intros H; inversion H; subst. split; reflexivity.
  Qed.

  Theorem subaddress_zero_is_primary w : compute_keys w 0 0 = Ok (w_pub_s w, w_pub_v w).
  Proof.
    unfold Monero.compute_keys. rewrite (proj2 (idx_ok_spec 0)) by lia. reflexivity.
  Qed.

  Theorem subaddress_out_of_range w minor major :
    ~ ((0 <= minor < 2 ^ 32)%Z /\ (0 <= major < 2 ^ 32)%Z) -> compute_keys w minor major = Err ValueError.
  Proof.
    intros H. unfold Monero.compute_keys.
    destruct (idx_ok minor) eqn:E1; [|reflexivity]. destruct (idx_ok major) eqn:E2; [|reflexivity].
    apply idx_ok_spec in E1, E2. tauto.
  Qed.

  Theorem subaddress_out_of_range_addr w minor major :
    ~ ((0 <= minor < 2 ^ 32)%Z /\ (0 <= major < 2 ^ 32)%Z) -> subaddress w minor major = Err ValueError.
  Proof.
    intros H. unfold Monero.subaddress.
    destruct ((minor =? 0)%Z && (major =? 0)%Z) eqn:Z0.
    { apply andb_true_iff in Z0. destruct Z0 as [Z1 Z2]. apply Z.eqb_eq in Z1, Z2. subst. exfalso. apply H. lia. }
    unfold Monero.compute_and_encode. rewrite (subaddress_out_of_range w minor major H). reflexivity.
  Qed.

  (* with the module laws, the sub-address keys of a full wallet in terms of its secrets *)
  Section Laws.
    Hypothesis gmul_add : forall x y P, gmul (x + y) P = gadd (gmul x P) (gmul y P).
    Hypothesis gmul_mul : forall x y P, gmul x (gmul y P) = gmul (x * y) P.

    Theorem subaddress_secret_form b net w minor major ds cs :
      from_priv_spend b net = Ok w ->
      (0 <= minor < 2 ^ 32)%Z -> (0 <= major < 2 ^ 32)%Z -> (minor, major) <> (0, 0)%Z ->
      compute_keys w minor major = Ok (ds, cs) ->
      let a := view_scalar b in
      let m := sub_scalar (w_priv_v w) (Z.to_N major) (Z.to_N minor) in
      ds = pub_of (le_to_int b + m) /\ cs = pub_of (a * (le_to_int b + m)).
    Proof.
      intros H Hmi Hma Hnz Hc.
      destruct (from_priv_spend_ok _ _ _ H) as (L & V & NZ & S & Ev & Vv & Eps & Epv & En).
      assert (HB : pdec (w_pub_s w) = Some (gmul (le_to_int b) gbase)) by (rewrite Eps; apply pdec_penc).
      assert (Ha : le_to_int (w_priv_v w) < ed_order) by (rewrite Vv; apply mod_order_lt).
      destruct (subaddress_formula w minor major _ ds cs HB Ha Hmi Hma Hnz Hc) as [-> ->].
      rewrite Vv. unfold pub_of. rewrite <- gmul_add, gmul_mul. split; reflexivity.
    Qed.
  End Laws.

  (* ---- addresses ---- *)
  Notation encode_key := (AddrXmr.encode_key keccak G pdec).
  Notation decode_addr := (AddrXmr.decode_addr keccak G pdec).

  (* a wallet whose stored public keys are well-formed (every constructed wallet is) *)
  Definition wallet_pub_ok (w : wallet) : Prop :=
    length (w_pub_s w) = 32%nat /\ length (w_pub_v w) = 32%nat /\ bytes_ok (w_pub_s w) /\ bytes_ok (w_pub_v w) /\
    (exists B, pdec (w_pub_s w) = Some B) /\ (exists C, pdec (w_pub_v w) = Some C).

  Lemma full_wallet_pub_ok b net w : from_priv_spend b net = Ok w -> wallet_pub_ok w.
  Proof.
    intros H. destruct (from_priv_spend_ok _ _ _ H) as (_ & _ & _ & _ & _ & _ & Eps & Epv & _).
    unfold wallet_pub_ok. rewrite Eps, Epv. unfold pub_of. rewrite !penc_len, !pdec_penc.
    repeat split; eauto.
  Qed.

  Lemma encode_valid ps pv net payid B C :
    length ps = 32%nat -> length pv = 32%nat -> pdec ps = Some B -> pdec pv = Some C ->
    (match payid with Some p => length p = xmr_payid_len | None => True end) ->
    encode_key ps pv net payid =
      Ok (b58x_encode (addr_bytes keccak net ps pv (match payid with Some p => p | None => [] end))).
  Proof.
    intros L1 L2 D1 D2 Hp. unfold AddrXmr.encode_key.
    replace (match payid with Some p => (length p =? xmr_payid_len)%nat | None => true end) with true
      by (destruct payid; [rewrite Hp, Nat.eqb_refl|]; reflexivity).
    rewrite (pub_from_bytes_valid G pdec _ _ L1 D1), (pub_from_bytes_valid G pdec _ _ L2 D2). reflexivity.
  Qed.

  (* layout of the three kinds of address *)
  Theorem primary_address_layout w : wallet_pub_ok w ->
    primary_address w = Ok (b58x_encode (addr_bytes keccak (net_addr (w_net w)) (w_pub_s w) (w_pub_v w) [])).
  Proof.
    intros (L1 & L2 & _ & _ & [B D1] & [C D2]).
    unfold Monero.primary_address, Monero.compute_and_encode. rewrite subaddress_zero_is_primary. cbn [bind Ok Err fst snd].
    unfold Monero.xmr_encode. rewrite (encode_valid _ _ _ None B C L1 L2 D1 D2 I). reflexivity.
  Qed.

  Theorem integrated_address_layout w pid : wallet_pub_ok w -> length pid = xmr_payid_len ->
    integrated_address w pid = Ok (b58x_encode (addr_bytes keccak (net_int (w_net w)) (w_pub_s w) (w_pub_v w) pid)).
  Proof.
    intros (L1 & L2 & _ & _ & [B D1] & [C D2]) Lp.
    unfold Monero.integrated_address, Monero.xmr_encode.
    rewrite (encode_valid _ _ _ (Some pid) B C L1 L2 D1 D2 Lp). reflexivity.
  Qed.

  Theorem integrated_address_bad_id w pid : length pid <> xmr_payid_len -> integrated_address w pid = Err ValueError.
  Proof.
    intros H. unfold Monero.integrated_address, Monero.xmr_encode, AddrXmr.encode_key.
    destruct (Nat.eqb_spec (length pid) xmr_payid_len); [contradiction|reflexivity].
  Qed.

  Lemma add_bytes_shape p q r : add_bytes G gadd penc pdec p q = Ok r -> exists P, r = penc P.
  Proof.
    unfold add_bytes. destruct (pdec p); [|discriminate]. destruct (pdec q); [|discriminate].
    intros H; inversion H; eauto.
  Qed.

  Lemma mul_int_shape n p r : mul_int G gmul g_is_zero penc pdec p_refused n p = Ok r -> exists P, r = penc P.
  Proof.
    unfold mul_int. destruct (int_encode n); cbn [bind Ok Err]; [|discriminate].
    destruct (p_refused p); [discriminate|]. destruct (pdec p); [|discriminate].
    destruct (_ || _); [discriminate|]. intros H; inversion H; eauto.
  Qed.

  (* sub-address keys other than the primary pair are encodings produced by the group back-end *)
  Lemma compute_keys_shape w minor major ds cs : compute_keys w minor major = Ok (ds, cs) ->
    (minor, major) <> (0, 0)%Z -> exists P Q, ds = penc P /\ cs = penc Q.
  Proof.
    intros Hc Hnz. unfold Monero.compute_keys in Hc.
    destruct (idx_ok minor); [|discriminate]. destruct (idx_ok major); [|discriminate].
    destruct ((minor =? 0)%Z && (major =? 0)%Z) eqn:Z0.
    { apply andb_true_iff in Z0. destruct Z0 as [Z1 Z2]. apply Z.eqb_eq in Z1, Z2. subst. congruence. }
    destruct (subaddr_scalar _ _ _ _) as [m|]; cbn [bind Ok Err] in Hc; [|discriminate].
    destruct (mul_base_int _ _ _ _ _ m) as [mG|]; cbn [bind Ok Err] in Hc; [|discriminate].
    destruct (add_bytes _ _ _ _ _ mG) as [D|] eqn:ED; cbn [bind Ok Err] in Hc; [|discriminate].
    destruct (mul_int _ _ _ _ _ _ _ D) as [C|] eqn:EC; cbn [bind Ok Err] in Hc; [|discriminate].
    destruct (add_bytes_shape _ _ _ ED) as [P ->]. destruct (mul_int_shape _ _ _ EC) as [Q ->].
    rewrite !pub_from_point_enc in Hc. cbn [bind Ok Err] in Hc. inversion Hc; subst. eauto.
  Qed.

  Theorem subaddress_layout w minor major s : (minor, major) <> (0, 0)%Z ->
    subaddress w minor major = Ok s ->
    exists ds cs, compute_keys w minor major = Ok (ds, cs) /\
                  s = b58x_encode (addr_bytes keccak (net_sub (w_net w)) ds cs []).
  Proof.
    intros Hnz. unfold Monero.subaddress.
    destruct ((minor =? 0)%Z && (major =? 0)%Z) eqn:Z0.
    { apply andb_true_iff in Z0. destruct Z0 as [Z1 Z2]. apply Z.eqb_eq in Z1, Z2. subst. congruence. }
    unfold Monero.compute_and_encode.
    destruct (compute_keys w minor major) as [[ds cs]|] eqn:Hc; cbn [bind Ok Err fst snd]; [|discriminate].
    destruct (compute_keys_shape _ _ _ _ _ Hc Hnz) as (P & Q & -> & ->).
    unfold Monero.xmr_encode.
    rewrite (encode_valid _ _ _ None P Q (penc_len _) (penc_len _) (pdec_penc _) (pdec_penc _) I).
    intros H; inversion H; subst. exists (penc P), (penc Q). split; reflexivity.
  Qed.

  (* decode after encode for the three kinds *)
  Theorem primary_address_dec_enc w s : wallet_pub_ok w -> bytes_ok (net_addr (w_net w)) ->
    primary_address w = Ok s ->
    decode_addr s (net_addr (w_net w)) None = Ok (w_pub_s w ++ w_pub_v w).
  Proof.
    intros W Hn. rewrite (primary_address_layout w W). intros H; inversion H; subst; clear H.
    destruct W as (L1 & L2 & O1 & O2 & [B D1] & [C D2]).
    apply (decode_addr_bytes keccak G pdec keccak_len keccak_ok _ _ _ [] None B C); auto. constructor.
  Qed.

  Theorem integrated_address_dec_enc w pid s : wallet_pub_ok w -> bytes_ok (net_int (w_net w)) -> bytes_ok pid ->
    integrated_address w pid = Ok s ->
    decode_addr s (net_int (w_net w)) (Some pid) = Ok (w_pub_s w ++ w_pub_v w).
  Proof.
    intros W Hn Hp H.
    destruct (Nat.eq_dec (length pid) xmr_payid_len) as [Lp|Lp];
      [|rewrite (integrated_address_bad_id w pid Lp) in H; discriminate].
    rewrite (integrated_address_layout w pid W Lp) in H. inversion H; subst; clear H.
    destruct W as (L1 & L2 & O1 & O2 & [B D1] & [C D2]).
    apply (decode_addr_bytes keccak G pdec keccak_len keccak_ok _ _ _ pid (Some pid) B C); auto.
  Qed.

  Theorem subaddress_dec_enc w minor major s : bytes_ok (net_sub (w_net w)) -> bytes_ok (net_addr (w_net w)) ->
    wallet_pub_ok w -> subaddress w minor major = Ok s ->
    exists ds cs, compute_keys w minor major = Ok (ds, cs) /\
      decode_addr s (if ((minor =? 0)%Z && (major =? 0)%Z)%bool then net_addr (w_net w) else net_sub (w_net w)) None
        = Ok (ds ++ cs).
  Proof.
    intros Hn Hn0 W H.
    destruct ((minor =? 0)%Z && (major =? 0)%Z) eqn:Z0.
    - unfold Monero.subaddress in H. rewrite Z0 in H.
      apply andb_true_iff in Z0. destruct Z0 as [Z1 Z2]. apply Z.eqb_eq in Z1, Z2. subst.
      exists (w_pub_s w), (w_pub_v w). split; [apply subaddress_zero_is_primary|].
      apply primary_address_dec_enc; auto.
    - assert (Hnz : (minor, major) <> (0, 0)%Z).
      { intros E. inversion E; subst. discriminate. }
      destruct (subaddress_layout _ _ _ _ Hnz H) as (ds & cs & Hc & ->).
      exists ds, cs. split; [exact Hc|].
      destruct (compute_keys_shape _ _ _ _ _ Hc Hnz) as (P & Q & -> & ->).
      apply (decode_addr_bytes keccak G pdec keccak_len keccak_ok _ _ _ [] None P Q); auto. constructor.
  Qed.
End MoneroProofs.

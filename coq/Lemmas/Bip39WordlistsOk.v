(* Facts about the nine BIP-39 word lists regenerated from /repo (Gen/WlBip39*.v), decided by
   vm_compute through the proved-sound procedures of Lemmas/Bip39WlAux.v.  Re-proved by the
   kernel on every run: an edit of a word-list file that breaks one of them (a duplicate, a
   missing word, a new overlap with an earlier list) breaks every theorem that depends on it. *)
From Coq Require Import NArith Arith List Bool Lia.
From BU Require Import Base.Bytes Gen.Bip39Consts Gen.WlBip39 Model.Bip39 Lemmas.Bip39WlAux.
Import ListNotations.
Open Scope N_scope.

Lemma bip39_langs_len : length bip39_langs = 9%nat.
Proof. reflexivity. Qed.

(* ---- every list: 2048 words, no duplicate, words non-empty and free of white space ---- *)
Definition word_plainb (w : list N) : bool :=
  match w with
  | [] => false
  | _ => forallb (fun c => negb (is_space c) && (c <? 1114112) && negb ((55296 <=? c) && (c <=? 57343))) w
  end.
Definition list_okb (wl : list (list N)) : bool :=
  Nat.eqb (length wl) bip39_words_list_num && words_nodupb wl && forallb word_plainb wl.

Lemma bip39_lists_okb : forallb list_okb bip39_langs = true.
Proof. vm_compute. reflexivity. Qed.

Lemma bip39_words_list_num_eq : bip39_words_list_num = 2048%nat.
Proof. reflexivity. Qed.

Lemma bip39_list_ok wl : In wl bip39_langs ->
  length wl = 2048%nat /\ NoDup wl /\ words_nodupb wl = true /\
  Forall (fun w => w <> [] /\
                   Forall (fun c => is_space c = false /\ c < 1114112 /\ ~ (55296 <= c <= 57343)) w) wl.
Proof.
  intros Hin. pose proof bip39_lists_okb as H. rewrite forallb_forall in H.
  specialize (H wl Hin). unfold list_okb in H.
  apply andb_true_iff in H as [H H3]. apply andb_true_iff in H as [H1 H2].
  apply Nat.eqb_eq in H1. rewrite bip39_words_list_num_eq in H1.
  split; [exact H1|]. split; [apply words_nodupb_sound; exact H2|]. split; [exact H2|].
  apply Forall_forall. intros w Hw. rewrite forallb_forall in H3. specialize (H3 w Hw).
  destruct w as [|c t]; [discriminate|]. split; [discriminate|].
  apply Forall_forall. intros x Hx. unfold word_plainb in H3. rewrite forallb_forall in H3.
  specialize (H3 x Hx). apply andb_true_iff in H3 as [H3 Hc]. apply andb_true_iff in H3 as [Ha Hb].
  apply negb_true_iff in Ha. apply N.ltb_lt in Hb. apply negb_true_iff in Hc.
  split; [exact Ha|]. split; [exact Hb|]. intros [A B].
  apply N.leb_le in A. apply N.leb_le in B. rewrite A, B in Hc. discriminate.
Qed.

(* ---- pairwise overlap table ---- *)

(* every pair (j < k) except (english, french) is index-compatible: a common word has the same
   index in both lists *)
Definition compat_rowb (k : nat) : bool := forallb (fun j => compatb (lang_at j) (lang_at k)) (seq 0 k).
Lemma bip39_compat_tableb :
  forallb compat_rowb [0; 1; 2; 3; 5; 6; 7; 8]%nat = true /\
  forallb (fun j => compatb (lang_at j) (lang_at lang_french)) [0; 1; 2]%nat = true /\
  compatb (lang_at lang_english) (lang_at lang_french) = false.
Proof. vm_compute. auto. Qed.

Lemma lang_at_in k : (k < 9)%nat -> In (lang_at k) bip39_langs.
Proof. intros H. unfold lang_at. apply nth_In. rewrite bip39_langs_len. exact H. Qed.

Lemma lang_at_nth k wl : nth_error bip39_langs k = Some wl -> lang_at k = wl /\ (k < 9)%nat.
Proof.
  intros H. split; [unfold lang_at; apply nth_error_nth; exact H|].
  rewrite <- bip39_langs_len. apply nth_error_Some. congruence.
Qed.

(* the table as a statement: for k other than French every earlier list is compatible with list k;
   for French every earlier list other than English is *)
Lemma bip39_compat j k : (j < k)%nat -> (k < 9)%nat -> k <> lang_french ->
  compatible (lang_at j) (lang_at k).
Proof.
  intros Hjk Hk Hfr. destruct bip39_compat_tableb as [H _].
  rewrite forallb_forall in H.
  assert (Hin : In k [0; 1; 2; 3; 5; 6; 7; 8]%nat).
  { unfold lang_french in Hfr. do 9 (destruct k as [|k]; [simpl; tauto|]). lia. }
  specialize (H k Hin). unfold compat_rowb in H. rewrite forallb_forall in H.
  specialize (H j ltac:(apply in_seq; lia)).
  apply compatb_sound; [|exact H].
  apply (bip39_list_ok (lang_at j)). apply lang_at_in. lia.
Qed.

Lemma bip39_compat_french j : (j < lang_french)%nat -> j <> lang_english ->
  compatible (lang_at j) (lang_at lang_french).
Proof.
  intros Hj Hen. destruct bip39_compat_tableb as [_ [H _]]. rewrite forallb_forall in H.
  assert (Hin : In j [0; 1; 2]%nat).
  { unfold lang_french, lang_english in *. do 4 (destruct j as [|j]; [simpl; tauto|]). lia. }
  specialize (H j Hin). apply compatb_sound; [|exact H].
  apply (bip39_list_ok (lang_at j)). apply lang_at_in. unfold lang_french in Hj. lia.
Qed.


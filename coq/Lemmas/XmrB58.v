(* Proofs for Model/XmrB58.v: Monero block Base58 decodes what it encodes, for every byte string. *)
From Coq Require Import NArith Arith List Lia Bool.
From BU Require Import Base.Exn Base.Radix Base.Bytes Model.XmrB58.
From BU Require Model.Base58 Lemmas.Base58.
Import ListNotations.
Open Scope N_scope.

Section XmrB58Proofs.
  Variable alph : list N.
  Variable radix : N.
  Variable dec_max enc_max : nat.
  Variable enc_lens : list nat.

  Hypothesis alph_nodup : NoDup alph.
  Hypothesis alph_len : length alph = N.to_nat radix.
  Hypothesis radix_ge2 : 2 <= radix.

  Notation enc_len := (enc_len enc_lens).
  (* what the table must satisfy (proved for the generated table in CardmonConstsOk.v) *)
  Hypothesis dec_max_pos : (0 < dec_max)%nat.
  Hypothesis enc_max_pos : (0 < enc_max)%nat.
  (* a block of n bytes with lz leading zeros fits in enc_len n symbols *)
  Hypothesis tab_fits : forall n lz, (lz <= n)%nat -> (n <= dec_max)%nat ->
    (lz <= enc_len n)%nat /\ 256 ^ N.of_nat (n - lz) <= radix ^ N.of_nat (enc_len n - lz).
  Hypothesis tab_full : enc_len dec_max = enc_max.
  Hypothesis tab_partial : forall k, (k < dec_max)%nat -> (enc_len k < enc_max)%nat.
  Hypothesis tab_pos : forall k, (0 < k)%nat -> (k <= dec_max)%nat -> (0 < enc_len k)%nat.
  Hypothesis tab_zero : enc_len 0 = 0%nat.
  Hypothesis tab_index : forall k, (k < dec_max)%nat -> index_nat (enc_len k) enc_lens = Some k.

  Notation b58enc := (b58enc alph radix).
  Notation b58dec := (b58dec alph radix).
  Notation pad_sym := (pad_sym alph).
  Notation encode := (encode alph radix dec_max enc_max enc_lens).
  Notation decode := (decode alph radix dec_max enc_max enc_lens).
  Notation enc_blocks := (enc_blocks alph radix dec_max enc_max enc_lens).
  Notation dec_blocks := (dec_blocks alph radix dec_max enc_max).

  Lemma lead_count_zeros_app k b : lead_count 0 (repeat 0 k ++ b) = (k + lead_count 0 b)%nat.
  Proof. induction k; simpl; [reflexivity|]. rewrite IHk. reflexivity. Qed.

  Lemma b58enc_zeros k b : b58enc (repeat 0 k ++ b) = repeat pad_sym k ++ b58enc b.
  Proof.
    unfold XmrB58.b58enc, Base58.encode. rewrite lead_count_zeros_app, be_to_int_zeros, repeat_app, <- app_assoc.
    reflexivity.
  Qed.

  Lemma be_to_int_lt b : bytes_ok b -> be_to_int b < 256 ^ N.of_nat (length b).
  Proof.
    intros H. unfold be_to_int, from_be. rewrite <- (rev_length b).
    apply (from_le_lt 256 r256). apply bytes_ok_rev; exact H.
  Qed.

  (* length of the Base58 encoding of one block *)
  Lemma block_len b : bytes_ok b -> (length b <= dec_max)%nat -> (length (b58enc b) <= enc_len (length b))%nat.
  Proof.
    intros Hb Hn. unfold XmrB58.b58enc, Base58.encode.
    set (lz := lead_count 0 b).
    pose proof (lead_count_length 0 b) as HL. fold lz in HL.
    assert (Hlz : (lz <= length b)%nat) by lia.
    destruct (tab_fits (length b) lz Hlz Hn) as [T1 T2].
    rewrite app_length, repeat_length, map_length. unfold to_be. rewrite rev_length.
    assert (V : be_to_int b < radix ^ N.of_nat (enc_len (length b) - lz)).
    { eapply N.lt_le_trans; [|exact T2].
      rewrite (lead_count_lstrip 0 b) at 1. fold lz. rewrite be_to_int_zeros.
      replace (length b - lz)%nat with (length (lstrip 0 b)) by lia.
      apply be_to_int_lt. rewrite (lead_count_lstrip 0 b) in Hb. apply bytes_ok_app in Hb. tauto. }
    pose proof (to_le_length_le radix radix_ge2 _ _ V). lia.
  Qed.

  Lemma rjust_length w c (s : list N) : (length s <= w)%nat -> length (rjust w c s) = w.
  Proof. intros H. unfold rjust. rewrite app_length, repeat_length. lia. Qed.

  (* decoding a padded block gives the block behind a run of zero bytes *)
  Lemma block_dec w b : bytes_ok b ->
    b58dec (rjust w pad_sym (b58enc b)) = Ok (repeat 0 (w - length (b58enc b)) ++ b).
  Proof.
    intros Hb. unfold rjust. rewrite <- b58enc_zeros. unfold XmrB58.b58dec, XmrB58.b58enc.
    apply (Lemmas.Base58.decode_encode alph radix alph_nodup alph_len radix_ge2).
    apply bytes_ok_app; split; [apply bytes_ok_repeat0|exact Hb].
  Qed.

  Lemma lstrip_zeros_app k b : lstrip 0 (repeat 0 k ++ b) = lstrip 0 b.
  Proof. induction k; simpl; [reflexivity|exact IHk]. Qed.

  Lemma unpad_zeros k (b : list N) : unpad (repeat 0 k ++ b) (length b) = Ok b.
  Proof.
    unfold unpad. rewrite lstrip_zeros_app.
    pose proof (lead_count_length 0 b) as LL.
    destruct (Nat.leb_spec (length (lstrip 0 b)) (length b)); [|lia]. unfold Ok. f_equal.
    rewrite app_length, repeat_length.
    destruct (Nat.leb_spec (length b) (k + length b)); [|lia].
    replace (k + length b - length b)%nat with (length (repeat 0 k)) by (rewrite repeat_length; lia).
    rewrite skipn_app, Nat.sub_diag, skipn_all. reflexivity.
  Qed.

  Lemma nonempty_of_length (s : list N) : (0 < length s)%nat -> exists x t, s = x :: t.
  Proof. destruct s; simpl; [lia|eauto]. Qed.

  (* the length of an encoding: whole blocks, then the table entry of the remainder *)
  Lemma enc_blocks_length fe : forall b, bytes_ok b -> (length b < fe)%nat ->
    exists q, length (enc_blocks fe b) = (enc_len (length b mod dec_max) + q * enc_max)%nat.
  Proof.
    induction fe as [|f IH]; intros b Hb Hf; [lia|]. cbn [XmrB58.enc_blocks].
    destruct (Nat.ltb_spec (length b) dec_max) as [Hlt|Hge].
    - exists 0%nat. rewrite Nat.mod_small by exact Hlt. destruct b as [|x t] eqn:Eb.
      + simpl. rewrite tab_zero. reflexivity.
      + rewrite <- Eb in *. rewrite rjust_length; [lia|]. apply block_len; [exact Hb|lia].
    - rewrite app_length.
      assert (Hb1 : bytes_ok (firstn dec_max b)) by (apply bytes_ok_firstn; exact Hb).
      assert (L1 : length (firstn dec_max b) = dec_max) by (rewrite firstn_length; lia).
      rewrite rjust_length by (rewrite <- tab_full; rewrite <- L1 at 2; apply block_len; [exact Hb1|lia]).
      destruct (IH (skipn dec_max b)) as [q Hq]; [apply bytes_ok_skipn; exact Hb|rewrite skipn_length; lia|].
      exists (S q). rewrite Hq, skipn_length.
      replace (length b mod dec_max)%nat with ((length b - dec_max) mod dec_max)%nat; [simpl; lia|].
      replace (length b) with ((length b - dec_max) + 1 * dec_max)%nat at 2 by lia.
      rewrite Nat.mod_add by lia. reflexivity.
  Qed.

  (* block-wise decoding inverts block-wise encoding *)
  Lemma blocks_rt fe : forall b, bytes_ok b -> (length b < fe)%nat ->
    forall fd, (length (enc_blocks fe b) < fd)%nat ->
    dec_blocks fd (length b mod dec_max) (enc_blocks fe b) = Ok b.
  Proof.
    induction fe as [|f IH]; intros b Hb Hf fd Hfd; [lia|].
    destruct fd as [|fd]; [lia|]. cbn [XmrB58.enc_blocks] in *. cbn [XmrB58.dec_blocks].
    destruct (Nat.ltb_spec (length b) dec_max) as [Hlt|Hge].
    - rewrite Nat.mod_small by exact Hlt. destruct b as [|x t] eqn:Eb.
      + simpl. destruct (Nat.ltb_spec 0 enc_max); [reflexivity|lia].
      + rewrite <- Eb in *.
        assert (BL : (length (b58enc b) <= enc_len (length b))%nat) by (apply block_len; [exact Hb|lia]).
        assert (RL : length (rjust (enc_len (length b)) pad_sym (b58enc b)) = enc_len (length b))
          by (apply rjust_length; exact BL).
        rewrite RL. pose proof (tab_partial _ Hlt) as TP.
        destruct (Nat.ltb_spec (enc_len (length b)) enc_max); [|lia].
        assert (P : (0 < length b)%nat) by (rewrite Eb; simpl; lia).
        pose proof (tab_pos _ P ltac:(lia)) as TP2.
        destruct (nonempty_of_length (rjust (enc_len (length b)) pad_sym (b58enc b)) ltac:(lia)) as (y & u & Ey).
        rewrite Ey. rewrite <- Ey. rewrite block_dec by exact Hb. rewrite bind_ok. apply unpad_zeros.
    - assert (Hb1 : bytes_ok (firstn dec_max b)) by (apply bytes_ok_firstn; exact Hb).
      assert (L1 : length (firstn dec_max b) = dec_max) by (rewrite firstn_length; lia).
      assert (RL : length (rjust enc_max pad_sym (b58enc (firstn dec_max b))) = enc_max).
      { apply rjust_length. rewrite <- tab_full. rewrite <- L1 at 2. apply block_len; [exact Hb1|lia]. }
      rewrite app_length, RL in *.
      destruct (Nat.ltb_spec (enc_max + length (enc_blocks f (skipn dec_max b))) enc_max); [lia|].
      rewrite <- RL at 1. rewrite firstn_app, Nat.sub_diag, firstn_all. simpl firstn. rewrite app_nil_r.
      rewrite block_dec by exact Hb1. rewrite bind_ok.
      pose proof (unpad_zeros (enc_max - length (b58enc (firstn dec_max b))) (firstn dec_max b)) as U.
      rewrite L1 in U. rewrite U, bind_ok. clear U.
      rewrite <- RL at 2. rewrite skipn_app, Nat.sub_diag, skipn_all. simpl skipn. rewrite app_nil_l.
      replace (length b mod dec_max)%nat with (length (skipn dec_max b) mod dec_max)%nat.
      2:{ rewrite skipn_length. replace (length b) with ((length b - dec_max) + 1 * dec_max)%nat at 2 by lia.
          rewrite Nat.mod_add by lia. reflexivity. }
      rewrite IH; [|apply bytes_ok_skipn; exact Hb|rewrite skipn_length; lia|lia].
      rewrite bind_ok. unfold Ok. f_equal. apply firstn_skipn.
  Qed.

  Theorem decode_encode b : bytes_ok b -> decode (encode b) = Ok b.
  Proof.
    intros Hb. unfold XmrB58.decode, XmrB58.encode.
    destruct (enc_blocks_length (S (length b)) b Hb (Nat.lt_succ_diag_r _)) as [q Hq].
    assert (R : (length b mod dec_max < dec_max)%nat) by (apply Nat.mod_upper_bound; lia).
    rewrite Hq at 1. rewrite Nat.mod_add by lia.
    rewrite Nat.mod_small by (apply tab_partial; exact R).
    rewrite (tab_index _ R). unfold of_option. rewrite bind_ok.
    apply blocks_rt; [exact Hb|lia|lia].
  Qed.

  (* the length law, for callers that need to know where block boundaries fall *)
  Lemma dec_blocks_err fd ld : forall s e, dec_blocks fd ld s = Err e -> e = ValueError \/ e = OutOfFuel.
  Proof.
    induction fd as [|fd IH]; intros s e H; simpl in H; [inversion H; auto|].
    destruct (length s <? enc_max)%nat.
    - destruct s as [|c s]; [discriminate|]. destruct (b58dec (c :: s)) eqn:E; cbn [bind] in H.
      + unfold unpad in H. destruct (_ <=? _)%nat; inversion H; auto.
      + inversion H; subst. left. eapply Lemmas.Base58.decode_err; eauto.
    - destruct (b58dec (firstn enc_max s)) eqn:E; cbn [bind] in H.
      + destruct (unpad l dec_max) eqn:EU; cbn [bind] in H.
        * destruct (dec_blocks fd ld (skipn enc_max s)) eqn:E2; cbn [bind] in H; [discriminate|].
          inversion H; subst. eapply IH; eauto.
        * unfold unpad in EU. destruct (_ <=? _)%nat; inversion EU; inversion H; subst; auto.
      + inversion H; subst. left. eapply Lemmas.Base58.decode_err; eauto.
  Qed.

  Lemma decode_err s e : decode s = Err e -> e = ValueError \/ e = OutOfFuel.
  Proof.
    unfold XmrB58.decode. destruct (index_nat _ _); unfold of_option;
      [rewrite bind_ok|rewrite bind_err; intros H; inversion H; auto].
    apply dec_blocks_err.
  Qed.
End XmrB58Proofs.

(* The Bech32 / SegWit / CashAddr decoders of Model/Bech32.v stay in the documented exception family (from their
   error-classification theorems of Lemmas/Bech32.v); used to instantiate the address pipelines of NoEscapeAddr.v. *)
From Coq Require Import NArith List Bool.
From BU Require Import Base.Exn Base.Bytes Model.Bech32 Model.AddrText.
From BU Require Lemmas.Bech32 Lemmas.NoEscapeAddr.
Import ListNotations.
Open Scope N_scope.

Lemma fam_of_errs {A} (r : res A) :
  (forall e, r = Err e -> e = ValueError \/ e = LibError Bech32ChecksumError) -> in_family r = true.
Proof. destruct r as [a|e]; [reflexivity|]. intros H. destruct (H e eq_refl) as [->| ->]; reflexivity. Qed.

Lemma bech32_decode_family hrp s : in_family (bech32_decode hrp s) = true.
Proof. apply fam_of_errs. intros e. apply Lemmas.Bech32.bech32_decode_err. Qed.
Lemma segwit_decode_family hrp s : in_family (segwit_decode hrp s) = true.
Proof. apply fam_of_errs. intros e. apply Lemmas.Bech32.segwit_decode_err. Qed.
Lemma cash_decode_family hrp s : in_family (cash_decode hrp s) = true.
Proof. apply fam_of_errs. intros e. apply Lemmas.Bech32.cash_decode_err. Qed.


(* Proofs about Model/AddrAdaByron.v: a Byron address decodes to its root hash and encrypted path (the CRC
   verifying), and the legacy wallet recovers the derivation path from its own addresses. *)
From Coq Require Import NArith ZArith Arith List Lia Bool.
From BU Require Import Base.Exn Base.Radix Base.Bytes Gen.Consts Gen.ConstsCardmon.
From BU Require Import Model.EdLib Model.CborEnc Model.Bip32Kholaw Model.AddrAdaByron.
From BU Require Import Lemmas.CardmonConstsOk Lemmas.EdLib Lemmas.CborEnc.
From BU Require Lemmas.Base58 Lemmas.ConstsOk.
Import ListNotations.
Open Scope N_scope.

Lemma harden_bound i : (0 <= i < 2 ^ 32)%Z -> (0 <= Z.lor i (2 ^ 31) < 2 ^ 32)%Z.
Proof.
  intros H. split; [apply Z.lor_nonneg; lia|].
  assert (P : (0 < Z.lor i (2 ^ 31))%Z).
  { assert (N0 : (0 <= Z.lor i (2 ^ 31))%Z) by (apply Z.lor_nonneg; lia).
    destruct (Z.eq_dec (Z.lor i (2 ^ 31)) 0) as [E|]; [|lia].
    apply Z.lor_eq_0_iff in E. destruct E as [_ E]. discriminate. }
  apply Z.log2_lt_pow2; [exact P|].
  rewrite Z.log2_lor by lia. change (Z.log2 (2 ^ 31)) with 31%Z.
  destruct (Z.eq_dec i 0) as [->|]; [reflexivity|].
  assert (Z.log2 i < 32)%Z by (apply Z.log2_lt_pow2; lia). lia.
Qed.

Section ByronAddrProofs.
  Variable sha3_256 : list N -> list N.
  Variable blake2b_224 : list N -> list N.
  Variable pbkdf2_sha512 : list N -> list N -> N -> N -> list N.
  Variable chacha_enc : list N -> list N -> list N -> list N -> list N.
  Variable chacha_dec : list N -> list N -> list N -> list N -> list N -> option (list N).
  Variable crc32 : list N -> N.
  Variable G : Type.
  Variable pdec : list N -> option G.
  Variable parse_outer : list N -> option (N * list N * N).
  Variable parse_payload : list N -> option (list N * option (list N) * N).
  Variable parse_bytes : list N -> option (list N).

  Notation addr_cbor := (addr_cbor crc32).
  Notation root_hash := (root_hash sha3_256 blake2b_224).
  Notation encode_key := (encode_key sha3_256 blake2b_224 crc32).
  Notation decode_addr := (decode_addr crc32 parse_outer parse_payload parse_bytes).
  Notation encode_legacy := (encode_legacy sha3_256 blake2b_224 chacha_enc crc32 G pdec).
  Notation encrypt_path := (encrypt_path chacha_enc).
  Notation decrypt_path := (decrypt_path chacha_dec).
  Notation hd_path_key := (hd_path_key pbkdf2_sha512).

  (* hash lengths, byte-ness of every oracle output that ends up under Base58 *)
  Hypothesis blake_len : forall x, length (blake2b_224 x) = 28%nat.
  Hypothesis blake_ok : forall x, bytes_ok (blake2b_224 x).
  Hypothesis chacha_ok : forall k n a p, bytes_ok (chacha_enc k n a p).
  (* ChaCha20-Poly1305: decrypting what was encrypted (ciphertext ‖ 16-byte tag) gives the plaintext *)
  Hypothesis chacha_len : forall k n a p, length (chacha_enc k n a p) = (length p + 16)%nat.
  Hypothesis chacha_dec_enc : forall k n a p, bytes_ok p ->
    chacha_dec k n a (drop_last 16 (chacha_enc k n a p)) (take_last 16 (chacha_enc k n a p)) = Some p.
  (* cbor2.loads inverts the RFC 8949 encodings of the three shapes (stated for inputs below 4096 bytes,
     far above any address; satisfiable: Lemmas/CborEnc.v has a decoder with these properties) *)
  Hypothesis parse_outer_enc : forall p, (length p < 4096)%nat ->
    parse_outer (addr_cbor p) = Some (ada_byron_payload_tag, p, crc32 p).
  Hypothesis parse_payload_enc : forall rh enc ty, (length rh < 4096)%nat -> ty < 2 ^ 64 ->
    (match enc with Some e => (length e < 4000)%nat | None => True end) ->
    parse_payload (payload_cbor rh enc ty) = Some (rh, option_map cbor_bytes enc, ty).
  Hypothesis parse_bytes_enc : forall b, (length b < 4096)%nat -> parse_bytes (cbor_bytes b) = Some b.

  Lemma b58_rt b : bytes_ok b -> b58dec (b58enc b) = Ok b.
  Proof.
    apply (Lemmas.Base58.decode_encode _ _ ConstsOk.b58_alph_btc_nodup ConstsOk.b58_alph_btc_len ConstsOk.b58_radix_ge2).
  Qed.

  Lemma attrs_ok enc : (match enc with Some e => bytes_ok e | None => True end) -> bytes_ok (attrs_cbor enc).
  Proof.
    intros H. destruct enc as [e|]; unfold attrs_cbor, cbor_map.
    - apply bytes_ok_app; split; [apply cbor_head_ok; lia|]. cbn [map concat fst snd].
      rewrite app_nil_r. apply bytes_ok_app; split; [apply cbor_uint_ok|apply cbor_bytes_ok, cbor_bytes_ok; exact H].
    - apply bytes_ok_app; split; [apply cbor_head_ok; lia|constructor].
  Qed.

  Lemma addr_cbor_ok rh enc ty : bytes_ok rh -> (match enc with Some e => bytes_ok e | None => True end) ->
    bytes_ok (addr_cbor (payload_cbor rh enc ty)).
  Proof.
    intros H1 H2. unfold AddrAdaByron.addr_cbor. apply cbor_array_ok.
    apply Forall_cons; [|apply Forall_cons; [apply cbor_uint_ok|apply Forall_nil]].
    apply cbor_tag_ok, cbor_bytes_ok. unfold payload_cbor. apply cbor_array_ok.
    apply Forall_cons; [apply cbor_bytes_ok; exact H1|].
    apply Forall_cons; [apply attrs_ok; exact H2|].
    apply Forall_cons; [apply cbor_uint_ok|apply Forall_nil].
  Qed.

  (* byron_addr_dec_enc: the address of a key decodes (tag 24 and CRC-32 verified, type public-key) to its
     28-byte root hash followed by the encrypted path, if any *)
  Lemma payload_length rh enc ty : length rh = 28%nat -> ty < 24 ->
    (match enc with Some e => (length e < 4000)%nat | None => True end) ->
    (length (payload_cbor rh enc ty) < 4096)%nat.
  Proof.
    intros Lr Ht He. unfold payload_cbor, cbor_array. cbn [length N.of_nat concat Pos.of_succ_nat Pos.succ].
    rewrite app_nil_r, !app_length.
    assert (A : (length (cbor_head 4 3) <= 9)%nat) by (apply cbor_head_length; reflexivity).
    assert (B : (length (cbor_bytes rh) <= 28 + 9)%nat) by (rewrite <- Lr; apply cbor_bytes_length; lia).
    assert (C : (length (cbor_uint ty) <= 9)%nat) by (apply cbor_head_length; assert (24 < 2 ^ 64) by reflexivity; lia).
    assert (D : (length (attrs_cbor enc) <= 4040)%nat).
    { destruct enc as [e|]; unfold attrs_cbor, cbor_map; cbn [length N.of_nat map concat fst snd Pos.of_succ_nat].
      - rewrite ?app_nil_r, !app_length.
        assert (length (cbor_head 5 1) <= 9)%nat by (apply cbor_head_length; reflexivity).
        assert (length (cbor_uint 1) <= 9)%nat by (apply cbor_head_length; reflexivity).
        pose proof (cbor_bytes_length e ltac:(lia)).
        pose proof (cbor_bytes_length (cbor_bytes e) ltac:(lia)). simpl length in *. lia.
      - simpl. lia. }
    lia.
  Qed.

  Definition enc_ok (enc : option (list N)) : Prop :=
    match enc with Some e => bytes_ok e /\ (length e < 4000)%nat | None => True end.

  Theorem decode_encode_key pub cc enc : enc_ok enc ->
    decode_addr (encode_key pub cc enc) =
      Ok (root_hash ada_byron_type_pubkey (pub ++ cc) enc ++ match enc with Some e => e | None => [] end).
  Proof.
    intros He. unfold AddrAdaByron.decode_addr, AddrAdaByron.encode_key.
    set (rh := root_hash ada_byron_type_pubkey (pub ++ cc) enc).
    assert (Lrh : length rh = 28%nat) by (unfold rh, AddrAdaByron.root_hash; apply blake_len).
    assert (He1 : match enc with Some e => bytes_ok e | None => True end) by (destruct enc; [apply He|exact I]).
    assert (He2 : match enc with Some e => (length e < 4000)%nat | None => True end) by (destruct enc; [apply He|exact I]).
    rewrite b58_rt by (apply addr_cbor_ok; [apply blake_ok|exact He1]). cbn [bind Ok Err].
    rewrite parse_outer_enc by (apply payload_length; [exact Lrh|reflexivity|exact He2]).
    cbn [of_option bind Ok Err]. rewrite !N.eqb_refl.
    rewrite parse_payload_enc by (first [exact He2 | rewrite Lrh; lia | reflexivity]). cbn [of_option bind Ok Err].
    rewrite Lrh, ada_keyhash_len_28. cbn [Nat.eqb].
    destruct enc as [e|]; cbn [option_map].
    - rewrite parse_bytes_enc by lia. cbn [of_option rmap bind Ok Err]. rewrite N.eqb_refl. reflexivity.
    - cbn [bind Ok Err]. rewrite N.eqb_refl. reflexivity.
  Qed.

  (* the path codec under the AEAD *)
  Theorem decrypt_encrypt_path key path : Forall (fun i => i < 2 ^ 32) path ->
    decrypt_path key (encrypt_path key path) = Ok path.
  Proof.
    intros H. unfold AddrAdaByron.decrypt_path, AddrAdaByron.encrypt_path.
    destruct chacha_lens as (-> & _).
    rewrite chacha_dec_enc by (unfold indef_encode; repeat (apply bytes_ok_app; split);
                               [repeat constructor; lia|apply concat_ok, Forall_forall; intros x Hx;
                                apply in_map_iff in Hx; destruct Hx as (y & <- & _); apply cbor_uint_ok|repeat constructor; lia]).
    cbn [of_option bind Ok Err].
    rewrite indef_decode_encode.
    2:{ eapply Forall_impl; [|exact H]. intros a Ha. cbv beta in *. assert (2 ^ 32 < 2 ^ 64) by reflexivity. lia. }
    cbn [bind Ok Err].
    replace (forallb path_index_ok path) with true; [reflexivity|].
    symmetry. apply forallb_forall. intros x Hx. unfold path_index_ok. rewrite b32_index_max_val.
    apply Z.leb_le. pose proof (proj1 (Forall_forall _ _) H x Hx) as B.
    assert (Z.of_N x < Z.of_N (2 ^ 32))%Z by (apply N2Z.inj_lt; exact B). change (Z.of_N (2 ^ 32)) with (2 ^ 32)%Z in *. lia.
  Qed.

  Section Wallet.
    Variable derive : node -> list Z -> res node.
    Notation get_address := (get_address sha3_256 blake2b_224 pbkdf2_sha512 chacha_enc crc32 G pdec derive).
    Notation hd_path_from_address := (hd_path_from_address pbkdf2_sha512 chacha_dec crc32 parse_outer parse_payload parse_bytes).

    Lemma wallet_index_ok i j : wallet_index i = Ok j -> (0 <= i < 2 ^ 32)%Z /\ j = Z.lor i (2 ^ 31) /\ (0 <= j < 2 ^ 32)%Z.
    Proof.
      unfold wallet_index. rewrite b32_index_max_val.
      destruct (Z.leb_spec 0 i); cbn [andb]; [|discriminate]. destruct (Z.leb_spec i (2 ^ 32 - 1)); [|discriminate].
      intros E; inversion E; subst. change (2 ^ Z.of_N b32_hardened_bit)%Z with (2 ^ 31)%Z.
      split; [lia|]. split; [reflexivity|]. apply harden_bound; lia.
    Qed.

    (* byron_path_recover: HdPathFromAddress(GetAddress(first, second)) = [first', second'] *)
    Theorem path_recover master first second addr : get_address master first second = Ok addr ->
      (0 <= first < 2 ^ 32)%Z /\ (0 <= second < 2 ^ 32)%Z /\
      hd_path_from_address master addr = Ok [Z.to_N (Z.lor first (2 ^ 31)); Z.to_N (Z.lor second (2 ^ 31))].
    Proof.
      unfold AddrAdaByron.get_address, AddrAdaByron.wallet_key.
      destruct (wallet_index first) as [i|] eqn:E1; cbn [bind Ok Err]; [|discriminate].
      destruct (wallet_index second) as [j|] eqn:E2; cbn [bind Ok Err]; [|discriminate].
      destruct (wallet_index_ok _ _ E1) as (B1 & -> & R1). destruct (wallet_index_ok _ _ E2) as (B2 & -> & R2).
      destruct (derive master _) as [k|]; cbn [bind Ok Err]; [|discriminate].
      unfold AddrAdaByron.encode_legacy.
      destruct (_ =? _)%nat; [|discriminate]. destruct (_ =? _)%nat; [|discriminate].
      destruct (pub_from_bytes G pdec (n_pub k)) as [pk|]; cbn [bind Ok Err]; [|discriminate].
      intros H; inversion H; subst addr; clear H.
      split; [exact B1|]. split; [exact B2|].
      unfold AddrAdaByron.hd_path_from_address.
      rewrite decode_encode_key.
      2:{ split; [apply chacha_ok|]. unfold AddrAdaByron.encrypt_path. rewrite chacha_len.
          unfold indef_encode. cbn [map concat]. rewrite ?app_nil_r, !app_length. cbn [length].
          assert (forall i, (0 <= i < 2 ^ 32)%Z -> (length (cbor_uint (Z.to_N i)) <= 9)%nat).
          { intros i Hi. apply cbor_head_length. assert (Z.to_N i < Z.to_N (2 ^ 64)) by (apply Z2N.inj_lt; lia). exact H. }
          pose proof (H _ R1). pose proof (H _ R2). change (Z.pow_pos 2 31) with (2 ^ 31)%Z. lia. }
      cbn [bind Ok Err].
      change (Z.pow_pos 2 31) with (2 ^ 31)%Z.
      match goal with |- context [skipn _ (?r ++ _)] => set (rh := r) end.
      assert (Lrh : length rh = 28%nat) by (unfold rh, AddrAdaByron.root_hash; apply blake_len).
      rewrite ada_keyhash_len_28, <- Lrh, skipn_app, Nat.sub_diag, skipn_all. cbn [skipn app].
      apply decrypt_encrypt_path.
      repeat constructor; change (2 ^ 32) with (Z.to_N (2 ^ 32)); apply Z2N.inj_lt; lia.
    Qed.
  End Wallet.
End ByronAddrProofs.

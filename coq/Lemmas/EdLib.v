(* Proofs about Model/EdLib.v: fixed-width integer encoding, sc_reduce, key validation. *)
From Coq Require Import NArith Arith List Lia Bool.
From BU Require Import Base.Exn Base.Radix Base.Bytes Gen.ConstsCardmon Model.EdLib Lemmas.CardmonConstsOk.
Import ListNotations.
Open Scope N_scope.

Lemma le_pad_spec w v b : int_to_le_fixed w v = Ok b -> b = le_pad w v.
Proof.
  unfold int_to_le_fixed, le_pad. destruct (length (to_le 256 v) <=? w)%nat; intros H; inversion H; reflexivity.
Qed.

Lemma le_pad_fixed w v : v < 256 ^ N.of_nat w -> int_to_le_fixed w v = Ok (le_pad w v).
Proof.
  intros H. destruct (int_to_le_fixed_fits w v H) as [b Hb]. rewrite Hb. f_equal. apply le_pad_spec; exact Hb.
Qed.

Lemma le_pad_props w v : v < 256 ^ N.of_nat w ->
  bytes_ok (le_pad w v) /\ length (le_pad w v) = w /\ le_to_int (le_pad w v) = v.
Proof. intros H. apply int_to_le_fixed_ok. apply le_pad_fixed; exact H. Qed.

Lemma le_to_int_le_pad w v : le_to_int (le_pad w v) = v.
Proof. unfold le_pad, le_to_int. rewrite (from_le_pad 256 r256). apply from_to_le, r256. Qed.

Lemma le_to_int_lt b : bytes_ok b -> le_to_int b < 256 ^ N.of_nat (length b).
Proof. intros H. apply (from_le_lt 256 r256). exact H. Qed.

Lemma pow256_32 : 256 ^ N.of_nat 32 = 2 ^ 256.
Proof. vm_compute. reflexivity. Qed.

Lemma order_lt_256_32 : ed_order < 256 ^ N.of_nat ed_coord_len.
Proof. vm_compute. reflexivity. Qed.

Lemma mod_order_lt v : v mod ed_order < ed_order.
Proof. apply N.mod_lt. pose proof ed_order_pos. lia. Qed.

Lemma sc_reduce_props b :
  bytes_ok (sc_reduce b) /\ length (sc_reduce b) = ed_coord_len /\
  le_to_int (sc_reduce b) = le_to_int b mod ed_order.
Proof.
  unfold sc_reduce. apply le_pad_props.
  eapply N.lt_trans; [apply mod_order_lt|apply order_lt_256_32].
Qed.

Lemma sc_reduce_valid b : monero_priv_from_bytes (sc_reduce b) = Ok (sc_reduce b).
Proof.
  destruct (sc_reduce_props b) as (_ & L & V).
  unfold monero_priv_from_bytes, scalar_is_valid, int_decode. rewrite V.
  destruct (N.ltb_spec (le_to_int b mod ed_order) ed_order) as [_|C]; [|pose proof (mod_order_lt (le_to_int b)); lia].
  rewrite L. rewrite ed_coord_len_32, ed_priv_len_32. reflexivity.
Qed.

Lemma monero_priv_from_bytes_ok b k : monero_priv_from_bytes b = Ok k ->
  k = b /\ length b = 32%nat /\ le_to_int b < ed_order.
Proof.
  unfold monero_priv_from_bytes, scalar_is_valid, int_decode.
  destruct (N.ltb_spec (le_to_int b) ed_order); [|discriminate].
  rewrite ed_priv_len_32. destruct (Nat.eqb_spec (length b) 32); [|discriminate].
  intros E; inversion E; subst; auto.
Qed.

Lemma monero_priv_from_bytes_err b e : monero_priv_from_bytes b = Err e -> e = ValueError.
Proof.
  unfold monero_priv_from_bytes. destruct (scalar_is_valid b); [destruct (_ =? _)%nat|]; intros H; inversion H; auto.
Qed.

Lemma sodium_scalar_small n : n < ed_order -> sodium_scalar n = n.
Proof.
  intros H. unfold sodium_scalar. apply N.mod_small.
  pose proof ed_order_lt_2_253. assert (2 ^ 253 < 2 ^ 255) by (vm_compute; reflexivity). lia.
Qed.

Section EdLibProofs.
  Variable G : Type.
  Variable pdec : list N -> option G.

  Lemma strip_prefix_32 b : length b = 32%nat -> strip_pub_prefix b = b.
  Proof.
    intros L. unfold strip_pub_prefix. rewrite L, ed_pub_len_32, ed_pub_prefix_len. reflexivity.
  Qed.

  Lemma pub_from_bytes_ok b k : pub_from_bytes G pdec b = Ok k ->
    k = strip_pub_prefix b /\ length k = 32%nat /\ exists P, pdec k = Some P.
  Proof.
    unfold pub_from_bytes. rewrite ed_coord_len_32.
    destruct (Nat.eqb_spec (length (strip_pub_prefix b)) 32); [|discriminate].
    destruct (pdec (strip_pub_prefix b)) as [P|] eqn:E; [|discriminate].
    intros H; inversion H; subst. rewrite E. eauto.
  Qed.

  Lemma pub_from_bytes_err b e : pub_from_bytes G pdec b = Err e -> e = ValueError.
  Proof.
    unfold pub_from_bytes. destruct (_ =? _)%nat; [destruct (pdec _)|]; intros H; inversion H; auto.
  Qed.

  Lemma pub_from_bytes_valid b P : length b = 32%nat -> pdec b = Some P -> pub_from_bytes G pdec b = Ok b.
  Proof.
    intros L E. unfold pub_from_bytes. rewrite (strip_prefix_32 b L), L, ed_coord_len_32, E. reflexivity.
  Qed.

  Lemma pub_is_valid_32 b P : length b = 32%nat -> pdec b = Some P -> pub_is_valid G pdec b = true.
  Proof. intros L E. unfold pub_is_valid. rewrite (pub_from_bytes_valid b P L E). reflexivity. Qed.
End EdLibProofs.

(* CBOR indefinite-length array theorems on the constants regenerated from /repo. *)
From Coq Require Import NArith ZArith List Lia.
From BU Require Import Base.Exn Base.Bytes Gen.CodecConsts Model.Cbor Model.Codecs.
From BU Require Lemmas.Cbor.
Import ListNotations.
Open Scope N_scope.

(* obligations on the generated constants *)
Lemma cbor_end_gt : 27 < cbor_indef_len_array_end. Proof. reflexivity. Qed.
Lemma cbor_tab_24 : lookup_len 24 cbor_uint_ids_to_len = 2%nat. Proof. reflexivity. Qed.
Lemma cbor_tab_25 : lookup_len 25 cbor_uint_ids_to_len = 3%nat. Proof. reflexivity. Qed.
Lemma cbor_tab_26 : lookup_len 26 cbor_uint_ids_to_len = 5%nat. Proof. reflexivity. Qed.
Lemma cbor_tab_27 : lookup_len 27 cbor_uint_ids_to_len = 9%nat. Proof. reflexivity. Qed.
Lemma cbor_ids : cbor_uint8 = 24 /\ cbor_uint16 = 25 /\ cbor_uint32 = 26 /\ cbor_uint64 = 27 /\
  cbor_indef_len_array_start = 159 /\ cbor_indef_len_array_end = 255.
Proof. repeat split; reflexivity. Qed.

Lemma lookup_other t k : (forall p, In p t -> fst p <> k) -> lookup_len k t = 1%nat.
Proof.
  induction t as [|[k' v] t IH]; intros H; [reflexivity|]. cbn [lookup_len].
  destruct (N.eqb_spec k k') as [->|]; [exfalso; apply (H (k', v)); [left; reflexivity|reflexivity]|].
  apply IH. intros p Hp. apply H. right; exact Hp.
Qed.

Lemma cbor_tab_small : forall k, k < 24 -> lookup_len k cbor_uint_ids_to_len = 1%nat.
Proof.
  intros k Hk. apply lookup_other. intros p Hp.
  repeat (destruct Hp as [<-|Hp]; [cbn [fst]; lia|]). destruct Hp.
Qed.

Lemma cbor_tab_pos : forall k, (1 <= lookup_len k cbor_uint_ids_to_len)%nat.
Proof.
  intros k. unfold cbor_uint_ids_to_len. cbn [lookup_len].
  repeat match goal with |- context [if ?c then _ else _] => destruct c end; lia.
Qed.

Theorem cbor_array_roundtrip : forall l, Forall (fun n => n < 2 ^ 64) l ->
  cbor_decode (cbor_encode (map Z.of_N l)) = Ok (map (fun n => CInt (Z.of_N n)) l).
Proof.
  intros l. apply Lemmas.Cbor.decode_encode;
    eauto using cbor_end_gt, cbor_tab_small, cbor_tab_24, cbor_tab_25, cbor_tab_26, cbor_tab_27, cbor_tab_pos.
Qed.

Theorem cbor_decode_err : forall enc e, cbor_decode enc = Err e -> e = ValueError.
Proof.
  intros enc e. eapply Lemmas.Cbor.decode_err;
    eauto using cbor_end_gt, cbor_tab_small, cbor_tab_24, cbor_tab_25, cbor_tab_26, cbor_tab_27, cbor_tab_pos.
Qed.

(* the encoder's output on uint64 lists is the RFC 8949 preferred serialisation between 0x9f and 0xff *)
Theorem cbor_encode_standard : forall l, Forall (fun n => n < 2 ^ 64) l ->
  cbor_encode (map Z.of_N l) = [159] ++ concat (map (cbor_head 0) l) ++ [255].
Proof. exact (Lemmas.Cbor.encode_uints _ _). Qed.

(* in particular the empty array (which the code, with its "< 3" guard, currently rejects: C11-CBOR-EMPTY) *)
Theorem cbor_array_roundtrip_empty : cbor_decode (cbor_encode []) = Ok [].
Proof. vm_compute. reflexivity. Qed.

(* the decoder is not canonical (non-minimal integer heads are accepted, bytes after the first 0xff are ignored) *)
Theorem cbor_canonical_refuted :
  cbor_decode [159; 24; 5; 255] = Ok [CInt 5] /\ cbor_encode [5%Z] <> [159; 24; 5; 255] /\
  cbor_decode [159; 255; 0; 255] = Ok [].
Proof. split; [vm_compute; reflexivity|]. split; [vm_compute; discriminate|vm_compute; reflexivity]. Qed.

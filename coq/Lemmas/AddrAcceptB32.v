(* Acceptance characterisations of the Base32 address decoders of Model/AddrText.v (Algorand, Stellar, Filecoin,
   Nano, Nimiq) -- property C10, address level.

   Part 1 (Section Generic): decode s = Ok payload <-> layout of the Base32-decoded bytes, checksum equation,
   lengths, key validity -- relative to the Base32 decoder (a Section variable; no law needed).
   Part 2: what Base32Decoder.Decode accepts, on the concrete codec model of C11: the accepted strings are
   symbols of the alphabet followed by a run of '=', the symbols regroup to the returned bytes with the left-over
   bits ARBITRARY; the string is the encoder's (EncodeNoPadding) output iff there is no '=' and the left-over bits
   are zero ([b32_dec_inv], [b32_dec_canonical]).
   Part 3: consequences per family.  Stellar (35 bytes = 56 symbols), Nimiq (20 bytes = 32 symbols), Nano (40 bytes =
   64 symbols): no left-over bits.  Algorand (36 bytes, 58 symbols, 2 spare bits), Filecoin (24 bytes, 39 symbols, 3 spare
   bits): the decoders re-encode the decoded bytes and compare (findings C10-ALGO-NONCANON / C10-FIL-NONCANON, fixed);
   Nano compares the three pad bytes with zero (C10-NANO-PADBITS, fixed).  For every family: accepted <-> the string
   is the encoder's output for a valid key (resp. for the returned hash). *)
From Coq Require Import NArith ZArith Arith List Bool Lia.
From BU Require Import Base.Exn Base.Radix Base.Bytes Gen.Consts Gen.CodecConsts Gen.AddrConsts Gen.AddrTextConsts
  Model.Base58 Model.Base32 Model.Codecs Model.AddrUtils Model.AddrB58 Model.AddrText.
From BU Require Lemmas.Base58 Lemmas.Base32 Lemmas.Base32Ok Lemmas.ConvertBits Lemmas.AddrInst.
From BU Require Import Lemmas.AddrB58 Lemmas.AddrAcceptB58.
Import ListNotations.
Open Scope N_scope.

Section Generic.
  Set Default Proof Using "Type".
  Variable sha512_256 : list N -> list N.
  Variable blake2b : nat -> list N -> list N.
  Variable valid_pub : N -> list N -> bool.
  Variable crc16_xmodem : list N -> list N.
  Variable b32_enc_nopad : option (list N) -> list N -> res (list N).
  Variable b32_dec : option (list N) -> list N -> res (list N).

  Lemma canonical_b32_iff al d t u : canonical_b32 b32_enc_nopad al d t = Ok u <-> b32_enc_nopad al d = Ok t.
  Proof.
    unfold canonical_b32. destruct (b32_enc_nopad al d) as [e|x]; cbn [bind]; [|split; discriminate].
    destruct (list_eqb e t) eqn:E.
    - apply list_eqb_spec in E. subst e. destruct u. split; reflexivity.
    - split; [discriminate|]. intros H. apply Ok_inj in H. subst e. rewrite list_eqb_refl in E. discriminate.
  Qed.

  Theorem algo_accepts_iff s pub :
    algo_decode sha512_256 valid_pub b32_enc_nopad b32_dec s = Ok pub <->
    b32_dec None s = Ok (pub ++ algo_checksum sha512_256 pub) /\ algo_encode sha512_256 b32_enc_nopad pub = Ok s /\
    length pub = (ed25519_compr_len - 1)%nat /\ length (algo_checksum sha512_256 pub) = algo_cklen /\ valid_pub 2 pub = true.
  Proof.
    unfold algo_decode, algo_encode. split.
    - destruct (b32_dec None s) as [d|] eqn:D; cbn [bind]; [|discriminate].
      destruct (canonical_b32 _ _ _ _) eqn:K; cbn [bind]; [|discriminate].
      destruct (validate_length d _) eqn:L; cbn [bind]; [|discriminate]. unfold split_by_checksum.
      destruct (validate_checksum _ _ _) eqn:C; cbn [bind]; [|discriminate].
      destruct (valid_pub 2 _) eqn:V; [|discriminate]. intros H; apply Ok_inj in H; subst pub.
      apply validate_length_inv in L. apply validate_checksum_iff in C. apply canonical_b32_iff in K.
      replace (ed25519_compr_len + algo_cklen - 1)%nat with ((ed25519_compr_len - 1) + algo_cklen)%nat in L by (vm_compute; reflexivity).
      destruct (split_exact d _ _ L) as (L1 & L2 & S). rewrite <- C, <- S. split; [reflexivity|]. split; [exact K|]. auto.
    - intros (D & K & L & Lc & V). rewrite D. cbn [bind Ok].
      rewrite (proj2 (canonical_b32_iff None _ s tt) K). cbn [bind Ok].
      rewrite validate_length_ok by (rewrite app_length, L, Lc; vm_compute; reflexivity). cbn [bind Ok].
      unfold split_by_checksum. rewrite (drop_last_app' algo_cklen), (take_last_app' algo_cklen) by exact Lc.
      unfold validate_checksum. rewrite list_eqb_refl. cbn [bind Ok]. rewrite V. reflexivity.
  Qed.

  Theorem xlm_accepts_iff t s pub :
    xlm_decode valid_pub crc16_xmodem b32_dec t s = Ok pub <->
    b32_dec None s = Ok ((t :: pub) ++ xlm_checksum crc16_xmodem (t :: pub)) /\
    length pub = (ed25519_compr_len - 1)%nat /\ length (xlm_checksum crc16_xmodem (t :: pub)) = xlm_cklen /\
    valid_pub 2 pub = true.
  Proof.
    unfold xlm_decode. split.
    - destruct (b32_dec None s) as [d|] eqn:D; cbn [bind]; [|discriminate].
      destruct (validate_length d _) eqn:L; cbn [bind]; [|discriminate]. unfold split_by_checksum.
      destruct (drop_last xlm_cklen d) as [|t' p] eqn:P; [discriminate|].
      destruct (N.eqb_spec t' t) as [->|]; cbn [negb]; [|discriminate].
      destruct (validate_checksum _ _ _) eqn:C; cbn [bind]; [|discriminate].
      destruct (valid_pub 2 p) eqn:V; [|discriminate]. intros H; apply Ok_inj in H; subst p.
      apply validate_length_inv in L. apply validate_checksum_iff in C.
      destruct (split_exact d _ _ L) as (L1 & L2 & S). rewrite P in *. rewrite <- C.
      split; [rewrite <- S; reflexivity|]. cbn [length] in L1. split; [vm_compute in L1 |- *; lia|]. auto.
    - intros (D & L & Lc & V). rewrite D. cbn [bind Ok].
      rewrite validate_length_ok by (rewrite app_length, Lc; cbn [length]; rewrite L; vm_compute; reflexivity).
      cbn [bind Ok]. unfold split_by_checksum.
      rewrite (drop_last_app' xlm_cklen), (take_last_app' xlm_cklen) by exact Lc.
      rewrite N.eqb_refl. cbn [negb]. unfold validate_checksum. rewrite list_eqb_refl. cbn [bind Ok]. rewrite V. reflexivity.
  Qed.

  Theorem fil_accepts_iff s h :
    fil_decode blake2b b32_enc_nopad b32_dec s = Ok h <->
    exists body, s = fil_prefix ++ (48 + fil_secp_type) :: body /\
      b32_dec (Some fil_alphabet) body = Ok (h ++ fil_checksum blake2b fil_secp_type h) /\
      b32_enc_nopad (Some fil_alphabet) (h ++ fil_checksum blake2b fil_secp_type h) = Ok body /\
      length h = blake2b160_len /\ length (fil_checksum blake2b fil_secp_type h) = blake2b32_len.
  Proof.
    unfold fil_decode. split.
    - destruct (validate_and_remove_prefix s fil_prefix) as [a|] eqn:P; cbn [bind]; [|discriminate].
      destruct a as [|t body]; [discriminate|].
      destruct (Z.eqb_spec (Z.of_N t - 48) (Z.of_N fil_secp_type)) as [Et|]; cbn [negb]; [|discriminate].
      destruct (b32_dec (Some fil_alphabet) body) as [d|] eqn:D; cbn [bind]; [|discriminate].
      destruct (canonical_b32 _ _ _ _) eqn:K; cbn [bind]; [|discriminate].
      destruct (validate_length d _) eqn:L; cbn [bind]; [|discriminate]. unfold split_by_checksum.
      destruct (validate_checksum _ _ _) eqn:C; cbn [bind]; [|discriminate].
      intros H; apply Ok_inj in H; subst h.
      apply remove_prefix_inv in P. apply validate_length_inv in L. apply validate_checksum_iff in C. apply canonical_b32_iff in K.
      destruct (split_exact d _ _ L) as (L1 & L2 & S). exists body.
      assert (t = 48 + fil_secp_type) by lia. subst t. split; [exact P|]. rewrite <- C, <- S.
      split; [exact D|]. split; [exact K|]. auto.
    - intros (body & -> & D & K & L & Lc). rewrite remove_prefix_app. cbn [bind Ok].
      assert (T : Z.eqb (Z.of_N (48 + fil_secp_type) - 48) (Z.of_N fil_secp_type) = true) by (vm_compute; reflexivity).
      rewrite T. cbn [negb]. rewrite D. cbn [bind Ok].
      rewrite (proj2 (canonical_b32_iff (Some fil_alphabet) _ body tt) K). cbn [bind Ok].
      rewrite validate_length_ok by (rewrite app_length, L, Lc; reflexivity). cbn [bind Ok]. unfold split_by_checksum.
      rewrite (drop_last_app' blake2b32_len), (take_last_app' blake2b32_len) by exact Lc.
      unfold validate_checksum. rewrite list_eqb_refl. reflexivity.
  Qed.

  (* Nano: the three bytes in front of the key are compared with the zero bytes the encoder puts there *)
  Theorem nano_accepts_iff s pub :
    nano_decode blake2b valid_pub b32_dec s = Ok pub <->
    exists a, s = nano_prefix ++ a /\
      b32_dec (Some nano_alphabet) (nano_pad_enc ++ a) = Ok (nano_pad_dec ++ pub ++ nano_checksum blake2b pub) /\
      length pub = (ed25519_compr_len - 1)%nat /\
      length (nano_checksum blake2b pub) = blake2b40_len /\ valid_pub 3 pub = true.
  Proof.
    unfold nano_decode. split.
    - destruct (validate_and_remove_prefix s nano_prefix) as [a|] eqn:P; cbn [bind]; [|discriminate].
      destruct (b32_dec (Some nano_alphabet) (nano_pad_enc ++ a)) as [d|] eqn:D; cbn [bind]; [|discriminate].
      destruct (validate_length d _) eqn:L; cbn [bind]; [|discriminate].
      destruct (validate_and_remove_prefix d nano_pad_dec) as [r0|] eqn:Q; cbn [bind]; [|discriminate].
      unfold split_by_checksum.
      destruct (validate_checksum _ _ _) eqn:C; cbn [bind]; [|discriminate].
      destruct (valid_pub 3 _) eqn:V; [|discriminate]. intros H; apply Ok_inj in H; subst pub.
      apply remove_prefix_inv in P. apply validate_length_inv in L. apply validate_checksum_iff in C.
      apply remove_prefix_inv in Q. subst d. rewrite skipn_app, Nat.sub_diag, skipn_all in *. cbn [app skipn] in *.
      assert (Lr : length r0 = ((ed25519_compr_len - 1) + blake2b40_len)%nat).
      { rewrite app_length in L. vm_compute in L |- *. lia. }
      destruct (split_exact r0 _ _ Lr) as (L1 & L2 & S).
      exists a. split; [exact P|]. rewrite <- C, <- S. split; [exact D|]. auto.
    - intros (a & -> & D & L & Lc & V). rewrite remove_prefix_app. cbn [bind Ok]. rewrite D. cbn [bind Ok].
      rewrite validate_length_ok by (rewrite !app_length, L, Lc; vm_compute; reflexivity). cbn [bind Ok].
      rewrite remove_prefix_app. cbn [bind Ok].
      rewrite skipn_app, Nat.sub_diag, skipn_all. cbn [app skipn]. unfold split_by_checksum.
      rewrite (drop_last_app' blake2b40_len), (take_last_app' blake2b40_len) by exact Lc.
      unfold validate_checksum. rewrite list_eqb_refl. cbn [bind Ok]. rewrite V. reflexivity.
  Qed.

  (* Nimiq: spaces anywhere are dropped first *)
  Theorem nim_accepts_iff s d :
    nim_decode b32_dec s = Ok d <->
    exists body, filter (fun c => negb (c =? 32)) s = nim_prefix ++ nim_checksum body ++ body /\
      length body = nim_hash_enc_len /\ forallb (fun c => memb c nim_alphabet) body = true /\
      b32_dec (Some nim_alphabet) body = Ok d.
  Proof.
    unfold nim_decode. set (a := filter (fun c => negb (c =? 32)) s). split.
    - destruct (validate_and_remove_prefix a nim_prefix) as [a'|] eqn:P; cbn [bind]; [|discriminate].
      destruct (validate_length a' _) eqn:L; cbn [bind]; [|discriminate].
      destruct (forallb _ (skipn nim_ck_enc_len a')) eqn:A; cbn [negb]; [|discriminate].
      destruct (validate_checksum _ _ _) eqn:C; cbn [bind]; [|discriminate]. intros D.
      apply remove_prefix_inv in P. apply validate_length_inv in L. apply validate_checksum_iff in C.
      exists (skipn nim_ck_enc_len a'). rewrite <- C, firstn_skipn. split; [exact P|].
      split; [rewrite skipn_length, L; reflexivity|]. split; [exact A|exact D].
    - intros (body & E & L & A & D). rewrite E, remove_prefix_app. cbn [bind Ok].
      assert (Lc : length (nim_checksum body) = nim_ck_enc_len) by reflexivity.
      rewrite validate_length_ok by (rewrite app_length, Lc, L; reflexivity). cbn [bind Ok].
      assert (F1 : firstn nim_ck_enc_len (nim_checksum body ++ body) = nim_checksum body).
      { rewrite <- Lc. rewrite firstn_app, Nat.sub_diag, firstn_all, firstn_O, app_nil_r. reflexivity. }
      assert (S1 : skipn nim_ck_enc_len (nim_checksum body ++ body) = body).
      { rewrite <- Lc. rewrite skipn_app, Nat.sub_diag, skipn_all. reflexivity. }
      rewrite F1, S1, A. cbn [negb]. unfold validate_checksum. rewrite list_eqb_refl. exact D.
  Qed.
End Generic.
Unset Default Proof Using.

(* ================================================================== Part 2: what Base32Decoder.Decode accepts *)
Notation custom_ok := Lemmas.Base32.custom_ok.
Notation valid_custom := Lemmas.Base32.valid_custom.
Notation eff := Lemmas.Base32.eff.
Notation digits5 := Lemmas.Base32.digits5.
Notation b32_dec := AddrCodecs.b32_dec.
Notation b32_enc_nopad := AddrCodecs.b32_enc_nopad.

Lemma memb_single (x c : N) : memb x [c] = true <-> x = c.
Proof. rewrite memb_In. simpl. split; [intros [H|[]]; auto|auto]. Qed.

(* bytes.rstrip(b"="): the string is the stripped part followed by a run of the character *)
Lemma lstrip_set_split c l : exists k, l = repeat c k ++ lstrip_set [c] l.
Proof.
  induction l as [|a l IH]; [exists 0%nat; reflexivity|]. cbn [lstrip_set].
  destruct (memb a [c]) eqn:M.
  - apply memb_single in M. subst a. destruct IH as (k & E). exists (S k). cbn [repeat app]. f_equal. exact E.
  - exists 0%nat. reflexivity.
Qed.

Lemma rstrip_set_split c s : exists k, s = rstrip_set [c] s ++ repeat c k.
Proof.
  unfold rstrip_set. destruct (lstrip_set_split c (rev s)) as (k & E). exists k.
  rewrite <- (rev_involutive s) at 1. rewrite E at 1. rewrite rev_app_distr, rev_repeat. reflexivity.
Qed.

Lemma repeat_add (c : N) a b : repeat c (a + b) = repeat c a ++ repeat c b.
Proof. induction a; simpl; congruence. Qed.

(* s followed by j pad characters = pad-free body followed by k pad characters: s is body and pad characters *)
Lemma app_repeat_inv (s body : list N) c j k : s ++ repeat c j = body ++ repeat c k -> ~ In c body ->
  exists k', s = body ++ repeat c k'.
Proof.
  intros E Hb. destruct (Nat.le_gt_cases j k) as [L|G].
  - exists (k - j)%nat. replace k with ((k - j) + j)%nat in E by lia. rewrite repeat_add, app_assoc in E.
    apply app_inv_tail in E. exact E.
  - exfalso. replace j with ((j - k) + k)%nat in E by lia. rewrite repeat_add, app_assoc in E.
    apply app_inv_tail in E. apply Hb. rewrite <- E. apply in_or_app. right.
    destruct (j - k)%nat eqn:Z; [lia|]. left. reflexivity.
Qed.

(* the '=' rule of b32decode leaves fewer than 5 unused bits *)
Lemma pad_rule_bits (n k : nat) (m bits : N) : In k [0; 1; 3; 4; 6]%nat -> ((n + k) mod 8 = 0)%nat -> bits < 8 ->
  8 * m + bits = 5 * N.of_nat n -> bits < 5.
Proof.
  intros Hk Hm Hb E. apply Nat.mod_divides in Hm; [|lia]. destruct Hm as (q & Hq).
  simpl in Hk. destruct Hk as [<-|[<-|[<-|[<-|[<-|[]]]]]]; lia.
Qed.

(* CPython's base64.b32decode, inverted *)
Lemma b32decode_inv s d : b32decode s = Ok d ->
  exists ds k bits pend, s = map (sym32 rfc_alphabet) ds ++ repeat rfc_pad k /\ digits_ok 32 ds /\
    (In k [0; 1; 3; 4; 6]%nat /\ ((length ds + k) mod 8 = 0)%nat) /\ bytes_ok d /\
    bits < 5 /\ pend < 2 ^ bits /\ 5 * N.of_nat (length ds) = 8 * N.of_nat (length d) + bits /\
    from_be 32 ds = be_to_int d * 2 ^ bits + pend.
Proof.
  unfold b32decode. destruct (Nat.eqb_spec (length s mod 8) 0) as [Hm|]; cbn [negb]; [|discriminate].
  set (body := rstrip_set [rfc_pad] s).
  destruct (mapM (rev_index rfc_alphabet) body) as [ds|] eqn:M; cbn [bind]; [|discriminate].
  destruct (existsb (Nat.eqb (length s - length body)) [0; 1; 3; 4; 6]%nat) eqn:P; cbn [negb]; [|discriminate].
  intros H.
  destruct (Lemmas.Base58.mapM_sym_index_spec rfc_alphabet 32 Lemmas.Base32.rfc_len Lemmas.Base32.r32 _ _ M) as [Hds Hmap].
  destruct (rstrip_set_split rfc_pad s) as (k & Es). fold body in Es.
  assert (Lk : (length s - length body)%nat = k) by (rewrite Es at 1; rewrite app_length, repeat_length; lia).
  rewrite Lk in P. apply existsb_exists in P. destruct P as (x & Ix & Ex). apply Nat.eqb_eq in Ex. subst x.
  destruct (Lemmas.ConvertBits.convert_floor_spec 5 8 Lemmas.Base32.p5 Lemmas.Base32.p8 ds Hds)
    as (b' & bits & pend & Hbits & Hpend & Hb' & Hlen' & Hval' & E').
  rewrite E' in H. cbn in H. apply Ok_inj in H. subst b'.
  change (2 ^ 8) with 256 in *. change (2 ^ 5) with 32 in *.
  assert (Ls : length s = (length ds + k)%nat).
  { rewrite Es, app_length, repeat_length. f_equal. rewrite <- Hmap. apply map_length. }
  exists ds, k, bits, pend. split; [rewrite Es at 1; rewrite <- Hmap; reflexivity|]. split; [exact Hds|].
  split; [split; [exact Ix|rewrite <- Ls; exact Hm]|].
  split; [apply bytes_ok_digits; exact Hb'|].
  split; [apply (pad_rule_bits (length ds) k (N.of_nat (length d)) bits Ix); [rewrite <- Ls; exact Hm|exact Hbits|lia]|].
  split; [exact Hpend|]. split; [lia|]. unfold be_to_int. lia.
Qed.

(* a symbol of an alphabet is alphabet[d] for some digit d *)
Lemma in_alph_sym (c : list N) x : length c = N.to_nat 32 -> In x c -> exists d, d < 32 /\ sym32 c d = x.
Proof.
  intros L I. destruct (In_nth c x 0 I) as (n & Hn & E). exists (N.of_nat n). split; [lia|].
  unfold sym32, Base58.sym. rewrite Nnat.Nat2N.id. exact E.
Qed.

Section TranslateBack.
  Variable c : list N.
  Hypothesis Hc : valid_custom c.
  Let t := trans_char c rfc_alphabet.

  Lemma c_len32 : length c = N.to_nat 32.
  Proof. destruct Hc as (_ & L & _). rewrite L. reflexivity. Qed.

  Lemma t_pad : t rfc_pad = rfc_pad.
  Proof. apply Lemmas.Base32.trans_char_other. apply Hc. Qed.

  Lemma t_sym d : d < 32 -> t (sym32 c d) = sym32 rfc_alphabet d.
  Proof.
    intros Hd. apply Lemmas.Base32.trans_char_sym; [apply Hc|apply c_len32|apply Lemmas.Base32.rfc_len|exact Hd].
  Qed.

  Lemma sym_rfc_not_pad d : d < 32 -> sym32 rfc_alphabet d <> rfc_pad.
  Proof.
    intros Hd E. apply Lemmas.Base32.rfc_no_pad. rewrite <- E.
    apply (Lemmas.Base32.sym32_in rfc_alphabet Lemmas.Base32.rfc_len). exact Hd.
  Qed.

  Lemma back_pads : forall s1 k, (forall ch, In ch s1 -> In ch c \/ ch = rfc_pad) ->
    map t s1 = repeat rfc_pad k -> s1 = repeat rfc_pad k.
  Proof.
    induction s1 as [|x s1 IH]; intros k Hall E; destruct k; try discriminate; [reflexivity|].
    cbn [map repeat] in E. injection E as Ex Et. cbn [repeat]. f_equal.
    - destruct (Hall x (or_introl eq_refl)) as [I|I]; [|exact I]. exfalso.
      destruct (in_alph_sym c x c_len32 I) as (d & Hd & <-). rewrite (t_sym d Hd) in Ex.
      exact (sym_rfc_not_pad d Hd Ex).
    - apply IH; [intros ch I; apply Hall; right; exact I|exact Et].
  Qed.

  Lemma translate_back : forall ds s1 k, (forall ch, In ch s1 -> In ch c \/ ch = rfc_pad) -> digits_ok 32 ds ->
    map t s1 = map (sym32 rfc_alphabet) ds ++ repeat rfc_pad k -> s1 = map (sym32 c) ds ++ repeat rfc_pad k.
  Proof.
    induction ds as [|d0 ds IH]; intros s1 k Hall Hds E.
    - cbn [map app] in *. apply back_pads; assumption.
    - destruct s1 as [|x s1]; [discriminate|]. cbn [map app] in E. injection E as Ex Et.
      assert (Hd0 : d0 < 32) by (inversion Hds; assumption).
      assert (Hds' : digits_ok 32 ds) by (inversion Hds; assumption).
      cbn [map app]. f_equal.
      + destruct (Hall x (or_introl eq_refl)) as [I|I].
        * destruct (in_alph_sym c x c_len32 I) as (d & Hd & <-). rewrite (t_sym d Hd) in Ex.
          apply (Lemmas.Base58.sym_inj rfc_alphabet 32 Lemmas.Base32.rfc_nodup Lemmas.Base32.rfc_len Lemmas.Base32.r32) in Ex;
            [subst d; reflexivity|exact Hd|exact Hd0].
        * exfalso. subst x. rewrite t_pad in Ex. exact (sym_rfc_not_pad d0 Hd0 (eq_sym Ex)).
      + apply IH; [intros ch I; apply Hall; right; exact I|exact Hds'|exact Et].
  Qed.
End TranslateBack.

Lemma syms_no_pad al ds : custom_ok al -> digits_ok 32 ds -> ~ In rfc_pad (map (sym32 (eff al)) ds).
Proof.
  intros Ha Hds I. destruct (Lemmas.Base32.eff_facts al Ha) as (_ & E2 & E3).
  exact (Lemmas.Base32.syms_not (eff al) E2 rfc_pad ds E3 Hds rfc_pad I eq_refl).
Qed.

(* Base32Decoder.Decode, inverted: symbols of the (custom) alphabet, then a run of '=', and the symbols regroup
   to the returned bytes with [bits] < 5 left-over bits of ARBITRARY value [pend] *)
Theorem b32_dec_inv al s d : custom_ok al -> b32_dec al s = Ok d ->
  exists ds k bits pend, s = map (sym32 (eff al)) ds ++ repeat rfc_pad k /\ digits_ok 32 ds /\
    (exists j : nat, In (k + j)%nat [0; 1; 3; 4; 6]%nat /\ ((length ds + (k + j)) mod 8 = 0)%nat) /\ bytes_ok d /\
    bits < 5 /\ pend < 2 ^ bits /\ 5 * N.of_nat (length ds) = 8 * N.of_nat (length d) + bits /\
    from_be 32 ds = be_to_int d * 2 ^ bits + pend.
Proof.
  intros Ha. unfold AddrCodecs.b32_dec, Codecs.b32_decode.
  rewrite Base32Ok.b32_alphabet_rfc, Base32Ok.b32_pad_char_rfc. unfold Base32.decode.
  rewrite Lemmas.Base32.add_padding_bare. set (j := Lemmas.Base32.padcount (length s)).
  destruct al as [c|]; cbn [eff].
  - destruct (existsb _ (s ++ repeat rfc_pad j)) eqn:X; [discriminate|].
    destruct Ha as (Hnd & Hl & Hp). unfold translate.
    assert (LL : (length c =? length rfc_alphabet)%nat = true) by (rewrite Hl; reflexivity).
    rewrite LL. cbn [bind Ok]. intros H.
    destruct (b32decode_inv _ _ H) as (ds & k & bits & pend & E & Hds & K & R).
    assert (Hall : forall ch, In ch (s ++ repeat rfc_pad j) -> In ch c \/ ch = rfc_pad).
    { intros ch I. destruct (memb ch c) eqn:M; [left; apply memb_In; exact M|right].
      destruct (list_eqb [ch] [rfc_pad]) eqn:Q; [apply list_eqb_spec in Q; congruence|].
      exfalso. assert (T : existsb (fun ch0 => negb (memb ch0 c) && negb (list_eqb [ch0] [rfc_pad])) (s ++ repeat rfc_pad j) = true).
      { apply existsb_exists. exists ch. split; [exact I|]. rewrite M, Q. reflexivity. }
      rewrite T in X. discriminate. }
    pose proof (translate_back c (conj Hnd (conj Hl Hp)) ds _ k Hall Hds E) as E1.
    destruct (app_repeat_inv s (map (sym32 c) ds) rfc_pad j k E1) as (k' & Es).
    { apply (syms_no_pad (Some c)); [exact (conj Hnd (conj Hl Hp))|exact Hds]. }
    exists ds, k', bits, pend. split; [exact Es|]. split; [exact Hds|]. split; [|exact R].
    exists j. replace (k' + j)%nat with k; [exact K|].
    rewrite Es in E1. rewrite <- app_assoc in E1. apply app_inv_head in E1. rewrite <- repeat_add in E1.
    apply (f_equal (@length N)) in E1. rewrite !repeat_length in E1. lia.
  - cbn [bind Ok]. intros H.
    destruct (b32decode_inv _ _ H) as (ds & k & bits & pend & E & Hds & K & R).
    destruct (app_repeat_inv s (map (sym32 rfc_alphabet) ds) rfc_pad j k E) as (k' & Es).
    { apply (syms_no_pad None); [exact I|exact Hds]. }
    exists ds, k', bits, pend. split; [exact Es|]. split; [exact Hds|]. split; [|exact R].
    exists j. replace (k' + j)%nat with k; [exact K|].
    rewrite Es in E. rewrite <- app_assoc in E. apply app_inv_head in E. rewrite <- repeat_add in E.
    apply (f_equal (@length N)) in E. rewrite !repeat_length in E. lia.
Qed.

(* canonical form: no '=' in the string and zero left-over bits -- exactly then the accepted string is
   Base32Encoder.EncodeNoPadding of the returned bytes *)
Theorem b32_dec_canonical al ds d bits : custom_ok al -> digits_ok 32 ds -> bytes_ok d -> bits < 5 ->
  5 * N.of_nat (length ds) = 8 * N.of_nat (length d) + bits -> from_be 32 ds = be_to_int d * 2 ^ bits ->
  b32_enc_nopad al d = Ok (map (sym32 (eff al)) ds).
Proof.
  intros Ha Hds Hd Hb Hl Hv. destruct (AddrInst.enc_nopad_shape d al Hd Ha) as (ds' & D' & E).
  assert (D : digits5 d ds) by (split; [exact Hds|exists bits; auto]).
  rewrite (Lemmas.Base32.digits5_unique d ds ds' D D'). exact E.
Qed.

(* no left-over bits at all (the byte count is a multiple of 5): the '=' rule leaves no room for a pad run either,
   so the accepted string is exactly the encoder's *)
Theorem b32_dec_canonical_exact al s d : custom_ok al -> b32_dec al s = Ok d -> (length d mod 5 = 0)%nat ->
  b32_enc_nopad al d = Ok s.
Proof.
  intros Ha H Hm.
  destruct (b32_dec_inv al s d Ha H) as (ds & k & bits & pend & Es & Hds & (j & Ik & Mk) & Hd & Hb & Hpend & Hl & Hv).
  apply Nat.mod_divides in Hm; [|lia]. destruct Hm as (q & Hq).
  assert (bits = 0) by lia. subst bits. assert (pend = 0) by (change (2 ^ 0) with 1 in Hpend; lia). subst pend.
  assert (k = 0%nat).
  { apply Nat.mod_divides in Mk; [|lia]. destruct Mk as (q' & Hq').
    simpl in Ik. destruct Ik as [I|[I|[I|[I|[I|[]]]]]]; lia. }
  subst k. cbn [repeat] in Es. rewrite app_nil_r in Es. subst s.
  apply (b32_dec_canonical al ds d 0); auto. lia.
Qed.

(* ================================================================== Part 3: the families on the concrete codec *)
Section Concrete.
  Variables sha512_256 crc16_xmodem : list N -> list N.
  Variable blake2b : nat -> list N -> list N.
  Variable valid_pub : N -> list N -> bool.
  Hypothesis s5_len : forall x, length (sha512_256 x) = 32%nat.
  Hypothesis s5_ok : forall x, bytes_ok (sha512_256 x).
  Hypothesis crc_len : forall x, length (crc16_xmodem x) = 2%nat.
  Hypothesis crc_ok : forall x, bytes_ok (crc16_xmodem x).
  Hypothesis b2b_len : forall n x, length (blake2b n x) = n.
  Hypothesis b2b_ok : forall n x, bytes_ok (blake2b n x).

  Notation algo_decode := (algo_decode sha512_256 valid_pub b32_enc_nopad b32_dec).
  Notation algo_encode := (algo_encode sha512_256 b32_enc_nopad).
  Notation xlm_decode := (xlm_decode valid_pub crc16_xmodem b32_dec).
  Notation xlm_encode := (xlm_encode crc16_xmodem b32_enc_nopad).
  Notation fil_decode := (fil_decode blake2b b32_enc_nopad b32_dec).
  Notation nano_decode := (nano_decode blake2b valid_pub b32_dec).
  Notation nano_encode := (nano_encode blake2b b32_enc_nopad).
  Notation nim_decode := (nim_decode b32_dec).

  Lemma b32_dec_bytes al s d : custom_ok al -> b32_dec al s = Ok d -> bytes_ok d.
  Proof. intros Ha H. destruct (b32_dec_inv al s d Ha H) as (ds & k & bits & pend & _ & _ & _ & B & _). exact B. Qed.

  (* Algorand: accepted <-> the string is the encoder's output for a valid key *)
  Theorem algo_accepts_iff_concrete s pub :
    algo_decode s = Ok pub <->
    algo_encode pub = Ok s /\ bytes_ok pub /\ length pub = (ed25519_compr_len - 1)%nat /\ valid_pub 2 pub = true.
  Proof using s5_len s5_ok.
    split.
    - intros H. apply algo_accepts_iff in H. destruct H as (D & K & L & _ & V).
      pose proof (b32_dec_bytes None _ _ I D) as B. apply bytes_ok_app in B. destruct B as [B _]. auto.
    - intros (K & B & L & V). exact (AddrInst.algo_rt sha512_256 valid_pub s5_len s5_ok pub s B L V K).
  Qed.

  (* Stellar *)
  Theorem xlm_accepted_is_encoding t s pub : xlm_decode t s = Ok pub ->
    xlm_encode t pub = Ok s /\ valid_pub 2 pub = true /\ length pub = (ed25519_compr_len - 1)%nat.
  Proof using Type.
    intros H. apply xlm_accepts_iff in H. destruct H as (D & L & Lc & V). split; [|auto].
    unfold AddrText.xlm_encode. change ([t] ++ pub) with (t :: pub).
    apply (b32_dec_canonical_exact None); [exact I|exact D|].
    rewrite app_length, Lc. cbn [length]. rewrite L. reflexivity.
  Qed.

  Theorem xlm_accepts_iff_concrete t s pub : t < 256 ->
    (xlm_decode t s = Ok pub <->
     xlm_encode t pub = Ok s /\ bytes_ok pub /\ length pub = (ed25519_compr_len - 1)%nat /\ valid_pub 2 pub = true).
  Proof using crc_len crc_ok.
    intros Ht. split.
    - intros H. destruct (xlm_accepted_is_encoding t s pub H) as (K & V & L).
      apply xlm_accepts_iff in H. destruct H as (D & _).
      pose proof (b32_dec_bytes None _ _ I D) as B. apply bytes_ok_app in B. destruct B as [B _]. inversion B; subst. auto.
    - intros (K & B & L & V). exact (AddrInst.xlm_rt crc16_xmodem valid_pub crc_len crc_ok t pub s Ht B L V K).
  Qed.

  (* Filecoin: accepted <-> "f1" followed by the Base32 text of hash ++ checksum, for a 20-byte hash *)
  Theorem fil_accepts_iff_concrete s h :
    fil_decode s = Ok h <->
    bytes_ok h /\ length h = blake2b160_len /\
    exists body, b32_enc_nopad (Some fil_alphabet) (h ++ fil_checksum blake2b fil_secp_type h) = Ok body /\
                 s = fil_prefix ++ (48 + fil_secp_type) :: body.
  Proof using b2b_len b2b_ok.
    split.
    - intros H. apply fil_accepts_iff in H. destruct H as (body & -> & D & K & L & _).
      pose proof (b32_dec_bytes _ _ _ AddrInst.fil_alph_ok D) as B. apply bytes_ok_app in B. destruct B as [B _].
      split; [exact B|]. split; [exact L|]. exists body. auto.
    - intros (B & L & body & K & ->). apply fil_accepts_iff. exists body. split; [reflexivity|].
      assert (Hpl : bytes_ok (h ++ fil_checksum blake2b fil_secp_type h)) by (apply bytes_ok_app; split; [exact B|apply b2b_ok]).
      split; [exact (AddrInst.b32_rt _ _ _ AddrInst.fil_alph_ok Hpl K)|]. split; [exact K|]. split; [exact L|apply b2b_len].
  Qed.

  (* every accepted Filecoin string is the encoder's text for the returned hash *)
  Theorem fil_accepted_is_encoding s h : fil_decode s = Ok h ->
    length h = blake2b160_len /\
    exists body, b32_enc_nopad (Some fil_alphabet) (h ++ fil_checksum blake2b fil_secp_type h) = Ok body /\
                 s = fil_prefix ++ (48 + fil_secp_type) :: body.
  Proof using Type.
    intros H. apply fil_accepts_iff in H. destruct H as (body & -> & D & K & L & _). split; [exact L|]. exists body. auto.
  Qed.

  (* Nano: accepted <-> the string is the encoder's output for a valid key *)
  Theorem nano_accepted_is_encoding s pub : nano_decode s = Ok pub ->
    nano_encode pub = Ok s /\ bytes_ok pub /\ length pub = (ed25519_compr_len - 1)%nat /\ valid_pub 3 pub = true.
  Proof using Type.
    intros H. apply nano_accepts_iff in H. destruct H as (a & -> & D & L & Lc & V).
    assert (E : b32_enc_nopad (Some nano_alphabet) (nano_pad_dec ++ pub ++ nano_checksum blake2b pub) = Ok (nano_pad_enc ++ a)).
    { apply (b32_dec_canonical_exact (Some nano_alphabet)); [exact AddrInst.nano_alph_ok|exact D|].
      rewrite !app_length, L, Lc. reflexivity. }
    pose proof (b32_dec_bytes _ _ _ AddrInst.nano_alph_ok D) as B.
    apply bytes_ok_app in B. destruct B as [_ B]. apply bytes_ok_app in B. destruct B as [B _].
    split; [|auto]. unfold AddrText.nano_encode. rewrite E. cbn [bind Ok].
    rewrite skipn_app, Nat.sub_diag, skipn_all. reflexivity.
  Qed.

  Theorem nano_accepts_iff_concrete s pub :
    nano_decode s = Ok pub <->
    nano_encode pub = Ok s /\ bytes_ok pub /\ length pub = (ed25519_compr_len - 1)%nat /\ valid_pub 3 pub = true.
  Proof using b2b_len b2b_ok.
    split; [apply nano_accepted_is_encoding|].
    intros (K & B & L & V). exact (AddrInst.nano_rt blake2b valid_pub b2b_len b2b_ok pub s B L V K).
  Qed.

  (* Nimiq: 20 bytes = 32 symbols, no spare bits; spaces are free *)
  Theorem nim_accepted_is_encoding s d : nim_decode s = Ok d ->
    length d = nim_hash_len /\
    exists body, b32_enc_nopad (Some nim_alphabet) d = Ok body /\
      filter (fun c => negb (c =? 32)) s = nim_prefix ++ nim_checksum body ++ body.
  Proof using Type.
    intros H. apply nim_accepts_iff in H. destruct H as (body & E & L & A & D).
    destruct (b32_dec_inv _ _ _ AddrInst.nim_alph_ok D) as (ds & k & bits & pend & Es & Hds & _ & Hd & Hb & Hpend & Hl & Hv).
    cbn [eff] in Es.
    assert (k = 0%nat).
    { destruct k as [|k]; [reflexivity|]. exfalso. rewrite Es in A. rewrite forallb_app in A.
      apply andb_true_iff in A. destruct A as [_ A]. cbn [repeat forallb] in A. vm_compute in A. discriminate. }
    subst k. cbn [repeat] in Es. rewrite app_nil_r in Es.
    assert (Lds : length ds = 32%nat) by (rewrite <- (map_length (sym32 nim_alphabet)), <- Es; exact L).
    rewrite Lds in Hl. assert (bits = 0 /\ length d = 20%nat) by lia. destruct H as [-> Ld].
    assert (pend = 0) by (change (2 ^ 0) with 1 in Hpend; lia). subst pend.
    split; [exact Ld|]. exists body. split; [|exact E]. rewrite Es.
    apply (b32_dec_canonical (Some nim_alphabet) ds d 0 AddrInst.nim_alph_ok Hds Hd); [lia|lia|].
    rewrite Hv. change (2 ^ 0) with 1. lia.
  Qed.
End Concrete.

(* ---- the non-canonical spellings that the decoders accepted before the repairs (findings C10-ALGO-NONCANON,
   C10-FIL-NONCANON, C10-NANO-PADBITS) are rejected, although the Base32 layer still decodes them to the same bytes.
   Instance: constant-zero "hash", every key valid. ---- *)
Definition zero_hash (_ : list N) : list N := repeat 0 32.
Definition zero_blake (n : nat) (_ : list N) : list N := repeat 0 n.
Definition any_valid (_ : N) (_ : list N) : bool := true.

Theorem base32_noncanonical_rejected :
  (* Algorand: "AAA...A" (58) is the address; "AAA...AB" (spare bits 01) and the address followed by "======" *)
  (exists s1 s2 s3 pub d,
    algo_encode zero_hash b32_enc_nopad pub = Ok s1 /\
    b32_dec None s1 = Ok d /\ b32_dec None s2 = Ok d /\ b32_dec None s3 = Ok d /\
    algo_decode zero_hash any_valid b32_enc_nopad b32_dec s1 = Ok pub /\
    algo_decode zero_hash any_valid b32_enc_nopad b32_dec s2 = Err ValueError /\
    algo_decode zero_hash any_valid b32_enc_nopad b32_dec s3 = Err ValueError) /\
  (* Filecoin: "f1aaa...a" (39); last symbol "h" (spare bits 111); a trailing "=" *)
  (exists s1 s2 s3 pub_u,
    fil_encode zero_blake b32_enc_nopad pub_u = Ok s1 /\
    fil_decode zero_blake b32_enc_nopad b32_dec s1 = Ok (zero_blake blake2b160_len pub_u) /\
    fil_decode zero_blake b32_enc_nopad b32_dec s2 = Err ValueError /\
    fil_decode zero_blake b32_enc_nopad b32_dec s3 = Err ValueError) /\
  (* Nano: "nano_111...1" (60); first symbol "4" = 00010 (non-zero pad bits) *)
  (exists s1 s2 pub,
    nano_encode zero_blake b32_enc_nopad pub = Ok s1 /\
    nano_decode zero_blake any_valid b32_dec s1 = Ok pub /\
    nano_decode zero_blake any_valid b32_dec s2 = Err ValueError).
Proof.
  split; [|split].
  - exists (repeat 65 58), (repeat 65 57 ++ [66]), (repeat 65 58 ++ repeat 61 6), (repeat 0 32), (repeat 0 36).
    repeat split; vm_compute; reflexivity.
  - exists (fil_prefix ++ [49] ++ repeat 97 39), (fil_prefix ++ [49] ++ repeat 97 38 ++ [104]),
           (fil_prefix ++ [49] ++ repeat 97 39 ++ [61]), [].
    repeat split; vm_compute; reflexivity.
  - exists (nano_prefix ++ repeat 49 60), (nano_prefix ++ [52] ++ repeat 49 59), (repeat 0 32).
    repeat split; vm_compute; reflexivity.
Qed.

(* C14 no-escape lemmas: BIP-32 and Substrate path parsers / elements / path-driven derivation. *)
From Coq Require Import NArith ZArith List Bool Lia.
From BU Require Import Base.Exn Base.Radix Base.Bytes Gen.PathConsts Model.PyText Model.SubstrateScale.
From BU Require Model.Bip32Path Model.SubstratePath.
From BU Require Lemmas.Bip32Path Lemmas.SubstratePath Lemmas.SubstrateScale Lemmas.ChunkMnemonic Lemmas.ConvertBits
                Lemmas.UnicodeOk.
From BU Require Import Lemmas.NoEscape.
Import ListNotations.

(* ------------------------------------------------------------------ BIP-32 *)

(* Bip32PathParser.Parse(str) *)
Lemma bip32_parse_family s : in_family (Bip32Path.parse s) = true.
Proof.
  apply family_of_errs. intros e E. rewrite (Lemmas.Bip32Path.parse_rejects_with_path_error s e E). reflexivity.
Qed.

(* Bip32KeyIndex(int) / Bip32KeyIndex.FromBytes(bytes) *)
Lemma bip32_key_index_family z : in_family (Bip32Path.key_index z) = true.
Proof. unfold Bip32Path.key_index. fam. Qed.
Lemma bip32_key_index_from_bytes_family b : in_family (Bip32Path.key_index_from_bytes b) = true.
Proof. apply bip32_key_index_family. Qed.

(* Bip32Path(list of ints) *)
Lemma bip32_make_path_family zs ab : in_family (Bip32Path.make_path zs ab) = true.
Proof. unfold Bip32Path.make_path. fam. Qed.

(* Bip32Base.DerivePath(str) over ANY child-key function that stays in the family: the path layer adds only
   Bip32PathError (parser) and ValueError (absolute path on a non-master object) *)
Section Bip32Derive.
  Variable key : Type.
  Variable depth : key -> N.
  Variable ckd : key -> N -> res key.
  Hypothesis ckd_family : forall k i, in_family (ckd k i) = true.

  Lemma bip32_derive_elems_family p : forall k, in_family (Bip32Path.derive_elems key ckd k p) = true.
  Proof. induction p as [|i r IH]; intros k; cbn [Bip32Path.derive_elems]; fam; [apply ckd_family|apply IH]. Qed.

  Lemma bip32_derive_path_str_family k s : in_family (Bip32Path.derive_path_str key depth ckd k s) = true.
  Proof.
    unfold Bip32Path.derive_path_str, Bip32Path.derive_path. fam.
    - apply bip32_parse_family.
    - apply bip32_derive_elems_family.
  Qed.

  Lemma bip32_child_key_family k z : in_family (Bip32Path.child_key key ckd k z) = true.
  Proof. unfold Bip32Path.child_key. fam; [apply bip32_key_index_family|apply ckd_family]. Qed.
End Bip32Derive.

(* ------------------------------------------------------------------ Substrate *)

(* SubstratePathElem(str) *)
Lemma sub_make_elem_family e : in_family (SubstratePath.make_elem e) = true.
Proof. unfold SubstratePath.make_elem. fam. Qed.

(* SubstratePathParser.Parse(str) *)
Lemma sub_parse_family s : in_family (SubstratePath.parse s) = true.
Proof.
  apply family_of_errs. intros e E. rewrite (Lemmas.SubstratePath.parse_err s e E). reflexivity.
Qed.

(* str.encode("utf-8"): UnicodeEncodeError (a ValueError) on a lone surrogate *)
Lemma utf8_encode_family s : in_family (utf8_encode s) = true.
Proof.
  apply family_of_errs. intros e E. rewrite (Lemmas.SubstrateScale.utf8_encode_err s e E). reflexivity.
Qed.

(* SubstrateScaleCUintEncoder.Encode: the int.to_bytes calls never overflow (OverflowError unreachable): each
   fixed-width mode is entered only below its bound, and the big-integer mode (<= 2^536 - 1) needs <= 67 bytes,
   so its length byte ((n - 4) << 2 | 3) fits one byte *)
Open Scope N_scope.
Lemma int_to_le_fixed_family_lt w v : (1 <= w)%nat -> v < 256 ^ N.of_nat w -> in_family (int_to_le_fixed w v) = true.
Proof.
  intros Hw H. unfold int_to_le_fixed.
  apply (proj2 (Lemmas.ChunkMnemonic.gbn_le w v Hw)) in H. unfold get_bytes_number in H.
  destruct (Nat.leb_spec (length (to_le 256 v)) w); [reflexivity|lia].
Qed.

Lemma cuint_encode_family v : in_family (cuint_encode v) = true.
Proof.
  unfold cuint_encode. change scale_cuint_modes with [(2, 0, 1%nat); (2, 1, 2%nat); (2, 2, 4%nat)].
  cbv beta iota.
  destruct (N.leb_spec v scale_single_byte_max) as [L1|L1].
  { unfold cuint_fixed. apply int_to_le_fixed_family_lt; [lia|].
    rewrite Lemmas.ConvertBits.lor_shift_add by reflexivity. unfold scale_single_byte_max in L1.
    change (256 ^ N.of_nat 1) with 256. change (2 ^ 2) with 4. lia. }
  destruct (N.leb_spec v scale_two_byte_max) as [L2|L2].
  { unfold cuint_fixed. apply int_to_le_fixed_family_lt; [lia|].
    rewrite Lemmas.ConvertBits.lor_shift_add by reflexivity. unfold scale_two_byte_max in L2.
    change (256 ^ N.of_nat 2) with 65536. change (2 ^ 2) with 4. lia. }
  destruct (N.leb_spec v scale_four_byte_max) as [L3|L3].
  { unfold cuint_fixed. apply int_to_le_fixed_family_lt; [lia|].
    rewrite Lemmas.ConvertBits.lor_shift_add by reflexivity. unfold scale_four_byte_max in L3.
    change (256 ^ N.of_nat 4) with 4294967296. change (2 ^ 2) with 4. lia. }
  destruct (N.leb_spec v scale_big_int_max) as [L4|L4]; [|reflexivity].
  apply fam_bind; [|reflexivity].
  apply int_to_le_fixed_family_lt; [lia|].
  assert (Hl : (length (int_to_le_auto v) <= 67)%nat).
  { unfold int_to_le_auto. destruct (int_to_le_fixed (get_bytes_number v) v) as [b|e] eqn:E; [|simpl; lia].
    assert (length b = get_bytes_number v).
    { unfold int_to_le_fixed in E. destruct (length (to_le 256 v) <=? get_bytes_number v)%nat eqn:C; [|discriminate].
      inversion E; subst. rewrite app_length, repeat_length. apply Nat.leb_le in C. lia. }
    rewrite H. apply (Lemmas.ChunkMnemonic.gbn_le 67 v); [lia|].
    eapply N.le_lt_trans; [exact L4|]. vm_compute. reflexivity. }
  set (n := N.of_nat (length (int_to_le_auto v))). assert (Hn : n <= 67) by (unfold n; lia).
  unfold scale_cuint_big_shift, scale_cuint_big_flag.
  rewrite Lemmas.ConvertBits.lor_shift_add by reflexivity.
  change (256 ^ N.of_nat 1) with 256. change (2 ^ 2) with 4. lia.
Qed.

Lemma bytes_encode_str_family s : in_family (bytes_encode_str s) = true.
Proof.
  unfold bytes_encode_str. fam.
  - apply utf8_encode_family.
  - apply cuint_encode_family.
Qed.

Lemma sub_chain_code_family (blake : list N -> list N) body :
  in_family (SubstratePath.chain_code blake body) = true.
Proof.
  destruct (py_isdecimal body) eqn:Hd.
  - destruct (Lemmas.SubstratePath.chain_code_numeric blake body Hd) as (A & B & C).
    destruct (int_limit_ok (length body)) eqn:Hl.
    + destruct (N.lt_ge_cases (Lemmas.UnicodeOk.numeral_value body) (2 ^ 256)) as [Hv|Hv].
      * destruct (A eq_refl Hv) as (b & E & _). rewrite E. reflexivity.
      * rewrite (B eq_refl Hv). reflexivity.
    + rewrite (C eq_refl). reflexivity.
  - unfold SubstratePath.chain_code. rewrite Hd. fam. apply bytes_encode_str_family.
Qed.

(* Substrate.ChildKey / DerivePath(str) / FromSeedAndPath over arbitrary sr25519 oracles *)
Section SubDerive.
  Variable blake : list N -> list N.
  Variable hard_derive soft_derive : list N -> list N -> list N -> list N * list N.
  Variable soft_derive_pub : list N -> list N -> list N.

  Lemma sub_child_key_family k el :
    in_family (SubstratePath.child_key blake hard_derive soft_derive soft_derive_pub k el) = true.
  Proof. unfold SubstratePath.child_key. fam; apply sub_chain_code_family. Qed.

  Lemma sub_derive_path_family p : forall k,
    in_family (SubstratePath.derive_path blake hard_derive soft_derive soft_derive_pub k p) = true.
  Proof. induction p as [|el r IH]; intros k; cbn [SubstratePath.derive_path]; fam; [apply sub_child_key_family|apply IH]. Qed.

  Lemma sub_derive_path_str_family k s :
    in_family (SubstratePath.derive_path_str blake hard_derive soft_derive soft_derive_pub k s) = true.
  Proof. unfold SubstratePath.derive_path_str. fam; [apply sub_parse_family|apply sub_derive_path_family]. Qed.
End SubDerive.

(* ------------------------------------------------------------------ Model/Coins.v: the strict ASCII sub-grammar of
   Bip32PathParser.Parse used for the coin tables' default paths (every rejection is Bip32PathError).  This model is
   NOT the library's parser on arbitrary strings (that is Bip32Path.parse above), so it is not part of the fuzz map. *)
From BU Require Model.Coins.
Lemma coins_parse_elem_family e : in_family (Coins.parse_elem e) = true.
Proof. unfold Coins.parse_elem, Coins.path_err. fam. Qed.
Lemma coins_parse_path_family s : in_family (Coins.parse_path s) = true.
Proof. unfold Coins.parse_path. fam; apply coins_parse_elem_family. Qed.

(* Seed theorems that need the regenerated word lists: the canonical spelling (Mnemonic.ToStr) of
   a valid sentence is again a spelling of it, with the same seed. *)
From Coq Require Import NArith Arith List Lia Bool.
From BU Require Import Base.Exn Base.Bytes Model.BinStr Model.Bip39 Model.Bip39Spec Model.Seeds
                       Gen.Bip39Consts Gen.WlBip39
                       Lemmas.BinStr Lemmas.Bip39 Lemmas.Bip39WordlistsOk Lemmas.Bip39Props Lemmas.Seeds.
Import ListNotations.
Open Scope N_scope.

Section S.
  Variable sha256 nfkd lower : list N -> list N.
  Variable pbkdf2 : list N -> list N -> N -> N -> list N.
  Hypothesis Hsha : sha_ok sha256.
  Hypothesis nfkd_idem : forall s, nfkd (nfkd s) = nfkd s.
  Hypothesis nfkd_ascii_prefix : forall a b, ascii a -> nfkd (a ++ b) = a ++ nfkd b.
  Variable wl : list (list N).
  Hypothesis Hwl : In wl bip39_langs.
  Hypothesis Hnf : normal_form nfkd lower wl.

  Lemma accepted_words_listed ws e : decode sha256 bip39_langs (Some wl) ws = Ok e -> Forall (fun w => In w wl) ws.
  Proof.
    intros H. apply (p_decode_accepts_iff sha256 Hsha wl Hwl) in H as (_ & idxs & Hi & _).
    apply (p_words_listed wl ws). eauto.
  Qed.

  Lemma normalize_canonical ws : Forall (fun w => In w wl) ws ->
    Bip39.normalize nfkd lower (join_sp ws) = ws.
  Proof.
    intros H. unfold Bip39.normalize. rewrite split_join_sp by (apply (listed_words_plain wl Hwl); exact H).
    unfold normalize_list. apply map_id_in. intros w Hw. apply Hnf. rewrite Forall_forall in H. auto.
  Qed.

  (* the single-space, lower-case NFKD spelling produced by Mnemonic.ToStr gives the same seed as
     whatever spelling of the valid sentence was supplied *)
  Theorem seed_canonical_spelling s p e :
    decode sha256 bip39_langs (Some wl) (Bip39.normalize nfkd lower s) = Ok e ->
    bip39_seed_str sha256 nfkd lower pbkdf2 bip39_langs (Some wl) (join_sp (Bip39.normalize nfkd lower s)) p =
    bip39_seed_str sha256 nfkd lower pbkdf2 bip39_langs (Some wl) s p.
  Proof.
    intros H. apply (seed_fold_invariant sha256 nfkd lower pbkdf2 bip39_langs nfkd_ascii_prefix); [|reflexivity].
    apply normalize_canonical. exact (accepted_words_listed _ e H).
  Qed.

  (* a seed is produced exactly for the accepted sentences, and it has the KDF's 64 bytes *)
  Theorem seed_iff_valid s p : (forall a b c d, length (pbkdf2 a b c d) = N.to_nat d) ->
    Forall scalar (nfkd p) ->
    (exists seed, bip39_seed_str sha256 nfkd lower pbkdf2 bip39_langs (Some wl) s p = Ok seed /\ length seed = 64%nat)
    <-> exists e, decode sha256 bip39_langs (Some wl) (Bip39.normalize nfkd lower s) = Ok e.
  Proof.
    intros Hlen Hnp. rewrite (bip39_seed_def sha256 nfkd lower pbkdf2 bip39_langs nfkd_ascii_prefix).
    destruct (decode sha256 bip39_langs (Some wl) (Bip39.normalize nfkd lower s)) as [e|x] eqn:E.
    - split; [intros _; exists e; reflexivity|]. intros _. cbn [bind].
      pose proof (accepted_words_listed _ e E) as Hl.
      destruct (utf8_total (join_sp (Bip39.normalize nfkd lower s))) as [pw Hpw].
      { (* listed words contain only scalar values, and the separator is a space *)
        destruct (bip39_list_ok wl Hwl) as (_ & _ & _ & P).
        assert (G : forall ws, Forall (fun w => In w wl) ws -> Forall scalar (join_sp ws)).
        { induction 1 as [|w t Hw Ht IH]; [constructor|].
          assert (Sw : Forall scalar w).
          { rewrite Forall_forall in P. destruct (P w Hw) as [_ Hc]. rewrite Forall_forall in *.
            intros c Hcw. destruct (Hc c Hcw) as (_ & Hlt & Hsur). split; assumption. }
          destruct t as [|w' t']; [exact Sw|]. cbn [join_sp]. apply Forall_app. split; [exact Sw|].
          constructor; [split; [lia|lia]|exact IH]. }
        apply G. exact Hl. }
      rewrite Hpw. cbn [bind].
      destruct (utf8_total (str_mnemonic ++ nfkd p)) as [salt Hs].
      { apply Forall_app. split; [|exact Hnp]. repeat constructor; lia. }
      rewrite Hs. cbn [bind]. eexists. split; [reflexivity|]. rewrite Hlen. reflexivity.
    - split; [intros (seed & H & _); discriminate|intros (e & H); discriminate].
  Qed.
End S.

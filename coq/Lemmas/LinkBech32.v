(* LINK: the facts about the concrete Bech32 codec (Model/Bech32.v, proved in Lemmas/Bech32.v for C10) in the
   form the pipelines that call Bech32Encoder.Encode / Bech32Decoder.Decode need them (SLIP-32, Cardano
   Shelley).  Nothing is assumed here: no hash, no oracle. *)
From Coq Require Import NArith Arith List Lia Bool.
From BU Require Import Base.Exn Base.Radix Base.Bytes Gen.Bech32Consts Model.Bech32Bits Model.Bech32Str Model.Bech32.
From BU Require Lemmas.Bech32Bits Lemmas.Bech32Str Lemmas.Bech32ConstsOk Lemmas.Bech32Code Lemmas.Bech32.
Import ListNotations.
Open Scope N_scope.

Notation hrp_enc_ok := Lemmas.Bech32.hrp_enc_ok.

(* decidable form of [hrp_enc_ok], to discharge it on constants by computation *)
Definition hrp_enc_okb (hrp : list N) : bool :=
  negb (length hrp =? 0)%nat &&
  forallb (fun x => (bech32_hrp_min_cp <=? x) && (x <=? bech32_hrp_max_cp) && negb ((65 <=? x) && (x <=? 90))) hrp.

Lemma hrp_enc_okb_sound hrp : hrp_enc_okb hrp = true -> hrp_enc_ok hrp.
Proof.
  unfold hrp_enc_okb. rewrite andb_true_iff, forallb_forall. intros [H1 H2]. split.
  - destruct hrp; [discriminate|discriminate].
  - apply Forall_forall. intros x Hx. specialize (H2 x Hx).
    rewrite !andb_true_iff, negb_true_iff, andb_false_iff in H2. destruct H2 as [[A B] C].
    apply N.leb_le in A, B. split; [lia|]. intros [D E]. apply N.leb_le in D, E.
    destruct C as [C|C]; rewrite C in *; discriminate.
Qed.

(* what the encoder returns, when it returns: the HRP, the separator, then data characters *)
Lemma bech32_encode_shape hrp d s : bech32_encode hrp d = Ok s -> exists chars, s = hrp ++ bech32_sep :: chars.
Proof.
  unfold bech32_encode. destruct (b32_to_base32 d) as [syms|]; [|discriminate]. cbn [bind Ok].
  unfold bech32_encode_base, encode_base. cbn [bind Ok].
  destruct (mapM _ _) as [chars|]; [|discriminate]. cbn [bind Ok]. intros H. inversion H. exists chars. reflexivity.
Qed.

Lemma bech32_encode_prefix hrp d s : bech32_encode hrp d = Ok s -> firstn (length hrp) s = hrp.
Proof.
  intros H. destruct (bech32_encode_shape hrp d s H) as (c & ->).
  rewrite firstn_app, Nat.sub_diag, firstn_all. cbn [firstn]. apply app_nil_r.
Qed.

(* the encoder is total on byte strings (for any HRP whatever: the HRP is not examined) *)
Lemma bech32_encode_total hrp d : bytes_ok d -> exists s, bech32_encode hrp d = Ok s.
Proof.
  intros Hd. destruct (Lemmas.Bech32Bits.to_base32_total d Hd) as (syms & T & Hs).
  unfold bech32_encode. rewrite Lemmas.Bech32.b32_to_base32_eq, T. cbn [bind Ok].
  unfold bech32_encode_base, encode_base. cbn [bind Ok].
  rewrite (Lemmas.Bech32.mapM_char_at bech32_charset).
  - eexists. reflexivity.
  - apply Forall_app. split; [exact Hs|apply Lemmas.Bech32Code.b32_compute_small].
Qed.

(* decode after encode, for a well-formed HRP *)
Lemma bech32_rt hrp d s : hrp_enc_ok hrp -> bytes_ok d -> d <> [] ->
  bech32_encode hrp d = Ok s -> bech32_decode hrp s = Ok d.
Proof.
  intros Hh Hd Hn E. destruct (Lemmas.Bech32.bech32_dec_enc hrp d Hh Hd (or_introl Hn)) as (s' & E1 & E2).
  rewrite E in E1. assert (s = s') by (unfold Ok in E1; congruence). subst s'. exact E2.
Qed.

(* the decoder returns byte strings *)
Lemma bech32_decode_bytes hrp s d : bech32_decode hrp s = Ok d -> bytes_ok d.
Proof.
  intros H. apply Lemmas.Bech32.bech32_decode_ok_iff in H.
  destruct H as (_ & _ & _ & syms & _ & _ & _ & _ & F). apply Lemmas.Bech32Bits.to_from_base32 in F. apply F.
Qed.

(* the abstract law "decode (encode d) = d for EVERY hrp" that Lemmas/Slip32.v and Lemmas/AddrAdaShelley.v
   assumed is false of the codec: an upper-case HRP gives a mixed-case string, which the decoder refuses *)
Example bech32_rt_fails_uppercase_hrp :
  let s := [88; 49; 113; 113; 108; 104; 48; 122; 53; 51] in      (* "X1qqlh0z53" *)
  bech32_encode [88] [0] = Ok s /\ bech32_decode [88] s = Err ValueError.
Proof. split; vm_compute; reflexivity. Qed.
Example bech32_rt_fails_empty_hrp :
  let s := [49; 113; 113; 51; 118; 107; 54; 116; 118] in          (* "1qq3vk6tv" *)
  bech32_encode [] [0] = Ok s /\ bech32_decode [] s = Err ValueError.
Proof. split; vm_compute; reflexivity. Qed.

(* Proofs about Model/AddrXmr.v: layout of the encoded address and decode-after-encode. *)
From Coq Require Import NArith Arith List Lia Bool.
From BU Require Import Base.Exn Base.Radix Base.Bytes Gen.ConstsCardmon.
From BU Require Import Model.EdLib Model.AddrXmr Lemmas.CardmonConstsOk Lemmas.EdLib.
From BU Require Lemmas.XmrB58.
Import ListNotations.
Open Scope N_scope.

(* Monero block Base58 over the generated table *)
Theorem b58x_decode_encode b : bytes_ok b -> b58x_decode (b58x_encode b) = Ok b.
Proof.
  apply (Lemmas.XmrB58.decode_encode xb58_alph xb58_radix xb58_block_dec_max xb58_block_enc_max xb58_block_enc_lens
           xb58_alph_nodup xb58_alph_len xb58_radix_ge2 xb58_dec_max_pos xb58_enc_max_pos xb58_tab_fits
           xb58_tab_full xb58_tab_partial xb58_tab_pos xb58_tab_zero xb58_tab_index).
Qed.

Section AddrXmrProofs.
  Variable keccak : list N -> list N.
  Variable G : Type.
  Variable pdec : list N -> option G.
  Hypothesis keccak_len : forall x, length (keccak x) = 32%nat.
  Hypothesis keccak_ok : forall x, bytes_ok (keccak x).

  Notation checksum := (checksum keccak).
  Notation addr_bytes := (addr_bytes keccak).
  Notation encode_key := (encode_key keccak G pdec).
  Notation decode_addr := (decode_addr keccak G pdec).

  Lemma checksum_length p : length (checksum p) = xmr_addr_cklen.
  Proof. unfold AddrXmr.checksum. rewrite firstn_length, keccak_len. pose proof xmr_addr_cklen_le. lia. Qed.
  Lemma checksum_ok p : bytes_ok (checksum p).
  Proof. apply bytes_ok_firstn, keccak_ok. Qed.

  (* layout: what [encode_key] returns when it returns *)
  Theorem encode_key_layout ps pv net payid s : encode_key ps pv net payid = Ok s ->
    exists ps' pv' pid,
      pub_from_bytes G pdec ps = Ok ps' /\ pub_from_bytes G pdec pv = Ok pv' /\
      pid = match payid with Some p => p | None => [] end /\
      (match payid with Some p => length p = xmr_payid_len | None => True end) /\
      s = b58x_encode ((net ++ ps' ++ pv' ++ pid) ++ firstn xmr_addr_cklen (keccak (net ++ ps' ++ pv' ++ pid))).
  Proof.
    unfold AddrXmr.encode_key.
    destruct (match payid with Some p => (length p =? xmr_payid_len)%nat | None => true end) eqn:Ep; [|discriminate].
    destruct (pub_from_bytes G pdec ps) as [ps'|] eqn:E1; [|discriminate]. cbn [bind].
    destruct (pub_from_bytes G pdec pv) as [pv'|] eqn:E2; [|discriminate]. cbn [bind].
    intros H; inversion H; subst; clear H.
    exists ps', pv', (match payid with Some p => p | None => [] end).
    repeat split; auto. destruct payid; [apply Nat.eqb_eq in Ep; exact Ep|exact I].
  Qed.

  (* decoding the address bytes built from two valid keys *)
  Lemma decode_addr_bytes net ps pv pid payid P Q :
    bytes_ok net -> bytes_ok ps -> bytes_ok pv -> bytes_ok pid ->
    length ps = 32%nat -> length pv = 32%nat -> pdec ps = Some P -> pdec pv = Some Q ->
    ((pid = [] /\ payid = None) \/ (length pid = xmr_payid_len /\ payid = Some pid)) ->
    decode_addr (b58x_encode (addr_bytes net ps pv pid)) net payid = Ok (ps ++ pv).
  Proof.
    intros Hn Hs Hv Hp Ls Lv Ds Dv Hpid. unfold AddrXmr.decode_addr, AddrXmr.addr_bytes.
    set (payload := net ++ ps ++ pv ++ pid).
    assert (Hpl : bytes_ok payload).
    { unfold payload. repeat (apply bytes_ok_app; split); auto. }
    rewrite b58x_decode_encode by (apply bytes_ok_app; split; [exact Hpl|apply checksum_ok]).
    rewrite bind_ok.
    rewrite (drop_last_app' xmr_addr_cklen payload _ (checksum_length payload)).
    rewrite (take_last_app' xmr_addr_cklen payload _ (checksum_length payload)).
    rewrite list_eqb_refl.
    assert (F : firstn (length net) payload = net).
    { unfold payload. rewrite firstn_app, Nat.sub_diag, firstn_all. simpl. apply app_nil_r. }
    rewrite F, list_eqb_refl.
    assert (S : skipn (length net) payload = ps ++ pv ++ pid).
    { unfold payload. rewrite skipn_app, Nat.sub_diag, skipn_all. reflexivity. }
    rewrite S. rewrite ed_pub_len_32.
    assert (Fs : firstn 32 (ps ++ pv ++ pid) = ps).
    { rewrite <- Ls. rewrite firstn_app, Nat.sub_diag, firstn_all. simpl. apply app_nil_r. }
    assert (Fv : slice 32 (2 * 32) (ps ++ pv ++ pid) = pv).
    { unfold slice. rewrite <- Ls at 3. rewrite skipn_app, Nat.sub_diag, skipn_all. simpl app.
      replace (2 * 32 - 32)%nat with (length pv) by lia.
      rewrite firstn_app, Nat.sub_diag, firstn_all. simpl. apply app_nil_r. }
    rewrite Fs, Fv.
    rewrite (pub_is_valid_32 G pdec ps P Ls Ds), (pub_is_valid_32 G pdec pv Q Lv Dv).
    assert (LB : length (ps ++ pv ++ pid) = (64 + length pid)%nat) by (rewrite !app_length; lia).
    rewrite LB.
    destruct Hpid as [[-> ->]|[Lp ->]].
    - simpl. reflexivity.
    - rewrite Lp, Nat.eqb_refl. pose proof xmr_payid_len_8 as P8. rewrite P8.
      replace (64 + 8 =? 2 * 32 + 8)%nat with true by reflexivity.
      rewrite <- P8, <- Lp.
      replace (take_last (length pid) (ps ++ pv ++ pid)) with pid.
      2:{ rewrite app_assoc. symmetry. apply take_last_app. }
      rewrite list_eqb_refl. reflexivity.
  Qed.

  (* decode after encode, from the raw key bytes handed to the encoder *)
  Theorem decode_encode_key ps pv net payid s :
    bytes_ok net -> bytes_ok ps -> bytes_ok pv ->
    (match payid with Some p => bytes_ok p | None => True end) ->
    encode_key ps pv net payid = Ok s ->
    decode_addr s net payid = Ok (strip_pub_prefix ps ++ strip_pub_prefix pv).
  Proof.
    intros Hn Hs Hv Hp E. destruct (encode_key_layout _ _ _ _ _ E) as (ps' & pv' & pid & E1 & E2 & Epid & Lpid & ->).
    destruct (pub_from_bytes_ok G pdec _ _ E1) as (-> & L1 & P & D1).
    destruct (pub_from_bytes_ok G pdec _ _ E2) as (-> & L2 & Q & D2).
    assert (S1 : forall b, bytes_ok b -> bytes_ok (strip_pub_prefix b)).
    { intros b Hb. unfold strip_pub_prefix. destruct (_ && _); [|exact Hb]. destruct b; [exact Hb|]. inversion Hb; auto. }
    apply (decode_addr_bytes net _ _ pid payid P Q); auto.
    - subst pid. destruct payid; [exact Hp|constructor].
    - subst pid. destruct payid as [p|]; [right; split; auto|left; split; reflexivity].
  Qed.

  (* every refusal of the decoder is a ValueError *)
  Theorem decode_addr_err s net payid e : decode_addr s net payid = Err e -> e = ValueError \/ e = OutOfFuel.
  Proof.
    unfold AddrXmr.decode_addr. destruct (b58x_decode s) as [d|e0] eqn:E; cbn [bind].
    - intros H. left.
      destruct (list_eqb _ _); [|inversion H; auto].
      destruct (list_eqb _ _); [|inversion H; auto].
      match type of H with bind ?x _ = _ => destruct x as [[]|e1] eqn:E1 end; cbn [bind] in H.
      + destruct (pub_is_valid _ _ _); [|inversion H; auto].
        destruct (pub_is_valid _ _ _); [|inversion H; auto]. discriminate.
      + inversion H; subst. clear H. destruct payid as [p|].
        * destruct (_ =? _)%nat; [|inversion E1; auto].
          destruct (_ =? _)%nat; [|inversion E1; auto].
          destruct (list_eqb _ _); [discriminate|inversion E1; auto].
        * destruct (_ =? _)%nat; [discriminate|inversion E1; auto].
    - intros H; inversion H; subst.
      eapply (Lemmas.XmrB58.decode_err xb58_alph xb58_radix xb58_block_dec_max xb58_block_enc_max xb58_block_enc_lens); eauto.
      + apply xb58_enc_max_pos.
      + apply xb58_tab_partial.
  Qed.
End AddrXmrProofs.

(* LINK: the tree holds three transcriptions of str.encode("utf-8"): Model/SubstrateScale.v [utf8_encode] (C19, with
   [utf8_correct] / [utf8_injective] proved against an RFC 3629 decoder), Model/MnemText.v [utf8] (C17) and
   Model/Seeds.v [utf8] (C02).  They are one function on every Python string (list of code points below
   0x110000); the first two agree on every list whatever; the third differs from them only in the error class
   it reports for a number that is not a code point (ValueError instead of UnicodeError) -- outside the domain
   of [str].  The C19 theorems therefore hold of all three. *)
From Coq Require Import NArith List Bool Lia.
From BU Require Import Base.Exn Base.Bytes.
From BU Require Model.SubstrateScale Model.MnemText Model.Seeds Lemmas.SubstrateScale.
Import ListNotations.
Open Scope N_scope.

Notation utf8_encode := SubstrateScale.utf8_encode.

Lemma rmap_concat_cons (b : list N) (r : res (list (list N))) :
  rmap (@concat N) (ys <- r ;; Ok (b :: ys)) = (x <- rmap (@concat N) r ;; Ok (b ++ x)).
Proof. destruct r; reflexivity. Qed.

Lemma mnem_cp_eq c : MnemText.utf8_cp c = SubstrateScale.utf8_cp c.
Proof.
  unfold MnemText.utf8_cp, SubstrateScale.utf8_cp.
  change 0x80 with 128. change 0x800 with 2048. change 0x10000 with 65536. change 0x110000 with 1114112.
  change 0xD800 with 55296. change 0xE000 with 57344. change 0xC0 with 192. change 0xE0 with 224. change 0xF0 with 240.
  destruct (c <? 128); [reflexivity|]. destruct (c <? 2048); [reflexivity|]. destruct (c <? 65536); [|reflexivity].
  replace (c <? 57344) with (c <=? 57343); [reflexivity|].
  destruct (N.leb_spec c 57343), (N.ltb_spec c 57344); try reflexivity; lia.
Qed.

Theorem mnem_utf8_eq s : MnemText.utf8 s = utf8_encode s.
Proof.
  unfold MnemText.utf8. induction s as [|c t IH]; [reflexivity|]. cbn [mapM SubstrateScale.utf8_encode].
  rewrite mnem_cp_eq. destruct (SubstrateScale.utf8_cp c) as [b|e]; [|reflexivity]. cbn [bind].
  rewrite rmap_concat_cons, IH. reflexivity.
Qed.

Lemma seeds_cp_eq c : c < 1114112 -> Seeds.utf8_char c = SubstrateScale.utf8_cp c.
Proof.
  intros H. unfold Seeds.utf8_char, SubstrateScale.utf8_cp.
  destruct (N.ltb_spec c 128); [reflexivity|]. destruct (N.ltb_spec c 2048); [reflexivity|].
  destruct (N.ltb_spec c 65536).
  - reflexivity.
  - replace ((55296 <=? c) && (c <=? 57343)) with false.
    2:{ symmetry. apply andb_false_iff. right. apply N.leb_gt. lia. }
    destruct (N.ltb_spec c 1114112); [reflexivity|lia].
Qed.

Theorem seeds_utf8_eq s : Forall (fun c => c < 1114112) s -> Seeds.utf8 s = utf8_encode s.
Proof.
  unfold Seeds.utf8. induction 1 as [|c t Hc Ht IH]; [reflexivity|]. cbn [mapM SubstrateScale.utf8_encode].
  rewrite seeds_cp_eq by exact Hc. destruct (SubstrateScale.utf8_cp c) as [b|e]; [|reflexivity]. cbn [bind].
  rewrite rmap_concat_cons, IH. reflexivity.
Qed.

(* the only disagreement: the error class for a number beyond the code space (no Python str contains one) *)
Example seeds_utf8_differs_outside_str :
  Seeds.utf8 [1114112] = Err ValueError /\ utf8_encode [1114112] = Err UnicodeError /\ MnemText.utf8 [1114112] = Err UnicodeError.
Proof. repeat split. Qed.

(* ---- transported: the encoders of C02 and C17 are RFC 3629 and injective *)
Theorem mnem_utf8_inj s1 s2 b : MnemText.utf8 s1 = Ok b -> MnemText.utf8 s2 = Ok b -> s1 = s2.
Proof. rewrite !mnem_utf8_eq. apply Lemmas.SubstrateScale.utf8_encode_inj. Qed.

Theorem seeds_utf8_inj s1 s2 b : Forall (fun c => c < 1114112) s1 -> Forall (fun c => c < 1114112) s2 ->
  Seeds.utf8 s1 = Ok b -> Seeds.utf8 s2 = Ok b -> s1 = s2.
Proof. intros H1 H2. rewrite !seeds_utf8_eq by assumption. apply Lemmas.SubstrateScale.utf8_encode_inj. Qed.

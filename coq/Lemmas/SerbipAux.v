(* General list / fixed-width integer lemmas used by the C05, C13 and C20 proofs. *)
From Coq Require Import NArith ZArith Arith List Lia Bool.
From BU Require Import Base.Exn Base.Radix Base.Bytes.
Import ListNotations.
Open Scope N_scope.

(* ---- slices ---- *)
Lemma slice_length i j (l : list N) : (j <= length l)%nat -> length (slice i j l) = (j - i)%nat.
Proof. intros H. unfold slice. rewrite firstn_length, skipn_length. lia. Qed.

Lemma skipn_add {A} i k (l : list A) : skipn k (skipn i l) = skipn (k + i) l.
Proof.
  revert l. induction i as [|i IH]; intros l.
  - rewrite Nat.add_0_r. reflexivity.
  - rewrite Nat.add_succ_r. destruct l as [|x l]; simpl; [apply skipn_nil|apply IH].
Qed.

Lemma slice_split i j (l : list N) : (i <= j)%nat -> skipn i l = slice i j l ++ skipn j l.
Proof.
  intros H. unfold slice. replace j with ((j - i) + i)%nat at 2 by lia.
  rewrite <- skipn_add. symmetry. apply firstn_skipn.
Qed.

Lemma slice_0 j (l : list N) : slice 0 j l = firstn j l.
Proof. unfold slice. rewrite Nat.sub_0_r. reflexivity. Qed.

Lemma slice_nth i x (l : list N) : nth_error l i = Some x -> slice i (S i) l = [x].
Proof.
  unfold slice. replace (S i - i)%nat with 1%nat by lia.
  revert l. induction i as [|i IH]; intros [|y l] E; simpl in *; try discriminate.
  - inversion E; reflexivity.
  - apply IH; exact E.
Qed.

Lemma nth_error_skipn0 k (l : list N) : nth_error (skipn k l) 0 = nth_error l k.
Proof.
  revert l; induction k as [|k IH]; intros l; [reflexivity|].
  destruct l as [|x l]; [reflexivity|].
  change (skipn (S k) (x :: l)) with (skipn k l). rewrite IH. reflexivity.
Qed.

Lemma app_inj_len {A} (a a' b b' : list A) : length a = length a' -> a ++ b = a' ++ b' -> a = a' /\ b = b'.
Proof.
  revert a'. induction a as [|x a IH]; intros [|y a'] L E; simpl in *; try discriminate; auto.
  inversion E; subst. destruct (IH a') as [-> ->]; auto.
Qed.

Lemma bytes_ok_slice i j l : bytes_ok l -> bytes_ok (slice i j l).
Proof. intros H. unfold slice. apply bytes_ok_firstn, bytes_ok_skipn, H. Qed.

Lemma list_eqb_false a b : a <> b -> list_eqb a b = false.
Proof. intros H. destruct (list_eqb a b) eqn:E; auto. apply list_eqb_spec in E. contradiction. Qed.

Lemma firstn_app_exact {A} (a b : list A) n : n = length a -> firstn n (a ++ b) = a.
Proof. intros ->. rewrite firstn_app, Nat.sub_diag, firstn_all. simpl. apply app_nil_r. Qed.
Lemma skipn_app_exact {A} (a b : list A) n : n = length a -> skipn n (a ++ b) = b.
Proof. intros ->. rewrite skipn_app, Nat.sub_diag, skipn_all. reflexivity. Qed.

(* ---- fixed-width big-endian integers ---- *)
Lemma int_to_be_fixed_ok w v b : int_to_be_fixed w v = Ok b -> bytes_ok b /\ length b = w /\ be_to_int b = v.
Proof.
  unfold int_to_be_fixed. destruct (int_to_le_fixed w v) as [l|] eqn:E; simpl; [|discriminate].
  intros H; inversion H; subst; clear H. apply int_to_le_fixed_ok in E. destruct E as (E1 & E2 & E3).
  split; [apply bytes_ok_rev; auto|]. split; [rewrite rev_length; auto|].
  unfold be_to_int, from_be. rewrite rev_involutive. exact E3.
Qed.

Lemma int_to_be_fixed_fits w v : v < 256 ^ N.of_nat w -> exists b, int_to_be_fixed w v = Ok b.
Proof.
  intros H. destruct (int_to_le_fixed_fits w v H) as [b E]. unfold int_to_be_fixed. rewrite E.
  exists (rev b). reflexivity.
Qed.

Lemma int_to_be_fixed_overflow w v : 256 ^ N.of_nat w <= v -> int_to_be_fixed w v = Err OverflowError.
Proof.
  intros H. unfold int_to_be_fixed, int_to_le_fixed.
  destruct (Nat.leb_spec (length (to_le 256 v)) w) as [L|L]; [|reflexivity].
  exfalso. pose proof (from_le_lt 256 r256 _ (to_le_digits 256 r256 v)) as B.
  rewrite (from_to_le 256 r256) in B.
  assert (256 ^ N.of_nat (length (to_le 256 v)) <= 256 ^ N.of_nat w) by (apply N.pow_le_mono_r; lia).
  lia.
Qed.

Lemma be_to_int_lt b : bytes_ok b -> be_to_int b < 256 ^ N.of_nat (length b).
Proof.
  intros H. unfold be_to_int, from_be. rewrite <- rev_length. apply (from_le_lt 256 r256).
  apply bytes_ok_rev; auto.
Qed.

Lemma be_to_int_1 x : be_to_int [x] = x.
Proof. unfold be_to_int, from_be. cbn [rev app from_le]. lia. Qed.

Lemma be_fixed_1 x : x < 256 -> int_to_be_fixed 1 x = Ok [x].
Proof.
  intros H. rewrite <- (be_to_int_1 x) at 1. apply (be_fixed_roundtrip [x]). constructor; auto.
Qed.

(* the four big-endian bytes of a 32-bit value, written out *)
Definition be32 (i : N) : list N := [i / 16777216; (i / 65536) mod 256; (i / 256) mod 256; i mod 256].

Lemma be32_ok i : i < 4294967296 -> bytes_ok (be32 i) /\ be_to_int (be32 i) = i.
Proof.
  intros H. split.
  - unfold be32. repeat constructor; try (apply N.mod_lt; lia).
    apply N.div_lt_upper_bound; lia.
  - unfold be32, be_to_int, from_be. cbn [rev app from_le].
    pose proof (N.div_mod i 256 ltac:(lia)) as A.
    pose proof (N.div_mod (i / 256) 256 ltac:(lia)) as B.
    pose proof (N.div_mod (i / 65536) 256 ltac:(lia)) as C.
    replace (i / 256 / 256) with (i / 65536) in B by (rewrite N.div_div by lia; reflexivity).
    replace (i / 65536 / 256) with (i / 16777216) in C by (rewrite N.div_div by lia; reflexivity).
    lia.
Qed.

Lemma int_to_be_fixed_be32 i : i < 4294967296 -> int_to_be_fixed 4 i = Ok (be32 i).
Proof.
  intros H. destruct (be32_ok i H) as [A B]. rewrite <- B at 1. apply (be_fixed_roundtrip (be32 i) A).
Qed.

(* LINK: Cardano Byron addresses with the model's oracles replaced by concrete functions --
   [crc32] := Model/MnemText.crc32 (binascii.crc32, pure arithmetic) and the three cbor2 parse oracles := the CBOR
   readers of Lemmas/CborEnc.v (toy_parse_outer / toy_parse_payload / toy_parse_bytes: RFC 8949 heads, exactly one item
   of the address shape, nothing after it).  The parse laws that Lemmas/AddrAdaByron.v ASSUMES of cbor2 are theorems
   about these readers, and CRC-32 values fit 32 bits, so decode-after-encode holds with the hash-length laws as the
   only hypotheses; the acceptance characterisation of Lemmas/AddrAcceptAda.v specialises to them. *)
From Coq Require Import NArith Arith List Lia Bool.
From BU Require Import Base.Exn Base.Radix Base.Bytes Gen.Consts Gen.ConstsCardmon.
From BU Require Import Model.CborEnc Model.AddrAdaByron.
From BU Require Model.MnemText.
From BU Require Import Lemmas.CborEnc Lemmas.CardmonConstsOk.
From BU Require Lemmas.AddrAdaByron Lemmas.AddrAcceptAda.
Import ListNotations.
Open Scope N_scope.

(* ---- CRC-32 stays below 2^32 ---- *)
Definition fits32 (x : N) : Prop := N.shiftr x 32 = 0.

Lemma fits32_lt x : fits32 x -> x < 2 ^ 32.
Proof.
  unfold fits32. intros H. apply N.shiftr_eq_0_iff in H. destruct H as [->|[P L]]; [reflexivity|].
  apply N.log2_lt_pow2; assumption.
Qed.

Lemma fits32_lxor a b : fits32 a -> fits32 b -> fits32 (N.lxor a b).
Proof. unfold fits32. intros Ha Hb. rewrite N.shiftr_lxor, Ha, Hb. reflexivity. Qed.

Lemma fits32_shiftr1 a : fits32 a -> fits32 (N.shiftr a 1).
Proof.
  unfold fits32. intros Ha. rewrite N.shiftr_shiftr, N.add_comm, <- N.shiftr_shiftr, Ha. reflexivity.
Qed.

Lemma crc32_bits_fits k : forall c, fits32 c -> fits32 (MnemText.crc32_bits k c).
Proof.
  induction k as [|k IH]; intros c H; cbn [MnemText.crc32_bits]; [exact H|]. apply IH.
  destruct (N.odd c); [apply fits32_lxor; [apply fits32_shiftr1; exact H|reflexivity]|apply fits32_shiftr1; exact H].
Qed.

Lemma crc32_fold_fits bs : bytes_ok bs -> forall c, fits32 c -> fits32 (fold_left MnemText.crc32_byte bs c).
Proof.
  induction 1 as [|b t Hb Ht IH]; intros c H; cbn [fold_left]; [exact H|]. apply IH.
  unfold MnemText.crc32_byte. apply crc32_bits_fits, fits32_lxor; [exact H|].
  unfold fits32. apply N.shiftr_eq_0_iff. destruct (N.eq_dec b 0) as [->|Nz]; [left; reflexivity|right].
  split; [lia|]. apply N.log2_lt_pow2; [lia|]. change (2 ^ 32) with 4294967296. lia.
Qed.

Theorem crc32_lt bs : bytes_ok bs -> MnemText.crc32 bs < 2 ^ 32.
Proof.
  intros H. apply fits32_lt. unfold MnemText.crc32. apply fits32_lxor; [|reflexivity].
  apply crc32_fold_fits; [exact H|reflexivity].
Qed.

(* ---- the linked decoder ---- *)
Definition byron_decode_c : list N -> res (list N) :=
  decode_addr MnemText.crc32 toy_parse_outer toy_parse_payload toy_parse_bytes.
Definition byron_encode_key_c (sha3_256 blake2b_224 : list N -> list N) :=
  encode_key sha3_256 blake2b_224 MnemText.crc32.

(* acceptance, with nothing abstract left but the shape readers' own definitions *)
Theorem byron_decode_c_accepts_iff s out :
  byron_decode_c s = Ok out <->
  exists ser value rh attr1 enc,
    b58dec s = Ok ser /\ toy_parse_outer ser = Some (ada_byron_payload_tag, value, MnemText.crc32 value) /\
    toy_parse_payload value = Some (rh, attr1, ada_byron_type_pubkey) /\ length rh = ada_keyhash_len /\
    match attr1 with Some v => toy_parse_bytes v = enc /\ enc <> None | None => enc = None end /\
    out = rh ++ Lemmas.AddrAcceptAda.enc_tail enc.
Proof. apply Lemmas.AddrAcceptAda.byron_decode_accepts_iff. Qed.

(* ---- decode after encode, the only hypotheses left being the length / byte laws of BLAKE2b-224 ---- *)
Section RoundTrip.
  Variables sha3_256 blake2b_224 : list N -> list N.
  Hypothesis blake_len : forall x, length (blake2b_224 x) = 28%nat.
  Hypothesis blake_ok : forall x, bytes_ok (blake2b_224 x).

  Lemma payload_ok rh enc ty : bytes_ok rh -> (match enc with Some e => bytes_ok e | None => True end) ->
    bytes_ok (payload_cbor rh enc ty).
  Proof.
    intros H1 H2. unfold payload_cbor. apply cbor_array_ok.
    apply Forall_cons; [apply cbor_bytes_ok; exact H1|].
    apply Forall_cons; [apply Lemmas.AddrAdaByron.attrs_ok; exact H2|].
    apply Forall_cons; [apply cbor_uint_ok|apply Forall_nil].
  Qed.

  Theorem byron_decode_encode_c pub cc enc : Lemmas.AddrAdaByron.enc_ok enc ->
    byron_decode_c (byron_encode_key_c sha3_256 blake2b_224 pub cc enc) =
      Ok (root_hash sha3_256 blake2b_224 ada_byron_type_pubkey (pub ++ cc) enc ++ Lemmas.AddrAcceptAda.enc_tail enc).
  Proof.
    intros He. unfold byron_decode_c, byron_encode_key_c, AddrAdaByron.decode_addr, AddrAdaByron.encode_key.
    set (rh := root_hash sha3_256 blake2b_224 ada_byron_type_pubkey (pub ++ cc) enc).
    assert (Lrh : length rh = 28%nat) by (unfold rh, AddrAdaByron.root_hash; apply blake_len).
    assert (Brh : bytes_ok rh) by (unfold rh, AddrAdaByron.root_hash; apply blake_ok).
    assert (He1 : match enc with Some e => bytes_ok e | None => True end) by (destruct enc; [apply He|exact I]).
    assert (He2 : match enc with Some e => (length e < 4000)%nat | None => True end) by (destruct enc; [apply He|exact I]).
    set (pl := payload_cbor rh enc ada_byron_type_pubkey).
    assert (Bpl : bytes_ok pl) by (apply payload_ok; assumption).
    assert (Lpl : (length pl < 4096)%nat) by (apply Lemmas.AddrAdaByron.payload_length; [exact Lrh|reflexivity|exact He2]).
    rewrite Lemmas.AddrAdaByron.b58_rt by (apply Lemmas.AddrAdaByron.addr_cbor_ok; assumption). cbn [bind Ok Err].
    unfold addr_cbor.
    rewrite (toy_parse_outer_enc MnemText.crc32 ada_byron_payload_tag pl Lpl eq_refl).
    2:{ pose proof (crc32_lt pl Bpl). assert (2 ^ 32 < 2 ^ 64) by reflexivity. lia. }
    cbn [of_option bind Ok Err]. rewrite !N.eqb_refl.
    unfold pl. rewrite toy_parse_payload_enc by (first [exact He2 | rewrite Lrh; lia | reflexivity]).
    cbn [of_option bind Ok Err]. rewrite Lrh, ada_keyhash_len_28. cbn [Nat.eqb].
    destruct enc as [e|]; cbn [option_map Lemmas.AddrAcceptAda.enc_tail].
    - rewrite toy_parse_bytes_enc by lia. cbn [of_option rmap bind Ok Err]. rewrite N.eqb_refl. reflexivity.
    - cbn [bind Ok Err]. rewrite N.eqb_refl. rewrite app_nil_r. reflexivity.
  Qed.
End RoundTrip.

(* the readers are strict about what follows the item and lenient about head widths: the two facts behind
   Props/C10.v ada_byron_canonical_refuted, on the REAL CRC-32 *)
Theorem byron_c_trailing_rejected_nonminimal_accepted : exists s1 s2 s3 out,
  s2 <> s1 /\ byron_decode_c s1 = Ok out /\ byron_decode_c s2 = Ok out /\ byron_decode_c s3 = Err ValueError /\
  b58dec s3 = rmap (fun b => b ++ [0]) (b58dec s1).
Proof.
  set (pl := payload_cbor (repeat 0 28) None ada_byron_type_pubkey).
  exists (b58enc (addr_cbor MnemText.crc32 pl)),
         (b58enc (cbor_head 4 2 ++ cbor_tag ada_byron_payload_tag (cbor_bytes pl) ++ [27] ++ be_pad 8 (MnemText.crc32 pl))),
         (b58enc (addr_cbor MnemText.crc32 pl ++ [0])), (repeat 0 28).
  split; [vm_compute; discriminate|]. repeat split; vm_compute; reflexivity.
Qed.

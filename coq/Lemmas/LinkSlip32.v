(* LINK: SLIP-32 (Model/Slip32.v, Lemmas/Slip32.v) on the concrete Bech32 codec (Model/Bech32.v, Lemmas/Bech32.v).

   Lemmas/Slip32.v assumed of an abstract codec
       forall hrp d, bytes_ok d -> dec hrp (enc hrp d) = Ok d        (for EVERY hrp, total encoder)
   which the real codec does not satisfy (Lemmas/LinkBech32.v: an upper-case or empty HRP is encoded but
   refused on the way back -- and Slip32KeyNetVersions accepts any two strings).  The law that is true is
   restricted to well-formed HRPs [good]; the round trips are re-proved under that law for a [res]-valued
   encoder (first section), then the law is discharged from Lemmas/Bech32.v (second part).  The remaining
   theorems have no hypothesis at all: SLIP-32 involves no hash. *)
From Coq Require Import NArith ZArith Arith List Lia Bool.
From BU Require Import Base.Exn Base.Radix Base.Bytes Gen.SerbipConsts Model.Bip32Data Model.Slip32 Model.Bech32
  Model.LinkSlip32.
From BU Require Import Lemmas.SerbipAux Lemmas.SerbipConstsOk.
From BU Require Lemmas.Slip32 Lemmas.Bech32 Lemmas.LinkBech32.
Import ListNotations.
Open Scope N_scope.

Notation path_ok := Lemmas.Slip32.path_ok.
Notation slip32_layout := Lemmas.Slip32.slip32_layout.
Notation slip32_ver_ok := Lemmas.Slip32.slip32_ver_ok.

Section Restricted.
  Variable bech_enc : list N -> list N -> res (list N).
  Variable bech_dec : list N -> list N -> res (list N).
  Variable good : list N -> Prop.                      (* the HRPs for which the codec round-trips *)

  Hypothesis dec_enc : forall hrp d s, good hrp -> bytes_ok d -> d <> [] ->
    bech_enc hrp d = Ok s -> bech_dec hrp s = Ok d.
  Hypothesis enc_prefix : forall hrp d s, bech_enc hrp d = Ok s -> firstn (length hrp) s = hrp.

  Notation ser_priv := (slip32_ser_priv_r bech_enc).
  Notation ser_pub := (slip32_ser_pub_r bech_enc).
  Notation deser := (slip32_deserialize bech_dec).

  Lemma layout_nonempty path cc key : slip32_layout path cc key <> [].
  Proof. unfold Lemmas.Slip32.slip32_layout. cbn [app]. discriminate. Qed.

  Lemma get_if_public_priv_r v d s : slip32_ver_ok v -> bech_enc (snd v) d = Ok s -> slip32_get_if_public s v = Ok false.
  Proof.
    intros [L Hne] E. unfold slip32_get_if_public. rewrite L, (enc_prefix _ _ _ E).
    rewrite list_eqb_false by congruence. rewrite list_eqb_refl. reflexivity.
  Qed.
  Lemma get_if_public_pub_r v d s : bech_enc (fst v) d = Ok s -> slip32_get_if_public s v = Ok true.
  Proof. intros E. unfold slip32_get_if_public. rewrite (enc_prefix _ _ _ E), list_eqb_refl. reflexivity. Qed.

  Theorem roundtrip_priv_r v path cc raw s :
    slip32_ver_ok v -> good (snd v) -> path_ok path -> length cc = 32%nat -> bytes_ok cc -> bytes_ok raw ->
    ser_priv v path cc raw = Ok s -> deser s v = Ok (raw, path, cc, false).
  Proof.
    intros Hv Hg Hp Lc Hc Hr E. unfold slip32_ser_priv_r, slip32_serialize_r in E.
    rewrite Lemmas.Slip32.slip32_payload_layout in E by auto. cbn [bind Ok] in E.
    destruct c_slip32_pad as [P _]. rewrite P in E.
    unfold slip32_deserialize. rewrite (get_if_public_priv_r v _ s Hv E). cbn [bind Ok].
    assert (B : bytes_ok (0 :: raw)) by (constructor; [lia|exact Hr]).
    rewrite (dec_enc _ _ _ Hg (Lemmas.Slip32.slip32_layout_ok path cc (0 :: raw) Hp Hc B) (layout_nonempty _ _ _) E).
    cbn [bind Ok]. rewrite Lemmas.Slip32.slip32_parts_layout by auto. reflexivity.
  Qed.

  Theorem roundtrip_pub_r v path cc pk s :
    good (fst v) -> path_ok path -> length cc = 32%nat -> bytes_ok cc -> bytes_ok pk ->
    ser_pub v path cc pk = Ok s -> deser s v = Ok (pk, path, cc, true).
  Proof.
    intros Hg Hp Lc Hc Hr E. unfold slip32_ser_pub_r, slip32_serialize_r in E.
    rewrite Lemmas.Slip32.slip32_payload_layout in E by auto. cbn [bind Ok] in E.
    unfold slip32_deserialize. rewrite (get_if_public_pub_r v _ s E). cbn [bind Ok].
    rewrite (dec_enc _ _ _ Hg (Lemmas.Slip32.slip32_layout_ok path cc pk Hp Hc Hr) (layout_nonempty _ _ _) E).
    cbn [bind Ok]. rewrite Lemmas.Slip32.slip32_parts_layout by auto. reflexivity.
  Qed.

  (* the byte layout handed to the encoder *)
  Theorem ser_layout_r v path cc raw : path_ok path -> length cc = 32%nat ->
    ser_priv v path cc raw = bech_enc (snd v) (slip32_layout path cc (0 :: raw)).
  Proof.
    intros Hp Lc. unfold slip32_ser_priv_r, slip32_serialize_r. destruct c_slip32_pad as [P _]. rewrite P.
    rewrite Lemmas.Slip32.slip32_payload_layout by auto. reflexivity.
  Qed.

  (* F12 shape: a private payload that stops after the chain code *)
  Theorem short_payload_r v cc s : slip32_ver_ok v -> good (snd v) -> length cc = 32%nat -> bytes_ok cc ->
    bech_enc (snd v) (0 :: cc) = Ok s -> deser s v = Err ValueError.
  Proof.
    intros Hv Hg Lc Hc E. unfold slip32_deserialize. rewrite (get_if_public_priv_r v _ s Hv E). cbn [bind Ok].
    assert (B : bytes_ok (0 :: cc)) by (constructor; [lia|exact Hc]).
    assert (NE : 0 :: cc <> []) by discriminate.
    rewrite (dec_enc _ _ _ Hg B NE E). cbn [bind Ok].
    replace (0 :: cc) with (slip32_layout [] cc [])
      by (unfold Lemmas.Slip32.slip32_layout; cbn [length N.of_nat map concat app]; rewrite app_nil_r; reflexivity).
    rewrite Lemmas.Slip32.slip32_parts_layout; [reflexivity| |auto]. split; [cbn; lia|constructor].
  Qed.
End Restricted.

(* the old model is the special case of a total encoder *)
Lemma ser_priv_r_total enc v path cc raw :
  slip32_ser_priv_r (fun h d => Ok (enc h d)) v path cc raw = slip32_ser_priv enc v path cc raw.
Proof. reflexivity. Qed.
Lemma ser_pub_r_total enc v path cc pk :
  slip32_ser_pub_r (fun h d => Ok (enc h d)) v path cc pk = slip32_ser_pub enc v path cc pk.
Proof. reflexivity. Qed.

(* ------------------------------------------------------------------ on Model/Bech32.v *)
Notation hrp_enc_ok := Lemmas.Bech32.hrp_enc_ok.

(* "xpub" / "xprv" *)
Lemma slip32_std_hrps_ok : hrp_enc_ok slip32_std_pub /\ hrp_enc_ok slip32_std_priv.
Proof. split; apply LinkBech32.hrp_enc_okb_sound; vm_compute; reflexivity. Qed.

Definition ver_hrps_ok (v : slip32_ver) : Prop := hrp_enc_ok (fst v) /\ hrp_enc_ok (snd v).

Theorem slip32c_roundtrip_priv v path cc raw s :
  slip32_ver_ok v -> hrp_enc_ok (snd v) -> path_ok path -> length cc = 32%nat -> bytes_ok cc -> bytes_ok raw ->
  slip32c_ser_priv v path cc raw = Ok s -> slip32c_deserialize s v = Ok (raw, path, cc, false).
Proof.
  apply (roundtrip_priv_r bech32_encode bech32_decode hrp_enc_ok LinkBech32.bech32_rt LinkBech32.bech32_encode_prefix).
Qed.

Theorem slip32c_roundtrip_pub v path cc pk s :
  hrp_enc_ok (fst v) -> path_ok path -> length cc = 32%nat -> bytes_ok cc -> bytes_ok pk ->
  slip32c_ser_pub v path cc pk = Ok s -> slip32c_deserialize s v = Ok (pk, path, cc, true).
Proof.
  apply (roundtrip_pub_r bech32_encode bech32_decode hrp_enc_ok LinkBech32.bech32_rt LinkBech32.bech32_encode_prefix).
Qed.

(* ... and serialisation of well-formed parts never fails, so the round trips are not vacuous *)
Theorem slip32c_ser_priv_total v path cc raw : path_ok path -> length cc = 32%nat -> bytes_ok cc -> bytes_ok raw ->
  exists s, slip32c_ser_priv v path cc raw = Ok s.
Proof.
  intros Hp Lc Hc Hr. unfold slip32c_ser_priv. rewrite (ser_layout_r bech32_encode v path cc raw Hp Lc).
  apply LinkBech32.bech32_encode_total. apply Lemmas.Slip32.slip32_layout_ok; auto. constructor; [lia|exact Hr].
Qed.
Theorem slip32c_ser_pub_total v path cc pk : path_ok path -> length cc = 32%nat -> bytes_ok cc -> bytes_ok pk ->
  exists s, slip32c_ser_pub v path cc pk = Ok s.
Proof.
  intros Hp Lc Hc Hr. unfold slip32c_ser_pub, slip32_ser_pub_r, slip32_serialize_r.
  rewrite Lemmas.Slip32.slip32_payload_layout by auto. cbn [bind Ok].
  apply LinkBech32.bech32_encode_total. apply Lemmas.Slip32.slip32_layout_ok; auto.
Qed.

Theorem slip32c_ser_layout v path cc raw : path_ok path -> length cc = 32%nat ->
  slip32c_ser_priv v path cc raw = bech32_encode (snd v) (slip32_layout path cc (0 :: raw)).
Proof. apply ser_layout_r. Qed.

(* the deserialiser refuses with ValueError or Bech32ChecksumError, nothing else, on every string and for
   every pair of net-version strings *)
Theorem slip32c_errors v s e : slip32c_deserialize s v = Err e -> e = ValueError \/ e = LibError Bech32ChecksumError.
Proof.
  intros H. destruct (Lemmas.Slip32.slip32_errors bech32_decode LinkBech32.bech32_decode_bytes v s e H) as [->|(hrp & D)].
  - left. reflexivity.
  - exact (Lemmas.Bech32.bech32_decode_err hrp s e D).
Qed.

Theorem slip32c_short_payload v cc s : slip32_ver_ok v -> hrp_enc_ok (snd v) -> length cc = 32%nat -> bytes_ok cc ->
  bech32_encode (snd v) (0 :: cc) = Ok s -> slip32c_deserialize s v = Err ValueError.
Proof.
  apply (short_payload_r bech32_encode bech32_decode hrp_enc_ok LinkBech32.bech32_rt LinkBech32.bech32_encode_prefix).
Qed.

(* canonicity inherited from the codec: an accepted string is, up to case, the serialisation of what it
   decodes to (public branch: the key bytes are the whole tail) *)
Theorem slip32c_deser_then_ser_pub v s pk path cc :
  slip32c_deserialize s v = Ok (pk, path, cc, true) ->
  exists ser, bech32_decode (fst v) s = Ok ser /\ bech32_encode (fst v) ser = Ok (Bech32Str.py_lower s).
Proof.
  unfold slip32c_deserialize, slip32_deserialize. destruct (slip32_get_if_public s v) as [[|]|]; cbn [bind Ok]; try discriminate.
  - destruct (bech32_decode (fst v) s) as [ser|] eqn:D; cbn [bind Ok]; [|discriminate]. intros _.
    exists ser. split; [reflexivity|]. apply Lemmas.Bech32.bech32_dec_then_enc. exact D.
  - destruct (bech32_decode (snd v) s) as [ser|]; cbn [bind Ok]; [|discriminate].
    destruct (slip32_parts ser false) as [[[? ?] ?]|]; cbn [bind Ok]; intros H; inversion H.
Qed.

(* the counter-example to the abstract law, at the SLIP-32 level: with net versions ("X", "Y") a public key
   is serialised and the result is refused by the deserialiser *)
Example slip32c_uppercase_hrp_not_roundtrip :
  exists s, slip32c_ser_pub ([88], [89]) [] (repeat 0 32) [2] = Ok s /\ slip32c_deserialize s ([88], [89]) = Err ValueError.
Proof.
  destruct (slip32c_ser_pub ([88], [89]) [] (repeat 0 32) [2]) as [s|e] eqn:E; [|vm_compute in E; discriminate].
  exists s. split; [reflexivity|]. vm_compute in E. inversion E. vm_compute. reflexivity.
Qed.

(* The derivation as the code stands today (no SLIP-0010 re-hash in CkdPriv / CkdPub; defect F1):
   refuted against the standard by an explicit witness, proved conformant on the complement of the
   re-hash condition, and proved equal to the conformant model there. *)
From Coq Require Import NArith Arith List Lia Bool.
From BU Require Import Base.Exn Base.Radix Base.Bytes Model.Group Gen.DerivConsts.
From BU Require Import Model.SpecSlip10 Model.Bip32Slip10.
From BU Require Import Lemmas.DerivAux Lemmas.DerivConstsOk Lemmas.GroupLaws Lemmas.Bip32Slip10.
Import ListNotations.
Open Scope N_scope.

Section Current.
  Variable G : group_ops.
  Variable hmac512 : list N -> list N -> list N.
  Notation n := (order G).
  Hypothesis n_pos : 0 < n.
  Hypothesis n_small : n <= 2 ^ 256.
  Hypothesis HM : hmac_ok hmac512.

  Notation spec_CKDpriv := (CKDpriv hmac512 false n (pt G) point_of ser_c).

  (* the first HMAC of a private child *)
  Definition first_I (kb c : list N) (i : N) : list N :=
    hmac512 c (ckd_data G kb (point_of (be_to_int kb)) i (spec_ser32 i)).

  (* where SLIP-0010's step 5 does not apply, the code's derivation IS the conformant one ... *)
  Theorem current_eq_conformant fuel kb K c i :
    i <= bip32_index_max ->
    let I := hmac512 c (ckd_data G kb K i (spec_ser32 i)) in
    be_to_int (IL I) < n -> (be_to_int (IL I) + be_to_int kb) mod n <> 0 ->
    ckd_priv_ecdsa_current G hmac512 fuel kb K c i = ckd_priv_ecdsa G hmac512 (S fuel) kb K c i.
  Proof.
    intros Hi I Hlt Hnz. unfold ckd_priv_ecdsa_current, ckd_priv_ecdsa.
    rewrite (ser32_spec i Hi), !bind_ok. cbn [ckd_priv_loop]. fold I.
    rewrite !left_half_IL, !right_half_IR.
    destruct (N.leb_spec n (be_to_int (IL I))); [lia|].
    destruct (N.eqb_spec ((be_to_int (IL I) + be_to_int kb) mod n) 0); [contradiction|]. reflexivity.
  Qed.

  (* ... hence conformant with the standard there *)
  Theorem ckd_priv_current_partial fuel kb c i kb' c' :
    bytes_ok kb -> length kb = 32%nat -> i <= bip32_index_max ->
    be_to_int (IL (first_I kb c i)) < n ->
    (be_to_int (IL (first_I kb c i)) + be_to_int kb) mod n <> 0 ->
    ckd_priv_ecdsa_current G hmac512 fuel kb (point_of (be_to_int kb)) c i = Ok (kb', c') ->
    spec_CKDpriv (be_to_int kb) c i (be_to_int kb', c') /\ kb' = spec_ser256 (be_to_int kb').
  Proof.
    intros B L Hi Hlt Hnz E. rewrite (current_eq_conformant fuel kb _ c i Hi Hlt Hnz) in E.
    eapply ckd_priv_ecdsa_sound; eauto.
  Qed.

  (* what the code computes when step 5 applies because the left half is out of range: it reduces
     silently where the standard re-hashes *)
  Lemma current_out_of_range fuel kb K c i : i <= bip32_index_max ->
    let I := hmac512 c (ckd_data G kb K i (spec_ser32 i)) in
    ckd_priv_ecdsa_current G hmac512 fuel kb K c i =
    Ok (spec_ser256 ((be_to_int (IL I) + be_to_int kb) mod n), IR I).
  Proof.
    intros Hi I. unfold ckd_priv_ecdsa_current. rewrite (ser32_spec i Hi), bind_ok. fold I.
    rewrite left_half_IL, right_half_IR, ecdsa_priv_len_32, int_to_be_fixed_ser; [reflexivity|].
    rewrite pow256_32. pose proof (N.mod_lt (be_to_int (IL I) + be_to_int kb) n). lia.
  Qed.

  (* the standard's answer in the one-re-hash situation *)
  Lemma spec_one_rehash kb c i :
    bytes_ok kb -> length kb = 32%nat -> i <= bip32_index_max ->
    let I0 := first_I kb c i in
    let I1 := hmac512 c ([1] ++ IR I0 ++ spec_ser32 i) in
    n <= be_to_int (IL I0) ->
    be_to_int (IL I1) < n -> (be_to_int (IL I1) + be_to_int kb) mod n <> 0 ->
    spec_CKDpriv (be_to_int kb) c i ((be_to_int (IL I1) + be_to_int kb) mod n, IR I1).
  Proof.
    intros B L Hi I0 I1 Hge Hlt Hnz. exists I0. split; [apply ckd_first_spec; assumption|].
    apply ckd_priv_restart; [reflexivity|left; rewrite parse256_be; exact Hge|]. fold I1.
    rewrite <- (parse256_be (IL I1)) in *. apply ckd_priv_valid; [reflexivity|exact Hlt|exact Hnz].
  Qed.
End Current.

(* ---- the witness: an HMAC oracle (64 bytes, as required) whose first output has an out-of-range
   left half and whose re-hash output is fine ---- *)
Definition I_bad : list N := repeat 255 32 ++ repeat 0 32.          (* IL = 2^256 - 1 *)
Definition I_good : list N := repeat 0 31 ++ [1] ++ repeat 0 32.    (* IL = 1 *)
Definition hmac_w (key data : list N) : list N :=
  match data with 1 :: _ => I_good | _ => I_bad end.
Definition kb_w : list N := repeat 0 31 ++ [1].                     (* k_par = 1 *)
Definition c_w : list N := repeat 0 32.
Definition i_w : N := 2 ^ 31.                                        (* m/0' *)

Lemma hmac_w_ok : hmac_ok hmac_w.
Proof.
  split; intros k m; unfold hmac_w; destruct m as [|[|[p|p|]] t]; try reflexivity;
    apply bytes_okb_spec; vm_compute; reflexivity.
Qed.

Lemma kb_w_facts : bytes_ok kb_w /\ length kb_w = 32%nat /\ be_to_int kb_w = 1.
Proof. split; [apply bytes_okb_spec; vm_compute; reflexivity|split; vm_compute; reflexivity]. Qed.

Lemma i_w_le : i_w <= bip32_index_max.
Proof. vm_compute. discriminate. Qed.

Lemma first_I_w G : first_I G hmac_w kb_w c_w i_w = I_bad.
Proof.
  unfold first_I, ckd_data. replace (hardened i_w) with true by (vm_compute; reflexivity).
  rewrite priv_prefix_0. reflexivity.
Qed.

Lemma I_bad_facts : be_to_int (IL I_bad) = 2 ^ 256 - 1 /\ IR I_bad = repeat 0 32.
Proof. split; vm_compute; reflexivity. Qed.
Lemma I_good_facts : be_to_int (IL I_good) = 1 /\ IR I_good = repeat 0 32.
Proof. split; vm_compute; reflexivity. Qed.

Theorem ckd_priv_current_refuted G :
  2 < order G < 2 ^ 256 -> 2 ^ 256 mod order G <> 2 ->
  exists hmac512, hmac_ok hmac512 /\
  exists kb c i r,
    bytes_ok kb /\ length kb = 32%nat /\ 0 < be_to_int kb < order G /\ i <= bip32_index_max /\
    (forall fuel, ckd_priv_ecdsa_current G hmac512 fuel kb (point_of (be_to_int kb)) c i = Ok r) /\
    ~ CKDpriv hmac512 false (order G) (pt G) point_of ser_c (be_to_int kb) c i (be_to_int (fst r), snd r).
Proof.
  intros [Hn1 Hn2] Hne. destruct kb_w_facts as (B & L & V).
  assert (n_pos : 0 < order G) by lia. assert (n_small : order G <= 2 ^ 256) by lia.
  exists hmac_w. split; [exact hmac_w_ok|].
  exists kb_w, c_w, i_w, (spec_ser256 (2 ^ 256 mod order G), repeat 0 32).
  split; [exact B|]. split; [exact L|]. split; [rewrite V; lia|]. split; [exact i_w_le|]. split.
  - intros fuel. rewrite (current_out_of_range G hmac_w n_pos n_small fuel kb_w _ c_w i_w i_w_le).
    fold (first_I G hmac_w kb_w c_w i_w). rewrite first_I_w, V.
    rewrite (proj1 I_bad_facts), (proj2 I_bad_facts).
    replace (2 ^ 256 - 1 + 1) with (2 ^ 256) by reflexivity. reflexivity.
  - cbn [fst snd]. intros S.
    pose proof (spec_one_rehash G hmac_w kb_w c_w i_w B L i_w_le) as R. cbv zeta in R.
    rewrite first_I_w, (proj2 I_bad_facts), (proj1 I_bad_facts) in R.
    change (hmac_w c_w ([1] ++ repeat 0 32 ++ spec_ser32 i_w)) with I_good in R.
    rewrite (proj1 I_good_facts), (proj2 I_good_facts), V in R.
    change (be_to_int kb_w) with 1 in R.
    assert (M2 : (1 + 1) mod order G = 2) by (apply N.mod_small; lia).
    rewrite M2 in R.
    assert (R' : CKDpriv hmac_w false (order G) (pt G) point_of ser_c 1 c_w i_w (2, repeat 0 32)).
    { apply R; [|lia|lia]. set (T := 2 ^ 256) in *. assert (HT : 4 < T) by (vm_compute; reflexivity).
      clearbody T. lia. }
    clear R. rename R' into R. rewrite V in S.
    pose proof (spec_CKDpriv_functional G hmac_w n_pos n_small _ _ _ _ _ S R) as E.
    injection E as E. unfold spec_ser256 in E. rewrite ser_be_value in E; [contradiction|].
    rewrite pow256_32. pose proof (N.mod_lt (2 ^ 256) (order G)). lia.
Qed.

(* instantiated at the two curve orders the library uses (Gen/DerivConsts.v) *)
Lemma orders_witness_ok nn : In nn [secp256k1_order; nist256p1_order] -> 2 ^ 256 mod nn <> 2.
Proof. intros [<-|[<-|[]]]; vm_compute; discriminate. Qed.

(* Proofs about Model/ByronLegacyDeriv.v. *)
From Coq Require Import NArith ZArith Arith List Lia Bool.
From BU Require Import Base.Exn Base.Radix Base.Bytes Gen.ConstsCardmon.
From BU Require Import Model.EdLib Model.CborEnc Model.Bip32Kholaw Model.ByronLegacyDeriv.
From BU Require Import Lemmas.CardmonConstsOk Lemmas.EdLib Lemmas.Tweak Lemmas.Bip32Kholaw.
Import ListNotations.
Open Scope N_scope.

Lemma by_consts : by_seed_len = 32%nat /\ by_zl_mult = 8 /\ by_kl_len = 32%nat /\ by_repeat_idx = 31%nat.
Proof. repeat split; reflexivity. Qed.

Lemma add_no_carry_props a : forall b, length a = length b ->
  length (add_no_carry a b) = length a /\ bytes_ok (add_no_carry a b).
Proof.
  induction a as [|x a IH]; intros [|y b] L; simpl in *; try discriminate; [split; [reflexivity|constructor]|].
  destruct (IH b ltac:(lia)) as [L1 O1]. split; [lia|]. constructor; [apply N.mod_lt; discriminate|exact O1].
Qed.

Section ByronProofs.
  Variable hmac_sha512 : list N -> list N -> list N.
  Variable sha512 : list N -> list N.
  Variable G : Type.
  Variable gadd : G -> G -> G.
  Variable gmul : N -> G -> G.
  Variable gbase : G.
  Variable g_is_zero : G -> bool.
  Variable penc : G -> list N.
  Variable pdec : list N -> option G.

  Hypothesis hmac512_len : forall k m, length (hmac_sha512 k m) = 64%nat.
  Hypothesis hmac512_ok : forall k m, bytes_ok (hmac_sha512 k m).
  Hypothesis sha512_len : forall x, length (sha512 x) = 64%nat.
  Hypothesis sha512_ok : forall x, bytes_ok (sha512 x).
  Hypothesis penc_len : forall P, length (penc P) = 32%nat.
  Hypothesis pdec_penc : forall P, pdec (penc P) = Some P.

  Notation by_hash_repeatedly := (by_hash_repeatedly hmac_sha512 sha512).
  Notation by_master := (by_master hmac_sha512 sha512).
  Notation by_derivator := (by_derivator G gmul gbase g_is_zero penc).
  Notation ckd_priv := (ckd_priv hmac_sha512 G gmul gbase g_is_zero penc).
  Notation ckd_pub := (ckd_pub hmac_sha512 G gadd g_is_zero penc pdec).
  Notation kl_of := Lemmas.Bip32Kholaw.kl_of.
  Notation node_wf := (Lemmas.Bip32Kholaw.node_wf G gmul gbase penc).

  Local Opaque tweak_byte.

  (* the loop returns a tweaked SHA-512 of the left half of some "Root Seed Chain n" HMAC, whose byte 31
     fails the repeat test, together with the right half of that HMAC *)
  Lemma by_hash_repeatedly_spec fuel : forall data itr key cc, by_hash_repeatedly fuel data itr = Ok (key, cc) ->
    exists n, itr <= n /\
      let h := hmac_sha512 data (format_d by_hmac_msg_format n) in
      tweak by_tweak_ops (sha512 (firstn 32 h)) = Ok key /\ cc = skipn 32 h /\
      bits_set by_repeat_idx by_repeat_mask key = Ok false.
  Proof.
    induction fuel as [|f IH]; intros data itr key cc H; cbn [ByronLegacyDeriv.by_hash_repeatedly] in H; [discriminate|].
    unfold halves in H. destruct kh_consts as (HL & _). rewrite HL in H.
    destruct (tweak by_tweak_ops (sha512 (firstn 32 (hmac_sha512 data (format_d by_hmac_msg_format itr))))) as [k1|] eqn:T;
      cbn [bind Ok Err] in H; [|discriminate].
    destruct (bits_set by_repeat_idx by_repeat_mask k1) as [again|] eqn:B; cbn [bind Ok Err] in H; [|discriminate].
    destruct again.
    - destruct (IH _ _ _ _ H) as (n & Hn & R). exists n. split; [lia|exact R].
    - inversion H; subst. exists itr. split; [lia|]. cbv zeta. auto.
  Qed.

  (* master_bits_byron *)
  Theorem by_master_bits fuel seed k cc : by_master fuel seed = Ok (k, cc) ->
    length seed = 32%nat /\ length k = 64%nat /\ length cc = 32%nat /\ bytes_ok k /\
    kl_of k mod 8 = 0 /\ 2 ^ 254 <= kl_of k < 2 ^ 254 + 2 ^ 253.
  Proof.
    unfold ByronLegacyDeriv.by_master. destruct by_consts as (-> & _).
    destruct (Nat.eqb_spec (length seed) 32) as [Ls|]; [|discriminate].
    intros H. destruct (by_hash_repeatedly_spec _ _ _ _ _ H) as (n & _ & T & -> & B).
    set (h := hmac_sha512 (cbor_bytes seed) (format_d by_hmac_msg_format n)) in *.
    set (raw := sha512 (firstn 32 h)) in *.
    destruct (tweak_bits by_tweak_ops 128 raw k by_tweak_cert ltac:(lia) (sha512_ok _) ltac:(unfold raw; rewrite sha512_len; lia) T)
      as (L' & O' & _ & M8 & Lo & _ & _).
    unfold raw in L'. rewrite sha512_len in L'.
    split; [exact Ls|]. split; [exact L'|]. split; [rewrite skipn_length; unfold h; rewrite hmac512_len; reflexivity|].
    split; [exact O'|]. split; [exact M8|]. split; [exact Lo|].
    (* byte 31 passes the test after the tweak: it is in [64, 128) with bit 5 clear, hence below 96 *)
    unfold bits_set in B. destruct by_consts as (_ & _ & _ & R31). rewrite R31 in B.
    destruct (nth_error k 31) as [v|] eqn:Ev; [|discriminate]. inversion B as [B']. apply negb_false_iff in B'.
    assert (E31 : nth_error (firstn 32 k) 31 = Some v).
    { rewrite <- (firstn_skipn 32 k) in Ev. rewrite nth_error_app1 in Ev; [exact Ev|rewrite firstn_length; lia]. }
    assert (Hf : bytes_ok (firstn 32 k)) by (apply bytes_ok_firstn; exact O').
    assert (Lf : length (firstn 32 k) = 32%nat) by (rewrite firstn_length; lia).
    destruct (top_byte_bound _ _ Hf Lf E31) as [Bl Bh].
    assert (Hv : v < 256) by exact (bytes_ok_nth _ _ _ O' Ev).
    pose proof by_test_after_tweak as A. rewrite forallb_forall in A. specialize (A (N.to_nat v)).
    rewrite in_seq, Nnat.N2Nat.id in A. specialize (A ltac:(lia)). rewrite B' in A. cbn [negb orb] in A.
    unfold Lemmas.Bip32Kholaw.kl_of in *.
    assert (V : v < 96).
    { apply orb_true_iff in A. destruct A as [A|A]; [|apply N.ltb_lt in A; exact A].
      apply orb_true_iff in A. destruct A as [A|A]; [apply N.ltb_lt in A|apply N.leb_le in A].
      - exfalso. change (2 ^ 254) with (64 * 2 ^ 248) in Lo. assert (0 < 2 ^ 248) by reflexivity. nia.
      - exfalso. assert (le_to_int (firstn 32 k) < 128 * 2 ^ 248).
        { destruct (tweak_bits by_tweak_ops 128 raw k by_tweak_cert ltac:(lia) (sha512_ok _)
                      ltac:(unfold raw; rewrite sha512_len; lia) T) as (_ & _ & _ & _ & _ & Hi & _). exact Hi. }
        assert (0 < 2 ^ 248) by reflexivity. nia. }
    change (2 ^ 254 + 2 ^ 253) with (96 * 2 ^ 248). assert (0 < 2 ^ 248) by reflexivity. nia.
  Qed.

  (* ---------------- children ---------------- *)

  Lemma ser_index_be i : i < 2 ^ 32 -> ser_index by_index_little i = Ok (rev (le_pad 4 i)).
  Proof.
    intros H. unfold ser_index. cbn [by_index_little]. unfold int_to_be_fixed.
    destruct kh_consts as (_ & _ & _ & _ & _ & -> & _). rewrite (le_pad_fixed 4 i H). reflexivity.
  Qed.

  Definition by_step_z (n : node) (k : list N) (i : N) : list N :=
    if is_hardened i then hmac_sha512 (n_cc n) (kh_tag_hard_z ++ k ++ rev (le_pad 4 i))
    else hmac_sha512 (n_cc n) (kh_tag_soft_z ++ n_pub n ++ rev (le_pad 4 i)).
  Definition by_step_cc (n : node) (k : list N) (i : N) : list N :=
    skipn 32 (if is_hardened i then hmac_sha512 (n_cc n) (kh_tag_hard_cc ++ k ++ rev (le_pad 4 i))
              else hmac_sha512 (n_cc n) (kh_tag_soft_cc ++ n_pub n ++ rev (le_pad 4 i))).
  (* the byte-wise 8*ZL of the historical implementation *)
  Definition zl8_bytewise (z : list N) : N := le_to_int (mul_no_carry (firstn 32 z) 8).

  Lemma mod_order_fits v : int_to_le_fixed 32 (v mod ed_order) = Ok (le_pad 32 (v mod ed_order)).
  Proof.
    apply le_pad_fixed. pose proof (mod_order_lt v). pose proof order_lt_256_32 as Q. rewrite ed_coord_len_32 in Q. lia.
  Qed.

  (* child formulas (Byron legacy variant) *)
  Theorem by_ckd_priv_formulas n k i c : i < 2 ^ 32 -> length k = 64%nat -> bytes_ok k ->
    ckd_priv by_derivator n k i = Ok c ->
    let z := by_step_z n k i in
    exists k', n_priv c = Some k' /\ length k' = 64%nat /\
      kl_of k' = (zl8_bytewise z + kl_of k) mod ed_order /\
      skipn 32 k' = add_no_carry (skipn 32 z) (skipn 32 k) /\
      n_cc c = by_step_cc n k i /\ n_depth c = n_depth n + 1 /\
      n_pub c = penc (gmul (kl_of k') gbase).
  Proof.
    intros Hi Lk Ok_k. unfold Bip32Kholaw.ckd_priv.
    cbn [d_ser_index d_new_left d_new_right by_derivator ByronLegacyDeriv.by_derivator].
    rewrite (ser_index_be i Hi). cbn [bind Ok Err].
    cbv zeta. unfold by_step_z, by_step_cc, halves.
    destruct (is_hardened i); cbn [fst snd];
      [set (z := hmac_sha512 (n_cc n) (kh_tag_hard_z ++ k ++ rev (le_pad 4 i)))
      |set (z := hmac_sha512 (n_cc n) (kh_tag_soft_z ++ n_pub n ++ rev (le_pad 4 i)))].
    all: unfold by_new_left, by_new_right, by_zl8.
    all: destruct kh_consts as (HL & _ & _ & _ & _ & _ & _ & _ & -> & _); rewrite HL.
    all: destruct by_consts as (_ & -> & -> & _).
    all: fold (zl8_bytewise z); fold (kl_of k).
    all: rewrite mod_order_fits; cbn [bind Ok Err].
    all: set (kl' := le_pad 32 ((zl8_bytewise z + kl_of k) mod ed_order)).
    all: assert (Hl : (zl8_bytewise z + kl_of k) mod ed_order < 256 ^ N.of_nat 32)
           by (pose proof (mod_order_lt (zl8_bytewise z + kl_of k)); pose proof order_lt_256_32 as Q;
               rewrite ed_coord_len_32 in Q; lia).
    all: destruct (le_pad_props _ _ Hl) as (O1 & L1 & V1); fold kl' in O1, L1, V1.
    all: assert (Lz : length (skipn 32 z) = length (skipn 32 k))
           by (rewrite !skipn_length; unfold z; rewrite hmac512_len; lia).
    all: destruct (add_no_carry_props _ _ Lz) as (L2 & O2).
    all: rewrite skipn_length in L2; unfold z in L2; rewrite hmac512_len in L2; fold z in L2.
    all: intros H; destruct (node_from_priv_ok G gmul gbase g_is_zero penc _ _ _ _ H) as (L & P & C & D & Pub).
    all: exists (kl' ++ add_no_carry (skipn 32 z) (skipn 32 k)).
    all: assert (F1 : firstn 32 (kl' ++ add_no_carry (skipn 32 z) (skipn 32 k)) = kl')
           by (rewrite firstn_app, L1, Nat.sub_diag, firstn_all2 by lia; simpl; apply app_nil_r).
    all: assert (F2 : skipn 32 (kl' ++ add_no_carry (skipn 32 z) (skipn 32 k)) = add_no_carry (skipn 32 z) (skipn 32 k))
           by (rewrite skipn_app, L1, Nat.sub_diag, skipn_all2 by lia; reflexivity).
    all: assert (KL : kl_of (kl' ++ add_no_carry (skipn 32 z) (skipn 32 k)) = (zl8_bytewise z + kl_of k) mod ed_order)
           by (unfold Lemmas.Bip32Kholaw.kl_of at 1; rewrite F1; exact V1).
    all: split; [exact P|]; split; [exact L|]; split; [exact KL|]; split; [exact F2|]; split; [exact C|]; split; [exact D|].
    all: rewrite Pub, KL; f_equal; f_equal; apply sodium_scalar_small; apply mod_order_lt.
  Qed.

  Section Laws.
    Variable gzero : G.
    Hypothesis gmul_add : forall x y P, gmul (x + y) P = gadd (gmul x P) (gmul y P).
    Hypothesis gmul_mul : forall x y P, gmul x (gmul y P) = gmul (x * y) P.
    Hypothesis order_law : gmul ed_order gbase = gzero.
    Hypothesis gmul_zero : forall x, gmul x gzero = gzero.
    Hypothesis gadd_zero_l : forall P, gadd gzero P = P.

    Lemma gmul_mod_order n : gmul (n mod ed_order) gbase = gmul n gbase.
    Proof.
      pose proof ed_order_pos as Hp.
      rewrite (N.div_mod n ed_order) at 2 by lia.
      rewrite gmul_add, (N.mul_comm ed_order), <- gmul_mul, order_law, gmul_zero, gadd_zero_l. reflexivity.
    Qed.

    (* ckd_commutes_byron_legacy: for the scheme as specified (public derivation adds the full 8*ZL multiple
       of G), the soft child of the public half is the public half of the soft child *)
    Theorem by_ckd_commutes n k i c1 c2 : i < 2 ^ 31 -> n_priv n = Some k -> node_wf n -> bytes_ok k ->
      ckd_priv by_derivator n k i = Ok c1 ->
      ckd_pub by_derivator (to_public n) i = Ok c2 ->
      n_pub c1 = n_pub c2 /\ n_cc c1 = n_cc c2 /\ node_wf c1.
    Proof.
      intros Hi P W Ok_k H1 H2. unfold Lemmas.Bip32Kholaw.node_wf in W. rewrite P in W. destruct W as (Lk & Hk & Pub).
      assert (Hi32 : i < 2 ^ 32) by (assert (2 ^ 31 < 2 ^ 32) by reflexivity; lia).
      destruct (by_ckd_priv_formulas n k i c1 Hi32 Lk Ok_k H1) as (k' & P1 & L1 & V1 & _ & C1 & _ & Pub1).
      assert (Hh : is_hardened i = false).
      { unfold is_hardened. destruct kh_consts as (_ & _ & _ & _ & _ & _ & -> & _).
        apply N.testbit_false. rewrite N.div_small by exact Hi. reflexivity. }
      unfold by_step_z, by_step_cc in *. rewrite Hh in *.
      (* the public side *)
      unfold Bip32Kholaw.ckd_pub in H2. rewrite Hh in H2. cbn [negb] in H2.
      cbn [d_ser_index d_pub_scalar_mul by_derivator ByronLegacyDeriv.by_derivator to_public n_pub n_cc n_depth] in H2.
      rewrite (ser_index_be i Hi32) in H2. cbn [bind Ok Err] in H2.
      set (z := hmac_sha512 (n_cc n) (kh_tag_soft_z ++ n_pub n ++ rev (le_pad 4 i))) in *.
      unfold by_pub_scalar_mul, by_zl8 in H2. destruct kh_consts as (HL & _). rewrite HL in H2.
      destruct by_consts as (_ & M8 & _). rewrite M8 in H2. fold (zl8_bytewise z) in H2.
      destruct (int_encode (zl8_bytewise z)); cbn [bind Ok Err] in H2; [|discriminate].
      destruct (_ || _); cbn [bind Ok Err] in H2; [discriminate|].
      unfold add_bytes in H2. rewrite Pub, !pdec_penc in H2. cbn [bind Ok Err] in H2.
      rewrite pdec_penc in H2. cbn [bind Ok Err] in H2.
      destruct (g_is_zero _); cbn [negb bind Ok Err] in H2; [discriminate|].
      unfold Bip32Kholaw.node_from_pub in H2.
      rewrite (pub_from_bytes_valid G pdec _ _ (penc_len _) (pdec_penc _)) in H2. cbn [Bip32Kholaw.key_err bind Ok Err] in H2.
      unfold halves in H2. rewrite HL in H2. cbn [snd] in H2.
      match type of H2 with context [skipn 32 ?h] => set (cc2 := skipn 32 h) in H2 end.
      assert (Ecc : cc2 = skipn 32 (hmac_sha512 (n_cc n) (kh_tag_soft_cc ++ n_pub n ++ rev (le_pad 4 i))))
        by (unfold cc2; rewrite Pub; reflexivity).
      clearbody cc2.
      inversion H2; subst c2; clear H2. cbn [n_pub n_cc].
      split; [|split].
      - rewrite Pub1, V1, gmul_mod_order, N.add_comm, gmul_add. reflexivity.
      - rewrite C1, Ecc. reflexivity.
      - unfold Lemmas.Bip32Kholaw.node_wf. rewrite P1. split; [exact L1|]. split; [|exact Pub1].
        rewrite V1. pose proof (mod_order_lt (zl8_bytewise z + Lemmas.Bip32Kholaw.kl_of k)).
        pose proof ed_order_lt_2_253. assert (2 ^ 253 < 2 ^ 255) by reflexivity. lia.
    Qed.
  End Laws.
End ByronProofs.

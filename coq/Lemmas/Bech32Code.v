(* The checksum layer of the Bech32 family: compute/verify agree, the checksum of a data part is unique.
   Generic part over Lemmas/Bech32Poly.v, then the Bech32/Bech32m and CashAddr instances over the constants
   of Gen/Bech32Consts.v. *)
From Coq Require Import NArith Arith List Lia Bool.
From BU Require Import Base.Exn Base.Bytes Gen.Bech32Consts Model.Bech32
  Lemmas.Bech32Bits Lemmas.Bech32Poly Lemmas.Bech32ConstsOk.
Import ListNotations.
Open Scope N_scope.

Section Code.
  Variable gens : list (N * N).
  Variables shift sb init K : N.
  Variable cklen : nat.
  Notation W := (shift + sb).
  Hypothesis gens_small : Forall (fun g => snd g < 2 ^ W) gens.
  Hypothesis cklen_pos : (1 <= cklen)%nat.
  Hypothesis shift_eq : shift = sb * (N.of_nat cklen - 1).
  Hypothesis init_small : init < 2 ^ W.
  Hypothesis K_small : K < 2 ^ W.

  Notation pm := (pm_from gens shift (N.ones shift) sb).
  Notation pmr := (polymod_raw gens init shift (N.ones shift) sb).
  Notation digits := (cs_digits sb (N.of_nat cklen - 1) (N.ones sb) cklen).
  Notation small := (fun v => v < 2 ^ sb).

  Lemma small_W l : Forall small l -> Forall (fun v => v < 2 ^ W) l.
  Proof. apply Forall_impl. intros a Ha. eapply lt_pow2_mono; [exact Ha|lia]. Qed.

  Lemma zeros_W k : Forall (fun v => v < 2 ^ W) (repeat 0 k).
  Proof. apply Forall_forall. intros x Hx. apply repeat_spec in Hx. subst x. apply N.neq_0_lt_0, N.pow_nonzero. discriminate. Qed.

  Definition checksum_of (pre : list N) : list N := digits (N.lxor (pmr (pre ++ repeat 0 cklen)) K).

  Lemma checksum_of_length pre : length (checksum_of pre) = cklen.
  Proof. apply digits_length. Qed.
  Lemma checksum_of_small pre : Forall small (checksum_of pre).
  Proof. apply digits_small. Qed.

  Lemma code_verify_compute pre : Forall (fun v => v < 2 ^ W) pre -> pmr (pre ++ checksum_of pre) = K.
  Proof.
    intros Hp. unfold checksum_of, polymod_raw. rewrite !pm_app.
    set (c0 := pm init pre). assert (Hc0 : c0 < 2 ^ W) by (apply pm_lt; assumption).
    rewrite (pm_append_digits gens shift sb cklen cklen_pos shift_eq).
    - rewrite <- N.lxor_assoc, N.lxor_nilpotent, N.lxor_0_l. reflexivity.
    - apply lxor_lt; [|assumption]. apply pm_lt; [assumption|assumption|apply zeros_W].
  Qed.

  Lemma code_unique pre cs : Forall (fun v => v < 2 ^ W) pre -> length cs = cklen -> Forall small cs ->
    pmr (pre ++ cs) = K -> cs = checksum_of pre.
  Proof.
    intros Hp Lc Hc E. pose proof (code_verify_compute pre Hp) as V.
    unfold polymod_raw in *. rewrite pm_app in E, V.
    apply (checksum_unique gens shift sb cklen cklen_pos shift_eq (pm init pre));
      [assumption|apply checksum_of_length|assumption|apply checksum_of_small|congruence].
  Qed.
End Code.

(* ------------------------------------------------------------------ Bech32 / Bech32m *)
Notation W32 := (bech32_pm_shift + bech32_pm_symbits).

Definition hrp_chars_ok (hrp : list N) : Prop :=
  Forall (fun x => bech32_hrp_min_cp <= x <= bech32_hrp_max_cp) hrp.

Lemma shiftr_lt_same x n k : x < 2 ^ n -> N.shiftr x k < 2 ^ n.
Proof.
  intros H. apply lt_pow2_bits. intros i Hi. rewrite N.shiftr_spec'. apply (proj1 (lt_pow2_bits x n) H). lia.
Qed.

Lemma b32_polymod_eq v :
  b32_polymod v = polymod_raw b32_gens bech32_pm_init bech32_pm_shift (N.ones bech32_pm_shift) bech32_pm_symbits v.
Proof. reflexivity. Qed.

Lemma b32_hrp_expand_small hrp : hrp_chars_ok hrp -> Forall (fun v => v < 2 ^ W32) (b32_hrp_expand hrp).
Proof.
  intros H. unfold hrp_chars_ok in H. unfold b32_hrp_expand. destruct b32_small_consts as (_ & _ & _ & Hmax & Hsep & _).
  apply Forall_app. split; [|apply Forall_app; split].
  - apply Forall_forall. intros y Hy. apply in_map_iff in Hy. destruct Hy as (x & <- & Hx).
    rewrite Forall_forall in H. specialize (H x Hx). apply shiftr_lt_same. lia.
  - constructor; [assumption|constructor].
  - apply Forall_forall. intros y Hy. apply in_map_iff in Hy. destruct Hy as (x & <- & Hx).
    apply lt_pow2_bits. intros i Hi. rewrite N.land_spec.
    assert (Hm : bech32_hrp_mask < 2 ^ W32) by reflexivity.
    rewrite (proj1 (lt_pow2_bits _ _) Hm i Hi). apply andb_false_r.
Qed.

Definition small32 (l : list N) : Prop := Forall (fun v => v < 32) l.

Lemma small32_W l : small32 l -> Forall (fun v => v < 2 ^ W32) l.
Proof. apply Forall_impl. intros a Ha. eapply N.lt_trans; [exact Ha|reflexivity]. Qed.

Lemma b32_compute_eq K hrp data :
  b32_compute_checksum K hrp data =
  checksum_of b32_gens bech32_pm_shift bech32_pm_symbits bech32_pm_init K bech32_cklen (b32_hrp_expand hrp ++ data).
Proof. reflexivity. Qed.

Lemma b32_compute_length K hrp data : length (b32_compute_checksum K hrp data) = bech32_cklen.
Proof. rewrite b32_compute_eq. apply checksum_of_length. Qed.

Lemma b32_compute_small K hrp data : small32 (b32_compute_checksum K hrp data).
Proof. rewrite b32_compute_eq. apply (checksum_of_small b32_gens bech32_pm_shift bech32_pm_symbits). Qed.

Section B32.
  Variable K : N.
  Hypothesis K_small : K < 2 ^ W32.

  Theorem b32_verify_compute hrp data : hrp_chars_ok hrp -> small32 data ->
    b32_verify_checksum K hrp (data ++ b32_compute_checksum K hrp data) = true.
  Proof.
    intros Hh Hd. unfold b32_verify_checksum. apply N.eqb_eq. rewrite b32_compute_eq, b32_polymod_eq, app_assoc.
    apply code_verify_compute;
      [apply b32_gens_small|apply b32_cklen_pos|apply b32_shift_eq|apply b32_small_consts|assumption|].
    apply Forall_app. split; [apply b32_hrp_expand_small; assumption|apply small32_W; assumption].
  Qed.

  Theorem b32_checksum_unique hrp data cs : hrp_chars_ok hrp -> small32 data -> length cs = bech32_cklen ->
    small32 cs -> b32_verify_checksum K hrp (data ++ cs) = true -> cs = b32_compute_checksum K hrp data.
  Proof.
    intros Hh Hd Lc Hc V. unfold b32_verify_checksum in V. apply N.eqb_eq in V.
    rewrite b32_polymod_eq, app_assoc in V. rewrite b32_compute_eq.
    apply (code_unique b32_gens bech32_pm_shift bech32_pm_symbits bech32_pm_init K bech32_cklen);
      try assumption; [apply b32_gens_small|apply b32_cklen_pos|apply b32_shift_eq|apply b32_small_consts|].
    apply Forall_app. split; [apply b32_hrp_expand_small; assumption|apply small32_W; assumption].
  Qed.
End B32.

Lemma bech32_const_small : bech32_const < 2 ^ W32.
Proof. apply b32_small_consts. Qed.
Lemma bech32m_const_small : bech32m_const < 2 ^ W32.
Proof. apply b32_small_consts. Qed.

(* ------------------------------------------------------------------ CashAddr *)
Notation W40 := (cash_pm_shift + cash_pm_symbits).

Lemma cash_hrp_expand_small hrp : Forall (fun v => v < 2 ^ W40) (cash_hrp_expand hrp).
Proof.
  unfold cash_hrp_expand. destruct cash_small_consts as (_ & _ & Hsep & _ & _ & Hm).
  apply Forall_app. split.
  - apply Forall_forall. intros y Hy. apply in_map_iff in Hy. destruct Hy as (x & <- & Hx).
    apply lt_pow2_bits. intros i Hi. rewrite N.land_spec.
    rewrite (proj1 (lt_pow2_bits _ _) Hm i Hi). apply andb_false_r.
  - constructor; [assumption|constructor].
Qed.

Lemma small32_W40 l : small32 l -> Forall (fun v => v < 2 ^ W40) l.
Proof. apply Forall_impl. intros a Ha. eapply N.lt_trans; [exact Ha|reflexivity]. Qed.

Lemma cash_compute_eq hrp data :
  cash_compute_checksum hrp data =
  checksum_of cash_gen cash_pm_shift cash_pm_symbits cash_pm_init cash_pm_final cash_cklen (cash_hrp_expand hrp ++ data).
Proof. reflexivity. Qed.

Lemma cash_compute_length hrp data : length (cash_compute_checksum hrp data) = cash_cklen.
Proof. rewrite cash_compute_eq. apply checksum_of_length. Qed.

Lemma cash_compute_small hrp data : small32 (cash_compute_checksum hrp data).
Proof. rewrite cash_compute_eq. apply (checksum_of_small cash_gen cash_pm_shift cash_pm_symbits). Qed.

Lemma cash_verify_iff hrp data :
  cash_verify_checksum hrp data = true <->
  polymod_raw cash_gen cash_pm_init cash_pm_shift (N.ones cash_pm_shift) cash_pm_symbits (cash_hrp_expand hrp ++ data) = cash_pm_final.
Proof.
  unfold cash_verify_checksum, cash_polymod. rewrite N.eqb_eq.
  change cash_pm_mask with (N.ones cash_pm_shift). change cash_verify_const with 0.
  rewrite N.lxor_eq_0_iff. reflexivity.
Qed.

Theorem cash_verify_compute hrp data : small32 data ->
  cash_verify_checksum hrp (data ++ cash_compute_checksum hrp data) = true.
Proof.
  intros Hd. apply cash_verify_iff. rewrite cash_compute_eq, app_assoc.
  apply code_verify_compute;
    [apply cash_gens_small|apply cash_cklen_pos|apply cash_shift_eq|apply cash_small_consts|apply cash_small_consts|].
  apply Forall_app. split; [apply cash_hrp_expand_small|apply small32_W40; assumption].
Qed.

Theorem cash_checksum_unique hrp data cs : small32 data -> length cs = cash_cklen ->
  small32 cs -> cash_verify_checksum hrp (data ++ cs) = true -> cs = cash_compute_checksum hrp data.
Proof.
  intros Hd Lc Hc V. apply cash_verify_iff in V. rewrite app_assoc in V. rewrite cash_compute_eq.
  apply (code_unique cash_gen cash_pm_shift cash_pm_symbits cash_pm_init cash_pm_final cash_cklen);
    try assumption; [apply cash_gens_small|apply cash_cklen_pos|apply cash_shift_eq|apply cash_small_consts|apply cash_small_consts|].
  apply Forall_app. split; [apply cash_hrp_expand_small|apply small32_W40; assumption].
Qed.
